#!/bin/sh
# Build the framework from files on disk only (offline): the Coq theories of every registered
# check and the Rust harness binaries they use.  (Files of checks that are not registered in
# MANIFEST.json are not built here.)
set -e
cd "$(dirname "$0")"
export CARGO_NET_OFFLINE=true
python3 - <<'PY'
import importlib, json, sys
sys.path.insert(0, ".")
from vlib import core
man = json.load(open("MANIFEST.json"))
ids = [c["property_id"] for c in man["checks"]]
targets, bins = [], []
for pid in ids:
    m = importlib.import_module("checks." + pid.lower()).META
    targets.append("Props/%s.vo" % pid)
    for b in m.get("bins", []):
        if b not in bins:
            bins.append(b)
rc, out, dt = core.coq_make(None, timeout=5400)          # the whole development (models, lemmas, property theories)
print(out[-2000:])
print("coq build of everything: rc=%d in %.0fs" % (rc, dt))
if rc != 0:
    # fall back to the registered checks' own theories so that one broken file cannot block all checks
    rc, out, dt = core.coq_make(["-k"] + targets, timeout=5400)
    print(out[-3000:])
    print("coq build of %s: rc=%d in %.0fs" % (targets, rc, dt))
    if rc != 0:
        sys.exit(1)
dt = core.build_harness(bins=bins or ["ping"], timeout=5400)
print("harness build (%s) in %.0fs" % (bins, dt))
PY
