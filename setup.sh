#!/bin/sh
# Build the framework from files on disk only (offline): all Coq theories and the Rust harness.
set -e
cd "$(dirname "$0")"
export CARGO_NET_OFFLINE=true
python3 - <<'PY'
import sys
sys.path.insert(0, ".")
from vlib import core
rc, out, dt = core.coq_make(None, timeout=5400)
print(out[-3000:])
print("coq build rc=%d in %.0fs" % (rc, dt))
if rc != 0:
    sys.exit(1)
dt = core.build_harness(timeout=5400)
print("harness build in %.0fs" % dt)
PY
