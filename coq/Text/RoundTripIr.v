(** * Text.RoundTripIr — name resolution inverts the writer's naming scheme:
    [resolve (unresolve p) = Some p] for every well-formed lowered program (C22, binder and
    item-name half). *)

From Coq Require Import List NArith Bool Arith PeanoNat Lia.
Import ListNotations.
From Chalk Require Import Text.Syntax22 Text.TokEq Text.Print Text.Parse.

Definition all {A} (P : A -> Prop) : list A -> Prop :=
  fix go l := match l with [] => True | x :: r => P x /\ go r end.

Lemma all_In A (P : A -> Prop) l x : all P l -> In x l -> P x.
Proof. induction l as [|y r IH]; cbn; [tauto|]. intros [H1 H2] [->|H]; auto. Qed.

Lemma omap_map_id A B (f : A -> option B) (g : B -> A) l :
  (forall x, In x l -> f (g x) = Some x) -> omap f (map g l) = Some l.
Proof.
  induction l as [|x r IH]; intros H; [reflexivity|].
  cbn [map omap]. rewrite H by now left. cbn [obind].
  change ((fix go (l : list A) : option (list B) :=
             match l with [] => Some [] | x0 :: r0 => ' y <- f x0;; ' ys <- go r0;; Some (y :: ys) end) (map g r))
    with (omap f (map g r)).
  rewrite IH; [reflexivity|]. intros; apply H; now right.
Qed.

(* ------------------------------------------------------------------------------------- *)
(** ** Well-formed lowered programs *)

Section WF.
  Variable p : program.

  Definition struct_kinds (id : nat) : option (list kind) :=
    match nth_error p id with Some (IStruct _ ps _ _ _) => Some ps | Some (IEnum _ ps _ _ _) => Some ps | _ => None end.
  Definition trait_kinds (id : nat) : option (list kind) :=
    match nth_error p id with Some (ITrait _ ps _ _) => Some ps | _ => None end.

  (** a variable is bound by an open level and has the expected kind *)
  Definition var_ok (scopes : list (list kind)) (kd : kind) (v : ivar) : Prop :=
    fst v < length scopes /\ scope_kind scopes (length scopes - fst v) (snd v) = Some kd.

  (** a type variable: any of the three type kinds *)
  Definition tvar_ok (scopes : list (list kind)) (v : ivar) : Prop :=
    fst v < length scopes /\
    exists kd, scope_kind scopes (length scopes - fst v) (snd v) = Some kd /\ is_ty_kind kd = true.

  Definition wf_konst (scopes : list (list kind)) (c : ikonst) : Prop :=
    match c with CVar v => var_ok scopes KConst v | CVal _ => True end.

  Definition wf_lt (scopes : list (list kind)) (l : ilt) : Prop :=
    match l with LVar v => var_ok scopes KLt v | _ => True end.

  (** [dyn] inside the arguments of a [dyn] bound is rejected by the real lowering (both levels
      bind the same hidden name), and lowering orders the bounds of a [dyn]: non-auto traits
      first, then auto traits by id *)
  Fixpoint has_dyn (t : ity) : bool :=
    match t with
    | TDyn _ _ => true
    | TAdt _ args => existsb has_dyn_garg args
    | TTuple ts => existsb has_dyn ts
    | TRef _ _ t | TRaw _ t | TSlice t | TArray t _ => has_dyn t
    | TFn _ _ _ args ret => existsb has_dyn args || has_dyn ret
    | _ => false
    end
  with has_dyn_garg (a : igarg) : bool := match a with GTy t => has_dyn t | _ => false end.

  Definition trait_auto (id : nat) : bool :=
    match nth_error p id with Some (ITrait _ _ fl _) => fl.(tf_auto) | _ => false end.
  Fixpoint dyn_sorted (last_auto : option nat) (trs : list nat) : bool :=
    match trs with
    | [] => true
    | tr :: r =>
        if trait_auto tr then
          match last_auto with Some a => Nat.leb a tr | None => true end && dyn_sorted (Some tr) r
        else match last_auto with Some _ => false | None => dyn_sorted None r end
    end.
  Definition dbound_trait (b : idbound) : nat := match b with DB _ tr _ => tr end.
  Definition dbound_args (b : idbound) : list igarg := match b with DB _ _ args => args end.

  Fixpoint wf_ty (scopes : list (list kind)) (t : ity) {struct t} : Prop :=
    match t with
    | TVar v => tvar_ok scopes v
    | TAdt id args =>
        (exists ks, struct_kinds id = Some ks /\ map kclass ks = map garg_kind args) /\ all (wf_garg scopes) args
    | TScalar _ => True
    | TTuple ts => all (wf_ty scopes) ts
    | TRef _ l t => wf_lt scopes l /\ wf_ty scopes t
    | TRaw _ t | TSlice t => wf_ty scopes t
    | TArray t c => wf_ty scopes t /\ wf_konst scopes c
    | TStr | TNever => True
    | TFn nb _ _ args ret => all (wf_ty (scopes ++ [repeat KLt nb])) args /\ wf_ty (scopes ++ [repeat KLt nb]) ret
    | TDyn bounds l =>
        all (wf_dbound (scopes ++ [[]])) bounds /\ wf_lt scopes l /\
        dyn_sorted None (map dbound_trait bounds) = true /\
        existsb (fun b => existsb has_dyn_garg (dbound_args b)) bounds = false
    end
  with wf_garg (scopes : list (list kind)) (a : igarg) {struct a} : Prop :=
    match a with
    | GTy t => wf_ty scopes t
    | GLt l => wf_lt scopes l
    | GCVal _ => True
    | GCVar v => var_ok scopes KConst v
    end
  with wf_dbound (scopes : list (list kind)) (b : idbound) {struct b} : Prop :=
    match b with
    | DB ks tr args =>
        (exists tks, trait_kinds tr = Some tks /\ map kclass tks = map garg_kind args) /\
        all (wf_garg (scopes ++ [ks])) args
    end.

  Definition wf_trait_ref (scopes : list (list kind)) (tr : nat) (args : list igarg) : Prop :=
    (exists ks, trait_kinds tr = Some ks /\ map kclass ks = map garg_kind args) /\ all (wf_garg scopes) args.

  Definition wf_wc (scopes : list (list kind)) (w : iwc) : Prop :=
    match w with
    | WImpl self tr args => wf_ty scopes self /\ wf_trait_ref scopes tr args
    | WLtOut a b => wf_lt scopes a /\ wf_lt scopes b
    | WTyOut t l => wf_ty scopes t /\ wf_lt scopes l
    end.

  Definition wf_qwc (scopes : list (list kind)) (q : iqwc) : Prop := wf_wc (scopes ++ [fst q]) (snd q).

  Definition wf_item (it : iitem) : Prop :=
    match it with
    | IStruct _ ps _ fields wcs => all (wf_ty [ps]) fields /\ all (wf_qwc [ps]) wcs
    | IEnum _ ps _ variants wcs => all (all (wf_ty [ps])) variants /\ all (wf_qwc [ps]) wcs
    | ITrait _ ps _ wcs => all (wf_qwc [KTy :: ps]) wcs
    | IImpl ps _ _ tr args self wcs => wf_trait_ref [ps] tr args /\ wf_ty [ps] self /\ all (wf_qwc [ps]) wcs
    end.
End WF.

(** headers read off the lowered program *)
Fixpoint iheaders (struct_ : bool) (i : nat) (p : program) : list header :=
  match p with
  | [] => []
  | IStruct n ps _ _ _ :: r => (if struct_ then [{| h_name := n; h_id := i; h_kinds := ps |}] else []) ++ iheaders struct_ (S i) r
  | IEnum n ps _ _ _ :: r => (if struct_ then [{| h_name := n; h_id := i; h_kinds := ps |}] else []) ++ iheaders struct_ (S i) r
  | ITrait n ps _ _ :: r => (if struct_ then [] else [{| h_name := n; h_id := i; h_kinds := ps |}]) ++ iheaders struct_ (S i) r
  | IImpl _ _ _ _ _ _ _ :: r => iheaders struct_ (S i) r
  end.

(** the names of the structs are pairwise distinct, and so are the names of the traits
    (the real writer guarantees this by suffixing clashing names; a parameter can never clash
    with an item because the model's tokens keep the two apart -- see the recorded finding
    about items called [_1_0]) *)
Definition wf_names (p : program) : Prop :=
  NoDup (map h_name (iheaders true 0 p)) /\ NoDup (map h_name (iheaders false 0 p)).

Definition wf (p : program) : Prop := wf_names p /\ all (wf_item p) p.

(* ------------------------------------------------------------------------------------- *)
(** ** Headers *)

Lemma headers_unresolve b names : forall p i, headers b i (map (u_item names) p) = iheaders b i p.
Proof. induction p as [|it r IH]; intros i; [reflexivity|]. destruct it; cbn; rewrite IH; reflexivity. Qed.

Lemma find_header_In h hs :
  NoDup (map h_name hs) -> In h hs -> find_header h.(h_name) hs = Some h.
Proof.
  induction hs as [|x r IH]; cbn; [tauto|]. intros Hnd [->|Hin].
  - now rewrite N.eqb_refl.
  - inversion Hnd; subst. destruct (N.eqb (h_name h) (h_name x)) eqn:E; [|auto].
    apply N.eqb_eq in E. exfalso. apply H1. rewrite <- E. now apply in_map.
Qed.

Lemma iheaders_struct_In p : forall i id name ps fl fs wcs,
  nth_error p id = Some (IStruct name ps fl fs wcs) ->
  In {| h_name := name; h_id := i + id; h_kinds := ps |} (iheaders true i p).
Proof.
  induction p as [|it r IH]; intros i [|id] *; cbn [nth_error]; try discriminate.
  - intros [= ->]. cbn. rewrite Nat.add_0_r. now left.
  - intros H. specialize (IH (S i) id _ _ _ _ _ H). replace (i + S id) with (S i + id) by lia.
    destruct it; cbn; auto.
Qed.

Lemma iheaders_enum_In p : forall i id name ps fl vs wcs,
  nth_error p id = Some (IEnum name ps fl vs wcs) ->
  In {| h_name := name; h_id := i + id; h_kinds := ps |} (iheaders true i p).
Proof.
  induction p as [|it r IH]; intros i [|id] *; cbn [nth_error]; try discriminate.
  - intros [= ->]. cbn. rewrite Nat.add_0_r. now left.
  - intros H. specialize (IH (S i) id _ _ _ _ _ H). replace (i + S id) with (S i + id) by lia.
    destruct it; cbn; auto.
Qed.

Lemma iheaders_trait_In p : forall i id name ps fl wcs,
  nth_error p id = Some (ITrait name ps fl wcs) ->
  In {| h_name := name; h_id := i + id; h_kinds := ps |} (iheaders false i p).
Proof.
  induction p as [|it r IH]; intros i [|id] *; cbn [nth_error]; try discriminate.
  - intros [= ->]. cbn. rewrite Nat.add_0_r. now left.
  - intros H. specialize (IH (S i) id _ _ _ _ H). replace (i + S id) with (S i + id) by lia.
    destruct it; cbn; auto.
Qed.

Lemma name_of_nth p id it : nth_error p id = Some it -> name_of (map item_name p) id = item_name it.
Proof.
  intros H. unfold name_of. apply nth_error_nth. rewrite nth_error_map, H. reflexivity.
Qed.

Lemma kinds_eqb_refl l : kinds_eqb l l = true.
Proof. induction l as [|[] r IH]; cbn; auto. Qed.

(* ------------------------------------------------------------------------------------- *)
(** ** Variables *)

Section Vars.
  Variable in_trait : bool.

  Lemma r_var_u_var scopes v :
    tvar_ok scopes v -> r_var in_trait scopes (u_var in_trait (length scopes) v) = Some v.
  Proof.
    destruct v as [d i]. unfold tvar_ok, u_var. cbn [fst snd]. intros [Hd [kd [Hk Hty]]].
    destruct (in_trait && Nat.eqb (length scopes - d) 1 && Nat.eqb i 0)%bool eqn:E.
    - apply andb_true_iff in E. destruct E as [E Ei]. apply andb_true_iff in E. destruct E as [Et Ed].
      apply Nat.eqb_eq in Ei, Ed. subst i. cbn [r_var]. rewrite Et.
      destruct scopes as [|s r]; [cbn in Hd; lia|]. f_equal. f_equal. cbn [length] in *. lia.
    - cbn [r_var]. rewrite E. rewrite Hk, Hty. f_equal. f_equal. lia.
  Qed.

  Lemma r_lt_u_lt scopes l : wf_lt scopes l -> r_lt scopes (u_lt (length scopes) l) = Some l.
  Proof.
    destruct l as [[d i]| |]; cbn; try reflexivity.
    unfold var_ok. cbn [fst snd]. intros [Hd Hk]. rewrite Hk. f_equal. f_equal. f_equal. lia.
  Qed.

  Lemma r_konst_u_konst scopes c : wf_konst scopes c -> r_konst scopes (u_konst (length scopes) c) = Some c.
  Proof.
    destruct c as [[d i]|n]; cbn; try reflexivity.
    unfold var_ok. cbn [fst snd]. intros [Hd Hk]. rewrite Hk. f_equal. f_equal. f_equal. lia.
  Qed.

  Lemma bare_const_u_ty names p scopes t :
    wf_ty p scopes t -> bare_const scopes (u_ty names in_trait (length scopes) t) = None.
  Proof.
    destruct t; cbn [u_ty bare_const]; try reflexivity.
    destruct v as [d i]. unfold tvar_ok, u_var. cbn [fst snd wf_ty]. intros [Hd [kd [Hk Hty]]].
    destruct (in_trait && Nat.eqb (length scopes - d) 1 && Nat.eqb i 0)%bool; [reflexivity|].
    cbn [fst snd] in Hk. rewrite Hk. destruct kd; try reflexivity; discriminate.
  Qed.
End Vars.

(* ------------------------------------------------------------------------------------- *)
(** ** Types, where clauses, items *)

Section Types.
  Variable p : program.
  Hypothesis Hnames : wf_names p.
  Let names := map item_name p.
  Let structs := iheaders true 0 p.
  Let traits := iheaders false 0 p.
  Variable in_trait : bool.

  Lemma find_struct id ks :
    struct_kinds p id = Some ks ->
    find_header (name_of names id) structs = Some {| h_name := name_of names id; h_id := id; h_kinds := ks |}.
  Proof.
    unfold struct_kinds. destruct (nth_error p id) as [[name ps fl fs wcs|name ps fl vs wcs| |]|] eqn:E; try discriminate.
    - intros [= <-]. unfold names. rewrite (name_of_nth p id _ E). cbn [item_name].
      apply (find_header_In {| h_name := name; h_id := id; h_kinds := ps |}); [apply Hnames|].
      apply (iheaders_struct_In p 0 id name ps fl fs wcs E).
    - intros [= <-]. unfold names. rewrite (name_of_nth p id _ E). cbn [item_name].
      apply (find_header_In {| h_name := name; h_id := id; h_kinds := ps |}); [apply Hnames|].
      apply (iheaders_enum_In p 0 id name ps fl vs wcs E).
  Qed.

  Lemma find_trait id ks :
    trait_kinds p id = Some ks ->
    find_header (name_of names id) traits = Some {| h_name := name_of names id; h_id := id; h_kinds := ks |}.
  Proof.
    unfold trait_kinds. destruct (nth_error p id) as [[| | name ps fl wcs|]|] eqn:E; try discriminate.
    intros [= <-]. unfold names. rewrite (name_of_nth p id _ E). cbn [item_name].
    apply (find_header_In {| h_name := name; h_id := id; h_kinds := ps |}); [apply Hnames|].
    apply (iheaders_trait_In p 0 id name ps fl wcs E).
  Qed.

  Fixpoint isize_ty (t : ity) : nat :=
    match t with
    | TVar _ | TScalar _ => 1
    | TAdt _ args => S (list_sum (map isize_garg args))
    | TTuple ts => S (list_sum (map isize_ty ts))
    | TRef _ _ t | TRaw _ t | TSlice t | TArray t _ => S (isize_ty t)
    | TStr | TNever => 1
    | TFn _ _ _ args ret => S (list_sum (map isize_ty args) + isize_ty ret)
    | TDyn bs _ => S (list_sum (map isize_dbound bs))
    end
  with isize_garg (a : igarg) : nat := match a with GTy t => S (isize_ty t) | _ => 1 end
  with isize_dbound (b : idbound) : nat := match b with DB _ _ args => S (list_sum (map isize_garg args)) end.

  Lemma in_list_sum A (f : A -> nat) x l : In x l -> f x <= list_sum (map f l).
  Proof. unfold list_sum. induction l; cbn; [tauto|]. intros [->|H]; [lia|]. apply IHl in H. lia. Qed.

  Lemma types_resolve n :
    (forall t scopes, isize_ty t <= n -> wf_ty p scopes t ->
       r_ty structs traits in_trait scopes (u_ty names in_trait (length scopes) t) = Some t) /\
    (forall a scopes, isize_garg a <= n -> wf_garg p scopes a ->
       r_garg structs traits in_trait scopes (u_garg names in_trait (length scopes) a) = Some a) /\
    (forall b scopes, isize_dbound b <= n -> wf_dbound p scopes b ->
       r_dbound structs traits in_trait scopes (u_dbound names in_trait (S (length scopes)) b) = Some b).
  Proof.
    induction n as [|n [IHt [IHa IHb]]].
    { repeat split; intros x sc H; destruct x; cbn in H; lia. }
    assert (Hargs : forall args scopes, list_sum (map isize_garg args) <= n -> all (wf_garg p scopes) args ->
               omap (r_garg structs traits in_trait scopes) (map (u_garg names in_trait (length scopes)) args) = Some args).
    { intros args scopes Hs Hw. apply omap_map_id. intros a Ha. apply IHa.
      - pose proof (in_list_sum _ isize_garg a args Ha). lia.
      - eapply all_In; eauto. }
    repeat split.
    - intros t scopes Hs Hw. destruct t as [v|id args|s|ts|m l t|m t|t|t c| | |nb u va fargs ret|bs l]; cbn [isize_ty] in Hs; cbn [wf_ty] in Hw; cbn [u_ty r_ty].
      + rewrite r_var_u_var by exact Hw. reflexivity.
      + destruct Hw as [[ks [Hk Hks]] Ha]. rewrite (find_struct id _ Hk). cbn [obind].
        change ((fix go (l : list agarg) : option (list igarg) :=
                   match l with [] => Some [] | x :: r => ' y <- r_garg structs traits in_trait scopes x;; ' ys <- go r;; Some (y :: ys) end)
                  (map (u_garg names in_trait (length scopes)) args))
          with (omap (r_garg structs traits in_trait scopes) (map (u_garg names in_trait (length scopes)) args)).
        rewrite Hargs; [|lia|exact Ha]. cbn [obind h_kinds h_id]. rewrite Hks, kinds_eqb_refl. reflexivity.
      + reflexivity.
      + change ((fix go (l : list aty) : option (list ity) :=
                   match l with [] => Some [] | x :: r => ' y <- r_ty structs traits in_trait scopes x;; ' ys <- go r;; Some (y :: ys) end)
                  (map (u_ty names in_trait (length scopes)) ts))
          with (omap (r_ty structs traits in_trait scopes) (map (u_ty names in_trait (length scopes)) ts)).
        rewrite omap_map_id; [reflexivity|]. intros x Hx. apply IHt.
        * pose proof (in_list_sum _ isize_ty x ts Hx). lia.
        * eapply all_In; eauto.
      + destruct Hw as [Hl Ht]. rewrite r_lt_u_lt by exact Hl. cbn [obind].
        rewrite IHt; [reflexivity|lia|exact Ht].
      + rewrite IHt; [reflexivity|lia|exact Hw].
      + rewrite IHt; [reflexivity|lia|exact Hw].
      + destruct Hw as [Ht Hc]. rewrite IHt; [|lia|exact Ht]. cbn [obind]. rewrite r_konst_u_konst by exact Hc. reflexivity.
      + reflexivity.
      + reflexivity.
      + destruct Hw as [Ha Hr].
        assert (El : S (length scopes) = length (scopes ++ [repeat KLt nb])) by (rewrite app_length; cbn; lia).
        rewrite El.
        change ((fix go (l : list aty) : option (list ity) :=
                   match l with [] => Some [] | x :: r => ' y <- r_ty structs traits in_trait (scopes ++ [repeat KLt nb]) x;; ' ys <- go r;; Some (y :: ys) end)
                  (map (u_ty names in_trait (length (scopes ++ [repeat KLt nb]))) fargs))
          with (omap (r_ty structs traits in_trait (scopes ++ [repeat KLt nb])) (map (u_ty names in_trait (length (scopes ++ [repeat KLt nb]))) fargs)).
        rewrite omap_map_id.
        * cbn [obind]. rewrite IHt; [reflexivity|lia|exact Hr].
        * intros x Hx. apply IHt; [pose proof (in_list_sum _ isize_ty x fargs Hx); lia|eapply all_In; eauto].
      + destruct Hw as [Hb [Hl _]].
        assert (El : S (S (length scopes)) = S (length (scopes ++ [[]]))) by (rewrite app_length; cbn; lia).
        rewrite El.
        change ((fix go (l0 : list adbound) : option (list idbound) :=
                   match l0 with [] => Some [] | x :: r => ' y <- r_dbound structs traits in_trait (scopes ++ [[]]) x;; ' ys <- go r;; Some (y :: ys) end)
                  (map (u_dbound names in_trait (S (length (scopes ++ [[]])))) bs))
          with (omap (r_dbound structs traits in_trait (scopes ++ [[]])) (map (u_dbound names in_trait (S (length (scopes ++ [[]])))) bs)).
        rewrite omap_map_id.
        * cbn [obind]. rewrite r_lt_u_lt by exact Hl. reflexivity.
        * intros x Hx. apply IHb; [pose proof (in_list_sum _ isize_dbound x bs Hx); lia|eapply all_In; eauto].
    - intros a scopes Hs Hw. destruct a as [t|l|nn|v]; cbn [isize_garg] in Hs.
      + change (wf_ty p scopes t) in Hw.
        change (match bare_const scopes (u_ty names in_trait (length scopes) t) with
                | Some v => Some (GCVar v : igarg)
                | None => ' t' <- r_ty structs traits in_trait scopes (u_ty names in_trait (length scopes) t);; Some (GTy t' : igarg)
                end = Some (GTy t)).
        rewrite (bare_const_u_ty in_trait names p scopes t Hw). rewrite IHt; [reflexivity|lia|exact Hw].
      + change (wf_lt scopes l) in Hw.
        change (' l' <- r_lt scopes (u_lt (length scopes) l);; Some (GLt l' : igarg) = Some (GLt l)).
        rewrite r_lt_u_lt by exact Hw. reflexivity.
      + reflexivity.
      + change (var_ok scopes KConst v) in Hw.
        change (match bare_const scopes (TVar (AV (length scopes - fst v) (snd v))) with
                | Some v' => Some (GCVar v' : igarg)
                | None => ' t' <- r_ty structs traits in_trait scopes (TVar (AV (length scopes - fst v) (snd v)));; Some (GTy t' : igarg)
                end = Some (GCVar v)).
        destruct v as [d i]. unfold var_ok in Hw. cbn [fst snd] in *. destruct Hw as [Hd Hk].
        cbn [bare_const]. rewrite Hk. f_equal. f_equal. f_equal. lia.
    - intros b scopes Hs Hw. destruct b as [ks tr args]. cbn [isize_dbound] in Hs.
      change ((exists tks, trait_kinds p tr = Some tks /\ map kclass tks = map garg_kind args) /\ all (wf_garg p (scopes ++ [ks])) args) in Hw.
      destruct Hw as [[tks [Hk Hks]] Ha].
      assert (El : S (length scopes) = length (scopes ++ [ks])) by (rewrite app_length; cbn; lia).
      change (' h <- find_header (name_of names tr) traits;;
              ' args' <- omap (r_garg structs traits in_trait (scopes ++ [ks])) (map (u_garg names in_trait (S (length scopes))) args);;
              (if kinds_eqb (map kclass (h_kinds h)) (map garg_kind args') then Some (DB ks (h_id h) args' : idbound) else None) = Some (DB ks tr args)).
      rewrite (find_trait tr _ Hk). cbn [obind]. rewrite El. rewrite Hargs; [|lia|exact Ha].
      cbn [obind h_kinds h_id]. rewrite Hks, kinds_eqb_refl. reflexivity.
  Qed.

  Lemma r_ty_u_ty scopes t : wf_ty p scopes t -> r_ty structs traits in_trait scopes (u_ty names in_trait (length scopes) t) = Some t.
  Proof. apply (proj1 (types_resolve (isize_ty t))). lia. Qed.

  Lemma r_gargs_u scopes args :
    all (wf_garg p scopes) args ->
    omap (r_garg structs traits in_trait scopes) (map (u_garg names in_trait (length scopes)) args) = Some args.
  Proof.
    intros H. apply omap_map_id. intros a Ha. apply (proj1 (proj2 (types_resolve (isize_garg a)))); [lia|].
    eapply all_In; eauto.
  Qed.

  Lemma r_trait_ref_u scopes tr args :
    wf_trait_ref p scopes tr args ->
    r_trait_ref structs traits in_trait scopes (name_of names tr) (map (u_garg names in_trait (length scopes)) args) = Some (tr, args).
  Proof.
    intros [[ks [Hk Hks]] Ha]. unfold r_trait_ref. rewrite (find_trait tr _ Hk). cbn [obind].
    rewrite r_gargs_u by exact Ha. cbn [obind h_kinds h_id]. rewrite Hks, kinds_eqb_refl. reflexivity.
  Qed.

  Lemma r_wc_u_wc scopes w :
    wf_wc p scopes w -> r_wc structs traits in_trait scopes (u_wc names in_trait (length scopes) w) = Some w.
  Proof.
    destruct w as [self tr args|a b|t l]; cbn [wf_wc u_wc r_wc].
    - intros [Hs Ht]. rewrite r_trait_ref_u by exact Ht. cbn [obind]. rewrite r_ty_u_ty by exact Hs. reflexivity.
    - intros [Ha Hb]. rewrite !r_lt_u_lt by assumption. reflexivity.
    - intros [Ht Hl]. rewrite r_ty_u_ty by exact Ht. cbn [obind]. rewrite r_lt_u_lt by exact Hl. reflexivity.
  Qed.

  Lemma r_qwc_u_qwc scopes q :
    wf_qwc p scopes q -> r_qwc structs traits in_trait scopes (u_qwc names in_trait (length scopes) q) = Some q.
  Proof.
    destruct q as [ks w]. unfold wf_qwc, u_qwc, r_qwc. cbn [fst snd]. intros H.
    replace (S (length scopes)) with (length (scopes ++ [ks])) by (rewrite app_length; cbn; lia).
    rewrite r_wc_u_wc by exact H. reflexivity.
  Qed.

  Lemma r_qwcs_u scopes qs :
    all (wf_qwc p scopes) qs ->
    omap (r_qwc structs traits in_trait scopes) (map (u_qwc names in_trait (length scopes)) qs) = Some qs.
  Proof. intros H. apply omap_map_id. intros q Hq. apply r_qwc_u_qwc. eapply all_In; eauto. Qed.
End Types.

Ltac rwl H := let E := fresh "E" in pose proof H as E; cbn [length] in E; rewrite E; clear E.

Lemma r_item_u_item p it :
  wf_names p -> wf_item p it ->
  r_item (iheaders true 0 p) (iheaders false 0 p) (u_item (map item_name p) it) = Some it.
Proof.
  intros Hn Hw. destruct it as [name ps fl fs wcs|name ps fl vs wcs|name ps fl wcs|ps up pos tr args self wcs]; cbn [wf_item u_item r_item] in *.
  - destruct Hw as [Hf Hq].
    rewrite (omap_map_id _ _ (r_ty (iheaders true 0 p) (iheaders false 0 p) false [ps]) (u_ty (map item_name p) false 1) fs).
    + cbn [obind]. rwl (r_qwcs_u p Hn false [ps] wcs Hq). reflexivity.
    + intros t Ht. apply (r_ty_u_ty p Hn false [ps] t). eapply all_In; eauto.
  - destruct Hw as [Hv Hq].
    rewrite (omap_map_id _ _ (omap (r_ty (iheaders true 0 p) (iheaders false 0 p) false [ps])) (map (u_ty (map item_name p) false 1)) vs).
    + cbn [obind]. rwl (r_qwcs_u p Hn false [ps] wcs Hq). reflexivity.
    + intros fs Hfs. apply omap_map_id. intros t Ht. apply (r_ty_u_ty p Hn false [ps] t).
      eapply all_In; [|exact Ht]. eapply all_In; eauto.
  - rwl (r_qwcs_u p Hn true [KTy :: ps] wcs Hw). reflexivity.
  - destruct Hw as [Ht [Hs Hq]].
    rwl (r_trait_ref_u p Hn false [ps] tr args Ht). cbn [obind fst snd].
    rwl (r_ty_u_ty p Hn false [ps] self Hs). cbn [obind].
    rwl (r_qwcs_u p Hn false [ps] wcs Hq). reflexivity.
Qed.

(** Theorem B *)
Theorem resolve_unresolve p : wf p -> resolve (unresolve p) = Some p.
Proof.
  intros [Hn Hw]. unfold resolve, unresolve. rewrite !headers_unresolve.
  apply omap_map_id. intros it Hit. apply r_item_u_item; [exact Hn|]. eapply all_In; eauto.
Qed.
