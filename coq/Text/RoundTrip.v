(** * Text.RoundTrip — printing a lowered program and parsing + lowering the text again gives
    the program back (C22), for the proved core fragment of [Text.Syntax22]:

      items:  structs and enums with flags (upstream, fundamental, phantom_data, one_zst,
              repr(C), repr(packed)), traits with flags (auto, marker, upstream, fundamental,
              non_enumerable, coinductive, object_safe), positive/negative and upstream impls;
      parameters of every kind: type, lifetime, [const], [int], [float];
      where-clauses (quantified by [forall<..>] over parameters of every kind): trait bound,
              lifetime outlives, type outlives;
      types:  parameters and [Self], ADT applications (type, lifetime and const arguments),
              the 18 scalars, tuples, shared/mutable references, raw pointers, slices, arrays
              with a const parameter or a value as length, [str], [!], fn pointers
              ([for<'a,..>], [unsafe], variadic), [dyn B + .. + 'l] with [forall<..>] bounds;
              lifetimes: parameters, ['static], ['erased].

    [norm] is the identity on this fragment: it has no associated-type equality bounds (the
    only construct whose lowering adds a where-clause, namely the trait bound it implies) and
    the writer reproduces every where-clause list element by element, so "as a set" is
    witnessed by list equality.  [wf] states what every lowered program satisfies: variables
    bound and of the right kind, references to existing items with matching argument kinds,
    distinct struct/enum names and distinct trait names, no [dyn] inside the arguments of a
    [dyn] bound and the bounds of a [dyn] in the order lowering puts them.

    Not covered by a theorem (only by the end-to-end differential test of [checks/c22.py]):
    associated types/values and their bounds, equality bounds (hence the [norm] that adds the
    implied trait bound), [#[variance]], [#[repr(<int>)]], lang attributes, opaque types, fn
    definitions.  The statement intended for that full fragment of DESIGN.md is
    [parse_print_full_statement] below. *)

From Coq Require Import List NArith Bool Arith PeanoNat Lia.
Import ListNotations.
From Chalk Require Import Text.Syntax22 Text.TokEq Text.Print Text.Parse Text.RoundTripAst Text.RoundTripIr.

Definition norm (p : program) : program := p.

(** fuel that suffices for the printed form of [p] *)
Definition need (p : program) : nat := length p + need_ast (unresolve p).

Theorem parse_print_small : forall p fuel,
  wf p -> need p <= fuel -> parse_fuel fuel (print p) = Some (norm p).
Proof.
  intros p fuel Hw Hf. unfold parse_fuel, print.
  rewrite parse_print_ast.
  - cbn [obind]. apply resolve_unresolve, Hw.
  - unfold need in Hf. unfold unresolve in *. rewrite map_length. exact Hf.
Qed.

(** rendering the reparsed program once more reproduces it exactly *)
Theorem print_idempotent_small : forall p p' fuel,
  wf p -> need p <= fuel -> parse_fuel fuel (print p) = Some p' ->
  print p' = print p /\ parse_fuel fuel (print p') = Some p'.
Proof.
  intros p p' fuel Hw Hf H. rewrite parse_print_small in H by assumption.
  injection H as <-. unfold norm. split; [reflexivity|]. now apply parse_print_small.
Qed.

(** The statement for the full fragment of DESIGN.md (stated, not proved: [program],
    [print], [parse_fuel], [wf], [norm] would have to be the extensions described above). *)
Definition parse_print_full_statement : Prop :=
  forall p fuel, wf p -> need p <= fuel -> parse_fuel fuel (print p) = Some (norm p).

(* ------------------------------------------------------------------------------------- *)
(** ** Non-vacuity *)

Definition w_prog : program :=
  [ ITrait 10%N [KTy; KLt] {| tf_auto := false; tf_marker := true; tf_upstream := false; tf_fundamental := false;
                            tf_non_enumerable := false; tf_coinductive := true; tf_object_safe := false |}
      [ ([], WImpl (TVar (1, 0)) 0 [GTy (TVar (1, 1)); GLt (LVar (1, 2))]) ];
    IStruct 11%N [KLt; KTy] {| sf_upstream := true; sf_fundamental := false; sf_phantom_data := false; sf_one_zst := true; sf_repr_c := true; sf_repr_packed := false |}
      [ TRef true (LVar (0, 0)) (TVar (0, 1)); TTuple [TScalar Su8]; TAdt 1 [GLt LStatic; GTy (TTuple [])];
        TRaw false (TSlice TStr); TRaw true TNever;
        TFn 1 true true [TRef false (LVar (0, 0)) (TVar (1, 1))] (TTuple []);
        TDyn [DB [KLt] 0 [GTy (TScalar Su8); GLt (LVar (0, 0))]] (LVar (0, 0)) ]
      [ ([KLt], WTyOut (TVar (1, 1)) (LVar (0, 0))); ([], WLtOut (LVar (1, 0)) LStatic) ];
    IImpl [KTy] false false 0 [GTy (TScalar Sbool); GLt LErased] (TAdt 1 [GLt LStatic; GTy (TVar (0, 0))])
      [ ([KTy], WImpl (TVar (0, 0)) 0 [GTy (TVar (1, 0)); GLt LStatic]) ];
    IEnum 12%N [KInt; KConst] {| sf_upstream := false; sf_fundamental := true; sf_phantom_data := false; sf_one_zst := false; sf_repr_c := false; sf_repr_packed := true |}
      [ []; [TVar (0, 0); TAdt 3 [GTy TStr; GCVar (0, 1)]; TArray (TAdt 3 [GTy TNever; GCVal 7%N]) (CVar (0, 1))] ]
      [ ([KFloat; KConst], WTyOut (TArray (TVar (0, 0)) (CVal 3%N)) LStatic) ] ].

Lemma w_prog_wf : wf w_prog.
Proof.
  split.
  - split; cbn; repeat constructor; cbn; intuition discriminate.
  - cbn. unfold wf_trait_ref, tvar_ok, var_ok. cbn.
    repeat (first [exact I | cbn; lia | reflexivity | split | eexists]).
Qed.

Example parse_print_nonvacuous : parse_fuel (need w_prog) (print w_prog) = Some w_prog.
Proof. apply parse_print_small; [apply w_prog_wf|lia]. Qed.

Example print_w_prog_tokens : length (print w_prog) = 238.
Proof. vm_compute. reflexivity. Qed.
