(** * Text.RoundTrip — printing a lowered program and parsing + lowering the text again gives
    the program back (C22), for the proved core fragment of [Text.Syntax22]:

      items:  structs and enums with flags (upstream, fundamental, phantom_data, one_zst),
              traits with flags (auto, marker, upstream, fundamental, non_enumerable,
              coinductive, object_safe), positive/negative and upstream impls;
      where-clauses (quantified by [forall<..>] over types and lifetimes): trait bound,
              lifetime outlives, type outlives;
      types:  parameters and [Self], ADT applications, the 18 scalars, tuples, shared/mutable
              references, raw pointers, slices, [str], [!]; lifetimes: parameters, ['static],
              ['erased].

    [norm] is the identity on this fragment: it has no associated-type equality bounds (the
    only construct whose lowering adds a where-clause, namely the trait bound it implies) and
    the writer reproduces every where-clause list element by element, so "as a set" is
    witnessed by list equality.

    Not covered by a theorem (only by the end-to-end differential test of [checks/c22.py]):
    variances, reprs, int/float/const parameters and arrays, associated types/values and their
    bounds, equality bounds, fn pointers, dyn, opaque types, fn definitions, lang attributes.
    The statement intended for that full fragment of DESIGN.md is [parse_print_full_statement]
    below, with [norm] adding the implied trait bound after each equality bound. *)

From Coq Require Import List NArith Bool Arith PeanoNat Lia.
Import ListNotations.
From Chalk Require Import Text.Syntax22 Text.TokEq Text.Print Text.Parse Text.RoundTripAst Text.RoundTripIr.

Definition norm (p : program) : program := p.

(** fuel that suffices for the printed form of [p] *)
Definition need (p : program) : nat := length p + need_ast (unresolve p).

Theorem parse_print_small : forall p fuel,
  wf p -> need p <= fuel -> parse_fuel fuel (print p) = Some (norm p).
Proof.
  intros p fuel Hw Hf. unfold parse_fuel, print.
  rewrite parse_print_ast.
  - cbn [obind]. apply resolve_unresolve, Hw.
  - unfold need in Hf. unfold unresolve in *. rewrite map_length. exact Hf.
Qed.

(** rendering the reparsed program once more reproduces it exactly *)
Theorem print_idempotent_small : forall p p' fuel,
  wf p -> need p <= fuel -> parse_fuel fuel (print p) = Some p' ->
  print p' = print p /\ parse_fuel fuel (print p') = Some p'.
Proof.
  intros p p' fuel Hw Hf H. rewrite parse_print_small in H by assumption.
  injection H as <-. unfold norm. split; [reflexivity|]. now apply parse_print_small.
Qed.

(** The statement for the full fragment of DESIGN.md (stated, not proved: [program],
    [print], [parse_fuel], [wf], [norm] would have to be the extensions described above). *)
Definition parse_print_full_statement : Prop :=
  forall p fuel, wf p -> need p <= fuel -> parse_fuel fuel (print p) = Some (norm p).

(* ------------------------------------------------------------------------------------- *)
(** ** Non-vacuity *)

Definition w_prog : program :=
  [ ITrait 10%N [KTy; KLt] {| tf_auto := false; tf_marker := true; tf_upstream := false; tf_fundamental := false;
                            tf_non_enumerable := false; tf_coinductive := true; tf_object_safe := false |}
      [ ([], WImpl (TVar (1, 0)) 0 [GTy (TVar (1, 1)); GLt (LVar (1, 2))]) ];
    IStruct 11%N [KLt; KTy] {| sf_upstream := true; sf_fundamental := false; sf_phantom_data := false; sf_one_zst := true |}
      [ TRef true (LVar (0, 0)) (TVar (0, 1)); TTuple [TScalar Su8]; TAdt 1 [GLt LStatic; GTy (TTuple [])];
        TRaw false (TSlice TStr); TRaw true TNever ]
      [ ([KLt], WTyOut (TVar (1, 1)) (LVar (0, 0))); ([], WLtOut (LVar (1, 0)) LStatic) ];
    IImpl [KTy] false false 0 [GTy (TScalar Sbool); GLt LErased] (TAdt 1 [GLt LStatic; GTy (TVar (0, 0))])
      [ ([KTy], WImpl (TVar (0, 0)) 0 [GTy (TVar (1, 0)); GLt LStatic]) ];
    IEnum 12%N [KInt; KConst] {| sf_upstream := false; sf_fundamental := true; sf_phantom_data := false; sf_one_zst := false |}
      [ []; [TVar (0, 0); TAdt 3 [GTy TStr; GCVar (0, 1)]; TArray (TAdt 3 [GTy TNever; GCVal 7%N]) (CVar (0, 1))] ]
      [ ([KFloat; KConst], WTyOut (TArray (TVar (0, 0)) (CVal 3%N)) LStatic) ] ].

Lemma w_prog_wf : wf w_prog.
Proof.
  split.
  - split; cbn; repeat constructor; cbn; intuition discriminate.
  - cbn. unfold wf_trait_ref, tvar_ok, var_ok. cbn.
    repeat (first [exact I | cbn; lia | reflexivity | split | eexists]).
Qed.

Example parse_print_nonvacuous : parse_fuel (need w_prog) (print w_prog) = Some w_prog.
Proof. apply parse_print_small; [apply w_prog_wf|lia]. Qed.

Example print_w_prog_tokens : length (print w_prog) = 189.
Proof. vm_compute. reflexivity. Qed.
