(** * Text.Parse — recursive-descent parser of the core fragment (tokens -> surface program)
    and name resolution (surface program -> lowered program), i.e. the model of
    [chalk_parse::parse_program] followed by [chalk_integration::lowering] on the image of
    the writer.  The LALRPOP grammar is not translated; the parser is hand-written, with fuel,
    and accepts (at least) what [Text.Print.print_ast] produces. *)

From Coq Require Import List NArith Bool Arith.
Import ListNotations.
From Chalk Require Import Text.Syntax22 Text.TokEq.

Definition obind {A B} (o : option A) (f : A -> option B) : option B :=
  match o with Some a => f a | None => None end.
Notation "' p <- a ;; b" := (obind a (fun p => b)) (at level 61, p pattern, a at next level, right associativity).

Definition parse_lt (ts : list tok) : option (alt * list tok) :=
  match ts with
  | LTV d i :: r => Some (LVar (d, i), r)
  | KW Kstatic :: r => Some (LStatic, r)
  | KW Kerased :: r => Some (LErased, r)
  | _ => None
  end.

Definition parse_konst (ts : list tok) : option (akonst * list tok) :=
  match ts with
  | VAR d i :: r => Some (CVar (d, i), r)
  | NUM n :: r => Some (CVal n, r)
  | _ => None
  end.

Definition starts_lt (ts : list tok) : bool :=
  match ts with LTV _ _ :: _ | KW Kstatic :: _ | KW Kerased :: _ => true | _ => false end.

Definition punct_eqb (a b : punct) : bool := Nat.eqb (punct_code a) (punct_code b).
Definition peek (p : punct) (ts : list tok) : bool :=
  match ts with P q :: _ => punct_eqb p q | _ => false end.
Definition peek_kw (k : kw) (ts : list tok) : bool :=
  match ts with KW q :: _ => Nat.eqb (kw_code k) (kw_code q) | _ => false end.

(** binder names [_D_i, '_D_(i+1), ... >]: they must be exactly the ones the writer invents *)
Fixpoint parse_binder_names (fuel D i : nat) (ts : list tok) : option (list kind * list tok) :=
  match fuel with
  | O => None
  | S f =>
      '(k, r) <- match ts with
                 | VAR d j :: r => if (Nat.eqb d D && Nat.eqb j i)%bool then Some (KTy, r) else None
                 | LTV d j :: r => if (Nat.eqb d D && Nat.eqb j i)%bool then Some (KLt, r) else None
                 | KW Kconst :: VAR d j :: r => if (Nat.eqb d D && Nat.eqb j i)%bool then Some (KConst, r) else None
                 | KW Kint :: VAR d j :: r => if (Nat.eqb d D && Nat.eqb j i)%bool then Some (KInt, r) else None
                 | KW Kfloat :: VAR d j :: r => if (Nat.eqb d D && Nat.eqb j i)%bool then Some (KFloat, r) else None
                 | _ => None
                 end ;;
      if peek PComma r then '(l, r'') <- parse_binder_names f D (S i) (tl r) ;; Some (k :: l, r'')
      else if peek PGt r then Some ([k], tl r)
      else None
  end.

Definition parse_params (fuel D i : nat) (ts : list tok) : option (list kind * list tok) :=
  if peek PLt ts then parse_binder_names fuel D i (tl ts) else Some ([], ts).

Definition all_lt (ks : list kind) : bool := forallb (kind_eqb KLt) ks.

(** [unsafe? fn ( args ) -> ret] after an optional [for<..>] that bound [nb] lifetimes; [pf]/[pt]
    parse the arguments / the return type one level deeper *)
Definition fn_tail (pf : list tok -> option ((list aty * bool) * list tok)) (pt : list tok -> option (aty * list tok))
           (nb : nat) (ts : list tok) : option (aty * list tok) :=
  let unsafe := peek_kw Kunsafe ts in
  let r := if unsafe then tl ts else ts in
  if (peek_kw Kfn r && peek PLParen (tl r))%bool then
    '(av, r1) <- pf (tl (tl r)) ;;
    if peek PArrow r1 then '(ret, r2) <- pt (tl r1) ;; Some (TFn nb unsafe (snd av) (fst av) ret, r2)
    else None
  else None.

(** [k]: binder levels open (see [Text.Print.p_ty]) *)
Fixpoint parse_ty (fuel k : nat) (ts : list tok) {struct fuel} : option (aty * list tok) :=
  match fuel with
  | O => None
  | S f =>
      match ts with
      | VAR d i :: r => Some (TVar (AV d i), r)
      | SELF :: r => Some (TVar ASelf, r)
      | KW (Kscalar s) :: r => Some (TScalar s, r)
      | ID n :: r =>
          if peek PLt r then '(args, r') <- parse_gargs f k (tl r) ;; Some (TAdt n args, r')
          else Some (TAdt n [], r)
      | P PLParen :: r =>
          if peek PRParen r then Some (TTuple [], tl r)
          else
            '(t, r1) <- parse_ty f k r ;;
            if peek PComma r1 then
              if peek PRParen (tl r1) then Some (TTuple [t], tl (tl r1))
              else '(ts', r3) <- parse_tys f k (tl r1) ;; Some (TTuple (t :: ts'), r3)
            else None
      | P PAmp :: r =>
          '(l, r1) <- parse_lt r ;;
          if peek_kw Kmut r1 then '(t, r3) <- parse_ty f k (tl r1) ;; Some (TRef true l t, r3)
          else '(t, r3) <- parse_ty f k r1 ;; Some (TRef false l t, r3)
      | P PStar :: r =>
          if peek_kw Kmut r then '(t, r3) <- parse_ty f k (tl r) ;; Some (TRaw true t, r3)
          else if peek_kw Kconst r then '(t, r3) <- parse_ty f k (tl r) ;; Some (TRaw false t, r3)
          else None
      | P PLBracket :: r =>
          '(t, r1) <- parse_ty f k r ;;
          if peek PRBracket r1 then Some (TSlice t, tl r1)
          else if peek PSemi r1 then
            '(c, r2) <- parse_konst (tl r1) ;;
            if peek PRBracket r2 then Some (TArray t c, tl r2) else None
          else None
      | KW Kstr :: r => Some (TStr, r)
      | P PBang :: r => Some (TNever, r)
      | KW Kfor :: r =>
          '(ks, r1) <- parse_params f (S k) 0 r ;;
          match ks with
          | [] => None
          | _ => if all_lt ks then fn_tail (parse_fnargs f (S k)) (parse_ty f (S k)) (length ks) r1 else None
          end
      | KW Kunsafe :: _ | KW Kfn :: _ => fn_tail (parse_fnargs f (S k)) (parse_ty f (S k)) 0 ts
      | KW Kdyn :: r =>
          if peek PPlus r then '(l, r2) <- parse_lt (tl r) ;; Some (TDyn [] l, r2)
          else '(bs, r1) <- parse_dbounds f (S (S k)) r ;; '(l, r2) <- parse_lt r1 ;; Some (TDyn bs l, r2)
      | _ => None
      end
  end
(** [g (, g)* >] *)
with parse_gargs (fuel k : nat) (ts : list tok) {struct fuel} : option (list agarg * list tok) :=
  match fuel with
  | O => None
  | S f =>
      '(a, r) <- (if starts_lt ts then '(l, r) <- parse_lt ts ;; Some (GLt l, r)
                  else match ts with
                       | NUM n :: r => Some (GCVal n, r)
                       | _ => '(t, r) <- parse_ty f k ts ;; Some (GTy t, r)
                       end) ;;
      if peek PComma r then '(l, r'') <- parse_gargs f k (tl r) ;; Some (a :: l, r'')
      else if peek PGt r then Some ([a], tl r)
      else None
  end
(** [t (, t)* )] *)
with parse_tys (fuel k : nat) (ts : list tok) {struct fuel} : option (list aty * list tok) :=
  match fuel with
  | O => None
  | S f =>
      '(t, r) <- parse_ty f k ts ;;
      if peek PComma r then '(l, r'') <- parse_tys f k (tl r) ;; Some (t :: l, r'')
      else if peek PRParen r then Some ([t], tl r)
      else None
  end
(** the arguments of a fn pointer up to and including the [)]: [ ) | ... ) | t ) | t , <more> ] *)
with parse_fnargs (fuel k : nat) (ts : list tok) {struct fuel} : option ((list aty * bool) * list tok) :=
  match fuel with
  | O => None
  | S f =>
      if peek PRParen ts then Some (([], false), tl ts)
      else if peek PDots ts then (if peek PRParen (tl ts) then Some (([], true), tl (tl ts)) else None)
      else
        '(t, r) <- parse_ty f k ts ;;
        if peek PComma r then '(av, r') <- parse_fnargs f k (tl r) ;; Some ((t :: fst av, snd av), r')
        else if peek PRParen r then Some (([t], false), tl r)
        else None
  end
(** [B + (B +)*] up to (excluding) the lifetime *)
with parse_dbounds (fuel k : nat) (ts : list tok) {struct fuel} : option (list adbound * list tok) :=
  match fuel with
  | O => None
  | S f =>
      '(ks, r0) <- (if peek_kw Kforall ts then
                      '(ks, r0) <- parse_params f k 0 (tl ts) ;; match ks with [] => None | _ => Some (ks, r0) end
                    else Some ([], ts)) ;;
      match r0 with
      | ID tr :: r1 =>
          '(args, r2) <- (if peek PLt r1 then parse_gargs f k (tl r1) else Some ([], r1)) ;;
          if peek PPlus r2 then
            if starts_lt (tl r2) then Some ([DB ks tr args], tl r2)
            else '(l, r3) <- parse_dbounds f k (tl r2) ;; Some (DB ks tr args :: l, r3)
          else None
      | _ => None
      end
  end.

Definition parse_args (fuel k : nat) (ts : list tok) : option (list agarg * list tok) :=
  if peek PLt ts then parse_gargs fuel k (tl ts) else Some ([], ts).

Definition parse_wc (fuel k : nat) (ts : list tok) : option (awc * list tok) :=
  if starts_lt ts then
    '(a, r) <- parse_lt ts ;;
    if peek PColon r then '(b, r2) <- parse_lt (tl r) ;; Some (WLtOut a b, r2) else None
  else
    '(t, r) <- parse_ty fuel k ts ;;
    if peek PColon r then
      let r1 := tl r in
      if starts_lt r1 then '(l, r2) <- parse_lt r1 ;; Some (WTyOut t l, r2)
      else match r1 with
           | ID tr :: r2 => '(args, r3) <- parse_args fuel k r2 ;; Some (WImpl t tr args, r3)
           | _ => None
           end
    else None.

Definition parse_qwc (fuel D : nat) (ts : list tok) : option (aqwc * list tok) :=
  if peek_kw Kforall ts then
    if peek PLt (tl ts) then
      '(ks, r1) <- parse_binder_names fuel D 0 (tl (tl ts)) ;;
      '(w, r2) <- parse_wc fuel D r1 ;; Some ((ks, w), r2)
    else None
  else '(w, r2) <- parse_wc fuel D ts ;; Some (([], w), r2).

(** [q (, q)*], ends at the first token that is not a comma *)
Fixpoint parse_qwcs (n fuel D : nat) (ts : list tok) : option (list aqwc * list tok) :=
  match n with
  | O => None
  | S n' =>
      '(q, r) <- parse_qwc fuel D ts ;;
      if peek PComma r then '(l, r'') <- parse_qwcs n' fuel D (tl r) ;; Some (q :: l, r'')
      else Some ([q], r)
  end.

Definition parse_where (fuel D : nat) (ts : list tok) : option (list aqwc * list tok) :=
  if peek_kw Kwhere ts then parse_qwcs fuel fuel D (tl ts) else Some ([], ts).

Fixpoint parse_attrs (ts : list tok) : list kw * list tok :=
  match ts with
  | P PHash :: P PLBracket :: KW Krepr :: P PLParen :: KW k :: P PRParen :: P PRBracket :: r =>
      let '(l, r') := parse_attrs r in (k :: l, r')
  | P PHash :: P PLBracket :: KW k :: P PRBracket :: r => let '(l, r') := parse_attrs r in (k :: l, r')
  | _ => ([], ts)
  end.

Definition kw_eqb (a b : kw) : bool := Nat.eqb (kw_code a) (kw_code b).
Definition has_kw (k : kw) (l : list kw) : bool := existsb (kw_eqb k) l.
Fixpoint kws_eqb (a b : list kw) : bool :=
  match a, b with
  | [], [] => true
  | x :: a', y :: b' => kw_eqb x y && kws_eqb a' b'
  | _, _ => false
  end.
Definition kws_of (l : list (bool * kw)) : list kw := map snd (filter fst l).

Definition sflags_kws (fl : sflags) : list kw :=
  kws_of [(fl.(sf_upstream), Kupstream); (fl.(sf_fundamental), Kfundamental); (fl.(sf_phantom_data), Kphantom_data);
          (fl.(sf_one_zst), Kone_zst); (fl.(sf_repr_c), KC); (fl.(sf_repr_packed), Kpacked)].
Definition tflags_kws (fl : tflags) : list kw :=
  kws_of [(fl.(tf_auto), Kauto); (fl.(tf_marker), Kmarker); (fl.(tf_upstream), Kupstream);
          (fl.(tf_fundamental), Kfundamental); (fl.(tf_non_enumerable), Knon_enumerable);
          (fl.(tf_coinductive), Kcoinductive); (fl.(tf_object_safe), Kobject_safe)].

(** [field_i : t (, field_(i+1) : t)* }] *)
Fixpoint parse_fields (n fuel i : nat) (ts : list tok) : option (list aty * list tok) :=
  match n with
  | O => None
  | S n' =>
      match ts with
      | FIELD j :: r =>
          if (Nat.eqb j i && peek PColon r)%bool then
            '(t, r1) <- parse_ty fuel 1 (tl r) ;;
            if peek PComma r1 then '(l, r3) <- parse_fields n' fuel (S i) (tl r1) ;; Some (t :: l, r3)
            else if peek PRBrace r1 then Some ([t], tl r1)
            else None
          else None
      | _ => None
      end
  end.

Definition expect_braces (ts : list tok) : option (list tok) :=
  if (peek PLBrace ts && peek PRBrace (tl ts))%bool then Some (tl (tl ts)) else None.

Definition sflags_of (at_ : list kw) : sflags :=
  {| sf_upstream := has_kw Kupstream at_; sf_fundamental := has_kw Kfundamental at_;
     sf_phantom_data := has_kw Kphantom_data at_; sf_one_zst := has_kw Kone_zst at_;
     sf_repr_c := has_kw KC at_; sf_repr_packed := has_kw Kpacked at_ |}.
Definition tflags_of (at_ : list kw) : tflags :=
  {| tf_auto := has_kw Kauto at_; tf_marker := has_kw Kmarker at_; tf_upstream := has_kw Kupstream at_;
     tf_fundamental := has_kw Kfundamental at_; tf_non_enumerable := has_kw Knon_enumerable at_;
     tf_coinductive := has_kw Kcoinductive at_; tf_object_safe := has_kw Kobject_safe at_ |}.

Definition parse_struct (fuel : nat) (at_ : list kw) (name : N) (r : list tok) : option (aitem * list tok) :=
  let fl := sflags_of at_ in
  if kws_eqb (sflags_kws fl) at_ then
    '(ps, r1) <- parse_params fuel 1 0 r ;;
    '(wcs, r2) <- parse_where fuel 2 r1 ;;
    if peek PLBrace r2 then
      if peek PRBrace (tl r2) then Some (IStruct name ps fl [] wcs, tl (tl r2))
      else '(fs, r4) <- parse_fields fuel fuel 0 (tl r2) ;; Some (IStruct name ps fl fs wcs, r4)
    else None
  else None.

(** [variant_i { fields } , ... }] *)
Fixpoint parse_variants (n fuel i : nat) (ts : list tok) : option (list (list aty) * list tok) :=
  match n with
  | O => None
  | S n' =>
      if peek PRBrace ts then Some ([], tl ts)
      else match ts with
           | VARIANT j :: r =>
               if (Nat.eqb j i && peek PLBrace r)%bool then
                 '(fs, r1) <- (if peek PRBrace (tl r) then Some ([], tl (tl r)) else parse_fields fuel fuel 0 (tl r)) ;;
                 if peek PComma r1 then '(l, r2) <- parse_variants n' fuel (S i) (tl r1) ;; Some (fs :: l, r2)
                 else None
               else None
           | _ => None
           end
  end.

Definition parse_enum (fuel : nat) (at_ : list kw) (name : N) (r : list tok) : option (aitem * list tok) :=
  let fl := sflags_of at_ in
  if kws_eqb (sflags_kws fl) at_ then
    '(ps, r1) <- parse_params fuel 1 0 r ;;
    '(wcs, r2) <- parse_where fuel 2 r1 ;;
    if peek PLBrace r2 then
      '(vs, r3) <- parse_variants fuel fuel 0 (tl r2) ;; Some (IEnum name ps fl vs wcs, r3)
    else None
  else None.

Definition parse_trait (fuel : nat) (at_ : list kw) (name : N) (r : list tok) : option (aitem * list tok) :=
  let fl := tflags_of at_ in
  if kws_eqb (tflags_kws fl) at_ then
    '(ps, r1) <- parse_params fuel 1 1 r ;;
    '(wcs, r2) <- parse_where fuel 2 r1 ;;
    'r3 <- expect_braces r2 ;; Some (ITrait name ps fl wcs, r3)
  else None.

Definition parse_impl (fuel : nat) (at_ : list kw) (r : list tok) : option (aitem * list tok) :=
  let up := has_kw Kupstream at_ in
  if kws_eqb (kws_of [(up, Kupstream)]) at_ then
    '(ps, r1) <- parse_params fuel 1 0 r ;;
    let positive := negb (peek PBang r1) in
    let r2 := if positive then r1 else tl r1 in
    match r2 with
    | ID tr :: r3 =>
        '(args, r4) <- parse_args fuel 1 r3 ;;
        if peek_kw Kfor r4 then
          '(self, r6) <- parse_ty fuel 1 (tl r4) ;;
          '(wcs, r7) <- parse_where fuel 2 r6 ;;
          'r8 <- expect_braces r7 ;; Some (IImpl ps up positive tr args self wcs, r8)
        else None
    | _ => None
    end
  else None.

Definition parse_item (fuel : nat) (ts : list tok) : option (aitem * list tok) :=
  match snd (parse_attrs ts) with
  | KW Kstruct :: ID name :: r => parse_struct fuel (fst (parse_attrs ts)) name r
  | KW Kenum :: ID name :: r => parse_enum fuel (fst (parse_attrs ts)) name r
  | KW Ktrait :: ID name :: r => parse_trait fuel (fst (parse_attrs ts)) name r
  | KW Kimpl :: r => parse_impl fuel (fst (parse_attrs ts)) r
  | _ => None
  end.

Fixpoint parse_items (n fuel : nat) (ts : list tok) : option ast :=
  match ts with
  | [] => Some []
  | _ =>
      match n with
      | O => None
      | S n' => '(it, r) <- parse_item fuel ts ;; '(l) <- parse_items n' fuel r ;; Some (it :: l)
      end
  end.

Definition parse_ast_fuel (fuel : nat) (ts : list tok) : option ast := parse_items fuel fuel ts.
Definition parse_ast (ts : list tok) : option ast := parse_ast_fuel (length ts) ts.

(* ------------------------------------------------------------------------------------- *)
(** ** Name resolution: surface program -> lowered program

    Item names are resolved through the tables of struct / trait headers (name, position,
    parameter kinds); the number and kinds of generic arguments are checked as the real
    lowering does.  A parameter name [_D_I] is in scope iff level [D] is open and has an
    [I]-th variable of the expected kind; it becomes the de Bruijn pair [(k - D, I)]. *)

Record header := { h_name : N; h_id : nat; h_kinds : list kind }.

Fixpoint headers (struct_ : bool) (i : nat) (a : ast) : list header :=
  match a with
  | [] => []
  | IStruct n ps _ _ _ :: r => (if struct_ then [{| h_name := n; h_id := i; h_kinds := ps |}] else []) ++ headers struct_ (S i) r
  | IEnum n ps _ _ _ :: r => (if struct_ then [{| h_name := n; h_id := i; h_kinds := ps |}] else []) ++ headers struct_ (S i) r
  | ITrait n ps _ _ :: r => (if struct_ then [] else [{| h_name := n; h_id := i; h_kinds := ps |}]) ++ headers struct_ (S i) r
  | IImpl _ _ _ _ _ _ _ :: r => headers struct_ (S i) r
  end.

Fixpoint find_header (n : N) (hs : list header) : option header :=
  match hs with
  | [] => None
  | h :: r => if N.eqb n h.(h_name) then Some h else find_header n r
  end.

Definition omap {A B} (f : A -> option B) : list A -> option (list B) :=
  fix go l :=
    match l with
    | [] => Some []
    | x :: r => 'y <- f x ;; 'ys <- go r ;; Some (y :: ys)
    end.

Definition garg_kind {V L R C} (a : garg V L R C) : kind :=
  match a with GTy _ => KTy | GLt _ => KLt | GCVal _ | GCVar _ => KConst end.
Fixpoint kinds_eqb (a b : list kind) : bool :=
  match a, b with
  | [], [] => true
  | x :: a', y :: b' => kind_eqb x y && kinds_eqb a' b'
  | _, _ => false
  end.

Section Resolve.
  Variables (structs traits : list header).
  Variable in_trait : bool.

  (** [scopes]: the open levels, outermost first ([length scopes = k]) *)
  Definition scope_kind (scopes : list (list kind)) (dd ii : nat) : option kind :=
    match dd with
    | O => None
    | S d' => match nth_error scopes d' with Some sc => nth_error sc ii | None => None end
    end.

  Definition r_var (scopes : list (list kind)) (v : avar) : option ivar :=
    match v with
    | AV dd ii =>
        if (in_trait && Nat.eqb dd 1 && Nat.eqb ii 0)%bool then None        (* spelled Self *)
        else match scope_kind scopes dd ii with
             | Some kd => if is_ty_kind kd then Some (length scopes - dd, ii) else None
             | None => None
             end
    | ASelf => if in_trait then match scopes with [] => None | _ => Some (length scopes - 1, 0) end else None
    end.

  Definition r_lt (scopes : list (list kind)) (l : alt) : option ilt :=
    match l with
    | LVar (dd, ii) =>
        match scope_kind scopes dd ii with
        | Some KLt => Some (LVar (length scopes - dd, ii))
        | _ => None
        end
    | LStatic => Some LStatic
    | LErased => Some LErased
    end.

  Definition r_konst (scopes : list (list kind)) (c : akonst) : option ikonst :=
    match c with
    | CVar (dd, ii) =>
        match scope_kind scopes dd ii with
        | Some KConst => Some (CVar (length scopes - dd, ii))
        | _ => None
        end
    | CVal n => Some (CVal n)
    end.

  (** a bare parameter name in generic-argument position denotes a const if that is its kind *)
  Definition bare_const (scopes : list (list kind)) (t : aty) : option ivar :=
    match t with
    | TVar (AV dd ii) =>
        match scope_kind scopes dd ii with
        | Some KConst => Some (length scopes - dd, ii)
        | _ => None
        end
    | _ => None
    end.

  Fixpoint r_ty (scopes : list (list kind)) (t : aty) {struct t} : option ity :=
    match t with
    | TVar v => 'v' <- r_var scopes v ;; Some (TVar v')
    | TAdt n args =>
        'h <- find_header n structs ;;
        'args' <- omap (r_garg scopes) args ;;
        if kinds_eqb (map kclass h.(h_kinds)) (map garg_kind args') then Some (TAdt h.(h_id) args') else None
    | TScalar s => Some (TScalar s)
    | TTuple ts => 'ts' <- omap (r_ty scopes) ts ;; Some (TTuple ts')
    | TRef m l t => 'l' <- r_lt scopes l ;; 't' <- r_ty scopes t ;; Some (TRef m l' t')
    | TRaw m t => 't' <- r_ty scopes t ;; Some (TRaw m t')
    | TSlice t => 't' <- r_ty scopes t ;; Some (TSlice t')
    | TArray t c => 't' <- r_ty scopes t ;; 'c' <- r_konst scopes c ;; Some (TArray t' c')
    | TStr => Some TStr
    | TNever => Some TNever
    | TFn nb unsafe variadic args ret =>
        'args' <- omap (r_ty (scopes ++ [repeat KLt nb])) args ;;
        'ret' <- r_ty (scopes ++ [repeat KLt nb]) ret ;; Some (TFn nb unsafe variadic args' ret')
    | TDyn bounds l =>
        'bs <- omap (r_dbound (scopes ++ [[]])) bounds ;;
        'l' <- r_lt scopes l ;; Some (TDyn bs l')
    end
  with r_garg (scopes : list (list kind)) (a : agarg) {struct a} : option igarg :=
    match a with
    | GTy t =>
        match bare_const scopes t with
        | Some v => Some (GCVar v)
        | None => 't' <- r_ty scopes t ;; Some (GTy t')
        end
    | GLt l => 'l' <- r_lt scopes l ;; Some (GLt l')
    | GCVal n => Some (GCVal n)
    | GCVar c => match c with end
    end
  (** the level of the hidden self type is open but has no name: it is the empty scope *)
  with r_dbound (scopes : list (list kind)) (b : adbound) {struct b} : option idbound :=
    match b with
    | DB ks tr args =>
        'h <- find_header tr traits ;;
        'args' <- omap (r_garg (scopes ++ [ks])) args ;;
        if kinds_eqb (map kclass h.(h_kinds)) (map garg_kind args') then Some (DB ks h.(h_id) args') else None
    end.

  Definition r_trait_ref (scopes : list (list kind)) (tr : N) (args : list agarg) : option (nat * list igarg) :=
    'h <- find_header tr traits ;;
    'args' <- omap (r_garg scopes) args ;;
    if kinds_eqb (map kclass h.(h_kinds)) (map garg_kind args') then Some (h.(h_id), args') else None.

  Definition r_wc (scopes : list (list kind)) (w : awc) : option iwc :=
    match w with
    | WImpl self tr args =>
        'ta <- r_trait_ref scopes tr args ;;
        'self' <- r_ty scopes self ;; Some (WImpl self' (fst ta) (snd ta))
    | WLtOut a b => 'a' <- r_lt scopes a ;; 'b' <- r_lt scopes b ;; Some (WLtOut a' b')
    | WTyOut t l => 't' <- r_ty scopes t ;; 'l' <- r_lt scopes l ;; Some (WTyOut t' l')
    end.

  Definition r_qwc (scopes : list (list kind)) (q : aqwc) : option iqwc :=
    'w <- r_wc (scopes ++ [fst q]) (snd q) ;; Some (fst q, w).
End Resolve.

Definition r_item (structs traits : list header) (it : aitem) : option iitem :=
  match it with
  | IStruct name ps fl fields wcs =>
      'fs <- omap (r_ty structs traits false [ps]) fields ;;
      'ws <- omap (r_qwc structs traits false [ps]) wcs ;;
      Some (IStruct name ps fl fs ws)
  | IEnum name ps fl variants wcs =>
      'vs <- omap (omap (r_ty structs traits false [ps])) variants ;;
      'ws <- omap (r_qwc structs traits false [ps]) wcs ;;
      Some (IEnum name ps fl vs ws)
  | ITrait name ps fl wcs =>
      'ws <- omap (r_qwc structs traits true [KTy :: ps]) wcs ;;
      Some (ITrait name ps fl ws)
  | IImpl ps up pos tr args self wcs =>
      'ta <- r_trait_ref structs traits false [ps] tr args ;;
      'self' <- r_ty structs traits false [ps] self ;;
      'ws <- omap (r_qwc structs traits false [ps]) wcs ;;
      Some (IImpl ps up pos (fst ta) (snd ta) self' ws)
  end.

Definition resolve (a : ast) : option program :=
  omap (r_item (headers true 0 a) (headers false 0 a)) a.

(** parse + lower *)
Definition parse_fuel (fuel : nat) (ts : list tok) : option program := 'a <- parse_ast_fuel fuel ts ;; resolve a.
Definition parse (ts : list tok) : option program := parse_fuel (length ts) ts.
