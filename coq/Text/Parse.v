(** * Text.Parse — recursive-descent parser of the core fragment (tokens -> surface program)
    and name resolution (surface program -> lowered program), i.e. the model of
    [chalk_parse::parse_program] followed by [chalk_integration::lowering] on the image of
    the writer.  The LALRPOP grammar is not translated; the parser is hand-written, with fuel,
    and accepts (at least) what [Text.Print.print_ast] produces. *)

From Coq Require Import List NArith Bool Arith.
Import ListNotations.
From Chalk Require Import Text.Syntax22 Text.TokEq.

Definition obind {A B} (o : option A) (f : A -> option B) : option B :=
  match o with Some a => f a | None => None end.
Notation "' p <- a ;; b" := (obind a (fun p => b)) (at level 61, p pattern, a at next level, right associativity).

Definition parse_lt (ts : list tok) : option (alt * list tok) :=
  match ts with
  | LTV d i :: r => Some (LVar (d, i), r)
  | KW Kstatic :: r => Some (LStatic, r)
  | KW Kerased :: r => Some (LErased, r)
  | _ => None
  end.

Definition starts_lt (ts : list tok) : bool :=
  match ts with LTV _ _ :: _ | KW Kstatic :: _ | KW Kerased :: _ => true | _ => false end.

Fixpoint parse_ty (fuel : nat) (ts : list tok) {struct fuel} : option (aty * list tok) :=
  match fuel with
  | O => None
  | S f =>
      match ts with
      | VAR d i :: r => Some (TVar (AV d i), r)
      | SELF :: r => Some (TVar ASelf, r)
      | KW (Kscalar s) :: r => Some (TScalar s, r)
      | ID n :: P PLt :: r => '(args, r') <- parse_gargs f r ;; Some (TAdt n args, r')
      | ID n :: r => Some (TAdt n [], r)
      | P PLParen :: P PRParen :: r => Some (TTuple [], r)
      | P PLParen :: r =>
          '(t, r1) <- parse_ty f r ;;
          match r1 with
          | P PComma :: P PRParen :: r2 => Some (TTuple [t], r2)
          | P PComma :: r2 => '(ts', r3) <- parse_tys f r2 ;; Some (TTuple (t :: ts'), r3)
          | _ => None
          end
      | P PAmp :: r =>
          '(l, r1) <- parse_lt r ;;
          match r1 with
          | KW Kmut :: r2 => '(t, r3) <- parse_ty f r2 ;; Some (TRef true l t, r3)
          | _ => '(t, r3) <- parse_ty f r1 ;; Some (TRef false l t, r3)
          end
      | _ => None
      end
  end
(** [g (, g)* >] *)
with parse_gargs (fuel : nat) (ts : list tok) {struct fuel} : option (list agarg * list tok) :=
  match fuel with
  | O => None
  | S f =>
      '(a, r) <- (if starts_lt ts then '(l, r) <- parse_lt ts ;; Some (GLt l, r)
                  else '(t, r) <- parse_ty f ts ;; Some (GTy t, r)) ;;
      match r with
      | P PComma :: r' => '(l, r'') <- parse_gargs f r' ;; Some (a :: l, r'')
      | P PGt :: r' => Some ([a], r')
      | _ => None
      end
  end
(** [t (, t)* )] *)
with parse_tys (fuel : nat) (ts : list tok) {struct fuel} : option (list aty * list tok) :=
  match fuel with
  | O => None
  | S f =>
      '(t, r) <- parse_ty f ts ;;
      match r with
      | P PComma :: r' => '(l, r'') <- parse_tys f r' ;; Some (t :: l, r'')
      | P PRParen :: r' => Some ([t], r')
      | _ => None
      end
  end.

Definition parse_args (fuel : nat) (ts : list tok) : option (list agarg * list tok) :=
  match ts with
  | P PLt :: r => parse_gargs fuel r
  | _ => Some ([], ts)
  end.

(** binder names [_D_i, '_D_(i+1), ... >]: they must be exactly the ones the writer invents *)
Fixpoint parse_binder_names (fuel D i : nat) (ts : list tok) : option (list kind * list tok) :=
  match fuel with
  | O => None
  | S f =>
      '(k, r) <- match ts with
                 | VAR d j :: r => if (Nat.eqb d D && Nat.eqb j i)%bool then Some (KTy, r) else None
                 | LTV d j :: r => if (Nat.eqb d D && Nat.eqb j i)%bool then Some (KLt, r) else None
                 | _ => None
                 end ;;
      match r with
      | P PComma :: r' => '(l, r'') <- parse_binder_names f D (S i) r' ;; Some (k :: l, r'')
      | P PGt :: r' => Some ([k], r')
      | _ => None
      end
  end.

Definition parse_params (fuel D i : nat) (ts : list tok) : option (list kind * list tok) :=
  match ts with
  | P PLt :: r => parse_binder_names fuel D i r
  | _ => Some ([], ts)
  end.

Definition parse_wc (fuel : nat) (ts : list tok) : option (awc * list tok) :=
  if starts_lt ts then
    '(a, r) <- parse_lt ts ;;
    match r with
    | P PColon :: r1 => '(b, r2) <- parse_lt r1 ;; Some (WLtOut a b, r2)
    | _ => None
    end
  else
    '(t, r) <- parse_ty fuel ts ;;
    match r with
    | P PColon :: r1 =>
        if starts_lt r1 then '(l, r2) <- parse_lt r1 ;; Some (WTyOut t l, r2)
        else match r1 with
             | ID tr :: r2 => '(args, r3) <- parse_args fuel r2 ;; Some (WImpl t tr args, r3)
             | _ => None
             end
    | _ => None
    end.

Definition parse_qwc (fuel D : nat) (ts : list tok) : option (aqwc * list tok) :=
  match ts with
  | KW Kforall :: P PLt :: r =>
      '(ks, r1) <- parse_binder_names fuel D 0 r ;;
      '(w, r2) <- parse_wc fuel r1 ;; Some ((ks, w), r2)
  | _ => '(w, r2) <- parse_wc fuel ts ;; Some (([], w), r2)
  end.

(** [q (, q)*], ends at the first token that is not a comma *)
Fixpoint parse_qwcs (n fuel D : nat) (ts : list tok) : option (list aqwc * list tok) :=
  match n with
  | O => None
  | S n' =>
      '(q, r) <- parse_qwc fuel D ts ;;
      match r with
      | P PComma :: r' => '(l, r'') <- parse_qwcs n' fuel D r' ;; Some (q :: l, r'')
      | _ => Some ([q], r)
      end
  end.

Definition parse_where (fuel D : nat) (ts : list tok) : option (list aqwc * list tok) :=
  match ts with
  | KW Kwhere :: r => parse_qwcs fuel fuel D r
  | _ => Some ([], ts)
  end.

Fixpoint parse_attrs (ts : list tok) : list kw * list tok :=
  match ts with
  | P PHash :: P PLBracket :: KW k :: P PRBracket :: r => let '(l, r') := parse_attrs r in (k :: l, r')
  | _ => ([], ts)
  end.

Definition kw_eqb (a b : kw) : bool := Nat.eqb (kw_code a) (kw_code b).
Definition has_kw (k : kw) (l : list kw) : bool := existsb (kw_eqb k) l.
Fixpoint kws_eqb (a b : list kw) : bool :=
  match a, b with
  | [], [] => true
  | x :: a', y :: b' => kw_eqb x y && kws_eqb a' b'
  | _, _ => false
  end.
Definition kws_of (l : list (bool * kw)) : list kw := map snd (filter fst l).

Definition sflags_kws (fl : sflags) : list kw :=
  kws_of [(fl.(sf_upstream), Kupstream); (fl.(sf_fundamental), Kfundamental); (fl.(sf_phantom_data), Kphantom_data)].
Definition tflags_kws (fl : tflags) : list kw :=
  kws_of [(fl.(tf_auto), Kauto); (fl.(tf_marker), Kmarker); (fl.(tf_upstream), Kupstream);
          (fl.(tf_fundamental), Kfundamental); (fl.(tf_non_enumerable), Knon_enumerable);
          (fl.(tf_coinductive), Kcoinductive); (fl.(tf_object_safe), Kobject_safe)].

(** [field_i : t (, field_(i+1) : t)* }] *)
Fixpoint parse_fields (n fuel i : nat) (ts : list tok) : option (list aty * list tok) :=
  match n with
  | O => None
  | S n' =>
      match ts with
      | FIELD j :: P PColon :: r =>
          if Nat.eqb j i then
            '(t, r1) <- parse_ty fuel r ;;
            match r1 with
            | P PComma :: r2 => '(l, r3) <- parse_fields n' fuel (S i) r2 ;; Some (t :: l, r3)
            | P PRBrace :: r2 => Some ([t], r2)
            | _ => None
            end
          else None
      | _ => None
      end
  end.

Definition parse_item (fuel : nat) (ts : list tok) : option (aitem * list tok) :=
  let '(at_, r0) := parse_attrs ts in
  match r0 with
  | KW Kstruct :: ID name :: r =>
      let fl := {| sf_upstream := has_kw Kupstream at_; sf_fundamental := has_kw Kfundamental at_;
                   sf_phantom_data := has_kw Kphantom_data at_ |} in
      if kws_eqb (sflags_kws fl) at_ then
        '(ps, r1) <- parse_params fuel 1 0 r ;;
        '(wcs, r2) <- parse_where fuel 2 r1 ;;
        match r2 with
        | P PLBrace :: P PRBrace :: r3 => Some (IStruct name ps fl [] wcs, r3)
        | P PLBrace :: r3 => '(fs, r4) <- parse_fields fuel fuel 0 r3 ;; Some (IStruct name ps fl fs wcs, r4)
        | _ => None
        end
      else None
  | KW Ktrait :: ID name :: r =>
      let fl := {| tf_auto := has_kw Kauto at_; tf_marker := has_kw Kmarker at_; tf_upstream := has_kw Kupstream at_;
                   tf_fundamental := has_kw Kfundamental at_; tf_non_enumerable := has_kw Knon_enumerable at_;
                   tf_coinductive := has_kw Kcoinductive at_; tf_object_safe := has_kw Kobject_safe at_ |} in
      if kws_eqb (tflags_kws fl) at_ then
        '(ps, r1) <- parse_params fuel 1 1 r ;;
        '(wcs, r2) <- parse_where fuel 2 r1 ;;
        match r2 with
        | P PLBrace :: P PRBrace :: r3 => Some (ITrait name ps fl wcs, r3)
        | _ => None
        end
      else None
  | KW Kimpl :: r =>
      let up := has_kw Kupstream at_ in
      if kws_eqb (kws_of [(up, Kupstream)]) at_ then
        '(ps, r1) <- parse_params fuel 1 0 r ;;
        let '(positive, r2) := match r1 with P PBang :: r2 => (false, r2) | _ => (true, r1) end in
        match r2 with
        | ID tr :: r3 =>
            '(args, r4) <- parse_args fuel r3 ;;
            match r4 with
            | KW Kfor :: r5 =>
                '(self, r6) <- parse_ty fuel r5 ;;
                '(wcs, r7) <- parse_where fuel 2 r6 ;;
                match r7 with
                | P PLBrace :: P PRBrace :: r8 => Some (IImpl ps up positive tr args self wcs, r8)
                | _ => None
                end
            | _ => None
            end
        | _ => None
        end
      else None
  | _ => None
  end.

Fixpoint parse_items (n fuel : nat) (ts : list tok) : option ast :=
  match ts with
  | [] => Some []
  | _ =>
      match n with
      | O => None
      | S n' => '(it, r) <- parse_item fuel ts ;; '(l) <- parse_items n' fuel r ;; Some (it :: l)
      end
  end.

Definition parse_ast (ts : list tok) : option ast := parse_items (length ts) (length ts) ts.

(* ------------------------------------------------------------------------------------- *)
(** ** Name resolution: surface program -> lowered program

    Item names are resolved through the tables of struct / trait headers (name, position,
    parameter kinds); the number and kinds of generic arguments are checked as the real
    lowering does.  A parameter name [_D_I] is in scope iff level [D] is open and has an
    [I]-th variable of the expected kind; it becomes the de Bruijn pair [(k - D, I)]. *)

Record header := { h_name : N; h_id : nat; h_kinds : list kind }.

Fixpoint headers (struct_ : bool) (i : nat) (a : ast) : list header :=
  match a with
  | [] => []
  | IStruct n ps _ _ _ :: r => (if struct_ then [{| h_name := n; h_id := i; h_kinds := ps |}] else []) ++ headers struct_ (S i) r
  | ITrait n ps _ _ :: r => (if struct_ then [] else [{| h_name := n; h_id := i; h_kinds := ps |}]) ++ headers struct_ (S i) r
  | IImpl _ _ _ _ _ _ _ :: r => headers struct_ (S i) r
  end.

Fixpoint find_header (n : N) (hs : list header) : option header :=
  match hs with
  | [] => None
  | h :: r => if N.eqb n h.(h_name) then Some h else find_header n r
  end.

Fixpoint omap {A B} (f : A -> option B) (l : list A) : option (list B) :=
  match l with
  | [] => Some []
  | x :: r => 'y <- f x ;; 'ys <- omap f r ;; Some (y :: ys)
  end.

Definition garg_kind {V L R} (a : garg V L R) : kind := match a with GTy _ => KTy | GLt _ => KLt end.
Fixpoint kinds_eqb (a b : list kind) : bool :=
  match a, b with
  | [], [] => true
  | x :: a', y :: b' => kind_eqb x y && kinds_eqb a' b'
  | _, _ => false
  end.

Section Resolve.
  Variables (structs traits : list header).
  Variable in_trait : bool.

  (** [scopes]: the open levels, outermost first ([length scopes = k]) *)
  Definition scope_kind (scopes : list (list kind)) (dd ii : nat) : option kind :=
    match dd with
    | O => None
    | S d' => match nth_error scopes d' with Some sc => nth_error sc ii | None => None end
    end.

  Definition r_var (scopes : list (list kind)) (v : avar) : option ivar :=
    match v with
    | AV dd ii =>
        if (in_trait && Nat.eqb dd 1 && Nat.eqb ii 0)%bool then None        (* spelled Self *)
        else match scope_kind scopes dd ii with
             | Some KTy => Some (length scopes - dd, ii)
             | _ => None
             end
    | ASelf => if in_trait then match scopes with [] => None | _ => Some (length scopes - 1, 0) end else None
    end.

  Definition r_lt (scopes : list (list kind)) (l : alt) : option ilt :=
    match l with
    | LVar (dd, ii) =>
        match scope_kind scopes dd ii with
        | Some KLt => Some (LVar (length scopes - dd, ii))
        | _ => None
        end
    | LStatic => Some LStatic
    | LErased => Some LErased
    end.

  Fixpoint r_ty (scopes : list (list kind)) (t : aty) {struct t} : option ity :=
    match t with
    | TVar v => 'v' <- r_var scopes v ;; Some (TVar v')
    | TAdt n args =>
        'h <- find_header n structs ;;
        'args' <- omap (r_garg scopes) args ;;
        if kinds_eqb h.(h_kinds) (map garg_kind args') then Some (TAdt h.(h_id) args') else None
    | TScalar s => Some (TScalar s)
    | TTuple ts => 'ts' <- omap (r_ty scopes) ts ;; Some (TTuple ts')
    | TRef m l t => 'l' <- r_lt scopes l ;; 't' <- r_ty scopes t ;; Some (TRef m l' t')
    end
  with r_garg (scopes : list (list kind)) (a : agarg) {struct a} : option igarg :=
    match a with
    | GTy t => 't' <- r_ty scopes t ;; Some (GTy t')
    | GLt l => 'l' <- r_lt scopes l ;; Some (GLt l')
    end.

  Definition r_trait_ref (scopes : list (list kind)) (tr : N) (args : list agarg) : option (nat * list igarg) :=
    'h <- find_header tr traits ;;
    'args' <- omap (r_garg scopes) args ;;
    if kinds_eqb h.(h_kinds) (map garg_kind args') then Some (h.(h_id), args') else None.

  Definition r_wc (scopes : list (list kind)) (w : awc) : option iwc :=
    match w with
    | WImpl self tr args =>
        'ta <- r_trait_ref scopes tr args ;;
        'self' <- r_ty scopes self ;; Some (WImpl self' (fst ta) (snd ta))
    | WLtOut a b => 'a' <- r_lt scopes a ;; 'b' <- r_lt scopes b ;; Some (WLtOut a' b')
    | WTyOut t l => 't' <- r_ty scopes t ;; 'l' <- r_lt scopes l ;; Some (WTyOut t' l')
    end.

  Definition r_qwc (scopes : list (list kind)) (q : aqwc) : option iqwc :=
    'w <- r_wc (scopes ++ [fst q]) (snd q) ;; Some (fst q, w).
End Resolve.

Definition r_item (structs traits : list header) (it : aitem) : option iitem :=
  match it with
  | IStruct name ps fl fields wcs =>
      'fs <- omap (r_ty structs false [ps]) fields ;;
      'ws <- omap (r_qwc structs traits false [ps]) wcs ;;
      Some (IStruct name ps fl fs ws)
  | ITrait name ps fl wcs =>
      'ws <- omap (r_qwc structs traits true [KTy :: ps]) wcs ;;
      Some (ITrait name ps fl ws)
  | IImpl ps up pos tr args self wcs =>
      'ta <- r_trait_ref structs traits false [ps] tr args ;;
      'self' <- r_ty structs false [ps] self ;;
      'ws <- omap (r_qwc structs traits false [ps]) wcs ;;
      Some (IImpl ps up pos (fst ta) (snd ta) self' ws)
  end.

Definition resolve (a : ast) : option program :=
  omap (r_item (headers true 0 a) (headers false 0 a)) a.

(** parse + lower *)
Definition parse (ts : list tok) : option program := 'a <- parse_ast ts ;; resolve a.
