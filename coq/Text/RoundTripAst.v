(** * Text.RoundTripAst — the parser inverts the printer on surface programs:
    [parse_ast (print_ast a) = Some a] for every surface program [a] (C22, grammar half). *)

From Coq Require Import List NArith Bool Arith PeanoNat Lia.
Import ListNotations.
From Chalk Require Import Text.Syntax22 Text.TokEq Text.Print Text.Parse.

(* ------------------------------------------------------------------------------------- *)
(** ** First tokens *)

Definition ty_start (t : tok) : bool :=
  match t with
  | VAR _ _ | SELF | KW (Kscalar _) | KW Kstr | KW Kfor | KW Kunsafe | KW Kfn | KW Kdyn | ID _
  | P PLParen | P PAmp | P PStar | P PLBracket | P PBang => true
  | _ => false
  end.

Lemma ty_head k (t : aty) : exists tk r, p_ty k t = tk :: r /\ ty_start tk = true.
Proof.
  destruct t as [v|n args|s|ts|m l t|m t|t|t c| | |nb u va args ret|bs l]; cbn.
  - destruct v; cbn; eauto.
  - eauto.
  - eauto.
  - destruct ts as [|t1 [|t2 r]]; cbn; eauto.
  - eauto.
  - eauto.
  - eauto.
  - eauto.
  - eauto.
  - eauto.
  - destruct nb; [destruct u|]; cbn; eauto.
  - destruct bs; cbn; eauto.
Qed.

Lemma parse_lt_print l rest : parse_lt (p_lt l ++ rest) = Some (l, rest).
Proof. destruct l as [[d i]| |]; reflexivity. Qed.

Lemma starts_lt_print l rest : starts_lt (p_lt l ++ rest) = true.
Proof. destruct l as [[d i]| |]; reflexivity. Qed.

Ltac ty_heads k t rest :=
  let tk := fresh "tk" in let r := fresh "r" in let E := fresh "E" in let Hs := fresh "Hs" in
  destruct (ty_head k t) as [tk [r [E Hs]]]; rewrite E; cbn [app];
  destruct tk as [[]| | | | | | | |[]]; try discriminate Hs; try reflexivity.

Lemma starts_lt_ty k t rest : starts_lt (p_ty k t ++ rest) = false.
Proof. ty_heads k t rest. Qed.
Lemma peek_ty p k t rest : p <> PLParen -> p <> PAmp -> p <> PStar -> p <> PLBracket -> p <> PBang -> peek p (p_ty k t ++ rest) = false.
Proof. intros H1 H2 H3 H4 H5. ty_heads k t rest; destruct p; try reflexivity; congruence. Qed.
Lemma peek_kw_ty kk k t rest :
  (forall s, kk <> Kscalar s) -> kk <> Kstr -> kk <> Kfor -> kk <> Kunsafe -> kk <> Kfn -> kk <> Kdyn ->
  peek_kw kk (p_ty k t ++ rest) = false.
Proof.
  intros H H1 H2 H3 H4 H5. destruct (ty_head k t) as [tk [r [E Hs]]]. rewrite E. cbn [app].
  destruct tk as [k'| | | | | | | |[]]; try discriminate Hs; try reflexivity.
  destruct k'; try discriminate Hs; cbn; destruct kk; try reflexivity; try congruence; exfalso; eapply H; eauto.
Qed.

Lemma not_num_ty A k t rest (X : N -> list tok -> A) (Y : A) :
  match p_ty k t ++ rest with NUM n :: r => X n r | _ => Y end = Y.
Proof. ty_heads k t rest. Qed.

Lemma parse_konst_print c rest : parse_konst (p_konst c ++ rest) = Some (c, rest).
Proof. destruct c as [[d i]|n]; reflexivity. Qed.

Lemma peek_lt p l rest : peek p (p_lt l ++ rest) = false.
Proof. destruct l as [[d i]| |]; reflexivity. Qed.
Lemma peek_kw_forall_lt l rest : peek_kw Kforall (p_lt l ++ rest) = false.
Proof. destruct l as [[d i]| |]; reflexivity. Qed.

(* ------------------------------------------------------------------------------------- *)
(** ** Separated lists *)

Lemma sep_by_cons2 A (s : list A) x y r : sep_by s (x :: y :: r) = x ++ s ++ sep_by s (y :: r).
Proof. reflexivity. Qed.

Lemma sep_one (x : list tok) tail : sep_by comma [x] ++ tail = x ++ tail.
Proof. reflexivity. Qed.
Lemma sep_more (x y : list tok) l tail :
  sep_by comma (x :: y :: l) ++ tail = x ++ P PComma :: (sep_by comma (y :: l) ++ tail).
Proof. rewrite sep_by_cons2. unfold comma at 1. rewrite <- !app_assoc. reflexivity. Qed.

Definition no_lt (rest : list tok) : Prop := peek PLt rest = false.

Ltac norm := cbn [app]; repeat (rewrite <- app_assoc; cbn [app]).
Ltac rp := do 3 cbn [obind peek peek_kw punct_eqb punct_code kw_code Nat.eqb tl fst snd andb].
Ltac arith := unfold aty, agarg, aqwc, awc, alt, aitem, adbound in *; cbn [length] in *; lia.
Ltac rew_map H := let E := fresh "E" in pose proof H as E; cbn [map] in E; rewrite E; clear E.

(* ------------------------------------------------------------------------------------- *)
(** ** Binders *)

Lemma p_binder_names_cons D i k r : p_binder_names D i (k :: r) = btok k D i :: p_binder_names D (S i) r.
Proof. reflexivity. Qed.

Lemma parse_binder_names_step n D i k rest :
  parse_binder_names (S n) D i (btok k D i ++ rest) =
  if peek PComma rest then '(l, r'') <- parse_binder_names n D (S i) (tl rest) ;; Some (k :: l, r'')
  else if peek PGt rest then Some ([k], tl rest) else None.
Proof. destruct k; cbn [btok app parse_binder_names]; rewrite !Nat.eqb_refl; reflexivity. Qed.

Lemma parse_binder_names_print ks : forall n D i rest,
  ks <> [] -> length ks <= n ->
  parse_binder_names n D i (sep_by comma (p_binder_names D i ks) ++ P PGt :: rest) = Some (ks, rest).
Proof.
  induction ks as [|k r IH]; intros n D i rest Hne Hn; [congruence|].
  destruct n as [|n]; [cbn in Hn; arith|]. cbn [length] in Hn.
  rewrite p_binder_names_cons.
  destruct r as [|k2 r'].
  - cbn [p_binder_names]. rewrite sep_one. rewrite parse_binder_names_step. reflexivity.
  - rewrite p_binder_names_cons. rewrite sep_more. rewrite parse_binder_names_step. rp.
    rewrite <- p_binder_names_cons.
    rewrite (IH n D (S i) rest); [reflexivity|congruence|cbn [length] in *; arith].
Qed.

Lemma parse_params_print n D i ks rest :
  length ks <= n -> no_lt rest -> parse_params n D i (p_params D i ks ++ rest) = Some (ks, rest).
Proof.
  intros Hn Hr. unfold parse_params, p_params, angle.
  destruct ks as [|k r].
  - cbn [p_binder_names app]. unfold no_lt in Hr. rewrite Hr. reflexivity.
  - assert (E : p_binder_names D i (k :: r) <> []) by (destruct k; cbn; congruence).
    destruct (p_binder_names D i (k :: r)) as [|x l] eqn:Ep; [congruence|].
    norm. rp. rewrite <- Ep. apply parse_binder_names_print; [congruence|exact Hn].
Qed.

Lemma all_lt_repeat nb : all_lt (repeat KLt nb) = true.
Proof. induction nb; cbn; auto. Qed.

(* ------------------------------------------------------------------------------------- *)
(** ** Fuel and types *)

Fixpoint need_ty (t : aty) : nat :=
  match t with
  | TVar _ | TScalar _ => 1
  | TAdt _ args => S (list_sum (map (fun a => S (need_garg a)) args))
  | TTuple ts => S (list_sum (map (fun t => S (need_ty t)) ts))
  | TRef _ _ t | TRaw _ t | TSlice t | TArray t _ => S (need_ty t)
  | TStr | TNever => 1
  | TFn nb _ _ args ret => S (nb + S (list_sum (map (fun t => S (need_ty t)) args)) + need_ty ret)
  | TDyn bs _ => S (list_sum (map need_dbound bs))
  end
with need_garg (a : agarg) : nat :=
  match a with GTy t => need_ty t | _ => 0 end
with need_dbound (b : adbound) : nat :=
  match b with DB ks _ args => S (length ks + list_sum (map (fun a => S (need_garg a)) args)) end.

Definition need_gargs (args : list agarg) : nat := list_sum (map (fun a => S (need_garg a)) args).
Definition need_tys (ts : list aty) : nat := list_sum (map (fun t => S (need_ty t)) ts).
Definition need_dbounds (bs : list adbound) : nat := list_sum (map need_dbound bs).

Definition vdots (v : bool) : list (list tok) := if v then [[P PDots]] else [].

Lemma fn_tail_print (pf : list tok -> option ((list aty * bool) * list tok)) (pt : list tok -> option (aty * list tok))
      nb (u v : bool) (args : list aty) (ret : aty) (toks_args toks_ret rest : list tok) :
  pf (toks_args ++ P PRParen :: P PArrow :: toks_ret ++ rest) = Some ((args, v), P PArrow :: toks_ret ++ rest) ->
  pt (toks_ret ++ rest) = Some (ret, rest) ->
  fn_tail pf pt nb ((if u then [KW Kunsafe] else []) ++ [KW Kfn; P PLParen] ++ toks_args ++ [P PRParen; P PArrow] ++ toks_ret ++ rest)
  = Some (TFn nb u v args ret, rest).
Proof.
  intros Hf Ht. unfold fn_tail. destruct u; norm; rp; rewrite Hf; rp; rewrite Ht; reflexivity.
Qed.

Lemma types_roundtrip n :
  (forall t k rest, need_ty t <= n -> no_lt rest -> parse_ty n k (p_ty k t ++ rest) = Some (t, rest)) /\
  (forall args k rest, args <> [] -> need_gargs args <= n ->
     parse_gargs n k (sep_by comma (map (p_garg k) args) ++ P PGt :: rest) = Some (args, rest)) /\
  (forall ts k rest, ts <> [] -> need_tys ts <= n ->
     parse_tys n k (sep_by comma (map (p_ty k) ts) ++ P PRParen :: rest) = Some (ts, rest)) /\
  (forall args v k rest, S (need_tys args) <= n ->
     parse_fnargs n k (sep_by comma (map (p_ty k) args ++ vdots v) ++ P PRParen :: rest) = Some ((args, v), rest)) /\
  (forall bs k rest, bs <> [] -> need_dbounds bs <= n -> starts_lt rest = true ->
     parse_dbounds n k (concat (map (fun b => p_dbound k b ++ [P PPlus]) bs) ++ rest) = Some (bs, rest)).
Proof.
  induction n as [|n [IHt [IHg [IHs [IHf IHd]]]]].
  { repeat split.
    - intros t k rest H. destruct t; cbn in H; lia.
    - intros [|a r] k rest H H'; [congruence|]. unfold need_gargs in H'. cbn in H'. lia.
    - intros [|a r] k rest H H'; [congruence|]. unfold need_tys in H'. cbn in H'. lia.
    - intros args v k rest H. lia.
    - intros [|[ks tr args] r] k rest H H'; [congruence|]. unfold need_dbounds in H'. cbn in H'. lia. }
  repeat split.
  - (* types *)
    intros t k rest Hn Hr. destruct t as [v|nm args|s|ts|m l t|m t|t|t c| | |nb u va args ret|bs l]; cbn [need_ty] in Hn.
    + destruct v; reflexivity.
    + cbn [p_ty parse_ty app]. fold need_gargs in Hn. destruct args as [|a r].
      * cbn [map angle app]. unfold no_lt in Hr. rewrite Hr. reflexivity.
      * unfold angle. cbn [map].
        cbn [app peek punct_eqb punct_code Nat.eqb tl].
        rewrite <- app_assoc. cbn [app].
        assert (Hn' : need_gargs (a :: r) <= n) by (unfold need_gargs; lia).
        rew_map (IHg (a :: r) k rest ltac:(congruence) Hn'). reflexivity.
    + reflexivity.
    + fold need_tys in Hn. cbn [p_ty]. destruct ts as [|t1 [|t2 r]].
      * reflexivity.
      * norm. cbn [parse_ty]. rewrite peek_ty by congruence.
        unfold need_tys in Hn. cbn in Hn.
        rewrite IHt; [|lia|reflexivity]. reflexivity.
      * cbn [map]. norm. rewrite sep_more. cbn [parse_ty].
        rewrite peek_ty by congruence.
        unfold need_tys in Hn. cbn [map list_sum fold_right] in Hn.
        rewrite IHt; [|lia|reflexivity]. rp.
        assert (Hp : peek PRParen (sep_by comma (p_ty k t2 :: map (p_ty k) r) ++ P PRParen :: rest) = false).
        { destruct r; cbn [map]; [rewrite sep_one|rewrite sep_more]; apply peek_ty; congruence. }
        rewrite Hp.
        assert (Hn' : need_tys (t2 :: r) <= n) by (unfold need_tys, list_sum in *; cbn [map fold_right] in *; lia).
        rew_map (IHs (t2 :: r) k rest ltac:(congruence) Hn'). reflexivity.
    + cbn [p_ty]. norm. cbn [parse_ty]. rewrite parse_lt_print. cbn [obind].
      destruct m.
      * cbn [app peek_kw kw_code Nat.eqb tl]. rewrite IHt; [reflexivity|lia|exact Hr].
      * cbn [app]. rewrite peek_kw_ty by (try intros s; congruence).
        rewrite IHt; [reflexivity|lia|exact Hr].
    + cbn [p_ty]. norm. cbn [parse_ty]. destruct m; rp.
      * rewrite IHt; [reflexivity|lia|exact Hr].
      * rewrite IHt; [reflexivity|lia|exact Hr].
    + cbn [p_ty]. norm. cbn [parse_ty]. rewrite IHt; [|lia|reflexivity]. rp. reflexivity.
    + cbn [p_ty]. norm. cbn [parse_ty]. rewrite IHt; [|lia|reflexivity]. rp.
      rewrite parse_konst_print. rp. reflexivity.
    + reflexivity.
    + reflexivity.
    + (* fn pointers *)
      fold need_tys in Hn.
      assert (Hf : parse_fnargs n (S k) (sep_by comma (map (p_ty (S k)) args ++ vdots va) ++ P PRParen :: P PArrow :: p_ty (S k) ret ++ rest)
                   = Some ((args, va), P PArrow :: p_ty (S k) ret ++ rest)) by (apply IHf; unfold need_tys in *; arith).
      assert (Ht : parse_ty n (S k) (p_ty (S k) ret ++ rest) = Some (ret, rest)) by (apply IHt; [unfold need_tys in *; arith|exact Hr]).
      pose proof (fn_tail_print (parse_fnargs n (S k)) (parse_ty n (S k)) nb u va args ret _ _ rest Hf Ht) as Htail.
      cbn [p_ty]. fold (vdots va). destruct nb as [|nb'].
      * destruct u; norm; cbn [app] in Htail; cbn [parse_ty]; exact Htail.
      * norm. cbn [parse_ty].
        rewrite parse_params_print; [|rewrite repeat_length; lia|destruct u; reflexivity].
        cbn [obind]. rewrite all_lt_repeat, repeat_length. cbn [repeat]. cbn [app] in Htail. exact Htail.
    + (* dyn *)
      fold need_dbounds in Hn. cbn [p_ty]. destruct bs as [|b r].
      * norm. cbn [parse_ty]. rp. rewrite parse_lt_print. reflexivity.
      * norm. cbn [parse_ty].
        assert (Hp : peek PPlus (concat (map (fun b0 => p_dbound (S (S k)) b0 ++ [P PPlus]) (b :: r)) ++ p_lt l ++ rest) = false).
        { cbn [map concat]. destruct b as [ks tr args]. cbn [p_dbound]. destruct ks; norm; reflexivity. }
        rewrite Hp.
        rewrite (IHd (b :: r) (S (S k)) (p_lt l ++ rest)); [|congruence|unfold need_dbounds in *; arith|apply starts_lt_print].
        cbn [obind]. rewrite parse_lt_print. reflexivity.
  - (* generic arguments *)
    intros args k rest Hne Hn. destruct args as [|a r]; [congruence|].
    unfold need_gargs in Hn. cbn [map list_sum fold_right] in Hn.
    cbn [map]. cbn [parse_gargs].
    destruct r as [|b r']; cbn [map]; [rewrite sep_one|rewrite sep_more];
      destruct a as [t|l|nn|[]]; cbn [p_garg need_garg] in *.
    + rewrite starts_lt_ty, not_num_ty. rewrite IHt; [|lia|reflexivity]. reflexivity.
    + rewrite starts_lt_print, parse_lt_print. reflexivity.
    + reflexivity.
    + rewrite starts_lt_ty, not_num_ty. rewrite IHt; [|lia|reflexivity]. rp.
      assert (Hn' : need_gargs (b :: r') <= n) by (unfold need_gargs, list_sum in *; cbn [map fold_right] in *; lia).
      rew_map (IHg (b :: r') k rest ltac:(congruence) Hn'). reflexivity.
    + rewrite starts_lt_print, parse_lt_print. rp.
      assert (Hn' : need_gargs (b :: r') <= n) by (unfold need_gargs, list_sum in *; cbn [map fold_right] in *; lia).
      rew_map (IHg (b :: r') k rest ltac:(congruence) Hn'). reflexivity.
    + cbn [app starts_lt]. rp.
      assert (Hn' : need_gargs (b :: r') <= n) by (unfold need_gargs, list_sum in *; cbn [map fold_right] in *; lia).
      rew_map (IHg (b :: r') k rest ltac:(congruence) Hn'). reflexivity.
  - (* tuple elements *)
    intros ts k rest Hne Hn. destruct ts as [|t r]; [congruence|].
    unfold need_tys in Hn. cbn [map list_sum fold_right] in Hn.
    cbn [map]. cbn [parse_tys].
    destruct r as [|b r']; cbn [map]; [rewrite sep_one|rewrite sep_more].
    + rewrite IHt; [|lia|reflexivity]. reflexivity.
    + rewrite IHt; [|lia|reflexivity]. rp.
      assert (Hn' : need_tys (b :: r') <= n) by (unfold need_tys, list_sum in *; cbn [map fold_right] in *; lia).
      rew_map (IHs (b :: r') k rest ltac:(congruence) Hn'). reflexivity.
  - (* fn pointer arguments *)
    intros args v k rest Hn. unfold need_tys, list_sum in Hn. cbn [parse_fnargs].
    destruct args as [|a r].
    + destruct v; reflexivity.
    + cbn [map fold_right] in Hn. cbn [map app].
      assert (Ha : forall tail, parse_ty n k (p_ty k a ++ tail) = Some (a, tail) \/ peek PLt tail = true).
      { intros tail. destruct (peek PLt tail) eqn:E; [now right|left]. apply IHt; [lia|exact E]. }
      destruct r as [|b r'].
      * destruct v; cbn [map app vdots].
        -- rewrite sep_more. rewrite !peek_ty by congruence.
           destruct (Ha (P PComma :: sep_by comma [[P PDots]] ++ P PRParen :: rest)) as [E|E]; [|discriminate E].
           rewrite E. rp. destruct n as [|n']; [lia|]. reflexivity.
        -- rewrite sep_one. rewrite !peek_ty by congruence.
           destruct (Ha (P PRParen :: rest)) as [E|E]; [|discriminate E]. rewrite E. reflexivity.
      * cbn [map app]. rewrite sep_more. rewrite !peek_ty by congruence.
        destruct (Ha (P PComma :: sep_by comma (p_ty k b :: map (p_ty k) r' ++ vdots v) ++ P PRParen :: rest)) as [E|E]; [|discriminate E].
        rewrite E. rp.
        assert (Hn' : S (need_tys (b :: r')) <= n) by (unfold need_tys, list_sum in *; cbn [map fold_right] in *; arith).
        pose proof (IHf (b :: r') v k rest Hn') as E2. cbn [map app] in E2. rewrite E2. reflexivity.
  - (* dyn bounds *)
    intros bs k rest Hne Hn Hs. destruct bs as [|[ks tr args] r]; [congruence|].
    unfold need_dbounds, list_sum in Hn. cbn [map fold_right need_dbound] in Hn. fold need_gargs in Hn.
    cbn [map concat p_dbound]. cbn [parse_dbounds].
    assert (Hargs : forall tail, peek PLt tail = false ->
              (if peek PLt (angle (map (p_garg k) args) ++ tail) then parse_gargs n k (tl (angle (map (p_garg k) args) ++ tail)) else Some ([], angle (map (p_garg k) args) ++ tail))
              = Some (args, tail)).
    { intros tail Ht. destruct args as [|a ar].
      - cbn [map angle app]. rewrite Ht. reflexivity.
      - unfold angle. cbn [map]. norm. rp.
        assert (Hn' : need_gargs (a :: ar) <= n) by (unfold need_gargs in *; arith).
        rew_map (IHg (a :: ar) k tail ltac:(congruence) Hn'). reflexivity. }
    assert (Hrest : forall tail0, tail0 = concat (map (fun b => p_dbound k b ++ [P PPlus]) r) ++ rest ->
              (if starts_lt tail0 then Some ([DB ks tr args], tail0)
               else ' (l, r3) <- parse_dbounds n k tail0;; Some (DB ks tr args :: l, r3)) = Some (DB ks tr args :: r, rest)).
    { intros tail0 ->. destruct r as [|b2 r2].
      - cbn [map concat app]. rewrite Hs. reflexivity.
      - assert (E : starts_lt (concat (map (fun b => p_dbound k b ++ [P PPlus]) (b2 :: r2)) ++ rest) = false).
        { cbn [map concat]. destruct b2 as [ks2 tr2 args2]. cbn [p_dbound]. destruct ks2; norm; reflexivity. }
        rewrite E. rewrite (IHd (b2 :: r2) k rest); [reflexivity|congruence| |exact Hs].
        unfold need_dbounds, list_sum. cbn [map fold_right] in *. arith. }
    destruct ks as [|k1 kr].
    + norm. rp. rewrite Hargs by reflexivity. rp. apply Hrest. reflexivity.
    + norm. rp. rewrite parse_params_print; [|lia|reflexivity]. cbn [obind].
      rewrite Hargs by reflexivity. rp. apply Hrest. reflexivity.
Qed.

Lemma parse_ty_print n k t rest : need_ty t <= n -> no_lt rest -> parse_ty n k (p_ty k t ++ rest) = Some (t, rest).
Proof. apply types_roundtrip. Qed.

Lemma parse_args_print n k args rest :
  need_gargs args <= n -> no_lt rest -> parse_args n k (p_args k args ++ rest) = Some (args, rest).
Proof.
  intros Hn Hr. unfold parse_args, p_args, angle. destruct args as [|a r].
  - cbn [map app]. unfold no_lt in Hr. rewrite Hr. reflexivity.
  - cbn [map]. norm. rp.
    rew_map (proj1 (proj2 (types_roundtrip n)) (a :: r) k rest ltac:(congruence) Hn). reflexivity.
Qed.

(* ------------------------------------------------------------------------------------- *)
(** ** Where clauses *)

Definition need_wc (w : awc) : nat :=
  match w with
  | WImpl self _ args => need_ty self + need_gargs args
  | WLtOut _ _ => 0
  | WTyOut t _ => need_ty t
  end.

Lemma parse_wc_print n k w rest :
  need_wc w <= n -> no_lt rest -> parse_wc n k (p_wc k w ++ rest) = Some (w, rest).
Proof.
  intros Hn Hr. destruct w as [self tr args|a b|t l]; cbn [need_wc p_wc] in *; unfold parse_wc; norm.
  - rewrite starts_lt_ty. rewrite parse_ty_print; [|arith|reflexivity]. rp.
    cbn [starts_lt]. rewrite parse_args_print; [reflexivity|arith|exact Hr].
  - rewrite starts_lt_print, parse_lt_print. rp. rewrite parse_lt_print. reflexivity.
  - rewrite starts_lt_ty. rewrite parse_ty_print; [|arith|reflexivity]. rp.
    rewrite starts_lt_print, parse_lt_print. reflexivity.
Qed.

Lemma peek_kw_wc kk k w rest : kk = Kforall \/ kk = Kwhere -> peek_kw kk (p_wc k w ++ rest) = false.
Proof.
  intros Hk. destruct w as [self tr args|a b|t l]; cbn [p_wc]; norm.
  - apply peek_kw_ty; try intros s; destruct Hk; subst; congruence.
  - destruct a as [[d i]| |]; destruct Hk; subst; reflexivity.
  - apply peek_kw_ty; try intros s; destruct Hk; subst; congruence.
Qed.

Definition need_qwc (q : aqwc) : nat := length (fst q) + need_wc (snd q).

Lemma parse_qwc_print n D q rest :
  need_qwc q <= n -> no_lt rest -> parse_qwc n D (p_qwc D q ++ rest) = Some (q, rest).
Proof.
  destruct q as [ks w]. unfold need_qwc, p_qwc, parse_qwc. cbn [fst snd]. intros Hn Hr.
  destruct ks as [|k r].
  - rewrite peek_kw_wc by auto. rewrite parse_wc_print; [reflexivity|cbn [length] in Hn; arith|exact Hr].
  - unfold p_params, angle.
    assert (E : p_binder_names D 0 (k :: r) <> []) by (destruct k; cbn; congruence).
    destruct (p_binder_names D 0 (k :: r)) as [|x l] eqn:Ep; [congruence|].
    norm. rp. rewrite <- Ep.
    rewrite parse_binder_names_print; [|congruence|arith]. rp.
    rewrite parse_wc_print; [reflexivity|arith|exact Hr].
Qed.

Definition need_qwcs (qs : list aqwc) : nat := list_sum (map (fun q => S (need_qwc q)) qs).

Lemma parse_qwcs_print qs : forall m n D rest,
  qs <> [] -> length qs <= m -> need_qwcs qs <= n -> no_lt rest -> peek PComma rest = false ->
  parse_qwcs m n D (sep_by comma (map (p_qwc D) qs) ++ rest) = Some (qs, rest).
Proof.
  induction qs as [|q r IH]; intros m n D rest Hne Hm Hn Hr Hc; [congruence|].
  destruct m as [|m]; [cbn in Hm; arith|]. cbn [length] in Hm.
  unfold need_qwcs, list_sum in Hn. cbn [map fold_right] in Hn.
  destruct r as [|q2 r'].
  - cbn [map]. rewrite sep_one. cbn [parse_qwcs]. rewrite parse_qwc_print; [|arith|exact Hr].
    rp. rewrite Hc. reflexivity.
  - cbn [map]. rewrite sep_more. cbn [parse_qwcs]. rewrite parse_qwc_print; [|arith|reflexivity]. rp.
    assert (IH' := IH m n D rest ltac:(congruence) ltac:(cbn [length] in *; arith)
                      ltac:(unfold need_qwcs, list_sum; cbn [map fold_right] in *; arith) Hr Hc).
    cbn [map] in IH'. rewrite IH'. reflexivity.
Qed.

Lemma parse_where_print n D qs rest :
  length qs <= n -> need_qwcs qs <= n -> no_lt rest -> peek PComma rest = false -> peek_kw Kwhere rest = false ->
  parse_where n D (p_where D qs ++ rest) = Some (qs, rest).
Proof.
  intros Hl Hn Hr Hc Hw. unfold parse_where, p_where. destruct qs as [|q r].
  - cbn [app]. rewrite Hw. reflexivity.
  - norm. rp. apply parse_qwcs_print; auto; congruence.
Qed.

(* ------------------------------------------------------------------------------------- *)
(** ** Attributes, fields, items *)

Definition need_fields (fs : list aty) : nat := list_sum (map (fun t => S (need_ty t)) fs).

Lemma parse_fields_print fs : forall m n i rest,
  fs <> [] -> length fs <= m -> need_fields fs <= n ->
  parse_fields m n i (sep_by comma (p_fields i fs) ++ P PRBrace :: rest) = Some (fs, rest).
Proof.
  induction fs as [|t r IH]; intros m n i rest Hne Hm Hn; [congruence|].
  destruct m as [|m]; [cbn in Hm; arith|]. cbn [length] in Hm.
  unfold need_fields, list_sum in Hn. cbn [map fold_right] in Hn.
  destruct r as [|t2 r'].
  - cbn [p_fields]. rewrite sep_one. norm. cbn [parse_fields]. rewrite Nat.eqb_refl. rp. cbn [andb].
    rewrite parse_ty_print; [|arith|reflexivity]. reflexivity.
  - cbn [p_fields]. rewrite sep_more. norm. cbn [parse_fields]. rewrite Nat.eqb_refl. rp. cbn [andb].
    rewrite parse_ty_print; [|arith|reflexivity]. rp.
    assert (IH' := IH m n (S i) rest ltac:(congruence) ltac:(cbn [length] in *; arith)
                      ltac:(unfold need_fields, list_sum; cbn [map fold_right] in *; arith)).
    cbn [p_fields] in IH'. rewrite IH'. reflexivity.
Qed.

Definition need_variants (vs : list (list aty)) : nat := list_sum (map (fun fs => S (length fs + need_fields fs)) vs).

Lemma parse_variants_print vs : forall m n i rest,
  length vs < m -> need_variants vs <= n ->
  parse_variants m n i (p_variants i vs ++ P PRBrace :: rest) = Some (vs, rest).
Proof.
  induction vs as [|fs r IH]; intros m n i rest Hm Hn.
  - destruct m as [|m]; [cbn in Hm; arith|]. reflexivity.
  - destruct m as [|m]; [cbn in Hm; arith|]. cbn [length] in Hm.
    unfold need_variants, list_sum in Hn. cbn [map fold_right] in Hn.
    cbn [p_variants]. norm. cbn [parse_variants]. rp. rewrite Nat.eqb_refl. cbn [andb].
    assert (IH' := IH m n (S i) rest ltac:(arith) ltac:(unfold need_variants, list_sum; arith)).
    destruct fs as [|f1 fr].
    + cbn [p_fields sep_by app]. rp. rewrite IH'. reflexivity.
    + assert (Hp : peek PRBrace (sep_by comma (p_fields 0 (f1 :: fr)) ++ P PRBrace :: P PComma :: p_variants (S i) r ++ P PRBrace :: rest) = false).
      { cbn [p_fields]. destruct fr; cbn [p_fields]; [rewrite sep_one|rewrite sep_more]; reflexivity. }
      rewrite Hp.
      rewrite (parse_fields_print (f1 :: fr) n n 0); [|congruence|arith|arith]. rp. rewrite IH'. reflexivity.
Qed.

Definition need_item (it : aitem) : nat :=
  match it with
  | IEnum _ ps _ vs wcs => length ps + S (length vs) + need_variants vs + length wcs + need_qwcs wcs
  | IStruct _ ps _ fs wcs => length ps + length fs + need_fields fs + length wcs + need_qwcs wcs
  | ITrait _ ps _ wcs => length ps + length wcs + need_qwcs wcs
  | IImpl ps _ _ _ args self wcs => length ps + need_gargs args + need_ty self + length wcs + need_qwcs wcs
  end.

Lemma kws_eqb_refl l : kws_eqb l l = true.
Proof. induction l; cbn; auto. unfold kw_eqb at 1. now rewrite Nat.eqb_refl. Qed.

Lemma struct_attrs fl rest : parse_attrs (sattrs fl ++ KW Kstruct :: rest) = (sflags_kws fl, KW Kstruct :: rest).
Proof. destruct fl as [[] [] [] [] [] []]; reflexivity. Qed.

Lemma enum_attrs fl rest : parse_attrs (sattrs fl ++ KW Kenum :: rest) = (sflags_kws fl, KW Kenum :: rest).
Proof. destruct fl as [[] [] [] [] [] []]; reflexivity. Qed.

Lemma sflags_recover fl : sflags_of (sflags_kws fl) = fl /\ kws_eqb (sflags_kws fl) (sflags_kws fl) = true.
Proof. destruct fl as [[] [] [] [] [] []]; split; reflexivity. Qed.

Lemma trait_attrs fl rest :
  parse_attrs (attr fl.(tf_auto) Kauto ++ attr fl.(tf_marker) Kmarker ++ attr fl.(tf_upstream) Kupstream
               ++ attr fl.(tf_fundamental) Kfundamental ++ attr fl.(tf_non_enumerable) Knon_enumerable
               ++ attr fl.(tf_coinductive) Kcoinductive ++ attr fl.(tf_object_safe) Kobject_safe ++ KW Ktrait :: rest)
  = (tflags_kws fl, KW Ktrait :: rest).
Proof. destruct fl as [[] [] [] [] [] [] []]; reflexivity. Qed.

Lemma tflags_recover fl : tflags_of (tflags_kws fl) = fl /\ kws_eqb (tflags_kws fl) (tflags_kws fl) = true.
Proof. destruct fl as [[] [] [] [] [] [] []]; split; reflexivity. Qed.

Lemma impl_attrs up rest :
  parse_attrs (attr up Kupstream ++ KW Kimpl :: rest) = (kws_of [(up, Kupstream)], KW Kimpl :: rest).
Proof. destruct up; reflexivity. Qed.

Lemma parse_struct_print n name ps fl fs wcs rest :
  need_item (IStruct name ps fl fs wcs) <= n ->
  parse_struct n (sflags_kws fl) name
    (p_params 1 0 ps ++ p_where 2 wcs ++ [P PLBrace] ++ sep_by comma (p_fields 0 fs) ++ [P PRBrace] ++ rest)
  = Some (IStruct name ps fl fs wcs, rest).
Proof.
  cbn [need_item]. intros Hn. unfold parse_struct.
  destruct (sflags_recover fl) as [E1 E2]. rewrite E1, E2.
  rewrite parse_params_print; [|arith|destruct wcs; reflexivity]. rp.
  rewrite parse_where_print; try arith; try reflexivity. rp.
  destruct fs as [|f1 fr].
  - reflexivity.
  - assert (Hp : peek PRBrace (sep_by comma (p_fields 0 (f1 :: fr)) ++ [P PRBrace] ++ rest) = false).
    { cbn [p_fields]. destruct fr; cbn [p_fields]; [rewrite sep_one|rewrite sep_more]; reflexivity. }
    cbn [app] in *. rp. rewrite Hp.
    rewrite (parse_fields_print (f1 :: fr) n n 0 rest); [reflexivity|congruence|cbn [length] in *; arith|arith].
Qed.

Lemma parse_enum_print n name ps fl vs wcs rest :
  need_item (IEnum name ps fl vs wcs) <= n ->
  parse_enum n (sflags_kws fl) name
    (p_params 1 0 ps ++ p_where 2 wcs ++ [P PLBrace] ++ p_variants 0 vs ++ [P PRBrace] ++ rest)
  = Some (IEnum name ps fl vs wcs, rest).
Proof.
  cbn [need_item]. intros Hn. unfold parse_enum.
  destruct (sflags_recover fl) as [E1 E2]. rewrite E1, E2.
  rewrite parse_params_print; [|arith|destruct wcs; reflexivity]. rp.
  rewrite parse_where_print; try arith; try reflexivity. rp. cbn [app]. rp.
  rewrite (parse_variants_print vs n n 0 rest); [reflexivity|arith|arith].
Qed.

Lemma parse_trait_print n name ps fl wcs rest :
  need_item (ITrait name ps fl wcs) <= n ->
  parse_trait n (tflags_kws fl) name (p_params 1 1 ps ++ p_where 2 wcs ++ [P PLBrace; P PRBrace] ++ rest)
  = Some (ITrait name ps fl wcs, rest).
Proof.
  cbn [need_item]. intros Hn. unfold parse_trait.
  destruct (tflags_recover fl) as [E1 E2]. rewrite E1, E2.
  rewrite parse_params_print; [|arith|destruct wcs; reflexivity]. rp.
  rewrite parse_where_print; try arith; try reflexivity.
Qed.

Lemma parse_impl_print n ps up pos tr args self wcs rest :
  need_item (IImpl ps up pos tr args self wcs) <= n ->
  parse_impl n (kws_of [(up, Kupstream)])
    (p_params 1 0 ps ++ (if pos then [] else [P PBang]) ++ [ID tr] ++ p_args 1 args ++ [KW Kfor] ++ p_ty 1 self
     ++ p_where 2 wcs ++ [P PLBrace; P PRBrace] ++ rest)
  = Some (IImpl ps up pos tr args self wcs, rest).
Proof.
  cbn [need_item]. intros Hn. unfold parse_impl.
  assert (E : has_kw Kupstream (kws_of [(up, Kupstream)]) = up) by (destruct up; reflexivity).
  rewrite E. rewrite kws_eqb_refl.
  rewrite parse_params_print; [|arith|destruct pos; reflexivity]. rp.
  destruct pos; cbn [app]; rp; cbn [negb].
  - rewrite parse_args_print; [|arith|reflexivity]. rp.
    rewrite parse_ty_print; [|arith|destruct wcs; reflexivity]. rp.
    rewrite parse_where_print; try arith; try reflexivity.
  - rewrite parse_args_print; [|arith|reflexivity]. rp.
    rewrite parse_ty_print; [|arith|destruct wcs; reflexivity]. rp.
    rewrite parse_where_print; try arith; try reflexivity.
Qed.

Lemma parse_item_print n it rest :
  need_item it <= n -> parse_item n (p_item it ++ rest) = Some (it, rest).
Proof.
  intros Hn. destruct it as [name ps fl fs wcs|name ps fl vs wcs|name ps fl wcs|ps up pos tr args self wcs]; unfold parse_item, p_item.
  - norm. rewrite struct_attrs. cbn [fst snd]. apply (parse_struct_print n name ps fl fs wcs rest Hn).
  - norm. rewrite enum_attrs. cbn [fst snd]. apply (parse_enum_print n name ps fl vs wcs rest Hn).
  - norm. rewrite trait_attrs. cbn [fst snd]. apply (parse_trait_print n name ps fl wcs rest Hn).
  - norm. rewrite impl_attrs. cbn [fst snd]. apply (parse_impl_print n ps up pos tr args self wcs rest Hn).
Qed.

(* ------------------------------------------------------------------------------------- *)
(** ** Programs *)

Definition need_ast (a : ast) : nat := list_sum (map (fun it => S (need_item it)) a).

Lemma p_item_cons it : exists tk r, p_item it = tk :: r.
Proof.
  destruct it as [name ps fl fs wcs|name ps fl vs wcs|name ps fl wcs|ps up pos tr args self wcs]; cbn [p_item].
  - destruct fl as [[] [] [] [] [] []]; cbn; eauto.
  - destruct fl as [[] [] [] [] [] []]; cbn; eauto.
  - destruct fl as [[] [] [] [] [] [] []]; cbn; eauto.
  - destruct up; cbn; eauto.
Qed.

Lemma parse_items_print a : forall m n,
  length a <= m -> need_ast a <= n -> parse_items m n (print_ast a) = Some a.
Proof.
  induction a as [|it r IH]; intros m n Hm Hn; [destruct m; reflexivity|].
  unfold print_ast. cbn [map concat]. fold (print_ast r).
  destruct m as [|m]; [cbn in Hm; lia|].
  unfold need_ast, list_sum in Hn. cbn [map fold_right] in Hn.
  destruct (p_item_cons it) as [tk [r' E]].
  cbn [parse_items]. rewrite E. cbn [app]. change (tk :: r' ++ print_ast r) with ((tk :: r') ++ print_ast r). rewrite <- E.
  rewrite parse_item_print by lia. cbn [obind].
  rewrite IH; [reflexivity|cbn [length] in Hm; lia|unfold need_ast, list_sum; lia].
Qed.

(** Theorem A: the parser inverts the printer on every surface program, given enough fuel. *)
Theorem parse_print_ast a fuel :
  length a + need_ast a <= fuel -> parse_ast_fuel fuel (print_ast a) = Some a.
Proof. intros H. apply parse_items_print; lia. Qed.
