(** * Text.LowerFailFacts — [lower_no_panic] and the classification theorems for
    [Text.LowerFail] (property C24). *)

From Coq Require Import List Arith PeanoNat NArith Bool Lia.
Import ListNotations.
From Chalk Require Import Text.LowerFail.

Set Implicit Arguments.

(* ------------------------------------------------------------------------------------- *)
(** ** [np] is preserved by the combinators *)

Lemma np_bind A B (a : out A) (f : A -> out B) :
  np a -> (forall x, a = Ok x -> np (f x)) -> np (bind a f).
Proof. destruct a; cbn; auto. Qed.

Lemma np_bind' A B (a : out A) (f : A -> out B) :
  np a -> (forall x, np (f x)) -> np (bind a f).
Proof. intros; apply np_bind; auto. Qed.

Lemma np_mapM A B (f : A -> out B) l : (forall x, In x l -> np (f x)) -> np (mapM f l).
Proof.
  induction l as [|x r IH]; cbn; intros H; [exact I|].
  apply np_bind'; [apply H; now left|]. intros y.
  apply np_bind'; [apply IH; intros; apply H; now right|]. intros; exact I.
Qed.

Lemma np_iterM A (f : A -> out unit) l : (forall x, In x l -> np (f x)) -> np (iterM f l).
Proof.
  induction l as [|x r IH]; cbn; intros H; [exact I|].
  apply np_bind'; [apply H; now left|]. intros _. apply IH; intros; apply H; now right.
Qed.

Lemma np_iterM_rev A (f : A -> out unit) l : (forall x, In x l -> np (f x)) -> np (iterM_rev f l).
Proof.
  induction l as [|x r IH]; cbn; intros H; [exact I|].
  apply np_bind'; [apply IH; intros; apply H; now right|]. intros _. apply H; now left.
Qed.

Lemma np_collect_then A (xs : out A) r : np xs -> np r -> np (collect_then xs r).
Proof. destruct xs, r; cbn; auto. Qed.

Lemma np_when b e : np (when b e).
Proof. destruct b; exact I. Qed.

Lemma np_guard b s : b = true -> np (guard b s).
Proof. intros ->; exact I. Qed.

Lemma np_introduce pm bs : np (introduce pm bs).
Proof. unfold introduce; destruct (_ && _)%bool; exact I. Qed.

Lemma np_sig_abi b : np (sig_abi b).
Proof. destruct b; exact I. Qed.

Lemma np_check_kinds e1 e2 a b : np (check_kinds e1 e2 a b).
Proof. unfold check_kinds. destruct (negb _); [exact I|]. destruct (forallb _ _); exact I. Qed.

Lemma np_variance_check v n : np (variance_check v n).
Proof. destruct v; cbn; [apply np_when|exact I]. Qed.

Global Hint Resolve np_when np_introduce np_sig_abi np_check_kinds np_variance_check : np.

(* ------------------------------------------------------------------------------------- *)
(** ** Tables *)

Lemma has_cons_mono K V (eqb : K -> K -> bool) k k' (v : V) m :
  has eqb k m = true -> has eqb k ((k', v) :: m) = true.
Proof. unfold has; cbn. destruct (eqb k k'); auto. Qed.

Lemma has_cons_here K V (eqb : K -> K -> bool) k (v : V) m :
  eqb k k = true -> has eqb k ((k, v) :: m) = true.
Proof. unfold has; cbn. intros ->; reflexivity. Qed.

Lemma pair_eqb_refl k : pair_eqb k k = true.
Proof. unfold pair_eqb. now rewrite !N.eqb_refl. Qed.

Lemma has_get K V (eqb : K -> K -> bool) k (m : list (K * V)) :
  has eqb k m = true -> exists v, get eqb k m = Some v.
Proof. unfold has. destruct (get eqb k m); [eauto|discriminate]. Qed.

(** every id a name table yields is a key of the corresponding kind table *)
Definition ids_in V (ids : list (ident * N)) (kinds : list (N * V)) : Prop :=
  forall n i, get N.eqb n ids = Some i -> has N.eqb i kinds = true.

Record genv_ok (g : genv) : Prop := {
  ok_adt : ids_in g.(adt_ids) g.(adt_kinds);
  ok_fn : ids_in g.(fn_ids) g.(fn_kinds);
  ok_closure : ids_in g.(closure_ids) g.(closure_kinds);
  ok_opaque : ids_in g.(opaque_ids) g.(opaque_kinds);
  ok_coroutine : ids_in g.(coroutine_ids) g.(coroutine_kinds);
  ok_trait : ids_in g.(trait_ids) g.(trait_kinds);
  ok_auto : ids_in g.(trait_ids) g.(auto_traits);
}.

Lemma ids_in_cons V ids (kinds : list (N * V)) name i ks :
  ids_in ids kinds -> ids_in ((name, i) :: ids) ((i, ks) :: kinds).
Proof.
  intros H n j. cbn. destruct (N.eqb n name).
  - intros [= <-]. apply has_cons_here, N.eqb_refl.
  - intros Hg. apply has_cons_mono. eapply H; eauto.
Qed.

Lemma np_kind_of s m i : has N.eqb i m = true -> np (kind_of s m i).
Proof. unfold kind_of, has. destruct (get N.eqb i m); [intros; exact I|discriminate]. Qed.

Section WithEnv.
  Variable g : genv.
  Hypothesis Hok : genv_ok g.
  Let c := fixed.

  Lemma lookup_type_adt pm n i : lookup_type g pm n = Some (LAdt i) -> has N.eqb i g.(adt_kinds) = true.
  Proof.
    unfold lookup_type. destruct (get N.eqb n pm); [discriminate|].
    destruct (get N.eqb n (adt_ids g)) eqn:E; [intros [= <-]; eapply ok_adt; eauto|].
    repeat (match goal with |- context [match ?x with _ => _ end] => destruct x end; try discriminate).
  Qed.

  Ltac lk_solve E :=
    unfold lookup_type;
    repeat (match goal with
            | |- context [match get N.eqb ?n ?m with _ => _ end] =>
                let E' := fresh "E" in destruct (get N.eqb n m) eqn:E'
            end; try discriminate);
    try (intros [= <-]; eauto using ok_fn, ok_closure, ok_opaque, ok_coroutine, ok_trait, ok_adt, ok_auto).

  Lemma lookup_type_fn pm n i : lookup_type g pm n = Some (LFnDef i) -> has N.eqb i g.(fn_kinds) = true.
  Proof. lk_solve E; eapply ok_fn; eauto. Qed.
  Lemma lookup_type_closure pm n i : lookup_type g pm n = Some (LClosure i) -> has N.eqb i g.(closure_kinds) = true.
  Proof. lk_solve E; eapply ok_closure; eauto. Qed.
  Lemma lookup_type_opaque pm n i : lookup_type g pm n = Some (LOpaque i) -> has N.eqb i g.(opaque_kinds) = true.
  Proof. lk_solve E; eapply ok_opaque; eauto. Qed.
  Lemma lookup_type_coroutine pm n i : lookup_type g pm n = Some (LCoroutine i) -> has N.eqb i g.(coroutine_kinds) = true.
  Proof. lk_solve E; eapply ok_coroutine; eauto. Qed.

  Lemma np_lookup_generic_arg pm n : np (lookup_generic_arg g pm n).
  Proof.
    unfold lookup_generic_arg.
    destruct (lookup_type g pm n) as [[k|i|i|i|i|i|i|i]|] eqn:E; try exact I.
    - apply np_bind; [apply np_kind_of; eapply lookup_type_adt; eauto|]. intros [|]; intros; exact I.
    - apply np_bind; [apply np_kind_of; eapply lookup_type_fn; eauto|]. intros [|]; intros; exact I.
    - apply np_bind; [apply np_kind_of; eapply lookup_type_closure; eauto|]. intros [|]; intros; exact I.
    - apply np_bind; [apply np_kind_of; eapply lookup_type_coroutine; eauto|]. intros [|]; intros; exact I.
  Qed.

  Lemma np_lookup_trait pm n : np (lookup_trait g pm n).
  Proof. unfold lookup_trait. destruct (get _ _ _); [exact I|]. destruct (_ || _)%bool; exact I. Qed.

  Lemma lookup_trait_ok pm n i : lookup_trait g pm n = Ok i -> get N.eqb n g.(trait_ids) = Some i.
  Proof. unfold lookup_trait. destruct (get _ _ _); [intros [= ->]; auto|]. destruct (_ || _)%bool; discriminate. Qed.

  Lemma np_lookup_associated_ty tr n : np (lookup_associated_ty g tr n).
  Proof. unfold lookup_associated_ty. destruct (get _ _ _); exact I. Qed.

  Lemma np_lower_lifetime pm l : np (lower_lifetime g pm l).
  Proof.
    destruct l; cbn; try exact I.
    apply np_bind'; [apply np_lookup_generic_arg|]. intros []; exact I.
  Qed.

  Lemma np_lower_konst pm k : np (lower_konst g pm k).
  Proof.
    destruct k; cbn; try exact I.
    apply np_bind'; [apply np_lookup_generic_arg|]. intros []; exact I.
  Qed.

  Lemma np_trait_bound_head pm tr : np (trait_bound_head g pm tr).
  Proof.
    unfold trait_bound_head. apply np_bind; [apply np_lookup_trait|]. intros i Hi.
    apply np_bind'; [|intros; exact I].
    apply np_kind_of. eapply ok_trait; eauto. eapply lookup_trait_ok; eauto.
  Qed.

  Lemma np_bound_head pm b : np (bound_head g pm b).
  Proof.
    unfold bound_head. apply np_bind; [apply np_lookup_trait|]. intros i Hi.
    apply lookup_trait_ok in Hi. apply (ok_auto Hok) in Hi.
    apply has_get in Hi. destruct Hi as [v ->]. exact I.
  Qed.

  Lemma np_apply_check ks n o : np o -> np (apply_check ks n o).
  Proof.
    unfold apply_check. intros H. destruct (negb _); [exact I|].
    apply np_bind'; auto. intros a. destruct (forallb _ _); exact I.
  Qed.

  (** *** ordering of bounds only permutes (a subset of) the results *)
  Lemma In_insert_by_id A (x y : N * A) l : In x (insert_by_id y l) -> x = y \/ In x l.
  Proof.
    induction l as [|z r IH]; cbn; [intuition|].
    destruct (N.leb (fst y) (fst z)); cbn; [intuition|].
    intros [->|H]; [intuition|]. apply IH in H. intuition.
  Qed.

  Lemma In_sort_by_id A (x : N * A) l : In x (sort_by_id l) -> In x l.
  Proof.
    induction l as [|z r IH]; cbn; [auto|].
    intros H. apply In_insert_by_id in H. destruct H as [->|H]; auto.
  Qed.

  Lemma In_order_bounds A hs (rs : list A) x : In x (order_bounds hs rs) -> In x rs.
  Proof.
    unfold order_bounds. rewrite in_app_iff. intros [H|H].
    - apply in_map_iff in H. destruct H as [[h r] [<- H]]. apply filter_In in H. destruct H as [H _].
      apply in_combine_r in H. exact H.
    - apply in_map_iff in H. destruct H as [[i r] [<- H]]. apply In_sort_by_id in H.
      apply in_map_iff in H. destruct H as [[h r'] [[= _ <-] H]]. apply filter_In in H. destruct H as [H _].
      apply in_combine_r in H. exact H.
  Qed.

  Lemma np_lower_bounds pm bounds results :
    (forall r, In r results -> np r) -> np (lower_bounds g pm bounds results).
  Proof.
    intros H. unfold lower_bounds.
    apply np_bind'; [apply np_mapM; intros; apply np_bound_head|]. intros hs.
    apply np_iterM. intros r Hr. apply H. eapply In_order_bounds; eauto.
  Qed.

  (* --------------------------------------------------------------------------------- *)
  (** *** types, generic arguments, inline bounds: induction on size *)

  Fixpoint size_ty (t : ty) : nat :=
    match t with
    | TId _ | TScalar | TStr | TNever => 1
    | TApply _ args => S (list_sum (map size_garg args))
    | TDyn bounds _ => S (list_sum (map size_qib bounds))
    | TProj _ self targs _ args => S (size_ty self + list_sum (map size_garg targs) + list_sum (map size_garg args))
    | TFn _ tys _ => S (list_sum (map size_ty tys))
    | TTuple ts => S (list_sum (map size_ty ts))
    | TSlice t | TRaw t | TArray t _ | TRef _ t => S (size_ty t)
    end
  with size_garg (a : garg) : nat :=
    match a with GTy t => S (size_ty t) | _ => 1 end
  with size_qib (b : qib) : nat :=
    match b with
    | QIBTrait _ _ args => S (list_sum (map size_garg args))
    | QIBAlias _ _ args _ aargs value => S (list_sum (map size_garg args) + list_sum (map size_garg aargs) + size_ty value)
    end.

  Lemma in_list_sum A (f : A -> nat) x l : In x l -> f x <= list_sum (map f l).
  Proof. unfold list_sum. induction l; cbn; [tauto|]. intros [->|H]; [lia|]. apply IHl in H. lia. Qed.

  Lemma np_types n :
    (forall t, size_ty t <= n -> forall pm, np (lower_ty c g pm t)) /\
    (forall a, size_garg a <= n -> forall pm, np (lower_garg c g pm a)) /\
    (forall b, size_qib b <= n -> forall pm, np (lower_qib c g pm b)).
  Proof.
    induction n as [|n [IHt [IHa IHb]]].
    { repeat split; intros x H; destruct x; cbn in H; lia. }
    assert (Hargs : forall args pm, list_sum (map size_garg args) <= n -> np (mapM (lower_garg c g pm) args)).
    { intros args pm H. apply np_mapM. intros a Ha. apply IHa. pose proof (in_list_sum size_garg _ _ Ha). lia. }
    assert (Htys : forall tys pm, list_sum (map size_ty tys) <= n -> np (iterM (lower_ty c g pm) tys)).
    { intros tys pm H. apply np_iterM. intros a Ha. apply IHt. pose proof (in_list_sum size_ty _ _ Ha). lia. }
    repeat split.
    - intros t Hs pm. destruct t; cbn in Hs; cbn [lower_ty].
      + apply np_bind'; [apply np_lookup_generic_arg|]. intros []; exact I.
      + destruct (lookup_type g pm n0) as [[k|i|i|i|i|i|i|i]|] eqn:E; try exact I.
        * apply np_bind'; [apply np_kind_of; eapply lookup_type_adt; eauto|]. intros; apply np_apply_check, Hargs; lia.
        * apply np_bind'; [apply np_kind_of; eapply lookup_type_fn; eauto|]. intros; apply np_apply_check, Hargs; lia.
        * apply np_bind'; [apply np_kind_of; eapply lookup_type_closure; eauto|]. intros; apply np_apply_check, Hargs; lia.
        * apply np_bind'; [apply np_kind_of; eapply lookup_type_opaque; eauto|]. intros; apply np_apply_check, Hargs; lia.
        * cbn. destruct args; exact I.
        * apply np_bind'; [apply np_kind_of; eapply lookup_type_coroutine; eauto|]. intros; apply np_apply_check, Hargs; lia.
      + apply np_bind'; [apply np_introduce|]. intros pm'.
        apply np_bind'; [|intros; apply np_lower_lifetime].
        apply np_lower_bounds. intros r Hr. apply in_map_iff in Hr. destruct Hr as [b [<- Hb]].
        apply IHb. pose proof (in_list_sum size_qib _ _ Hb). lia.
      + apply np_bind'; [apply np_trait_bound_head|]. intros h.
        apply np_bind'; [apply Hargs; lia|]. intros tks.
        apply np_bind'; [apply np_check_kinds|]. intros _.
        apply np_bind'; [apply IHt; lia|]. intros _.
        apply np_bind'; [apply np_lookup_associated_ty|]. intros aks.
        apply np_bind'; [apply Hargs; lia|]. intros actual. apply np_check_kinds.
      + apply np_bind'; [apply np_introduce|]. intros pm'.
        apply np_bind'; [apply Htys; lia|]. intros _. apply np_sig_abi.
      + apply Htys; lia.
      + exact I.
      + exact I.
      + exact I.
      + apply IHt; lia.
      + apply np_bind'; [apply IHt; lia|]. intros _. apply np_lower_konst.
      + apply IHt; lia.
      + apply np_bind'; [apply np_lower_lifetime|]. intros _. apply IHt; lia.
    - intros a Hs pm. destruct a; cbn in Hs; cbn [lower_garg].
      + apply np_bind'; [apply IHt; lia|]. intros; exact I.
      + apply np_bind'; [apply np_lower_lifetime|]. intros; exact I.
      + apply np_lookup_generic_arg.
      + apply np_bind'; [apply np_lower_konst|]. intros; exact I.
    - intros b Hs pm. destruct b; cbn in Hs; cbn [lower_qib].
      + apply np_bind'; [apply np_introduce|]. intros pm'.
        apply np_bind'; [apply np_trait_bound_head|]. intros h.
        apply np_bind'; [apply Hargs; lia|]. intros tks. apply np_check_kinds.
      + apply np_bind'; [apply np_introduce|]. intros pm'.
        apply np_bind'; [apply np_trait_bound_head|]. intros h.
        apply np_bind'; [apply Hargs; lia|]. intros tks.
        apply np_bind'; [apply np_check_kinds|]. intros _.
        apply np_bind'; [apply np_lookup_associated_ty|]. intros aks.
        apply np_bind'; [apply Hargs; lia|]. intros actual.
        apply np_bind'; [apply np_check_kinds|]. intros _. apply IHt; lia.
  Qed.

  Lemma np_lower_ty pm t : np (lower_ty c g pm t).
  Proof. eapply (proj1 (np_types (size_ty t))); lia. Qed.
  Lemma np_lower_garg pm a : np (lower_garg c g pm a).
  Proof. eapply (proj1 (proj2 (np_types (size_garg a)))); lia. Qed.
  Lemma np_lower_qib pm b : np (lower_qib c g pm b).
  Proof. eapply (proj2 (proj2 (np_types (size_qib b)))); lia. Qed.


  Lemma np_lower_trait_ref pm tr self args : np (lower_trait_ref c g pm tr self args).
  Proof.
    unfold lower_trait_ref.
    apply np_bind'; [apply np_trait_bound_head|]. intros h.
    apply np_bind'; [apply np_mapM; intros; apply np_lower_garg|]. intros tks.
    apply np_bind'; [apply np_check_kinds|]. intros _.
    apply np_bind'; [apply np_lower_ty|]. intros; exact I.
  Qed.

  Lemma np_lower_proj pm tr self targs name args : np (lower_proj c g pm tr self targs name args).
  Proof.
    unfold lower_proj.
    apply np_bind'; [apply np_lower_trait_ref|]. intros i.
    apply np_bind'; [apply np_lookup_associated_ty|]. intros aks.
    apply np_bind'; [apply np_mapM; intros; apply np_lower_garg|]. intros actual. apply np_check_kinds.
  Qed.

  Lemma np_lower_wc pm w : np (lower_wc c g pm w).
  Proof.
    destruct w; cbn [lower_wc].
    - apply np_bind'; [apply np_lower_trait_ref|]. intros; exact I.
    - apply np_bind'; [apply np_lower_proj|]. intros _.
      apply np_bind'; [apply np_lower_ty|]. intros _.
      apply np_bind'; [apply np_lower_trait_ref|]. intros; exact I.
    - apply np_bind'; [apply np_lower_lifetime|]. intros _. apply np_lower_lifetime.
    - apply np_bind'; [apply np_lower_ty|]. intros _. apply np_lower_lifetime.
  Qed.

  Lemma np_lower_qwcs pm l : np (lower_qwcs c g pm l).
  Proof.
    apply np_iterM. intros q _. unfold lower_qwc.
    apply np_bind'; [apply np_introduce|]. intros; apply np_lower_wc.
  Qed.

  Lemma np_lower_dgoal pm d : np (lower_dgoal c g pm d).
  Proof.
    destruct d; cbn [lower_dgoal].
    - apply np_lower_wc.
    - apply np_bind'; [apply np_lower_proj|]. intros _. apply np_lower_ty.
    - apply np_lower_ty.
    - apply np_bind'; [apply np_lower_trait_ref|]. intros; exact I.
    - exact I.
    - apply np_bind'; [apply np_lookup_trait|]. intros; exact I.
  Qed.

  Fixpoint size_goal (gl : goal) : nat :=
    match gl with
    | GQuant _ g' | GWrap g' => S (size_goal g')
    | GImplies hyp g' => S (list_sum (map size_clause hyp) + size_goal g')
    | GAnd g1 gs => S (size_goal g1 + list_sum (map size_goal gs))
    | GLeaf _ | GUnify _ _ | GSubtype _ _ => 1
    end
  with size_clause (cl : clause) : nat :=
    match cl with Clause _ _ conds => S (list_sum (map size_goal conds)) end.

  Lemma np_goals n :
    (forall gl, size_goal gl <= n -> forall pm, np (lower_goal c g pm gl)) /\
    (forall cl, size_clause cl <= n -> forall pm, np (lower_clause c g pm cl)).
  Proof.
    induction n as [|n [IHg IHc]].
    { split; intros x H; destruct x; cbn in H; lia. }
    split.
    - intros gl Hs pm. destruct gl; cbn in Hs; cbn [lower_goal].
      + apply np_bind'; [apply np_introduce|]. intros pm'. apply IHg; lia.
      + apply np_bind'; [|intros _; apply IHg; lia].
        apply np_iterM. intros cl Hcl. apply IHc. pose proof (in_list_sum size_clause _ _ Hcl). lia.
      + apply np_bind'; [apply IHg; lia|]. intros _.
        apply np_iterM. intros g' Hg'. apply IHg. pose proof (in_list_sum size_goal _ _ Hg'). lia.
      + apply IHg; lia.
      + apply np_lower_dgoal.
      + apply np_bind'; [apply np_lower_garg|]. intros _.
        apply np_bind'; [apply np_lower_garg|]. intros; exact I.
      + apply np_bind'; [apply np_lower_ty|]. intros _. apply np_lower_ty.
    - intros cl Hs pm. destruct cl; cbn in Hs; cbn [lower_clause].
      apply np_bind'; [apply np_introduce|]. intros pm'.
      apply np_bind'; [apply np_lower_dgoal|]. intros _.
      apply np_iterM_rev. intros g' Hg'. apply IHg. pose proof (in_list_sum size_goal _ _ Hg'). lia.
  Qed.

  Lemma np_lower_goal pm gl : np (lower_goal c g pm gl).
  Proof. eapply (proj1 (np_goals (size_goal gl))); lia. Qed.
  Lemma np_lower_clause pm cl : np (lower_clause c g pm cl).
  Proof. eapply (proj2 (np_goals (size_clause cl))); lia. Qed.

  (** *** items: the keys an item indexes must be present *)
  Definition item_covered (i : N) (it : item) : Prop :=
    match it with
    | ITrait _ _ _ _ assocs => forall ad, In ad assocs -> has pair_eqb (i, ad.(ad_name)) g.(assoc_lookups) = true
    | IImpl _ _ _ _ _ _ atvs => forall a, In a atvs -> has pair_eqb (i, a.(av_name)) g.(atv_ids) = true
    | ICoroutine name _ _ _ _ _ _ _ => has N.eqb name g.(coroutine_ids) = true
    | _ => True
    end.

  Lemma np_bounds_of pm bounds : np (lower_bounds g pm bounds (map (lower_qib c g pm) bounds)).
  Proof.
    apply np_lower_bounds. intros r Hr. apply in_map_iff in Hr. destruct Hr as [b [<- _]]. apply np_lower_qib.
  Qed.

  Lemma np_lower_item i it : item_covered i it -> np (lower_item c g i it).
  Proof.
    intros Hc. destruct it; cbn [lower_item].
    - apply np_bind'; [apply np_when|]. intros _.
      apply np_bind'; [apply np_introduce|]. intros pm.
      apply np_bind'; [apply np_iterM; intros; apply np_iterM; intros; apply np_lower_ty|]. intros _.
      apply np_bind'; [apply np_lower_qwcs|]. intros _.
      apply np_bind'; [destruct repr_int; [apply np_lower_ty|exact I]|]. intros _. apply np_variance_check.
    - apply np_bind'; [apply np_introduce|]. intros pm.
      apply np_bind'; [apply np_lower_qwcs|]. intros _.
      apply np_bind'; [apply np_collect_then; [apply np_iterM; intros; apply np_lower_ty|apply np_lower_ty]|]. intros _.
      apply np_bind'; [apply np_sig_abi|]. intros _. apply np_variance_check.
    - apply np_bind'; [apply np_introduce|]. intros pm.
      apply np_bind'; [apply np_collect_then; [apply np_iterM; intros; apply np_lower_ty|apply np_lower_ty]|]. intros _.
      apply np_iterM; intros; apply np_lower_ty.
    - cbn in Hc.
      apply np_bind'; [apply np_introduce|]. intros pm.
      apply np_bind'; [apply np_when|]. intros _.
      apply np_bind'; [apply np_when|]. intros _.
      apply np_bind'; [apply np_lower_qwcs|]. intros _.
      apply np_bind'; [apply np_iterM; intros ad Had; apply np_guard; auto|]. intros _.
      apply np_iterM. intros ad Had.
      apply np_bind'; [apply np_guard; auto|]. intros _.
      apply np_bind'; [apply np_introduce|]. intros pm'.
      apply np_bind'; [apply np_bounds_of|]. intros _. apply np_lower_qwcs.
    - destruct (has N.eqb name (opaque_ids g)); [|exact I].
      apply np_bind'; [apply np_introduce|]. intros pm.
      apply np_bind'; [apply np_lower_ty|]. intros _.
      apply np_bind'; [apply np_introduce|]. intros pm1.
      apply np_bind'; [apply np_bounds_of|]. intros _. apply np_lower_qwcs.
    - cbn in Hc.
      apply np_bind'; [apply np_introduce|]. intros pm.
      apply np_bind'; [apply np_lower_ty|]. intros _.
      apply np_bind'; [apply np_lower_ty|]. intros _.
      apply np_bind'; [apply np_lower_ty|]. intros _.
      apply np_bind'; [apply np_iterM; intros; apply np_lower_ty|]. intros _.
      apply np_bind'; [apply np_introduce|]. intros pm'.
      apply np_bind'; [apply np_iterM; intros; apply np_lower_ty|]. intros _.
      apply np_guard; auto.
    - cbn in Hc.
      apply np_bind'; [apply np_introduce|]. intros pm.
      apply np_bind'; [apply np_lower_trait_ref|]. intros tid.
      apply np_bind'; [apply np_when|]. intros _.
      apply np_bind'; [apply np_lower_qwcs|]. intros _.
      apply np_bind'; [apply np_iterM; intros a Ha; apply np_guard; auto|]. intros _.
      apply np_iterM. intros a Ha.
      apply np_bind'; [apply np_guard; auto|]. intros _.
      apply np_bind'; [destruct (has _ _ _); exact I|]. intros _.
      apply np_bind'; [apply np_introduce|]. intros pm'. apply np_lower_ty.
    - apply np_lower_clause.
    - exact I.
  Qed.

  Lemma np_lower_items items : forall i,
    (forall k it, nth_error items k = Some it -> item_covered (i + N.of_nat k) it) ->
    np (lower_items c g i items).
  Proof.
    induction items as [|it r IH]; intros i H; cbn; [exact I|].
    apply np_bind'.
    - apply np_lower_item. specialize (H 0%nat it eq_refl). now rewrite N.add_0_r in H.
    - intros _. apply IH. intros k it' Hk. specialize (H (S k) it' Hk).
      replace (N.succ i + N.of_nat k)%N with (i + N.of_nat (S k))%N by lia. exact H.
  Qed.

End WithEnv.

(* ------------------------------------------------------------------------------------- *)
(** ** The extraction passes establish [genv_ok] and cover every item *)

Lemma genv_ok_empty : genv_ok empty_genv.
Proof. constructor; intros n i; cbn; discriminate. Qed.

Lemma genv_ok_set_assoc g al av : genv_ok g -> genv_ok (set_assoc g al av).
Proof. intros [? ? ? ? ? ? ?]; constructor; cbn; assumption. Qed.

Lemma extract_ids_one_ok i it g : genv_ok g -> genv_ok (extract_ids_one i it g).
Proof.
  intros [H1 H2 H3 H4 H5 H6 H7]; destruct it; cbn; try (constructor; cbn; assumption);
    constructor; cbn; try assumption; apply ids_in_cons; assumption.
Qed.

Lemma extract_ids_ok items : forall i g, genv_ok g -> genv_ok (extract_ids i items g).
Proof. induction items; cbn; intros; auto using extract_ids_one_ok. Qed.

Lemma extract_ids_one_assoc i it g :
  (extract_ids_one i it g).(assoc_lookups) = g.(assoc_lookups) /\
  (extract_ids_one i it g).(atv_ids) = g.(atv_ids).
Proof. destruct it; cbn; auto. Qed.

Lemma extract_ids_assoc items : forall i g,
  (extract_ids i items g).(assoc_lookups) = g.(assoc_lookups) /\
  (extract_ids i items g).(atv_ids) = g.(atv_ids).
Proof.
  induction items as [|it r IH]; cbn; intros; auto.
  destruct (IH (N.succ i) (extract_ids_one i it g)) as [-> ->]. apply extract_ids_one_assoc.
Qed.

Lemma extract_ids_one_cor_mono i it g n :
  has N.eqb n g.(coroutine_ids) = true -> has N.eqb n (extract_ids_one i it g).(coroutine_ids) = true.
Proof. destruct it; cbn; auto. apply has_cons_mono. Qed.

Lemma extract_ids_cor_mono items : forall i g n,
  has N.eqb n g.(coroutine_ids) = true -> has N.eqb n (extract_ids i items g).(coroutine_ids) = true.
Proof. induction items; cbn; intros; auto using extract_ids_one_cor_mono. Qed.

Lemma extract_ids_cor_cover items : forall i g k name vks u r y rt wl wt,
  nth_error items k = Some (ICoroutine name vks u r y rt wl wt) ->
  has N.eqb name (extract_ids i items g).(coroutine_ids) = true.
Proof.
  induction items as [|it r IH]; intros i g [|k] *; cbn; try discriminate.
  - intros [= ->]. apply extract_ids_cor_mono. cbn. apply has_cons_here, N.eqb_refl.
  - intros H. eapply IH; eauto.
Qed.

(** pass 1 *)
Lemma fold_left_cons_mono A K V (eqb : K -> K -> bool) (f : A -> K * V) l : forall acc k,
  has eqb k acc = true -> has eqb k (fold_left (fun acc a => f a :: acc) l acc) = true.
Proof.
  induction l as [|a r IH]; cbn; intros; auto. apply IH. destruct (f a). now apply has_cons_mono.
Qed.

Lemma fold_left_cons_cover A K V (eqb : K -> K -> bool) (f : A -> K * V) l :
  (forall k, eqb k k = true) ->
  forall acc a, In a l -> has eqb (fst (f a)) (fold_left (fun acc a => f a :: acc) l acc) = true.
Proof.
  intros Hr. induction l as [|b r IH]; cbn; intros acc a; [tauto|].
  intros [->|H]; [|now apply IH].
  apply fold_left_cons_mono. destruct (f a); cbn. now apply has_cons_here.
Qed.

Definition assoc_covered (g : genv) (i : N) (it : item) : Prop :=
  match it with
  | ITrait _ _ _ _ assocs => forall ad, In ad assocs -> has pair_eqb (i, ad.(ad_name)) g.(assoc_lookups) = true
  | IImpl _ _ _ _ _ _ atvs => forall a, In a atvs -> has pair_eqb (i, a.(av_name)) g.(atv_ids) = true
  | _ => True
  end.

Definition assoc_le (g g' : genv) : Prop :=
  (forall k, has pair_eqb k g.(assoc_lookups) = true -> has pair_eqb k g'.(assoc_lookups) = true) /\
  (forall k, has pair_eqb k g.(atv_ids) = true -> has pair_eqb k g'.(atv_ids) = true).

Lemma assoc_le_refl g : assoc_le g g.
Proof. split; auto. Qed.
Lemma assoc_le_trans a b c : assoc_le a b -> assoc_le b c -> assoc_le a c.
Proof. intros [? ?] [? ?]; split; auto. Qed.

Lemma assoc_covered_le g g' i it : assoc_le g g' -> assoc_covered g i it -> assoc_covered g' i it.
Proof. intros [H1 H2]. destruct it; cbn; auto. Qed.

Lemma extract_assoc_one_spec i it g g' :
  extract_assoc_one i it g = Ok g' ->
  assoc_le g g' /\ assoc_covered g' i it /\ (genv_ok g -> genv_ok g').
Proof.
  destruct it as [| | |tn tv ta tw assocs| | |iv ip itr isf ia iw atvs| |]; cbn.
  1-3,5-6,8-9: intros [= <-]; split; [apply assoc_le_refl|split; [exact I|auto]].
  - destruct (ta && negb (is_nil assocs))%bool; [discriminate|]. intros [= <-]. split; [split|split]; cbn; auto.
    + intros k Hk. now apply fold_left_cons_mono.
    + intros ad Had.
      apply (fold_left_cons_cover pair_eqb (fun ad => ((i, ad_name ad), kinds_of (ad_vks ad))) assocs pair_eqb_refl _ _ Had).
    + apply genv_ok_set_assoc.
  - intros [= <-]. split; [split|split]; cbn; auto.
    + intros k Hk. now apply fold_left_cons_mono.
    + intros a Ha.
      apply (fold_left_cons_cover pair_eqb (fun a => ((i, av_name a), tt)) atvs pair_eqb_refl _ _ Ha).
    + apply genv_ok_set_assoc.
Qed.

Lemma extract_assoc_spec items : forall i g g',
  extract_assoc i items g = Ok g' ->
  assoc_le g g' /\ (genv_ok g -> genv_ok g') /\
  (forall k it, nth_error items k = Some it -> assoc_covered g' (i + N.of_nat k) it).
Proof.
  induction items as [|it r IH]; cbn; intros i g g'.
  - intros [= <-]. split; [apply assoc_le_refl|split; [auto|]]. intros [|k] it; cbn; discriminate.
  - destruct (extract_assoc_one i it g) as [g1| |] eqn:E1; cbn; try discriminate.
    intros E2. apply extract_assoc_one_spec in E1. destruct E1 as [L1 [C1 O1]].
    apply IH in E2. destruct E2 as [L2 [O2 C2]].
    split; [eapply assoc_le_trans; eauto|split; [auto|]].
    intros [|k] it'; cbn.
    + intros [= <-]. rewrite N.add_0_r. eapply assoc_covered_le; eauto.
    + intros Hk. specialize (C2 k it' Hk).
      replace (i + N.pos (Pos.of_succ_nat k))%N with (N.succ i + N.of_nat k)%N by lia. exact C2.
Qed.

Lemma extract_assoc_np items : forall i g, np (extract_assoc i items g).
Proof.
  induction items as [|it r IH]; cbn; intros; [exact I|].
  apply np_bind'; [|intros; apply IH].
  destruct it; cbn; try exact I. destruct (_ && _)%bool; exact I.
Qed.

(* ------------------------------------------------------------------------------------- *)
(** ** The theorems *)

Theorem lower_items_no_panic p g1 :
  extract_assoc 0%N p empty_genv = Ok g1 ->
  np (lower_items fixed (extract_ids 0%N p g1) 0%N p).
Proof.
  intros E. apply extract_assoc_spec in E. destruct E as [_ [O C]].
  specialize (O genv_ok_empty).
  apply np_lower_items.
  - now apply extract_ids_ok.
  - intros k it Hk. cbn [N.add]. specialize (C k it Hk).
    destruct (extract_ids_assoc p 0%N g1) as [Ea Ev].
    destruct it; cbn in *; auto.
    + rewrite Ea; auto.
    + eapply extract_ids_cor_cover; eauto.
    + rewrite Ev; auto.
Qed.

Theorem lower_no_panic : forall p s, lower fixed p <> Panic s.
Proof.
  intros p s. unfold lower.
  pose proof (extract_assoc_np p 0%N empty_genv) as H1.
  destruct (extract_assoc 0%N p empty_genv) as [g1| |] eqn:E; cbn; try discriminate; [|contradiction].
  pose proof (lower_items_no_panic p E) as H2.
  destruct (lower_items fixed _ 0%N p); cbn; try discriminate. contradiction.
Qed.

(** *** goals *)

Lemma In_fold_left_cons A B (f : A -> B) l : forall acc d,
  In d (fold_left (fun acc a => f a :: acc) l acc) <-> In d acc \/ exists a, In a l /\ d = f a.
Proof.
  induction l as [|x r IH]; cbn; intros acc d.
  - split; [auto|]. intros [H|[a [[] _]]]; auto.
  - rewrite IH. cbn. split.
    + intros [[<-|H]|[a [Ha ->]]]; eauto.
    + intros [H|[a [[<-|Ha] ->]]]; eauto.
Qed.

Definition summary_inv (i : N) (td : list (N * nat)) (ad : list ((N * ident) * list kind)) : Prop :=
  (forall k v, get N.eqb k td = Some v -> (k < i)%N) /\
  (forall d, In d ad -> exists n, get N.eqb (fst (fst d)) td = Some n /\ n <= length (snd d)).

Lemma summary_inv_step i td ad : summary_inv i td ad -> summary_inv (N.succ i) td ad.
Proof. intros [H1 H2]; split; auto. intros k v Hk. apply H1 in Hk. lia. Qed.

Lemma summary_spec items : forall i td ad,
  summary_inv i td ad -> summary_inv (i + N.of_nat (length items)) (fst (summary i items td ad)) (snd (summary i items td ad)).
Proof.
  induction items as [|it r IH]; intros i td ad Hinv.
  - cbn. now rewrite N.add_0_r.
  - replace (i + N.of_nat (length (it :: r)))%N with (N.succ i + N.of_nat (length r))%N by (cbn [length]; lia).
    destruct it; cbn [summary]; try (apply IH, summary_inv_step, Hinv).
    apply IH. destruct Hinv as [H1 H2]. split.
    + intros k v. cbn. destruct (N.eqb k i) eqn:E.
      * apply N.eqb_eq in E. subst. lia.
      * intros Hk. apply H1 in Hk. lia.
    + intros d Hd. apply In_fold_left_cons in Hd. destruct Hd as [Hd|[a [Ha ->]]].
      * destruct (H2 d Hd) as [n [Hn Hl]]. exists n. split; auto. cbn.
        destruct (N.eqb (fst (fst d)) i) eqn:E; auto.
        apply N.eqb_eq in E. apply H1 in Hn. lia.
      * cbn [fst snd get]. rewrite N.eqb_refl. eexists; split; [reflexivity|]. unfold kinds_of. cbn [length]. rewrite app_length, !map_length. apply le_n_S, PeanoNat.Nat.le_add_r.
Qed.

Theorem lower_goal_no_panic : forall p l gl s,
  lower fixed p = Ok l -> lower_goal_top fixed l gl <> Panic s.
Proof.
  intros p l gl s. unfold lower.
  destruct (extract_assoc 0%N p empty_genv) as [g1| |] eqn:E; cbn; try discriminate.
  destruct (lower_items fixed _ 0%N p); cbn; try discriminate.
  intros [= <-]. unfold lower_goal_top, goal_env. cbn.
  assert (Hinv : summary_inv (0 + N.of_nat (length p)) (fst (summary 0%N p [] [])) (snd (summary 0%N p [] []))).
  { apply summary_spec. split; [cbn; discriminate|intros d []]. }
  destruct Hinv as [_ H2].
  assert (Hnp : np (mapM (fun d : (N * ident) * list kind =>
                match get N.eqb (fst (fst d)) (fst (summary 0%N p [] [])) with
                | None => Panic S_goal_trait_data
                | Some n => if Nat.leb n (length (snd d)) then Ok (fst d, skipn n (snd d)) else Panic S_goal_binders_slice
                end) (snd (summary 0%N p [] [])))).
  { apply np_mapM. intros d Hd. destruct (H2 d Hd) as [n [-> Hl]].
    apply Nat.leb_le in Hl. rewrite Hl. exact I. }
  revert Hnp. match goal with |- np ?a -> _ => destruct a as [al| |] end; cbn; intros Hnp; try discriminate; [|contradiction].
  pose proof (@np_lower_goal (set_assoc (extract_ids 0%N p g1) al (atv_ids (extract_ids 0%N p g1)))) as Hg.
  apply extract_assoc_spec in E. destruct E as [_ [O _]].
  specialize (Hg (genv_ok_set_assoc _ _ (extract_ids_ok p 0%N (O genv_ok_empty))) [] gl).
  destruct (lower_goal fixed _ [] gl); try discriminate. contradiction.
Qed.

(** *** the unchanged code does panic (how the two repaired findings are documented) *)

Definition w_F9 : program :=
  [ ITrait 10 [] false [] [ {| ad_name := 20; ad_vks := []; ad_bounds := []; ad_wcs := [] |} ];
    IAdt 11 [] false None [[]] [] None;
    IImpl [] true 10 (TId 11) [] [] [ {| av_name := 21; av_vks := []; av_ty := TScalar |} ] ]%N.

Lemma lower_panics_F9_refuted : exists p, lower orig p = Panic S_assoc_lookup_impl.
Proof. exists w_F9. vm_compute. reflexivity. Qed.

Lemma lower_F9_fixed : cls_of (lower fixed w_F9) = CErr MissingAssociatedType.
Proof. vm_compute. reflexivity. Qed.

Definition w_apply : program :=
  [ IForeign 10; IAdt 11 [] false None [[TApply 10 [GTy TScalar]]] [] None ]%N.

Lemma lower_panics_apply_refuted : exists p, lower orig p = Panic S_apply_foreign_or_trait.
Proof. exists w_apply. vm_compute. reflexivity. Qed.

Lemma lower_apply_fixed : cls_of (lower fixed w_apply) = CErr IncorrectNumberOfTypeParameters.
Proof. vm_compute. reflexivity. Qed.

(** the theorem is not vacuous: a program with every item kind lowers to [Ok] *)
Definition w_ok : program :=
  [ ITrait 10 [(KTy, 30)] false [] [ {| ad_name := 20; ad_vks := [(KLt, 31)]; ad_bounds := [QIBTrait [] 10 [GId 30]]; ad_wcs := [] |} ];
    IAdt 11 [(KTy, 30)] false (Some 1%nat) [[TId 30; TRef LStatic (TApply 11 [GTy TScalar])]] [([], WImpl 10 (TId 30) [GTy TScalar])] None;
    IImpl [(KTy, 32)] true 10 (TApply 11 [GId 32]) [GTy TScalar] [] [ {| av_name := 20; av_vks := [(KLt, 33)]; av_ty := TRef (LId 33) (TId 32) |} ];
    IForeign 12;
    IOpaque 13 [] [QIBTrait [] 10 [GId 12]] [] TScalar;
    IFn 14 [] [] [TId 12] (TDyn [QIBAlias [] 10 [GTy TScalar] 20 [GLt LStatic] TScalar] LStatic) true None;
    IClause (Clause [(KTy, 34)] (DHolds (WImpl 10 (TId 34) [GId 34])) [GLeaf (DTy (TId 34))]) ]%N.

Example lower_no_panic_nonvacuous : cls_of (lower fixed w_ok) = COk.
Proof. vm_compute. reflexivity. Qed.

(* ------------------------------------------------------------------------------------- *)
(** ** Classification of error classes *)

Lemma nodupb_spec l : nodupb l = true <-> NoDup l.
Proof.
  induction l as [|x r IH]; cbn; [split; auto using NoDup_nil|].
  rewrite andb_true_iff, negb_true_iff, IH. split.
  - intros [H1 H2]. constructor; auto. intros Hin.
    assert (existsb (N.eqb x) r = true) by (apply existsb_exists; exists x; split; auto; apply N.eqb_refl). congruence.
  - intros H. inversion H; subst. split; auto.
    destruct (existsb (N.eqb x) r) eqn:E; auto. apply existsb_exists in E. destruct E as [y [Hy E]].
    apply N.eqb_eq in E. subst. contradiction.
Qed.

Lemma disjointb_spec a b : disjointb a b = true <-> (forall x, In x a -> ~ In x b).
Proof.
  unfold disjointb. rewrite forallb_forall. split.
  - intros H x Hx Hb. specialize (H x Hx). apply negb_true_iff in H.
    assert (existsb (N.eqb x) b = true) by (apply existsb_exists; exists x; split; auto; apply N.eqb_refl). congruence.
  - intros H x Hx. apply negb_true_iff. destruct (existsb (N.eqb x) b) eqn:E; auto.
    apply existsb_exists in E. destruct E as [y [Hy E]]. apply N.eqb_eq in E. subst. exfalso. eapply H; eauto.
Qed.

(** [Env::introduce] fails exactly when a new name is repeated or already in scope. *)
Theorem introduce_class pm bs :
  (introduce pm bs = Err DuplicateOrShadowedParameters <->
     ~ NoDup (map snd bs) \/ exists x, In x (map snd bs) /\ In x (map fst pm)) /\
  (forall e, introduce pm bs = Err e -> e = DuplicateOrShadowedParameters) /\
  (forall s, introduce pm bs <> Panic s).
Proof.
  unfold introduce. destruct (nodupb (map snd bs)) eqn:E1; cbn.
  - destruct (disjointb (map snd bs) (map fst pm)) eqn:E2; cbn.
    + apply nodupb_spec in E1. pose proof (proj1 (disjointb_spec _ _) E2) as D.
      repeat split; try discriminate. intros [H|[x [Hx Hp]]]; [contradiction|]. exfalso; eapply D; eauto.
    + repeat split; try discriminate; [|intros e [= <-]; auto]. intros _. right.
      destruct (List.existsb (fun x => existsb (N.eqb x) (map fst pm)) (map snd bs)) eqn:E3.
      * apply existsb_exists in E3. destruct E3 as [x [Hx E3]]. apply existsb_exists in E3.
        destruct E3 as [y [Hy E3]]. apply N.eqb_eq in E3. subst. eauto.
      * exfalso. assert (disjointb (map snd bs) (map fst pm) = true); [|congruence].
        unfold disjointb. apply forallb_forall. intros x Hx. apply negb_true_iff.
        destruct (existsb (N.eqb x) (map fst pm)) eqn:E4; auto.
        assert (existsb (fun x => existsb (N.eqb x) (map fst pm)) (map snd bs) = true); [|congruence].
        apply existsb_exists. eauto.
  - repeat split; try discriminate; [|intros e [= <-]; auto]. intros _. left. intros H.
    apply nodupb_spec in H. congruence.
Qed.

(** [Env::lookup_trait] *)
Theorem lookup_trait_class g pm n :
  (forall i, lookup_trait g pm n = Ok i <-> get N.eqb n g.(trait_ids) = Some i) /\
  (lookup_trait g pm n = Err NotTrait <->
     get N.eqb n g.(trait_ids) = None /\ (has N.eqb n pm = true \/ has N.eqb n g.(adt_ids) = true)) /\
  (lookup_trait g pm n = Err InvalidTraitName <->
     get N.eqb n g.(trait_ids) = None /\ has N.eqb n pm = false /\ has N.eqb n g.(adt_ids) = false).
Proof.
  unfold lookup_trait. destruct (get N.eqb n (trait_ids g)) as [i|].
  - repeat split; try (intros [= ->]; auto); try discriminate; intros [H _]; discriminate.
  - destruct (has N.eqb n pm) eqn:E1, (has N.eqb n (adt_ids g)) eqn:E2; cbn;
      repeat split; try discriminate; auto; try (intros [_ [H|H]]; discriminate);
      try (intros [_ [H1 H2]]; discriminate).
Qed.

(** a name used as a generic argument is "invalid" exactly when no namespace knows it *)
Theorem lookup_generic_arg_unknown g pm n :
  genv_ok g ->
  (lookup_generic_arg g pm n = Err InvalidParameterName <-> lookup_type g pm n = None) /\
  (lookup_generic_arg g pm n = Err NotStruct <-> exists i, lookup_type g pm n = Some (LTrait i)).
Proof.
  intros Hok. unfold lookup_generic_arg.
  destruct (lookup_type g pm n) as [[k|i|i|i|i|i|i|i]|] eqn:E;
    try (split; split; try discriminate; try (intros [j Hj]; discriminate); eauto; fail).
  all: match goal with
       | |- context [kind_of ?s ?m ?i] =>
           let H := fresh in
           assert (H : has N.eqb i m = true)
             by (first [eapply lookup_type_adt|eapply lookup_type_fn|eapply lookup_type_closure|eapply lookup_type_coroutine]; eauto);
           apply has_get in H; destruct H as [ks Hks]; unfold kind_of; rewrite Hks; cbn; destruct ks
       end;
    split; split; try discriminate; try (intros [j Hj]; discriminate).
Qed.

(** pass 1 precedes everything: an auto trait with associated types is reported whatever
    else is wrong with the program *)
Lemma extract_assoc_auto items : forall i g,
  (exists name vks wcs assocs, In (ITrait name vks true wcs assocs) items /\ assocs <> []) ->
  extract_assoc i items g = Err AutoTraitAssociatedTypes.
Proof.
  induction items as [|it r IH]; intros i g [name [vks [wcs [assocs [Hin Hne]]]]]; [destruct Hin|].
  cbn. destruct Hin as [->|Hin].
  - cbn. destruct assocs; [congruence|reflexivity].
  - assert (Hr : forall g', extract_assoc (N.succ i) r g' = Err AutoTraitAssociatedTypes).
    { intros g'. apply IH. eauto 8. }
    destruct it as [| | |tn tv ta tw tas| | | | |]; cbn; try apply Hr.
    destruct (ta && negb (is_nil tas))%bool; cbn; auto.
Qed.

Theorem lower_auto_assoc c p :
  (exists name vks wcs assocs, In (ITrait name vks true wcs assocs) p /\ assocs <> []) ->
  cls_of (lower c p) = CErr AutoTraitAssociatedTypes.
Proof. intros H. unfold lower. rewrite extract_assoc_auto; auto. Qed.

(** every outcome of the repaired lowering is [Ok] or one of the 19 [RustIrError] classes *)
Theorem lower_total c p : c = fixed -> exists r, cls_of (lower c p) = r /\ match r with CPanic _ => False | _ => True end.
Proof.
  intros ->. eexists; split; [reflexivity|]. pose proof (lower_no_panic p) as H.
  destruct (lower fixed p); cbn; auto. eapply H; eauto.
Qed.
