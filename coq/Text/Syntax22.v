(** * Text.Syntax22 — syntax of the core `.chalk` fragment for the writer round trip (C22).

    One family of inductives, parametrised by the representation of type-variable
    occurrences [V], lifetime-variable occurrences [L] and item references [R]:

      - the lowered program ("IR", what [chalk_integration::program::Program] holds):
        de Bruijn pairs and item ids (positions);
      - the surface program ("AST", what the writer prints and the parser reads): the
        writer's parameter names [_D_I] (inverted de Bruijn depth [D], index [I]), [Self],
        and item names.

    Small fragment (fully proved): structs with flags, traits with flags, positive/negative
    impls, quantified where-clauses (trait bound, lifetime outlives, type outlives), types:
    parameters, ADT applications, scalars, tuples, references.  Parameter, field and variant
    names are not part of a lowered program; the writer invents [_D_I] / [field_i]. *)

From Coq Require Import List NArith Bool.
Import ListNotations.

Inductive kind := KTy | KLt | KConst | KInt | KFloat.
Definition kind_eqb (a b : kind) : bool :=
  match a, b with KTy, KTy | KLt, KLt | KConst, KConst | KInt, KInt | KFloat, KFloat => true | _, _ => false end.
(** the kind of a parameter as the arity/kind checks of lowering see it ([Kind::Ty | Lifetime | Const]) *)
Definition kclass (k : kind) : kind := match k with KInt | KFloat => KTy | k => k end.
Definition is_ty_kind (k : kind) : bool := match k with KTy | KInt | KFloat => true | _ => false end.

Inductive scalar :=
| Sbool | Schar | Si8 | Si16 | Si32 | Si64 | Si128 | Sisize
| Su8 | Su16 | Su32 | Su64 | Su128 | Susize | Sf16 | Sf32 | Sf64 | Sf128.

Record sflags := { sf_upstream : bool; sf_fundamental : bool; sf_phantom_data : bool; sf_one_zst : bool;
                   sf_repr_c : bool; sf_repr_packed : bool }.
Record tflags := { tf_auto : bool; tf_marker : bool; tf_upstream : bool; tf_fundamental : bool;
                   tf_non_enumerable : bool; tf_coinductive : bool; tf_object_safe : bool }.

Section Syn.
  (** [V]: type-variable occurrences; [L]: lifetime- and const-variable occurrences; [R]: item
      references; [C]: const variables in generic-argument position (in the surface syntax a
      bare parameter name there is just an identifier, so the surface instance is empty). *)
  Variables V L R C : Type.

  Inductive lt := LVar (v : L) | LStatic | LErased.
  Inductive konst := CVar (v : L) | CVal (n : N).

  Inductive ty :=
  | TVar (v : V)
  | TAdt (r : R) (args : list garg)
  | TScalar (s : scalar)
  | TTuple (ts : list ty)
  | TRef (m : bool) (l : lt) (t : ty)          (* [m = true]: [&'a mut T] *)
  | TRaw (m : bool) (t : ty)                   (* [*mut T] / [*const T] *)
  | TSlice (t : ty)
  | TArray (t : ty) (c : konst)
  | TStr
  | TNever
  (** [for<'a,..> unsafe fn(args, ...) -> ret]: [nb] lifetimes bound by one binder level that is
      always opened, even when [nb = 0] *)
  | TFn (nb : nat) (unsafe variadic : bool) (args : list ty) (ret : ty)
  (** [dyn B + .. + 'l]: one level for the hidden self type (it has no name), then one level
      per bound for its [forall<..>] *)
  | TDyn (bounds : list dbound) (l : lt)
  with garg := GTy (t : ty) | GLt (l : lt) | GCVal (n : N) | GCVar (c : C)
  with dbound := DB (ks : list kind) (tr : R) (args : list garg).

  Inductive wc :=
  | WImpl (self : ty) (tr : R) (args : list garg)
  | WLtOut (a b : lt)
  | WTyOut (t : ty) (l : lt).

  (** a quantified where clause: the kinds of the [forall<..>] binder (possibly none) *)
  Definition qwc := (list kind * wc)%type.

  Inductive item :=
  | IStruct (name : N) (params : list kind) (fl : sflags) (fields : list ty) (wcs : list qwc)
  | IEnum (name : N) (params : list kind) (fl : sflags) (variants : list (list ty)) (wcs : list qwc)
  | ITrait (name : N) (params : list kind) (fl : tflags) (wcs : list qwc)   (* [params] without Self *)
  | IImpl (params : list kind) (upstream positive : bool) (tr : R) (args : list garg) (self : ty) (wcs : list qwc).
End Syn.

Arguments LVar {L} v.
Arguments LStatic {L}.
Arguments LErased {L}.
Arguments CVar {L} v.
Arguments CVal {L} n.
Arguments TVar {V L R C} v.
Arguments TAdt {V L R C} r args.
Arguments TScalar {V L R C} s.
Arguments TTuple {V L R C} ts.
Arguments TRef {V L R C} m l t.
Arguments TRaw {V L R C} m t.
Arguments TSlice {V L R C} t.
Arguments TArray {V L R C} t c.
Arguments TStr {V L R C}.
Arguments TNever {V L R C}.
Arguments TFn {V L R C} nb unsafe variadic args ret.
Arguments TDyn {V L R C} bounds l.
Arguments DB {V L R C} ks tr args.
Arguments GTy {V L R C} t.
Arguments GLt {V L R C} l.
Arguments GCVal {V L R C} n.
Arguments GCVar {V L R C} c.
Arguments WImpl {V L R C} self tr args.
Arguments WLtOut {V L R C} a b.
Arguments WTyOut {V L R C} t l.
Arguments IStruct {V L R C} name params fl fields wcs.
Arguments IEnum {V L R C} name params fl variants wcs.
Arguments ITrait {V L R C} name params fl wcs.
Arguments IImpl {V L R C} params upstream positive tr args self wcs.

(** lowered program: de Bruijn (depth, index) and item positions *)
Definition ivar := (nat * nat)%type.
Definition ity := ty ivar ivar nat ivar.
Definition igarg := garg ivar ivar nat ivar.
Definition idbound := dbound ivar ivar nat ivar.
Definition ilt := lt ivar.
Definition ikonst := konst ivar.
Definition iwc := wc ivar ivar nat ivar.
Definition iqwc := qwc ivar ivar nat ivar.
Definition iitem := item ivar ivar nat ivar.
Definition program := list iitem.

(** surface program: writer names *)
Inductive avar := AV (dd ii : nat) | ASelf.
Definition alvar := (nat * nat)%type.          (* ['_D_I] *)
Definition aty := ty avar alvar N Empty_set.
Definition agarg := garg avar alvar N Empty_set.
Definition adbound := dbound avar alvar N Empty_set.
Definition alt := lt alvar.
Definition akonst := konst alvar.
Definition awc := wc avar alvar N Empty_set.
Definition aqwc := qwc avar alvar N Empty_set.
Definition aitem := item avar alvar N Empty_set.
Definition ast := list aitem.

(* ------------------------------------------------------------------------------------- *)
(** ** Tokens *)

Inductive kw :=
| Kstruct | Kenum | Ktrait | Kimpl | Kfor | Kwhere | Kforall | Kmut | Kstatic | Kerased
| Kscalar (s : scalar)
| Kupstream | Kfundamental | Kphantom_data | Kone_zst | Kstr | Kconst | Kint | Kfloat | Kfn | Kunsafe | Kdyn | Krepr | KC | Kpacked
| Kauto | Kmarker | Knon_enumerable | Kcoinductive | Kobject_safe.

Inductive punct := PLt | PGt | PLParen | PRParen | PLBrace | PRBrace | PLBracket | PRBracket
                 | PComma | PColon | PAmp | PBang | PHash | PStar | PSemi | PArrow | PDots | PPlus.

Inductive tok :=
| KW (k : kw)
| ID (n : N)            (* an item name *)
| VAR (dd ii : nat)       (* [_D_I] *)
| LTV (dd ii : nat)       (* ['_D_I] *)
| SELF
| FIELD (i : nat)       (* [field_i] *)
| VARIANT (i : nat)     (* [variant_i] *)
| NUM (n : N)           (* a constant value *)
| P (p : punct).
