(** * Text.TokEq — boolean equality on tokens and lowered programs (for the correspondence). *)
From Coq Require Import List NArith Bool Arith.
Import ListNotations.
From Chalk Require Import Text.Syntax22.

Definition scalar_code (s : scalar) : nat :=
  match s with
  | Sbool => 0 | Schar => 1 | Si8 => 2 | Si16 => 3 | Si32 => 4 | Si64 => 5 | Si128 => 6 | Sisize => 7
  | Su8 => 8 | Su16 => 9 | Su32 => 10 | Su64 => 11 | Su128 => 12 | Susize => 13
  | Sf16 => 14 | Sf32 => 15 | Sf64 => 16 | Sf128 => 17
  end.

Definition kw_code (k : kw) : nat :=
  match k with
  | Kstruct => 0 | Ktrait => 1 | Kimpl => 2 | Kfor => 3 | Kwhere => 4 | Kforall => 5 | Kmut => 6
  | Kstatic => 7 | Kerased => 8 | Kupstream => 9 | Kfundamental => 10 | Kphantom_data => 11
  | Kauto => 12 | Kmarker => 13 | Knon_enumerable => 14 | Kcoinductive => 15 | Kobject_safe => 16
  | Kone_zst => 17 | Kstr => 18 | Kconst => 19 | Kenum => 20 | Kint => 21 | Kfloat => 22 | Kfn => 23 | Kunsafe => 24 | Kdyn => 25 | Krepr => 26 | KC => 27 | Kpacked => 28
  | Kscalar s => 100 + scalar_code s
  end.

Definition punct_code (p : punct) : nat :=
  match p with
  | PLt => 0 | PGt => 1 | PLParen => 2 | PRParen => 3 | PLBrace => 4 | PRBrace => 5 | PLBracket => 6
  | PRBracket => 7 | PComma => 8 | PColon => 9 | PAmp => 10 | PBang => 11 | PHash => 12 | PStar => 13 | PSemi => 14 | PArrow => 15 | PDots => 16 | PPlus => 17
  end.

Definition tok_eqb (a b : tok) : bool :=
  match a, b with
  | KW x, KW y => Nat.eqb (kw_code x) (kw_code y)
  | ID x, ID y => N.eqb x y
  | VAR d i, VAR d' i' => Nat.eqb d d' && Nat.eqb i i'
  | LTV d i, LTV d' i' => Nat.eqb d d' && Nat.eqb i i'
  | SELF, SELF => true
  | FIELD i, FIELD j => Nat.eqb i j
  | VARIANT i, VARIANT j => Nat.eqb i j
  | NUM x, NUM y => N.eqb x y
  | P x, P y => Nat.eqb (punct_code x) (punct_code y)
  | _, _ => false
  end.

Fixpoint toks_eqb (a b : list tok) : bool :=
  match a, b with
  | [], [] => true
  | x :: a', y :: b' => tok_eqb x y && toks_eqb a' b'
  | _, _ => false
  end.

(** boolean equality of lowered programs *)
Definition ivar_eqb (a b : ivar) : bool := Nat.eqb (fst a) (fst b) && Nat.eqb (snd a) (snd b).
Definition ikonst_eqb (a b : ikonst) : bool :=
  match a, b with
  | CVar x, CVar y => ivar_eqb x y
  | CVal x, CVal y => N.eqb x y
  | _, _ => false
  end.
Definition ilt_eqb (a b : ilt) : bool :=
  match a, b with
  | LVar x, LVar y => ivar_eqb x y
  | LStatic, LStatic | LErased, LErased => true
  | _, _ => false
  end.
Fixpoint list_eqb {A} (eqb : A -> A -> bool) (a b : list A) : bool :=
  match a, b with
  | [], [] => true
  | x :: a', y :: b' => eqb x y && list_eqb eqb a' b'
  | _, _ => false
  end.
Fixpoint ity_eqb (a b : ity) {struct a} : bool :=
  match a, b with
  | TVar x, TVar y => ivar_eqb x y
  | TAdt i xs, TAdt j ys =>
      Nat.eqb i j && (fix go (l1 l2 : list igarg) : bool :=
                        match l1, l2 with
                        | [], [] => true
                        | x :: r1, y :: r2 => igarg_eqb x y && go r1 r2
                        | _, _ => false
                        end) xs ys
  | TScalar s, TScalar s' => Nat.eqb (scalar_code s) (scalar_code s')
  | TTuple xs, TTuple ys =>
      (fix go (l1 l2 : list ity) : bool :=
         match l1, l2 with
         | [], [] => true
         | x :: r1, y :: r2 => ity_eqb x y && go r1 r2
         | _, _ => false
         end) xs ys
  | TRef m l t, TRef m' l' t' => Bool.eqb m m' && ilt_eqb l l' && ity_eqb t t'
  | TRaw m t, TRaw m' t' => Bool.eqb m m' && ity_eqb t t'
  | TSlice t, TSlice t' => ity_eqb t t'
  | TArray t c, TArray t' c' => ity_eqb t t' && ikonst_eqb c c'
  | TStr, TStr | TNever, TNever => true
  | TFn nb u v xs r, TFn nb' u' v' ys r' =>
      Nat.eqb nb nb' && Bool.eqb u u' && Bool.eqb v v' && ity_eqb r r' &&
      (fix go (l1 l2 : list ity) : bool :=
         match l1, l2 with
         | [], [] => true
         | x :: r1, y :: r2 => ity_eqb x y && go r1 r2
         | _, _ => false
         end) xs ys
  | TDyn bs l, TDyn bs' l' =>
      ilt_eqb l l' &&
      (fix go (l1 l2 : list idbound) : bool :=
         match l1, l2 with
         | [], [] => true
         | x :: r1, y :: r2 => idbound_eqb x y && go r1 r2
         | _, _ => false
         end) bs bs'
  | _, _ => false
  end
with igarg_eqb (a b : igarg) {struct a} : bool :=
  match a, b with
  | GTy x, GTy y => ity_eqb x y
  | GLt x, GLt y => ilt_eqb x y
  | GCVal x, GCVal y => N.eqb x y
  | GCVar x, GCVar y => ivar_eqb x y
  | _, _ => false
  end
with idbound_eqb (a b : idbound) {struct a} : bool :=
  match a, b with
  | DB ks t xs, DB ks' t' ys =>
      list_eqb kind_eqb ks ks' && Nat.eqb t t' &&
      (fix go (l1 l2 : list igarg) : bool :=
         match l1, l2 with
         | [], [] => true
         | x :: r1, y :: r2 => igarg_eqb x y && go r1 r2
         | _, _ => false
         end) xs ys
  end.
Definition iwc_eqb (a b : iwc) : bool :=
  match a, b with
  | WImpl s t xs, WImpl s' t' ys => ity_eqb s s' && Nat.eqb t t' && list_eqb igarg_eqb xs ys
  | WLtOut x y, WLtOut x' y' => ilt_eqb x x' && ilt_eqb y y'
  | WTyOut t l, WTyOut t' l' => ity_eqb t t' && ilt_eqb l l'
  | _, _ => false
  end.
Definition kinds_eqb' := list_eqb kind_eqb.
Definition iqwc_eqb (a b : iqwc) : bool := kinds_eqb' (fst a) (fst b) && iwc_eqb (snd a) (snd b).
Definition sflags_eqb (a b : sflags) : bool :=
  Bool.eqb a.(sf_upstream) b.(sf_upstream) && Bool.eqb a.(sf_fundamental) b.(sf_fundamental) && Bool.eqb a.(sf_phantom_data) b.(sf_phantom_data)
  && Bool.eqb a.(sf_one_zst) b.(sf_one_zst) && Bool.eqb a.(sf_repr_c) b.(sf_repr_c) && Bool.eqb a.(sf_repr_packed) b.(sf_repr_packed).
Definition tflags_eqb (a b : tflags) : bool :=
  Bool.eqb a.(tf_auto) b.(tf_auto) && Bool.eqb a.(tf_marker) b.(tf_marker) && Bool.eqb a.(tf_upstream) b.(tf_upstream)
  && Bool.eqb a.(tf_fundamental) b.(tf_fundamental) && Bool.eqb a.(tf_non_enumerable) b.(tf_non_enumerable)
  && Bool.eqb a.(tf_coinductive) b.(tf_coinductive) && Bool.eqb a.(tf_object_safe) b.(tf_object_safe).
Definition iitem_eqb (a b : iitem) : bool :=
  match a, b with
  | IStruct n ps fl fs ws, IStruct n' ps' fl' fs' ws' =>
      N.eqb n n' && kinds_eqb' ps ps' && sflags_eqb fl fl' && list_eqb ity_eqb fs fs' && list_eqb iqwc_eqb ws ws'
  | IEnum n ps fl vs ws, IEnum n' ps' fl' vs' ws' =>
      N.eqb n n' && kinds_eqb' ps ps' && sflags_eqb fl fl' && list_eqb (list_eqb ity_eqb) vs vs' && list_eqb iqwc_eqb ws ws'
  | ITrait n ps fl ws, ITrait n' ps' fl' ws' =>
      N.eqb n n' && kinds_eqb' ps ps' && tflags_eqb fl fl' && list_eqb iqwc_eqb ws ws'
  | IImpl ps up pos tr args self ws, IImpl ps' up' pos' tr' args' self' ws' =>
      kinds_eqb' ps ps' && Bool.eqb up up' && Bool.eqb pos pos' && Nat.eqb tr tr' && list_eqb igarg_eqb args args'
      && ity_eqb self self' && list_eqb iqwc_eqb ws ws'
  | _, _ => false
  end.
Definition oprogram_eqb (a b : option program) : bool :=
  match a, b with
  | Some x, Some y => list_eqb iitem_eqb x y
  | None, None => true
  | _, _ => false
  end.
