(** * Text.TokEq — boolean equality on tokens and lowered programs (for the correspondence). *)
From Coq Require Import List NArith Bool Arith.
Import ListNotations.
From Chalk Require Import Text.Syntax22.

Definition scalar_code (s : scalar) : nat :=
  match s with
  | Sbool => 0 | Schar => 1 | Si8 => 2 | Si16 => 3 | Si32 => 4 | Si64 => 5 | Si128 => 6 | Sisize => 7
  | Su8 => 8 | Su16 => 9 | Su32 => 10 | Su64 => 11 | Su128 => 12 | Susize => 13
  | Sf16 => 14 | Sf32 => 15 | Sf64 => 16 | Sf128 => 17
  end.

Definition kw_code (k : kw) : nat :=
  match k with
  | Kstruct => 0 | Ktrait => 1 | Kimpl => 2 | Kfor => 3 | Kwhere => 4 | Kforall => 5 | Kmut => 6
  | Kstatic => 7 | Kerased => 8 | Kupstream => 9 | Kfundamental => 10 | Kphantom_data => 11
  | Kauto => 12 | Kmarker => 13 | Knon_enumerable => 14 | Kcoinductive => 15 | Kobject_safe => 16
  | Kscalar s => 100 + scalar_code s
  end.

Definition punct_code (p : punct) : nat :=
  match p with
  | PLt => 0 | PGt => 1 | PLParen => 2 | PRParen => 3 | PLBrace => 4 | PRBrace => 5 | PLBracket => 6
  | PRBracket => 7 | PComma => 8 | PColon => 9 | PAmp => 10 | PBang => 11 | PHash => 12
  end.

Definition tok_eqb (a b : tok) : bool :=
  match a, b with
  | KW x, KW y => Nat.eqb (kw_code x) (kw_code y)
  | ID x, ID y => N.eqb x y
  | VAR d i, VAR d' i' => Nat.eqb d d' && Nat.eqb i i'
  | LTV d i, LTV d' i' => Nat.eqb d d' && Nat.eqb i i'
  | SELF, SELF => true
  | FIELD i, FIELD j => Nat.eqb i j
  | P x, P y => Nat.eqb (punct_code x) (punct_code y)
  | _, _ => false
  end.

Fixpoint toks_eqb (a b : list tok) : bool :=
  match a, b with
  | [], [] => true
  | x :: a', y :: b' => tok_eqb x y && toks_eqb a' b'
  | _, _ => false
  end.
