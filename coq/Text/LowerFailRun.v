(** * Text.LowerFailRun — executable entry point of the C24 correspondence: the outcome
    classes of [Text.LowerFail.run] as numbers, with a boolean equality. *)
From Coq Require Import List NArith Bool.
Import ListNotations.
From Chalk Require Import Text.LowerFail.

Definition err_code (e : err) : N :=
  match e with
  | InvalidParameterName => 1 | InvalidTraitName => 2 | NotTrait => 3 | NotStruct => 4
  | DuplicateOrShadowedParameters => 5 | AutoTraitAssociatedTypes => 6 | AutoTraitParameters => 7
  | AutoTraitWhereClauses => 8 | InvalidFundamentalTypesParameters => 9
  | NegativeImplAssociatedValues => 10 | MissingAssociatedType => 11
  | IncorrectNumberOfVarianceParameters => 12 | IncorrectNumberOfTypeParameters => 13
  | IncorrectNumberOfAssociatedTypeParameters => 14 | IncorrectParameterKind => 15
  | IncorrectTraitParameterKind => 16 | IncorrectAssociatedTypeParameterKind => 17
  | CannotApplyTypeParameter => 18 | InvalidExternAbi => 19
  end%N.

Definition site_code (s : site) : N :=
  match s with
  | S_assoc_lookup_trait => 101 | S_atv_id => 102 | S_assoc_lookup_impl => 103 | S_coroutine_id => 104
  | S_apply_foreign_or_trait => 105 | S_impl_atv_ids => 106 | S_trait_assoc_unwrap => 107
  | S_goal_trait_data => 108 | S_goal_binders_slice => 109 | S_auto_trait => 110 | S_trait_kind => 111
  | S_adt_kind => 112 | S_fn_def_kind => 113 | S_closure_kind => 114 | S_opaque_kind => 115
  | S_coroutine_kind => 116
  end%N.

Definition cls_code (c : cls) : N :=
  match c with COk => 0%N | CErr e => err_code e | CPanic s => site_code s end.

(** program outcome followed by one outcome per goal (no goal outcomes if the program fails) *)
Definition run_codes (c : cfg) (pg : program * list goal) : list N :=
  let r := run c (fst pg) (snd pg) in cls_code (fst r) :: map cls_code (snd r).

Fixpoint codes_eqb (a b : list N) : bool :=
  match a, b with
  | [], [] => true
  | x :: a', y :: b' => N.eqb x y && codes_eqb a' b'
  | _, _ => false
  end.
