(** * Text.Fuel — the number of printed tokens is enough fuel: [need p <= length (print p)],
    hence [parse (print p) = Some p] with the executable [parse] (fuel = number of tokens). *)

From Coq Require Import List NArith Bool Arith PeanoNat Lia.
Import ListNotations.
From Chalk Require Import Text.Syntax22 Text.TokEq Text.Print Text.Parse Text.RoundTripAst Text.RoundTripIr Text.RoundTrip.

Lemma len_sep_by (l : list (list tok)) :
  l <> [] -> length (sep_by comma l) + 1 = list_sum (map (fun x => S (length x)) l).
Proof.
  unfold list_sum. induction l as [|x [|y r] IH]; intros Hne; [congruence| |].
  - cbn. lia.
  - rewrite sep_by_cons2. cbn [map fold_right]. rewrite !app_length. cbn [comma length].
    cbn [map fold_right] in IH. specialize (IH ltac:(congruence)). lia.
Qed.

Lemma len_angle (l : list (list tok)) :
  list_sum (map (fun x => S (length x)) l) <= length (angle l).
Proof.
  destruct l as [|x r]; [cbn; lia|].
  unfold angle. cbn [length]. rewrite app_length. cbn [length].
  pose proof (len_sep_by (x :: r) ltac:(congruence)). lia.
Qed.

Fixpoint asize_ty (t : aty) : nat :=
  match t with
  | TVar _ | TScalar _ => 1
  | TAdt _ args => S (list_sum (map asize_garg args))
  | TTuple ts => S (list_sum (map asize_ty ts))
  | TRef _ _ t | TRaw _ t | TSlice t | TArray t _ => S (asize_ty t)
  | TStr | TNever => 1
  | TFn _ _ _ args ret => S (list_sum (map asize_ty args) + asize_ty ret)
  | TDyn bs _ => S (list_sum (map asize_dbound bs))
  end
with asize_garg (a : agarg) : nat := match a with GTy t => S (asize_ty t) | _ => 1 end
with asize_dbound (b : adbound) : nat := match b with DB _ _ args => S (list_sum (map asize_garg args)) end.

Lemma in_list_sum' A (f : A -> nat) x l : In x l -> f x <= list_sum (map f l).
Proof. unfold list_sum. induction l; cbn; [tauto|]. intros [->|H]; [lia|]. apply IHl in H. lia. Qed.

Lemma list_sum_le A (f g : A -> nat) l : (forall x, In x l -> f x <= g x) -> list_sum (map f l) <= list_sum (map g l).
Proof.
  unfold list_sum. induction l as [|x r IH]; intros H; cbn; [lia|].
  pose proof (H x (or_introl eq_refl)). assert (forall y, In y r -> f y <= g y) by (intros; apply H; now right).
  specialize (IH H1). lia.
Qed.

Lemma map_map_len A (f : A -> list tok) l :
  map (fun x => S (length x)) (map f l) = map (fun a => S (length (f a))) l.
Proof. now rewrite map_map. Qed.

Lemma len_binder_names D i ks : length (p_binder_names D i ks) = length ks /\
                                2 * length ks <= list_sum (map (fun x => S (length x)) (p_binder_names D i ks)).
Proof.
  revert i. unfold list_sum. induction ks as [|k r IH]; intros i; [split; [reflexivity|cbn; lia]|].
  destruct (IH (S i)) as [E1 E2]. destruct k; cbn [p_binder_names btok length map fold_right] in *; rewrite E1; split; lia.
Qed.

Lemma len_params D i ks : length ks <= length (p_params D i ks).
Proof.
  unfold p_params. eapply Nat.le_trans; [|apply len_angle].
  pose proof (proj2 (len_binder_names D i ks)). lia.
Qed.

Lemma list_sum_app (a b : list nat) : list_sum (a ++ b) = list_sum a + list_sum b.
Proof. unfold list_sum. induction a; cbn; lia. Qed.

Lemma need_le_len n :
  (forall t k, asize_ty t <= n -> need_ty t <= length (p_ty k t)) /\
  (forall a k, asize_garg a <= n -> need_garg a < length (p_garg k a) \/ (exists t, a = GTy t /\ need_ty t <= length (p_ty k t))).
Proof.
  induction n as [|n [IHt IHa]].
  { split; intros x k H; destruct x; cbn in H; lia. }
  assert (Hg : forall a k, asize_garg a <= n -> need_garg a <= length (p_garg k a)).
  { intros a k Ha. destruct (IHa a k Ha) as [H|[t [-> H]]]; [lia|exact H]. }
  assert (Hargs : forall args k, list_sum (map asize_garg args) <= n ->
            list_sum (map (fun a => S (need_garg a)) args) <= length (angle (map (p_garg k) args))).
  { intros args k Hs. eapply Nat.le_trans; [|apply len_angle]. rewrite map_map_len.
    apply list_sum_le. intros a Ha. apply le_n_S. apply Hg.
    pose proof (in_list_sum' _ asize_garg a args Ha). lia. }
  split.
  - intros t k Hs. destruct t as [v|nm args|s|ts|m l t|m t|t|t c| | |nb u va fargs ret|bs l]; cbn [asize_ty] in Hs; cbn [need_ty p_ty].
    + destruct v; cbn; lia.
    + cbn [length]. apply le_n_S. apply Hargs. lia.
    + cbn; lia.
    + assert (Hl : list_sum (map (fun t0 : aty => S (need_ty t0)) ts) <= list_sum (map (fun x => S (length x)) (map (p_ty k) ts))).
      { rewrite map_map_len. apply list_sum_le. intros x Hx. apply le_n_S. apply IHt.
        pose proof (in_list_sum' _ asize_ty x ts Hx). lia. }
      destruct ts as [|t1 [|t2 r]].
      * cbn; lia.
      * cbn [length]. rewrite app_length. cbn [length]. unfold list_sum in *. cbn [map fold_right] in *. lia.
      * cbn [length]. rewrite app_length. cbn [length].
        pose proof (len_sep_by (map (p_ty k) (t1 :: t2 :: r)) ltac:(cbn; congruence)) as E. cbn [map] in *. lia.
    + cbn [length]. rewrite !app_length. assert (need_ty t <= length (p_ty k t)) by (apply IHt; lia). lia.
    + cbn [length]. assert (need_ty t <= length (p_ty k t)) by (apply IHt; lia). lia.
    + cbn [length]. rewrite !app_length. assert (need_ty t <= length (p_ty k t)) by (apply IHt; lia). lia.
    + cbn [length]. rewrite !app_length. assert (need_ty t <= length (p_ty k t)) by (apply IHt; lia). lia.
    + cbn; lia.
    + cbn; lia.
    + (* fn pointers *)
      assert (Hr : need_ty ret <= length (p_ty (S k) ret)) by (apply IHt; lia).
      assert (Hl : list_sum (map (fun t0 : aty => S (need_ty t0)) fargs)
                   <= length (sep_by comma (map (p_ty (S k)) fargs ++ (if va then [[P PDots]] else []))) + 1).
      { destruct fargs as [|f1 fr]; [cbn; lia|].
        pose proof (len_sep_by (map (p_ty (S k)) (f1 :: fr) ++ (if va then [[P PDots]] else [])) ltac:(cbn; congruence)) as E.
        rewrite E. rewrite map_app, list_sum_app, map_map_len.
        assert (list_sum (map (fun t0 : aty => S (need_ty t0)) (f1 :: fr)) <= list_sum (map (fun a => S (length (p_ty (S k) a))) (f1 :: fr))).
        { apply list_sum_le. intros x Hx. apply le_n_S. apply IHt. pose proof (in_list_sum' _ asize_ty x (f1 :: fr) Hx). lia. }
        lia. }
      assert (Hb : nb <= length (match nb with 0 => [] | S _ => KW Kfor :: p_params (S k) 0 (repeat KLt nb) end)).
      { destruct nb as [|nb']; [cbn; lia|]. cbn [length]. pose proof (len_params (S k) 0 (repeat KLt (S nb'))) as Hp. rewrite repeat_length in Hp. lia. }
      repeat (rewrite ?app_length; cbn [length]). lia.
    + (* dyn *)
      assert (Hl : list_sum (map need_dbound bs) <= length (concat (map (fun b => p_dbound (S (S k)) b ++ [P PPlus]) bs))).
      { assert (Hin : forall b, In b bs -> need_dbound b <= length (p_dbound (S (S k)) b ++ [P PPlus])).
        { intros [ks tr args] Hb. cbn [need_dbound p_dbound]. repeat (rewrite ?app_length; cbn [length]).
          assert (Ha : list_sum (map (fun a => S (need_garg a)) args) <= length (angle (map (p_garg (S (S k))) args))).
          { apply Hargs. pose proof (in_list_sum' _ asize_dbound (DB ks tr args) bs Hb). cbn [asize_dbound] in H. lia. }
          assert (Hk : length ks <= length (match ks with [] => [] | _ :: _ => KW Kforall :: p_params (S (S k)) 0 ks end)).
          { destruct ks as [|k0 kr]; [cbn; lia|]. cbn [length]. pose proof (len_params (S (S k)) 0 (k0 :: kr)) as Hp. cbn [length] in *. lia. }
          lia. }
        clear Hs. induction bs as [|b r IH]; [cbn; lia|].
        cbn [map concat list_sum fold_right]. unfold list_sum in *. cbn [map fold_right].
        rewrite app_length. pose proof (Hin b (or_introl eq_refl)).
        assert (forall b0, In b0 r -> need_dbound b0 <= length (p_dbound (S (S k)) b0 ++ [P PPlus])) by (intros; apply Hin; now right).
        specialize (IH H0). lia. }
      assert (Hlt : 1 <= length (p_lt l)) by (destruct l as [[]| |]; cbn; lia).
      destruct bs as [|b r]; [cbn [map list_sum fold_right length] in *; rewrite app_length; cbn [length]; unfold list_sum; cbn; lia|].
      rewrite !app_length. cbn [length]. unfold adbound in *. lia.
  - intros a k Hs. destruct a as [t|l|nn|[]]; cbn [asize_garg] in Hs.
    + right. exists t. split; [reflexivity|]. apply IHt. lia.
    + left. destruct l as [[d i]| |]; cbn; lia.
    + left. cbn; lia.
Qed.

Lemma need_ty_len k t : need_ty t <= length (p_ty k t).
Proof. apply (proj1 (need_le_len (asize_ty t))). lia. Qed.

Lemma need_garg_len k a : need_garg a <= length (p_garg k a).
Proof.
  destruct a as [t|l|nn|[]]; cbn [need_garg p_garg]; [apply need_ty_len|lia|lia].
Qed.

Lemma need_gargs_len k args : need_gargs args <= length (p_args k args).
Proof.
  unfold need_gargs, p_args. eapply Nat.le_trans; [|apply len_angle]. rewrite map_map_len.
  apply list_sum_le. intros a _. apply le_n_S, need_garg_len.
Qed.

Lemma need_wc_len k w : need_wc w + 2 <= length (p_wc k w).
Proof.
  destruct w as [self tr args|a b|t l]; cbn [need_wc p_wc]; rewrite !app_length; cbn [length].
  - pose proof (need_ty_len k self). pose proof (need_gargs_len k args). lia.
  - destruct a as [[]| |], b as [[]| |]; cbn; lia.
  - pose proof (need_ty_len k t). destruct l as [[]| |]; cbn; lia.
Qed.

Lemma need_qwc_len D q : need_qwc q + 2 <= length (p_qwc D q).
Proof.
  destruct q as [ks w]. unfold need_qwc, p_qwc. cbn [fst snd]. pose proof (need_wc_len D w).
  destruct ks as [|k r]; [cbn [length]; lia|].
  cbn [length]. rewrite app_length. pose proof (len_params D 0 (k :: r)). cbn [length] in *. lia.
Qed.

Lemma need_qwcs_len D qs : length qs + need_qwcs qs <= length (p_where D qs).
Proof.
  unfold need_qwcs, p_where. destruct qs as [|q r]; [cbn; lia|].
  cbn [length]. pose proof (len_sep_by (map (p_qwc D) (q :: r)) ltac:(cbn; congruence)) as E.
  rewrite map_map_len in E.
  assert (H : list_sum (map (fun q0 => S (need_qwc q0)) (q :: r)) + 2 * length (q :: r)
              <= list_sum (map (fun a => S (length (p_qwc D a))) (q :: r))).
  { generalize (q :: r). intros l. unfold list_sum. induction l as [|x l IH]; cbn [map fold_right length]; [lia|].
    pose proof (need_qwc_len D x). lia. }
  cbn [length] in *. lia.
Qed.

Lemma len_fields i fs :
  length fs + need_fields fs <= length (sep_by comma (p_fields i fs)) + 1.
Proof.
  unfold need_fields.
  assert (H : list_sum (map (fun t => S (need_ty t)) fs) + 2 * length fs
              <= list_sum (map (fun x => S (length x)) (p_fields i fs))).
  { revert i. unfold list_sum. induction fs as [|t r IH]; intros i; cbn [p_fields map fold_right length]; [lia|].
    pose proof (need_ty_len 1 t). specialize (IH (S i)). lia. }
  destruct fs as [|f r]; [cbn; lia|].
  pose proof (len_sep_by (p_fields i (f :: r)) ltac:(cbn; congruence)) as E. cbn [length] in *. lia.
Qed.

Lemma need_variants_len i vs : S (length vs) + need_variants vs <= length (p_variants i vs) + 1.
Proof.
  unfold need_variants, list_sum. revert i. induction vs as [|fs r IH]; intros i; cbn [p_variants map fold_right length]; [lia|].
  repeat (rewrite ?app_length; cbn [length]). specialize (IH (S i)). pose proof (len_fields 0 fs). lia.
Qed.

Lemma len_attr b k : 0 <= length (attr b k).
Proof. lia. Qed.

Lemma need_item_len it : need_item it + 2 <= length (p_item it).
Proof.
  destruct it as [name ps fl fs wcs|name ps fl vs wcs|name ps fl wcs|ps up pos tr args self wcs]; cbn [need_item p_item];
    repeat rewrite app_length; cbn [length].
  - pose proof (len_params 1 0 ps). pose proof (need_qwcs_len 2 wcs). pose proof (len_fields 0 fs). (unfold aty, aqwc, agarg, aitem in *; lia).
  - pose proof (len_params 1 0 ps). pose proof (need_qwcs_len 2 wcs). pose proof (need_variants_len 0 vs). (unfold aty, aqwc, agarg, aitem in *; lia).
  - pose proof (len_params 1 1 ps). pose proof (need_qwcs_len 2 wcs). (unfold aty, aqwc, agarg, aitem in *; lia).
  - pose proof (len_params 1 0 ps). pose proof (need_qwcs_len 2 wcs). pose proof (need_gargs_len 1 args).
    pose proof (need_ty_len 1 self). (unfold aty, aqwc, agarg, aitem in *; lia).
Qed.

Lemma need_ast_len a : length a + need_ast a <= length (print_ast a).
Proof.
  unfold need_ast, print_ast, list_sum. induction a as [|it r IH]; cbn [map fold_right concat length]; [lia|].
  rewrite app_length. pose proof (need_item_len it). (unfold aty, aqwc, agarg, aitem in *; lia).
Qed.

Lemma need_len p : need p <= length (print p).
Proof. unfold need, print. pose proof (need_ast_len (unresolve p)). unfold unresolve in *. rewrite map_length in H. exact H. Qed.

(** the executable parser (fuel = number of tokens) inverts the writer *)
Theorem parse_print : forall p, wf p -> parse (print p) = Some (norm p).
Proof. intros p Hw. unfold parse. apply parse_print_small; [exact Hw|apply need_len]. Qed.

Theorem print_idempotent : forall p p', wf p -> parse (print p) = Some p' -> print p' = print p /\ parse (print p') = Some p'.
Proof.
  intros p p' Hw H. rewrite parse_print in H by exact Hw. injection H as <-. split; [reflexivity|]. now apply parse_print.
Qed.
