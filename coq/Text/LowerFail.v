(** * Text.LowerFail — the failure sites of AST -> IR lowering (property C24).

    A Coq function is total, so "the model never panics" only means something if the model
    has an explicit [Panic] outcome wherever the Rust code can panic.  This file models
    [chalk-integration/src/lowering.rs], [lowering/env.rs] and [lowering/program_lowerer.rs]
    over an abstract AST that keeps exactly what decides *whether and how lowering fails*:
    item names, the kind/arity of every parameter list, references by name, and the order in
    which the code evaluates things (the first error wins, so the order is observable).
    What a successful lowering *produces* is abstracted to the kind of a generic argument and
    to the tables later phases index into.

    Every [unwrap], map index, slice, [panic!] and [assert!] of the three files is a
    [Panic site] outcome guarded by the very lookup the code performs; [lower_no_panic]
    shows the guards always hold, i.e. the tables built by [extract_associated_types] /
    [extract_ids] contain every key that is later indexed.

    The parser is NOT modelled: it is "any function from text to an AST or an error"
    (LALRPOP automaton + lexer).  Two of its guarantees are built into the AST type and
    stated here so that they are not silently assumed:
      - a [TraitRef]'s argument vector starts with [GenericArg::Ty self] (the three
        productions that build a [TraitRef] all do [vec![GenericArg::Ty(s)]] first); the
        model therefore carries [self] separately and sites S5/S6 ([self.args[0]],
        [assert_ty_ref]) cannot be reached;
      - identifiers are atoms; [Self] and [__FIXME_SELF__] are ordinary identifiers
        ([id_Self], [id_FixmeSelf]) that the lowering itself introduces as parameters.

    [cfg] selects the unchanged code ([orig]) or the code after the two [fix:] commits
    ([fixed]); the theorem is proved for [fixed], the unchanged code is refuted by witnesses
    ([lower_panics_F9_refuted], [lower_panics_apply_refuted]). *)

From Coq Require Import List NArith Bool Lia.
Import ListNotations.

Set Implicit Arguments.

(* ------------------------------------------------------------------------------------- *)
(** ** Outcomes *)

Inductive err :=
| InvalidParameterName | InvalidTraitName | NotTrait | NotStruct
| DuplicateOrShadowedParameters
| AutoTraitAssociatedTypes | AutoTraitParameters | AutoTraitWhereClauses
| InvalidFundamentalTypesParameters | NegativeImplAssociatedValues | MissingAssociatedType
| IncorrectNumberOfVarianceParameters | IncorrectNumberOfTypeParameters
| IncorrectNumberOfAssociatedTypeParameters
| IncorrectParameterKind | IncorrectTraitParameterKind | IncorrectAssociatedTypeParameterKind
| CannotApplyTypeParameter | InvalidExternAbi.

(** The panic-capable sites (file:line of the pinned tree). *)
Inductive site :=
| S_assoc_lookup_trait      (* program_lowerer.rs:273  associated_ty_lookups[&(trait_id, name)] *)
| S_atv_id                  (* program_lowerer.rs:335  associated_ty_value_ids[&(impl_id, name)] *)
| S_assoc_lookup_impl       (* program_lowerer.rs:336  associated_ty_lookups[&(trait_id, atv.name)]  -- F9 *)
| S_coroutine_id            (* program_lowerer.rs:475  coroutine_ids[&name] *)
| S_apply_foreign_or_trait  (* lowering.rs:760  panic!("Unexpected apply type")  -- found by this check *)
| S_impl_atv_ids            (* lowering.rs:925  associated_ty_value_ids[&(impl_id, name)] *)
| S_trait_assoc_unwrap      (* lowering.rs:1005 lookup_associated_ty(..).unwrap() *)
| S_goal_trait_data         (* lowering.rs:1028 program.trait_data[&datum.trait_id] *)
| S_goal_binders_slice      (* lowering.rs:1031 binders[num_trait_params..] *)
| S_auto_trait              (* env.rs:176 auto_traits[&id] *)
| S_trait_kind              (* env.rs:192 *)
| S_adt_kind                (* env.rs:196 *)
| S_fn_def_kind             (* env.rs:200 *)
| S_closure_kind            (* env.rs:204 *)
| S_opaque_kind             (* env.rs:208 *)
| S_coroutine_kind.         (* env.rs:212 *)

Inductive out (A : Type) := Ok (a : A) | Err (e : err) | Panic (s : site).
Arguments Err {A} e.
Arguments Panic {A} s.

Definition bind {A B} (o : out A) (f : A -> out B) : out B :=
  match o with Ok a => f a | Err e => Err e | Panic s => Panic s end.
Notation "x <- a ;; b" := (bind a (fun x => b)) (at level 61, a at next level, right associativity).
Notation "a ;;; b" := (bind a (fun _ => b)) (at level 61, right associativity).

Definition mapM {A B} (f : A -> out B) : list A -> out (list B) :=
  fix go l := match l with
              | [] => Ok []
              | x :: r => y <- f x ;; ys <- go r ;; Ok (y :: ys)
              end.
Definition iterM {A} (f : A -> out unit) : list A -> out unit :=
  fix go l := match l with [] => Ok tt | x :: r => f x ;;; go r end.

(** [let xs: Result<_> = iter.map(lower).collect(); let r = ret.lower()?; .. xs? ..]:
    all of [xs] is evaluated first (a panic there propagates), but the error of [r] is
    returned in preference to the error of [xs]. *)
Definition collect_then {A} (xs : out A) (r : out unit) : out A :=
  match xs with
  | Panic s => Panic s
  | _ => match r with Ok _ => xs | Err e => Err e | Panic s => Panic s end
  end.

Definition np {A} (o : out A) : Prop := match o with Panic _ => False | _ => True end.

(* ------------------------------------------------------------------------------------- *)
(** ** The abstract AST *)

Definition ident := N.
Definition id_Self : ident := 0%N.
Definition id_FixmeSelf : ident := 1%N.

Inductive kind := KTy | KLt | KConst.
Definition kind_eqb (a b : kind) : bool :=
  match a, b with KTy, KTy | KLt, KLt | KConst, KConst => true | _, _ => false end.
Definition vk := (kind * ident)%type.          (* [VariableKind]: kind and name *)

Inductive lifetime := LId (n : ident) | LStatic | LErased.
Inductive konst := CId (n : ident) | CVal.

Inductive ty :=
| TId (n : ident)
| TApply (n : ident) (args : list garg)
| TDyn (bounds : list qib) (l : lifetime)
| TProj (tr : ident) (self : ty) (targs : list garg) (name : ident) (args : list garg)
| TFn (lts : list ident) (tys : list ty) (abi_ok : bool)
| TTuple (ts : list ty)
| TScalar | TStr | TNever
| TSlice (t : ty) | TArray (t : ty) (c : konst) | TRaw (t : ty) | TRef (l : lifetime) (t : ty)
with garg := GTy (t : ty) | GLt (l : lifetime) | GId (n : ident) | GConst (c : konst)
with qib :=
| QIBTrait (vks : list vk) (tr : ident) (args : list garg)
| QIBAlias (vks : list vk) (tr : ident) (args : list garg) (name : ident) (aargs : list garg) (value : ty).

Inductive wc :=
| WImpl (tr : ident) (self : ty) (args : list garg)
| WProjEq (tr : ident) (self : ty) (targs : list garg) (name : ident) (args : list garg) (t : ty)
| WLtOut (a b : lifetime)
| WTyOut (t : ty) (l : lifetime).
Definition qwc := (list vk * wc)%type.

Inductive dgoal :=
| DHolds (w : wc)
| DNormalize (tr : ident) (self : ty) (targs : list garg) (name : ident) (args : list garg) (t : ty)
| DTy (t : ty)                     (* WellFormed/FromEnv/IsLocal/IsUpstream/IsFullyVisible/DownstreamType *)
| DTraitRef (tr : ident) (self : ty) (args : list garg)   (* WellFormed/FromEnv/LocalImplAllowed *)
| DTrivial                         (* Compatible, Reveal *)
| DObjectSafe (n : ident).

Inductive goal :=
| GQuant (vks : list vk) (g : goal)         (* forall / exists *)
| GImplies (hyp : list clause) (g : goal)
| GAnd (g1 : goal) (gs : list goal)
| GWrap (g : goal)                          (* not / compatible *)
| GLeaf (d : dgoal)
| GUnify (a b : garg)
| GSubtype (a b : ty)
with clause := Clause (vks : list vk) (conseq : dgoal) (conds : list goal).

Record assoc_defn := { ad_name : ident; ad_vks : list vk; ad_bounds : list qib; ad_wcs : list qwc }.
Record atv := { av_name : ident; av_vks : list vk; av_ty : ty }.

Inductive item :=
| IAdt (name : ident) (vks : list vk) (fundamental : bool) (variances : option nat)
       (variants : list (list ty)) (wcs : list qwc) (repr_int : option ty)
| IFn (name : ident) (vks : list vk) (wcs : list qwc) (args : list ty) (ret : ty)
      (abi_ok : bool) (variances : option nat)
| IClosure (name : ident) (vks : list vk) (args : list ty) (ret : ty) (upvars : list ty)
| ITrait (name : ident) (vks : list vk) (auto : bool) (wcs : list qwc) (assocs : list assoc_defn)
| IOpaque (name : ident) (vks : list vk) (bounds : list qib) (wcs : list qwc) (hidden : ty)
| ICoroutine (name : ident) (vks : list vk) (upvars : list ty) (resume yield ret : ty)
             (wlts : list ident) (wtys : list ty)
| IImpl (vks : list vk) (positive : bool) (tr : ident) (self : ty) (args : list garg)
        (wcs : list qwc) (atvs : list atv)
| IClause (c : clause)
| IForeign (name : ident).

Definition program := list item.

(* ------------------------------------------------------------------------------------- *)
(** ** Tables (the [BTreeMap]s of [ProgramLowerer] / [Env]); insertion = cons, so the first
    match is the last insertion ("last one wins", as [BTreeMap::insert]). *)

Section Maps.
  Variables (K V : Type) (eqb : K -> K -> bool).
  Fixpoint get (k : K) (m : list (K * V)) : option V :=
    match m with
    | [] => None
    | (k', v) :: r => if eqb k k' then Some v else get k r
    end.
  Definition has (k : K) (m : list (K * V)) : bool :=
    match get k m with Some _ => true | None => false end.
End Maps.

Definition pair_eqb (a b : N * ident) : bool := (N.eqb (fst a) (fst b) && N.eqb (snd a) (snd b))%bool.

Record genv := {
  adt_ids : list (ident * N);        adt_kinds : list (N * list kind);
  fn_ids : list (ident * N);         fn_kinds : list (N * list kind);
  closure_ids : list (ident * N);    closure_kinds : list (N * list kind);
  opaque_ids : list (ident * N);     opaque_kinds : list (N * list kind);
  coroutine_ids : list (ident * N);  coroutine_kinds : list (N * list kind);
  trait_ids : list (ident * N);      trait_kinds : list (N * list kind);
  auto_traits : list (N * bool);
  foreign_ids : list (ident * N);
  (** (trait id, name) -> additional parameter kinds of the associated type *)
  assoc_lookups : list ((N * ident) * list kind);
  (** (impl id, name) of every associated type value *)
  atv_ids : list ((N * ident) * unit);
}.

Definition empty_genv : genv :=
  {| adt_ids := []; adt_kinds := []; fn_ids := []; fn_kinds := []; closure_ids := [];
     closure_kinds := []; opaque_ids := []; opaque_kinds := []; coroutine_ids := [];
     coroutine_kinds := []; trait_ids := []; trait_kinds := []; auto_traits := [];
     foreign_ids := []; assoc_lookups := []; atv_ids := [] |}.

(** [parameter_map]: names in scope with their kinds (a map: names are unique). *)
Definition pmap := list (ident * kind).

Fixpoint nodupb (l : list ident) : bool :=
  match l with [] => true | x :: r => negb (existsb (N.eqb x) r) && nodupb r end.
Definition disjointb (a b : list ident) : bool :=
  forallb (fun x => negb (existsb (N.eqb x) b)) a.

(** [Env::introduce]: the new map is collected into a [BTreeMap]; if its size is not
    [old + new] some name was duplicated or shadowed. *)
Definition introduce (pm : pmap) (bs : list vk) : out pmap :=
  if (nodupb (map snd bs) && disjointb (map snd bs) (map fst pm))%bool
  then Ok (map (fun b => (snd b, fst b)) bs ++ pm)
  else Err DuplicateOrShadowedParameters.

Record cfg := { fix_F9 : bool; fix_apply : bool }.
Definition orig : cfg := {| fix_F9 := false; fix_apply := false |}.
Definition fixed : cfg := {| fix_F9 := true; fix_apply := true |}.

Inductive type_lookup :=
| LParameter (k : kind) | LAdt (id : N) | LFnDef (id : N) | LClosure (id : N) | LOpaque (id : N)
| LForeign (id : N) | LTrait (id : N) | LCoroutine (id : N).

Section Lower.
  Variable c : cfg.
  Variable g : genv.

  (** [Env::lookup_type] (order of the namespaces as in the code). *)
  Definition lookup_type (pm : pmap) (n : ident) : option type_lookup :=
    match get N.eqb n pm with Some k => Some (LParameter k) | None =>
    match get N.eqb n g.(adt_ids) with Some i => Some (LAdt i) | None =>
    match get N.eqb n g.(fn_ids) with Some i => Some (LFnDef i) | None =>
    match get N.eqb n g.(closure_ids) with Some i => Some (LClosure i) | None =>
    match get N.eqb n g.(opaque_ids) with Some i => Some (LOpaque i) | None =>
    match get N.eqb n g.(foreign_ids) with Some i => Some (LForeign i) | None =>
    match get N.eqb n g.(trait_ids) with Some i => Some (LTrait i) | None =>
    match get N.eqb n g.(coroutine_ids) with Some i => Some (LCoroutine i) | None => None
    end end end end end end end end.

  Definition kind_of (s : site) (m : list (N * list kind)) (i : N) : out (list kind) :=
    match get N.eqb i m with Some k => Ok k | None => Panic s end.

  (** [Env::lookup_generic_arg] *)
  Definition lookup_generic_arg (pm : pmap) (n : ident) : out kind :=
    let nullary (s : site) (m : list (N * list kind)) (i : N) : out kind :=
      ks <- kind_of s m i ;;
      match ks with [] => Ok KTy | _ => Err IncorrectNumberOfTypeParameters end in
    match lookup_type pm n with
    | Some (LParameter k) => Ok k
    | Some (LAdt i) => nullary S_adt_kind g.(adt_kinds) i
    | Some (LFnDef i) => nullary S_fn_def_kind g.(fn_kinds) i
    | Some (LClosure i) => nullary S_closure_kind g.(closure_kinds) i
    | Some (LCoroutine i) => nullary S_coroutine_kind g.(coroutine_kinds) i
    | Some (LOpaque _) => Ok KTy
    | Some (LForeign _) => Ok KTy
    | Some (LTrait _) => Err NotStruct
    | None => Err InvalidParameterName
    end.

  (** [Env::lookup_trait] *)
  Definition lookup_trait (pm : pmap) (n : ident) : out N :=
    match get N.eqb n g.(trait_ids) with
    | Some i => Ok i
    | None => if (has N.eqb n pm || has N.eqb n g.(adt_ids))%bool then Err NotTrait else Err InvalidTraitName
    end.

  Definition lookup_associated_ty (tr : N) (n : ident) : out (list kind) :=
    match get pair_eqb (tr, n) g.(assoc_lookups) with Some ks => Ok ks | None => Err MissingAssociatedType end.

  Definition lower_lifetime (pm : pmap) (l : lifetime) : out unit :=
    match l with
    | LId n => k <- lookup_generic_arg pm n ;; match k with KLt => Ok tt | _ => Err IncorrectParameterKind end
    | _ => Ok tt
    end.

  Definition lower_konst (pm : pmap) (k : konst) : out unit :=
    match k with
    | CId n => k <- lookup_generic_arg pm n ;; match k with KConst => Ok tt | _ => Err IncorrectParameterKind end
    | CVal => Ok tt
    end.

  (** arity then kinds, with the given error classes *)
  Definition check_kinds (e_n e_k : err) (expected actual : list kind) : out unit :=
    if negb (Nat.eqb (length expected) (length actual)) then Err e_n
    else if forallb (fun p => kind_eqb (fst p) (snd p)) (combine expected actual) then Ok tt else Err e_k.

  Definition sig_abi (abi_ok : bool) : out unit := if abi_ok then Ok tt else Err InvalidExternAbi.

  (** [TraitBound::lower] given the already-lowered kinds of [args_no_self] is split in two
      because the code looks the trait up *before* lowering the arguments. *)
  Definition trait_bound_head (pm : pmap) (tr : ident) : out (N * list kind) :=
    i <- lookup_trait pm tr ;;
    ks <- kind_of S_trait_kind g.(trait_kinds) i ;;
    Ok (i, ks).
  Definition trait_bound_check (ks actual : list kind) : out unit :=
    check_kinds IncorrectNumberOfTypeParameters IncorrectTraitParameterKind ks actual.

  Definition assoc_check (ks actual : list kind) : out unit :=
    check_kinds IncorrectNumberOfAssociatedTypeParameters IncorrectAssociatedTypeParameterKind ks actual.

  (** [Ty::Apply] on an ADT-like item: arity first, then the arguments, then their kinds. *)
  Definition apply_check (ks : list kind) (nargs : nat) (lower_args : out (list kind)) : out unit :=
    if negb (Nat.eqb (length ks) nargs) then Err IncorrectNumberOfTypeParameters
    else actual <- lower_args ;;
         if forallb (fun p => kind_eqb (fst p) (snd p)) (combine ks actual) then Ok tt else Err IncorrectParameterKind.

  (** [[QuantifiedInlineBound]::lower]: every bound's trait is looked up first, in the
      *outer* environment (the auto flag is read through [auto_traits[&id]]); then the
      bounds are lowered, the non-auto ones in source order followed by the auto ones
      ordered by trait id (stable sort).  [results] are the per-bound outcomes; they are
      computed by the caller so that the recursion stays structural. *)
  Definition bound_trait (b : qib) : ident :=
    match b with QIBTrait _ tr _ => tr | QIBAlias _ tr _ _ _ _ => tr end.
  Definition bound_head (pm : pmap) (b : qib) : out (N * bool) :=
    i <- lookup_trait pm (bound_trait b) ;;
    match get N.eqb i g.(auto_traits) with Some a => Ok (i, a) | None => Panic S_auto_trait end.
  Fixpoint insert_by_id {A} (x : N * A) (l : list (N * A)) : list (N * A) :=
    match l with
    | [] => [x]
    | y :: r => if N.leb (fst x) (fst y) then x :: l else y :: insert_by_id x r
    end.
  Definition sort_by_id {A} (l : list (N * A)) : list (N * A) := fold_right insert_by_id [] l.
  Definition order_bounds {A} (hs : list (N * bool)) (rs : list A) : list A :=
    let z := combine hs rs in
    map snd (filter (fun p => negb (snd (fst p))) z)
    ++ map snd (sort_by_id (map (fun p => (fst (fst p), snd p)) (filter (fun p => snd (fst p)) z))).
  Definition lower_bounds (pm : pmap) (bounds : list qib) (results : list (out unit)) : out unit :=
    hs <- mapM (bound_head pm) bounds ;;
    iterM (fun r => r) (order_bounds hs results).

  Fixpoint lower_ty (pm : pmap) (t : ty) {struct t} : out unit :=
    match t with
    | TId n => k <- lookup_generic_arg pm n ;; match k with KTy => Ok tt | _ => Err IncorrectParameterKind end
    | TApply n args =>
        match lookup_type pm n with
        | None => Err NotStruct
        | Some (LParameter _) => Err CannotApplyTypeParameter
        | Some (LAdt i) => ks <- kind_of S_adt_kind g.(adt_kinds) i ;; apply_check ks (length args) (mapM (lower_garg pm) args)
        | Some (LFnDef i) => ks <- kind_of S_fn_def_kind g.(fn_kinds) i ;; apply_check ks (length args) (mapM (lower_garg pm) args)
        | Some (LClosure i) => ks <- kind_of S_closure_kind g.(closure_kinds) i ;; apply_check ks (length args) (mapM (lower_garg pm) args)
        | Some (LOpaque i) => ks <- kind_of S_opaque_kind g.(opaque_kinds) i ;; apply_check ks (length args) (mapM (lower_garg pm) args)
        | Some (LCoroutine i) => ks <- kind_of S_coroutine_kind g.(coroutine_kinds) i ;; apply_check ks (length args) (mapM (lower_garg pm) args)
        | Some (LForeign _) =>
            if c.(fix_apply)
            then match args with [] => Ok tt | _ => Err IncorrectNumberOfTypeParameters end
            else Panic S_apply_foreign_or_trait
        | Some (LTrait _) => if c.(fix_apply) then Err NotStruct else Panic S_apply_foreign_or_trait
        end
    | TDyn bounds l =>
        pm' <- introduce pm [(KTy, id_FixmeSelf)] ;;
        lower_bounds pm' bounds (map (lower_qib pm') bounds) ;;;
        lower_lifetime pm l
    | TProj tr self targs name args =>
        (* TraitRef::lower: the bound (args without self) first, then self *)
        h <- trait_bound_head pm tr ;;
        tks <- mapM (lower_garg pm) targs ;;
        trait_bound_check (snd h) tks ;;;
        lower_ty pm self ;;;
        aks <- lookup_associated_ty (fst h) name ;;
        actual <- mapM (lower_garg pm) args ;;
        assoc_check aks actual
    | TFn lts tys abi_ok =>
        pm' <- introduce pm (map (fun n => (KLt, n)) lts) ;;
        iterM (lower_ty pm') tys ;;;
        sig_abi abi_ok
    | TTuple ts => iterM (lower_ty pm) ts
    | TScalar | TStr | TNever => Ok tt
    | TSlice t | TRaw t => lower_ty pm t
    | TArray t k => lower_ty pm t ;;; lower_konst pm k
    | TRef l t => lower_lifetime pm l ;;; lower_ty pm t
    end
  with lower_garg (pm : pmap) (a : garg) {struct a} : out kind :=
    match a with
    | GTy t => lower_ty pm t ;;; Ok KTy
    | GLt l => lower_lifetime pm l ;;; Ok KLt
    | GId n => lookup_generic_arg pm n
    | GConst k => lower_konst pm k ;;; Ok KConst
    end
  with lower_qib (pm : pmap) (b : qib) {struct b} : out unit :=
    match b with
    | QIBTrait vks tr args =>
        pm' <- introduce pm vks ;;
        h <- trait_bound_head pm' tr ;;
        tks <- mapM (lower_garg pm') args ;;
        trait_bound_check (snd h) tks
    | QIBAlias vks tr args name aargs value =>
        pm' <- introduce pm vks ;;
        h <- trait_bound_head pm' tr ;;
        tks <- mapM (lower_garg pm') args ;;
        trait_bound_check (snd h) tks ;;;
        aks <- lookup_associated_ty (fst h) name ;;
        actual <- mapM (lower_garg pm') aargs ;;
        assoc_check aks actual ;;;
        lower_ty pm' value
    end.

  (** [TraitRef::lower]: the bound (arguments without self) first, then the self type. *)
  Definition lower_trait_ref (pm : pmap) (tr : ident) (self : ty) (args : list garg) : out N :=
    h <- trait_bound_head pm tr ;;
    tks <- mapM (lower_garg pm) args ;;
    trait_bound_check (snd h) tks ;;;
    lower_ty pm self ;;;
    Ok (fst h).

  Definition lower_proj (pm : pmap) (tr : ident) (self : ty) (targs : list garg) (name : ident) (args : list garg) : out unit :=
    i <- lower_trait_ref pm tr self targs ;;
    aks <- lookup_associated_ty i name ;;
    actual <- mapM (lower_garg pm) args ;;
    assoc_check aks actual.

  Definition lower_wc (pm : pmap) (w : wc) : out unit :=
    match w with
    | WImpl tr self args => lower_trait_ref pm tr self args ;;; Ok tt
    | WProjEq tr self targs name args t =>
        lower_proj pm tr self targs name args ;;;
        lower_ty pm t ;;;
        lower_trait_ref pm tr self targs ;;; Ok tt
    | WLtOut a b => lower_lifetime pm a ;;; lower_lifetime pm b
    | WTyOut t l => lower_ty pm t ;;; lower_lifetime pm l
    end.

  Definition lower_qwc (pm : pmap) (q : qwc) : out unit :=
    pm' <- introduce pm (fst q) ;; lower_wc pm' (snd q).
  Definition lower_qwcs (pm : pmap) (l : list qwc) : out unit := iterM (lower_qwc pm) l.

  Definition lower_dgoal (pm : pmap) (d : dgoal) : out unit :=
    match d with
    | DHolds w => lower_wc pm w
    | DNormalize tr self targs name args t => lower_proj pm tr self targs name args ;;; lower_ty pm t
    | DTy t => lower_ty pm t
    | DTraitRef tr self args => lower_trait_ref pm tr self args ;;; Ok tt
    | DTrivial => Ok tt
    | DObjectSafe n => lookup_trait pm n ;;; Ok tt
    end.

  (** evaluation from the last element to the first ([.map(lower).rev()] in [Clause::lower]) *)
  Definition iterM_rev {A} (f : A -> out unit) : list A -> out unit :=
    fix go l := match l with [] => Ok tt | x :: r => go r ;;; f x end.

  Fixpoint lower_goal (pm : pmap) (gl : goal) {struct gl} : out unit :=
    match gl with
    | GQuant vks g' => pm' <- introduce pm vks ;; lower_goal pm' g'
    | GImplies hyp g' => iterM (lower_clause pm) hyp ;;; lower_goal pm g'
    | GAnd g1 gs => lower_goal pm g1 ;;; iterM (lower_goal pm) gs
    | GWrap g' => lower_goal pm g'
    | GLeaf d => lower_dgoal pm d
    | GUnify a b => lower_garg pm a ;;; lower_garg pm b ;;; Ok tt
    | GSubtype a b => lower_ty pm a ;;; lower_ty pm b
    end
  with lower_clause (pm : pmap) (cl : clause) {struct cl} : out unit :=
    match cl with
    | Clause vks conseq conds =>
        pm' <- introduce pm vks ;;
        lower_dgoal pm' conseq ;;;
        iterM_rev (lower_goal pm') conds
    end.

  (* ----------------------------------------------------------------------------------- *)
  (** *** Items ([ProgramLowerer::lower]) *)

  Definition is_nil {A} (l : list A) : bool := match l with [] => true | _ => false end.
  Definition when (b : bool) (e : err) : out unit := if b then Err e else Ok tt.
  Definition guard (b : bool) (s : site) : out unit := if b then Ok tt else Panic s.

  Definition variance_check (v : option nat) (n : nat) : out unit :=
    match v with
    | Some k => when (negb (Nat.eqb k n)) IncorrectNumberOfVarianceParameters
    | None => Ok tt
    end.

  Definition self_param : vk := (KTy, id_Self).
  Definition fixme_self : vk := (KTy, id_FixmeSelf).

  Definition lower_item (i : N) (it : item) : out unit :=
    match it with
    | IAdt name vks fundamental variances variants wcs repr_int =>
        when (fundamental && is_nil vks) InvalidFundamentalTypesParameters ;;;
        pm <- introduce [] vks ;;
        iterM (iterM (lower_ty pm)) variants ;;;
        lower_qwcs pm wcs ;;;
        match repr_int with Some t => lower_ty [] t | None => Ok tt end ;;;
        variance_check variances (length vks)
    | IFn name vks wcs args ret abi_ok variances =>
        pm <- introduce [] vks ;;
        lower_qwcs pm wcs ;;;
        collect_then (iterM (lower_ty pm) args) (lower_ty pm ret) ;;;
        sig_abi abi_ok ;;;
        variance_check variances (length vks)
    | IClosure name vks args ret upvars =>
        pm <- introduce [] vks ;;
        collect_then (iterM (lower_ty pm) args) (lower_ty pm ret) ;;;
        iterM (lower_ty pm) upvars
    | ITrait name vks auto wcs assocs =>
        let ps := self_param :: vks in
        pm <- introduce [] ps ;;
        when (auto && negb (is_nil vks)) AutoTraitParameters ;;;
        when (auto && negb (is_nil wcs)) AutoTraitWhereClauses ;;;
        lower_qwcs pm wcs ;;;
        iterM (fun ad => guard (has pair_eqb (i, ad.(ad_name)) g.(assoc_lookups)) S_trait_assoc_unwrap) assocs ;;;
        iterM (fun ad =>
                 guard (has pair_eqb (i, ad.(ad_name)) g.(assoc_lookups)) S_assoc_lookup_trait ;;;
                 pm' <- introduce [] (ps ++ ad.(ad_vks)) ;;
                 lower_bounds pm' ad.(ad_bounds) (map (lower_qib pm') ad.(ad_bounds)) ;;;
                 lower_qwcs pm' ad.(ad_wcs)) assocs
    | IOpaque name vks bounds wcs hidden =>
        if has N.eqb name g.(opaque_ids) then
          pm <- introduce [] vks ;;
          lower_ty pm hidden ;;;
          pm1 <- introduce pm [fixme_self] ;;
          lower_bounds pm1 bounds (map (lower_qib pm1) bounds) ;;;
          lower_qwcs pm1 wcs
        else Ok tt
    | ICoroutine name vks upvars resume yield ret wlts wtys =>
        pm <- introduce [] vks ;;
        lower_ty pm yield ;;; lower_ty pm resume ;;; lower_ty pm ret ;;;
        iterM (lower_ty pm) upvars ;;;
        pm' <- introduce pm (map (fun n => (KLt, n)) wlts) ;;
        iterM (lower_ty pm') wtys ;;;
        guard (has N.eqb name g.(coroutine_ids)) S_coroutine_id
    | IImpl vks positive tr self args wcs atvs =>
        pm <- introduce [] vks ;;
        tid <- lower_trait_ref pm tr self args ;;
        when (negb positive && negb (is_nil atvs)) NegativeImplAssociatedValues ;;;
        lower_qwcs pm wcs ;;;
        iterM (fun a => guard (has pair_eqb (i, a.(av_name)) g.(atv_ids)) S_impl_atv_ids) atvs ;;;
        iterM (fun a =>
                 guard (has pair_eqb (i, a.(av_name)) g.(atv_ids)) S_atv_id ;;;
                 (if has pair_eqb (tid, a.(av_name)) g.(assoc_lookups) then Ok tt
                  else if c.(fix_F9) then Err MissingAssociatedType else Panic S_assoc_lookup_impl) ;;;
                 pm' <- introduce [] (vks ++ a.(av_vks)) ;;
                 lower_ty pm' a.(av_ty)) atvs
    | IClause cl => lower_clause [] cl
    | IForeign _ => Ok tt
    end.

  Fixpoint lower_items (i : N) (items : list item) : out unit :=
    match items with
    | [] => Ok tt
    | it :: r => lower_item i it ;;; lower_items (N.succ i) r
    end.

End Lower.

(* ------------------------------------------------------------------------------------- *)
(** ** The two extraction passes and the whole lowering *)

Definition kinds_of (vks : list vk) : list kind := map fst vks.

(** [extract_associated_types]: the only pass-1 error is an auto trait with associated types. *)
Definition set_assoc (g : genv) (al : list ((N * ident) * list kind)) (av : list ((N * ident) * unit)) : genv :=
  {| adt_ids := g.(adt_ids); adt_kinds := g.(adt_kinds); fn_ids := g.(fn_ids); fn_kinds := g.(fn_kinds);
     closure_ids := g.(closure_ids); closure_kinds := g.(closure_kinds); opaque_ids := g.(opaque_ids);
     opaque_kinds := g.(opaque_kinds); coroutine_ids := g.(coroutine_ids); coroutine_kinds := g.(coroutine_kinds);
     trait_ids := g.(trait_ids); trait_kinds := g.(trait_kinds); auto_traits := g.(auto_traits);
     foreign_ids := g.(foreign_ids); assoc_lookups := al; atv_ids := av |}.

Definition extract_assoc_one (i : N) (it : item) (g : genv) : out genv :=
  match it with
  | ITrait name vks auto wcs assocs =>
      if (auto && negb (is_nil assocs))%bool then Err AutoTraitAssociatedTypes
      else Ok (set_assoc g (fold_left (fun acc ad => ((i, ad.(ad_name)), kinds_of ad.(ad_vks)) :: acc) assocs g.(assoc_lookups)) g.(atv_ids))
  | IImpl vks positive tr self args wcs atvs =>
      Ok (set_assoc g g.(assoc_lookups) (fold_left (fun acc a => ((i, a.(av_name)), tt) :: acc) atvs g.(atv_ids)))
  | _ => Ok g
  end.

Fixpoint extract_assoc (i : N) (items : list item) (g : genv) : out genv :=
  match items with
  | [] => Ok g
  | it :: r => g' <- extract_assoc_one i it g ;; extract_assoc (N.succ i) r g'
  end.

(** [extract_ids] never fails. *)
Definition extract_ids_one (i : N) (it : item) (g : genv) : genv :=
  let al := g.(assoc_lookups) in let av := g.(atv_ids) in
  match it with
  | IAdt name vks _ _ _ _ _ =>
      {| adt_ids := (name, i) :: g.(adt_ids); adt_kinds := (i, kinds_of vks) :: g.(adt_kinds);
         fn_ids := g.(fn_ids); fn_kinds := g.(fn_kinds); closure_ids := g.(closure_ids); closure_kinds := g.(closure_kinds);
         opaque_ids := g.(opaque_ids); opaque_kinds := g.(opaque_kinds); coroutine_ids := g.(coroutine_ids);
         coroutine_kinds := g.(coroutine_kinds); trait_ids := g.(trait_ids); trait_kinds := g.(trait_kinds);
         auto_traits := g.(auto_traits); foreign_ids := g.(foreign_ids); assoc_lookups := al; atv_ids := av |}
  | IFn name vks _ _ _ _ _ =>
      {| adt_ids := g.(adt_ids); adt_kinds := g.(adt_kinds);
         fn_ids := (name, i) :: g.(fn_ids); fn_kinds := (i, kinds_of vks) :: g.(fn_kinds);
         closure_ids := g.(closure_ids); closure_kinds := g.(closure_kinds);
         opaque_ids := g.(opaque_ids); opaque_kinds := g.(opaque_kinds); coroutine_ids := g.(coroutine_ids);
         coroutine_kinds := g.(coroutine_kinds); trait_ids := g.(trait_ids); trait_kinds := g.(trait_kinds);
         auto_traits := g.(auto_traits); foreign_ids := g.(foreign_ids); assoc_lookups := al; atv_ids := av |}
  | IClosure name vks _ _ _ =>
      {| adt_ids := g.(adt_ids); adt_kinds := g.(adt_kinds); fn_ids := g.(fn_ids); fn_kinds := g.(fn_kinds);
         closure_ids := (name, i) :: g.(closure_ids); closure_kinds := (i, kinds_of vks) :: g.(closure_kinds);
         opaque_ids := g.(opaque_ids); opaque_kinds := g.(opaque_kinds); coroutine_ids := g.(coroutine_ids);
         coroutine_kinds := g.(coroutine_kinds); trait_ids := g.(trait_ids); trait_kinds := g.(trait_kinds);
         auto_traits := g.(auto_traits); foreign_ids := g.(foreign_ids); assoc_lookups := al; atv_ids := av |}
  | ITrait name vks auto _ _ =>
      {| adt_ids := g.(adt_ids); adt_kinds := g.(adt_kinds); fn_ids := g.(fn_ids); fn_kinds := g.(fn_kinds);
         closure_ids := g.(closure_ids); closure_kinds := g.(closure_kinds);
         opaque_ids := g.(opaque_ids); opaque_kinds := g.(opaque_kinds); coroutine_ids := g.(coroutine_ids);
         coroutine_kinds := g.(coroutine_kinds);
         trait_ids := (name, i) :: g.(trait_ids); trait_kinds := (i, kinds_of vks) :: g.(trait_kinds);
         auto_traits := (i, auto) :: g.(auto_traits); foreign_ids := g.(foreign_ids); assoc_lookups := al; atv_ids := av |}
  | IOpaque name vks _ _ _ =>
      {| adt_ids := g.(adt_ids); adt_kinds := g.(adt_kinds); fn_ids := g.(fn_ids); fn_kinds := g.(fn_kinds);
         closure_ids := g.(closure_ids); closure_kinds := g.(closure_kinds);
         opaque_ids := (name, i) :: g.(opaque_ids); opaque_kinds := (i, kinds_of vks) :: g.(opaque_kinds);
         coroutine_ids := g.(coroutine_ids); coroutine_kinds := g.(coroutine_kinds); trait_ids := g.(trait_ids);
         trait_kinds := g.(trait_kinds); auto_traits := g.(auto_traits); foreign_ids := g.(foreign_ids);
         assoc_lookups := al; atv_ids := av |}
  | ICoroutine name vks _ _ _ _ _ _ =>
      {| adt_ids := g.(adt_ids); adt_kinds := g.(adt_kinds); fn_ids := g.(fn_ids); fn_kinds := g.(fn_kinds);
         closure_ids := g.(closure_ids); closure_kinds := g.(closure_kinds);
         opaque_ids := g.(opaque_ids); opaque_kinds := g.(opaque_kinds);
         coroutine_ids := (name, i) :: g.(coroutine_ids); coroutine_kinds := (i, kinds_of vks) :: g.(coroutine_kinds);
         trait_ids := g.(trait_ids); trait_kinds := g.(trait_kinds); auto_traits := g.(auto_traits);
         foreign_ids := g.(foreign_ids); assoc_lookups := al; atv_ids := av |}
  | IForeign name =>
      {| adt_ids := g.(adt_ids); adt_kinds := g.(adt_kinds); fn_ids := g.(fn_ids); fn_kinds := g.(fn_kinds);
         closure_ids := g.(closure_ids); closure_kinds := g.(closure_kinds);
         opaque_ids := g.(opaque_ids); opaque_kinds := g.(opaque_kinds); coroutine_ids := g.(coroutine_ids);
         coroutine_kinds := g.(coroutine_kinds); trait_ids := g.(trait_ids); trait_kinds := g.(trait_kinds);
         auto_traits := g.(auto_traits); foreign_ids := (name, i) :: g.(foreign_ids); assoc_lookups := al; atv_ids := av |}
  | IImpl _ _ _ _ _ _ _ | IClause _ => g
  end.

Fixpoint extract_ids (i : N) (items : list item) (g : genv) : genv :=
  match items with
  | [] => g
  | it :: r => extract_ids (N.succ i) r (extract_ids_one i it g)
  end.

(** What [lower_goal] reads of the lowered [Program]: the name tables (same maps), the
    number of binders of every [TraitDatum] and, per [AssociatedTyDatum], its trait id, name
    and binder kinds (trait parameters incl. Self first, then its own). *)
Record lowered := {
  l_env : genv;
  l_trait_data : list (N * nat);
  l_assoc_data : list ((N * ident) * list kind);
}.

Fixpoint summary (i : N) (items : list item) (td : list (N * nat)) (ad : list ((N * ident) * list kind))
  : list (N * nat) * list ((N * ident) * list kind) :=
  match items with
  | [] => (td, ad)
  | ITrait name vks auto wcs assocs :: r =>
      summary (N.succ i) r ((i, S (length vks)) :: td)
              (fold_left (fun acc a => ((i, a.(ad_name)), KTy :: kinds_of vks ++ kinds_of a.(ad_vks)) :: acc) assocs ad)
  | _ :: r => summary (N.succ i) r td ad
  end.

Definition lower (c : cfg) (p : program) : out lowered :=
  g1 <- extract_assoc 0%N p empty_genv ;;
  let g := extract_ids 0%N p g1 in
  lower_items c g 0%N p ;;;
  let s := summary 0%N p [] [] in
  Ok {| l_env := g; l_trait_data := fst s; l_assoc_data := snd s |}.

(** [lower_goal]: rebuilds the associated-type lookups from the lowered program. *)
Definition goal_env (l : lowered) : out genv :=
  al <- mapM (fun d : (N * ident) * list kind =>
                match get N.eqb (fst (fst d)) l.(l_trait_data) with
                | None => Panic S_goal_trait_data
                | Some n => if Nat.leb n (length (snd d)) then Ok (fst d, skipn n (snd d)) else Panic S_goal_binders_slice
                end) l.(l_assoc_data) ;;
  Ok (set_assoc l.(l_env) al l.(l_env).(atv_ids)).

Definition lower_goal_top (c : cfg) (l : lowered) (gl : goal) : out unit :=
  g <- goal_env l ;; lower_goal c g [] gl.

(** The observable class of an outcome (what the correspondence compares). *)
Inductive cls := COk | CErr (e : err) | CPanic (s : site).
Definition cls_of {A} (o : out A) : cls := match o with Ok _ => COk | Err e => CErr e | Panic s => CPanic s end.

Definition run (c : cfg) (p : program) (goals : list goal) : cls * list cls :=
  match lower c p with
  | Ok l => (COk, map (fun gl => cls_of (lower_goal_top c l gl)) goals)
  | o => (cls_of o, [])
  end.
