(** * Text.Print — the program writer on the core fragment (model of
    [chalk-solve/src/display.rs], [display/{items,ty,bounds,state,identifiers}.rs]).

    [print_ast] renders a surface program to tokens exactly as [write_items] does (attribute
    order, separators, no trailing commas except the 1-tuple, [<..>] omitted when empty,
    where-block omitted when empty); [unresolve] turns a lowered program into the surface
    program the writer's naming scheme denotes ([InternalWriterState]: a variable with de
    Bruijn depth [d] seen under [k] binder levels is called [_(k-d)_i]; the trait's own
    parameter 0 is [Self]; an item is called by its name).  [print = print_ast ∘ unresolve]. *)

From Coq Require Import List NArith Bool Arith.
Import ListNotations.
From Chalk Require Import Text.Syntax22.

Fixpoint sep_by {A} (s : list A) (l : list (list A)) : list A :=
  match l with
  | [] => []
  | [x] => x
  | x :: r => x ++ s ++ sep_by s r
  end.

Definition comma : list tok := [P PComma].

Definition p_lt (l : alt) : list tok :=
  match l with
  | LVar (dd, ii) => [LTV dd ii]
  | LStatic => [KW Kstatic]
  | LErased => [KW Kerased]
  end.

Definition p_konst (c : akonst) : list tok :=
  match c with CVar (dd, ii) => [VAR dd ii] | CVal n => [NUM n] end.

Definition p_var (v : avar) : list tok := match v with AV dd ii => [VAR dd ii] | ASelf => [SELF] end.

Definition angle (l : list (list tok)) : list tok :=
  match l with [] => [] | _ => P PLt :: sep_by comma l ++ [P PGt] end.

(** the names the writer gives to the variables a binder at inverted depth [D] introduces,
    starting at index [i] *)
Definition btok (k : kind) (D i : nat) : list tok :=
  match k with
  | KTy => [VAR D i]
  | KLt => [LTV D i]
  | KConst => [KW Kconst; VAR D i]
  | KInt => [KW Kint; VAR D i]
  | KFloat => [KW Kfloat; VAR D i]
  end.

Fixpoint p_binder_names (D i : nat) (ks : list kind) : list (list tok) :=
  match ks with
  | [] => []
  | k :: r => btok k D i :: p_binder_names D (S i) r
  end.

Definition p_params (D i : nat) (ks : list kind) : list tok := angle (p_binder_names D i ks).

(** [k]: the number of binder levels open where the type is printed (the writer's
    [debrujin_indices_deep]); it only matters for the names of the binders a type introduces *)
Fixpoint p_ty (k : nat) (t : aty) : list tok :=
  match t with
  | TVar v => p_var v
  | TAdt n args => ID n :: angle (map (p_garg k) args)
  | TScalar s => [KW (Kscalar s)]
  | TTuple ts =>
      match ts with
      | [t1] => P PLParen :: p_ty k t1 ++ [P PComma; P PRParen]
      | _ => P PLParen :: sep_by comma (map (p_ty k) ts) ++ [P PRParen]
      end
  | TRef m l t => P PAmp :: p_lt l ++ (if m then [KW Kmut] else []) ++ p_ty k t
  | TRaw m t => P PStar :: KW (if m then Kmut else Kconst) :: p_ty k t
  | TSlice t => P PLBracket :: p_ty k t ++ [P PRBracket]
  | TArray t c => P PLBracket :: p_ty k t ++ [P PSemi] ++ p_konst c ++ [P PRBracket]
  | TStr => [KW Kstr]
  | TNever => [P PBang]
  | TFn nb unsafe variadic args ret =>
      match nb with O => [] | _ => KW Kfor :: p_params (S k) 0 (repeat KLt nb) end
      ++ (if unsafe then [KW Kunsafe] else [])
      ++ [KW Kfn; P PLParen]
      ++ sep_by comma (map (p_ty (S k)) args ++ (if variadic then [[P PDots]] else []))
      ++ [P PRParen; P PArrow] ++ p_ty (S k) ret
  | TDyn bounds l =>
      match bounds with
      | [] => [KW Kdyn; P PPlus]
      | _ => KW Kdyn :: concat (map (fun b => p_dbound (S (S k)) b ++ [P PPlus]) bounds)
      end ++ p_lt l
  end
with p_garg (k : nat) (a : agarg) : list tok :=
  match a with GTy t => p_ty k t | GLt l => p_lt l | GCVal n => [NUM n] | GCVar c => match c with end end
with p_dbound (k : nat) (b : adbound) : list tok :=
  match b with
  | DB ks tr args =>
      match ks with [] => [] | _ => KW Kforall :: p_params k 0 ks end
      ++ ID tr :: angle (map (p_garg k) args)
  end.

Definition p_args (k : nat) (args : list agarg) : list tok := angle (map (p_garg k) args).

Definition p_wc (k : nat) (w : awc) : list tok :=
  match w with
  | WImpl self tr args => p_ty k self ++ [P PColon; ID tr] ++ p_args k args
  | WLtOut a b => p_lt a ++ [P PColon] ++ p_lt b
  | WTyOut t l => p_ty k t ++ [P PColon] ++ p_lt l
  end.

(** a quantified where clause sits one binder level below the item: its binder is level [D] *)
Definition p_qwc (D : nat) (q : aqwc) : list tok :=
  match fst q with
  | [] => p_wc D (snd q)
  | ks => KW Kforall :: p_params D 0 ks ++ p_wc D (snd q)
  end.

Definition p_where (D : nat) (wcs : list aqwc) : list tok :=
  match wcs with [] => [] | _ => KW Kwhere :: sep_by comma (map (p_qwc D) wcs) end.

Definition attr (b : bool) (k : kw) : list tok := if b then [P PHash; P PLBracket; KW k; P PRBracket] else [].

Fixpoint p_fields (i : nat) (fs : list aty) : list (list tok) :=
  match fs with [] => [] | t :: r => (FIELD i :: P PColon :: p_ty 1 t) :: p_fields (S i) r end.

Definition attr_repr (b : bool) (k : kw) : list tok :=
  if b then [P PHash; P PLBracket; KW Krepr; P PLParen; KW k; P PRParen; P PRBracket] else [].

Definition sattrs (fl : sflags) : list tok :=
  attr fl.(sf_upstream) Kupstream ++ attr fl.(sf_fundamental) Kfundamental ++ attr fl.(sf_phantom_data) Kphantom_data
  ++ attr fl.(sf_one_zst) Kone_zst ++ attr_repr fl.(sf_repr_c) KC ++ attr_repr fl.(sf_repr_packed) Kpacked.

Fixpoint p_variants (i : nat) (vs : list (list aty)) : list tok :=
  match vs with
  | [] => []
  | fs :: r => VARIANT i :: P PLBrace :: sep_by comma (p_fields 0 fs) ++ [P PRBrace; P PComma] ++ p_variants (S i) r
  end.

Definition p_item (it : aitem) : list tok :=
  match it with
  | IEnum name params fl variants wcs =>
      sattrs fl ++ [KW Kenum; ID name] ++ p_params 1 0 params ++ p_where 2 wcs
      ++ [P PLBrace] ++ p_variants 0 variants ++ [P PRBrace]
  | IStruct name params fl fields wcs =>
      sattrs fl ++ [KW Kstruct; ID name] ++ p_params 1 0 params ++ p_where 2 wcs
      ++ [P PLBrace] ++ sep_by comma (p_fields 0 fields) ++ [P PRBrace]
  | ITrait name params fl wcs =>
      attr fl.(tf_auto) Kauto ++ attr fl.(tf_marker) Kmarker ++ attr fl.(tf_upstream) Kupstream
      ++ attr fl.(tf_fundamental) Kfundamental ++ attr fl.(tf_non_enumerable) Knon_enumerable
      ++ attr fl.(tf_coinductive) Kcoinductive ++ attr fl.(tf_object_safe) Kobject_safe
      ++ [KW Ktrait; ID name] ++ p_params 1 1 params ++ p_where 2 wcs ++ [P PLBrace; P PRBrace]
  | IImpl params upstream positive tr args self wcs =>
      attr upstream Kupstream ++ [KW Kimpl] ++ p_params 1 0 params
      ++ (if positive then [] else [P PBang]) ++ [ID tr] ++ p_args 1 args ++ [KW Kfor] ++ p_ty 1 self
      ++ p_where 2 wcs ++ [P PLBrace; P PRBrace]
  end.

Definition print_ast (a : ast) : list tok := concat (map p_item a).

(* ------------------------------------------------------------------------------------- *)
(** ** From the lowered program to the surface program *)

Section Unresolve.
  (** names of the items, by position *)
  Variable names : list N.
  Definition name_of (id : nat) : N := nth id names 0%N.

  (** [k] binder levels are open; [in_trait]: level 1 is a trait's, whose variable 0 is Self *)
  Variable in_trait : bool.

  Definition u_var (k : nat) (v : ivar) : avar :=
    let D := k - fst v in
    if (in_trait && Nat.eqb D 1 && Nat.eqb (snd v) 0)%bool then ASelf else AV D (snd v).

  Definition u_lt (k : nat) (l : ilt) : alt :=
    match l with
    | LVar v => LVar (k - fst v, snd v)
    | LStatic => LStatic
    | LErased => LErased
    end.

  Definition u_konst (k : nat) (c : ikonst) : akonst :=
    match c with CVar v => CVar (k - fst v, snd v) | CVal n => CVal n end.

  Fixpoint u_ty (k : nat) (t : ity) : aty :=
    match t with
    | TVar v => TVar (u_var k v)
    | TAdt id args => TAdt (name_of id) (map (u_garg k) args)
    | TScalar s => TScalar s
    | TTuple ts => TTuple (map (u_ty k) ts)
    | TRef m l t => TRef m (u_lt k l) (u_ty k t)
    | TRaw m t => TRaw m (u_ty k t)
    | TSlice t => TSlice (u_ty k t)
    | TArray t c => TArray (u_ty k t) (u_konst k c)
    | TStr => TStr
    | TNever => TNever
    | TFn nb unsafe variadic args ret => TFn nb unsafe variadic (map (u_ty (S k)) args) (u_ty (S k) ret)
    | TDyn bounds l => TDyn (map (u_dbound (S (S k))) bounds) (u_lt k l)
    end
  with u_garg (k : nat) (a : igarg) : agarg :=
    match a with
    | GTy t => GTy (u_ty k t)
    | GLt l => GLt (u_lt k l)
    | GCVal n => GCVal n
    | GCVar v => GTy (TVar (AV (k - fst v) (snd v)))     (* a bare parameter name *)
    end
  with u_dbound (k : nat) (b : idbound) : adbound :=
    match b with DB ks tr args => DB ks (name_of tr) (map (u_garg k) args) end.

  Definition u_wc (k : nat) (w : iwc) : awc :=
    match w with
    | WImpl self tr args => WImpl (u_ty k self) (name_of tr) (map (u_garg k) args)
    | WLtOut a b => WLtOut (u_lt k a) (u_lt k b)
    | WTyOut t l => WTyOut (u_ty k t) (u_lt k l)
    end.

  (** every quantified where clause opens one more level, even with an empty binder *)
  Definition u_qwc (k : nat) (q : iqwc) : aqwc := (fst q, u_wc (S k) (snd q)).
End Unresolve.

Definition item_name (it : iitem) : N :=
  match it with IStruct n _ _ _ _ => n | IEnum n _ _ _ _ => n | ITrait n _ _ _ => n | IImpl _ _ _ _ _ _ _ => 0%N end.

Definition u_item (names : list N) (it : iitem) : aitem :=
  match it with
  | IStruct name params fl fields wcs =>
      IStruct name params fl (map (u_ty names false 1) fields) (map (u_qwc names false 1) wcs)
  | IEnum name params fl variants wcs =>
      IEnum name params fl (map (map (u_ty names false 1)) variants) (map (u_qwc names false 1) wcs)
  | ITrait name params fl wcs => ITrait name params fl (map (u_qwc names true 1) wcs)
  | IImpl params upstream positive tr args self wcs =>
      IImpl params upstream positive (name_of names tr) (map (u_garg names false 1) args) (u_ty names false 1 self)
            (map (u_qwc names false 1) wcs)
  end.

Definition unresolve (p : program) : ast := map (u_item (map item_name p)) p.

Definition print (p : program) : list tok := print_ast (unresolve p).
