Agg/Instance.vo Agg/Instance.glob Agg/Instance.v.beautified Agg/Instance.required_vo: Agg/Instance.v Ir/Syntax.vo Ir/Fold.vo
Agg/Instance.vio: Agg/Instance.v Ir/Syntax.vio Ir/Fold.vio
Agg/Instance.vos Agg/Instance.vok Agg/Instance.required_vos: Agg/Instance.v Ir/Syntax.vos Ir/Fold.vos
Check/Priorities.vo Check/Priorities.glob Check/Priorities.v.beautified Check/Priorities.required_vo: Check/Priorities.v 
Check/Priorities.vio: Check/Priorities.v 
Check/Priorities.vos Check/Priorities.vok Check/Priorities.required_vos: Check/Priorities.v 
Engine/AndOr.vo Engine/AndOr.glob Engine/AndOr.v.beautified Engine/AndOr.required_vo: Engine/AndOr.v 
Engine/AndOr.vio: Engine/AndOr.v 
Engine/AndOr.vos Engine/AndOr.vok Engine/AndOr.required_vos: Engine/AndOr.v 
Engine/RecEngine.vo Engine/RecEngine.glob Engine/RecEngine.v.beautified Engine/RecEngine.required_vo: Engine/RecEngine.v Engine/AndOr.vo
Engine/RecEngine.vio: Engine/RecEngine.v Engine/AndOr.vio
Engine/RecEngine.vos Engine/RecEngine.vok Engine/RecEngine.required_vos: Engine/RecEngine.v Engine/AndOr.vos
Infer/Script.vo Infer/Script.glob Infer/Script.v.beautified Infer/Script.required_vo: Infer/Script.v Ir/Syntax.vo Ir/Fold.vo Infer/Table.vo Infer/Unify.vo
Infer/Script.vio: Infer/Script.v Ir/Syntax.vio Ir/Fold.vio Infer/Table.vio Infer/Unify.vio
Infer/Script.vos Infer/Script.vok Infer/Script.required_vos: Infer/Script.v Ir/Syntax.vos Ir/Fold.vos Infer/Table.vos Infer/Unify.vos
Infer/Table.vo Infer/Table.glob Infer/Table.v.beautified Infer/Table.required_vo: Infer/Table.v Ir/Syntax.vo
Infer/Table.vio: Infer/Table.v Ir/Syntax.vio
Infer/Table.vos Infer/Table.vok Infer/Table.required_vos: Infer/Table.v Ir/Syntax.vos
Infer/Unify.vo Infer/Unify.glob Infer/Unify.v.beautified Infer/Unify.required_vo: Infer/Unify.v Ir/Syntax.vo Ir/Fold.vo Infer/Table.vo
Infer/Unify.vio: Infer/Unify.v Ir/Syntax.vio Ir/Fold.vio Infer/Table.vio
Infer/Unify.vos Infer/Unify.vok Infer/Unify.required_vos: Infer/Unify.v Ir/Syntax.vos Ir/Fold.vos Infer/Table.vos
Ir/CouldMatch.vo Ir/CouldMatch.glob Ir/CouldMatch.v.beautified Ir/CouldMatch.required_vo: Ir/CouldMatch.v Ir/Syntax.vo Ir/Fold.vo
Ir/CouldMatch.vio: Ir/CouldMatch.v Ir/Syntax.vio Ir/Fold.vio
Ir/CouldMatch.vos Ir/CouldMatch.vok Ir/CouldMatch.required_vos: Ir/CouldMatch.v Ir/Syntax.vos Ir/Fold.vos
Ir/Flags.vo Ir/Flags.glob Ir/Flags.v.beautified Ir/Flags.required_vo: Ir/Flags.v Ir/Syntax.vo
Ir/Flags.vio: Ir/Flags.v Ir/Syntax.vio
Ir/Flags.vos Ir/Flags.vok Ir/Flags.required_vos: Ir/Flags.v Ir/Syntax.vos
Ir/Fold.vo Ir/Fold.glob Ir/Fold.v.beautified Ir/Fold.required_vo: Ir/Fold.v Ir/Syntax.vo
Ir/Fold.vio: Ir/Fold.v Ir/Syntax.vio
Ir/Fold.vos Ir/Fold.vok Ir/Fold.required_vos: Ir/Fold.v Ir/Syntax.vos
Ir/Syntax.vo Ir/Syntax.glob Ir/Syntax.v.beautified Ir/Syntax.required_vo: Ir/Syntax.v 
Ir/Syntax.vio: Ir/Syntax.v 
Ir/Syntax.vos Ir/Syntax.vok Ir/Syntax.required_vos: Ir/Syntax.v 
Logic/Contract.vo Logic/Contract.glob Logic/Contract.v.beautified Logic/Contract.required_vo: Logic/Contract.v Logic/Ground.vo
Logic/Contract.vio: Logic/Contract.v Logic/Ground.vio
Logic/Contract.vos Logic/Contract.vok Logic/Contract.required_vos: Logic/Contract.v Logic/Ground.vos
Logic/Ground.vo Logic/Ground.glob Logic/Ground.v.beautified Logic/Ground.required_vo: Logic/Ground.v Logic/Sem.vo
Logic/Ground.vio: Logic/Ground.v Logic/Sem.vio
Logic/Ground.vos Logic/Ground.vok Logic/Ground.required_vos: Logic/Ground.v Logic/Sem.vos
Logic/Program.vo Logic/Program.glob Logic/Program.v.beautified Logic/Program.required_vo: Logic/Program.v 
Logic/Program.vio: Logic/Program.v 
Logic/Program.vos Logic/Program.vok Logic/Program.required_vos: Logic/Program.v 
Logic/Sem.vo Logic/Sem.glob Logic/Sem.v.beautified Logic/Sem.required_vo: Logic/Sem.v Logic/Program.vo
Logic/Sem.vio: Logic/Sem.v Logic/Program.vio
Logic/Sem.vos Logic/Sem.vok Logic/Sem.required_vos: Logic/Sem.v Logic/Program.vos
Mem/InPlace.vo Mem/InPlace.glob Mem/InPlace.v.beautified Mem/InPlace.required_vo: Mem/InPlace.v 
Mem/InPlace.vio: Mem/InPlace.v 
Mem/InPlace.vos Mem/InPlace.vok Mem/InPlace.required_vos: Mem/InPlace.v 
Props/C01.vo Props/C01.glob Props/C01.v.beautified Props/C01.required_vo: Props/C01.v Logic/Contract.vo
Props/C01.vio: Props/C01.v Logic/Contract.vio
Props/C01.vos Props/C01.vok Props/C01.required_vos: Props/C01.v Logic/Contract.vos
Props/C02.vo Props/C02.glob Props/C02.v.beautified Props/C02.required_vo: Props/C02.v Logic/Contract.vo
Props/C02.vio: Props/C02.v Logic/Contract.vio
Props/C02.vos Props/C02.vok Props/C02.required_vos: Props/C02.v Logic/Contract.vos
Props/C04.vo Props/C04.glob Props/C04.v.beautified Props/C04.required_vo: Props/C04.v Logic/Contract.vo
Props/C04.vio: Props/C04.v Logic/Contract.vio
Props/C04.vos Props/C04.vok Props/C04.required_vos: Props/C04.v Logic/Contract.vos
Props/C18.vo Props/C18.glob Props/C18.v.beautified Props/C18.required_vo: Props/C18.v Ir/Syntax.vo Ir/CouldMatch.vo
Props/C18.vio: Props/C18.v Ir/Syntax.vio Ir/CouldMatch.vio
Props/C18.vos Props/C18.vok Props/C18.required_vos: Props/C18.v Ir/Syntax.vos Ir/CouldMatch.vos
Props/C19.vo Props/C19.glob Props/C19.v.beautified Props/C19.required_vo: Props/C19.v Check/Priorities.vo
Props/C19.vio: Props/C19.v Check/Priorities.vio
Props/C19.vos Props/C19.vok Props/C19.required_vos: Props/C19.v Check/Priorities.vos
Props/C24.vo Props/C24.glob Props/C24.v.beautified Props/C24.required_vo: Props/C24.v Text/LowerFail.vo Text/LowerFailFacts.vo
Props/C24.vio: Props/C24.v Text/LowerFail.vio Text/LowerFailFacts.vio
Props/C24.vos Props/C24.vok Props/C24.required_vos: Props/C24.v Text/LowerFail.vos Text/LowerFailFacts.vos
Props/C25.vo Props/C25.glob Props/C25.v.beautified Props/C25.required_vo: Props/C25.v Ir/Syntax.vo Ir/Fold.vo
Props/C25.vio: Props/C25.v Ir/Syntax.vio Ir/Fold.vio
Props/C25.vos Props/C25.vok Props/C25.required_vos: Props/C25.v Ir/Syntax.vos Ir/Fold.vos
Props/C26.vo Props/C26.glob Props/C26.v.beautified Props/C26.required_vo: Props/C26.v Ir/Syntax.vo Ir/Flags.vo
Props/C26.vio: Props/C26.v Ir/Syntax.vio Ir/Flags.vio
Props/C26.vos Props/C26.vok Props/C26.required_vos: Props/C26.v Ir/Syntax.vos Ir/Flags.vos
Props/C27.vo Props/C27.glob Props/C27.v.beautified Props/C27.required_vo: Props/C27.v Mem/InPlace.vo
Props/C27.vio: Props/C27.v Mem/InPlace.vio
Props/C27.vos Props/C27.vok Props/C27.required_vos: Props/C27.v Mem/InPlace.vos
Text/LowerFail.vo Text/LowerFail.glob Text/LowerFail.v.beautified Text/LowerFail.required_vo: Text/LowerFail.v 
Text/LowerFail.vio: Text/LowerFail.v 
Text/LowerFail.vos Text/LowerFail.vok Text/LowerFail.required_vos: Text/LowerFail.v 
Text/LowerFailFacts.vo Text/LowerFailFacts.glob Text/LowerFailFacts.v.beautified Text/LowerFailFacts.required_vo: Text/LowerFailFacts.v Text/LowerFail.vo
Text/LowerFailFacts.vio: Text/LowerFailFacts.v Text/LowerFail.vio
Text/LowerFailFacts.vos Text/LowerFailFacts.vok Text/LowerFailFacts.required_vos: Text/LowerFailFacts.v Text/LowerFail.vos
Text/LowerFailRun.vo Text/LowerFailRun.glob Text/LowerFailRun.v.beautified Text/LowerFailRun.required_vo: Text/LowerFailRun.v Text/LowerFail.vo
Text/LowerFailRun.vio: Text/LowerFailRun.v Text/LowerFail.vio
Text/LowerFailRun.vos Text/LowerFailRun.vok Text/LowerFailRun.required_vos: Text/LowerFailRun.v Text/LowerFail.vos
