Agg/AntiUnify.vo Agg/AntiUnify.glob Agg/AntiUnify.v.beautified Agg/AntiUnify.required_vo: Agg/AntiUnify.v Ir/Syntax.vo Ir/Fold.vo Agg/Instance.vo
Agg/AntiUnify.vio: Agg/AntiUnify.v Ir/Syntax.vio Ir/Fold.vio Agg/Instance.vio
Agg/AntiUnify.vos Agg/AntiUnify.vok Agg/AntiUnify.required_vos: Agg/AntiUnify.v Ir/Syntax.vos Ir/Fold.vos Agg/Instance.vos
Agg/Check.vo Agg/Check.glob Agg/Check.v.beautified Agg/Check.required_vo: Agg/Check.v Ir/Syntax.vo Ir/Fold.vo Agg/Instance.vo Agg/AntiUnify.vo Agg/MayInv.vo Agg/Solution.vo Agg/Loop.vo
Agg/Check.vio: Agg/Check.v Ir/Syntax.vio Ir/Fold.vio Agg/Instance.vio Agg/AntiUnify.vio Agg/MayInv.vio Agg/Solution.vio Agg/Loop.vio
Agg/Check.vos Agg/Check.vok Agg/Check.required_vos: Agg/Check.v Ir/Syntax.vos Ir/Fold.vos Agg/Instance.vos Agg/AntiUnify.vos Agg/MayInv.vos Agg/Solution.vos Agg/Loop.vos
Agg/Instance.vo Agg/Instance.glob Agg/Instance.v.beautified Agg/Instance.required_vo: Agg/Instance.v Ir/Syntax.vo Ir/Fold.vo
Agg/Instance.vio: Agg/Instance.v Ir/Syntax.vio Ir/Fold.vio
Agg/Instance.vos Agg/Instance.vok Agg/Instance.required_vos: Agg/Instance.v Ir/Syntax.vos Ir/Fold.vos
Agg/Loop.vo Agg/Loop.glob Agg/Loop.v.beautified Agg/Loop.required_vo: Agg/Loop.v Ir/Syntax.vo Ir/Fold.vo Agg/Instance.vo Agg/AntiUnify.vo Agg/MayInv.vo Agg/Solution.vo
Agg/Loop.vio: Agg/Loop.v Ir/Syntax.vio Ir/Fold.vio Agg/Instance.vio Agg/AntiUnify.vio Agg/MayInv.vio Agg/Solution.vio
Agg/Loop.vos Agg/Loop.vok Agg/Loop.required_vos: Agg/Loop.v Ir/Syntax.vos Ir/Fold.vos Agg/Instance.vos Agg/AntiUnify.vos Agg/MayInv.vos Agg/Solution.vos
Agg/MayInv.vo Agg/MayInv.glob Agg/MayInv.v.beautified Agg/MayInv.required_vo: Agg/MayInv.v Ir/Syntax.vo Ir/Fold.vo Agg/Instance.vo Agg/AntiUnify.vo
Agg/MayInv.vio: Agg/MayInv.v Ir/Syntax.vio Ir/Fold.vio Agg/Instance.vio Agg/AntiUnify.vio
Agg/MayInv.vos Agg/MayInv.vok Agg/MayInv.required_vos: Agg/MayInv.v Ir/Syntax.vos Ir/Fold.vos Agg/Instance.vos Agg/AntiUnify.vos
Agg/Solution.vo Agg/Solution.glob Agg/Solution.v.beautified Agg/Solution.required_vo: Agg/Solution.v Ir/Syntax.vo Ir/Fold.vo Agg/Instance.vo Agg/AntiUnify.vo
Agg/Solution.vio: Agg/Solution.v Ir/Syntax.vio Ir/Fold.vio Agg/Instance.vio Agg/AntiUnify.vio
Agg/Solution.vos Agg/Solution.vok Agg/Solution.required_vos: Agg/Solution.v Ir/Syntax.vos Ir/Fold.vos Agg/Instance.vos Agg/AntiUnify.vos
Check/Priorities.vo Check/Priorities.glob Check/Priorities.v.beautified Check/Priorities.required_vo: Check/Priorities.v 
Check/Priorities.vio: Check/Priorities.v 
Check/Priorities.vos Check/Priorities.vok Check/Priorities.required_vos: Check/Priorities.v 
Engine/AndOr.vo Engine/AndOr.glob Engine/AndOr.v.beautified Engine/AndOr.required_vo: Engine/AndOr.v 
Engine/AndOr.vio: Engine/AndOr.v 
Engine/AndOr.vos Engine/AndOr.vok Engine/AndOr.required_vos: Engine/AndOr.v 
Engine/AndOrEval.vo Engine/AndOrEval.glob Engine/AndOrEval.v.beautified Engine/AndOrEval.required_vo: Engine/AndOrEval.v Engine/AndOr.vo Engine/AndOrFacts.vo
Engine/AndOrEval.vio: Engine/AndOrEval.v Engine/AndOr.vio Engine/AndOrFacts.vio
Engine/AndOrEval.vos Engine/AndOrEval.vok Engine/AndOrEval.required_vos: Engine/AndOrEval.v Engine/AndOr.vos Engine/AndOrFacts.vos
Engine/AndOrFacts.vo Engine/AndOrFacts.glob Engine/AndOrFacts.v.beautified Engine/AndOrFacts.required_vo: Engine/AndOrFacts.v Engine/AndOr.vo
Engine/AndOrFacts.vio: Engine/AndOrFacts.v Engine/AndOr.vio
Engine/AndOrFacts.vos Engine/AndOrFacts.vok Engine/AndOrFacts.required_vos: Engine/AndOrFacts.v Engine/AndOr.vos
Engine/RecEngine.vo Engine/RecEngine.glob Engine/RecEngine.v.beautified Engine/RecEngine.required_vo: Engine/RecEngine.v Engine/AndOr.vo
Engine/RecEngine.vio: Engine/RecEngine.v Engine/AndOr.vio
Engine/RecEngine.vos Engine/RecEngine.vok Engine/RecEngine.required_vos: Engine/RecEngine.v Engine/AndOr.vos
Engine/RecEval.vo Engine/RecEval.glob Engine/RecEval.v.beautified Engine/RecEval.required_vo: Engine/RecEval.v Engine/RecInv.vo
Engine/RecEval.vio: Engine/RecEval.v Engine/RecInv.vio
Engine/RecEval.vos Engine/RecEval.vok Engine/RecEval.required_vos: Engine/RecEval.v Engine/RecInv.vos
Engine/RecFuel.vo Engine/RecFuel.glob Engine/RecFuel.v.beautified Engine/RecFuel.required_vo: Engine/RecFuel.v Engine/RecTheorems.vo
Engine/RecFuel.vio: Engine/RecFuel.v Engine/RecTheorems.vio
Engine/RecFuel.vos Engine/RecFuel.vok Engine/RecFuel.required_vos: Engine/RecFuel.v Engine/RecTheorems.vos
Engine/RecFuelAcyclic.vo Engine/RecFuelAcyclic.glob Engine/RecFuelAcyclic.v.beautified Engine/RecFuelAcyclic.required_vo: Engine/RecFuelAcyclic.v Engine/RecFuel.vo
Engine/RecFuelAcyclic.vio: Engine/RecFuelAcyclic.v Engine/RecFuel.vio
Engine/RecFuelAcyclic.vos Engine/RecFuelAcyclic.vok Engine/RecFuelAcyclic.required_vos: Engine/RecFuelAcyclic.v Engine/RecFuel.vos
Engine/RecFuelLoops.vo Engine/RecFuelLoops.glob Engine/RecFuelLoops.v.beautified Engine/RecFuelLoops.required_vo: Engine/RecFuelLoops.v Engine/RecFuelAcyclic.vo
Engine/RecFuelLoops.vio: Engine/RecFuelLoops.v Engine/RecFuelAcyclic.vio
Engine/RecFuelLoops.vos Engine/RecFuelLoops.vok Engine/RecFuelLoops.required_vos: Engine/RecFuelLoops.v Engine/RecFuelAcyclic.vos
Engine/RecInv.vo Engine/RecInv.glob Engine/RecInv.v.beautified Engine/RecInv.required_vo: Engine/RecInv.v Engine/RecEngine.vo Engine/AndOrFacts.vo
Engine/RecInv.vio: Engine/RecInv.v Engine/RecEngine.vio Engine/AndOrFacts.vio
Engine/RecInv.vos Engine/RecInv.vok Engine/RecInv.required_vos: Engine/RecInv.v Engine/RecEngine.vos Engine/AndOrFacts.vos
Engine/RecSolve.vo Engine/RecSolve.glob Engine/RecSolve.v.beautified Engine/RecSolve.required_vo: Engine/RecSolve.v Engine/RecEval.vo
Engine/RecSolve.vio: Engine/RecSolve.v Engine/RecEval.vio
Engine/RecSolve.vos Engine/RecSolve.vok Engine/RecSolve.required_vos: Engine/RecSolve.v Engine/RecEval.vos
Engine/RecTheorems.vo Engine/RecTheorems.glob Engine/RecTheorems.v.beautified Engine/RecTheorems.required_vo: Engine/RecTheorems.v Engine/RecSolve.vo Engine/RecWitness.vo
Engine/RecTheorems.vio: Engine/RecTheorems.v Engine/RecSolve.vio Engine/RecWitness.vio
Engine/RecTheorems.vos Engine/RecTheorems.vok Engine/RecTheorems.required_vos: Engine/RecTheorems.v Engine/RecSolve.vos Engine/RecWitness.vos
Engine/RecWitness.vo Engine/RecWitness.glob Engine/RecWitness.v.beautified Engine/RecWitness.required_vo: Engine/RecWitness.v Engine/RecEngine.vo
Engine/RecWitness.vio: Engine/RecWitness.v Engine/RecEngine.vio
Engine/RecWitness.vos Engine/RecWitness.vok Engine/RecWitness.required_vos: Engine/RecWitness.v Engine/RecEngine.vos
Engine/SlgForest.vo Engine/SlgForest.glob Engine/SlgForest.v.beautified Engine/SlgForest.required_vo: Engine/SlgForest.v Engine/SlgTable.vo
Engine/SlgForest.vio: Engine/SlgForest.v Engine/SlgTable.vio
Engine/SlgForest.vos Engine/SlgForest.vok Engine/SlgForest.required_vos: Engine/SlgForest.v Engine/SlgTable.vos
Engine/SlgTable.vo Engine/SlgTable.glob Engine/SlgTable.v.beautified Engine/SlgTable.required_vo: Engine/SlgTable.v Logic/Contract.vo
Engine/SlgTable.vio: Engine/SlgTable.v Logic/Contract.vio
Engine/SlgTable.vos Engine/SlgTable.vok Engine/SlgTable.required_vos: Engine/SlgTable.v Logic/Contract.vos
Infer/Answer.vo Infer/Answer.glob Infer/Answer.v.beautified Infer/Answer.required_vo: Infer/Answer.v Ir/Syntax.vo Ir/Fold.vo Infer/Canon.vo
Infer/Answer.vio: Infer/Answer.v Ir/Syntax.vio Ir/Fold.vio Infer/Canon.vio
Infer/Answer.vos Infer/Answer.vok Infer/Answer.required_vos: Infer/Answer.v Ir/Syntax.vos Ir/Fold.vos Infer/Canon.vos
Infer/AnswerWf.vo Infer/AnswerWf.glob Infer/AnswerWf.v.beautified Infer/AnswerWf.required_vo: Infer/AnswerWf.v Ir/Syntax.vo Ir/Fold.vo Infer/Canon.vo Infer/UCanon.vo Infer/Answer.vo Agg/Instance.vo Agg/AntiUnify.vo
Infer/AnswerWf.vio: Infer/AnswerWf.v Ir/Syntax.vio Ir/Fold.vio Infer/Canon.vio Infer/UCanon.vio Infer/Answer.vio Agg/Instance.vio Agg/AntiUnify.vio
Infer/AnswerWf.vos Infer/AnswerWf.vok Infer/AnswerWf.required_vos: Infer/AnswerWf.v Ir/Syntax.vos Ir/Fold.vos Infer/Canon.vos Infer/UCanon.vos Infer/Answer.vos Agg/Instance.vos Agg/AntiUnify.vos
Infer/Canon.vo Infer/Canon.glob Infer/Canon.v.beautified Infer/Canon.required_vo: Infer/Canon.v Ir/Syntax.vo Ir/Fold.vo
Infer/Canon.vio: Infer/Canon.v Ir/Syntax.vio Ir/Fold.vio
Infer/Canon.vos Infer/Canon.vok Infer/Canon.required_vos: Infer/Canon.v Ir/Syntax.vos Ir/Fold.vos
Infer/Closed.vo Infer/Closed.glob Infer/Closed.v.beautified Infer/Closed.required_vo: Infer/Closed.v Ir/Syntax.vo Ir/Fold.vo Infer/Table.vo Infer/Unify.vo Infer/Variance.vo
Infer/Closed.vio: Infer/Closed.v Ir/Syntax.vio Ir/Fold.vio Infer/Table.vio Infer/Unify.vio Infer/Variance.vio
Infer/Closed.vos Infer/Closed.vok Infer/Closed.required_vos: Infer/Closed.v Ir/Syntax.vos Ir/Fold.vos Infer/Table.vos Infer/Unify.vos Infer/Variance.vos
Infer/ClosedU.vo Infer/ClosedU.glob Infer/ClosedU.v.beautified Infer/ClosedU.required_vo: Infer/ClosedU.v Ir/Syntax.vo Ir/Fold.vo Infer/Table.vo Infer/Unify.vo Infer/Variance.vo Infer/Closed.vo Infer/Sym.vo Infer/Sound.vo
Infer/ClosedU.vio: Infer/ClosedU.v Ir/Syntax.vio Ir/Fold.vio Infer/Table.vio Infer/Unify.vio Infer/Variance.vio Infer/Closed.vio Infer/Sym.vio Infer/Sound.vio
Infer/ClosedU.vos Infer/ClosedU.vok Infer/ClosedU.required_vos: Infer/ClosedU.v Ir/Syntax.vos Ir/Fold.vos Infer/Table.vos Infer/Unify.vos Infer/Variance.vos Infer/Closed.vos Infer/Sym.vos Infer/Sound.vos
Infer/Complete.vo Infer/Complete.glob Infer/Complete.v.beautified Infer/Complete.required_vo: Infer/Complete.v Ir/Syntax.vo Ir/Fold.vo Infer/Table.vo Infer/Unify.vo Infer/Closed.vo Infer/Sym.vo Infer/Sound.vo
Infer/Complete.vio: Infer/Complete.v Ir/Syntax.vio Ir/Fold.vio Infer/Table.vio Infer/Unify.vio Infer/Closed.vio Infer/Sym.vio Infer/Sound.vio
Infer/Complete.vos Infer/Complete.vok Infer/Complete.required_vos: Infer/Complete.v Ir/Syntax.vos Ir/Fold.vos Infer/Table.vos Infer/Unify.vos Infer/Closed.vos Infer/Sym.vos Infer/Sound.vos
Infer/Complete2.vo Infer/Complete2.glob Infer/Complete2.v.beautified Infer/Complete2.required_vo: Infer/Complete2.v Ir/Syntax.vo Ir/Fold.vo Infer/Table.vo Infer/Unify.vo Infer/Closed.vo Infer/Sym.vo Infer/Sound.vo Infer/Complete.vo
Infer/Complete2.vio: Infer/Complete2.v Ir/Syntax.vio Ir/Fold.vio Infer/Table.vio Infer/Unify.vio Infer/Closed.vio Infer/Sym.vio Infer/Sound.vio Infer/Complete.vio
Infer/Complete2.vos Infer/Complete2.vok Infer/Complete2.required_vos: Infer/Complete2.v Ir/Syntax.vos Ir/Fold.vos Infer/Table.vos Infer/Unify.vos Infer/Closed.vos Infer/Sym.vos Infer/Sound.vos Infer/Complete.vos
Infer/Complete3.vo Infer/Complete3.glob Infer/Complete3.v.beautified Infer/Complete3.required_vo: Infer/Complete3.v Ir/Syntax.vo Ir/Fold.vo Infer/Table.vo Infer/Unify.vo Infer/Closed.vo Infer/Sym.vo Infer/Sound.vo Infer/Complete.vo Infer/Complete2.vo
Infer/Complete3.vio: Infer/Complete3.v Ir/Syntax.vio Ir/Fold.vio Infer/Table.vio Infer/Unify.vio Infer/Closed.vio Infer/Sym.vio Infer/Sound.vio Infer/Complete.vio Infer/Complete2.vio
Infer/Complete3.vos Infer/Complete3.vok Infer/Complete3.required_vos: Infer/Complete3.v Ir/Syntax.vos Ir/Fold.vos Infer/Table.vos Infer/Unify.vos Infer/Closed.vos Infer/Sym.vos Infer/Sound.vos Infer/Complete.vos Infer/Complete2.vos
Infer/Complete4.vo Infer/Complete4.glob Infer/Complete4.v.beautified Infer/Complete4.required_vo: Infer/Complete4.v Ir/Syntax.vo Ir/Fold.vo Infer/Table.vo Infer/Unify.vo Infer/Closed.vo Infer/Sym.vo Infer/Sound.vo Infer/Complete.vo Infer/Complete2.vo
Infer/Complete4.vio: Infer/Complete4.v Ir/Syntax.vio Ir/Fold.vio Infer/Table.vio Infer/Unify.vio Infer/Closed.vio Infer/Sym.vio Infer/Sound.vio Infer/Complete.vio Infer/Complete2.vio
Infer/Complete4.vos Infer/Complete4.vok Infer/Complete4.required_vos: Infer/Complete4.v Ir/Syntax.vos Ir/Fold.vos Infer/Table.vos Infer/Unify.vos Infer/Closed.vos Infer/Sym.vos Infer/Sound.vos Infer/Complete.vos Infer/Complete2.vos
Infer/Complete5.vo Infer/Complete5.glob Infer/Complete5.v.beautified Infer/Complete5.required_vo: Infer/Complete5.v Ir/Syntax.vo Ir/Fold.vo Infer/Table.vo Infer/Unify.vo Infer/Closed.vo Infer/Sym.vo Infer/Sound.vo Infer/Complete.vo Infer/Complete2.vo Infer/Complete3.vo Infer/Complete4.vo
Infer/Complete5.vio: Infer/Complete5.v Ir/Syntax.vio Ir/Fold.vio Infer/Table.vio Infer/Unify.vio Infer/Closed.vio Infer/Sym.vio Infer/Sound.vio Infer/Complete.vio Infer/Complete2.vio Infer/Complete3.vio Infer/Complete4.vio
Infer/Complete5.vos Infer/Complete5.vok Infer/Complete5.required_vos: Infer/Complete5.v Ir/Syntax.vos Ir/Fold.vos Infer/Table.vos Infer/Unify.vos Infer/Closed.vos Infer/Sym.vos Infer/Sound.vos Infer/Complete.vos Infer/Complete2.vos Infer/Complete3.vos Infer/Complete4.vos
Infer/Exact.vo Infer/Exact.glob Infer/Exact.v.beautified Infer/Exact.required_vo: Infer/Exact.v Ir/Syntax.vo Ir/Fold.vo Infer/Table.vo Infer/Unify.vo Infer/Closed.vo Infer/Sym.vo Infer/Sound.vo Infer/Complete.vo Infer/Complete2.vo Infer/Complete3.vo
Infer/Exact.vio: Infer/Exact.v Ir/Syntax.vio Ir/Fold.vio Infer/Table.vio Infer/Unify.vio Infer/Closed.vio Infer/Sym.vio Infer/Sound.vio Infer/Complete.vio Infer/Complete2.vio Infer/Complete3.vio
Infer/Exact.vos Infer/Exact.vok Infer/Exact.required_vos: Infer/Exact.v Ir/Syntax.vos Ir/Fold.vos Infer/Table.vos Infer/Unify.vos Infer/Closed.vos Infer/Sym.vos Infer/Sound.vos Infer/Complete.vos Infer/Complete2.vos Infer/Complete3.vos
Infer/Exec.vo Infer/Exec.glob Infer/Exec.v.beautified Infer/Exec.required_vo: Infer/Exec.v Ir/Syntax.vo Ir/Fold.vo Infer/Canon.vo Infer/UCanon.vo Infer/Answer.vo Infer/Invert.vo
Infer/Exec.vio: Infer/Exec.v Ir/Syntax.vio Ir/Fold.vio Infer/Canon.vio Infer/UCanon.vio Infer/Answer.vio Infer/Invert.vio
Infer/Exec.vos Infer/Exec.vok Infer/Exec.required_vos: Infer/Exec.v Ir/Syntax.vos Ir/Fold.vos Infer/Canon.vos Infer/UCanon.vos Infer/Answer.vos Infer/Invert.vos
Infer/Invert.vo Infer/Invert.glob Infer/Invert.v.beautified Infer/Invert.required_vo: Infer/Invert.v Ir/Syntax.vo Ir/Fold.vo Infer/Canon.vo Infer/UCanon.vo
Infer/Invert.vio: Infer/Invert.v Ir/Syntax.vio Ir/Fold.vio Infer/Canon.vio Infer/UCanon.vio
Infer/Invert.vos Infer/Invert.vok Infer/Invert.required_vos: Infer/Invert.v Ir/Syntax.vos Ir/Fold.vos Infer/Canon.vos Infer/UCanon.vos
Infer/Script.vo Infer/Script.glob Infer/Script.v.beautified Infer/Script.required_vo: Infer/Script.v Ir/Syntax.vo Ir/Fold.vo Infer/Table.vo Infer/Unify.vo
Infer/Script.vio: Infer/Script.v Ir/Syntax.vio Ir/Fold.vio Infer/Table.vio Infer/Unify.vio
Infer/Script.vos Infer/Script.vok Infer/Script.required_vos: Infer/Script.v Ir/Syntax.vos Ir/Fold.vos Infer/Table.vos Infer/Unify.vos
Infer/Sound.vo Infer/Sound.glob Infer/Sound.v.beautified Infer/Sound.required_vo: Infer/Sound.v Ir/Syntax.vo Ir/Fold.vo Infer/Table.vo Infer/Unify.vo Infer/Sym.vo
Infer/Sound.vio: Infer/Sound.v Ir/Syntax.vio Ir/Fold.vio Infer/Table.vio Infer/Unify.vio Infer/Sym.vio
Infer/Sound.vos Infer/Sound.vok Infer/Sound.required_vos: Infer/Sound.v Ir/Syntax.vos Ir/Fold.vos Infer/Table.vos Infer/Unify.vos Infer/Sym.vos
Infer/Sym.vo Infer/Sym.glob Infer/Sym.v.beautified Infer/Sym.required_vo: Infer/Sym.v Ir/Syntax.vo Ir/Fold.vo Infer/Table.vo Infer/Unify.vo
Infer/Sym.vio: Infer/Sym.v Ir/Syntax.vio Ir/Fold.vio Infer/Table.vio Infer/Unify.vio
Infer/Sym.vos Infer/Sym.vok Infer/Sym.required_vos: Infer/Sym.v Ir/Syntax.vos Ir/Fold.vos Infer/Table.vos Infer/Unify.vos
Infer/Table.vo Infer/Table.glob Infer/Table.v.beautified Infer/Table.required_vo: Infer/Table.v Ir/Syntax.vo
Infer/Table.vio: Infer/Table.v Ir/Syntax.vio
Infer/Table.vos Infer/Table.vok Infer/Table.required_vos: Infer/Table.v Ir/Syntax.vos
Infer/UCanon.vo Infer/UCanon.glob Infer/UCanon.v.beautified Infer/UCanon.required_vo: Infer/UCanon.v Ir/Syntax.vo Ir/Fold.vo Infer/Canon.vo
Infer/UCanon.vio: Infer/UCanon.v Ir/Syntax.vio Ir/Fold.vio Infer/Canon.vio
Infer/UCanon.vos Infer/UCanon.vok Infer/UCanon.required_vos: Infer/UCanon.v Ir/Syntax.vos Ir/Fold.vos Infer/Canon.vos
Infer/Unify.vo Infer/Unify.glob Infer/Unify.v.beautified Infer/Unify.required_vo: Infer/Unify.v Ir/Syntax.vo Ir/Fold.vo Infer/Table.vo
Infer/Unify.vio: Infer/Unify.v Ir/Syntax.vio Ir/Fold.vio Infer/Table.vio
Infer/Unify.vos Infer/Unify.vok Infer/Unify.required_vos: Infer/Unify.v Ir/Syntax.vos Ir/Fold.vos Infer/Table.vos
Infer/Variance.vo Infer/Variance.glob Infer/Variance.v.beautified Infer/Variance.required_vo: Infer/Variance.v Ir/Syntax.vo Ir/Fold.vo Infer/Table.vo Infer/Unify.vo
Infer/Variance.vio: Infer/Variance.v Ir/Syntax.vio Ir/Fold.vio Infer/Table.vio Infer/Unify.vio
Infer/Variance.vos Infer/Variance.vok Infer/Variance.required_vos: Infer/Variance.v Ir/Syntax.vos Ir/Fold.vos Infer/Table.vos Infer/Unify.vos
Infer/VarianceU.vo Infer/VarianceU.glob Infer/VarianceU.v.beautified Infer/VarianceU.required_vo: Infer/VarianceU.v Ir/Syntax.vo Ir/Fold.vo Infer/Table.vo Infer/Unify.vo Infer/Script.vo Infer/Variance.vo Infer/Closed.vo
Infer/VarianceU.vio: Infer/VarianceU.v Ir/Syntax.vio Ir/Fold.vio Infer/Table.vio Infer/Unify.vio Infer/Script.vio Infer/Variance.vio Infer/Closed.vio
Infer/VarianceU.vos Infer/VarianceU.vok Infer/VarianceU.required_vos: Infer/VarianceU.v Ir/Syntax.vos Ir/Fold.vos Infer/Table.vos Infer/Unify.vos Infer/Script.vos Infer/Variance.vos Infer/Closed.vos
Ir/CouldMatch.vo Ir/CouldMatch.glob Ir/CouldMatch.v.beautified Ir/CouldMatch.required_vo: Ir/CouldMatch.v Ir/Syntax.vo Ir/Fold.vo
Ir/CouldMatch.vio: Ir/CouldMatch.v Ir/Syntax.vio Ir/Fold.vio
Ir/CouldMatch.vos Ir/CouldMatch.vok Ir/CouldMatch.required_vos: Ir/CouldMatch.v Ir/Syntax.vos Ir/Fold.vos
Ir/Flags.vo Ir/Flags.glob Ir/Flags.v.beautified Ir/Flags.required_vo: Ir/Flags.v Ir/Syntax.vo Ir/Fold.vo
Ir/Flags.vio: Ir/Flags.v Ir/Syntax.vio Ir/Fold.vio
Ir/Flags.vos Ir/Flags.vok Ir/Flags.required_vos: Ir/Flags.v Ir/Syntax.vos Ir/Fold.vos
Ir/Fold.vo Ir/Fold.glob Ir/Fold.v.beautified Ir/Fold.required_vo: Ir/Fold.v Ir/Syntax.vo
Ir/Fold.vio: Ir/Fold.v Ir/Syntax.vio
Ir/Fold.vos Ir/Fold.vok Ir/Fold.required_vos: Ir/Fold.v Ir/Syntax.vos
Ir/Syntax.vo Ir/Syntax.glob Ir/Syntax.v.beautified Ir/Syntax.required_vo: Ir/Syntax.v 
Ir/Syntax.vio: Ir/Syntax.v 
Ir/Syntax.vos Ir/Syntax.vok Ir/Syntax.required_vos: Ir/Syntax.v 
Logic/Classes.vo Logic/Classes.glob Logic/Classes.v.beautified Logic/Classes.required_vo: Logic/Classes.v Logic/Contract.vo
Logic/Classes.vio: Logic/Classes.v Logic/Contract.vio
Logic/Classes.vos Logic/Classes.vok Logic/Classes.required_vos: Logic/Classes.v Logic/Contract.vos
Logic/Contract.vo Logic/Contract.glob Logic/Contract.v.beautified Logic/Contract.required_vo: Logic/Contract.v Logic/Ground.vo
Logic/Contract.vio: Logic/Contract.v Logic/Ground.vio
Logic/Contract.vos Logic/Contract.vok Logic/Contract.required_vos: Logic/Contract.v Logic/Ground.vos
Logic/Decide.vo Logic/Decide.glob Logic/Decide.v.beautified Logic/Decide.required_vo: Logic/Decide.v Logic/Meta.vo
Logic/Decide.vio: Logic/Decide.v Logic/Meta.vio
Logic/Decide.vos Logic/Decide.vok Logic/Decide.required_vos: Logic/Decide.v Logic/Meta.vos
Logic/Fuel.vo Logic/Fuel.glob Logic/Fuel.v.beautified Logic/Fuel.required_vo: Logic/Fuel.v Logic/Ground.vo
Logic/Fuel.vio: Logic/Fuel.v Logic/Ground.vio
Logic/Fuel.vos Logic/Fuel.vok Logic/Fuel.required_vos: Logic/Fuel.v Logic/Ground.vos
Logic/Ground.vo Logic/Ground.glob Logic/Ground.v.beautified Logic/Ground.required_vo: Logic/Ground.v Logic/Sem.vo
Logic/Ground.vio: Logic/Ground.v Logic/Sem.vio
Logic/Ground.vos Logic/Ground.vok Logic/Ground.required_vos: Logic/Ground.v Logic/Sem.vos
Logic/Inv.vo Logic/Inv.glob Logic/Inv.v.beautified Logic/Inv.required_vo: Logic/Inv.v Logic/Meta.vo
Logic/Inv.vio: Logic/Inv.v Logic/Meta.vio
Logic/Inv.vos Logic/Inv.vok Logic/Inv.required_vos: Logic/Inv.v Logic/Meta.vos
Logic/Meta.vo Logic/Meta.glob Logic/Meta.v.beautified Logic/Meta.required_vo: Logic/Meta.v Logic/Contract.vo
Logic/Meta.vio: Logic/Meta.v Logic/Contract.vio
Logic/Meta.vos Logic/Meta.vok Logic/Meta.required_vos: Logic/Meta.v Logic/Contract.vos
Logic/Perm.vo Logic/Perm.glob Logic/Perm.v.beautified Logic/Perm.required_vo: Logic/Perm.v Logic/Contract.vo
Logic/Perm.vio: Logic/Perm.v Logic/Contract.vio
Logic/Perm.vos Logic/Perm.vok Logic/Perm.required_vos: Logic/Perm.v Logic/Contract.vos
Logic/Program.vo Logic/Program.glob Logic/Program.v.beautified Logic/Program.required_vo: Logic/Program.v 
Logic/Program.vio: Logic/Program.v 
Logic/Program.vos Logic/Program.vok Logic/Program.required_vos: Logic/Program.v 
Logic/Restrict.vo Logic/Restrict.glob Logic/Restrict.v.beautified Logic/Restrict.required_vo: Logic/Restrict.v Logic/Ground.vo
Logic/Restrict.vio: Logic/Restrict.v Logic/Ground.vio
Logic/Restrict.vos Logic/Restrict.vok Logic/Restrict.required_vos: Logic/Restrict.v Logic/Ground.vos
Logic/Sem.vo Logic/Sem.glob Logic/Sem.v.beautified Logic/Sem.required_vo: Logic/Sem.v Logic/Program.vo
Logic/Sem.vio: Logic/Sem.v Logic/Program.vio
Logic/Sem.vos Logic/Sem.vok Logic/Sem.required_vos: Logic/Sem.v Logic/Program.vos
Mem/InPlace.vo Mem/InPlace.glob Mem/InPlace.v.beautified Mem/InPlace.required_vo: Mem/InPlace.v 
Mem/InPlace.vio: Mem/InPlace.v 
Mem/InPlace.vos Mem/InPlace.vok Mem/InPlace.required_vos: Mem/InPlace.v 
Props/C01.vo Props/C01.glob Props/C01.v.beautified Props/C01.required_vo: Props/C01.v Logic/Contract.vo Logic/Meta.vo Logic/Fuel.vo Logic/Decide.vo Logic/Classes.vo Logic/Inv.vo
Props/C01.vio: Props/C01.v Logic/Contract.vio Logic/Meta.vio Logic/Fuel.vio Logic/Decide.vio Logic/Classes.vio Logic/Inv.vio
Props/C01.vos Props/C01.vok Props/C01.required_vos: Props/C01.v Logic/Contract.vos Logic/Meta.vos Logic/Fuel.vos Logic/Decide.vos Logic/Classes.vos Logic/Inv.vos
Props/C02.vo Props/C02.glob Props/C02.v.beautified Props/C02.required_vo: Props/C02.v Logic/Contract.vo Logic/Fuel.vo Logic/Inv.vo
Props/C02.vio: Props/C02.v Logic/Contract.vio Logic/Fuel.vio Logic/Inv.vio
Props/C02.vos Props/C02.vok Props/C02.required_vos: Props/C02.v Logic/Contract.vos Logic/Fuel.vos Logic/Inv.vos
Props/C03.vo Props/C03.glob Props/C03.v.beautified Props/C03.required_vo: Props/C03.v Engine/SlgTable.vo
Props/C03.vio: Props/C03.v Engine/SlgTable.vio
Props/C03.vos Props/C03.vok Props/C03.required_vos: Props/C03.v Engine/SlgTable.vos
Props/C04.vo Props/C04.glob Props/C04.v.beautified Props/C04.required_vo: Props/C04.v Logic/Contract.vo
Props/C04.vio: Props/C04.v Logic/Contract.vio
Props/C04.vos Props/C04.vok Props/C04.required_vos: Props/C04.v Logic/Contract.vos
Props/C05.vo Props/C05.glob Props/C05.v.beautified Props/C05.required_vo: Props/C05.v Rules/Builtin.vo
Props/C05.vio: Props/C05.v Rules/Builtin.vio
Props/C05.vos Props/C05.vok Props/C05.required_vos: Props/C05.v Rules/Builtin.vos
Props/C06.vo Props/C06.glob Props/C06.v.beautified Props/C06.required_vo: Props/C06.v Rules/EnvElab.vo
Props/C06.vio: Props/C06.v Rules/EnvElab.vio
Props/C06.vos Props/C06.vok Props/C06.required_vos: Props/C06.v Rules/EnvElab.vos
Props/C07.vo Props/C07.glob Props/C07.v.beautified Props/C07.required_vo: Props/C07.v Rules/Assoc.vo
Props/C07.vio: Props/C07.v Rules/Assoc.vio
Props/C07.vos Props/C07.vok Props/C07.required_vos: Props/C07.v Rules/Assoc.vos
Props/C08.vo Props/C08.glob Props/C08.v.beautified Props/C08.required_vo: Props/C08.v Rules/Builtin.vo
Props/C08.vio: Props/C08.v Rules/Builtin.vio
Props/C08.vos Props/C08.vok Props/C08.required_vos: Props/C08.v Rules/Builtin.vos
Props/C09.vo Props/C09.glob Props/C09.v.beautified Props/C09.required_vo: Props/C09.v Engine/RecFuelLoops.vo
Props/C09.vio: Props/C09.v Engine/RecFuelLoops.vio
Props/C09.vos Props/C09.vok Props/C09.required_vos: Props/C09.v Engine/RecFuelLoops.vos
Props/C10.vo Props/C10.glob Props/C10.v.beautified Props/C10.required_vo: Props/C10.v Engine/SlgForest.vo Engine/RecTheorems.vo Engine/AndOrEval.vo
Props/C10.vio: Props/C10.v Engine/SlgForest.vio Engine/RecTheorems.vio Engine/AndOrEval.vio
Props/C10.vos Props/C10.vok Props/C10.required_vos: Props/C10.v Engine/SlgForest.vos Engine/RecTheorems.vos Engine/AndOrEval.vos
Props/C11.vo Props/C11.glob Props/C11.v.beautified Props/C11.required_vo: Props/C11.v Engine/RecTheorems.vo
Props/C11.vio: Props/C11.v Engine/RecTheorems.vio
Props/C11.vos Props/C11.vok Props/C11.required_vos: Props/C11.v Engine/RecTheorems.vos
Props/C12.vo Props/C12.glob Props/C12.v.beautified Props/C12.required_vo: Props/C12.v Engine/RecTheorems.vo
Props/C12.vio: Props/C12.v Engine/RecTheorems.vio
Props/C12.vos Props/C12.vok Props/C12.required_vos: Props/C12.v Engine/RecTheorems.vos
Props/C13.vo Props/C13.glob Props/C13.v.beautified Props/C13.required_vo: Props/C13.v Logic/Perm.vo
Props/C13.vio: Props/C13.v Logic/Perm.vio
Props/C13.vos Props/C13.vok Props/C13.required_vos: Props/C13.v Logic/Perm.vos
Props/C14.vo Props/C14.glob Props/C14.v.beautified Props/C14.required_vo: Props/C14.v Ir/Syntax.vo Infer/Table.vo Infer/Unify.vo Infer/Sound.vo Infer/Complete.vo Infer/Complete2.vo Infer/Complete3.vo Infer/Complete4.vo Infer/Complete5.vo Infer/Exact.vo
Props/C14.vio: Props/C14.v Ir/Syntax.vio Infer/Table.vio Infer/Unify.vio Infer/Sound.vio Infer/Complete.vio Infer/Complete2.vio Infer/Complete3.vio Infer/Complete4.vio Infer/Complete5.vio Infer/Exact.vio
Props/C14.vos Props/C14.vok Props/C14.required_vos: Props/C14.v Ir/Syntax.vos Infer/Table.vos Infer/Unify.vos Infer/Sound.vos Infer/Complete.vos Infer/Complete2.vos Infer/Complete3.vos Infer/Complete4.vos Infer/Complete5.vos Infer/Exact.vos
Props/C15.vo Props/C15.glob Props/C15.v.beautified Props/C15.required_vo: Props/C15.v Ir/Syntax.vo Infer/Table.vo Infer/Unify.vo Infer/Sym.vo
Props/C15.vio: Props/C15.v Ir/Syntax.vio Infer/Table.vio Infer/Unify.vio Infer/Sym.vio
Props/C15.vos Props/C15.vok Props/C15.required_vos: Props/C15.v Ir/Syntax.vos Infer/Table.vos Infer/Unify.vos Infer/Sym.vos
Props/C16.vo Props/C16.glob Props/C16.v.beautified Props/C16.required_vo: Props/C16.v Ir/Syntax.vo Ir/Fold.vo Infer/Canon.vo Infer/UCanon.vo Infer/Invert.vo
Props/C16.vio: Props/C16.v Ir/Syntax.vio Ir/Fold.vio Infer/Canon.vio Infer/UCanon.vio Infer/Invert.vio
Props/C16.vos Props/C16.vok Props/C16.required_vos: Props/C16.v Ir/Syntax.vos Ir/Fold.vos Infer/Canon.vos Infer/UCanon.vos Infer/Invert.vos
Props/C17.vo Props/C17.glob Props/C17.v.beautified Props/C17.required_vo: Props/C17.v Ir/Syntax.vo Ir/Fold.vo Agg/Instance.vo Agg/AntiUnify.vo Agg/MayInv.vo Agg/Solution.vo Agg/Loop.vo
Props/C17.vio: Props/C17.v Ir/Syntax.vio Ir/Fold.vio Agg/Instance.vio Agg/AntiUnify.vio Agg/MayInv.vio Agg/Solution.vio Agg/Loop.vio
Props/C17.vos Props/C17.vok Props/C17.required_vos: Props/C17.v Ir/Syntax.vos Ir/Fold.vos Agg/Instance.vos Agg/AntiUnify.vos Agg/MayInv.vos Agg/Solution.vos Agg/Loop.vos
Props/C18.vo Props/C18.glob Props/C18.v.beautified Props/C18.required_vo: Props/C18.v Ir/Syntax.vo Ir/CouldMatch.vo
Props/C18.vio: Props/C18.v Ir/Syntax.vio Ir/CouldMatch.vio
Props/C18.vos Props/C18.vok Props/C18.required_vos: Props/C18.v Ir/Syntax.vos Ir/CouldMatch.vos
Props/C19.vo Props/C19.glob Props/C19.v.beautified Props/C19.required_vo: Props/C19.v Check/Priorities.vo
Props/C19.vio: Props/C19.v Check/Priorities.vio
Props/C19.vos Props/C19.vok Props/C19.required_vos: Props/C19.v Check/Priorities.vos
Props/C20.vo Props/C20.glob Props/C20.v.beautified Props/C20.required_vo: Props/C20.v Rules/Orphan.vo
Props/C20.vio: Props/C20.v Rules/Orphan.vio
Props/C20.vos Props/C20.vok Props/C20.required_vos: Props/C20.v Rules/Orphan.vos
Props/C21.vo Props/C21.glob Props/C21.v.beautified Props/C21.required_vo: Props/C21.v Rules/Wf.vo
Props/C21.vio: Props/C21.v Rules/Wf.vio
Props/C21.vos Props/C21.vok Props/C21.required_vos: Props/C21.v Rules/Wf.vos
Props/C22.vo Props/C22.glob Props/C22.v.beautified Props/C22.required_vo: Props/C22.v Text/Syntax22.vo Text/Print.vo Text/Parse.vo Text/RoundTripAst.vo Text/RoundTripIr.vo Text/RoundTrip.vo Text/Fuel.vo
Props/C22.vio: Props/C22.v Text/Syntax22.vio Text/Print.vio Text/Parse.vio Text/RoundTripAst.vio Text/RoundTripIr.vio Text/RoundTrip.vio Text/Fuel.vio
Props/C22.vos Props/C22.vok Props/C22.required_vos: Props/C22.v Text/Syntax22.vos Text/Print.vos Text/Parse.vos Text/RoundTripAst.vos Text/RoundTripIr.vos Text/RoundTrip.vos Text/Fuel.vos
Props/C23.vo Props/C23.glob Props/C23.v.beautified Props/C23.required_vo: Props/C23.v Logic/Restrict.vo
Props/C23.vio: Props/C23.v Logic/Restrict.vio
Props/C23.vos Props/C23.vok Props/C23.required_vos: Props/C23.v Logic/Restrict.vos
Props/C24.vo Props/C24.glob Props/C24.v.beautified Props/C24.required_vo: Props/C24.v Text/LowerFail.vo Text/LowerFailFacts.vo
Props/C24.vio: Props/C24.v Text/LowerFail.vio Text/LowerFailFacts.vio
Props/C24.vos Props/C24.vok Props/C24.required_vos: Props/C24.v Text/LowerFail.vos Text/LowerFailFacts.vos
Props/C25.vo Props/C25.glob Props/C25.v.beautified Props/C25.required_vo: Props/C25.v Ir/Syntax.vo Ir/Fold.vo
Props/C25.vio: Props/C25.v Ir/Syntax.vio Ir/Fold.vio
Props/C25.vos Props/C25.vok Props/C25.required_vos: Props/C25.v Ir/Syntax.vos Ir/Fold.vos
Props/C26.vo Props/C26.glob Props/C26.v.beautified Props/C26.required_vo: Props/C26.v Ir/Syntax.vo Ir/Flags.vo
Props/C26.vio: Props/C26.v Ir/Syntax.vio Ir/Flags.vio
Props/C26.vos Props/C26.vok Props/C26.required_vos: Props/C26.v Ir/Syntax.vos Ir/Flags.vos
Props/C27.vo Props/C27.glob Props/C27.v.beautified Props/C27.required_vo: Props/C27.v Mem/InPlace.vo
Props/C27.vio: Props/C27.v Mem/InPlace.vio
Props/C27.vos Props/C27.vok Props/C27.required_vos: Props/C27.v Mem/InPlace.vos
Props/C28.vo Props/C28.glob Props/C28.v.beautified Props/C28.required_vo: Props/C28.v Ir/Syntax.vo Ir/Fold.vo Infer/Canon.vo Infer/Answer.vo Agg/Instance.vo Agg/AntiUnify.vo Infer/AnswerWf.vo
Props/C28.vio: Props/C28.v Ir/Syntax.vio Ir/Fold.vio Infer/Canon.vio Infer/Answer.vio Agg/Instance.vio Agg/AntiUnify.vio Infer/AnswerWf.vio
Props/C28.vos Props/C28.vok Props/C28.required_vos: Props/C28.v Ir/Syntax.vos Ir/Fold.vos Infer/Canon.vos Infer/Answer.vos Agg/Instance.vos Agg/AntiUnify.vos Infer/AnswerWf.vos
Props/C29.vo Props/C29.glob Props/C29.v.beautified Props/C29.required_vo: Props/C29.v Ir/Syntax.vo Infer/Table.vo Infer/Unify.vo Infer/Variance.vo Infer/Closed.vo Infer/ClosedU.vo
Props/C29.vio: Props/C29.v Ir/Syntax.vio Infer/Table.vio Infer/Unify.vio Infer/Variance.vio Infer/Closed.vio Infer/ClosedU.vio
Props/C29.vos Props/C29.vok Props/C29.required_vos: Props/C29.v Ir/Syntax.vos Infer/Table.vos Infer/Unify.vos Infer/Variance.vos Infer/Closed.vos Infer/ClosedU.vos
Rules/Assoc.vo Rules/Assoc.glob Rules/Assoc.v.beautified Rules/Assoc.required_vo: Rules/Assoc.v Logic/Contract.vo Agg/Solution.vo
Rules/Assoc.vio: Rules/Assoc.v Logic/Contract.vio Agg/Solution.vio
Rules/Assoc.vos Rules/Assoc.vok Rules/Assoc.required_vos: Rules/Assoc.v Logic/Contract.vos Agg/Solution.vos
Rules/Auto.vo Rules/Auto.glob Rules/Auto.v.beautified Rules/Auto.required_vo: Rules/Auto.v Rules/Types.vo
Rules/Auto.vio: Rules/Auto.v Rules/Types.vio
Rules/Auto.vos Rules/Auto.vok Rules/Auto.required_vos: Rules/Auto.v Rules/Types.vos
Rules/Builtin.vo Rules/Builtin.glob Rules/Builtin.v.beautified Rules/Builtin.required_vo: Rules/Builtin.v Rules/Auto.vo
Rules/Builtin.vio: Rules/Builtin.v Rules/Auto.vio
Rules/Builtin.vos Rules/Builtin.vok Rules/Builtin.required_vos: Rules/Builtin.v Rules/Auto.vos
Rules/EnvElab.vo Rules/EnvElab.glob Rules/EnvElab.v.beautified Rules/EnvElab.required_vo: Rules/EnvElab.v Logic/Perm.vo
Rules/EnvElab.vio: Rules/EnvElab.v Logic/Perm.vio
Rules/EnvElab.vos Rules/EnvElab.vok Rules/EnvElab.required_vos: Rules/EnvElab.v Logic/Perm.vos
Rules/Orphan.vo Rules/Orphan.glob Rules/Orphan.v.beautified Rules/Orphan.required_vo: Rules/Orphan.v 
Rules/Orphan.vio: Rules/Orphan.v 
Rules/Orphan.vos Rules/Orphan.vok Rules/Orphan.required_vos: Rules/Orphan.v 
Rules/Types.vo Rules/Types.glob Rules/Types.v.beautified Rules/Types.required_vo: Rules/Types.v Logic/Program.vo Logic/Sem.vo Logic/Ground.vo
Rules/Types.vio: Rules/Types.v Logic/Program.vio Logic/Sem.vio Logic/Ground.vio
Rules/Types.vos Rules/Types.vok Rules/Types.required_vos: Rules/Types.v Logic/Program.vos Logic/Sem.vos Logic/Ground.vos
Rules/Wf.vo Rules/Wf.glob Rules/Wf.v.beautified Rules/Wf.required_vo: Rules/Wf.v Rules/EnvElab.vo
Rules/Wf.vio: Rules/Wf.v Rules/EnvElab.vio
Rules/Wf.vos Rules/Wf.vok Rules/Wf.required_vos: Rules/Wf.v Rules/EnvElab.vos
Text/Fuel.vo Text/Fuel.glob Text/Fuel.v.beautified Text/Fuel.required_vo: Text/Fuel.v Text/Syntax22.vo Text/TokEq.vo Text/Print.vo Text/Parse.vo Text/RoundTripAst.vo Text/RoundTripIr.vo Text/RoundTrip.vo
Text/Fuel.vio: Text/Fuel.v Text/Syntax22.vio Text/TokEq.vio Text/Print.vio Text/Parse.vio Text/RoundTripAst.vio Text/RoundTripIr.vio Text/RoundTrip.vio
Text/Fuel.vos Text/Fuel.vok Text/Fuel.required_vos: Text/Fuel.v Text/Syntax22.vos Text/TokEq.vos Text/Print.vos Text/Parse.vos Text/RoundTripAst.vos Text/RoundTripIr.vos Text/RoundTrip.vos
Text/LowerFail.vo Text/LowerFail.glob Text/LowerFail.v.beautified Text/LowerFail.required_vo: Text/LowerFail.v 
Text/LowerFail.vio: Text/LowerFail.v 
Text/LowerFail.vos Text/LowerFail.vok Text/LowerFail.required_vos: Text/LowerFail.v 
Text/LowerFailFacts.vo Text/LowerFailFacts.glob Text/LowerFailFacts.v.beautified Text/LowerFailFacts.required_vo: Text/LowerFailFacts.v Text/LowerFail.vo
Text/LowerFailFacts.vio: Text/LowerFailFacts.v Text/LowerFail.vio
Text/LowerFailFacts.vos Text/LowerFailFacts.vok Text/LowerFailFacts.required_vos: Text/LowerFailFacts.v Text/LowerFail.vos
Text/LowerFailRun.vo Text/LowerFailRun.glob Text/LowerFailRun.v.beautified Text/LowerFailRun.required_vo: Text/LowerFailRun.v Text/LowerFail.vo
Text/LowerFailRun.vio: Text/LowerFailRun.v Text/LowerFail.vio
Text/LowerFailRun.vos Text/LowerFailRun.vok Text/LowerFailRun.required_vos: Text/LowerFailRun.v Text/LowerFail.vos
Text/Parse.vo Text/Parse.glob Text/Parse.v.beautified Text/Parse.required_vo: Text/Parse.v Text/Syntax22.vo Text/TokEq.vo
Text/Parse.vio: Text/Parse.v Text/Syntax22.vio Text/TokEq.vio
Text/Parse.vos Text/Parse.vok Text/Parse.required_vos: Text/Parse.v Text/Syntax22.vos Text/TokEq.vos
Text/Print.vo Text/Print.glob Text/Print.v.beautified Text/Print.required_vo: Text/Print.v Text/Syntax22.vo
Text/Print.vio: Text/Print.v Text/Syntax22.vio
Text/Print.vos Text/Print.vok Text/Print.required_vos: Text/Print.v Text/Syntax22.vos
Text/RoundTrip.vo Text/RoundTrip.glob Text/RoundTrip.v.beautified Text/RoundTrip.required_vo: Text/RoundTrip.v Text/Syntax22.vo Text/TokEq.vo Text/Print.vo Text/Parse.vo Text/RoundTripAst.vo Text/RoundTripIr.vo
Text/RoundTrip.vio: Text/RoundTrip.v Text/Syntax22.vio Text/TokEq.vio Text/Print.vio Text/Parse.vio Text/RoundTripAst.vio Text/RoundTripIr.vio
Text/RoundTrip.vos Text/RoundTrip.vok Text/RoundTrip.required_vos: Text/RoundTrip.v Text/Syntax22.vos Text/TokEq.vos Text/Print.vos Text/Parse.vos Text/RoundTripAst.vos Text/RoundTripIr.vos
Text/RoundTripAst.vo Text/RoundTripAst.glob Text/RoundTripAst.v.beautified Text/RoundTripAst.required_vo: Text/RoundTripAst.v Text/Syntax22.vo Text/TokEq.vo Text/Print.vo Text/Parse.vo
Text/RoundTripAst.vio: Text/RoundTripAst.v Text/Syntax22.vio Text/TokEq.vio Text/Print.vio Text/Parse.vio
Text/RoundTripAst.vos Text/RoundTripAst.vok Text/RoundTripAst.required_vos: Text/RoundTripAst.v Text/Syntax22.vos Text/TokEq.vos Text/Print.vos Text/Parse.vos
Text/RoundTripIr.vo Text/RoundTripIr.glob Text/RoundTripIr.v.beautified Text/RoundTripIr.required_vo: Text/RoundTripIr.v Text/Syntax22.vo Text/TokEq.vo Text/Print.vo Text/Parse.vo
Text/RoundTripIr.vio: Text/RoundTripIr.v Text/Syntax22.vio Text/TokEq.vio Text/Print.vio Text/Parse.vio
Text/RoundTripIr.vos Text/RoundTripIr.vok Text/RoundTripIr.required_vos: Text/RoundTripIr.v Text/Syntax22.vos Text/TokEq.vos Text/Print.vos Text/Parse.vos
Text/Syntax22.vo Text/Syntax22.glob Text/Syntax22.v.beautified Text/Syntax22.required_vo: Text/Syntax22.v 
Text/Syntax22.vio: Text/Syntax22.v 
Text/Syntax22.vos Text/Syntax22.vok Text/Syntax22.required_vos: Text/Syntax22.v 
Text/TokEq.vo Text/TokEq.glob Text/TokEq.v.beautified Text/TokEq.required_vo: Text/TokEq.v Text/Syntax22.vo
Text/TokEq.vio: Text/TokEq.v Text/Syntax22.vio
Text/TokEq.vos Text/TokEq.vok Text/TokEq.required_vos: Text/TokEq.v Text/Syntax22.vos
