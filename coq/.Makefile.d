Check/Priorities.vo Check/Priorities.glob Check/Priorities.v.beautified Check/Priorities.required_vo: Check/Priorities.v 
Check/Priorities.vio: Check/Priorities.v 
Check/Priorities.vos Check/Priorities.vok Check/Priorities.required_vos: Check/Priorities.v 
Engine/AndOr.vo Engine/AndOr.glob Engine/AndOr.v.beautified Engine/AndOr.required_vo: Engine/AndOr.v 
Engine/AndOr.vio: Engine/AndOr.v 
Engine/AndOr.vos Engine/AndOr.vok Engine/AndOr.required_vos: Engine/AndOr.v 
Engine/RecEngine.vo Engine/RecEngine.glob Engine/RecEngine.v.beautified Engine/RecEngine.required_vo: Engine/RecEngine.v Engine/AndOr.vo
Engine/RecEngine.vio: Engine/RecEngine.v Engine/AndOr.vio
Engine/RecEngine.vos Engine/RecEngine.vok Engine/RecEngine.required_vos: Engine/RecEngine.v Engine/AndOr.vos
Ir/Flags.vo Ir/Flags.glob Ir/Flags.v.beautified Ir/Flags.required_vo: Ir/Flags.v Ir/Syntax.vo
Ir/Flags.vio: Ir/Flags.v Ir/Syntax.vio
Ir/Flags.vos Ir/Flags.vok Ir/Flags.required_vos: Ir/Flags.v Ir/Syntax.vos
Ir/Fold.vo Ir/Fold.glob Ir/Fold.v.beautified Ir/Fold.required_vo: Ir/Fold.v Ir/Syntax.vo
Ir/Fold.vio: Ir/Fold.v Ir/Syntax.vio
Ir/Fold.vos Ir/Fold.vok Ir/Fold.required_vos: Ir/Fold.v Ir/Syntax.vos
Ir/Syntax.vo Ir/Syntax.glob Ir/Syntax.v.beautified Ir/Syntax.required_vo: Ir/Syntax.v 
Ir/Syntax.vio: Ir/Syntax.v 
Ir/Syntax.vos Ir/Syntax.vok Ir/Syntax.required_vos: Ir/Syntax.v 
Logic/Program.vo Logic/Program.glob Logic/Program.v.beautified Logic/Program.required_vo: Logic/Program.v 
Logic/Program.vio: Logic/Program.v 
Logic/Program.vos Logic/Program.vok Logic/Program.required_vos: Logic/Program.v 
Mem/InPlace.vo Mem/InPlace.glob Mem/InPlace.v.beautified Mem/InPlace.required_vo: Mem/InPlace.v 
Mem/InPlace.vio: Mem/InPlace.v 
Mem/InPlace.vos Mem/InPlace.vok Mem/InPlace.required_vos: Mem/InPlace.v 
Props/C19.vo Props/C19.glob Props/C19.v.beautified Props/C19.required_vo: Props/C19.v Check/Priorities.vo
Props/C19.vio: Props/C19.v Check/Priorities.vio
Props/C19.vos Props/C19.vok Props/C19.required_vos: Props/C19.v Check/Priorities.vos
Props/C25.vo Props/C25.glob Props/C25.v.beautified Props/C25.required_vo: Props/C25.v Ir/Syntax.vo Ir/Fold.vo
Props/C25.vio: Props/C25.v Ir/Syntax.vio Ir/Fold.vio
Props/C25.vos Props/C25.vok Props/C25.required_vos: Props/C25.v Ir/Syntax.vos Ir/Fold.vos
Props/C26.vo Props/C26.glob Props/C26.v.beautified Props/C26.required_vo: Props/C26.v Ir/Syntax.vo Ir/Flags.vo
Props/C26.vio: Props/C26.v Ir/Syntax.vio Ir/Flags.vio
Props/C26.vos Props/C26.vok Props/C26.required_vos: Props/C26.v Ir/Syntax.vos Ir/Flags.vos
Props/C27.vo Props/C27.glob Props/C27.v.beautified Props/C27.required_vo: Props/C27.v Mem/InPlace.vo
Props/C27.vio: Props/C27.v Mem/InPlace.vio
Props/C27.vos Props/C27.vok Props/C27.required_vos: Props/C27.v Mem/InPlace.vos
Text/LowerFail.vo Text/LowerFail.glob Text/LowerFail.v.beautified Text/LowerFail.required_vo: Text/LowerFail.v 
Text/LowerFail.vio: Text/LowerFail.v 
Text/LowerFail.vos Text/LowerFail.vok Text/LowerFail.required_vos: Text/LowerFail.v 
