(** * Ir.Flags — model of [TyKind::compute_flags] and its helpers (chalk-ir/src/lib.rs),
    and the specification "a flag is set iff a node of the flagged kind occurs anywhere
    inside the type" (property C26). *)

From Chalk Require Import Ir.Syntax.

(** Bit positions of [TypeFlags]. *)
Definition B_TY_INFER := 0.
Definition B_RE_INFER := 1.
Definition B_CT_INFER := 2.
Definition B_TY_PLACEHOLDER := 3.
Definition B_RE_PLACEHOLDER := 4.
Definition B_CT_PLACEHOLDER := 5.
Definition B_FREE_LOCAL_REGIONS := 6.
Definition B_TY_PROJECTION := 7.
Definition B_TY_OPAQUE := 8.
Definition B_CT_PROJECTION := 9.
Definition B_ERROR := 10.
Definition B_RE_ERROR := 11.
Definition B_FREE_REGIONS := 12.
Definition B_RE_LATE_BOUND := 13.
Definition B_RE_ERASED := 14.
Definition B_STILL_FURTHER_SPECIALIZABLE := 15.

Definition bit (b : N) : N := N.shiftl 1 b.

(** ** The model

    Flags contributed by a node itself.  In the Rust code these are the constants that the
    arms of [TyKind::compute_flags], [Lifetime::compute_flags], [GenericArg::compute_flags]
    (const arm) and [AliasTy::compute_flags] OR into the result. *)
Definition own_flags (t : tm) : N :=
  match t with
  | Var STy _ _ => 0                         (* TyKind::BoundVar => empty *)
  | Var SLt _ _ => bit B_RE_LATE_BOUND       (* LifetimeData::BoundVar *)
  | CVar _ _ _ => 0                          (* ConstValue::BoundVar => flags of the const's type only *)
  | Node h _ =>
      match h with
      | HInfer _ _ => bit B_TY_INFER
      | HLInfer _ => N.lor (bit B_RE_INFER) (N.lor (bit B_FREE_LOCAL_REGIONS) (bit B_FREE_REGIONS))
      | HCInfer _ => N.lor (bit B_CT_INFER) (bit B_STILL_FURTHER_SPECIALIZABLE)
      | HPlaceholder _ _ => bit B_TY_PLACEHOLDER
      | HLPlaceholder _ _ => N.lor (bit B_RE_PLACEHOLDER) (N.lor (bit B_FREE_LOCAL_REGIONS) (bit B_FREE_REGIONS))
      | HCPlaceholder _ _ => N.lor (bit B_CT_PLACEHOLDER) (bit B_STILL_FURTHER_SPECIALIZABLE)
      | HProjection _ => bit B_TY_PROJECTION
      | HOpaqueAlias _ => bit B_TY_OPAQUE
      | HError => bit B_ERROR
      | HLError => bit B_RE_ERROR
      | HLStatic => bit B_FREE_REGIONS
      | HLErased => bit B_RE_ERASED
      | _ => 0
      end
  end.

Definition lor_all (l : list N) : N := fold_right N.lor 0 l.

(** [compute_flags]: a node's own contribution OR-ed with the flags of everything it
    contains (substitution arguments, element / pointee types, lifetimes, the const and its
    type, the where clauses of a [dyn], the arguments of an alias, the [FnSubst]). *)
Fixpoint flags (t : tm) : N :=
  match t with
  | Var _ _ _ => own_flags t
  | CVar _ _ c => flags c
  | Node h cs => N.lor (own_flags t) (lor_all (map flags cs))
  end.

(** What the correspondence compares: everything except STILL_FURTHER_SPECIALIZABLE, which the
    property excludes. *)
Definition occurrence_mask : N := 32767.   (* 2^15 - 1 *)
Definition flags_masked (t : tm) : N := N.land (flags t) occurrence_mask.

(** ** The specification *)

(** [subterm s t]: [s] occurs anywhere inside [t] (including [t] itself): inside
    substitutions, const types, dyn bounds, alias arguments, fn-pointer arguments. *)
Inductive subterm : tm -> tm -> Prop :=
| sub_refl t : subterm t t
| sub_cvar s d i c : subterm s c -> subterm s (CVar d i c)
| sub_node s h cs c : In c cs -> subterm s c -> subterm s (Node h cs).

(** For each occurrence flag, the kind of node it reports. *)
Definition node_is (b : N) (s : tm) : bool :=
  match b, s with
  | 0, Node (HInfer _ _) _ => true                      (* a type inference variable *)
  | 1, Node (HLInfer _) _ => true                       (* a lifetime inference variable *)
  | 2, Node (HCInfer _) _ => true                       (* a const inference variable *)
  | 3, Node (HPlaceholder _ _) _ => true                (* a placeholder type *)
  | 4, Node (HLPlaceholder _ _) _ => true               (* a placeholder lifetime *)
  | 5, Node (HCPlaceholder _ _) _ => true               (* a placeholder const *)
  | 6, Node (HLInfer _) _ => true                       (* free local region: lifetime variable ... *)
  | 6, Node (HLPlaceholder _ _) _ => true               (* ... or lifetime placeholder *)
  | 7, Node (HProjection _) _ => true                   (* an associated-type projection *)
  | 8, Node (HOpaqueAlias _) _ => true                  (* an opaque-type alias *)
  | 10, Node HError _ => true                           (* the error type *)
  | 11, Node HLError _ => true                          (* the error lifetime *)
  | 12, Node (HLInfer _) _ => true                      (* free region: variable, placeholder or 'static *)
  | 12, Node (HLPlaceholder _ _) _ => true
  | 12, Node HLStatic _ => true
  | 13, Var SLt _ _ => true                             (* a (late-)bound lifetime variable *)
  | 14, Node HLErased _ => true                         (* the erased lifetime *)
  | _, _ => false                                       (* 9: const projections do not exist in chalk-ir *)
  end.

Definition occurs (b : N) (t : tm) : Prop := exists s, subterm s t /\ node_is b s = true.

(** ** Proof *)

Lemma testbit_lor_all l b :
  N.testbit (lor_all l) b = true <-> exists x, In x l /\ N.testbit x b = true.
Proof.
  induction l as [| x r IH]; cbn [lor_all fold_right In].
  - rewrite N.bits_0. split; [intros H; discriminate H | intros (x & [] & _)].
  - fold (lor_all r). rewrite N.lor_spec, orb_true_iff, IH. split.
    + intros [H | (y & Hy & Hb)]; [exists x; auto | exists y; auto].
    + intros (y & [-> | Hy] & Hb); [left; assumption | right; exists y; auto].
Qed.

Lemma own_flags_spec s b : b < 15 -> N.testbit (own_flags s) b = node_is b s.
Proof.
  intros Hb.
  assert (E : b = 0 \/ b = 1 \/ b = 2 \/ b = 3 \/ b = 4 \/ b = 5 \/ b = 6 \/ b = 7 \/ b = 8 \/ b = 9
              \/ b = 10 \/ b = 11 \/ b = 12 \/ b = 13 \/ b = 14) by lia.
  destruct s as [[|] d i | d i c | h cs]; [| | | destruct h];
    repeat (destruct E as [-> | E]; [reflexivity |]); subst b; reflexivity.
Qed.

Lemma flags_spec_aux t : forall b, b < 15 -> (N.testbit (flags t) b = true <-> occurs b t).
Proof.
  induction t as [s d i | d i c IH | h cs IH] using tm_ind'; intros b Hb.
  - cbn [flags]. rewrite own_flags_spec by assumption. split.
    + intros H. exists (Var s d i). split; [constructor | assumption].
    + intros (x & Hx & Hn). inversion Hx; subst. assumption.
  - cbn [flags]. rewrite IH by assumption. split.
    + intros (x & Hx & Hn). exists x. split; [constructor; assumption | assumption].
    + intros (x & Hx & Hn). inversion Hx; subst.
      * rewrite <- own_flags_spec in Hn by assumption. cbn [own_flags] in Hn. rewrite N.bits_0 in Hn. discriminate Hn.
      * exists x. auto.
  - cbn [flags]. rewrite N.lor_spec, orb_true_iff, own_flags_spec, testbit_lor_all by assumption. split.
    + intros [H | (x & Hx & Hbit)].
      * exists (Node h cs). split; [constructor | assumption].
      * apply in_map_iff in Hx. destruct Hx as (c & <- & Hc).
        rewrite Forall_forall in IH. apply (IH c Hc b Hb) in Hbit.
        destruct Hbit as (s & Hs & Hn). exists s. split; [econstructor; eassumption | assumption].
    + intros (s & Hs & Hn). inversion Hs; subst.
      * left. assumption.
      * right. exists (flags c). split; [apply in_map; assumption |].
        rewrite Forall_forall in IH. apply (IH c); [assumption .. |]. exists s. auto.
Qed.

(** Every occurrence flag is set exactly when a node of its kind occurs inside the term. *)
Theorem flags_spec_lemma : forall t b, b < 15 -> (N.testbit (flags t) b = true <-> occurs b t).
Proof. intros t b Hb. apply flags_spec_aux. assumption. Qed.

Lemma testbit_occurrence_mask b : N.testbit occurrence_mask b = (b <? 15).
Proof.
  destruct (N.ltb_spec b 15) as [H | H].
  - assert (E : b = 0 \/ b = 1 \/ b = 2 \/ b = 3 \/ b = 4 \/ b = 5 \/ b = 6 \/ b = 7 \/ b = 8 \/ b = 9
              \/ b = 10 \/ b = 11 \/ b = 12 \/ b = 13 \/ b = 14) by lia.
    repeat (destruct E as [-> | E]; [reflexivity |]); subst b; reflexivity.
  - change occurrence_mask with (N.ones 15). apply N.ones_spec_high. assumption.
Qed.

(** The masked value the correspondence compares determines, and is determined by, the
    fifteen occurrence facts. *)
Theorem flags_masked_spec_lemma : forall t b,
  N.testbit (flags_masked t) b = true <-> (b < 15 /\ occurs b t).
Proof.
  intros t b. unfold flags_masked. rewrite N.land_spec, andb_true_iff, testbit_occurrence_mask, N.ltb_lt.
  split.
  - intros [H1 H2]. split; [assumption | apply flags_spec_lemma; assumption].
  - intros [H1 H2]. split; [apply flags_spec_lemma; assumption | assumption].
Qed.

(** Non-vacuity: a concrete nested type with several flagged nodes in different positions. *)
Definition example_ty : tm :=
  Node (HRef Mut) [Node HLStatic [];
    Node HArray [Node (HAdt 3) [Node (HInfer 2 General) []; Var SLt 0 0];
                 Node (HCPlaceholder 1 0) [Node (HScalar (Uint Usize)) []]]].

Example flags_example_nonvacuous :
  flags_masked example_ty = 12321 /\ occurs B_TY_INFER example_ty /\ ~ occurs B_ERROR example_ty.
Proof.
  split; [reflexivity |]. split.
  - apply flags_spec_lemma; [reflexivity | reflexivity].
  - intros H. apply flags_spec_lemma in H; [discriminate | reflexivity].
Qed.

(** ** Flags are invariant under shifting (bound-variable indices are not flagged). *)
From Chalk Require Import Ir.Fold.

Lemma flags_shift_in : forall t n k, flags (shift_in n k t) = flags t.
Proof.
  induction t as [s d i | d i c IH | h cs IH] using tm_ind'; intros n k; cbn [shift_in].
  - destruct (k <=? d); [destruct s |]; reflexivity.
  - destruct (k <=? d); reflexivity.
  - cbn [flags own_flags]. f_equal. rewrite map_map. f_equal. apply map_ext_in. intros x Hx.
    rewrite Forall_forall in IH. apply IH. assumption.
Qed.
