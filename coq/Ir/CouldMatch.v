(** * Ir.CouldMatch — model of [CouldMatch::could_match] (chalk-ir/src/could_match.rs, the
    [MatchZipper] run through the derived [Zip] impls of zip.rs) and the proof that the
    pre-filter never rejects a pair that some instantiation of variables makes equal
    (property C18). *)

From Chalk Require Import Ir.Syntax Ir.Fold.

(** ** The model *)

(** Type constructors for which [zip_tys] has an arm comparing two types of that same
    constructor; every other pair of types falls into [_ => true]. *)
Definition rigid (h : head) : bool :=
  match h with
  | HAdt _ | HAssocTy _ | HScalar _ | HStr | HTuple _ | HOpaqueTy _ | HSlice | HFnDef _
  | HRef _ | HRaw _ | HNever | HArray | HClosure _ | HCoroutine _ | HCoroutineWitness _
  | HForeign _ | HError => true
  | _ => false
  end.

(** Same constructor, ignoring the data carried by the head. *)
Definition same_ctor (h h' : head) : bool :=
  match h, h' with
  | HAdt _, HAdt _ | HAssocTy _, HAssocTy _ | HScalar _, HScalar _ | HStr, HStr
  | HTuple _, HTuple _ | HOpaqueTy _, HOpaqueTy _ | HSlice, HSlice | HFnDef _, HFnDef _
  | HRef _, HRef _ | HRaw _, HRaw _ | HNever, HNever | HArray, HArray | HClosure _, HClosure _
  | HCoroutine _, HCoroutine _ | HCoroutineWitness _, HCoroutineWitness _
  | HForeign _, HForeign _ | HError, HError => true
  | _, _ => false
  end.

Definition is_alias_head (h : head) : bool :=
  match h with HProjection _ | HOpaqueAlias _ => true | _ => false end.

(** Heads whose FIRST child is an [AliasTy] (zipped structurally by the derived [Zip],
    unlike an alias in type position, which [zip_tys] lets match anything). *)
Definition alias_first (h : head) : bool :=
  match h with HAliasEq | HNormalize => true | _ => false end.

(** Pairwise zip that stops at the shorter list ([Zipper::zip_substs], the [matches]
    closure: [a.iter().zip(b.iter())]). *)
Definition zip_trunc (f : tm -> tm -> bool) : list tm -> list tm -> bool :=
  fix go l l' :=
    match l, l' with
    | x :: r, y :: r' => f x y && go r r'
    | _, _ => true
    end.

(** Pairwise zip of slices ([impl Zip for [T]]): the lengths must agree. *)
Definition zip_strict (f : tm -> tm -> bool) : list tm -> list tm -> bool :=
  fix go l l' :=
    match l, l' with
    | [], [] => true
    | x :: r, y :: r' => f x y && go r r'
    | _, _ => false
    end.

(** [could_match ra a b]; [ra] = "[a] and [b] stand in [AliasTy] position". *)
Fixpoint could_match (ra : bool) (a b : tm) : bool :=
  match a, b with
  | Node h cs, Node h' cs' =>
      match head_kind h, head_kind h' with
      | KTy, KTy =>
          (* zip_tys: only two types of the same rigid constructor are compared; an AliasTy
             (enum_zip + id equality + zip_substs) always is *)
          if ra || (rigid h && same_ctor h h')
          then head_eqb h h' && zip_trunc (could_match false) cs cs'
          else true
      | KLt, KLt => true                                   (* zip_lifetimes: Ok *)
      | KConst, KConst => true                             (* zip_consts: Ok *)
      | KOther, KOther =>
          match h, h' with
          | HBinders _, HBinders _ => zip_strict (could_match false) cs cs'    (* zip_binders: values only *)
          | HTraitRef t, HTraitRef t' => N.eqb t t' && zip_trunc (could_match false) cs cs'
          | _, _ =>
              head_eqb h h' &&
              (if alias_first h then
                 match cs, cs' with
                 | c :: r, c' :: r' => could_match true c c' && zip_strict (could_match false) r r'
                 | [], [] => true
                 | _, _ => false
                 end
               else zip_strict (could_match false) cs cs')
          end
      | _, _ => false                                      (* GenericArgData of mixed kinds *)
      end
  | _, _ => kind_eqb (kind_of a) (kind_of b)               (* a bound variable matches anything of its kind *)
  end.

(** [<[GenericArg] as CouldMatch>::could_match], used by [Program::impls_for_trait]. *)
Definition could_match_slice (l l' : list tm) : bool := zip_strict (could_match false) l l'.

(** ** What "can be unified" means here

    An *instantiation* replaces every wildcard leaf by an arbitrary term of the same kind:
    bound variables (the parameters of a clause / the unknowns of a goal), inference
    variables, and — because unification relates them through side goals instead of
    syntactic equality — every lifetime, every const, and every alias in type position.
    Two terms are unifiable if instantiations of each are syntactically equal.  Real
    unification succeeding (possibly with AliasEq / outlives side goals) implies this. *)

Definition wild (ra : bool) (t : tm) : bool :=
  match t with
  | Var _ _ _ | CVar _ _ _ => true
  | Node h _ =>
      match head_kind h with
      | KLt | KConst => true
      | KTy => match h with
               | HInfer _ _ | HProjection _ | HOpaqueAlias _ => negb ra
               | _ => false
               end
      | KOther => false
      end
  end.

Fixpoint inst (sg : tm -> tm) (ra : bool) (t : tm) : tm :=
  if wild ra t then sg t
  else match t with
       | Node h cs =>
           Node h (if alias_first h
                   then match cs with c :: r => inst sg true c :: map (inst sg false) r | [] => [] end
                   else map (inst sg false) cs)
       | _ => t
       end.

Definition kind_preserving (sg : tm -> tm) : Prop := forall t, kind_of (sg t) = kind_of t.

(** ** Proof *)

Lemma kind_of_inst sg ra t : kind_preserving sg -> kind_of (inst sg ra t) = kind_of t.
Proof.
  intros KP. destruct t as [s d i | d i c | h cs]; cbn [inst]; [apply KP | apply KP |].
  destruct (wild ra (Node h cs)); [apply KP | reflexivity].
Qed.

Lemma zip_trunc_true (f : tm -> tm -> bool) l l' :
  Forall2 (fun x y => f x y = true) l l' -> zip_trunc f l l' = true.
Proof. induction 1 as [| x y r r' H _ IH]; cbn [zip_trunc]; [reflexivity | rewrite H, IH; reflexivity]. Qed.

Lemma zip_strict_true (f : tm -> tm -> bool) l l' :
  Forall2 (fun x y => f x y = true) l l' -> zip_strict f l l' = true.
Proof. induction 1 as [| x y r r' H _ IH]; cbn [zip_strict]; [reflexivity | rewrite H, IH; reflexivity]. Qed.

Lemma head_eqb_refl h : head_eqb h h = true.
Proof. apply head_eqb_eq. reflexivity. Qed.

Lemma kind_eqb_eq a b : a = b -> kind_eqb a b = true.
Proof. intros ->. apply kind_eqb_refl. Qed.

Section complete.
  Variables sg tau : tm -> tm.
  Hypothesis KS : kind_preserving sg.
  Hypothesis KT : kind_preserving tau.

  Definition CM (x : tm) : Prop :=
    forall y ra, inst sg ra x = inst tau ra y -> could_match ra x y = true.

  Lemma children_match cs cs' :
    Forall CM cs -> map (inst sg false) cs = map (inst tau false) cs' ->
    Forall2 (fun x y => could_match false x y = true) cs cs'.
  Proof.
    intros HF. revert cs'. induction HF as [| x r Hx _ IH]; intros [| y r'] E; try discriminate E; [constructor |].
    cbn [map] in E. inversion E. constructor; [apply Hx; assumption | apply IH; assumption].
  Qed.

  Lemma could_match_complete_aux : forall a, CM a.
  Proof.
    induction a as [s d i | d i c IH | h cs IH] using tm_ind'; intros b ra E.
    - assert (K : kind_of (Var s d i) = kind_of b).
      { rewrite <- (kind_of_inst sg ra) by assumption. rewrite E. apply kind_of_inst. assumption. }
      cbn [could_match]. apply kind_eqb_eq. assumption.
    - assert (K : kind_of (CVar d i c) = kind_of b).
      { rewrite <- (kind_of_inst sg ra) by assumption. rewrite E. apply kind_of_inst. assumption. }
      cbn [could_match]. apply kind_eqb_eq. assumption.
    - assert (K : kind_of (Node h cs) = kind_of b).
      { rewrite <- (kind_of_inst sg ra) by assumption. rewrite E. apply kind_of_inst. assumption. }
      destruct b as [s' d' i' | d' i' c' | h' cs']; [cbn [could_match]; apply kind_eqb_eq; assumption .. |].
      cbn [kind_of] in K. cbn [could_match]. rewrite <- K.
      destruct (head_kind h) eqn:HK; [| reflexivity | reflexivity |].
      + (* types *)
        destruct (ra || (rigid h && same_ctor h h')) eqn:C; [| reflexivity].
        assert (NW : wild ra (Node h cs) = false /\ wild ra (Node h' cs') = false /\ alias_first h = false /\ alias_first h' = false).
        { cbn [wild]. rewrite <- K, HK.
          destruct ra; cbn [orb negb] in C |- *.
          - destruct h; try discriminate HK; destruct h'; try discriminate K; repeat split; reflexivity.
          - apply andb_true_iff in C. destruct C as [R SC].
            destruct h; try discriminate R; destruct h'; try discriminate SC; repeat split; reflexivity. }
        destruct NW as (W1 & W2 & A1 & A2).
        cbn [inst] in E. rewrite W1, W2, A1, A2 in E. inversion E; subst h'.
        rewrite head_eqb_refl. cbn [andb]. apply zip_trunc_true. apply children_match; assumption.
      + (* everything that is not a generic argument *)
        assert (W1 : wild ra (Node h cs) = false) by (cbn [wild]; rewrite HK; reflexivity).
        assert (W2 : wild ra (Node h' cs') = false) by (cbn [wild]; rewrite <- K; reflexivity).
        cbn [inst] in E. rewrite W1, W2 in E. inversion E as [[EH EC]]. subst h'.
        destruct (alias_first h) eqn:AF.
        * assert (L : head_eqb h h && match cs, cs' with
                                      | c :: r, c' :: r' => could_match true c c' && zip_strict (could_match false) r r'
                                      | [], [] => true
                                      | _, _ => false
                                      end = true).
          { rewrite head_eqb_refl. cbn [andb].
            destruct cs as [| c r], cs' as [| c' r']; try discriminate EC; [reflexivity |].
            inversion EC as [[E1 E2]]. inversion IH as [| ? ? Hc Hr]; subst.
            rewrite (Hc c' true E1). cbn [andb]. apply zip_strict_true. apply children_match; assumption. }
          destruct h; try discriminate AF; exact L.
        * assert (ZS : zip_strict (could_match false) cs cs' = true)
            by (apply zip_strict_true; apply children_match; assumption).
          assert (ZT : zip_trunc (could_match false) cs cs' = true)
            by (apply zip_trunc_true; apply children_match; assumption).
          destruct h; try discriminate HK; try discriminate AF;
            rewrite ?head_eqb_refl, ?N.eqb_refl, ?ZS, ?ZT; reflexivity.
  Qed.
End complete.

(** The pre-filter never rejects a pair of terms (types, generic arguments, trait refs, where
    clauses, domain goals = clause conclusions vs goals) that instantiations make equal. *)
Theorem could_match_complete_lemma : forall a b sg tau,
  kind_preserving sg -> kind_preserving tau ->
  inst sg false a = inst tau false b -> could_match false a b = true.
Proof. intros a b sg tau KS KT E. apply (could_match_complete_aux sg tau KS KT a b false E). Qed.

(** ... and the same for argument lists (impl headers vs trait-reference arguments). *)
Theorem could_match_slice_complete_lemma : forall l l' sg tau,
  kind_preserving sg -> kind_preserving tau ->
  map (inst sg false) l = map (inst tau false) l' -> could_match_slice l l' = true.
Proof.
  intros l l' sg tau KS KT E. unfold could_match_slice. apply zip_strict_true.
  apply (children_match sg tau); [| assumption].
  apply Forall_forall. intros x _. apply could_match_complete_aux; assumption.
Qed.

(** Non-vacuity: a clause head with parameters and a goal with an unknown that unify, and a
    pair that differs in a rigid position (which the filter may, and does, reject). *)
Definition ex_head : tm :=
  Node HHolds [Node HImplemented [Node (HTraitRef 1) [Node (HAdt 2) [Var STy 0 0; Node (HRef Not) [Var SLt 0 1; Node HSlice [Var STy 0 0]]]; Var STy 0 2]]].
Definition ex_goal : tm :=
  Node HHolds [Node HImplemented [Node (HTraitRef 1) [Node (HAdt 2) [Node (HScalar (Uint U8)) []; Node (HInfer 0 General) []]; Node HStr []]]].
(** Any function becomes kind-preserving by guarding it. *)
Definition guard (f : tm -> tm) (t : tm) : tm :=
  if kind_eqb (kind_of (f t)) (kind_of t) then f t else t.

Lemma guard_kind_preserving f : kind_preserving (guard f).
Proof.
  intros t. unfold guard. destruct (kind_eqb (kind_of (f t)) (kind_of t)) eqn:E; [| reflexivity].
  destruct (kind_of (f t)), (kind_of t); try discriminate E; reflexivity.
Qed.

Definition ex_sg : tm -> tm := guard (fun t =>
  match t with
  | Var STy 0 0 => Node (HScalar (Uint U8)) []
  | Var STy 0 2 => Node HStr []
  | Var SLt _ _ => Node HLStatic []
  | _ => t
  end).
Definition ex_tau : tm -> tm := guard (fun t =>
  match t with
  | Node (HInfer 0 General) _ => Node (HRef Not) [Node HLStatic []; Node HSlice [Node (HScalar (Uint U8)) []]]
  | _ => t
  end).

Example could_match_example_nonvacuous :
  kind_preserving ex_sg /\ kind_preserving ex_tau
  /\ inst ex_sg false ex_head = inst ex_tau false ex_goal
  /\ could_match false ex_head ex_goal = true
  /\ could_match false (Node (HAdt 2) [Node HStr []]) (Node (HAdt 3) [Node HStr []]) = false.
Proof.
  split; [apply guard_kind_preserving |]. split; [apply guard_kind_preserving |].
  repeat split; reflexivity.
Qed.
