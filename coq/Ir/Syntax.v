(** * Ir.Syntax — the term language of chalk-ir as one sorted rose tree.

    chalk-ir's [Ty], [Lifetime], [Const], [GenericArg], [WhereClause], [DomainGoal], [Goal]
    and [ProgramClause] are folded, shifted, substituted and zipped by *derived* generic code
    ([chalk-derive]): every node is a constructor ("head") with data that the folders never
    touch (ids, scalars, mutability, binder kinds ...) and an ordered list of children; some
    heads introduce one de Bruijn binder level around all their children.  The model keeps
    exactly that shape:

      - [Var s db idx]     a bound variable of type / lifetime sort  ([TyKind::BoundVar],
                           [LifetimeData::BoundVar]);
      - [CVar db idx cty]  a bound *const* variable together with the const's type
                           ([ConstData { ty, value: ConstValue::BoundVar }]);
      - [Node h cs]        everything else.

    The same syntax is what the Python generators emit and what the Rust harness converts
    from/to real [chalk_ir] values ([harness/src/ir.rs]), so a value means the same thing on
    all three sides.  Numbers are [N]. *)

From Coq Require Export List NArith Bool Lia.
Export ListNotations.
Open Scope N_scope.

Inductive sort := STy | SLt.

Inductive mutability := Mut | Not.
Inductive intty := Isize | I8 | I16 | I32 | I64 | I128.
Inductive uintty := Usize | U8 | U16 | U32 | U64 | U128.
Inductive floatty := F16 | F32 | F64 | F128.
Inductive scalar := Bool | Char | Int (i : intty) | Uint (u : uintty) | Float (f : floatty).
(** [TyVariableKind] *)
Inductive tvk := General | Integer | FloatVar.
(** [VariableKind]; the type carried by [VariableKind::Const] is always [usize] in
    [ChalkIr] lowering and is not modelled. *)
Inductive vkind := VTy (k : tvk) | VLt | VConst.
Inductive safety := Safe | Unsafe.
Inductive abi := AbiRust | AbiC.
Inductive qkind := ForAll | Exists.
Inductive priority := High | Low.

Inductive head :=
(* -- types ([TyKind]) ------------------------------------------------------------- *)
| HAdt (id : N)                 (* children: the substitution *)
| HAssocTy (id : N)
| HScalar (s : scalar)
| HTuple (arity : N)
| HArray                        (* [ty; const] *)
| HSlice                        (* [ty] *)
| HRaw (m : mutability)         (* [ty] *)
| HRef (m : mutability)         (* [lifetime; ty] *)
| HOpaqueTy (id : N)
| HFnDef (id : N)
| HStr
| HNever
| HClosure (id : N)
| HCoroutine (id : N)
| HCoroutineWitness (id : N)
| HForeign (id : N)
| HError
| HPlaceholder (ui idx : N)
| HDyn                          (* [HBinders [Self] (HList qwcs); lifetime] *)
| HProjection (id : N)          (* AliasTy::Projection; children: substitution *)
| HOpaqueAlias (id : N)         (* AliasTy::Opaque *)
| HFnPtr (num_binders : N) (a : abi) (s : safety) (variadic : bool)
                                (* children: FnSubst, all under ONE binder level *)
| HInfer (v : N) (k : tvk)
(* -- lifetimes -------------------------------------------------------------------- *)
| HLInfer (v : N)
| HLPlaceholder (ui idx : N)
| HLStatic
| HLErased
| HLError
(* -- constants: child 0 is the const's type ---------------------------------------- *)
| HCInfer (v : N)
| HCPlaceholder (ui idx : N)
| HCConcrete (value : N)
(* -- structure ---------------------------------------------------------------------- *)
| HBinders (ks : list vkind)    (* one child, under one binder level *)
| HList                         (* a plain sequence *)
| HTraitRef (tr : N)            (* children: substitution, Self first *)
(* -- where clauses ------------------------------------------------------------------ *)
| HImplemented                  (* [traitref] *)
| HAliasEq                      (* [alias (a type node with HProjection/HOpaqueAlias); ty] *)
| HLtOutlives                   (* [a; b] *)
| HTyOutlives                   (* [ty; lifetime] *)
(* -- domain goals ------------------------------------------------------------------- *)
| HHolds                        (* [where clause] *)
| HWfTy | HWfTrait              (* [ty] / [traitref] *)
| HFromEnvTy | HFromEnvTrait
| HNormalize                    (* [alias; ty] *)
| HIsLocal | HIsUpstream | HIsFullyVisible | HDownstreamType   (* [ty] *)
| HLocalImplAllowed             (* [traitref] *)
| HCompatible | HReveal
| HObjectSafe (tr : N)
(* -- goals -------------------------------------------------------------------------- *)
| HQuantified (q : qkind)       (* [HBinders ks [goal]] *)
| HImplies                      (* [HList clauses; goal] *)
| HAll                          (* goals *)
| HNot                          (* [goal] *)
| HEqGoal | HSubtypeGoal        (* [a; b] *)
| HDomainGoal                   (* [domain goal] *)
| HCannotProve
(* -- program clauses ---------------------------------------------------------------- *)
| HClause                       (* [HBinders ks [HImplication ..]] *)
| HImplication (p : priority)   (* [consequence; HList conditions; HList constraints] *)
| HConstraint                   (* InEnvironment<Constraint>, opaque to the model: [HList clauses; c] *)
.

Inductive tm :=
| Var (s : sort) (db idx : N)
| CVar (db idx : N) (cty : tm)
| Node (h : head) (cs : list tm).

(** Heads whose children all sit under one additional binder level
    ([Binders<T>] and [FnPointer], cf. [fold/binder_impls.rs]). *)
Definition binds (h : head) : bool :=
  match h with HBinders _ | HFnPtr _ _ _ _ => true | _ => false end.

Definition under (h : head) (k : N) : N := if binds h then k + 1 else k.

(** The three generic-argument kinds, and "anything else". *)
Inductive kind := KTy | KLt | KConst | KOther.

Definition head_kind (h : head) : kind :=
  match h with
  | HAdt _ | HAssocTy _ | HScalar _ | HTuple _ | HArray | HSlice | HRaw _ | HRef _
  | HOpaqueTy _ | HFnDef _ | HStr | HNever | HClosure _ | HCoroutine _
  | HCoroutineWitness _ | HForeign _ | HError | HPlaceholder _ _ | HDyn | HProjection _
  | HOpaqueAlias _ | HFnPtr _ _ _ _ | HInfer _ _ => KTy
  | HLInfer _ | HLPlaceholder _ _ | HLStatic | HLErased | HLError => KLt
  | HCInfer _ | HCPlaceholder _ _ | HCConcrete _ => KConst
  | _ => KOther
  end.

Definition kind_of (t : tm) : kind :=
  match t with
  | Var STy _ _ => KTy
  | Var SLt _ _ => KLt
  | CVar _ _ _ => KConst
  | Node h _ => head_kind h
  end.

(** ** Outcomes of modelled Rust functions that can panic. *)
Inductive site :=
| MismatchedKinds        (* "mismatched kinds in substitution" (subst.rs) *)
| IndexOutOfBounds       (* slice index *)
| UnwrapNone             (* Option::unwrap on None *)
| AssertFailed           (* assert!/assert_eq! *)
| OtherPanic.

Inductive res (A : Type) := Ok (a : A) | Panic (s : site).
Arguments Ok {A} a.
Arguments Panic {A} s.

Definition rbind {A B} (r : res A) (f : A -> res B) : res B :=
  match r with Ok a => f a | Panic s => Panic s end.

Definition rmap {A B} (f : A -> res B) : list A -> res (list B) :=
  fix go (l : list A) : res (list B) :=
    match l with
    | [] => Ok []
    | x :: r => rbind (f x) (fun y => rbind (go r) (fun ys => Ok (y :: ys)))
    end.

Definition omap {A B} (f : A -> option B) : list A -> option (list B) :=
  fix go (l : list A) : option (list B) :=
    match l with
    | [] => Some []
    | x :: r => match f x with
                | None => None
                | Some y => match go r with None => None | Some ys => Some (y :: ys) end
                end
    end.

(** ** Induction principle and size *)

Section tm_ind.
  Variable P : tm -> Prop.
  Hypothesis HVar : forall s d i, P (Var s d i).
  Hypothesis HCVar : forall d i t, P t -> P (CVar d i t).
  Hypothesis HNode : forall h cs, Forall P cs -> P (Node h cs).

  Fixpoint tm_ind' (t : tm) : P t :=
    match t with
    | Var s d i => HVar s d i
    | CVar d i c => HCVar d i c (tm_ind' c)
    | Node h cs =>
        HNode h cs ((fix go (l : list tm) : Forall P l :=
                       match l with
                       | [] => Forall_nil P
                       | x :: r => Forall_cons x (tm_ind' x) (go r)
                       end) cs)
    end.
End tm_ind.

Fixpoint tm_size (t : tm) : nat :=
  match t with
  | Var _ _ _ => 1
  | CVar _ _ c => S (tm_size c)
  | Node _ cs => S (fold_right (fun c n => (tm_size c + n)%nat) 0%nat cs)
  end.

(** ** Decidable equality *)

Definition sort_eq_dec : forall a b : sort, {a = b} + {a <> b}.
Proof. decide equality. Defined.
Definition mutability_eq_dec : forall a b : mutability, {a = b} + {a <> b}.
Proof. decide equality. Defined.
Definition scalar_eq_dec : forall a b : scalar, {a = b} + {a <> b}.
Proof. repeat decide equality. Defined.
Definition tvk_eq_dec : forall a b : tvk, {a = b} + {a <> b}.
Proof. decide equality. Defined.
Definition vkind_eq_dec : forall a b : vkind, {a = b} + {a <> b}.
Proof. decide equality. apply tvk_eq_dec. Defined.
Definition head_eq_dec : forall a b : head, {a = b} + {a <> b}.
Proof.
  decide equality;
    try apply N.eq_dec; try apply scalar_eq_dec; try apply mutability_eq_dec;
    try apply tvk_eq_dec; try apply bool_dec; try (apply list_eq_dec; apply vkind_eq_dec);
    decide equality.
Defined.

Definition head_eqb (a b : head) : bool := if head_eq_dec a b then true else false.
Definition sort_eqb (a b : sort) : bool := if sort_eq_dec a b then true else false.

Lemma head_eqb_eq a b : head_eqb a b = true <-> a = b.
Proof. unfold head_eqb. destruct (head_eq_dec a b); split; congruence. Qed.

Lemma sort_eqb_eq a b : sort_eqb a b = true <-> a = b.
Proof. unfold sort_eqb. destruct (sort_eq_dec a b); split; congruence. Qed.

Fixpoint tm_eqb (a b : tm) : bool :=
  match a, b with
  | Var s d i, Var s' d' i' => sort_eqb s s' && N.eqb d d' && N.eqb i i'
  | CVar d i c, CVar d' i' c' => N.eqb d d' && N.eqb i i' && tm_eqb c c'
  | Node h cs, Node h' cs' =>
      head_eqb h h' &&
      (fix go (l l' : list tm) : bool :=
         match l, l' with
         | [], [] => true
         | x :: r, y :: r' => tm_eqb x y && go r r'
         | _, _ => false
         end) cs cs'
  | _, _ => false
  end.

Lemma tm_eqb_eq : forall a b, tm_eqb a b = true <-> a = b.
Proof.
  induction a as [s d i | d i c IH | h cs IH] using tm_ind'; intros b; destruct b as [s' d' i' | d' i' c' | h' cs'];
    cbn [tm_eqb]; try (split; [discriminate | congruence]).
  - rewrite !andb_true_iff, sort_eqb_eq, !N.eqb_eq. split; [intros [[-> ->] ->]; reflexivity | intros H; inversion H; auto].
  - rewrite !andb_true_iff, !N.eqb_eq, IH. split; [intros [[-> ->] ->]; reflexivity | intros H; inversion H; auto].
  - rewrite andb_true_iff, head_eqb_eq.
    assert (L : forall l', (fix go (l l' : list tm) : bool :=
                 match l, l' with
                 | [], [] => true
                 | x :: r, y :: r' => tm_eqb x y && go r r'
                 | _, _ => false
                 end) cs l' = true <-> cs = l').
    { induction IH as [| x r Hx _ IHr]; intros l'; destruct l' as [| y r'];
        try (split; [discriminate | congruence]); [split; reflexivity |].
      rewrite andb_true_iff, Hx, IHr. split; [intros [-> ->]; reflexivity | intros H; inversion H; auto]. }
    rewrite L. split; [intros [-> ->]; reflexivity | intros H; inversion H; auto].
Qed.

Definition list_eqb {A} (e : A -> A -> bool) : list A -> list A -> bool :=
  fix go l l' := match l, l' with
                 | [], [] => true
                 | x :: r, y :: r' => e x y && go r r'
                 | _, _ => false
                 end.

Definition option_eqb {A} (e : A -> A -> bool) (a b : option A) : bool :=
  match a, b with Some x, Some y => e x y | None, None => true | _, _ => false end.

Definition site_eqb (a b : site) : bool :=
  match a, b with
  | MismatchedKinds, MismatchedKinds | IndexOutOfBounds, IndexOutOfBounds
  | UnwrapNone, UnwrapNone | AssertFailed, AssertFailed | OtherPanic, OtherPanic => true
  | _, _ => false
  end.

Definition res_eqb {A} (e : A -> A -> bool) (a b : res A) : bool :=
  match a, b with Ok x, Ok y => e x y | Panic s, Panic s' => site_eqb s s' | _, _ => false end.
