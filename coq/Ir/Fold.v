(** * Ir.Fold — model of the binder operations of chalk-ir (fold.rs, fold/shift.rs,
    fold/subst.rs, [Binders::substitute]) and the substitution laws of property C25.

    The derived [TypeFoldable] impls all have the same shape: rebuild the node with the same
    head, folding the children at [outer_binder] — or at [outer_binder.shifted_in()] for
    [Binders<T>] and [FnPointer].  Only bound variables are touched by the three folders of
    interest ([Shifter], [DownShifter], [Subst]); inference variables and placeholders are
    rebuilt unchanged by the default methods. *)

From Chalk Require Import Ir.Syntax.

(** ** The folders *)

(** [t.shifted_in_from(n)] is [shift_in n 0 t]; [k] is the [outer_binder] of the traversal.
    A variable is free iff [k <= d]; [Shifter::adjust] maps it to [d - k + n + k].
    For a const variable the const's type is NOT folded ("const types don't have free
    variables, so we can skip folding ty"). *)
Fixpoint shift_in (n k : N) (t : tm) : tm :=
  match t with
  | Var s d i => if k <=? d then Var s (d + n) i else t
  | CVar d i c => if k <=? d then CVar (d + n) i c else t
  | Node h cs => Node h (map (shift_in n (under h k)) cs)
  end.

(** [t.shifted_out_to(n)] is [shift_out n 0 t] ([DownShifter]): fails with [NoSolution]
    ([None]) on a free variable bound by one of the [n] binders being removed. *)
Fixpoint shift_out (n k : N) (t : tm) : option tm :=
  match t with
  | Var s d i => if k <=? d then (if n <=? d - k then Some (Var s (d - n) i) else None) else Some t
  | CVar d i c => if k <=? d then (if n <=? d - k then Some (CVar (d - n) i c) else None) else Some t
  | Node h cs => option_map (Node h) (omap (shift_out n (under h k)) cs)
  end.

Definition kind_eqb (a b : kind) : bool :=
  match a, b with KTy, KTy | KLt, KLt | KConst, KConst | KOther, KOther => true | _, _ => false end.

Definition sort_kind (s : sort) : kind := match s with STy => KTy | SLt => KLt end.

(** [Subst::apply(parameters, value)] is [subst parameters 0 value].  A free variable of
    the innermost binder is replaced by its parameter shifted in by [k]; the other free
    variables lose one level.  Panics: parameter index out of range (slice index) and
    "mismatched kinds in substitution". *)
Fixpoint subst (ps : list tm) (k : N) (t : tm) : res tm :=
  match t with
  | Var s d i =>
      if k <=? d then
        if d =? k then
          match nth_error ps (N.to_nat i) with
          | None => Panic IndexOutOfBounds
          | Some p => if kind_eqb (kind_of p) (sort_kind s) then Ok (shift_in k 0 p) else Panic MismatchedKinds
          end
        else Ok (Var s (d - 1) i)
      else Ok t
  | CVar d i c =>
      if k <=? d then
        if d =? k then
          match nth_error ps (N.to_nat i) with
          | None => Panic IndexOutOfBounds
          | Some p => if kind_eqb (kind_of p) KConst then Ok (shift_in k 0 p) else Panic MismatchedKinds
          end
        else Ok (CVar (d - 1) i c)
      else Ok t
  | Node h cs => rbind (rmap (subst ps (under h k)) cs) (fun cs' => Ok (Node h cs'))
  end.

(** [Binders::new(ks, t).substitute(ps)]: [assert_eq!(binders.len(), parameters.len())]. *)
Definition binders_substitute (ks : list vkind) (t : tm) (ps : list tm) : res tm :=
  if Nat.eqb (length ks) (length ps) then subst ps 0 t else Panic AssertFailed.

Definition usize_ty : tm := Node (HScalar (Uint Usize)) [].

(** [VariableKind::to_bound_variable] / [Binders::identity_substitution]. *)
Definition bound_var_of (k : vkind) (i : N) : tm :=
  match k with
  | VTy _ => Var STy 0 i
  | VLt => Var SLt 0 i
  | VConst => CVar 0 i usize_ty
  end.

Fixpoint identity_from (i : N) (ks : list vkind) : list tm :=
  match ks with
  | [] => []
  | k :: r => bound_var_of k i :: identity_from (N.succ i) r
  end.

Definition identity_subst (ks : list vkind) : list tm := identity_from 0 ks.

(** A folder that overrides nothing: the default [fold_free_var_*] rebuild the variable as
    [bound_var.shifted_in_from(outer_binder)] after [shifted_out_to(outer_binder)]. *)
Fixpoint fold_id (k : N) (t : tm) : tm :=
  match t with
  | Var s d i => if k <=? d then Var s ((d - k) + k) i else t
  | CVar d i c => if k <=? d then CVar ((d - k) + k) i (fold_id k c) else t
  | Node h cs => Node h (map (fold_id (under h k)) cs)
  end.

(** ** List-monad helpers *)

Lemma omap_map_some {A B} (f : B -> option A) (g : A -> B) (l : list A) :
  Forall (fun x => f (g x) = Some x) l -> omap f (map g l) = Some l.
Proof.
  induction 1 as [| x r Hx _ IH]; cbn [map omap]; [reflexivity |].
  rewrite Hx, IH. reflexivity.
Qed.

Lemma omap_some_inv {A B} (f : A -> option B) (l : list A) (l' : list B) :
  omap f l = Some l' -> Forall2 (fun x y => f x = Some y) l l'.
Proof.
  revert l'. induction l as [| x r IH]; cbn [omap]; intros l' H.
  - inversion H. constructor.
  - destruct (f x) as [y |] eqn:Ex; [| discriminate].
    destruct (omap f r) as [ys |] eqn:Er; [| discriminate].
    inversion H; subst. constructor; [assumption | apply IH; reflexivity].
Qed.

Lemma Forall2_map_back {A B} (f : A -> option B) (g : B -> A) (l : list A) (l' : list B) :
  Forall (fun x => forall y, f x = Some y -> g y = x) l ->
  Forall2 (fun x y => f x = Some y) l l' -> map g l' = l.
Proof.
  intros HF H2. induction H2 as [| x y r r' Hxy _ IHr]; [reflexivity |].
  apply Forall_cons_iff in HF. destruct HF as [Hx Hr]. cbn [map].
  f_equal; [apply Hx; assumption | apply IHr; assumption].
Qed.

Lemma rmap_ok {A B} (f : A -> res B) (l : list A) (l' : list B) :
  Forall2 (fun x y => f x = Ok y) l l' -> rmap f l = Ok l'.
Proof.
  induction 1 as [| x y r r' Hx _ IH]; cbn [rmap rbind]; [reflexivity |].
  rewrite Hx. cbn [rbind]. rewrite IH. reflexivity.
Qed.

Lemma rmap_map {A B C} (f : B -> res C) (g : A -> B) (l : list A) :
  rmap f (map g l) = rmap (fun x => f (g x)) l.
Proof. induction l as [| x r IH]; cbn [map rmap]; [reflexivity | rewrite IH; reflexivity]. Qed.

Lemma rmap_ext_in {A B} (f g : A -> res B) (l : list A) :
  Forall (fun x => f x = g x) l -> rmap f l = rmap g l.
Proof. induction 1 as [| x r Hx _ IH]; cbn [rmap]; [reflexivity | rewrite Hx, IH; reflexivity]. Qed.

Definition res_map {A B} (f : A -> B) (r : res A) : res B :=
  match r with Ok a => Ok (f a) | Panic s => Panic s end.

Lemma rmap_res_map {A B C} (f : A -> res B) (g : B -> C) (h : A -> res C) (l : list A) :
  Forall (fun x => res_map g (f x) = h x) l -> res_map (map g) (rmap f l) = rmap h l.
Proof.
  induction 1 as [| x r Hx _ IH]; cbn [rmap]; [reflexivity |].
  rewrite <- Hx, <- IH. destruct (f x) as [y | s]; cbn [rbind res_map]; [| reflexivity].
  destruct (rmap f r) as [ys | s]; reflexivity.
Qed.

(** ** Shifting laws *)

Ltac var_eq :=
  lazymatch goal with
  | |- Ok _ = Ok _ => f_equal; var_eq
  | |- Some _ = Some _ => f_equal; var_eq
  | |- Var _ ?a _ = Var _ ?b _ => replace a with b by lia; reflexivity
  | |- CVar ?a _ _ = CVar ?b _ _ => replace a with b by lia; reflexivity
  end.

Lemma under_le h k k' : k <= k' -> under h k <= under h k'.
Proof. unfold under. destruct (binds h); lia. Qed.

Lemma under_add h k c : under h (c + k) = c + under h k.
Proof. unfold under. destruct (binds h); lia. Qed.

(** Shifting in by [n] and out by [n] at the same cut-off returns the term. *)
Lemma shift_out_in_lemma : forall t n k, shift_out n k (shift_in n k t) = Some t.
Proof.
  induction t as [s d i | d i c IH | h cs IH] using tm_ind'; intros n k; cbn [shift_in].
  - destruct (N.leb_spec k d) as [H | H]; cbn [shift_out].
    + destruct (N.leb_spec k (d + n)); [| lia].
      destruct (N.leb_spec n (d + n - k)); [| lia]. var_eq.
    + destruct (N.leb_spec k d); [lia | reflexivity].
  - destruct (N.leb_spec k d) as [H | H]; cbn [shift_out].
    + destruct (N.leb_spec k (d + n)); [| lia].
      destruct (N.leb_spec n (d + n - k)); [| lia]. var_eq.
    + destruct (N.leb_spec k d); [lia | reflexivity].
  - cbn [shift_out]. rewrite omap_map_some; [reflexivity |].
    eapply Forall_impl; [| exact IH]. intros x Hx. apply Hx.
Qed.

(** If shifting out succeeds, shifting the result back in gives the original term. *)
Lemma shift_in_out_lemma : forall t n k t', shift_out n k t = Some t' -> shift_in n k t' = t.
Proof.
  induction t as [s d i | d i c IH | h cs IH] using tm_ind'; intros n k t'; cbn [shift_out].
  - destruct (N.leb_spec k d) as [H | H].
    + destruct (N.leb_spec n (d - k)) as [H2 | H2]; [| discriminate].
      intros E; inversion E; subst. cbn [shift_in].
      destruct (N.leb_spec k (d - n)); [| lia]. var_eq.
    + intros E; inversion E; subst. cbn [shift_in]. destruct (N.leb_spec k d); [lia | reflexivity].
  - destruct (N.leb_spec k d) as [H | H].
    + destruct (N.leb_spec n (d - k)) as [H2 | H2]; [| discriminate].
      intros E; inversion E; subst. cbn [shift_in].
      destruct (N.leb_spec k (d - n)); [| lia]. var_eq.
    + intros E; inversion E; subst. cbn [shift_in]. destruct (N.leb_spec k d); [lia | reflexivity].
  - destruct (omap (shift_out n (under h k)) cs) as [cs' |] eqn:E; cbn [option_map]; [| discriminate].
    intros E'; inversion E'; subst. cbn [shift_in]. f_equal.
    apply omap_some_inv in E. eapply Forall2_map_back; [| exact E].
    eapply Forall_impl; [| exact IH]. intros x Hx y Hy. eapply Hx. exact Hy.
Qed.

Lemma shift_in_0 : forall t k, shift_in 0 k t = t.
Proof.
  induction t as [s d i | d i c IH | h cs IH] using tm_ind'; intros k; cbn [shift_in].
  - destruct (k <=? d); [var_eq | reflexivity].
  - destruct (k <=? d); [var_eq | reflexivity].
  - f_equal. rewrite <- (map_id cs) at 2. apply map_ext_in. intros x Hx.
    rewrite Forall_forall in IH. apply IH. assumption.
Qed.

(** Two shifts whose cut-offs are ordered commute (the standard de Bruijn lemma). *)

Lemma shift_in_commute : forall t n m c k,
  c <= k ->
  shift_in n c (shift_in m k t) = shift_in m (k + n) (shift_in n c t).
Proof.
  induction t as [s d i | d i c0 IH | h cs IH] using tm_ind'; intros n m c k Hck; cbn [shift_in].
  - destruct (N.leb_spec k d) as [H | H]; cbn [shift_in].
    + destruct (N.leb_spec c d); [| lia]. destruct (N.leb_spec c (d + m)); [| lia]. cbn [shift_in].
      destruct (N.leb_spec (k + n) (d + n)); [| lia]. var_eq.
    + destruct (N.leb_spec c d) as [H2 | H2]; cbn [shift_in].
      * destruct (N.leb_spec (k + n) (d + n)); [lia | reflexivity].
      * destruct (N.leb_spec (k + n) d); [lia | reflexivity].
  - destruct (N.leb_spec k d) as [H | H]; cbn [shift_in].
    + destruct (N.leb_spec c d); [| lia]. destruct (N.leb_spec c (d + m)); [| lia]. cbn [shift_in].
      destruct (N.leb_spec (k + n) (d + n)); [| lia]. var_eq.
    + destruct (N.leb_spec c d) as [H2 | H2]; cbn [shift_in].
      * destruct (N.leb_spec (k + n) (d + n)); [lia | reflexivity].
      * destruct (N.leb_spec (k + n) d); [lia | reflexivity].
  - f_equal. rewrite !map_map. apply map_ext_in. intros x Hx.
    rewrite Forall_forall in IH. rewrite (IH x Hx n m (under h c) (under h k)) by (apply under_le; assumption).
    f_equal. unfold under. destruct (binds h); lia.
Qed.

Lemma kind_of_shift_in t n k : kind_of (shift_in n k t) = kind_of t.
Proof.
  destruct t as [s d i | d i c | h cs]; cbn [shift_in]; [destruct (k <=? d) .. |]; reflexivity.
Qed.

(** ** Substitution laws *)

(** Substitution commutes with shifting the outer context: shifting the result of a
    substitution (cut-off [c] levels outside the [k] binders traversed so far) equals
    substituting the shifted parameters into the term shifted under the substituted binder. *)
Lemma subst_shift_commute_lemma : forall t ps n c k,
  res_map (shift_in n (c + k)) (subst ps k t)
  = subst (map (shift_in n c) ps) k (shift_in n (c + k + 1) t).
Proof.
  induction t as [s d i | d i c0 IH | h cs IH] using tm_ind'; intros ps n c k; cbn [subst shift_in].
  - destruct (N.leb_spec k d) as [H | H].
    + destruct (N.eqb_spec d k) as [E | E].
      * subst d. destruct (N.leb_spec (c + k + 1) k); [lia |]. cbn [subst].
        destruct (N.leb_spec k k); [| lia]. rewrite N.eqb_refl.
        rewrite nth_error_map. destruct (nth_error ps (N.to_nat i)) as [p |]; cbn [option_map res_map]; [| reflexivity].
        rewrite kind_of_shift_in. destruct (kind_eqb (kind_of p) (sort_kind s)); cbn [res_map]; [| reflexivity].
        f_equal. replace (c + k) with (k + c) by lia.
        rewrite (shift_in_commute p k n 0 c) by lia. f_equal. lia.
      * cbn [res_map shift_in].
        destruct (N.leb_spec (c + k + 1) d) as [H2 | H2]; cbn [subst].
        -- destruct (N.leb_spec k (d + n)); [| lia]. destruct (N.eqb_spec (d + n) k); [lia |].
           destruct (N.leb_spec (c + k) (d - 1)); [| lia]. var_eq.
        -- destruct (N.leb_spec k d); [| lia]. destruct (N.eqb_spec d k); [lia |].
           destruct (N.leb_spec (c + k) (d - 1)); [lia | reflexivity].
    + cbn [res_map shift_in]. destruct (N.leb_spec (c + k) d); [lia |].
      destruct (N.leb_spec (c + k + 1) d); [lia |]. cbn [subst].
      destruct (N.leb_spec k d); [lia | reflexivity].
  - destruct (N.leb_spec k d) as [H | H].
    + destruct (N.eqb_spec d k) as [E | E].
      * subst d. destruct (N.leb_spec (c + k + 1) k); [lia |]. cbn [subst].
        destruct (N.leb_spec k k); [| lia]. rewrite N.eqb_refl.
        rewrite nth_error_map. destruct (nth_error ps (N.to_nat i)) as [p |]; cbn [option_map res_map]; [| reflexivity].
        rewrite kind_of_shift_in. destruct (kind_eqb (kind_of p) KConst); cbn [res_map]; [| reflexivity].
        f_equal. replace (c + k) with (k + c) by lia.
        rewrite (shift_in_commute p k n 0 c) by lia. f_equal. lia.
      * cbn [res_map shift_in].
        destruct (N.leb_spec (c + k + 1) d) as [H2 | H2]; cbn [subst].
        -- destruct (N.leb_spec k (d + n)); [| lia]. destruct (N.eqb_spec (d + n) k); [lia |].
           destruct (N.leb_spec (c + k) (d - 1)); [| lia]. var_eq.
        -- destruct (N.leb_spec k d); [| lia]. destruct (N.eqb_spec d k); [lia |].
           destruct (N.leb_spec (c + k) (d - 1)); [lia | reflexivity].
    + cbn [res_map shift_in]. destruct (N.leb_spec (c + k) d); [lia |].
      destruct (N.leb_spec (c + k + 1) d); [lia |]. cbn [subst].
      destruct (N.leb_spec k d); [lia | reflexivity].
  - rewrite rmap_map.
    assert (L : res_map (map (shift_in n (under h (c + k)))) (rmap (subst ps (under h k)) cs)
                = rmap (fun x => subst (map (shift_in n c) ps) (under h k) (shift_in n (under h (c + k + 1)) x)) cs).
    { apply rmap_res_map. eapply Forall_impl; [| exact IH]. intros x Hx. cbn beta.
      rewrite under_add. rewrite Hx. f_equal. f_equal. unfold under. destruct (binds h); lia. }
    rewrite <- L. destruct (rmap (subst ps (under h k)) cs) as [cs' | s]; cbn [rbind res_map shift_in]; reflexivity.
Qed.

(** Well-kindedness of a term w.r.t. the kinds of the binder at relative depth [k]:
    every variable bound there has an index in range and the declared kind (for a const
    variable the const's type must be the binder's declared const type, [usize]). *)
Fixpoint well_kinded (ks : list vkind) (k : N) (t : tm) : Prop :=
  match t with
  | Var s d i => d = k -> match nth_error ks (N.to_nat i), s with
                          | Some (VTy _), STy | Some VLt, SLt => True
                          | _, _ => False
                          end
  | CVar d i c => d = k -> nth_error ks (N.to_nat i) = Some VConst /\ c = usize_ty
  | Node h cs => (fix go (l : list tm) : Prop :=
                    match l with [] => True | x :: r => well_kinded ks (under h k) x /\ go r end) cs
  end.

Lemma well_kinded_node ks k h cs :
  well_kinded ks k (Node h cs) <-> Forall (well_kinded ks (under h k)) cs.
Proof.
  cbn [well_kinded]. induction cs as [| x r IH]; [split; constructor |].
  rewrite IH. split; [intros [H1 H2]; constructor; assumption | intros H; inversion H; auto].
Qed.

Lemma nth_error_identity_from ks : forall j i,
  nth_error (identity_from j ks) i = option_map (fun k => bound_var_of k (j + N.of_nat i)) (nth_error ks i).
Proof.
  induction ks as [| k r IH]; intros j i; destruct i as [| i]; cbn [identity_from nth_error option_map]; try reflexivity.
  - f_equal. f_equal. lia.
  - rewrite IH. destruct (nth_error r i); cbn [option_map]; [| reflexivity]. f_equal. f_equal. lia.
Qed.

(** Substituting a binder's own variables for itself is the identity: with [t] the body of
    [Binders::new(ks, t)] re-embedded under a copy of its binder ([shift_in 1 (k+1)] lifts the
    variables of the outer context over that copy), substituting the identity substitution
    gives [t] back. *)
Lemma subst_identity_lemma : forall t ks k,
  well_kinded ks k t -> subst (identity_subst ks) k (shift_in 1 (k + 1) t) = Ok t.
Proof.
  induction t as [s d i | d i c IH | h cs IH] using tm_ind'; intros ks k WK; cbn [shift_in].
  - destruct (N.leb_spec (k + 1) d) as [H | H]; cbn [subst].
    + destruct (N.leb_spec k (d + 1)); [| lia]. destruct (N.eqb_spec (d + 1) k); [lia |]. var_eq.
    + destruct (N.leb_spec k d) as [H2 | H2]; [| reflexivity].
      destruct (N.eqb_spec d k) as [E | E]; [| lia]. subst d.
      cbn [well_kinded] in WK. specialize (WK eq_refl). unfold identity_subst.
      rewrite nth_error_identity_from. destruct (nth_error ks (N.to_nat i)) as [vk |]; [| destruct WK].
      cbn [option_map]. rewrite N.add_0_l, N2Nat.id.
      destruct vk as [tk | |], s; try destruct WK; cbn [bound_var_of kind_of sort_kind kind_eqb shift_in];
        destruct (N.leb_spec 0 0); try lia; var_eq.
  - destruct (N.leb_spec (k + 1) d) as [H | H]; cbn [subst].
    + destruct (N.leb_spec k (d + 1)); [| lia]. destruct (N.eqb_spec (d + 1) k); [lia |]. var_eq.
    + destruct (N.leb_spec k d) as [H2 | H2]; [| reflexivity].
      destruct (N.eqb_spec d k) as [E | E]; [| lia]. subst d.
      cbn [well_kinded] in WK. destruct (WK eq_refl) as [WK1 WK2]. unfold identity_subst.
      rewrite nth_error_identity_from, WK1. cbn [option_map bound_var_of kind_of kind_eqb shift_in].
      rewrite N.add_0_l, N2Nat.id. destruct (N.leb_spec 0 0); [| lia]. subst c. var_eq.
  - cbn [subst]. rewrite rmap_map. apply well_kinded_node in WK.
    rewrite (rmap_ok _ cs cs); [reflexivity |].
    clear - IH WK. induction cs as [| x r IHr]; [constructor |].
    inversion IH; subst. inversion WK; subst. constructor; [| apply IHr; assumption].
    replace (under h (k + 1)) with (under h k + 1) by (unfold under; destruct (binds h); lia).
    apply H1. assumption.
Qed.

(** A substitution whose parameters cover the binder and have the right kinds never panics. *)
Fixpoint params_cover (ps : list tm) (k : N) (t : tm) : Prop :=
  match t with
  | Var s d i => d = k -> exists p, nth_error ps (N.to_nat i) = Some p /\ kind_of p = sort_kind s
  | CVar d i c => d = k -> exists p, nth_error ps (N.to_nat i) = Some p /\ kind_of p = KConst
  | Node h cs => (fix go (l : list tm) : Prop :=
                    match l with [] => True | x :: r => params_cover ps (under h k) x /\ go r end) cs
  end.

Lemma params_cover_node ps k h cs :
  params_cover ps k (Node h cs) <-> Forall (params_cover ps (under h k)) cs.
Proof.
  cbn [params_cover]. induction cs as [| x r IH]; [split; constructor |].
  rewrite IH. split; [intros [H1 H2]; constructor; assumption | intros H; inversion H; auto].
Qed.

Lemma kind_eqb_refl a : kind_eqb a a = true.
Proof. destruct a; reflexivity. Qed.

Lemma subst_no_panic_lemma : forall t ps k, params_cover ps k t -> exists t', subst ps k t = Ok t'.
Proof.
  induction t as [s d i | d i c IH | h cs IH] using tm_ind'; intros ps k PC; cbn [subst].
  - destruct (k <=? d); [| eauto]. destruct (N.eqb_spec d k) as [E | E]; [| eauto].
    destruct (PC E) as (p & -> & Hk). rewrite Hk, kind_eqb_refl. eauto.
  - destruct (k <=? d); [| eauto]. destruct (N.eqb_spec d k) as [E | E]; [| eauto].
    destruct (PC E) as (p & -> & Hk). rewrite Hk. cbn [kind_eqb]. eauto.
  - apply params_cover_node in PC.
    assert (L : exists cs', rmap (subst ps (under h k)) cs = Ok cs').
    { clear - IH PC. induction cs as [| x r IHr]; [exists []; reflexivity |].
      inversion IH; subst. inversion PC; subst.
      destruct (H1 ps (under h k) H3) as (x' & Ex). destruct (IHr H2 H4) as (r' & Er).
      exists (x' :: r'). cbn [rmap]. rewrite Ex. cbn [rbind]. rewrite Er. reflexivity. }
    destruct L as (cs' & ->). cbn [rbind]. eauto.
Qed.

(** Folding with a folder that changes nothing returns an equal term. *)
Lemma fold_id_lemma : forall t k, fold_id k t = t.
Proof.
  induction t as [s d i | d i c IH | h cs IH] using tm_ind'; intros k; cbn [fold_id].
  - destruct (N.leb_spec k d); [var_eq | reflexivity].
  - destruct (N.leb_spec k d); [rewrite IH; f_equal; lia | reflexivity].
  - f_equal. rewrite <- (map_id cs) at 2. apply map_ext_in. intros x Hx.
    rewrite Forall_forall in IH. apply IH. assumption.
Qed.

(** Non-vacuity: a nested term with variables at three depths under fn-pointer and dyn binders. *)
Definition example_term : tm :=
  Node (HFnPtr 1 AbiRust Safe false)
    [Node (HRef Not) [Var SLt 0 0; Node (HAdt 1) [Var STy 1 0; Var STy 2 1]];
     Node HDyn [Node (HBinders [VTy General]) [Node HList [Node (HBinders [VLt])
        [Node HImplemented [Node (HTraitRef 0) [Var STy 1 0; Var STy 3 0; Node HArray [Var STy 4 2; CVar 3 1 usize_ty]]]]]];
                Var SLt 1 2]].

Example fold_example_nonvacuous :
  shift_in 2 0 example_term <> example_term
  /\ shift_out 2 0 (shift_in 2 0 example_term) = Some example_term
  /\ shift_out 1 0 example_term = None
  /\ well_kinded [VTy General; VLt; VConst] 0 (Node (HTuple 2) [Var STy 0 0; Node HArray [Var STy 1 0; CVar 0 2 usize_ty]])
  /\ exists t', subst [Node HStr []; Node (HCConcrete 7) [usize_ty]; Node HLStatic []] 0 example_term = Ok t' /\ t' <> example_term.
Proof.
  split; [vm_compute; intros H; discriminate H |].
  split; [reflexivity |]. split; [reflexivity |].
  split; [cbn; repeat split; intros; try reflexivity; discriminate |].
  eexists. split; [vm_compute; reflexivity | intros H; discriminate H].
Qed.

(** ** Further laws (used by chalk everywhere, not part of C25's wording) *)

(** Two shifts at the same cut-off add up. *)
Lemma shift_in_shift_in_lemma : forall t n m k, shift_in m k (shift_in n k t) = shift_in (n + m) k t.
Proof.
  induction t as [s d i | d i c IH | h cs IH] using tm_ind'; intros n m k; cbn [shift_in].
  - destruct (N.leb_spec k d) as [H | H]; cbn [shift_in].
    + destruct (N.leb_spec k (d + n)); [| lia]. var_eq.
    + destruct (N.leb_spec k d); [lia | reflexivity].
  - destruct (N.leb_spec k d) as [H | H]; cbn [shift_in].
    + destruct (N.leb_spec k (d + n)); [| lia]. var_eq.
    + destruct (N.leb_spec k d); [lia | reflexivity].
  - f_equal. rewrite map_map. apply map_ext_in. intros x Hx.
    rewrite Forall_forall in IH. apply IH. assumption.
Qed.

(** Substituting into a term that was just shifted over the substituted binder gives the
    term back, whatever the parameters (it does not mention the binder). *)
Lemma subst_shift_cancel_lemma : forall t ps k, subst ps k (shift_in 1 k t) = Ok t.
Proof.
  induction t as [s d i | d i c IH | h cs IH] using tm_ind'; intros ps k; cbn [shift_in].
  - destruct (N.leb_spec k d) as [H | H]; cbn [subst].
    + destruct (N.leb_spec k (d + 1)); [| lia]. destruct (N.eqb_spec (d + 1) k); [lia |]. var_eq.
    + destruct (N.leb_spec k d); [lia | reflexivity].
  - destruct (N.leb_spec k d) as [H | H]; cbn [subst].
    + destruct (N.leb_spec k (d + 1)); [| lia]. destruct (N.eqb_spec (d + 1) k); [lia |]. var_eq.
    + destruct (N.leb_spec k d); [lia | reflexivity].
  - cbn [subst]. rewrite rmap_map. rewrite (rmap_ok _ cs cs); [reflexivity |].
    clear - IH. induction IH as [| x r Hx _ IHr]; constructor; [apply Hx | exact IHr].
Qed.

(** ** [Substitution::apply] ([SubstFolder], chalk-ir/src/lib.rs)

    Same as [Subst] except that every free variable must belong to the substituted binder
    ([assert_eq!(bound_var.debruijn, INNERMOST)]). *)
Fixpoint subst_apply (ps : list tm) (k : N) (t : tm) : res tm :=
  match t with
  | Var s d i =>
      if k <=? d then
        if d =? k then
          match nth_error ps (N.to_nat i) with
          | None => Panic IndexOutOfBounds
          | Some p => if kind_eqb (kind_of p) (sort_kind s) then Ok (shift_in k 0 p) else Panic UnwrapNone
          end
        else Panic AssertFailed
      else Ok t
  | CVar d i c =>
      if k <=? d then
        if d =? k then
          match nth_error ps (N.to_nat i) with
          | None => Panic IndexOutOfBounds
          | Some p => if kind_eqb (kind_of p) KConst then Ok (shift_in k 0 p) else Panic UnwrapNone
          end
        else Panic AssertFailed
      else Ok t
  | Node h cs => rbind (rmap (subst_apply ps (under h k)) cs) (fun cs' => Ok (Node h cs'))
  end.

Lemma rmap_ok_inv {A B} (f : A -> res B) (l : list A) (l' : list B) :
  rmap f l = Ok l' -> Forall2 (fun x y => f x = Ok y) l l'.
Proof.
  revert l'. induction l as [| x r IH]; cbn [rmap]; intros l' H.
  - inversion H. constructor.
  - destruct (f x) as [y | s] eqn:Ex; cbn [rbind] in H; [| discriminate H].
    destruct (rmap f r) as [ys | s] eqn:Er; cbn [rbind] in H; [| discriminate H].
    inversion H; subst. constructor; [assumption | apply IH; reflexivity].
Qed.

(** Whenever [Substitution::apply] does not panic it computes what [Subst::apply] computes, so
    every law of [subst] transfers to it. *)
Lemma subst_apply_agrees_lemma : forall t ps k t', subst_apply ps k t = Ok t' -> subst ps k t = Ok t'.
Proof.
  induction t as [s d i | d i c IH | h cs IH] using tm_ind'; intros ps k t'; cbn [subst_apply subst].
  - destruct (k <=? d); [| trivial]. destruct (d =? k); [| discriminate].
    destruct (nth_error ps (N.to_nat i)) as [p |]; [| discriminate].
    destruct (kind_eqb (kind_of p) (sort_kind s)); [trivial | discriminate].
  - destruct (k <=? d); [| trivial]. destruct (d =? k); [| discriminate].
    destruct (nth_error ps (N.to_nat i)) as [p |]; [| discriminate].
    destruct (kind_eqb (kind_of p) KConst); [trivial | discriminate].
  - destruct (rmap (subst_apply ps (under h k)) cs) as [cs' | s] eqn:E; cbn [rbind]; [| discriminate].
    intros H; inversion H; subst. apply rmap_ok_inv in E.
    rewrite (rmap_ok _ cs cs'); [reflexivity |].
    clear H. induction E as [| x y r r' Hxy _ IHr]; [constructor |].
    inversion IH; subst. constructor; [eauto | apply IHr; assumption].
Qed.
