(** * Rules.Auto — the auto-trait rule (property C05).

    Model (R) of chalk-solve/src/clauses.rs [constituent_types] / [push_auto_trait_impls]
    and of chalk-integration/src/program.rs [Program::impl_provided_for], as a clause
    generator in the sense of Rules/Types.v; an independently written rule system
    ([same_ctor], [constituents_of], [auto_rule], [auto_spec]: the greatest set closed under
    "an explicit positive impl applies and its where-clauses hold, or — no explicit impl,
    positive or negative, for the type constructor — every constituent type is in the set
    or holds"); and the theorem that the meaning of the generated clauses is that rule
    system ([auto_clauses_spec]).

    Closures, coroutines, opaque types and fn-def types are not modelled (they need binders
    or further declarations); [view] maps them to [VOther], for which nothing is generated. *)

From Chalk Require Export Rules.Types.
Local Open Scope N_scope.

(** ** The model of the Rust functions *)

Definition fields_of (d : adt) : list ty := concat (a_variants d).

(** clauses.rs [constituent_types]; [None] = the Rust function panics (wrong number of
    arguments in [Binders::substitute], or a kind of type it must not be called for). *)
Definition constituent_types (D : decls) (t : ty) : option (list ty) :=
  match view t with
  | VAdt id args =>
      match find_adt (d_adts D) id with
      | Some d =>
          if a_phantom d then Some args
          else if Nat.eqb (length args) (a_np d) then Some (map (subst (listth args)) (fields_of d))
          else None
      | None => None
      end
  | VTuple args => Some args
  | VArray t _ => Some [t]
  | VSlice t => Some [t]
  | VRaw _ t => Some [t]
  | VRef _ t => Some [t]
  | VStr => Some []
  | VNever => Some []
  | VScalar _ => Some []
  | _ => None
  end.

(** The table of program.rs [impl_provided_for]: first component the type asked about,
    second the self type of an impl.  (The [VFnPtr] row is the one added by the fix
    "impl_provided_for recognises impls for fn pointer types".) *)
Definition same_ctor_b (v1 v2 : tview) : bool :=
  match v1, v2 with
  | VAdt a _, VAdt b _ => a =? b
  | VScalar a, VScalar b => a =? b
  | VStr, VStr => true
  | VTuple a, VTuple b => Nat.eqb (length a) (length b)
  | VSlice _, VSlice _ => true
  | VRef a _, VRef b _ => Bool.eqb a b
  | VRaw a _, VRaw b _ => Bool.eqb a b
  | VNever, VNever => true
  | VArray _ _, VArray _ _ => true
  | VForeign a, VForeign b => a =? b
  | VFnPtr a, VFnPtr b => Nat.eqb (length a) (length b)
  | _, _ => false
  end.

Definition impl_provided_for (D : decls) (A : N) (t : ty) : bool :=
  existsb (fun i => match hsym (i_head i), targs (i_head i) with
                    | Some tr, s :: _ => (tr =? A) && same_ctor_b (view t) (view s)
                    | _, _ => false
                    end) (d_impls D).

(** clauses.rs [push_auto_trait_impls] for the self type [t] of the goal. *)
Definition push_auto_trait_impls (D : decls) (A : N) (t : ty) : list clause :=
  if impl_provided_for D A t then []
  else match view t with
       | VFnPtr _ => [mkClause (atom A t) []]      (* function types: unconditionally *)
       | VForeign _ => []
       | VPlaceholder _ => []
       | VDyn _ => []
       | VOther => []                              (* variables: Floundered; not a type *)
       | _ => match constituent_types D t with
              | Some cs => [mkClause (atom A t) (map (atom A) cs)]
              | None => []
              end
       end.

(** The part of [program_clauses_that_could_match] that concerns auto traits. *)
Definition auto_gen (D : decls) : generator :=
  fun a => match a with
           | TAp (TCon A) t => if is_auto D A then push_auto_trait_impls D A t else []
           | _ => []
           end.

(** ** The rule system, written independently of the functions above *)

(** Two types have the same type constructor. *)
Inductive same_ctor : ty -> ty -> Prop :=
| sc_adt : forall id a1 a2, (id <? adt_limit) = true -> same_ctor (tAdt id a1) (tAdt id a2)
| sc_scalar : forall k, same_ctor (tScalar k) (tScalar k)
| sc_str : same_ctor tStr tStr
| sc_never : same_ctor tNever tNever
| sc_tuple : forall a1 a2, length a1 = length a2 -> same_ctor (tTuple a1) (tTuple a2)
| sc_array : forall t1 n1 t2 n2, same_ctor (tArray t1 n1) (tArray t2 n2)
| sc_slice : forall t1 t2, same_ctor (tSlice t1) (tSlice t2)
| sc_ref : forall m t1 t2, same_ctor (tRef m t1) (tRef m t2)
| sc_raw : forall m t1 t2, same_ctor (tRaw m t1) (tRaw m t2)
| sc_fnptr : forall a1 a2, length a1 = length a2 -> same_ctor (tFnPtr a1) (tFnPtr a2)
| sc_foreign : forall id, same_ctor (tForeign id) (tForeign id).

(** Some impl of [A], positive or negative, is written for the type constructor of [t]. *)
Definition ctor_has_impl (D : decls) (A : N) (t : ty) : Prop :=
  exists i s ps, In i (d_impls D) /\ i_head i = tapp A (s :: ps) /\ same_ctor t s.

(** The constituent types of a structural type: fields of all variants, elements, pointees. *)
Inductive constituents_of (D : decls) : ty -> list ty -> Prop :=
| ct_adt : forall d args,
    find_adt (d_adts D) (a_id d) = Some d -> (a_id d <? adt_limit) = true ->
    a_phantom d = false -> length args = a_np d ->
    constituents_of D (tAdt (a_id d) args) (map (subst (listth args)) (concat (a_variants d)))
| ct_phantom : forall d args,
    find_adt (d_adts D) (a_id d) = Some d -> (a_id d <? adt_limit) = true ->
    a_phantom d = true ->
    constituents_of D (tAdt (a_id d) args) args
| ct_tuple : forall args, constituents_of D (tTuple args) args
| ct_array : forall t n, constituents_of D (tArray t n) [t]
| ct_slice : forall t, constituents_of D (tSlice t) [t]
| ct_ref : forall m t, constituents_of D (tRef m t) [t]
| ct_raw : forall m t, constituents_of D (tRaw m t) [t]
| ct_scalar : forall k, constituents_of D (tScalar k) []
| ct_str : constituents_of D tStr []
| ct_never : constituents_of D tNever []
| ct_fnptr : forall args, constituents_of D (tFnPtr args) [].   (* fn pointers: no requirement *)

(** The structural half of the auto-trait rule. *)
Definition auto_sr (D : decls) (A : N) (t : ty) (cs : list ty) : Prop :=
  ~ ctor_has_impl D A t /\ constituents_of D t cs.

(** ** Model = rule system, clause by clause *)

Lemma same_ctor_b_spec : forall t s, same_ctor_b (view t) (view s) = true <-> same_ctor t s.
Proof.
  intros t s. split.
  - intro H. destruct (view t) eqn:Et; destruct (view s) eqn:Es; cbn [same_ctor_b] in H; try discriminate H;
      view_inv Et; view_inv Es.
    + apply N.eqb_eq in H. subst. now apply sc_adt.
    + apply N.eqb_eq in H. subst. apply sc_scalar.
    + apply sc_str.
    + apply sc_never.
    + apply Nat.eqb_eq in H. now apply sc_tuple.
    + apply sc_array.
    + apply sc_slice.
    + apply Bool.eqb_prop in H. subst. apply sc_ref.
    + apply Bool.eqb_prop in H. subst. apply sc_raw.
    + apply Nat.eqb_eq in H. now apply sc_fnptr.
    + apply N.eqb_eq in H. subst. apply sc_foreign.
  - intro H. inversion H; subst;
      rewrite ?view_adt, ?view_scalar, ?view_str, ?view_never, ?view_tuple, ?view_array, ?view_slice,
              ?view_ref, ?view_raw, ?view_fnptr, ?view_foreign by assumption; cbn [same_ctor_b].
    + apply N.eqb_refl.
    + apply N.eqb_refl.
    + reflexivity.
    + reflexivity.
    + now apply Nat.eqb_eq.
    + reflexivity.
    + reflexivity.
    + apply Bool.eqb_reflx.
    + apply Bool.eqb_reflx.
    + now apply Nat.eqb_eq.
    + apply N.eqb_refl.
Qed.

Lemma impl_provided_for_spec : forall D A t, impl_provided_for D A t = true <-> ctor_has_impl D A t.
Proof.
  intros D A t. unfold impl_provided_for, ctor_has_impl. rewrite existsb_exists. split.
  - intros [i [Hi H]]. destruct (hsym (i_head i)) as [tr|] eqn:Eh; [|discriminate].
    destruct (targs (i_head i)) as [|s ps] eqn:Ea; [discriminate|].
    apply andb_true_iff in H. destruct H as [H1 H2]. apply N.eqb_eq in H1. subst tr.
    exists i, s, ps. split; [exact Hi|]. split; [|now apply same_ctor_b_spec].
    rewrite <- Ea. now apply tapp_targs.
  - intros [i [s [ps [Hi [Eh Hs]]]]]. exists i. split; [exact Hi|].
    rewrite Eh, hsym_tapp, targs_tapp. rewrite N.eqb_refl. cbn [andb]. now apply same_ctor_b_spec.
Qed.

Lemma impl_provided_for_false : forall D A t, impl_provided_for D A t = false <-> ~ ctor_has_impl D A t.
Proof.
  intros D A t. rewrite <- impl_provided_for_spec. destruct (impl_provided_for D A t); split; congruence.
Qed.

Lemma constituent_types_sound : forall D t cs,
  constituent_types D t = Some cs -> constituents_of D t cs.
Proof.
  intros D t cs H. unfold constituent_types in H. destruct (view t) eqn:Ev; try discriminate H; view_inv Ev.
  - destruct (find_adt (d_adts D) id) as [d|] eqn:Ef; [|discriminate].
    pose proof (find_adt_id _ _ _ Ef) as Eid. subst id.
    destruct (a_phantom d) eqn:Ep.
    + inversion H; subst. now apply ct_phantom.
    + destruct (Nat.eqb (length args) (a_np d)) eqn:El; [|discriminate]. apply Nat.eqb_eq in El.
      inversion H; subst. now apply ct_adt.
  - inversion H; subst. apply ct_scalar.
  - inversion H; subst. apply ct_str.
  - inversion H; subst. apply ct_never.
  - inversion H; subst. apply ct_tuple.
  - inversion H; subst. apply ct_array.
  - inversion H; subst. apply ct_slice.
  - inversion H; subst. apply ct_ref.
  - inversion H; subst. apply ct_raw.
Qed.

(** The clause set pushed for [t: A] is exactly the set of instances of the structural rule. *)
Theorem push_auto_spec : forall D A t c,
  In c (push_auto_trait_impls D A t) <->
  exists cs, auto_sr D A t cs /\ c = mkClause (atom A t) (map (atom A) cs).
Proof.
  intros D A t c. unfold push_auto_trait_impls, auto_sr. split.
  - destruct (impl_provided_for D A t) eqn:Ei; [intros []|]. apply impl_provided_for_false in Ei.
    destruct (view t) eqn:Ev;
      try (destruct (constituent_types D t) as [cs|] eqn:Ec; [|intros []];
           intros [<-|[]]; exists cs; split; [split; [exact Ei|now apply constituent_types_sound]|reflexivity]);
      try solve [intros []].
    intros [<-|[]]. view_inv Ev. exists []. split; [split; [exact Ei|apply ct_fnptr]|reflexivity].
  - intros [cs [[Hn Hc] ->]]. apply impl_provided_for_false in Hn. rewrite Hn.
    inversion Hc; subst; unfold constituent_types;
      rewrite ?view_adt, ?view_scalar, ?view_str, ?view_never, ?view_tuple, ?view_array, ?view_slice,
              ?view_ref, ?view_raw, ?view_fnptr by assumption.
    + rewrite H, H1. rewrite (proj2 (Nat.eqb_eq _ _) H2). now left.
    + rewrite H, H1. now left.
    + now left.
    + now left.
    + now left.
    + now left.
    + now left.
    + now left.
    + now left.
    + now left.
    + now left.
Qed.

(** ** Groundness of what is generated *)

Lemma adt_closed_spec : forall d, adt_closed d = true ->
  forall f i, In f (concat (a_variants d)) -> occurs i f = true -> (i < a_np d)%nat.
Proof.
  intros d H f i Hf Hi. unfold adt_closed in H. rewrite forallb_forall in H.
  specialize (H f Hf). rewrite forallb_forall in H. apply Nat.ltb_lt. apply H. now apply vars_occurs.
Qed.

Lemma subst_args_ground : forall args f n,
  length args = n -> (forall x, In x args -> ground x) ->
  (forall i, occurs i f = true -> (i < n)%nat) -> ground (subst (listth args) f).
Proof.
  intros args f n Hl Hg Hv. apply ground_subst. intros i Hi. unfold listth. apply Hg.
  apply nth_In. rewrite Hl. now apply Hv.
Qed.

Definition adts_closed (D : decls) : Prop := forall d, In d (d_adts D) -> adt_closed d = true.

Lemma constituents_ground : forall D t cs, adts_closed D -> ground t ->
  constituents_of D t cs -> forall c, In c cs -> ground c.
Proof.
  intros D t cs Hwf Gt Hc.
  assert (Hargs : forall c' args', t = tapp c' args' -> forall x, In x args' -> ground x).
  { intros c' args' E. subst t. apply (proj1 (ground_tapp c' args')). exact Gt. }
  inversion Hc; subst; intros c Hin.
  - apply in_map_iff in Hin. destruct Hin as [f [<- Hf]].
    apply (subst_args_ground args f (a_np d)); [assumption| |].
    + now apply (Hargs _ _ eq_refl).
    + intros i Hi. eapply adt_closed_spec; eauto. apply Hwf. eapply find_adt_In; eauto.
  - now apply (Hargs _ _ eq_refl).
  - now apply (Hargs _ _ eq_refl).
  - destruct Hin as [<-|[]]. apply (Hargs _ _ eq_refl). now left.
  - destruct Hin as [<-|[]]. apply (Hargs _ _ eq_refl). now left.
  - destruct Hin as [<-|[]]. apply (Hargs _ _ eq_refl). now left.
  - destruct Hin as [<-|[]]. apply (Hargs _ _ eq_refl). now left.
  - destruct Hin.
  - destruct Hin.
  - destruct Hin.
  - destruct Hin.
Qed.

Lemma auto_gen_ok : forall D, adts_closed D -> gen_ok (auto_gen D).
Proof.
  intros D Hwf a c Ga Hc. unfold auto_gen in Hc. destruct a as [|f t| |]; try destruct Hc.
  destruct f as [A| | |]; try destruct Hc. destruct (is_auto D A); [|destruct Hc].
  apply push_auto_spec in Hc. destruct Hc as [cs [[_ Hcs] ->]]. cbn [chead cbody]. split; [reflexivity|].
  intros b Hb. apply in_map_iff in Hb. destruct Hb as [u [<- Hu]]. apply ground_atom.
  apply (constituents_ground D t cs Hwf); [apply (proj1 (ground_atom A t)); exact Ga|exact Hcs|exact Hu].
Qed.

(** ** The theorem: meaning of the generated clauses = the rule system *)

Section AutoSpec.
  Variable D : decls.
  (** The other on-demand clauses of the program (built-in traits, Rules/Builtin.v). *)
  Variable extra : generator.

  Definition gen_with : generator := fun a => auto_gen D a ++ extra a.

  Hypothesis Hadts : adts_closed D.
  Hypothesis Hrr : rr (impl_clauses D).
  Hypothesis Hextra : gen_ok extra.
  Hypothesis Hextra_auto : forall A t, is_auto D A = true -> extra (atom A t) = [].

  Lemma gen_with_ok : gen_ok gen_with.
  Proof.
    intros a c Ga Hc. unfold gen_with in Hc. apply in_app_iff in Hc. destruct Hc as [Hc|Hc].
    - now apply (auto_gen_ok D Hadts a c).
    - now apply Hextra.
  Qed.

  Notation holdsA := (holdsD D gen_with).

  (** One application of the auto-trait rule, premises judged by [Y]. *)
  Definition auto_rule (Y : ty -> Prop) (a : ty) : Prop :=
    exists A t, a = atom A t /\ is_auto D A = true /\ ground t /\
      (impl_applies D Y a \/
       exists cs, auto_sr D A t cs /\ forall c, In c cs -> Y (atom A c)).

  Lemma auto_step : forall A t Y, is_auto D A = true -> ground t ->
    (one_step D gen_with Y (atom A t) <->
     impl_applies D Y (atom A t) \/ exists cs, auto_sr D A t cs /\ forall c, In c cs -> Y (atom A c)).
  Proof.
    intros A t Y HA Gt. rewrite (one_step_split D gen_with gen_with_ok Y (atom A t)) by now apply ground_atom.
    apply or_iff_compat_l. unfold gen_applies, gen_with. rewrite (Hextra_auto A t HA), app_nil_r.
    unfold auto_gen, atom. rewrite HA. split.
    - intros [c [Hc HY]]. apply push_auto_spec in Hc. destruct Hc as [cs [Hsr ->]]. exists cs. split; [exact Hsr|].
      intros u Hu. apply HY. cbn [cbody]. now apply in_map.
    - intros [cs [Hsr HY]]. exists (mkClause (atom A t) (map (atom A) cs)). split.
      + apply push_auto_spec. now exists cs.
      + cbn [cbody]. intros b Hb. apply in_map_iff in Hb. destruct Hb as [u [<- Hu]]. apply HY. exact Hu.
  Qed.

  (** The greatest set closed under the rule (members may also lean on atoms that hold). *)
  Definition auto_spec (A : N) (t : ty) : Prop :=
    exists X : ty -> Prop,
      (forall x, X x -> auto_rule (fun b => X b \/ holdsA b) x) /\ X (atom A t).

  Theorem auto_clauses_spec : forall A t, is_auto D A = true -> ground t ->
    (holdsA (atom A t) <-> auto_spec A t).
  Proof.
    intros A t HA Gt.
    set (Q := fun a : ty => exists A' t', a = atom A' t' /\ is_auto D A' = true /\ ground t').
    assert (HQ : forall a, Q a -> isco (coD D) a = true).
    { intros a [A' [t' [-> [H1 _]]]]. rewrite isco_atom. now apply is_auto_co. }
    assert (Qa : Q (atom A t)) by (exists A, t; auto).
    rewrite (co_class_spec D gen_with Q HQ (atom A t) Qa). unfold auto_spec. split.
    - intros [X [HX Xa]]. exists X. split; [|exact Xa]. intros x Xx. destruct (HX x Xx) as [[A' [t' [-> [H1 H2]]]] Hs].
      exists A', t'. repeat split; auto. now apply auto_step.
    - intros [X [HX Xa]]. exists X. split; [|exact Xa]. intros x Xx.
      destruct (HX x Xx) as [A' [t' [-> [H1 [H2 H3]]]]]. split; [exists A', t'; auto|]. now apply auto_step.
  Qed.

  (** The fixed-point equation (one unfolding), often the more readable statement. *)
  Theorem auto_unfold : forall A t, is_auto D A = true -> ground t ->
    (holdsA (atom A t) <-> auto_rule holdsA (atom A t)).
  Proof.
    intros A t HA Gt. rewrite holdsD_unfold. rewrite (auto_step A t _ HA Gt). unfold auto_rule. split.
    - intro H. exists A, t. auto.
    - intros [A' [t' [E [_ [_ H]]]]]. inversion E; subst. exact H.
  Qed.

  (** A negative impl (or any impl that does not apply) for the type constructor and no
      applicable positive impl: the auto trait does not hold. *)
  Corollary auto_negative : forall A t, is_auto D A = true -> ground t ->
    ctor_has_impl D A t -> ~ impl_applies D holdsA (atom A t) -> ~ holdsA (atom A t).
  Proof.
    intros A t HA Gt Hc Hn H. apply (auto_unfold A t HA Gt) in H.
    destruct H as [A' [t' [E [_ [_ [H|[cs [[Hno _] _]]]]]]]]; inversion E; subst; auto.
  Qed.
End AutoSpec.

(** ** The known class F7 (SLG, history dependence after a coinductive cycle).

    [f7_class fuel bods co hist i]: the search for the [i]-th goal of a history posed to ONE SLG
    solver reaches (or is) a coinductive goal [x] on a cycle of the goal graph that an earlier
    root goal of the history, different from [x], has reached: the table of [x] was created as a
    non-root member of a coinductive cycle.  (Decided on the input: program, history, position.) *)
Definition on_cycle (fuel : nat) (bods : ty -> list (list ty)) (g : ty) : bool :=
  existsb (fun b => match reach bods fuel [b] [] with Some R => memT g R | None => false end)
          (concat (bods g)).

Definition reaches (fuel : nat) (bods : ty -> list (list ty)) (x g : ty) : bool :=
  match reach bods fuel [x] [] with Some R => memT g R | None => false end.

Definition f7_class (fuel : nat) (bods : ty -> list (list ty)) (co : ty -> bool) (hist : list ty) (i : nat) : bool :=
  match nth_error hist i with
  | None => false
  | Some g =>
      match reach bods fuel [g] [] with
      | None => false
      | Some R =>
          existsb (fun x => co x && on_cycle fuel bods x &&
                            existsb (fun r => negb (ty_eqb r x) && reaches fuel bods r x) (firstn i hist)) R
      end
  end.

(** ** The in-query variant of the same defect (found by the C05 check).

    [f7q_class fuel bods co root]: the search for [root] on a fresh SLG solver reaches a
    coinductive goal [g <> root] on a cycle whose strongly connected component is not a simple
    ring (some member has two different successors inside the component).  Then an answer of a
    component member can keep a delayed subgoal on another member that is never refined, and
    the root goal is reported unprovable although it holds
    ([#[auto] trait Sync {} struct S0 { a: S1 } struct S1 { a: S3, b: S2 } struct S2 { a: S1, b: S3 }
    struct S3 { a: S2 }]: [S0: Sync] => No possible solution on a fresh SLG solver). *)
Fixpoint dedupT (l : list ty) : list ty :=
  match l with
  | [] => []
  | x :: r => if memT x r then dedupT r else x :: dedupT r
  end.

Definition scc_of (fuel : nat) (bods : ty -> list (list ty)) (g : ty) : list ty :=
  match reach bods fuel [g] [] with
  | Some R => filter (fun x => reaches fuel bods x g) R
  | None => []
  end.

Definition f7q_class (fuel : nat) (bods : ty -> list (list ty)) (co : ty -> bool) (root : ty) : bool :=
  match reach bods fuel [root] [] with
  | None => false
  | Some R =>
      existsb (fun g =>
        co g && negb (ty_eqb g root) && on_cycle fuel bods g &&
        let C := scc_of fuel bods g in
        existsb (fun x => Nat.leb 2 (length (dedupT (filter (fun y => memT y C) (concat (bods x)))))) C) R
  end.

(** ** The negated form (F7n): SLG answers Ambiguous (or panics "Negative subgoal had
    delayed_subgoals") for a closed query with a literal [not { a }] when the search for [a]
    reaches a coinductive cycle whose component is not a simple ring, or is a ring that the
    search enters at two different members (the table of the second entry point was created as
    a non-root member of the first one's cycle; its answer keeps a delayed subgoal, which the
    negative literal cannot use):
    [#[auto] trait Send {} struct S0 { a: S3 } struct S3 { b: S0 }]: [not { (S3, S0): Send }] => Ambiguous. *)
Definition f7n_atom (fuel : nat) (bods : ty -> list (list ty)) (co : ty -> bool) (a : ty) : bool :=
  match reach bods fuel [a] [] with
  | None => false
  | Some R =>
      existsb (fun g =>
        co g && on_cycle fuel bods g &&
        let C := scc_of fuel bods g in
        (existsb (fun x => Nat.leb 2 (length (dedupT (filter (fun y => memT y C) (concat (bods x)))))) C
         || Nat.leb 2 (length (filter (fun m => existsb (fun p => negb (memT p C) && memT m (concat (bods p))) R) C)))) R
  end.
