(** * Rules.EnvElab — hypotheses, implied bounds and their elaboration (property C06).

    chalk lowers [if (T: Tr) { G }] into the hypothesis [FromEnv(T: Tr)]
    (chalk-integration/src/lowering.rs, [into_from_env_clause]) and gives every trait and
    struct *implied-bound* clauses (chalk-solve/src/clauses/program_clauses.rs):

      Implemented(Self: Tr<P..>) :- FromEnv(Self: Tr<P..>)          (Implemented-From-Env)
      FromEnv(WC)                :- FromEnv(Self: Tr<P..>)          (Implied-Bound-From-Trait, one per where-clause)
      FromEnv(WC)                :- FromEnv(S<P..>)                 (Implied-Bound-From-Type)

    [FromEnv] goals are answered only from the environment: [program_clauses_for_env]
    (chalk-solve/src/clauses.rs) closes the hypotheses under "the clauses of every trait /
    struct named by a FromEnv atom of a clause already in the set" with a worklist over a hash
    set ([EnvElaborator], clauses/env_elaborator.rs).

    Predicates are head symbols of first-order atoms (Logic.Program):
      s in [1000,2000)  Implemented(.. : trait s)       s+1000  FromEnv(.. : trait s)
      s+2000            WellFormed(.. : trait s)        4000    FromEnv(type)     4001  WellFormed(type)
    ADT symbols are below 1000.

    Contents:
      1. [elab]: the worklist of [program_clauses_for_env] over datums; [lc]: its independent
         least-closed-set specification; [elab_is_least_closed], [elab_terminates],
         [elab_order_irrelevant].
      2. [clo] / [fclose]: the closure of ground FromEnv facts under implied-bound rules, as
         an inductive specification and as a forward-chaining function ([fclose_spec]).
      3. [clo_relevant]: only the implied-bound rules the elaboration collected matter.
      4. [holds_bridge], [sat_bridge]: a program with implied-bound rules and FromEnv
         hypotheses means the same as the program without them plus the closure as facts.
      5. [eval_if] and [sat_if_exact]: the oracle for [if (H) { G }]; [env_scoped].
      6. the lowering of declarations ([lower]) producing such a rule system. *)

From Chalk Require Export Logic.Perm.
From Coq Require Import Permutation.

(** ** 0. Symbols *)

Definition FETY : N := 4000.
Definition WFTY : N := 4001.

Definition isFE (s : N) : bool := (2000 <=? s)%N && (s <? 3000)%N.
Definition isF (s : N) : bool := isFE s || (s =? FETY)%N.

(** [a] is a FromEnv atom. *)
Definition isFa (a : ty) : bool := match hsym a with Some s => isF s | None => false end.

Definition headed (c : clause) : bool := match hsym (chead c) with Some _ => true | None => false end.

Lemma isFa_subst : forall a th, hsym a <> None -> isFa (subst th a) = isFa a.
Proof.
  intros a th H. unfold isFa. destruct (hsym a) as [s|] eqn:E; [|congruence].
  now rewrite (hsym_subst _ th _ E).
Qed.

(** The datum a FromEnv atom names: the trait's FromEnv symbol, or — for [FromEnv(type)] — the
    ADT symbol of the outermost type constructor ([EnvElaborator::visit_ty] does not recurse;
    placeholders and variables name nothing). *)
Definition key_of (a : ty) : option N :=
  match hsym a with
  | Some s =>
      if (s =? FETY)%N then match a with TAp _ t => hsym t | _ => None end
      else if isFE s then Some s else None
  | None => None
  end.

Lemma key_of_subst : forall a th k, key_of a = Some k -> key_of (subst th a) = Some k.
Proof.
  intros a th k H. unfold key_of in *. destruct (hsym a) as [s|] eqn:E; [|discriminate].
  rewrite (hsym_subst _ th _ E). destruct (s =? FETY)%N.
  - destruct a as [c|f t|p|i]; try discriminate. cbn [subst]. now apply hsym_subst.
  - exact H.
Qed.

Definition ckeys (c : clause) : list N :=
  flat_map (fun a => match key_of a with Some k => [k] | None => [] end) (chead c :: cbody c).

Lemma ckeys_in : forall c a k, In a (chead c :: cbody c) -> key_of a = Some k -> In k (ckeys c).
Proof.
  intros c a k Ha Hk. unfold ckeys. apply in_flat_map. exists a. split; [exact Ha|]. rewrite Hk. now left.
Qed.

(** ** Clause equality *)

Definition clause_eqb (c c' : clause) : bool := ty_eqb (chead c) (chead c') && tys_eqb (cbody c) (cbody c').

Lemma clause_eqb_eq : forall c c', clause_eqb c c' = true <-> c = c'.
Proof.
  intros [h b] [h' b']. unfold clause_eqb. cbn [chead cbody]. rewrite andb_true_iff, ty_eqb_eq, tys_eqb_eq.
  split; [intros [-> ->]; reflexivity|intro H; inversion H; auto].
Qed.

Definition memC (c : clause) (l : list clause) : bool := existsb (clause_eqb c) l.

Lemma memC_In : forall c l, memC c l = true <-> In c l.
Proof.
  intros c l. unfold memC. rewrite existsb_exists. split.
  - intros [x [Hx E]]. apply clause_eqb_eq in E. now subst.
  - intro H. exists c. split; [exact H|now apply clause_eqb_eq].
Qed.

Lemma memC_false : forall c l, memC c l = false <-> ~ In c l.
Proof.
  intros c l. split.
  - intros H HI. apply memC_In in HI. congruence.
  - intro H. destruct (memC c l) eqn:E; [apply memC_In in E; contradiction|reflexivity].
Qed.

(** ** 1. The elaboration worklist ([program_clauses_for_env]) *)

(** What [to_program_clauses] pushes for one trait / struct. *)
Record datum : Type := mkDatum { dkey : N; dclauses : list clause }.

Definition clauses_of (ds : list datum) (k : N) : list clause :=
  flat_map (fun d => if (dkey d =? k)%N then dclauses d else []) ds.

Lemma clauses_of_in : forall ds k c, In c (clauses_of ds k) <-> exists d, In d ds /\ dkey d = k /\ In c (dclauses d).
Proof.
  intros ds k c. unfold clauses_of. rewrite in_flat_map. split.
  - intros [d [Hd Hc]]. destruct (dkey d =? k)%N eqn:E; [|destruct Hc]. apply N.eqb_eq in E. eauto.
  - intros [d [Hd [Hk Hc]]]. exists d. split; [exact Hd|]. subst k. now rewrite N.eqb_refl.
Qed.

(** One [elaborate_env_clauses] call: the clauses of every datum named in [L]. *)
Definition visit (ds : list datum) (L : list clause) : list clause :=
  flat_map (fun c => flat_map (clauses_of ds) (ckeys c)) L.

Lemma visit_in : forall ds L c', In c' (visit ds L) <-> exists c k, In c L /\ In k (ckeys c) /\ In c' (clauses_of ds k).
Proof.
  intros ds L c'. unfold visit. rewrite in_flat_map. split.
  - intros [c [Hc H]]. apply in_flat_map in H. destruct H as [k [Hk H]]. eauto.
  - intros [c [k [Hc [Hk H]]]]. exists c. split; [exact Hc|]. apply in_flat_map. eauto.
Qed.

(** [last_round.extend(next_round.drain().filter(|c| closure.insert(c)))]:
    returns the grown closure and the clauses that were new. *)
Fixpoint add_new (S : list clause) (cs : list clause) : list clause * list clause :=
  match cs with
  | [] => (S, [])
  | c :: r =>
      if memC c S then add_new S r
      else let (S', n) := add_new (c :: S) r in (S', c :: n)
  end.

Lemma add_new_spec : forall cs S S' n, add_new S cs = (S', n) ->
  (forall c, In c S' <-> In c S \/ In c cs) /\
  (forall c, In c n <-> In c cs /\ ~ In c S).
Proof.
  induction cs as [|x r IH]; intros S S' n H; cbn [add_new] in H.
  - inversion H; subst. split; intro c; cbn [In]; tauto.
  - destruct (memC x S) eqn:E.
    + apply memC_In in E. destruct (IH _ _ _ H) as [A B]. split; intro c.
      * rewrite A. cbn [In]. split; [tauto|]. intros [?|[<-|?]]; auto.
      * rewrite B. cbn [In]. split; [tauto|]. intros [[<-|?] ?]; [contradiction|tauto].
    + apply memC_false in E. destruct (add_new (x :: S) r) as [S1 n1] eqn:E1. inversion H; subst.
      destruct (IH _ _ _ E1) as [A B]. split; intro c.
      * rewrite A. cbn [In]. tauto.
      * cbn [In]. rewrite B. cbn [In]. split.
        -- intros [<-|[? ?]]; [tauto|tauto].
        -- intros [[<-|?] ?]; [now left|]. destruct (clause_eqb x c) eqn:Ex.
           ++ apply clause_eqb_eq in Ex. now left.
           ++ right. split; [assumption|]. intros [<-|?]; [|contradiction].
              assert (clause_eqb x x = true) by now apply clause_eqb_eq. congruence.
Qed.

Section Elab.
  Variable ds : list datum.
  (** The iteration order of the hash set [last_round.drain()]: any rearrangement. *)
  Variable ord : list clause -> list clause.
  Hypothesis ord_perm : forall l, Permutation (ord l) l.

  Fixpoint elab_loop (fuel : nat) (S L : list clause) : option (list clause) :=
    match fuel with
    | O => None
    | Datatypes.S f =>
        match L with
        | [] => Some S
        | _ => let (S', n) := add_new S (visit ds (ord L)) in elab_loop f S' n
        end
    end.

  Definition elab (fuel : nat) (H : list clause) : option (list clause) := elab_loop fuel H H.

  (** The independent specification: the least set containing the hypotheses and closed
      under "a FromEnv atom of a member names a datum => the datum's clauses are members". *)
  Inductive lc (H : list clause) : clause -> Prop :=
  | lc_base : forall c, In c H -> lc H c
  | lc_step : forall c k c', lc H c -> In k (ckeys c) -> In c' (clauses_of ds k) -> lc H c'.

  Definition closedC (S : list clause) : Prop :=
    forall c k c', In c S -> In k (ckeys c) -> In c' (clauses_of ds k) -> In c' S.

  Lemma ord_in : forall l c, In c (ord l) <-> In c l.
  Proof.
    intros l c. split; intro Hc.
    - eapply Permutation_in; [apply ord_perm|exact Hc].
    - eapply Permutation_in; [apply Permutation_sym; apply ord_perm|exact Hc].
  Qed.

  Lemma elab_loop_spec : forall fuel H S L R,
    elab_loop fuel S L = Some R ->
    (forall c, In c S -> lc H c) -> incl H S -> incl L S ->
    (forall c k c', In c S -> ~ In c L -> In k (ckeys c) -> In c' (clauses_of ds k) -> In c' S) ->
    (forall c, In c R -> lc H c) /\ incl H R /\ closedC R.
  Proof.
    induction fuel as [|f IH]; intros H S L R E I1 I2 I3 I4; cbn [elab_loop] in E; [discriminate|].
    destruct L as [|x L'].
    - inversion E; subst. split; [exact I1|]. split; [exact I2|]. intros c k c' Hc. apply I4; auto.
    - set (L := x :: L') in *. destruct (add_new S (visit ds (ord L))) as [S' n] eqn:EA.
      destruct (add_new_spec _ _ _ _ EA) as [A B]. apply (IH H S' n R E).
      + intros c Hc. apply A in Hc. destruct Hc as [Hc|Hc]; [now apply I1|].
        apply visit_in in Hc. destruct Hc as [c0 [k [H0 [Hk Hc]]]]. apply (proj1 (ord_in _ _)) in H0.
        apply (lc_step H c0 k c); [apply I1; apply I3; exact H0|exact Hk|exact Hc].
      + intros c Hc. apply A. left. now apply I2.
      + intros c Hc. apply B in Hc. apply A. now right.
      + intros c k c' Hc Hn Hk Hc'. destruct (memC c S) eqn:ES.
        * apply memC_In in ES. destruct (memC c L) eqn:EL.
          -- apply memC_In in EL. apply A. right. apply visit_in. exists c, k. split; [now apply ord_in|auto].
          -- apply memC_false in EL. apply A. left. apply (I4 c k c'); auto.
        * apply memC_false in ES. exfalso. apply Hn. apply B. apply A in Hc. tauto.
  Qed.

  Theorem elab_is_least_closed : forall fuel H S,
    elab fuel H = Some S -> forall c, In c S <-> lc H c.
  Proof.
    intros fuel H S E. unfold elab in E.
    destruct (elab_loop_spec fuel H H H S E) as [A [B C]].
    - intros c Hc. now apply lc_base.
    - apply incl_refl.
    - apply incl_refl.
    - intros c k c' Hc Hn. contradiction.
    - intro c. split; [apply A|]. intro Hl. induction Hl as [c Hc|c k c' _ IH Hk Hc'].
      + now apply B.
      + apply (C c k c'); auto.
  Qed.
End Elab.

(** *** Termination: at most one productive round per datum *)

Lemma filter_length_le : forall (A : Type) (p q : A -> bool) (l : list A),
  (forall x, In x l -> p x = true -> q x = true) -> length (filter p l) <= length (filter q l).
Proof.
  intros A p q l. induction l as [|a r IH]; intro H; cbn [filter]; [lia|].
  assert (IH' : length (filter p r) <= length (filter q r)) by (apply IH; intros x Hx; apply H; now right).
  destruct (p a) eqn:Ep.
  - rewrite (H a (or_introl eq_refl) Ep). cbn [length]. lia.
  - destruct (q a); cbn [length]; lia.
Qed.

Lemma filter_length_lt : forall (A : Type) (p q : A -> bool) (l : list A),
  (forall x, In x l -> p x = true -> q x = true) ->
  (exists x, In x l /\ p x = false /\ q x = true) ->
  length (filter p l) < length (filter q l).
Proof.
  intros A p q l. induction l as [|a r IH]; intros H [x [Hx [Hp Hq]]]; [destruct Hx|].
  cbn [filter].
  assert (LE : length (filter p r) <= length (filter q r)) by (apply filter_length_le; intros y Hy; apply H; now right).
  destruct Hx as [<-|Hx].
  - rewrite Hp, Hq. cbn [length]. lia.
  - assert (LT : length (filter p r) < length (filter q r)).
    { apply IH; [intros y Hy; apply H; now right|]. exists x. auto. }
    destruct (p a) eqn:Ep.
    + rewrite (H a (or_introl eq_refl) Ep). cbn [length]. lia.
    + destruct (q a); cbn [length]; lia.
Qed.

Lemma filter_length_bound : forall (A : Type) (p : A -> bool) (l : list A), length (filter p l) <= length l.
Proof. intros A p l. induction l as [|a r IH]; cbn [filter length]; [lia|]. destruct (p a); cbn [length]; lia. Qed.

Section ElabTerm.
  Variable ds : list datum.
  Variable ord : list clause -> list clause.

  Definition dclosedb (S : list clause) (d : datum) : bool := forallb (fun c => memC c S) (dclauses d).
  Definition nclosed (S : list clause) : nat := length (filter (dclosedb S) ds).

  Lemma round_progress : forall S L S' n,
    add_new S (visit ds (ord L)) = (S', n) -> n <> [] -> nclosed S < nclosed S'.
  Proof.
    intros S L S' n EA Hn. destruct (add_new_spec _ _ _ _ EA) as [A B]. unfold nclosed.
    apply filter_length_lt.
    - intros d _ Hd. unfold dclosedb in *. rewrite forallb_forall in *. intros c Hc.
      apply memC_In. apply A. left. apply memC_In. now apply Hd.
    - destruct n as [|c' n']; [congruence|]. assert (Hc' : In c' (c' :: n')) by now left.
      apply B in Hc'. destruct Hc' as [Hv Hs]. apply visit_in in Hv. destruct Hv as [c [k [Hc [Hk Hck]]]].
      apply clauses_of_in in Hck. destruct Hck as [d [Hd [Hdk Hcd]]]. exists d. split; [exact Hd|]. split.
      + unfold dclosedb. destruct (forallb (fun c0 => memC c0 S) (dclauses d)) eqn:E; [|reflexivity].
        rewrite forallb_forall in E. specialize (E c' Hcd). apply memC_In in E. contradiction.
      + unfold dclosedb. apply forallb_forall. intros x Hx. apply memC_In. apply A. right.
        apply visit_in. exists c, k. split; [exact Hc|]. split; [exact Hk|].
        apply clauses_of_in. exists d. auto.
  Qed.

  Lemma elab_loop_fuel : forall fuel S L,
    length ds - nclosed S + 2 <= fuel -> elab_loop ds ord fuel S L <> None.
  Proof.
    induction fuel as [|f IH]; intros S L Hf; [lia|]. cbn [elab_loop]. destruct L as [|x L']; [discriminate|].
    destruct (add_new S (visit ds (ord (x :: L')))) as [S' n] eqn:EA.
    destruct n as [|y n'].
    - destruct f as [|f']; [lia|]. cbn [elab_loop]. discriminate.
    - assert (P : nclosed S < nclosed S') by (eapply round_progress; [exact EA|discriminate]).
      assert (Bd : nclosed S' <= length ds) by apply filter_length_bound.
      apply IH. lia.
  Qed.

  (** The bound of DESIGN C06: the number of datums (+ the first round and the final check). *)
  Theorem elab_terminates : forall H, exists S, elab ds ord (length ds + 2) H = Some S.
  Proof.
    intro H. unfold elab. destruct (elab_loop ds ord (length ds + 2) H H) as [S|] eqn:E; [eauto|].
    exfalso. apply (elab_loop_fuel (length ds + 2) H H); [lia|exact E].
  Qed.
End ElabTerm.

(** *** Order irrelevance: any iteration order of the hash sets, any order of the hypotheses
    and of the datums gives the same set (also used by C13). *)

Lemma lc_perm : forall ds ds' H H' c,
  Permutation ds ds' -> Permutation H H' -> lc ds H c -> lc ds' H' c.
Proof.
  intros ds ds' H H' c Pd PH Hl. induction Hl as [c Hc|c k c' _ IH Hk Hc'].
  - apply lc_base. eapply Permutation_in; eauto.
  - apply (lc_step ds' H' c k c' IH Hk). apply clauses_of_in in Hc'. destruct Hc' as [d [Hd X]].
    apply clauses_of_in. exists d. split; [eapply Permutation_in; eauto|exact X].
Qed.

Theorem elab_order_irrelevant : forall ds ds' ord ord' fuel fuel' H H' S S',
  (forall l, Permutation (ord l) l) -> (forall l, Permutation (ord' l) l) ->
  Permutation ds ds' -> Permutation H H' ->
  elab ds ord fuel H = Some S -> elab ds' ord' fuel' H' = Some S' ->
  forall c, In c S <-> In c S'.
Proof.
  intros ds ds' ord ord' fuel fuel' H H' S S' O O' Pd PH E E' c.
  rewrite (elab_is_least_closed ds ord O fuel H S E c), (elab_is_least_closed ds' ord' O' fuel' H' S' E' c).
  split; apply lc_perm; auto using Permutation_sym.
Qed.

(** The order the check uses: as given. *)
Definition ord_id (l : list clause) : list clause := l.
Lemma ord_id_perm : forall l, Permutation (ord_id l) l.
Proof. intro l. apply Permutation_refl. Qed.

Definition elab_env (ds : list datum) (H : list clause) : option (list clause) :=
  elab ds ord_id (length ds + 2) H.

(** ** 2. The closure of ground FromEnv facts under implied-bound rules *)

(** An implied-bound rule: one body atom, and every variable of the head occurs in it
    (forward range restriction: where-clauses of a trait / struct mention only its own
    parameters). *)
Definition ib_shape (c : clause) : bool :=
  match cbody c with
  | [b] => forallb (fun i => occurs i b) (vars (chead c))
  | _ => false
  end.

(** Specification: the least set of atoms containing the facts and closed under the rules. *)
Inductive clo (IB : list clause) (Hf : list ty) : ty -> Prop :=
| clo_base : forall a, In a Hf -> clo IB Hf a
| clo_step : forall c b th, In c IB -> cbody c = [b] -> (forall i, ground (th i)) ->
    clo IB Hf (subst th b) -> clo IB Hf (subst th (chead c)).

(** One forward step from the fact [f]. *)
Definition fire (IB : list clause) (f : ty) : list ty :=
  flat_map (fun c => match cbody c with
                     | [b] => match mtch b f [] with
                              | Some s => [subst (asfun s) (chead c)]
                              | None => []
                              end
                     | _ => []
                     end) IB.

(** Forward chaining with a worklist; [None] = out of fuel (the closure can be infinite, e.g.
    [trait Foo where Vec<Self>: Foo]: an explicit inconclusive outcome). *)
Fixpoint fc (IB : list clause) (fuel : nat) (todo seen : list ty) : option (list ty) :=
  match fuel with
  | O => None
  | S f =>
      match todo with
      | [] => Some seen
      | a :: r => if memT a seen then fc IB f r seen else fc IB f (fire IB a ++ r) (a :: seen)
      end
  end.

Definition fclose (fuel : nat) (IB : list clause) (Hf : list ty) : option (list ty) := fc IB fuel Hf [].

Lemma agree_nil : forall th, agree th [].
Proof. intros th i t H. discriminate H. Qed.

Lemma ground_vals_nil : ground_vals [].
Proof. intros i t H. discriminate H. Qed.

Lemma fire_sound : forall IB f x,
  (forall c, In c IB -> ib_shape c = true) -> ground f -> In x (fire IB f) ->
  exists c b th, In c IB /\ cbody c = [b] /\ (forall i, ground (th i)) /\ subst th b = f /\ x = subst th (chead c).
Proof.
  intros IB f x Hs Gf Hx. unfold fire in Hx. apply in_flat_map in Hx. destruct Hx as [c [Hc Hx]].
  specialize (Hs c Hc). unfold ib_shape in Hs.
  destruct (cbody c) as [|b [|b' r]] eqn:Eb; try destruct Hx.
  destruct (mtch b f []) as [s|] eqn:Em; [|destruct Hx]. destruct Hx as [Hx|[]].
  destruct (mtch_sound _ _ _ _ Em) as [_ [Y Z]].
  assert (Gs : ground_vals s) by (eapply mtch_ground; eauto using ground_vals_nil).
  exists c, b, (gfun s). split; [exact Hc|]. split; [exact Eb|]. split; [|split].
  - intro i. unfold gfun. destruct (lookup i s) as [t|] eqn:El; [eapply Gs; eauto|reflexivity].
  - apply Y. intros i t Hi. unfold gfun. now rewrite Hi.
  - subst x. apply subst_ext. intros i Hi. rewrite forallb_forall in Hs.
    assert (Hb : occurs i b = true) by (apply Hs; now apply vars_occurs).
    specialize (Z i Hb). unfold asfun, gfun. destruct (lookup i s); [reflexivity|congruence].
Qed.

Lemma fire_complete : forall IB c b th,
  In c IB -> cbody c = [b] -> ib_shape c = true ->
  In (subst th (chead c)) (fire IB (subst th b)).
Proof.
  intros IB c b th Hc Eb Hs. unfold fire. apply in_flat_map. exists c. split; [exact Hc|]. rewrite Eb.
  destruct (mtch_complete b (subst th b) [] th (agree_nil th) eq_refl) as [s [Em As]]. rewrite Em. left.
  destruct (mtch_sound _ _ _ _ Em) as [_ [_ Z]].
  apply subst_ext. intros i Hi. unfold ib_shape in Hs. rewrite Eb in Hs. rewrite forallb_forall in Hs.
  assert (Hb : occurs i b = true) by (apply Hs; now apply vars_occurs).
  specialize (Z i Hb). unfold asfun. destruct (lookup i s) as [t|] eqn:El; [|congruence].
  symmetry. now apply As.
Qed.

Lemma fc_spec : forall IB (Q : ty -> Prop) fuel todo seen R,
  fc IB fuel todo seen = Some R ->
  (forall x b, Q x -> In b (fire IB x) -> Q b) ->
  (forall x, In x todo -> Q x) -> (forall x, In x seen -> Q x) ->
  (forall x b, In x seen -> In b (fire IB x) -> In b seen \/ In b todo) ->
  (forall x, In x R -> Q x) /\ incl seen R /\ incl todo R /\
  (forall x b, In x R -> In b (fire IB x) -> In b R).
Proof.
  intros IB Q. induction fuel as [|f IH]; intros todo seen R H HQ Ht Hs Inv; cbn [fc] in H; [discriminate|].
  destruct todo as [|a r].
  - inversion H; subst. split; [exact Hs|]. split; [apply incl_refl|]. split; [intros x []|].
    intros x b Hx Hb. destruct (Inv x b Hx Hb) as [?|[]]. assumption.
  - destruct (memT a seen) eqn:Em.
    + apply memT_In in Em. destruct (IH r seen R H HQ) as [A [I1 [I2 C]]].
      * intros x Hx. apply Ht. now right.
      * exact Hs.
      * intros x b Hx Hb. destruct (Inv x b Hx Hb) as [?|[?|?]]; auto. subst. auto.
      * split; [exact A|]. split; [exact I1|]. split; [|exact C]. intros x [<-|Hx]; auto.
    + destruct (IH _ _ R H HQ) as [A [I1 [I2 C]]].
      * intros x Hx. apply in_app_iff in Hx. destruct Hx as [Hx|Hx]; [|apply Ht; now right].
        apply (HQ a x); [apply Ht; now left|exact Hx].
      * intros x [<-|Hx]; [apply Ht; now left|now apply Hs].
      * intros x b [<-|Hx] Hb.
        -- right. apply in_or_app. now left.
        -- destruct (Inv x b Hx Hb) as [?|[?|?]].
           ++ left. now right.
           ++ subst. left. now left.
           ++ right. apply in_or_app. now right.
      * split; [exact A|]. split; [intros x Hx; apply I1; now right|]. split; [|exact C].
        intros x [<-|Hx]; [apply I1; now left|]. apply I2. apply in_or_app. now right.
Qed.

Theorem fclose_spec : forall fuel IB Hf CL,
  (forall c, In c IB -> ib_shape c = true) -> (forall a, In a Hf -> ground a) ->
  fclose fuel IB Hf = Some CL ->
  (forall a, In a CL <-> clo IB Hf a) /\ (forall a, In a CL -> ground a).
Proof.
  intros fuel IB Hf CL Hs Hg E. unfold fclose in E.
  destruct (fc_spec IB (fun x => ground x /\ clo IB Hf x) _ _ _ _ E) as [Q [_ [I C]]].
  - intros x b [Gx Cx] Hb.
    destruct (fire_sound IB x b Hs Gx Hb) as [c [b0 [th [Hc [Eb [Gt [E1 E2]]]]]]]. subst b. split.
    + apply ground_subst. intros i _. apply Gt.
    + apply (clo_step IB Hf c b0 th Hc Eb Gt). now rewrite E1.
  - intros x Hx. split; [now apply Hg|now apply clo_base].
  - intros x [].
  - intros x b [].
  - split; [|intros a Ha; now apply Q]. intro a. split; [intro Ha; now apply Q|].
    intro Hc. induction Hc as [a Ha|c b th Hc Eb Gt _ IH].
    + now apply I.
    + apply (C (subst th b)); [exact IH|]. apply fire_complete; auto.
Qed.

Lemma clo_mono : forall IB IB' Hf a, incl IB IB' -> clo IB Hf a -> clo IB' Hf a.
Proof.
  intros IB IB' Hf a Hi Hc. induction Hc as [a Ha|c b th Hc Eb Gt _ IH].
  - now apply clo_base.
  - apply (clo_step IB' Hf c b th); auto.
Qed.

(** ** 3. Only the rules collected by the elaboration matter *)

(** Structural link between an implied-bound rule and the datums: the rule belongs to the
    datum its body atom names, and its head names a datum too (it is a trait FromEnv atom). *)
Definition ib_keyed (ds : list datum) (c : clause) : bool :=
  match cbody c with
  | [b] => match key_of b, key_of (chead c) with
           | Some k, Some _ => memC c (clauses_of ds k)
           | _, _ => false
           end
  | _ => false
  end.

Section Relevant.
  Variable ds : list datum.
  Variable IB : list clause.
  Variable Hf : list ty.
  Variable S : list clause.
  Hypothesis ib_ok : forall c, In c IB -> ib_keyed ds c = true.
  Hypothesis S_closed : closedC ds S.
  Hypothesis S_facts : forall a, In a Hf -> In (mkClause a []) S.

  Definition relevant : list clause := filter (fun c => memC c S) IB.

  Let keyS (k : N) : Prop := exists c, In c S /\ In k (ckeys c).

  Lemma clo_relevant_inv : forall a, clo IB Hf a ->
    clo relevant Hf a /\ (forall k, key_of a = Some k -> keyS k).
  Proof.
    intros a Hc. induction Hc as [a Ha|c b th Hc Eb Gt _ [IH1 IH2]].
    - split; [now apply clo_base|]. intros k Hk. exists (mkClause a []). split; [now apply S_facts|].
      apply (ckeys_in _ a k); [now left|exact Hk].
    - pose proof (ib_ok c Hc) as K. unfold ib_keyed in K. rewrite Eb in K.
      destruct (key_of b) as [k|] eqn:Kb; [|discriminate].
      destruct (key_of (chead c)) as [k'|] eqn:Kh; [|discriminate]. apply memC_In in K.
      destruct (IH2 k (key_of_subst b th k Kb)) as [c0 [Hc0 Hk0]].
      assert (HcS : In c S) by (apply (S_closed c0 k c); assumption).
      split.
      + apply (clo_step relevant Hf c b th); auto. unfold relevant. apply filter_In. split; [exact Hc|].
        now apply memC_In.
      + intros k2 Hk2. rewrite (key_of_subst _ th _ Kh) in Hk2. inversion Hk2; subst k2.
        exists c. split; [exact HcS|]. apply (ckeys_in c (chead c) k'); [now left|exact Kh].
  Qed.

  Theorem clo_relevant : forall a, clo IB Hf a <-> clo relevant Hf a.
  Proof.
    intro a. split.
    - intro H. now apply clo_relevant_inv.
    - apply clo_mono. intros c Hc. unfold relevant in Hc. apply filter_In in Hc. tauto.
  Qed.
End Relevant.

(** ** 4. Hypotheses + implied-bound rules  =  closure facts *)

Lemma isFa_hsym : forall a, isFa a = true -> hsym a <> None.
Proof. intros a H. unfold isFa in H. destruct (hsym a); [discriminate|discriminate H]. Qed.

Lemma headed_hsym : forall c, headed c = true -> hsym (chead c) <> None.
Proof. intros c H. unfold headed in H. destruct (hsym (chead c)); [discriminate|discriminate H]. Qed.

Definition fact (a : ty) : clause := mkClause a [].

Lemma phb_clauses_app : forall l1 l2, phb_clauses (l1 ++ l2) = N.max (phb_clauses l1) (phb_clauses l2).
Proof.
  induction l1 as [|c r IH]; intro l2; cbn [app phb_clauses fold_right].
  - fold (phb_clauses l2). lia.
  - fold (phb_clauses (r ++ l2)). fold (phb_clauses r). rewrite IH. lia.
Qed.

(** Goals whose own (nested) hypotheses are not FromEnv-headed. *)
Definition hyp_ok (h : hyp) : bool := negb (isFa (chead (hc h))) && headed (hc h).

Fixpoint nofe (g : goal) : bool :=
  match g with
  | GAnd g1 g2 => nofe g1 && nofe g2
  | GForall g' | GExists g' | GNot g' => nofe g'
  | GIf hs g' => forallb hyp_ok hs && nofe g'
  | _ => true
  end.

Lemma hyp_ok_inst : forall rho h, hyp_ok h = true ->
  isFa (chead (inst_hyp rho h)) = false /\ headed (inst_hyp rho h) = true.
Proof.
  intros rho h H. unfold hyp_ok in H. apply andb_true_iff in H. destruct H as [H1 H2].
  apply negb_true_iff in H1. unfold inst_hyp, subst_clause. cbn [chead].
  pose proof (headed_hsym _ H2) as Hh. split.
  - rewrite isFa_subst; assumption.
  - unfold headed. cbn [chead]. destruct (hsym (chead (hc h))) as [s|] eqn:E; [|congruence].
    now rewrite (hsym_subst _ _ _ E).
Qed.


(** The two clause sets: [L1] has the implied-bound rules [IB] and the hypothesis facts [Hf];
    [L2] has the closure [CL] as facts instead; they agree on everything that is not headed
    by a FromEnv predicate. *)
Record split_ok (IB : list clause) (Hf CL : list ty) (L1 L2 : list clause) : Prop := mkSplit {
  so_1F : forall c, In c L1 -> isFa (chead c) = true -> (exists a, In a Hf /\ c = fact a) \/ In c IB;
  so_1N : forall c, In c L1 -> isFa (chead c) = false -> In c L2;
  so_1H : forall a, In a Hf -> In (fact a) L1;
  so_1I : incl IB L1;
  so_1h : forall c, In c L1 -> headed c = true;
  so_2F : forall c, In c L2 -> isFa (chead c) = true -> exists a, In a CL /\ c = fact a;
  so_2N : forall c, In c L2 -> isFa (chead c) = false -> In c L1;
  so_2C : forall a, In a CL -> In (fact a) L2;
  so_2h : forall c, In c L2 -> headed c = true }.

Section Bridge.
  Variables IB : list clause.
  Variable co : list N.
  Variables Hf CL : list ty.
  Hypothesis IB_F : forall c, In c IB -> exists b, cbody c = [b] /\ isFa (chead c) = true /\ isFa b = true.
  Hypothesis co_F : forall s, In s co -> isF s = false.
  Hypothesis Hf_ground : forall a, In a Hf -> ground a.
  Hypothesis CL_ground : forall a, In a CL -> ground a.
  Hypothesis CL_spec : forall a, In a CL <-> clo IB Hf a.

  Lemma F_not_co : forall a, isFa a = true -> isco co a = false.
  Proof.
    intros a H. unfold isFa in H. unfold isco. destruct (hsym a) as [s|]; [|reflexivity].
    destruct (memN s co) eqn:E; [|reflexivity]. apply memN_In in E. rewrite (co_F s E) in H. discriminate.
  Qed.

  Lemma inst_fact : forall L a, In (fact a) L -> ground a -> inst L a [].
  Proof.
    intros L a H G. exists (fact a), (fun _ => TCon 0). split; [exact H|]. split; [intro; reflexivity|].
    split; [now apply subst_ground|reflexivity].
  Qed.

  Section Lists.
    Variables L1 L2 : list clause.
    Hypothesis SO : split_ok IB Hf CL L1 L2.

    (** A FromEnv atom derivable in [L1] is in the closure. *)
    Lemma fa_derives_clo : forall X a, derives (inst L1) (isco co) X a -> isFa a = true -> clo IB Hf a.
    Proof.
      intros X a D. induction D as [a bs Hs Hc _ IH]. intro Fa.
      destruct Hs as [c [th [Hc1 [Gt [Eh Eb]]]]].
      assert (Fc : isFa (chead c) = true).
      { rewrite <- Fa. subst a. symmetry. apply isFa_subst. apply headed_hsym. now apply (so_1h _ _ _ _ _ SO). }
      destruct (so_1F _ _ _ _ _ SO c Hc1 Fc) as [[a0 [Ha0 ->]]|HIB].
      - cbn [fact chead] in Eh. rewrite (subst_ground a0 th (Hf_ground a0 Ha0)) in Eh. subst a. now apply clo_base.
      - destruct (IB_F c HIB) as [b [Ebody [_ Fb]]]. subst a. apply (clo_step IB Hf c b th HIB Ebody Gt).
        assert (Fsb : isFa (subst th b) = true) by (rewrite isFa_subst; [exact Fb|now apply isFa_hsym]).
        apply IH; [|apply F_not_co; exact Fsb|exact Fsb]. subst bs. rewrite Ebody. now left.
    Qed.

    (** An atom of the closure is derivable in [L1] from any assumption set. *)
    Lemma clo_derives : forall X a, clo IB Hf a -> derives (inst L1) (isco co) X a.
    Proof.
      intros X a Hc. induction Hc as [a Ha|c b th Hc Eb Gt _ IH].
      - apply (Der _ _ _ a []); [|intros b []|intros b []].
        apply inst_fact; [now apply (so_1H _ _ _ _ _ SO)|now apply Hf_ground].
      - destruct (IB_F c Hc) as [b' [Eb' [_ Fb]]]. rewrite Eb in Eb'. inversion Eb'; subst b'.
        assert (Fsb : isFa (subst th b) = true) by (rewrite isFa_subst; [exact Fb|now apply isFa_hsym]).
        apply (Der _ _ _ _ [subst th b]).
        + exists c, th. split; [now apply (so_1I _ _ _ _ _ SO)|]. split; [exact Gt|]. split; [reflexivity|].
          now rewrite Eb.
        + intros x [<-|[]] Hx. rewrite (F_not_co _ Fsb) in Hx. discriminate.
        + intros x [<-|[]] _. exact IH.
    Qed.

    Lemma derives_12 : forall X a, derives (inst L1) (isco co) X a -> derives (inst L2) (isco co) X a.
    Proof.
      intros X a D. induction D as [a bs Hs Hc Hd IH].
      destruct (isFa a) eqn:Fa.
      - assert (Ca : clo IB Hf a) by (apply (fa_derives_clo X); [apply (Der _ _ _ a bs Hs Hc Hd)|exact Fa]).
        apply CL_spec in Ca. apply (Der _ _ _ a []); [|intros b []|intros b []].
        apply inst_fact; [now apply (so_2C _ _ _ _ _ SO)|now apply CL_ground].
      - apply (Der _ _ _ a bs); [|exact Hc|exact IH].
        destruct Hs as [c [th [Hc1 [Gt [Eh Eb]]]]]. exists c, th. split; [|auto].
        apply (so_1N _ _ _ _ _ SO c Hc1). rewrite <- Fa. subst a. symmetry. apply isFa_subst.
        apply headed_hsym. now apply (so_1h _ _ _ _ _ SO).
    Qed.

    Lemma derives_21 : forall X a, derives (inst L2) (isco co) X a -> derives (inst L1) (isco co) X a.
    Proof.
      intros X a D. induction D as [a bs Hs Hc Hd IH].
      destruct Hs as [c [th [Hc2 [Gt [Eh Eb]]]]].
      assert (Fc : isFa (chead c) = isFa a).
      { subst a. symmetry. apply isFa_subst. apply headed_hsym. now apply (so_2h _ _ _ _ _ SO). }
      destruct (isFa a) eqn:Fa.
      - destruct (so_2F _ _ _ _ _ SO c Hc2 Fc) as [a0 [Ha0 ->]]. cbn [fact chead] in Eh.
        rewrite (subst_ground a0 th (CL_ground a0 Ha0)) in Eh. subst a0. apply clo_derives. now apply CL_spec.
      - apply (Der _ _ _ a bs); [|exact Hc|exact IH]. exists c, th. split; [|auto].
        now apply (so_2N _ _ _ _ _ SO c Hc2).
    Qed.

    Theorem holds_bridge : forall a, holds (inst L1) (isco co) a <-> holds (inst L2) (isco co) a.
    Proof.
      intro a. split; intros [X [HX Ha]]; exists X; (split;
        [intros x Hx; destruct (HX x Hx) as [H1 H2]; split; [exact H1|]
        |destruct (isco co a); [exact Ha|]]).
      - now apply derives_12.
      - now apply derives_12.
      - now apply derives_21.
      - now apply derives_21.
    Qed.
  End Lists.

  Lemma split_ok_ext : forall L1 L2 E',
    split_ok IB Hf CL L1 L2 ->
    (forall c, In c E' -> isFa (chead c) = false /\ headed c = true) ->
    split_ok IB Hf CL (E' ++ L1) (E' ++ L2).
  Proof.
    intros L1 L2 E' SO HE. constructor.
    - intros c Hc Fc. apply in_app_iff in Hc. destruct Hc as [Hc|Hc].
      + destruct (HE c Hc) as [H1 _]. congruence.
      + now apply (so_1F _ _ _ _ _ SO).
    - intros c Hc Fc. apply in_app_iff in Hc. apply in_or_app. destruct Hc as [Hc|Hc]; [now left|right].
      now apply (so_1N _ _ _ _ _ SO).
    - intros a Ha. apply in_or_app. right. now apply (so_1H _ _ _ _ _ SO).
    - intros c Hc. apply in_or_app. right. now apply (so_1I _ _ _ _ _ SO).
    - intros c Hc. apply in_app_iff in Hc. destruct Hc as [Hc|Hc]; [now apply HE|now apply (so_1h _ _ _ _ _ SO)].
    - intros c Hc Fc. apply in_app_iff in Hc. destruct Hc as [Hc|Hc].
      + destruct (HE c Hc) as [H1 _]. congruence.
      + now apply (so_2F _ _ _ _ _ SO).
    - intros c Hc Fc. apply in_app_iff in Hc. apply in_or_app. destruct Hc as [Hc|Hc]; [now left|right].
      now apply (so_2N _ _ _ _ _ SO).
    - intros a Ha. apply in_or_app. right. now apply (so_2C _ _ _ _ _ SO).
    - intros c Hc. apply in_app_iff in Hc. destruct Hc as [Hc|Hc]; [now apply HE|now apply (so_2h _ _ _ _ _ SO)].
  Qed.
  (** Lifting to goals: quantifiers, conjunction, negation and nested (non-FromEnv)
      hypotheses. *)
  Theorem sat_bridge : forall P1 P2 env1 env2,
    pcoind P1 = co -> pcoind P2 = co ->
    split_ok IB Hf CL (allc P1 env1) (allc P2 env2) ->
    phb_clauses (pclauses P1) = phb_clauses (pclauses P2) -> phb_clauses env1 = phb_clauses env2 ->
    forall g, nofe g = true -> forall E' rho,
    (forall c, In c E' -> isFa (chead c) = false /\ headed c = true) ->
    (sat P1 (E' ++ env1) rho g <-> sat P2 (E' ++ env2) rho g).
  Proof.
    intros P1 P2 env1 env2 C1 C2 SO HP He.
    induction g as [a|t1 t2|g1 IH1 g2 IH2| |g IH|g IH|hs g IH|g IH]; intros Hn E' rho HE; cbn [sat nofe] in *.
    - unfold holdsP. rewrite C1, C2. unfold allc. rewrite <- !app_assoc. apply holds_bridge.
      apply split_ok_ext; [exact SO|exact HE].
    - tauto.
    - apply andb_true_iff in Hn. destruct Hn as [N1 N2]. rewrite (IH1 N1 E' rho HE), (IH2 N2 E' rho HE). tauto.
    - tauto.
    - assert (F : fresh P1 (E' ++ env1) rho g = fresh P2 (E' ++ env2) rho g).
      { unfold fresh. rewrite !phb_clauses_app, HP, He. reflexivity. }
      rewrite F. now apply IH.
    - split; intros [t [Gt Ht]]; exists t; (split; [exact Gt|]); now apply (IH Hn E' (t :: rho) HE).
    - apply andb_true_iff in Hn. destruct Hn as [N1 N2]. rewrite !app_assoc. apply IH; [exact N2|].
      intros c Hc. apply in_app_iff in Hc. destruct Hc as [Hc|Hc]; [|now apply HE].
      apply in_map_iff in Hc. destruct Hc as [h [<- Hh]]. apply hyp_ok_inst.
      rewrite forallb_forall in N1. now apply N1.
    - rewrite (IH Hn E' rho HE). tauto.
  Qed.
End Bridge.

(** ** 5. The oracle for [if (H) { G }] *)

(** A rule system: the datums the elaborator can collect, their implied-bound rules [rs_IB],
    and the rest of the program [rs_R] (impl clauses, Implemented-From-Env, WellFormed rules:
    all range-restricted, none headed by FromEnv), with the coinductive symbols. *)
Record rsys : Type := mkRsys { rs_ds : list datum; rs_IB : list clause; rs_R : list clause; rs_co : list N }.

(** The meaning of the program: ALL clauses, implied-bound rules included. *)
Definition full_program (s : rsys) : program := mkProg (rs_IB s ++ rs_R s) (rs_co s).
(** What the verified evaluator runs on (range-restricted). *)
Definition core_program (s : rsys) : program := mkProg (rs_R s) (rs_co s).

Definition ib_fe (c : clause) : bool := isFa (chead c) && match cbody c with [b] => isFa b | _ => false end.
Definition r_ok (c : clause) : bool := negb (isFa (chead c)) && headed c.

(** Decidable well-formedness of a rule system (holds for every lowered program, [lower]). *)
Definition rsys_ok (s : rsys) : bool :=
  forallb ib_shape (rs_IB s) && forallb (ib_keyed (rs_ds s)) (rs_IB s) && forallb ib_fe (rs_IB s) &&
  forallb r_ok (rs_R s) && forallb (fun x => negb (isF x)) (rs_co s) &&
  N.eqb (phb_clauses (rs_IB s ++ rs_R s)) (phb_clauses (rs_R s)).

Definition is_fact_ground (c : clause) : bool := match cbody c with [] => groundb (chead c) | _ => false end.

(** Elaborate the (instantiated) hypotheses [hs]: FromEnv-headed ones must be ground facts;
    the datum-level elaboration [elab_env] selects the implied-bound rules, [fclose] closes the
    facts under them.  Result: the closure and the other hypothesis clauses. *)
Definition elab_hyps (fuel : nat) (s : rsys) (hs : list clause) : option (list ty * list clause) :=
  let Hfc := filter (fun c => isFa (chead c)) hs in
  let E := filter (fun c => negb (isFa (chead c))) hs in
  if forallb is_fact_ground Hfc && forallb headed E then
    match elab_env (rs_ds s) hs with
    | Some Sc =>
        match fclose fuel (relevant (rs_IB s) Sc) (map chead Hfc) with
        | Some CL =>
            if N.eqb (phb_clauses hs) (phb_clauses (map fact CL ++ E)) then Some (CL, E) else None
        | None => None
        end
    | None => None
    end
  else None.

Lemma clo_isFa : forall IB Hf a,
  (forall c, In c IB -> ib_fe c = true) -> (forall x, In x Hf -> isFa x = true) ->
  clo IB Hf a -> isFa a = true.
Proof.
  intros IB Hf a HI HH Hc. induction Hc as [a Ha|c b th Hc Eb Gt _ IH]; [now apply HH|].
  specialize (HI c Hc). unfold ib_fe in HI. apply andb_true_iff in HI. destruct HI as [H1 _].
  rewrite isFa_subst; [exact H1|now apply isFa_hsym].
Qed.

Lemma isFa_headed : forall c, isFa (chead c) = true -> headed c = true.
Proof. intros c H. unfold headed. unfold isFa in H. destruct (hsym (chead c)); [reflexivity|discriminate]. Qed.

Lemma fact_eta : forall c, cbody c = [] -> c = fact (chead c).
Proof. intros [h b] H. cbn in H. subst. reflexivity. Qed.

Theorem sat_if_elab : forall fuel s rho hs g CL E,
  rsys_ok s = true -> nofe g = true ->
  elab_hyps fuel s (map (inst_hyp rho) hs) = Some (CL, E) ->
  (sat (full_program s) [] rho (GIf hs g) <-> sat (core_program s) (map fact CL ++ E) rho g).
Proof.
  intros fuel s rho hs g CL E Hok Hn He. cbn [sat]. set (hs' := map (inst_hyp rho) hs) in *.
  unfold rsys_ok in Hok. repeat (apply andb_true_iff in Hok; destruct Hok as [Hok ?]).
  rename Hok into K1, H3 into K2, H2 into K3, H1 into K4, H0 into K5, H into K6.
  rewrite forallb_forall in K1, K2, K3, K4, K5. apply N.eqb_eq in K6.
  unfold elab_hyps in He.
  set (Hfc := filter (fun c => isFa (chead c)) hs') in *.
  set (E0 := filter (fun c => negb (isFa (chead c))) hs') in *.
  destruct (forallb is_fact_ground Hfc && forallb headed E0) eqn:V1; [|discriminate].
  apply andb_true_iff in V1. destruct V1 as [V1 V2]. rewrite forallb_forall in V1, V2.
  destruct (elab_env (rs_ds s) hs') as [Sc|] eqn:ES; [|discriminate].
  destruct (fclose fuel (relevant (rs_IB s) Sc) (map chead Hfc)) as [CL0|] eqn:EC; [|discriminate].
  destruct (N.eqb (phb_clauses hs') (phb_clauses (map fact CL0 ++ E0))) eqn:V3; [|discriminate].
  inversion He; subst CL0; subst E. clear He. rename E0 into E. apply N.eqb_eq in V3.
  set (Hf := map chead Hfc) in *.
  (* facts *)
  assert (HfIn : forall a, In a Hf -> exists c, In c hs' /\ isFa (chead c) = true /\ cbody c = [] /\ ground a /\ chead c = a).
  { intros a Ha. unfold Hf in Ha. apply in_map_iff in Ha. destruct Ha as [c [<- Hc]].
    pose proof (V1 c Hc) as G. unfold is_fact_ground in G. unfold Hfc in Hc. apply filter_In in Hc. destruct Hc as [Hc Fc].
    exists c. destruct (cbody c); [|discriminate]. auto. }
  assert (HfF : forall a, In a Hf -> isFa a = true).
  { intros a Ha. destruct (HfIn a Ha) as [c [_ [Fc [_ [_ <-]]]]]. exact Fc. }
  assert (HfG : forall a, In a Hf -> ground a).
  { intros a Ha. destruct (HfIn a Ha) as [c [_ [_ [_ [G _]]]]]. exact G. }
  assert (HfFact : forall a, In a Hf -> In (fact a) hs').
  { intros a Ha. destruct (HfIn a Ha) as [c [Hc [_ [Eb [_ <-]]]]]. rewrite <- (fact_eta c Eb). exact Hc. }
  (* the datum-level elaboration *)
  unfold elab_env in ES. pose proof (elab_is_least_closed _ _ ord_id_perm _ _ _ ES) as LC.
  assert (SC : closedC (rs_ds s) Sc).
  { intros c k c' Hc Hk Hc'. apply LC. apply (lc_step _ _ c k c'); [now apply LC|exact Hk|exact Hc']. }
  assert (SF : forall a, In a Hf -> In (fact a) Sc).
  { intros a Ha. apply LC. apply lc_base. now apply HfFact. }
  (* the closure *)
  destruct (fclose_spec _ _ _ _ (fun c Hc => K1 c (proj1 (proj1 (filter_In _ _ _) Hc))) HfG EC) as [CS CG].
  assert (CLspec : forall a, In a CL <-> clo (rs_IB s) Hf a).
  { intro a. rewrite CS. symmetry. apply (clo_relevant (rs_ds s)); auto. }
  assert (CLF : forall a, In a CL -> isFa a = true).
  { intros a Ha. apply (clo_isFa (rs_IB s) Hf); auto. now apply CLspec. }
  assert (IBF : forall c, In c (rs_IB s) -> exists b, cbody c = [b] /\ isFa (chead c) = true /\ isFa b = true).
  { intros c Hc. pose proof (K3 c Hc) as X. unfold ib_fe in X. apply andb_true_iff in X. destruct X as [X1 X2].
    destruct (cbody c) as [|b [|]]; try discriminate. exists b. auto. }
  assert (RN : forall c, In c (rs_R s) -> isFa (chead c) = false /\ headed c = true).
  { intros c Hc. pose proof (K4 c Hc) as X. unfold r_ok in X. apply andb_true_iff in X. destruct X as [X1 X2].
    apply negb_true_iff in X1. auto. }
  assert (EIn : forall c, In c E <-> In c hs' /\ isFa (chead c) = false).
  { intro c. unfold E. rewrite filter_In. rewrite negb_true_iff. tauto. }
  assert (coF : forall x, In x (rs_co s) -> isF x = false).
  { intros x Hx. pose proof (K5 x Hx) as X. now apply negb_true_iff in X. }
  assert (SO : split_ok (rs_IB s) Hf CL (allc (full_program s) (hs' ++ [])) (allc (core_program s) (map fact CL ++ E))).
  {
    unfold allc, full_program, core_program. cbn [pclauses]. rewrite app_nil_r. constructor.
    + intros c Hc Fc. apply in_app_iff in Hc. destruct Hc as [Hc|Hc].
      * left. exists (chead c). assert (HcF : In c Hfc) by (unfold Hfc; apply filter_In; auto).
        pose proof (V1 c HcF) as G. unfold is_fact_ground in G. destruct (cbody c) eqn:Eb; [|discriminate].
        split; [unfold Hf; now apply in_map|now apply fact_eta].
      * apply in_app_iff in Hc. destruct Hc as [Hc|Hc]; [now right|]. destruct (RN c Hc). congruence.
    + intros c Hc Fc. apply in_app_iff in Hc. apply in_or_app. destruct Hc as [Hc|Hc].
      * left. apply in_or_app. right. apply EIn. auto.
      * apply in_app_iff in Hc. destruct Hc as [Hc|Hc]; [|now right].
        destruct (IBF c Hc) as [b [_ [X _]]]. congruence.
    + intros a Ha. apply in_or_app. left. now apply HfFact.
    + intros c Hc. apply in_or_app. right. apply in_or_app. now left.
    + intros c Hc. apply in_app_iff in Hc. destruct Hc as [Hc|Hc].
      * destruct (isFa (chead c)) eqn:Fc; [now apply isFa_headed|]. apply V2. apply EIn. auto.
      * apply in_app_iff in Hc. destruct Hc as [Hc|Hc].
        -- destruct (IBF c Hc) as [b [_ [X _]]]. now apply isFa_headed.
        -- now apply RN.
    + intros c Hc Fc. apply in_app_iff in Hc. destruct Hc as [Hc|Hc].
      * apply in_app_iff in Hc. destruct Hc as [Hc|Hc].
        -- apply in_map_iff in Hc. destruct Hc as [a [<- Ha]]. eauto.
        -- apply EIn in Hc. destruct Hc. congruence.
      * destruct (RN c Hc). congruence.
    + intros c Hc Fc. apply in_app_iff in Hc. apply in_or_app. destruct Hc as [Hc|Hc].
      * apply in_app_iff in Hc. destruct Hc as [Hc|Hc].
        -- apply in_map_iff in Hc. destruct Hc as [a [<- Ha]]. cbn [fact chead] in Fc. rewrite (CLF a Ha) in Fc. discriminate.
        -- left. now apply EIn.
      * right. apply in_or_app. now right.
    + intros a Ha. apply in_or_app. left. apply in_or_app. left. now apply in_map.
    + intros c Hc. apply in_app_iff in Hc. destruct Hc as [Hc|Hc].
      * apply in_app_iff in Hc. destruct Hc as [Hc|Hc].
        -- apply in_map_iff in Hc. destruct Hc as [a [<- Ha]]. apply isFa_headed. cbn [fact chead]. now apply CLF.
        -- apply V2. exact Hc.
      * now apply RN.
  }
  assert (HE2 : phb_clauses (hs' ++ []) = phb_clauses (map fact CL ++ E)) by (rewrite app_nil_r; exact V3).
  pose proof (sat_bridge (rs_IB s) (rs_co s) Hf CL IBF coF HfG CG CLspec
                (full_program s) (core_program s) (hs' ++ []) (map fact CL ++ E) eq_refl eq_refl SO K6 HE2
                g Hn [] rho (fun c (Hc : In c []) => match Hc with end)) as B.
  exact B.
Qed.

Definition eval_if (fuel : nat) (s : rsys) (rho : list ty) (hs : list hyp) (g : goal) : option bool :=
  if rsys_ok s && nofe g then
    match elab_hyps fuel s (map (inst_hyp rho) hs) with
    | Some (CL, E) =>
        let env2 := map fact CL ++ E in
        if rr_allb (allc (core_program s) env2) then eval_goal fuel (core_program s) env2 rho g else None
    | None => None
    end
  else None.

(** [if (H) { G }] holds — in the program with ALL implied-bound rules — exactly when [G]
    follows from the program plus the elaborated hypotheses; the verified evaluator decides
    the latter. *)
Theorem sat_if_exact : forall fuel s rho hs g b,
  eval_if fuel s rho hs g = Some b ->
  (b = true <-> sat (full_program s) [] rho (GIf hs g)).
Proof.
  intros fuel s rho hs g b H. unfold eval_if in H.
  destruct (rsys_ok s && nofe g) eqn:V; [|discriminate]. apply andb_true_iff in V. destruct V as [V1 V2].
  destruct (elab_hyps fuel s (map (inst_hyp rho) hs)) as [[CL E]|] eqn:EH; [|discriminate].
  destruct (rr_allb (allc (core_program s) (map fact CL ++ E))) eqn:Er; [|discriminate].
  apply rr_allb_spec in Er. rewrite (sat_if_elab fuel s rho hs g CL E V1 V2 EH).
  apply (eval_correct fuel); assumption.
Qed.

(** The verdict depends on the hypotheses only through their elaboration: two hypothesis
    lists with the same closure (as sets) and the same other clauses are interchangeable. *)
Theorem env_scoped : forall fuel fuel' s rho hs hs' g CL E CL' E',
  rsys_ok s = true -> nofe g = true ->
  elab_hyps fuel s (map (inst_hyp rho) hs) = Some (CL, E) ->
  elab_hyps fuel' s (map (inst_hyp rho) hs') = Some (CL', E') ->
  (forall a, In a CL <-> In a CL') -> peq E E' ->
  (sat (full_program s) [] rho (GIf hs g) <-> sat (full_program s) [] rho (GIf hs' g)).
Proof.
  intros fuel fuel' s rho hs hs' g CL E CL' E' Hok Hn H1 H2 HC HE.
  rewrite (sat_if_elab fuel s rho hs g CL E Hok Hn H1), (sat_if_elab fuel' s rho hs' g CL' E' Hok Hn H2).
  apply sat_peq; [apply peq_refl|intro; tauto|]. apply peq_app; [|exact HE].
  split; apply csub_incl; intros c Hc; apply in_map_iff in Hc; destruct Hc as [a [<- Ha]]; apply in_map; now apply HC.
Qed.

(** Hypotheses are scoped: the conjunct outside the [if] is evaluated without them. *)
Theorem if_scoped : forall P env rho hs g1 g2,
  sat P env rho (GAnd (GIf hs g1) g2) <-> (sat P (map (inst_hyp rho) hs ++ env) rho g1 /\ sat P env rho g2).
Proof. intros. cbn [sat]. tauto. Qed.

(** ** 6. Lowering declarations to a rule system (program_clauses.rs) *)

Fixpoint map_head (f : N -> N) (t : ty) : ty :=
  match t with
  | TCon c => TCon (f c)
  | TAp g x => TAp (map_head f g) x
  | _ => t
  end.

(** [Implemented(a)] to [FromEnv(a)] / [WellFormed(a)]. *)
Definition fe (a : ty) : ty := map_head (fun s => s + 1000)%N a.
Definition wf (a : ty) : ty := map_head (fun s => s + 2000)%N a.
Definition fety (t : ty) : ty := TAp (TCon FETY) t.
Definition wfty (t : ty) : ty := TAp (TCon WFTY) t.

(** [trait Tr<P..> where WC]: [t_ref] = [Self: Tr<P..>] over [TVar 0 ..]; where-clauses are
    trait references over the same variables. *)
Record trait_decl : Type := mkTrait { t_ref : ty; t_wcs : list ty }.
(** [struct S<P..> where WC { fields }]: [a_ty] = [S<P..>]. *)
Record adt_decl : Type := mkAdt { a_ty : ty; a_wcs : list ty; a_fields : list ty }.
(** impls are clauses [Implemented(header) :- Implemented(where-clauses)]. *)
Record decls : Type := mkDecls {
  d_traits : list trait_decl; d_adts : list adt_decl; d_impls : list clause; d_coind : list N }.

(** Implied-Bound-From-Trait / -From-Type *)
Definition trait_ib (t : trait_decl) : list clause := map (fun w => mkClause (fe w) [fe (t_ref t)]) (t_wcs t).
Definition adt_ib (a : adt_decl) : list clause := map (fun w => mkClause (fe w) [fety (a_ty a)]) (a_wcs a).
(** WellFormed-TraitRef, Implemented-From-Env; WellFormed-Type *)
Definition trait_rr (t : trait_decl) : list clause :=
  [mkClause (wf (t_ref t)) (t_ref t :: map wf (t_wcs t)); mkClause (t_ref t) [fe (t_ref t)]].
Definition adt_rr (a : adt_decl) : list clause := [mkClause (wfty (a_ty a)) (map wf (a_wcs a))].

Definition sym_or0 (t : ty) : N := match hsym t with Some s => s | None => 0%N end.

Definition lower (d : decls) : rsys :=
  mkRsys (map (fun t => mkDatum (sym_or0 (fe (t_ref t))) (trait_rr t ++ trait_ib t)) (d_traits d) ++
          map (fun a => mkDatum (sym_or0 (a_ty a)) (adt_rr a ++ adt_ib a)) (d_adts d))
         (flat_map trait_ib (d_traits d) ++ flat_map adt_ib (d_adts d))
         (d_impls d ++ flat_map trait_rr (d_traits d) ++ flat_map adt_rr (d_adts d))
         (d_coind d ++ map (fun t => sym_or0 (wf (t_ref t))) (d_traits d)).

(** The oracle entry point used by the check: [forall<..> { if (hs) { g } }] with the
    [forall] variables already replaced by the placeholders in [rho]. *)
Definition eval_if_decls (fuel : nat) (d : decls) (rho : list ty) (hs : list hyp) (g : goal) : option bool :=
  eval_if fuel (lower d) rho hs g.

(** Hypotheses do not reach a conjunct outside their [if] — in either order of the conjuncts:
    the oracle for [(if (H) { G1 }), G2] and [G2, (if (H) { G1 })] evaluates [G2] WITHOUT [H]. *)
Definition eval_if_and (fuel : nat) (s : rsys) (rho : list ty) (hs : list hyp) (g1 g2 : goal) : option bool :=
  and3 (eval_if fuel s rho hs g1) (eval_if fuel s rho [] g2).

Theorem sat_if_and_exact : forall fuel s rho hs g1 g2 b,
  eval_if_and fuel s rho hs g1 g2 = Some b ->
  (b = true <-> sat (full_program s) [] rho (GAnd (GIf hs g1) g2)) /\
  (b = true <-> sat (full_program s) [] rho (GAnd g2 (GIf hs g1))).
Proof.
  intros fuel s rho hs g1 g2 b H. unfold eval_if_and in H.
  assert (K : b = true <-> sat (full_program s) [] rho (GIf hs g1) /\ sat (full_program s) [] rho (GIf [] g2)).
  { destruct (eval_if fuel s rho hs g1) as [b1|] eqn:E1; destruct (eval_if fuel s rho [] g2) as [b2|] eqn:E2.
    - pose proof (sat_if_exact _ _ _ _ _ _ E1) as X1. pose proof (sat_if_exact _ _ _ _ _ _ E2) as X2.
      destruct b1, b2; cbn [and3] in H; inversion H; subst; intuition congruence.
    - pose proof (sat_if_exact _ _ _ _ _ _ E1) as X1. destruct b1; cbn [and3] in H; inversion H; subst. intuition congruence.
    - pose proof (sat_if_exact _ _ _ _ _ _ E2) as X2. destruct b2; cbn [and3] in H; inversion H; subst. intuition congruence.
    - discriminate. }
  cbn [sat map app] in *. tauto.
Qed.

Definition eval_if_and_decls (fuel : nat) (d : decls) (rho : list ty) (hs : list hyp) (g1 g2 : goal) : option bool :=
  eval_if_and fuel (lower d) rho hs g1 g2.

(** What the elaboration collects, for the correspondence with the real
    [program_clauses_for_env]: the FromEnv atoms of the closure. *)
Definition elab_atoms (fuel : nat) (d : decls) (hs : list clause) : option (list ty) :=
  match elab_hyps fuel (lower d) hs with Some (CL, _) => Some CL | None => None end.

(** ** Known class of the recursive solver (finding C06-rec-ambiguous-bound)

    An implied-bound rule of a trait with parameters, [FromEnv(WC) :- FromEnv(Self: Tr<P>)], has
    a body variable [P] that the head may not mention.  When the elaborated environment
    contains two different facts [FromEnv(T: Tr<A>)], [FromEnv(T: Tr<B>)] that give the same
    head instance, the sub-goal [FromEnv(T: Tr<?P>)] has two answers; the recursive solver
    turns that into [Ambiguous] for the whole goal although the goal follows (the SLG solver
    proves it).  Witness: [trait Tr4 {} trait Tr1<P> where Self: Tr4 {}],
    [forall<X> { if (X: Tr1<S0>; X: Tr1<S1>) { X: Tr4 } }].  Decidable on the input: *)
Definition exist_ambig (IB : list clause) (CL : list ty) : bool :=
  existsb (fun c =>
    match cbody c with
    | [b] =>
        negb (rrb c) &&
        existsb (fun f1 => existsb (fun f2 =>
          negb (ty_eqb f1 f2) &&
          match mtch b f1 [], mtch b f2 [] with
          | Some s1, Some s2 => ty_eqb (subst (asfun s1) (chead c)) (subst (asfun s2) (chead c))
          | _, _ => false
          end) CL) CL
    | _ => false
    end) IB.

Definition rec_ambig_class (fuel : nat) (d : decls) (rho : list ty) (hs : list hyp) : bool :=
  match elab_hyps fuel (lower d) (map (inst_hyp rho) hs) with
  | Some (CL, _) => exist_ambig (rs_IB (lower d)) CL
  | None => false
  end.

(** ** Known class of the SLG solver (DESIGN §5 F7, here within ONE query)

    [WellFormed(T: Tr)] is coinductive; supertrait / parameter-bound cycles make its
    dependency graph cyclic.  SLG keeps, for a table first created as a non-root member of a
    coinductive cycle, only an answer with delayed sub-goals; when another consumer outside
    that cycle needs the table the answer is discarded and a TRUE goal gets "No possible
    solution".  Witness (found by the C06 generator):
    [struct S0 {} trait Tr3<P0> where Self: Tr0, P0: Tr2 {} trait Tr1 where Self: Tr3<S0> {}
     trait Tr2 where Self: Tr1, Self: Tr3<S0> {} trait Tr0 where Self: Tr1 {}],
    [forall<X> { if (X: Tr2) { WellFormed(X: Tr2) } }]: SLG "No possible solution", oracle: true.
    Decidable, conservative description on the input: the goal reaches a coinductive predicate
    that lies on a cycle of the predicate dependency graph. *)
Definition slg_cocycle_class (d : decls) (g : goal) : bool :=
  let s := lower d in
  let cls := rs_R s in
  let start := syms_of (goal_atoms g) in
  let R0 := reachS (graph_fuel cls (length start)) cls start [] in
  existsb (fun x => memN x (rs_co s) && memN x (reaches_from cls x)) R0.

Module EnvExamples.
  (* struct A; struct B; struct S<T> where T: Ord; struct W<T>
     trait Clone; trait Eq where Self: Clone; trait Ord where Self: Eq; trait Hash<K> where K: Eq
     impl Clone for A; impl<T> Ord for W<T> where T: Ord  (unsound impl: not WF-checked here) *)
  Definition A := tapp 0 []. Definition B := tapp 1 [].
  Definition Sx t := tapp 2 [t]. Definition W t := tapp 3 [t].
  Definition Clone t := tapp 1000 [t]. Definition Eq t := tapp 1001 [t].
  Definition Ord t := tapp 1002 [t]. Definition Hash t k := tapp 1003 [t; k].
  Definition D := mkDecls
    [mkTrait (Clone (TVar 0)) []; mkTrait (Eq (TVar 0)) [Clone (TVar 0)];
     mkTrait (Ord (TVar 0)) [Eq (TVar 0)]; mkTrait (Hash (TVar 0) (TVar 1)) [Eq (TVar 1)]]
    [mkAdt A [] []; mkAdt B [] []; mkAdt (Sx (TVar 0)) [Ord (TVar 0)] []; mkAdt (W (TVar 0)) [] [TVar 0]]
    [mkClause (Clone A) []; mkClause (Ord (W (TVar 0))) [Ord (TVar 0)]] [].

  Example lower_ok : rsys_ok (lower D) = true.
  Proof. vm_compute. reflexivity. Qed.

  Definition T := TPh 0. Definition U := TPh 1.
  Definition hypo a := mkHyp 0 (mkClause a []).

  (* the elaborated closure of FromEnv(T: Ord): Ord, Eq, Clone *)
  Example elab_chain :
    elab_atoms 50 D [fact (fe (Ord T))] = Some [fe (Clone T); fe (Eq T); fe (Ord T)].
  Proof. vm_compute. reflexivity. Qed.

  (* forall<T> { if (T: Ord) { T: Clone } }: true;   forall<T> { if (T: Clone) { T: Eq } }: false *)
  Example if_super : eval_if_decls 50 D [T] [hypo (fe (Ord (TVar 0)))] (GAtom (Clone (TVar 0))) = Some true.
  Proof. vm_compute. reflexivity. Qed.
  Example if_not_sub : eval_if_decls 50 D [T] [hypo (fe (Clone (TVar 0)))] (GAtom (Eq (TVar 0))) = Some false.
  Proof. vm_compute. reflexivity. Qed.
  (* bound on the trait's own parameter: if (T: Hash<U>) { U: Clone } *)
  Example if_param : eval_if_decls 50 D [U; T] [hypo (fe (Hash (TVar 1) (TVar 0)))] (GAtom (Clone (TVar 0))) = Some true.
  Proof. vm_compute. reflexivity. Qed.
  (* struct where-clause: if (FromEnv(S<T>)) { W<T>: Ord, T: Clone } *)
  Example if_struct : eval_if_decls 50 D [T] [hypo (fety (Sx (TVar 0)))]
                        (GAnd (GAtom (Ord (W (TVar 0)))) (GAtom (Clone (TVar 0)))) = Some true.
  Proof. vm_compute. reflexivity. Qed.
  (* FromEnv goals themselves, and WellFormed *)
  Example if_fromenv : eval_if_decls 50 D [T] [hypo (fe (Ord (TVar 0)))]
                        (GAnd (GAtom (fe (Eq (TVar 0)))) (GAnd (GAtom (wf (Ord (TVar 0)))) (GAtom (wfty (Sx (TVar 0)))))) = Some true.
  Proof. vm_compute. reflexivity. Qed.

  (** Non-vacuity of [sat_if_exact]: a true and a false instance, through the theorem. *)
  Example sat_if_exact_nonvacuous :
    sat (full_program (lower D)) [] [T] (GIf [hypo (fe (Ord (TVar 0)))] (GAtom (Clone (TVar 0)))) /\
    ~ sat (full_program (lower D)) [] [T] (GIf [hypo (fe (Clone (TVar 0)))] (GAtom (Eq (TVar 0)))).
  Proof.
    split.
    - apply (sat_if_exact 50 (lower D) [T] _ _ true if_super). reflexivity.
    - intro H. apply (sat_if_exact 50 (lower D) [T] _ _ false if_not_sub) in H. discriminate.
  Qed.

  (** Non-vacuity of the elaboration theorems. *)
  Example elab_nonvacuous :
    exists S, elab_env (rs_ds (lower D)) [fact (fe (Ord T))] = Some S /\ length S = 9.
  Proof. eexists. split; [vm_compute; reflexivity|reflexivity]. Qed.
  (** The witness of the recursive solver's known class: the goal follows (oracle, through
      [sat_if_exact]) and the input is in the class. *)
  Definition D2 := mkDecls [mkTrait (tapp 1000 [TVar 0]) []; mkTrait (tapp 1001 [TVar 0; TVar 1]) [tapp 1000 [TVar 0]]]
                           [mkAdt A [] []; mkAdt B [] []] [] [].
  Definition hs2 := [hypo (fe (tapp 1001 [TVar 0; A])); hypo (fe (tapp 1001 [TVar 0; B]))].
  Example rec_ambig_witness :
    rec_ambig_class 50 D2 [T] hs2 = true /\
    sat (full_program (lower D2)) [] [T] (GIf hs2 (GAtom (tapp 1000 [TVar 0]))) /\
    rec_ambig_class 50 D2 [T] [hypo (fe (tapp 1001 [TVar 0; A]))] = false.
  Proof.
    split; [vm_compute; reflexivity|]. split; [|vm_compute; reflexivity].
    apply (sat_if_exact 50 (lower D2) [T] hs2 _ true); [vm_compute; reflexivity|reflexivity].
  Qed.
  (** The SLG class: the witness is in it and the oracle proves the goal; an acyclic
      hierarchy is outside. *)
  Definition D3 := mkDecls
    [mkTrait (tapp 1000 [TVar 0]) [tapp 1001 [TVar 0]];                                   (* Tr0 where Self: Tr1 *)
     mkTrait (tapp 1001 [TVar 0]) [tapp 1003 [TVar 0; A]];                                (* Tr1 where Self: Tr3<S0> *)
     mkTrait (tapp 1002 [TVar 0]) [tapp 1001 [TVar 0]; tapp 1003 [TVar 0; A]];            (* Tr2 where Self: Tr1, Self: Tr3<S0> *)
     mkTrait (tapp 1003 [TVar 0; TVar 1]) [tapp 1000 [TVar 0]; tapp 1002 [TVar 1]]]       (* Tr3<P0> where Self: Tr0, P0: Tr2 *)
    [mkAdt A [] []] [] [].
  Example slg_cocycle_witness :
    slg_cocycle_class D3 (GAtom (wf (tapp 1002 [TVar 0]))) = true /\
    sat (full_program (lower D3)) [] [T] (GIf [hypo (fe (tapp 1002 [TVar 0]))] (GAtom (wf (tapp 1002 [TVar 0])))) /\
    slg_cocycle_class D (GAtom (wf (Ord (TVar 0)))) = false.
  Proof.
    split; [vm_compute; reflexivity|]. split; [|vm_compute; reflexivity].
    apply (sat_if_exact 100 (lower D3) [T] _ _ true); [vm_compute; reflexivity|reflexivity].
  Qed.
End EnvExamples.
