(** * Rules.Wf — well-formedness checking and the bounds it lets code assume (property C21).

    wf.rs proves, for every impl [impl<P..> Tr<A..> for T where WC]:

      forall<P..> { if (FromEnv(WC), FromEnv(InputTypes(T: Tr<A..>))) {
                       WellFormed(InputTypes(WC)), WellFormed(T: Tr<A..>) } }

    and for every struct [struct S<P..> where WC { fields }]:

      forall<P..> { if (FromEnv(WC)) { WellFormed(InputTypes(fields)), WellFormed(InputTypes(WC)) } }

    ([impl_header_wf_goal], [impl_wf_environment], [verify_adt_decl]; [InputTypes] = every
    non-parameter type that occurs).  [WellFormed(T: Tr) :- Implemented(T: Tr), WellFormed(WC)]
    is coinductive, so it enumerates the bounds transitively.  Traits are not checked.

    The property: in a program that passes, every (deeply) well-formed concrete type that
    implements a trait satisfies the trait's where-clauses — transitively: [WellFormed(T: Tr)]
    holds — and the input types of the fields of a well-formed struct instance are well-formed.

    What is proved here ([wf_implied_bounds_sound_partial], [wf_fields_sound]) is that
    statement for the fragment without associated types and lifetimes and with inductive
    traits, under the checks in *instance form* (each goal holds for every ground
    instantiation of the impl parameters — implied by the generic goal the checker proves)
    and with the *strict* variant of the first conjunct: [WellFormed(InputTypes(WC))] must
    follow from [FromEnv(InputTypes(header))] alone.  chalk proves it with [FromEnv(WC)] also
    assumed; that circularity is a genuine hole ([wf_hole_witness], finding C21-wf-circular):
    the statement is false without the strict premise. *)

From Chalk Require Export Rules.EnvElab.

(** ** 0. From FromEnv atoms to WellFormed atoms *)

Definition toWF (a : ty) : ty := map_head (fun s => if (s =? FETY)%N then WFTY else (s + 1000)%N) a.

Lemma map_head_subst : forall f a th, hsym a <> None -> subst th (map_head f a) = map_head f (subst th a).
Proof.
  intros f. induction a as [c|g IHg x _|k|i]; intros th H; cbn [map_head subst hsym] in *; try congruence.
  now rewrite IHg.
Qed.

Lemma toWF_subst : forall a th, hsym a <> None -> subst th (toWF a) = toWF (subst th a).
Proof. intros. unfold toWF. now apply map_head_subst. Qed.

Lemma fe_subst : forall h th, hsym h <> None -> subst th (fe h) = fe (subst th h).
Proof. intros. unfold fe. now apply map_head_subst. Qed.

(** ** 1. The cut lemma *)

(** Clause instances of [R] plus the facts [C]. *)
Definition stepC (C : ty -> Prop) (R : list clause) (a : ty) (bs : list ty) : Prop :=
  (C a /\ bs = []) \/ inst R a bs.

(** Shape of the core clauses: heads and body atoms are headed by a symbol, heads are not
    FromEnv atoms, and a FromEnv atom occurs in a body only as the single premise of an
    Implemented-From-Env clause [h :- FromEnv(h)]. *)
(** The key a clause head is indexed by: its predicate symbol and, for the predicates on types
    ([FromEnv(ty)], [WellFormed(ty)]), the outermost type constructor. *)
Definition hkey (a : ty) : option (N * N) :=
  match hsym a with
  | Some s =>
      if (s =? WFTY)%N || (s =? FETY)%N then
        match a with
        | TAp _ t => match hsym t with Some x => Some (s, x + 1)%N | None => None end
        | _ => None
        end
      else Some (s, 0%N)
  | None => None
  end.

Lemma hkey_subst : forall a th k, hkey a = Some k -> hkey (subst th a) = Some k.
Proof.
  intros a th k H. unfold hkey in *. destruct (hsym a) as [s|] eqn:E; [|discriminate].
  rewrite (hsym_subst _ th _ E). destruct ((s =? WFTY)%N || (s =? FETY)%N); [|exact H].
  destruct a as [c|f t|p|i]; try discriminate. cbn [subst].
  destruct (hsym t) as [x|] eqn:Et; [|discriminate]. now rewrite (hsym_subst _ th _ Et).
Qed.

Definition isI (a : ty) : bool :=
  match hsym a with Some s => (1000 <=? s)%N && (s <? 2000)%N | None => false end.

Definition core_clause_ok (c : clause) : bool :=
  negb (isFa (chead c)) && headed c && match hkey (chead c) with Some _ => true | None => false end &&
  forallb (fun b => match hsym b with Some _ => true | None => false end) (cbody c) &&
  (negb (existsb isFa (cbody c)) ||
   (match cbody c with [b] => ty_eqb b (fe (chead c)) | _ => false end && isI (chead c))).

Section Cut.
  Variable R : list clause.
  Variable co : list N.
  Hypothesis R_ok : forall c, In c R -> core_clause_ok c = true.
  Hypothesis co_F : forall s, In s co -> isF s = false.

  Definition hR (a : ty) : Prop := holds (inst R) (isco co) a.

  Lemma core_ok_key : forall c, In c R -> hkey (chead c) <> None.
  Proof.
    intros c Hc. pose proof (R_ok c Hc) as K. unfold core_clause_ok in K.
    repeat (apply andb_true_iff in K; destruct K as [K ?]).
    destruct (hkey (chead c)); [discriminate|discriminate H1].
  Qed.

  Lemma core_ok_parts : forall c, In c R ->
    isFa (chead c) = false /\ hsym (chead c) <> None /\
    (forall b, In b (cbody c) -> hsym b <> None) /\
    (existsb isFa (cbody c) = true -> cbody c = [fe (chead c)] /\ isI (chead c) = true).
  Proof.
    intros c Hc. pose proof (R_ok c Hc) as K. unfold core_clause_ok in K.
    repeat (apply andb_true_iff in K; destruct K as [K ?]).
    apply negb_true_iff in K. split; [exact K|]. split; [now apply headed_hsym|]. clear H1. split.
    - intros b Hb. rewrite forallb_forall in H0. specialize (H0 b Hb). destruct (hsym b); [discriminate|discriminate H0].
    - intro E. rewrite E in H. cbn [negb orb] in H. apply andb_true_iff in H. destruct H as [H HI].
      split; [|exact HI]. destruct (cbody c) as [|b [|]]; try discriminate.
      apply ty_eqb_eq in H. now subst.
  Qed.

  Lemma F_not_co' : forall a, isFa a = true -> isco co a = false.
  Proof.
    intros a H. unfold isFa in H. unfold isco. destruct (hsym a) as [s|]; [|reflexivity].
    destruct (memN s co) eqn:E; [|reflexivity]. apply memN_In in E. rewrite (co_F s E) in H. discriminate.
  Qed.

  (** No FromEnv atom holds in the program without hypotheses. *)
  Lemma no_fromenv : forall a, isFa a = true -> ~ hR a.
  Proof.
    intros a Fa H. apply holds_unfold in H. destruct H as [bs [[c [th [Hc [_ [Eh _]]]]] _]].
    destruct (core_ok_parts c Hc) as [Fn [Hh _]]. rewrite <- Eh in Fa. rewrite isFa_subst in Fa by assumption. congruence.
  Qed.

  Section WithC.
    Variable C : ty -> Prop.
    Hypothesis C_F : forall a, C a -> isFa a = true.
    (** every trait FromEnv fact of [C] is true in [R] *)
    Hypothesis C_true : forall a, isI a = true -> C (fe a) -> hR a.

    Lemma cut_derives : forall X a,
      derives (stepC C R) (isco co) X a -> isFa a = false ->
      derives (inst R) (isco co) (fun y => X y \/ gfpX (inst R) (isco co) y) a.
    Proof.
      intros X a D. induction D as [a bs Hs Hc Hd IH]. intro Fa.
      destruct Hs as [[Ca _]|Hi]; [rewrite (C_F a Ca) in Fa; discriminate|].
      destruct Hi as [c [th [HcR [Gt [Eh Eb]]]]].
      destruct (core_ok_parts c HcR) as [Fn [Hh [Hb Hbr]]].
      destruct (existsb isFa (cbody c)) eqn:EF.
      - (* an Implemented-From-Env clause: its FromEnv premise is a fact of C, hence true *)
        destruct (Hbr eq_refl) as [Eq HI].
        assert (Ia : isI a = true).
        { rewrite <- Eh. unfold isI in *. destruct (hsym (chead c)) as [s0|] eqn:E0; [|discriminate]. now rewrite (hsym_subst _ th _ E0). }
        assert (Eb' : bs = [fe a]).
        { rewrite Eb, Eq. cbn [map]. rewrite fe_subst by assumption. now rewrite Eh. }
        assert (Ffe : isFa (fe a) = true).
        { apply existsb_exists in EF. destruct EF as [b0 [Hb0 Fb0]]. rewrite Eq in Hb0. destruct Hb0 as [<-|[]].
          rewrite <- Eh. rewrite <- fe_subst by assumption. rewrite isFa_subst; [exact Fb0|now apply isFa_hsym]. }
        assert (Dfe : derives (stepC C R) (isco co) X (fe a)).
        { apply Hd; [rewrite Eb'; now left|now apply F_not_co']. }
        assert (Cfe : C (fe a)).
        { inversion Dfe as [a' bs' Hs' _ _]; subst. destruct Hs' as [[Cx _]|Hi']; [exact Cx|].
          destruct Hi' as [c' [th' [Hc' [_ [Eh' _]]]]]. destruct (core_ok_parts c' Hc') as [Fn' [Hh' _]].
          rewrite <- Eh' in Ffe. rewrite isFa_subst in Ffe by assumption. congruence. }
        apply (derives_mono _ _ (gfpX (inst R) (isco co))); [intros; now right|].
        apply holds_derives. now apply C_true.
      - apply (Der _ _ _ a bs).
        + exists c, th. auto.
        + intros b Hb0 Hcb. left. now apply Hc.
        + intros b Hb0 Hcb. apply IH; [exact Hb0|exact Hcb|].
          rewrite Eb in Hb0. apply in_map_iff in Hb0. destruct Hb0 as [b1 [<- Hb1]].
          rewrite isFa_subst by (now apply Hb).
          destruct (isFa b1) eqn:E; [|reflexivity].
          assert (existsb isFa (cbody c) = true) by (apply existsb_exists; eauto). congruence.
    Qed.

    (** The cut: what follows from the program plus TRUE FromEnv facts follows from the
        program alone. *)
    Theorem cut : forall a, isFa a = false -> holds (stepC C R) (isco co) a -> hR a.
    Proof.
      intros a Fa [X [HX Ha]].
      set (Y := fun y => X y \/ gfpX (inst R) (isco co) y).
      assert (CY : cosound (inst R) (isco co) Y).
      { intros y [Hy|Hy].
        - destruct (HX y Hy) as [H1 H2]. split; [exact H1|]. apply cut_derives; [exact H2|].
          destruct (isFa y) eqn:E; [|reflexivity]. rewrite (F_not_co' y E) in H1. discriminate.
        - destruct (gfpX_cosound (inst R) (isco co) y Hy) as [H1 H2]. split; [exact H1|].
          apply (derives_mono _ _ (gfpX (inst R) (isco co))); [intros; now right|exact H2]. }
      unfold hR. destruct (isco co a) eqn:E.
      - exists Y. split; [exact CY|]. rewrite E. now left.
      - apply (derives_holds _ _ Y a CY). now apply cut_derives.
    Qed.
  End WithC.

  (** ** 2. Unfolding a rule that is the only one for its head symbol *)

  Lemma subst_inj_vars : forall t th1 th2, subst th1 t = subst th2 t -> forall i, occurs i t = true -> th1 i = th2 i.
  Proof.
    induction t as [c|f IHf x IHx|k|j]; intros th1 th2 H i Hi; cbn [subst occurs] in *; try discriminate.
    - inversion H. apply orb_true_iff in Hi. destruct Hi; [eapply IHf|eapply IHx]; eauto.
    - apply Nat.eqb_eq in Hi. now subst.
  Qed.

  Lemma unfold_unique : forall k th,
    In k R -> rrb k = true ->
    (forall c, In c R -> hkey (chead c) = hkey (chead k) -> c = k) ->
    hR (subst th (chead k)) -> forall b, In b (cbody k) -> hR (subst th b).
  Proof.
    intros k th Hk Hrr Hu H b Hb. apply holds_unfold in H. destruct H as [bs [[c [th' [Hc [_ [Eh Eb]]]]] Hall]].
    assert (c = k).
    { apply Hu; [exact Hc|].
      pose proof (core_ok_key c Hc) as K1. pose proof (core_ok_key k Hk) as K2.
      destruct (hkey (chead c)) as [k1|] eqn:E1; [|congruence]. destruct (hkey (chead k)) as [k2|] eqn:E2; [|congruence].
      pose proof (hkey_subst _ th' _ E1) as X1. pose proof (hkey_subst _ th _ E2) as X2. rewrite Eh in X1. congruence. }
    subst c. assert (E : subst th b = subst th' b).
    { apply subst_ext. intros i Hi. symmetry. apply (subst_inj_vars (chead k)); [exact Eh|].
      apply rrb_spec in Hrr. apply (Hrr b i Hb Hi). }
    rewrite E. apply Hall. subst bs. now apply in_map.
  Qed.
End Cut.

(** ** 3. InputTypes *)

(** [inputs t]: every non-variable type occurring in the type [t], [t] included;
    [insp a]: the input types of the arguments of an application spine (of an atom
    [T: Tr<P..>], or of [S<P..>] without [S<P..>] itself). *)
Fixpoint inputs (t : ty) : list ty :=
  match t with
  | TCon c => [t]
  | TAp f x => t :: insp f ++ inputs x
  | _ => []
  end
with insp (f : ty) : list ty :=
  match f with
  | TAp g y => insp g ++ inputs y
  | _ => []
  end.

Lemma insp_inputs : forall t u, In u (insp t) -> In u (inputs t).
Proof. intros [c|f x|k|i] u H; cbn [inputs insp] in *; try destruct H. right. exact H. Qed.

Lemma inputs_subst_in : forall th t,
  (forall u, In u (inputs t) -> In (subst th u) (inputs (subst th t))) /\
  (forall u, In u (insp t) -> In (subst th u) (insp (subst th t))).
Proof.
  intro th. induction t as [c|f [IHf1 IHf2] x [IHx1 IHx2]|k|i]; cbn [inputs insp subst]; split; intros u H; try destruct H.
  - subst u. now left.
  - destruct H.
  - subst u. now left.
  - right. apply in_app_iff in H. apply in_or_app. destruct H; [left; now apply IHf2|right; now apply IHx1].
  - apply in_app_iff in H. apply in_or_app. destruct H; [left; now apply IHf2|right; now apply IHx1].
Qed.

(** Decomposition: an input type of an instance comes from the pattern or from a value. *)
Lemma inputs_subst_cases : forall th t,
  (forall u', In u' (inputs (subst th t)) ->
     (exists u, In u (inputs t) /\ u' = subst th u) \/ (exists i, occurs i t = true /\ In u' (inputs (th i)))) /\
  (forall u', In u' (insp (subst th t)) ->
     (exists u, In u (insp t) /\ u' = subst th u) \/ (exists i, occurs i t = true /\ In u' (inputs (th i)))).
Proof.
  intro th. induction t as [c|f [IHf1 IHf2] x [IHx1 IHx2]|k|i]; cbn [inputs insp subst occurs]; split; intros u' H.
  - left. exists (TCon c). split; [now left|]. destruct H as [<-|[]]. reflexivity.
  - destruct H.
  - destruct H as [<-|H].
    + left. exists (TAp f x). split; [now left|reflexivity].
    + apply in_app_iff in H. destruct H as [H|H].
      * destruct (IHf2 u' H) as [[u [Hu E]]|[i [Hi Hv]]].
        -- left. exists u. split; [right; apply in_or_app; now left|exact E].
        -- right. exists i. rewrite Hi. auto.
      * destruct (IHx1 u' H) as [[u [Hu E]]|[i [Hi Hv]]].
        -- left. exists u. split; [right; apply in_or_app; now right|exact E].
        -- right. exists i. rewrite Hi, orb_true_r. auto.
  - apply in_app_iff in H. destruct H as [H|H].
    + destruct (IHf2 u' H) as [[u [Hu E]]|[i [Hi Hv]]].
      * left. exists u. split; [apply in_or_app; now left|exact E].
      * right. exists i. rewrite Hi. auto.
    + destruct (IHx1 u' H) as [[u [Hu E]]|[i [Hi Hv]]].
      * left. exists u. split; [apply in_or_app; now right|exact E].
      * right. exists i. rewrite Hi, orb_true_r. auto.
  - destruct H.
  - destruct H.
  - right. exists i. rewrite Nat.eqb_refl. auto.
  - right. exists i. rewrite Nat.eqb_refl. split; [reflexivity|]. now apply insp_inputs.
Qed.

(** First-order terms: no variable in function position. *)
Fixpoint fo (t : ty) : bool :=
  match t with
  | TAp f x => fo_fun f && fo x
  | _ => true
  end
with fo_fun (f : ty) : bool :=
  match f with
  | TAp g y => fo_fun g && fo y
  | TCon _ => true
  | _ => false
  end.

Lemma inputs_of_value : forall th t,
  (fo t = true -> forall i, occurs i t = true -> forall u, In u (inputs (th i)) -> In u (inputs (subst th t))) /\
  (fo_fun t = true -> forall i, occurs i t = true -> forall u, In u (inputs (th i)) -> In u (insp (subst th t))).
Proof.
  intro th. induction t as [c|f [IHf1 IHf2] x [IHx1 IHx2]|k|j]; cbn [fo fo_fun occurs subst inputs insp]; split;
    intros F i Hi u Hu; try discriminate.
  - apply andb_true_iff in F. destruct F as [F1 F2]. apply orb_true_iff in Hi. right. apply in_or_app.
    destruct Hi as [Hi|Hi]; [left; now apply (IHf2 F1 i Hi)|right; now apply (IHx1 F2 i Hi)].
  - apply andb_true_iff in F. destruct F as [F1 F2]. apply orb_true_iff in Hi. apply in_or_app.
    destruct Hi as [Hi|Hi]; [left; now apply (IHf2 F1 i Hi)|right; now apply (IHx1 F2 i Hi)].
  - apply Nat.eqb_eq in Hi. now subst.
Qed.

Lemma hsym_map_head : forall f a, hsym (map_head f a) = option_map f (hsym a).
Proof. intros f. induction a as [c|g IHg x _|k|i]; cbn [map_head hsym option_map]; auto. Qed.

(** ** 4. Soundness of the (strict) well-formedness checks *)

Definition isWFa (a : ty) : bool :=
  match hsym a with Some s => (3000 <=? s)%N && (s <? 4000)%N | None => false end.
Definition unwf (a : ty) : ty := map_head (fun s => s - 2000)%N a.
Definition same_key (a b : ty) : bool :=
  match hkey a, hkey b with Some (x, x'), Some (y, y') => (x =? y)%N && (x' =? y')%N | _, _ => false end.

(** Link between an implied-bound rule [hd :- b] and the WellFormed rule for [b]: the core
    has exactly one clause for the head symbol of [toWF b]; its head is [toWF b], it is
    range-restricted and [toWF hd] is one of its premises. *)
Definition ib_wf_link (R : list clause) (c : clause) : bool :=
  match cbody c with
  | [b] =>
      headed c && match hsym b with Some _ => true | None => false end &&
      existsb (fun k => ty_eqb (chead k) (toWF b) && memT (toWF (chead c)) (cbody k) && rrb k &&
                        forallb (fun k' => negb (same_key (chead k') (chead k)) || clause_eqb k' k) R) R
  | _ => false
  end.

(** A WellFormed(trait-ref) rule has [Implemented(trait-ref)] among its premises. *)
Definition wf_rule_ok (c : clause) : bool :=
  negb (isWFa (chead c)) || memT (unwf (chead c)) (cbody c).

(** The impl clauses of the core. *)
Definition is_impl (c : clause) : bool := isI (chead c) && negb (existsb isFa (cbody c)).
Definition impl_ok (c : clause) : bool := forallb isI (cbody c) && rrb c && fo_fun (chead c).

Definition wf_sys_ok (s : rsys) : bool :=
  rsys_ok s && forallb core_clause_ok (rs_R s) && forallb (ib_wf_link (rs_R s)) (rs_IB s) &&
  forallb wf_rule_ok (rs_R s) &&
  forallb (fun c => negb (is_impl c) || impl_ok c) (rs_R s) &&
  forallb (fun x => negb ((1000 <=? x)%N && (x <? 2000)%N)) (rs_co s).

Definition impl_hyps (c : clause) : list ty := map fe (cbody c) ++ map fety (insp (chead c)).
Definition strict_hyps (c : clause) : list ty := map fety (insp (chead c)).

Section Sound.
  Variable s : rsys.
  Hypothesis sys_ok : wf_sys_ok s = true.

  Let R := rs_R s.
  Let IB := rs_IB s.
  Let co := rs_co s.
  Let hRs := hR R co.

  (** wf.rs's impl goal, second conjunct, for one ground instantiation of the parameters. *)
  Definition impl_wf_inst (c : clause) : Prop :=
    forall th, (forall i, ground (th i)) ->
      holds (stepC (clo IB (map (subst th) (impl_hyps c))) R) (isco co) (subst th (wf (chead c))).
  (** first conjunct, STRICT: only the input types of the header are assumed. *)
  Definition impl_wf_strict_inst (c : clause) : Prop :=
    forall th, (forall i, ground (th i)) -> forall u, In u (flat_map insp (cbody c)) ->
      holds (stepC (clo IB (map (subst th) (strict_hyps c))) R) (isco co) (subst th (wfty u)).

  Lemma sys_parts :
    (forall c, In c R -> core_clause_ok c = true) /\ (forall x, In x co -> isF x = false) /\
    (forall c, In c IB -> ib_wf_link R c = true) /\ (forall c, In c R -> wf_rule_ok c = true) /\
    (forall c, In c R -> is_impl c = true -> impl_ok c = true) /\
    (forall x, In x co -> ((1000 <=? x)%N && (x <? 2000)%N) = false) /\
    (forall c, In c IB -> ib_fe c = true).
  Proof.
    pose proof sys_ok as K. unfold wf_sys_ok, rsys_ok in K.
    repeat (apply andb_true_iff in K; destruct K as [K ?]).
    clear H4. rewrite forallb_forall in *. repeat split.
    - intros c Hc. now apply H3.
    - intros x Hx. specialize (H5 x Hx). now apply negb_true_iff in H5.
    - intros c Hc. now apply H2.
    - intros c Hc. now apply H1.
    - intros c Hc Hi. specialize (H0 c Hc). rewrite Hi in H0. exact H0.
    - intros x Hx. specialize (H x Hx). now apply negb_true_iff in H.
    - intros c Hc. now apply H7.
  Qed.

  Lemma isI_not_co : forall a, isI a = true -> isco co a = false.
  Proof.
    intros a H. destruct sys_parts as [_ [_ [_ [_ [_ [K _]]]]]]. unfold isI in H. unfold isco.
    destruct (hsym a) as [x|]; [|reflexivity]. destruct (memN x co) eqn:E; [|reflexivity].
    apply memN_In in E. rewrite (K x E) in H. discriminate.
  Qed.

  Lemma wf_subst : forall h th, hsym h <> None -> subst th (wf h) = wf (subst th h).
  Proof. intros. unfold wf. now apply map_head_subst. Qed.

  Lemma toWF_fe_I : forall a, isI a = true -> toWF (fe a) = wf a.
  Proof.
    unfold toWF, fe, wf, isI. induction a as [c|g IHg x _|k|i]; intro H; cbn [map_head hsym] in *; try discriminate.
    - apply andb_true_iff in H. destruct H as [H1 H2]. apply N.leb_le in H1. apply N.ltb_lt in H2.
      replace ((c + 1000 =? FETY)%N) with false by (symmetry; apply N.eqb_neq; unfold FETY; lia). f_equal. lia.
    - now rewrite IHg.
  Qed.

  Lemma unwf_wf_I : forall a, isI a = true -> unwf (wf a) = a.
  Proof.
    unfold unwf, wf, isI. induction a as [c|g IHg x _|k|i]; intro H; cbn [map_head hsym] in *; try discriminate.
    - f_equal. lia.
    - now rewrite IHg.
  Qed.

  Lemma isWFa_wf_I : forall a, isI a = true -> isWFa (wf a) = true.
  Proof.
    intros a H. unfold isWFa, wf, isI in *. rewrite hsym_map_head. destruct (hsym a) as [x|]; [|discriminate]. cbn [option_map].
    apply andb_true_iff in H. destruct H as [H1 H2]. apply N.leb_le in H1. apply N.ltb_lt in H2.
    apply andb_true_iff. split; [apply N.leb_le|apply N.ltb_lt]; lia.
  Qed.

  Let Rok := proj1 sys_parts.
  Let coF := proj1 (proj2 sys_parts).

  (** One implied-bound step preserves WellFormed-ness. *)
  Lemma ib_step_wf : forall c b th, In c IB -> cbody c = [b] ->
    hRs (toWF (subst th b)) -> hRs (toWF (subst th (chead c))).
  Proof.
    intros c b th Hc Eb H. pose proof sys_parts as SP; destruct SP as [_ [_ [K _]]]. pose proof (K c Hc) as L.
    unfold ib_wf_link in L. rewrite Eb in L. apply andb_true_iff in L. destruct L as [L L3].
    apply andb_true_iff in L. destruct L as [L1 L2].
    assert (Hb : hsym b <> None) by (destruct (hsym b); [discriminate|discriminate L2]).
    apply existsb_exists in L3. destruct L3 as [k [Hk L3]].
    repeat (apply andb_true_iff in L3; destruct L3 as [L3 ?]).
    apply ty_eqb_eq in L3. apply memT_In in H2. rewrite forallb_forall in H0.
    rewrite <- toWF_subst in H by exact Hb. rewrite <- L3 in H.
    rewrite <- toWF_subst by (now apply headed_hsym).
    apply (unfold_unique R co Rok k th Hk H1); [|exact H|exact H2].
    intros c0 Hc0 Es. specialize (H0 c0 Hc0). apply orb_true_iff in H0. destruct H0 as [H0|H0].
    - apply negb_true_iff in H0. unfold same_key in H0. rewrite Es in H0.
      pose proof (core_ok_key R Rok k Hk) as Kk. destruct (hkey (chead k)) as [[x x']|]; [|congruence].
      rewrite !N.eqb_refl in H0. discriminate.
    - now apply clause_eqb_eq.
  Qed.

  (** If the hypotheses are well-formed (as WellFormed atoms), so is their whole closure. *)
  Lemma clo_wf : forall Hf, (forall h, In h Hf -> hRs (toWF h)) -> forall y, clo IB Hf y -> hRs (toWF y).
  Proof.
    intros Hf HH y Hc. induction Hc as [a Ha|c b th Hc Eb Gt _ IH]; [now apply HH|].
    now apply (ib_step_wf c b th).
  Qed.

  (** WellFormed(T: Tr) entails Implemented(T: Tr). *)
  Lemma wf_impl : forall a, isI a = true -> hRs (wf a) -> hRs a.
  Proof.
    intros a Ia H. apply holds_unfold in H. destruct H as [bs [[c [th [Hc [_ [Eh Eb]]]]] Hall]].
    pose proof sys_parts as SP; destruct SP as [_ [_ [_ [K _]]]]. pose proof (K c Hc) as L. unfold wf_rule_ok in L.
    destruct (core_ok_parts R Rok c Hc) as [_ [Hh _]].
    assert (W : isWFa (chead c) = true).
    { pose proof (isWFa_wf_I a Ia) as X. rewrite <- Eh in X. unfold isWFa in *.
      destruct (hsym (chead c)) as [x|] eqn:E; [|congruence]. now rewrite (hsym_subst _ th _ E) in X. }
    rewrite W in L. cbn [negb orb] in L. apply memT_In in L.
    assert (E : subst th (unwf (chead c)) = a).
    { unfold unwf. rewrite map_head_subst by exact Hh. rewrite Eh. now apply unwf_wf_I. }
    rewrite <- E. apply Hall. subst bs. now apply in_map.
  Qed.

  (** The closure of well-formed hypotheses consists of true facts. *)
  Lemma clo_true : forall Hf, (forall h, In h Hf -> hRs (toWF h)) ->
    forall a, isI a = true -> clo IB Hf (fe a) -> hRs a.
  Proof.
    intros Hf HH a Ia Hc. apply wf_impl; [exact Ia|]. rewrite <- (toWF_fe_I a Ia). now apply (clo_wf Hf).
  Qed.

  Lemma cut_hyps : forall Hf x,
    (forall h, In h Hf -> isFa h = true) -> (forall h, In h Hf -> hRs (toWF h)) ->
    isFa x = false -> holds (stepC (clo IB Hf) R) (isco co) x -> hRs x.
  Proof.
    intros Hf x HF HW Fx H. apply (cut R co Rok coF (clo IB Hf)); auto.
    - intros a Ha. apply (clo_isFa IB Hf); auto. apply sys_parts.
    - intros a Ia Ha. now apply (clo_true Hf).
  Qed.

  Lemma isFa_fety : forall t, isFa (fety t) = true.
  Proof. reflexivity. Qed.

  Lemma isFa_fe_I : forall a, isI a = true -> isFa (fe a) = true.
  Proof.
    intros a H. unfold isFa, fe, isI in *. rewrite hsym_map_head. destruct (hsym a) as [x|]; [|discriminate]. cbn [option_map].
    apply andb_true_iff in H. destruct H as [H1 H2]. apply N.leb_le in H1. apply N.ltb_lt in H2.
    unfold isF, isFE. apply orb_true_iff. left. apply andb_true_iff. split; [apply N.leb_le|apply N.ltb_lt]; lia.
  Qed.

  Lemma isI_hsym : forall a, isI a = true -> hsym a <> None.
  Proof. intros a H. unfold isI in H. destruct (hsym a); [discriminate|discriminate H]. Qed.

  Lemma isI_subst : forall a th, isI a = true -> isI (subst th a) = true.
  Proof.
    intros a th H. unfold isI in *. destruct (hsym a) as [x|] eqn:E; [|discriminate]. now rewrite (hsym_subst _ th _ E).
  Qed.

  Lemma isFa_wf_I : forall a, isI a = true -> isFa (wf a) = false.
  Proof.
    intros a H. unfold isFa, wf, isI in *. rewrite hsym_map_head. destruct (hsym a) as [x|]; [|discriminate]. cbn [option_map].
    apply andb_true_iff in H. destruct H as [H1 H2]. apply N.leb_le in H1. apply N.ltb_lt in H2.
    unfold isF, isFE, FETY. apply orb_false_iff. split.
    - apply andb_false_iff. right. apply N.ltb_ge. lia.
    - apply N.eqb_neq. lia.
  Qed.

  (** *** The main theorem: an implemented trait reference with well-formed input types is
      WellFormed — i.e. all bounds of the trait hold, transitively. *)
  Theorem wf_sound_traits :
    (forall c, In c R -> is_impl c = true -> impl_wf_inst c /\ impl_wf_strict_inst c) ->
    forall a, isI a = true -> (forall u, In u (insp a) -> hRs (wfty u)) -> hRs a -> hRs (wf a).
  Proof.
    intros HW a Ia Hin Ha. apply holds_derives in Ha. revert Ia Hin.
    induction Ha as [a bs Hs Hc Hd IH]. intros Ia Hin.
    destruct Hs as [c [th [HcR [Gt [Eh Eb]]]]].
    destruct (core_ok_parts R Rok c HcR) as [Fn [Hh [Hb Hbr]]].
    destruct (existsb isFa (cbody c)) eqn:EF.
    - (* Implemented-From-Env: impossible without hypotheses *)
      exfalso. destruct (Hbr eq_refl) as [Eq _].
      assert (Ffe : isFa (fe a) = true) by (now apply isFa_fe_I).
      apply (no_fromenv R co Rok (fe a) Ffe).
      apply (derives_holds _ _ (gfpX (inst R) (isco co))); [apply gfpX_cosound|].
      apply Hd.
      + rewrite Eb, Eq. cbn [map]. rewrite fe_subst by exact Hh. rewrite Eh. now left.
      + now apply (F_not_co' co coF).
    - assert (Im : is_impl c = true).
      { unfold is_impl. rewrite EF. cbn [negb]. rewrite andb_true_r. unfold isI in *. rewrite <- Eh in Ia.
        destruct (hsym (chead c)) as [x|] eqn:E; [|congruence]. now rewrite (hsym_subst _ th _ E) in Ia. }
      destruct (HW c HcR Im) as [W1 W2].
      pose proof sys_parts as SP; destruct SP as [_ [_ [_ [_ [K _]]]]]. pose proof (K c HcR Im) as Ok. unfold impl_ok in Ok.
      apply andb_true_iff in Ok. destruct Ok as [Ok Ofo]. apply andb_true_iff in Ok. destruct Ok as [OI Orr].
      rewrite forallb_forall in OI. apply rrb_spec in Orr.
      (* the input types of the header instance are well-formed *)
      assert (HdrWF : forall u0, In u0 (insp (chead c)) -> hRs (wfty (subst th u0))).
      { intros u0 Hu0. apply Hin. rewrite <- Eh. now apply (proj2 (inputs_subst_in th (chead c))). }
      (* A: the input types of the where-clauses are well-formed (strict check + cut) *)
      assert (A : forall u, In u (flat_map insp (cbody c)) -> hRs (wfty (subst th u))).
      { intros u Hu. apply (cut_hyps (map (subst th) (strict_hyps c))).
        - intros h Hh0. apply in_map_iff in Hh0. destruct Hh0 as [h0 [<- Hh0]]. unfold strict_hyps in Hh0.
          apply in_map_iff in Hh0. destruct Hh0 as [u0 [<- _]]. reflexivity.
        - intros h Hh0. apply in_map_iff in Hh0. destruct Hh0 as [h0 [<- Hh0]]. unfold strict_hyps in Hh0.
          apply in_map_iff in Hh0. destruct Hh0 as [u0 [<- Hu0]]. cbn [fety subst]. now apply HdrWF.
        - reflexivity.
        - now apply W2. }
      (* B: every where-clause instance has well-formed input types, hence (IH) is WellFormed *)
      assert (B : forall b, In b (cbody c) -> hRs (wf (subst th b))).
      { intros b Hbin. assert (Ib : isI b = true) by now apply OI.
        apply IH.
        - rewrite Eb. now apply in_map.
        - apply isI_not_co. now apply isI_subst.
        - now apply isI_subst.
        - intros u' Hu'. destruct (proj2 (inputs_subst_cases th b) u' Hu') as [[u [Hu ->]]|[i [Hi Hv]]].
          + apply A. apply in_flat_map. exists b. auto.
          + apply Hin. rewrite <- Eh. apply (proj2 (inputs_of_value th (chead c)) Ofo i); [|exact Hv].
            now apply (Orr b i Hbin). }
      (* the standard check + cut *)
      rewrite <- Eh. rewrite <- wf_subst by exact Hh.
      apply (cut_hyps (map (subst th) (impl_hyps c))).
      + intros h Hh0. apply in_map_iff in Hh0. destruct Hh0 as [h0 [<- Hh0]]. unfold impl_hyps in Hh0.
        apply in_app_iff in Hh0. destruct Hh0 as [Hh0|Hh0]; apply in_map_iff in Hh0; destruct Hh0 as [x [<- Hx]].
        * rewrite fe_subst by (apply isI_hsym; now apply OI). apply isFa_fe_I. apply isI_subst. now apply OI.
        * reflexivity.
      + intros h Hh0. apply in_map_iff in Hh0. destruct Hh0 as [h0 [<- Hh0]]. unfold impl_hyps in Hh0.
        apply in_app_iff in Hh0. destruct Hh0 as [Hh0|Hh0]; apply in_map_iff in Hh0; destruct Hh0 as [x [<- Hx]].
        * rewrite fe_subst by (apply isI_hsym; now apply OI). rewrite toWF_fe_I by (apply isI_subst; now apply OI).
          now apply B.
        * cbn [fety subst]. now apply HdrWF.
      + rewrite wf_subst by exact Hh. apply isFa_wf_I. rewrite Eh. exact Ia.
      + now apply W1.
  Qed.

  (** *** Struct fields: wf.rs's struct goal for one ground instantiation. *)
  Definition adt_wf_inst (wcs fields : list ty) : Prop :=
    forall th, (forall i, ground (th i)) -> forall u, In u (flat_map inputs fields) ->
      holds (stepC (clo IB (map (subst th) (map fe wcs))) R) (isco co) (subst th (wfty u)).

  Theorem wf_sound_fields : forall aty wcs fields k,
    k = mkClause (wfty aty) (map wf wcs) -> In k R -> rrb k = true ->
    (forall c, In c R -> hkey (chead c) = hkey (chead k) -> c = k) ->
    forallb isI wcs = true -> hsym aty <> None -> fo aty = true ->
    (forall f i, In f fields -> occurs i f = true -> occurs i aty = true) ->
    adt_wf_inst wcs fields ->
    forall th, (forall i, ground (th i)) ->
      (forall u, In u (inputs (subst th aty)) -> hRs (wfty u)) ->
      forall f u', In f fields -> In u' (inputs (subst th f)) -> hRs (wfty u').
  Proof.
    intros aty wcs fields k Ek Hk Hrr Hu HI Hs Hfo Hv HW th Gt Hdeep f u' Hf Hu'.
    rewrite forallb_forall in HI.
    assert (Self : hRs (wfty (subst th aty))).
    { apply Hdeep. destruct aty as [c|g x|p|i]; cbn [hsym] in Hs; try congruence; cbn [subst inputs]; now left. }
    assert (WC : forall w, In w wcs -> hRs (wf (subst th w))).
    { intros w Hw. rewrite <- wf_subst by (apply isI_hsym; now apply HI).
      apply (unfold_unique R co Rok k th Hk Hrr Hu).
      - subst k. cbn [chead wfty subst]. exact Self.
      - subst k. cbn [cbody]. now apply in_map. }
    assert (A : forall u, In u (flat_map inputs fields) -> hRs (wfty (subst th u))).
    { intros u Hu0. apply (cut_hyps (map (subst th) (map fe wcs))).
      - intros h Hh. apply in_map_iff in Hh. destruct Hh as [h0 [<- Hh]]. apply in_map_iff in Hh. destruct Hh as [w [<- Hw]].
        rewrite fe_subst by (apply isI_hsym; now apply HI). apply isFa_fe_I. apply isI_subst. now apply HI.
      - intros h Hh. apply in_map_iff in Hh. destruct Hh as [h0 [<- Hh]]. apply in_map_iff in Hh. destruct Hh as [w [<- Hw]].
        rewrite fe_subst by (apply isI_hsym; now apply HI). rewrite toWF_fe_I by (apply isI_subst; now apply HI). now apply WC.
      - reflexivity.
      - now apply HW. }
    destruct (proj1 (inputs_subst_cases th f) u' Hu') as [[u [Hu0 ->]]|[i [Hi Hvv]]].
    - apply A. apply in_flat_map. exists f. auto.
    - apply Hdeep. apply (proj1 (inputs_of_value th aty) Hfo i); [|exact Hvv]. now apply (Hv f i).
  Qed.
End Sound.

(** ** 5. The goals wf.rs builds, as goals of the model; the model of the check *)

Fixpoint max_var (t : ty) : nat :=
  match t with
  | TVar i => S i
  | TAp f x => Nat.max (max_var f) (max_var x)
  | _ => O
  end.

Definition nvars_clause (c : clause) : nat :=
  fold_right (fun t m => Nat.max (max_var t) m) (max_var (chead c)) (cbody c).

Fixpoint foralls (n : nat) (g : goal) : goal :=
  match n with O => g | S k => GForall (foralls k g) end.

Fixpoint conj (gs : list goal) : goal :=
  match gs with
  | [] => GTrue
  | [g] => g
  | g :: r => GAnd g (conj r)
  end.

Definition hyps_of (l : list ty) : list hyp := map (fun a => mkHyp 0 (mkClause a [])) l.

(** (number of parameters, hypotheses, conclusion) of [forall<..> { if (hyps) { concl } }] *)
Definition wfgoal : Type := (nat * list hyp * goal)%type.

Definition impl_wf_goal (c : clause) : wfgoal :=
  (nvars_clause c, hyps_of (impl_hyps c),
   conj (map GAtom (map wfty (flat_map insp (cbody c)) ++ [wf (chead c)]))).
(** the strict variant of the first conjunct: only the header's input types are assumed *)
Definition impl_strict_goal (c : clause) : wfgoal :=
  (nvars_clause c, hyps_of (strict_hyps c), conj (map GAtom (map wfty (flat_map insp (cbody c))))).
Definition adt_wf_goal (a : adt_decl) : wfgoal :=
  (max_var (a_ty a), hyps_of (map fe (a_wcs a)),
   conj (map GAtom (map wfty (flat_map inputs (a_fields a) ++ flat_map insp (a_wcs a))))).

Definition goal_of (w : wfgoal) : goal := let '(n, hs, g) := w in foralls n (GIf hs g).

(** The placeholders [sat] picks for [n] nested [forall]s over a placeholder-free program
    and goal: innermost variable first. *)
Fixpoint ph_list (n : nat) : list ty :=
  match n with O => [] | S k => TPh (N.of_nat k) :: ph_list k end.

Lemma phb_list_ph_list : forall n, phb_list (ph_list n) = N.of_nat n.
Proof.
  induction n as [|k IH]; [reflexivity|]. cbn [ph_list phb_list fold_right]. fold (phb_list (ph_list k)).
  rewrite IH. cbn [phb]. lia.
Qed.

Lemma phb_goal_foralls : forall n g, phb_goal (foralls n g) = phb_goal g.
Proof. induction n as [|k IH]; intro g; [reflexivity|]. cbn [foralls phb_goal]. apply IH. Qed.

Lemma sat_foralls : forall P n k g,
  phb_clauses (pclauses P) = 0%N -> phb_goal g = 0%N ->
  (sat P [] (ph_list k) (foralls n g) <-> sat P [] (ph_list (n + k)) g).
Proof.
  intros P n. induction n as [|m IH]; intros k g HP Hg; [reflexivity|].
  cbn [foralls sat]. unfold fresh. rewrite HP, phb_list_ph_list, phb_goal_foralls, Hg. cbn [phb_clauses fold_right].
  replace (N.max 0 (N.max 0 (N.max (N.of_nat k) 0))) with (N.of_nat k) by lia.
  change (TPh (N.of_nat k) :: ph_list k) with (ph_list (S k)). rewrite (IH (S k) g HP Hg).
  replace (m + S k)%nat with (S m + k)%nat by lia. reflexivity.
Qed.

(** The oracle's verdict on one goal of the check. *)
Definition wfgoal_verdict (fuel : nat) (s : rsys) (w : wfgoal) : option bool :=
  let '(n, hs, g) := w in
  if N.eqb (phb_clauses (pclauses (full_program s))) 0 && N.eqb (phb_goal (GIf hs g)) 0
  then eval_if fuel s (ph_list n) hs g else None.

Theorem wfgoal_verdict_correct : forall fuel s w b,
  wfgoal_verdict fuel s w = Some b -> (b = true <-> sat (full_program s) [] [] (goal_of w)).
Proof.
  intros fuel s [[n hs] g] b H. unfold wfgoal_verdict in H.
  destruct (N.eqb (phb_clauses (pclauses (full_program s))) 0 && N.eqb (phb_goal (GIf hs g)) 0) eqn:V; [|discriminate].
  apply andb_true_iff in V. destruct V as [V1 V2]. apply N.eqb_eq in V1. apply N.eqb_eq in V2.
  unfold goal_of. change (@nil ty) with (ph_list 0). rewrite (sat_foralls _ n 0 _ V1 V2).
  rewrite Nat.add_0_r. now apply (sat_if_exact fuel).
Qed.

Definition all3 (l : list (option bool)) : option bool := fold_right and3 (Some true) l.

Definition impl_goals (d : decls) : list wfgoal := map impl_wf_goal (d_impls d).
Definition adt_goals (d : decls) : list wfgoal := map adt_wf_goal (d_adts d).

(** Model of [checked_program]'s WF pass (fragment): every struct and impl goal is proved. *)
Definition wf_check_model (fuel : nat) (d : decls) : option bool :=
  all3 (map (wfgoal_verdict fuel (lower d)) (adt_goals d ++ impl_goals d)).
(** The strict premise of the soundness theorem. *)
Definition strict_ok (fuel : nat) (d : decls) : option bool :=
  all3 (map (fun c => wfgoal_verdict fuel (lower d) (impl_strict_goal c)) (d_impls d)).

(** ** 6. The conclusion, evaluated on concrete types (for the check) *)

Definition evA (fuel : nat) (s : rsys) (a : ty) : option bool :=
  if rr_allb (rs_R s) && groundb a then eval_atom fuel (rs_R s) (rs_co s) a else None.

Theorem evA_correct : forall fuel s a b,
  evA fuel s a = Some b -> (b = true <-> hR (rs_R s) (rs_co s) a).
Proof.
  intros fuel s a b H. unfold evA in H. destruct (rr_allb (rs_R s) && groundb a) eqn:V; [|discriminate].
  apply andb_true_iff in V. destruct V as [V _]. apply rr_allb_spec in V. unfold hR.
  now apply (eval_atom_correct fuel).
Qed.

Definition deep_wfb (fuel : nat) (s : rsys) (ts : list ty) : option bool :=
  all3 (map (fun u => evA fuel s (wfty u)) ts).

(** 0 = premise false (not implemented / not well-formed), 1 = conclusion holds,
    2 = conclusion FAILS, 3 = inconclusive (fuel) *)
Definition concl_trait (fuel : nat) (d : decls) (t : trait_decl) (args : list ty) : N :=
  let s := lower d in
  let a := subst (listth args) (t_ref t) in
  match and3 (evA fuel s a) (deep_wfb fuel s (insp a)) with
  | Some true =>
      match and3 (evA fuel s (wf a)) (all3 (map (fun w => evA fuel s (subst (listth args) w)) (t_wcs t))) with
      | Some true => 1 | Some false => 2 | None => 3
      end
  | Some false => 0
  | None => 3
  end%N.

Definition concl_adt (fuel : nat) (d : decls) (ad : adt_decl) (args : list ty) : N :=
  let s := lower d in
  let t := subst (listth args) (a_ty ad) in
  match deep_wfb fuel s (inputs t) with
  | Some true =>
      match deep_wfb fuel s (flat_map (fun f => inputs (subst (listth args) f)) (a_fields ad)) with
      | Some true => 1 | Some false => 2 | None => 3
      end
  | Some false => 0
  | None => 3
  end%N.

(** ** 7. Statements about the full program; the witness of the hole *)

Lemma all3_true : forall l, all3 l = Some true -> forall x, In x l -> x = Some true.
Proof.
  induction l as [|a r IH]; intros H x Hx; [destruct Hx|]. cbn [all3 fold_right] in H. fold (all3 r) in H.
  destruct a as [[|]|]; destruct (all3 r) as [[|]|]; cbn [and3] in H; try discriminate.
  destruct Hx as [<-|Hx]; [reflexivity|]. now apply IH.
Qed.

Lemma subst_listth_nil : forall t, subst (listth []) t = t.
Proof.
  intro t. rewrite <- (subst_id t) at 2. apply subst_ext. intros i _. unfold listth. destruct i; reflexivity.
Qed.

(** Without hypotheses the full program (with the implied-bound rules) and the core mean the
    same: implied-bound rules need a FromEnv fact to fire. *)
Lemma elab_hyps_nil : forall fuel s, elab_hyps (S fuel) s [] = Some ([], []).
Proof.
  intros fuel s. unfold elab_hyps. cbn [filter forallb andb map]. unfold elab_env, elab.
  rewrite Nat.add_comm. cbn [Nat.add elab_loop]. unfold fclose. cbn [fc]. cbn [map app phb_clauses fold_right].
  reflexivity.
Qed.

Theorem holds_full_core : forall s a, rsys_ok s = true ->
  (holdsP (full_program s) [] a <-> hR (rs_R s) (rs_co s) a).
Proof.
  intros s a Hok.
  pose proof (sat_if_elab 1 s [] [] (GAtom a) [] [] Hok eq_refl (elab_hyps_nil 0 s)) as E.
  cbn [sat map app] in E. rewrite subst_listth_nil in E. unfold holdsP, allc in E. cbn [app core_program pclauses pcoind] in E.
  exact E.
Qed.

Definition holdsD (d : decls) (a : ty) : Prop := holdsP (full_program (lower d)) [] a.

(** "the program passes well-formedness checking": the goals wf.rs builds are true. *)
Definition wf_accepts (d : decls) : Prop :=
  forall w, In w (adt_goals d ++ impl_goals d) -> sat (full_program (lower d)) [] [] (goal_of w).

(** "every well-formed concrete type that implements a trait satisfies the trait's bounds
    (transitively), and field types of well-formed struct instances are well-formed". *)
Definition wf_conclusion (d : decls) : Prop :=
  (forall a, isI a = true -> ground a -> (forall u, In u (insp a) -> holdsD d (wfty u)) ->
     holdsD d a -> holdsD d (wf a)) /\
  (forall ad th, In ad (d_adts d) -> (forall i, ground (th i)) ->
     (forall u, In u (inputs (subst th (a_ty ad))) -> holdsD d (wfty u)) ->
     forall f u', In f (a_fields ad) -> In u' (inputs (subst th f)) -> holdsD d (wfty u')).

(** The property as stated (kept in full).  It is FALSE for the goals wf.rs builds:
    [wf_implied_bounds_sound_refuted]. *)
Definition wf_implied_bounds_sound : Prop :=
  forall d, wf_sys_ok (lower d) = true -> wf_accepts d -> wf_conclusion d.

Module WfExamples.
  (* trait Hash {} struct NotHash {} struct Set<K> where K: Hash {} struct Vec<T> {}
     trait Bar<K> where K: Hash {} impl<T> Bar<T> for Set<T> {}
     trait Goo {} trait Foo where Self: Goo {}
     impl<T> Goo for Vec<T> where T: Hash {}
     impl<T> Foo for Vec<T> where Set<T>: Bar<T> {}
     The last impl is accepted: WellFormed(Set<T>) is proved from FromEnv(Set<T>: Bar<T>), whose
     implied bound is T: Hash — but nothing makes that hypothesis's own types well-formed:
     Set<NotHash>: Bar<NotHash> holds, so Vec<NotHash>: Foo holds, Vec<NotHash> is well-formed,
     and Vec<NotHash>: Goo does not hold. *)
  Definition NotHash := tapp 0 []. Definition Set_ t := tapp 1 [t]. Definition Vec t := tapp 2 [t].
  Definition Hash t := tapp 1000 [t]. Definition Bar t k := tapp 1001 [t; k].
  Definition Goo t := tapp 1002 [t]. Definition Foo t := tapp 1003 [t].
  Definition tFoo := mkTrait (Foo (TVar 0)) [Goo (TVar 0)].
  Definition Dh := mkDecls
    [mkTrait (Hash (TVar 0)) []; mkTrait (Bar (TVar 0) (TVar 1)) [Hash (TVar 1)];
     mkTrait (Goo (TVar 0)) []; tFoo]
    [mkAdt NotHash [] []; mkAdt (Set_ (TVar 0)) [Hash (TVar 0)] []; mkAdt (Vec (TVar 0)) [] []]
    [mkClause (Bar (Set_ (TVar 0)) (TVar 0)) []; mkClause (Goo (Vec (TVar 0))) [Hash (TVar 0)];
     mkClause (Foo (Vec (TVar 0))) [Bar (Set_ (TVar 0)) (TVar 0)]] [].

  (** The model of the checker accepts, the strict premise fails, the conclusion fails. *)
  Theorem wf_hole_witness :
    wf_sys_ok (lower Dh) = true /\ wf_check_model 100 Dh = Some true /\ strict_ok 100 Dh = Some false /\
    concl_trait 100 Dh tFoo [Vec NotHash] = 2%N.
  Proof. repeat split; vm_compute; reflexivity. Qed.

  Lemma holdsD_eval : forall a b, ground a -> eval_if 100 (lower Dh) [] [] (GAtom a) = Some b ->
    (b = true <-> holdsD Dh a).
  Proof.
    intros a b G H. apply sat_if_exact in H. cbn [sat map app] in H. rewrite subst_listth_nil in H. exact H.
  Qed.

  Theorem wf_implied_bounds_sound_refuted : ~ wf_implied_bounds_sound.
  Proof.
    intro S. destruct (S Dh) as [C _].
    - vm_compute. reflexivity.
    - intros w Hw. apply (wfgoal_verdict_correct 100 (lower Dh) w true); [|reflexivity].
      assert (A : wf_check_model 100 Dh = Some true) by (vm_compute; reflexivity).
      apply (all3_true _ A). now apply in_map.
    - assert (F : holdsD Dh (wf (Foo (Vec NotHash)))).
      { apply C.
        + reflexivity.
        + reflexivity.
        + intros u Hu. cbn in Hu. destruct Hu as [<-|[<-|[]]].
          * apply (holdsD_eval _ true); [reflexivity|vm_compute; reflexivity|reflexivity].
          * apply (holdsD_eval _ true); [reflexivity|vm_compute; reflexivity|reflexivity].
        + apply (holdsD_eval _ true); [reflexivity|vm_compute; reflexivity|reflexivity]. }
      apply (holdsD_eval _ false) in F; [discriminate|reflexivity|vm_compute; reflexivity].
  Qed.

  (** Non-vacuity of the partial theorem: a sound program where every premise is met.
      trait Clone {} trait Ord where Self: Clone {} struct A {} impl Clone for A {} impl Ord for A {} *)
  Definition A := tapp 0 [].
  Definition Clone t := tapp 1000 [t]. Definition Ord t := tapp 1001 [t].
  Definition Ds := mkDecls [mkTrait (Clone (TVar 0)) []; mkTrait (Ord (TVar 0)) [Clone (TVar 0)]]
                           [mkAdt A [] []] [mkClause (Clone A) []; mkClause (Ord A) []] [].

  Lemma Ds_ok : wf_sys_ok (lower Ds) = true.
  Proof. vm_compute. reflexivity. Qed.

  Lemma hR_step : forall C a, hR (rs_R (lower Ds)) (rs_co (lower Ds)) a ->
    holds (stepC C (rs_R (lower Ds))) (isco (rs_co (lower Ds))) a.
  Proof.
    intros C a H. apply (holds_step_incl (inst (rs_R (lower Ds)))); [|exact H].
    intros x bs Hi. exists bs. split; [now right|apply incl_refl].
  Qed.

  Example wf_sound_nonvacuous : hR (rs_R (lower Ds)) (rs_co (lower Ds)) (wf (Ord A)).
  Proof.
    apply (wf_sound_traits (lower Ds) Ds_ok).
    - intros c Hc Hi.
      assert (c = mkClause (Clone A) [] \/ c = mkClause (Ord A) []) as [->| ->].
      { cbn in Hc. repeat (destruct Hc as [<-|Hc]; [try (now left); try (now right); discriminate Hi|]). destruct Hc. }
      + split.
        * intros th Gt. apply hR_step. apply (evA_correct 50 (lower Ds) _ true); [vm_compute; reflexivity|reflexivity].
        * intros th Gt u [].
      + split.
        * intros th Gt. apply hR_step. apply (evA_correct 50 (lower Ds) _ true); [vm_compute; reflexivity|reflexivity].
        * intros th Gt u [].
    - reflexivity.
    - intros u Hu. cbn in Hu. destruct Hu as [<-|[]].
      apply (evA_correct 50 (lower Ds) _ true); [vm_compute; reflexivity|reflexivity].
    - apply (evA_correct 50 (lower Ds) _ true); [vm_compute; reflexivity|reflexivity].
  Qed.
End WfExamples.
