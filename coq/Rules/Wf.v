(** * Rules.Wf — well-formedness checking and the bounds it lets code assume (property C21).

    wf.rs proves, for every impl [impl<P..> Tr<A..> for T where WC]:

      forall<P..> { if (FromEnv(WC), FromEnv(InputTypes(T: Tr<A..>))) {
                       WellFormed(InputTypes(WC)), WellFormed(T: Tr<A..>) } }

    and for every struct [struct S<P..> where WC { fields }]:

      forall<P..> { if (FromEnv(WC)) { WellFormed(InputTypes(fields)), WellFormed(InputTypes(WC)) } }

    ([impl_header_wf_goal], [impl_wf_environment], [verify_adt_decl]; [InputTypes] = every
    non-parameter type that occurs).  [WellFormed(T: Tr) :- Implemented(T: Tr), WellFormed(WC)]
    is coinductive, so it enumerates the bounds transitively.  Traits are not checked.

    The property: in a program that passes, every (deeply) well-formed concrete type that
    implements a trait satisfies the trait's where-clauses — transitively: [WellFormed(T: Tr)]
    holds — and the input types of the fields of a well-formed struct instance are well-formed.

    What is proved here ([wf_implied_bounds_sound_partial], [wf_fields_sound]) is that
    statement for the fragment without associated types and lifetimes and with inductive
    traits, under the checks in *instance form* (each goal holds for every ground
    instantiation of the impl parameters — implied by the generic goal the checker proves)
    and with the *strict* variant of the first conjunct: [WellFormed(InputTypes(WC))] must
    follow from [FromEnv(InputTypes(header))] alone.  chalk proves it with [FromEnv(WC)] also
    assumed; that circularity is a genuine hole ([wf_hole_witness], finding C21-wf-circular):
    the statement is false without the strict premise. *)

From Chalk Require Export Rules.EnvElab.

(** ** 0. From FromEnv atoms to WellFormed atoms *)

Definition toWF (a : ty) : ty := map_head (fun s => if (s =? FETY)%N then WFTY else (s + 1000)%N) a.

Lemma map_head_subst : forall f a th, hsym a <> None -> subst th (map_head f a) = map_head f (subst th a).
Proof.
  intros f. induction a as [c|g IHg x _|k|i]; intros th H; cbn [map_head subst hsym] in *; try congruence.
  now rewrite IHg.
Qed.

Lemma toWF_subst : forall a th, hsym a <> None -> subst th (toWF a) = toWF (subst th a).
Proof. intros. unfold toWF. now apply map_head_subst. Qed.

Lemma fe_subst : forall h th, hsym h <> None -> subst th (fe h) = fe (subst th h).
Proof. intros. unfold fe. now apply map_head_subst. Qed.

(** ** 1. The cut lemma *)

(** Clause instances of [R] plus the facts [C]. *)
Definition stepC (C : ty -> Prop) (R : list clause) (a : ty) (bs : list ty) : Prop :=
  (C a /\ bs = []) \/ inst R a bs.

(** Shape of the core clauses: heads and body atoms are headed by a symbol, heads are not
    FromEnv atoms, and a FromEnv atom occurs in a body only as the single premise of an
    Implemented-From-Env clause [h :- FromEnv(h)]. *)
Definition core_clause_ok (c : clause) : bool :=
  negb (isFa (chead c)) && headed c &&
  forallb (fun b => match hsym b with Some _ => true | None => false end) (cbody c) &&
  (negb (existsb isFa (cbody c)) ||
   match cbody c with [b] => ty_eqb b (fe (chead c)) | _ => false end).

Section Cut.
  Variable R : list clause.
  Variable co : list N.
  Hypothesis R_ok : forall c, In c R -> core_clause_ok c = true.
  Hypothesis co_F : forall s, In s co -> isF s = false.

  Definition hR (a : ty) : Prop := holds (inst R) (isco co) a.

  Lemma core_ok_parts : forall c, In c R ->
    isFa (chead c) = false /\ hsym (chead c) <> None /\
    (forall b, In b (cbody c) -> hsym b <> None) /\
    (existsb isFa (cbody c) = true -> cbody c = [fe (chead c)]).
  Proof.
    intros c Hc. pose proof (R_ok c Hc) as K. unfold core_clause_ok in K.
    repeat (apply andb_true_iff in K; destruct K as [K ?]).
    apply negb_true_iff in K. split; [exact K|]. split; [now apply headed_hsym|]. split.
    - intros b Hb. rewrite forallb_forall in H0. specialize (H0 b Hb). destruct (hsym b); [discriminate|discriminate H0].
    - intro E. rewrite E in H. cbn [negb orb] in H. destruct (cbody c) as [|b [|]]; try discriminate.
      apply ty_eqb_eq in H. now subst.
  Qed.

  Lemma F_not_co' : forall a, isFa a = true -> isco co a = false.
  Proof.
    intros a H. unfold isFa in H. unfold isco. destruct (hsym a) as [s|]; [|reflexivity].
    destruct (memN s co) eqn:E; [|reflexivity]. apply memN_In in E. rewrite (co_F s E) in H. discriminate.
  Qed.

  (** No FromEnv atom holds in the program without hypotheses. *)
  Lemma no_fromenv : forall a, isFa a = true -> ~ hR a.
  Proof.
    intros a Fa H. apply holds_unfold in H. destruct H as [bs [[c [th [Hc [_ [Eh _]]]]] _]].
    destruct (core_ok_parts c Hc) as [Fn [Hh _]]. rewrite <- Eh in Fa. rewrite isFa_subst in Fa by assumption. congruence.
  Qed.

  Section WithC.
    Variable C : ty -> Prop.
    Hypothesis C_F : forall a, C a -> isFa a = true.
    (** every trait FromEnv fact of [C] is true in [R] *)
    Hypothesis C_true : forall a, C (fe a) -> hR a.

    Lemma cut_derives : forall X a,
      derives (stepC C R) (isco co) X a -> isFa a = false ->
      derives (inst R) (isco co) (fun y => X y \/ gfpX (inst R) (isco co) y) a.
    Proof.
      intros X a D. induction D as [a bs Hs Hc Hd IH]. intro Fa.
      destruct Hs as [[Ca _]|Hi]; [rewrite (C_F a Ca) in Fa; discriminate|].
      destruct Hi as [c [th [HcR [Gt [Eh Eb]]]]].
      destruct (core_ok_parts c HcR) as [Fn [Hh [Hb Hbr]]].
      destruct (existsb isFa (cbody c)) eqn:EF.
      - (* an Implemented-From-Env clause: its FromEnv premise is a fact of C, hence true *)
        pose proof (Hbr eq_refl) as Eq.
        assert (Eb' : bs = [fe a]).
        { rewrite Eb, Eq. cbn [map]. rewrite fe_subst by assumption. now rewrite Eh. }
        assert (Ffe : isFa (fe a) = true).
        { apply existsb_exists in EF. destruct EF as [b0 [Hb0 Fb0]]. rewrite Eq in Hb0. destruct Hb0 as [<-|[]].
          rewrite <- Eh. rewrite <- fe_subst by assumption. rewrite isFa_subst; [exact Fb0|now apply isFa_hsym]. }
        assert (Dfe : derives (stepC C R) (isco co) X (fe a)).
        { apply Hd; [rewrite Eb'; now left|now apply F_not_co']. }
        assert (Cfe : C (fe a)).
        { inversion Dfe as [a' bs' Hs' _ _]; subst. destruct Hs' as [[Cx _]|Hi']; [exact Cx|].
          destruct Hi' as [c' [th' [Hc' [_ [Eh' _]]]]]. destruct (core_ok_parts c' Hc') as [Fn' [Hh' _]].
          rewrite <- Eh' in Ffe. rewrite isFa_subst in Ffe by assumption. congruence. }
        apply (derives_mono _ _ (gfpX (inst R) (isco co))); [intros; now right|].
        apply holds_derives. now apply C_true.
      - apply (Der _ _ _ a bs).
        + exists c, th. auto.
        + intros b Hb0 Hcb. left. now apply Hc.
        + intros b Hb0 Hcb. apply IH; [exact Hb0|exact Hcb|].
          rewrite Eb in Hb0. apply in_map_iff in Hb0. destruct Hb0 as [b1 [<- Hb1]].
          rewrite isFa_subst by (now apply Hb).
          destruct (isFa b1) eqn:E; [|reflexivity].
          assert (existsb isFa (cbody c) = true) by (apply existsb_exists; eauto). congruence.
    Qed.

    (** The cut: what follows from the program plus TRUE FromEnv facts follows from the
        program alone. *)
    Theorem cut : forall a, isFa a = false -> holds (stepC C R) (isco co) a -> hR a.
    Proof.
      intros a Fa [X [HX Ha]].
      set (Y := fun y => X y \/ gfpX (inst R) (isco co) y).
      assert (CY : cosound (inst R) (isco co) Y).
      { intros y [Hy|Hy].
        - destruct (HX y Hy) as [H1 H2]. split; [exact H1|]. apply cut_derives; [exact H2|].
          destruct (isFa y) eqn:E; [|reflexivity]. rewrite (F_not_co' y E) in H1. discriminate.
        - destruct (gfpX_cosound (inst R) (isco co) y Hy) as [H1 H2]. split; [exact H1|].
          apply (derives_mono _ _ (gfpX (inst R) (isco co))); [intros; now right|exact H2]. }
      unfold hR. destruct (isco co a) eqn:E.
      - exists Y. split; [exact CY|]. rewrite E. now left.
      - apply (derives_holds _ _ Y a CY). now apply cut_derives.
    Qed.
  End WithC.

  (** ** 2. Unfolding a rule that is the only one for its head symbol *)

  Lemma subst_inj_vars : forall t th1 th2, subst th1 t = subst th2 t -> forall i, occurs i t = true -> th1 i = th2 i.
  Proof.
    induction t as [c|f IHf x IHx|k|j]; intros th1 th2 H i Hi; cbn [subst occurs] in *; try discriminate.
    - inversion H. apply orb_true_iff in Hi. destruct Hi; [eapply IHf|eapply IHx]; eauto.
    - apply Nat.eqb_eq in Hi. now subst.
  Qed.

  Lemma unfold_unique : forall k th,
    In k R -> rrb k = true ->
    (forall c, In c R -> hsym (chead c) = hsym (chead k) -> c = k) ->
    hR (subst th (chead k)) -> forall b, In b (cbody k) -> hR (subst th b).
  Proof.
    intros k th Hk Hrr Hu H b Hb. apply holds_unfold in H. destruct H as [bs [[c [th' [Hc [_ [Eh Eb]]]]] Hall]].
    destruct (core_ok_parts c Hc) as [_ [Hh _]]. destruct (core_ok_parts k Hk) as [_ [Hhk _]].
    assert (c = k).
    { apply Hu; [exact Hc|].
      destruct (hsym (chead c)) as [s|] eqn:E1; [|congruence]. destruct (hsym (chead k)) as [s2|] eqn:E2; [|congruence].
      pose proof (hsym_subst _ th' _ E1) as X1. pose proof (hsym_subst _ th _ E2) as X2. rewrite Eh in X1. congruence. }
    subst c. assert (E : subst th b = subst th' b).
    { apply subst_ext. intros i Hi. symmetry. apply (subst_inj_vars (chead k)); [exact Eh|].
      apply rrb_spec in Hrr. apply (Hrr b i Hb Hi). }
    rewrite E. apply Hall. subst bs. now apply in_map.
  Qed.
End Cut.
