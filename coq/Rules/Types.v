(** * Rules.Types — types with structural constructors, declarations, on-demand clause
    generators and the meaning of a program that has them.

    The (R) rule models of the auto traits (Rules/Auto.v, C05) and of the built-in traits
    (Rules/Builtin.v, C08) share this file.

    Types are the first-order terms of Logic/Program.v.  ADT number [i] is the symbol [i]
    ([i < 1000]), trait number [j] is [1000 + j]; the structural type constructors of Rust
    get the fixed symbols below ([&'a T] and [&'a mut T] are written without their lifetime:
    no rule modelled here looks at lifetimes).  [view] is the model of chalk's [TyKind]: the
    Rust functions are modelled as functions that [match] on [view t] exactly like the Rust
    code matches on [ty.kind(interner)].

    chalk generates the clauses of auto traits and built-in traits *on demand*, for the self
    type of the goal that is being solved ([program_clauses_that_could_match]).  The model
    does the same: a generator is a function [ty -> list clause] from the goal atom to the
    clauses pushed for it, the program seen by a goal [a] is [impl clauses ++ gen a], and
    the meaning of the whole is [Sem.holds] over the step relation "some instance of a clause
    generated for [a] has head [a]" — the greatest fixed point on the coinductive traits,
    the least fixed point on the others.  The verified evaluator of Logic/Ground.v is generic
    in the step function and is reused unchanged ([eval_rules], [eval_rules_correct]). *)

From Chalk Require Export Logic.Program Logic.Sem Logic.Ground.
Local Open Scope N_scope.

(** ** Symbols of the structural type constructors *)

Definition sArray : N := 2001.    (* [T; n]      args [T; n] *)
Definition sSlice : N := 2002.    (* [T]         args [T] *)
Definition sRefNot : N := 2003.   (* &'a T       args [T] *)
Definition sRefMut : N := 2004.   (* &'a mut T   args [T] *)
Definition sRawConst : N := 2005. (* *const T    args [T] *)
Definition sRawMut : N := 2006.   (* *mut T      args [T] *)
Definition sStr : N := 2007.
Definition sNever : N := 2008.
Definition sTuple : N := 2009.    (* (T1, .., Tn)        args [T1; ..; Tn]; the arity is the number of arguments *)
Definition sFnPtr : N := 2010.    (* fn(T1, ..) -> R     args [T1; ..; R] *)
Definition sScalar : N := 2011.   (* u8, bool, f32 ...   args [TCon k] *)
Definition sForeign : N := 2012.  (* extern type         args [TCon id] *)
Definition sDyn : N := 2013.      (* dyn Tr + 'a         args [TCon tr] *)
Definition sConst : N := 2014.    (* a constant value (array length)  args [TCon v] *)

Definition adt_limit : N := 1000.

Definition tScalar (k : N) : ty := tapp sScalar [TCon k].
Definition tStr : ty := tapp sStr [].
Definition tNever : ty := tapp sNever [].
Definition tTuple (args : list ty) : ty := tapp sTuple args.
Definition tArray (t n : ty) : ty := tapp sArray [t; n].
Definition tSlice (t : ty) : ty := tapp sSlice [t].
Definition tRef (m : bool) (t : ty) : ty := tapp (if m then sRefMut else sRefNot) [t].
Definition tRaw (m : bool) (t : ty) : ty := tapp (if m then sRawMut else sRawConst) [t].
Definition tFnPtr (args : list ty) : ty := tapp sFnPtr args.
Definition tForeign (id : N) : ty := tapp sForeign [TCon id].
Definition tDyn (tr : N) : ty := tapp sDyn [TCon tr].
Definition tAdt (id : N) (args : list ty) : ty := tapp id args.

(** An atom [T: Tr] of a trait without parameters of its own. *)
Definition atom (tr : N) (t : ty) : ty := TAp (TCon tr) t.

(** ** Arguments of a curried application *)

Fixpoint targs_acc (t : ty) (acc : list ty) : list ty :=
  match t with
  | TAp f x => targs_acc f (x :: acc)
  | _ => acc
  end.

Definition targs (t : ty) : list ty := targs_acc t [].

Lemma targs_acc_fold : forall args f acc,
  targs_acc (fold_left TAp args f) acc = targs_acc f (args ++ acc).
Proof.
  induction args as [|x r IH]; intros f acc; cbn [fold_left app]; [reflexivity|].
  rewrite IH. reflexivity.
Qed.

Lemma targs_tapp : forall c args, targs (tapp c args) = args.
Proof.
  intros c args. unfold targs, tapp. rewrite targs_acc_fold. cbn [targs_acc]. apply app_nil_r.
Qed.

Lemma hsym_fold : forall args f, hsym (fold_left TAp args f) = hsym f.
Proof.
  induction args as [|x r IH]; intro f; cbn [fold_left]; [reflexivity|]. rewrite IH. reflexivity.
Qed.

Lemma hsym_tapp : forall c args, hsym (tapp c args) = Some c.
Proof. intros. unfold tapp. rewrite hsym_fold. reflexivity. Qed.

Lemma tapp_targs_acc : forall t c, hsym t = Some c ->
  forall acc, fold_left TAp acc t = fold_left TAp (targs_acc t acc) (TCon c).
Proof.
  induction t as [d|f IHf x _|k|i]; intros c H acc; cbn [hsym] in H; try discriminate.
  - inversion H; subst. reflexivity.
  - cbn [targs_acc]. rewrite <- (IHf c H (x :: acc)). reflexivity.
Qed.

Lemma tapp_targs : forall t c, hsym t = Some c -> t = tapp c (targs t).
Proof. intros t c H. unfold tapp, targs. rewrite <- (tapp_targs_acc t c H []). reflexivity. Qed.

Lemma tapp_inj : forall c args d args', tapp c args = tapp d args' -> c = d /\ args = args'.
Proof.
  intros c args d args' H. split.
  - assert (E : hsym (tapp c args) = hsym (tapp d args')) by now rewrite H.
    rewrite !hsym_tapp in E. now inversion E.
  - assert (E : targs (tapp c args) = targs (tapp d args')) by now rewrite H.
    now rewrite !targs_tapp in E.
Qed.

Lemma groundb_fold : forall args f,
  groundb (fold_left TAp args f) = groundb f && forallb groundb args.
Proof.
  induction args as [|x r IH]; intro f; cbn [fold_left forallb].
  - now rewrite andb_true_r.
  - rewrite IH. cbn [groundb]. now rewrite andb_assoc.
Qed.

Lemma ground_tapp : forall c args, ground (tapp c args) <-> (forall x, In x args -> ground x).
Proof.
  intros c args. unfold ground, tapp. rewrite groundb_fold. cbn [groundb andb].
  rewrite forallb_forall. reflexivity.
Qed.

Lemma subst_fold : forall th args f,
  subst th (fold_left TAp args f) = fold_left TAp (map (subst th) args) (subst th f).
Proof.
  induction args as [|x r IH]; intro f; cbn [fold_left map]; [reflexivity|]. rewrite IH. reflexivity.
Qed.

Lemma subst_tapp : forall th c args, subst th (tapp c args) = tapp c (map (subst th) args).
Proof. intros. unfold tapp. rewrite subst_fold. reflexivity. Qed.

Lemma ground_atom : forall tr t, ground (atom tr t) <-> ground t.
Proof. intros. unfold ground, atom. cbn [groundb andb]. reflexivity. Qed.

(** ** [view]: the model of [TyKind] *)

Inductive tview : Type :=
| VAdt (id : N) (args : list ty)
| VScalar (k : N)
| VStr
| VNever
| VTuple (args : list ty)
| VArray (t n : ty)
| VSlice (t : ty)
| VRef (m : bool) (t : ty)
| VRaw (m : bool) (t : ty)
| VFnPtr (args : list ty)
| VForeign (id : N)
| VDyn (tr : N)
| VPlaceholder (k : N)
| VOther.                (* variables, constants, trait atoms, ill-shaped applications *)

Definition view_sym (c : N) (args : list ty) : tview :=
  if c <? adt_limit then VAdt c args
  else if c =? sTuple then VTuple args
  else if c =? sFnPtr then VFnPtr args
  else match args with
       | [] => if c =? sStr then VStr else if c =? sNever then VNever else VOther
       | [x] =>
           if c =? sSlice then VSlice x
           else if c =? sRefNot then VRef false x
           else if c =? sRefMut then VRef true x
           else if c =? sRawConst then VRaw false x
           else if c =? sRawMut then VRaw true x
           else match x with
                | TCon k => if c =? sScalar then VScalar k
                            else if c =? sForeign then VForeign k
                            else if c =? sDyn then VDyn k
                            else VOther
                | _ => VOther
                end
       | [x; n] => if c =? sArray then VArray x n else VOther
       | _ => VOther
       end.

Definition view (t : ty) : tview :=
  match t with
  | TPh k => VPlaceholder k
  | _ => match hsym t with
         | Some c => view_sym c (targs t)
         | None => VOther
         end
  end.

(** The shapes [view] recognises, as a relation (used to invert [view t = v]). *)
Inductive view_rel : ty -> tview -> Prop :=
| vr_adt : forall c args, (c <? adt_limit) = true -> view_rel (tAdt c args) (VAdt c args)
| vr_scalar : forall k, view_rel (tScalar k) (VScalar k)
| vr_str : view_rel tStr VStr
| vr_never : view_rel tNever VNever
| vr_tuple : forall args, view_rel (tTuple args) (VTuple args)
| vr_array : forall t n, view_rel (tArray t n) (VArray t n)
| vr_slice : forall t, view_rel (tSlice t) (VSlice t)
| vr_ref : forall m t, view_rel (tRef m t) (VRef m t)
| vr_raw : forall m t, view_rel (tRaw m t) (VRaw m t)
| vr_fnptr : forall args, view_rel (tFnPtr args) (VFnPtr args)
| vr_foreign : forall id, view_rel (tForeign id) (VForeign id)
| vr_dyn : forall tr, view_rel (tDyn tr) (VDyn tr)
| vr_ph : forall k, view_rel (TPh k) (VPlaceholder k)
| vr_other : forall t, view_rel t VOther.

Ltac eqb_case c s :=
  let E := fresh "E" in
  destruct (N.eqb c s) eqn:E; [apply N.eqb_eq in E; subst c|].

Lemma view_sym_spec : forall c args, view_rel (tapp c args) (view_sym c args).
Proof.
  intros c args. unfold view_sym.
  destruct (c <? adt_limit) eqn:Ea; [now apply vr_adt|].
  eqb_case c sTuple; [apply vr_tuple|].
  eqb_case c sFnPtr; [apply vr_fnptr|].
  destruct args as [|x [|n [|z r]]]; try apply vr_other.
  - eqb_case c sStr; [apply vr_str|]. eqb_case c sNever; [apply vr_never|]. apply vr_other.
  - eqb_case c sSlice; [apply vr_slice|].
    eqb_case c sRefNot; [apply (vr_ref false)|].
    eqb_case c sRefMut; [apply (vr_ref true)|].
    eqb_case c sRawConst; [apply (vr_raw false)|].
    eqb_case c sRawMut; [apply (vr_raw true)|].
    destruct x as [k| | |]; try apply vr_other.
    eqb_case c sScalar; [apply vr_scalar|].
    eqb_case c sForeign; [apply vr_foreign|].
    eqb_case c sDyn; [apply vr_dyn|]. apply vr_other.
  - eqb_case c sArray; [apply vr_array|]. apply vr_other.
Qed.

Lemma view_spec : forall t, view_rel t (view t).
Proof.
  intro t. unfold view. destruct t as [c|f x|k|i]; try apply vr_other; try apply vr_ph.
  - cbn [hsym]. change (TCon c) with (tapp c []) at 1. apply (view_sym_spec c []).
  - destruct (hsym (TAp f x)) as [c|] eqn:E; [|apply vr_other].
    rewrite (tapp_targs _ _ E) at 1. apply view_sym_spec.
Qed.

Lemma view_tapp : forall c args, view (tapp c args) = view_sym c args.
Proof.
  intros c args. unfold view.
  destruct (tapp c args) as [d|f x|k|i] eqn:E.
  - rewrite <- E. now rewrite hsym_tapp, targs_tapp.
  - rewrite <- E. now rewrite hsym_tapp, targs_tapp.
  - assert (H : hsym (tapp c args) = None) by now rewrite E. rewrite hsym_tapp in H. discriminate.
  - assert (H : hsym (tapp c args) = None) by now rewrite E. rewrite hsym_tapp in H. discriminate.
Qed.

Lemma view_adt : forall id args, (id <? adt_limit) = true -> view (tAdt id args) = VAdt id args.
Proof. intros. unfold tAdt. rewrite view_tapp. unfold view_sym. now rewrite H. Qed.
Lemma view_scalar : forall k, view (tScalar k) = VScalar k.
Proof. reflexivity. Qed.
Lemma view_str : view tStr = VStr.
Proof. reflexivity. Qed.
Lemma view_never : view tNever = VNever.
Proof. reflexivity. Qed.
Lemma view_tuple : forall args, view (tTuple args) = VTuple args.
Proof. intros. unfold tTuple. now rewrite view_tapp. Qed.
Lemma view_fnptr : forall args, view (tFnPtr args) = VFnPtr args.
Proof. intros. unfold tFnPtr. now rewrite view_tapp. Qed.
Lemma view_array : forall t n, view (tArray t n) = VArray t n.
Proof. reflexivity. Qed.
Lemma view_slice : forall t, view (tSlice t) = VSlice t.
Proof. reflexivity. Qed.
Lemma view_ref : forall m t, view (tRef m t) = VRef m t.
Proof. intros [|] t; reflexivity. Qed.
Lemma view_raw : forall m t, view (tRaw m t) = VRaw m t.
Proof. intros [|] t; reflexivity. Qed.
Lemma view_foreign : forall id, view (tForeign id) = VForeign id.
Proof. reflexivity. Qed.
Lemma view_dyn : forall tr, view (tDyn tr) = VDyn tr.
Proof. reflexivity. Qed.

(** Inversion of [view t = v] into the shape of [t]. *)
Ltac view_inv H :=
  let V := fresh "V" in
  match type of H with
  | view ?t = _ => pose proof (view_spec t) as V; rewrite H in V; inversion V; subst; clear V
  end.

(** ** Declarations *)

Record adt : Type := mkAdt {
  a_id : N;
  a_np : nat;                    (* number of type parameters: the fields use TVar 0 .. a_np-1 *)
  a_struct : bool;               (* AdtKind::Struct (false: enum / union) *)
  a_phantom : bool;              (* #[phantom_data] *)
  a_variants : list (list ty)    (* field types per variant *)
}.

Inductive wk : Type := WSized | WCopy | WClone | WTuple | WFnPtr.

Record trait : Type := mkTrait {
  t_id : N;
  t_auto : bool;
  t_coind : bool;
  t_wk : option wk
}.

(** [i_head] is the atom [Self: Tr<P..>] = [tapp tr (Self :: P..)] over the impl's parameters
    [TVar 0 ..]; negative impls ([i_pos = false]) have no where-clauses that matter. *)
Record impl : Type := mkImpl { i_pos : bool; i_head : ty; i_wcs : list ty }.

Record decls : Type := mkDecls { d_adts : list adt; d_traits : list trait; d_impls : list impl }.

Fixpoint find_adt (l : list adt) (id : N) : option adt :=
  match l with
  | [] => None
  | d :: r => if a_id d =? id then Some d else find_adt r id
  end.

Fixpoint find_trait (l : list trait) (id : N) : option trait :=
  match l with
  | [] => None
  | d :: r => if t_id d =? id then Some d else find_trait r id
  end.

Lemma find_adt_id : forall l id d, find_adt l id = Some d -> a_id d = id.
Proof.
  induction l as [|x r IH]; intros id d H; cbn [find_adt] in H; [discriminate|].
  destruct (a_id x =? id) eqn:E; [inversion H; subst; now apply N.eqb_eq|auto].
Qed.

Lemma find_adt_In : forall l id d, find_adt l id = Some d -> In d l.
Proof.
  induction l as [|x r IH]; intros id d H; cbn [find_adt] in H; [discriminate|].
  destruct (a_id x =? id); [inversion H; now left|right; eauto].
Qed.

Definition is_auto (D : decls) (tr : N) : bool :=
  match find_trait (d_traits D) tr with Some t => t_auto t | None => false end.

Definition is_co (D : decls) (tr : N) : bool :=
  match find_trait (d_traits D) tr with Some t => t_auto t || t_coind t | None => false end.

Definition wk_of (D : decls) (tr : N) : option wk :=
  match find_trait (d_traits D) tr with Some t => t_wk t | None => None end.

(** The coinductive head symbols, as Logic.Program wants them. *)
Definition coD (D : decls) : list N :=
  map t_id (filter (fun t => is_co D (t_id t)) (d_traits D)).

Lemma find_trait_In : forall l id t, find_trait l id = Some t -> In t l /\ t_id t = id.
Proof.
  induction l as [|x r IH]; intros id t H; cbn [find_trait] in H; [discriminate|].
  destruct (t_id x =? id) eqn:E.
  - inversion H; subst. split; [now left|now apply N.eqb_eq].
  - destruct (IH _ _ H). split; [now right|assumption].
Qed.

Lemma memN_coD : forall D tr, memN tr (coD D) = is_co D tr.
Proof.
  intros D tr. destruct (memN tr (coD D)) eqn:E.
  - apply memN_In in E. unfold coD in E. apply in_map_iff in E. destruct E as [t [E1 E2]].
    apply filter_In in E2. subst tr. symmetry. tauto.
  - symmetry. destruct (is_co D tr) eqn:E2; [|reflexivity].
    assert (In tr (coD D)); [|apply memN_In in H; congruence].
    unfold is_co in E2. destruct (find_trait (d_traits D) tr) as [t|] eqn:Ef; [|discriminate].
    destruct (find_trait_In _ _ _ Ef) as [Hin Hid]. unfold coD. apply in_map_iff. exists t.
    split; [exact Hid|]. apply filter_In. split; [exact Hin|]. unfold is_co. rewrite Hid, Ef. exact E2.
Qed.

Lemma isco_atom : forall D tr t, isco (coD D) (atom tr t) = is_co D tr.
Proof. intros. unfold isco, atom. cbn [hsym]. apply memN_coD. Qed.

Lemma is_auto_co : forall D tr, is_auto D tr = true -> is_co D tr = true.
Proof.
  intros D tr. unfold is_auto, is_co. destruct (find_trait (d_traits D) tr); [|discriminate].
  intro H. now rewrite H.
Qed.

(** The clauses of the explicit positive impls. *)
Definition impl_clauses (D : decls) : list clause :=
  map (fun i => mkClause (i_head i) (i_wcs i)) (filter i_pos (d_impls D)).

(** Well-formedness of the declarations that the theorems assume (all checked by the
    boolean [wf_decls] on every generated program):
    fields only mention the ADT's own parameters; explicit impls are range-restricted;
    an [#[auto]] trait is not at the same time a lang item. *)
Definition adt_closed (d : adt) : bool :=
  forallb (fun f => forallb (fun i => Nat.ltb i (a_np d)) (vars f)) (concat (a_variants d)).

Definition wf_decls (D : decls) : bool :=
  forallb adt_closed (d_adts D)
  && rr_allb (impl_clauses D)
  && forallb (fun t => negb (is_auto D (t_id t)) || match wk_of D (t_id t) with None => true | Some _ => false end) (d_traits D).

(** ** Generators and the meaning of declarations + generator *)

Definition generator : Type := ty -> list clause.

Section Meaning.
  Variable D : decls.
  Variable gen : generator.

  Definition clauses_for (a : ty) : list clause := impl_clauses D ++ gen a.

  Definition stepD (a : ty) (bs : list ty) : Prop := inst (clauses_for a) a bs.

  Definition holdsD (a : ty) : Prop := holds stepD (isco (coD D)) a.

  Definition bodsD (a : ty) : list (list ty) := bodies (clauses_for a) a.

  Definition eval_rules (fuel : nat) (a : ty) : option bool :=
    eval_atom_g bodsD (isco (coD D)) fuel a.

  (** What the generators of this development guarantee: for a ground goal atom every
      generated clause is ground and has exactly that atom as its head. *)
  Definition gen_ok : Prop :=
    forall a c, ground a -> In c (gen a) ->
      chead c = a /\ (forall b, In b (cbody c) -> ground b).

  Hypothesis Hgen : gen_ok.
  Hypothesis Hrr : rr (impl_clauses D).

  Lemma inst_ground : forall cls a bs, inst cls a bs -> ground a.
  Proof.
    intros cls a bs [c [th [_ [Hg [Hh _]]]]]. subst a. apply ground_subst. intros i _. apply Hg.
  Qed.

  Lemma ground_clause_rr : forall c, ground (chead c) -> (forall b, In b (cbody c) -> ground b) -> rr_clause c.
  Proof.
    intros c _ Hb b i Hin Ho. rewrite (ground_no_occurs b i (Hb b Hin)) in Ho. discriminate.
  Qed.

  Lemma clauses_for_rr : forall a, ground a -> rr (clauses_for a).
  Proof.
    intros a Ga. unfold clauses_for. apply rr_app; [exact Hrr|].
    intros c Hc. destruct (Hgen a c Ga Hc) as [Hh Hb]. apply ground_clause_rr; [now rewrite Hh|exact Hb].
  Qed.

  Lemma step_bods : forall a bs, stepD a bs <-> In bs (bodsD a).
  Proof.
    intros a bs. unfold stepD, bodsD. destruct (groundb a) eqn:Ga.
    - apply bodies_spec. now apply clauses_for_rr.
    - split.
      + intro H. apply inst_ground in H. unfold ground in H. congruence.
      + unfold bodies. rewrite Ga. intros [].
  Qed.

  (** The evaluator's verdict is the truth value of the atom. *)
  Theorem eval_rules_correct : forall fuel a b,
    eval_rules fuel a = Some b -> (b = true <-> holdsD a).
  Proof.
    intros fuel a b H. unfold eval_rules in H. apply eval_atom_g_correct in H. rewrite H.
    unfold holdsD. apply holds_step_ext. intros x bs. unfold stepB. symmetry. apply step_bods.
  Qed.

  (** The step relation splits into the explicit impls and the generated clauses. *)
  Definition impl_applies (Y : ty -> Prop) (a : ty) : Prop :=
    exists i th, In i (d_impls D) /\ i_pos i = true /\ (forall k, ground (th k)) /\
                 subst th (i_head i) = a /\ forall w, In w (i_wcs i) -> Y (subst th w).

  Definition gen_applies (Y : ty -> Prop) (a : ty) : Prop :=
    exists c, In c (gen a) /\ forall b, In b (cbody c) -> Y b.

  Definition one_step (Y : ty -> Prop) (a : ty) : Prop :=
    exists bs, stepD a bs /\ forall b, In b bs -> Y b.

  Lemma one_step_split : forall Y a, ground a ->
    (one_step Y a <-> impl_applies Y a \/ gen_applies Y a).
  Proof.
    intros Y a Ga. unfold one_step, stepD, clauses_for, inst. split.
    - intros [bs [[c [th [Hc [Hg [Hh Hb]]]]] HY]]. apply in_app_iff in Hc. destruct Hc as [Hc|Hc].
      + left. unfold impl_clauses in Hc. apply in_map_iff in Hc. destruct Hc as [i [Ei Hi]].
        apply filter_In in Hi. destruct Hi as [Hi Hp]. subst c. cbn [chead cbody] in *.
        exists i, th. repeat split; auto. intros w Hw. apply HY. subst bs. now apply in_map.
      + right. exists c. split; [exact Hc|]. destruct (Hgen a c Ga Hc) as [_ Hgb].
        intros b Hb'. apply HY. subst bs. apply in_map_iff. exists b. split; [|exact Hb'].
        apply subst_ground. now apply Hgb.
    - intros [[i [th [Hi [Hp [Hg [Hh HY]]]]]]|[c [Hc HY]]].
      + exists (map (subst th) (i_wcs i)). split.
        * exists (mkClause (i_head i) (i_wcs i)), th. cbn [chead cbody]. repeat split; auto.
          apply in_or_app. left. unfold impl_clauses. apply in_map_iff. exists i. split; [reflexivity|].
          apply filter_In. auto.
        * intros b Hb. apply in_map_iff in Hb. destruct Hb as [w [<- Hw]]. auto.
      + destruct (Hgen a c Ga Hc) as [Hh Hgb]. exists (cbody c). split; [|exact HY].
        exists c, (fun _ => TCon 0). split; [apply in_or_app; now right|]. split; [reflexivity|].
        split; [rewrite Hh; now apply subst_ground|].
        symmetry. rewrite <- (map_id (cbody c)) at 2. apply map_ext_in. intros b Hb. apply subst_ground. auto.
  Qed.

  Lemma holdsD_unfold : forall a, holdsD a <-> one_step holdsD a.
  Proof. intro a. unfold holdsD, one_step. apply holds_unfold. Qed.

  Lemma holdsD_ground : forall a, holdsD a -> ground a.
  Proof.
    intros a H. apply holdsD_unfold in H. destruct H as [bs [Hs _]]. eapply inst_ground; eauto.
  Qed.

  Lemma one_step_mono : forall (Y Z : ty -> Prop) a, (forall b, Y b -> Z b) -> one_step Y a -> one_step Z a.
  Proof. intros Y Z a H [bs [Hs Hb]]. exists bs. split; auto. Qed.

  (** *** A class of coinductive atoms is the greatest set closed under its rules
      (Tarski / Park: a set that justifies each of its members — possibly with the help of
      atoms that hold anyway — consists of atoms that hold; cycles count as satisfied). *)
  Theorem co_class_spec : forall (Q : ty -> Prop),
    (forall a, Q a -> isco (coD D) a = true) ->
    forall a, Q a ->
      (holdsD a <-> exists X : ty -> Prop,
                      (forall x, X x -> Q x /\ one_step (fun b => X b \/ holdsD b) x) /\ X a).
  Proof.
    intros Q HQ a Qa. split.
    - intro Ha. exists (fun x => Q x /\ holdsD x). split; [|now split].
      intros x [Qx Hx]. split; [exact Qx|]. apply holdsD_unfold in Hx.
      eapply one_step_mono; [|exact Hx]. intros b Hb. now right.
    - intros [X [HX Xa]]. unfold holdsD.
      set (co := isco (coD D)). set (G := gfpX stepD co).
      exists (fun x => X x \/ G x). split.
      + intros x [Xx|Gx].
        * destruct (HX x Xx) as [Qx [bs [Hs Hb]]]. split; [now apply HQ|].
          apply (Der stepD co _ x bs Hs).
          -- intros b Hin Hcb. destruct (Hb b Hin) as [Xb|Hhb]; [now left|]. right. split; assumption.
          -- intros b Hin Hcb. destruct (Hb b Hin) as [Xb|Hhb].
             ++ destruct (HX b Xb) as [Qb _]. apply HQ in Qb. fold co in Qb. congruence.
             ++ apply (derives_mono stepD co G); [intros; now right|]. now apply holds_derives.
        * destruct (gfpX_cosound stepD co x Gx) as [Hc Hd]. split; [exact Hc|].
          apply (derives_mono stepD co G); [intros; now right|exact Hd].
      + assert (E : co a = true) by (apply HQ; exact Qa). rewrite E. now left.
  Qed.

  (** *** Induction over a class of inductive atoms. *)
  Theorem ind_class_principle : forall (Q Y : ty -> Prop),
    (forall a, Q a -> isco (coD D) a = false) ->
    (forall a, Q a -> one_step (fun b => holdsD b /\ (Q b -> Y b)) a -> Y a) ->
    forall a, Q a -> holdsD a -> Y a.
  Proof.
    intros Q Y HQ Hstep a Qa Ha. unfold holdsD in Ha. destruct Ha as [X [HX Ha]].
    rewrite (HQ a Qa) in Ha.
    assert (K : forall x, derives stepD (isco (coD D)) X x -> holdsD x /\ (Q x -> Y x)).
    { intros x Dx. induction Dx as [x bs Hs Hc Hi IH].
      assert (Hall : forall b, In b bs -> holdsD b /\ (Q b -> Y b)).
      { intros b Hin. destruct (isco (coD D) b) eqn:Hcb.
        - split.
          + exists X. split; [exact HX|]. rewrite Hcb. now apply Hc.
          + intro Qb. apply HQ in Qb. congruence.
        - now apply IH. }
      split.
      - apply (derives_holds stepD (isco (coD D)) X); [exact HX|]. now apply (Der _ _ _ x bs).
      - intro Qx. apply Hstep; [exact Qx|]. exists bs. split; [exact Hs|exact Hall]. }
    now apply K.
  Qed.
End Meaning.

(** ** Comparison of sets of bodies (the structural correspondence with the clauses the
    real code generates is checked up to order and duplicates). *)

Definition subsetT (l1 l2 : list ty) : bool := forallb (fun x => memT x l2) l1.
Definition same_setT (l1 l2 : list ty) : bool := subsetT l1 l2 && subsetT l2 l1.
Definition same_bodies (b1 b2 : list (list ty)) : bool :=
  forallb (fun x => existsb (same_setT x) b2) b1 && forallb (fun x => existsb (same_setT x) b1) b2.
