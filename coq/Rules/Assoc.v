(** * Rules.Assoc — associated types: clause generation and normalization

    Rule model of [chalk-solve/src/clauses/program_clauses.rs]
      - [ImplDatum::to_program_clauses]          (Implemented-From-Impl),
      - [AssociatedTyValue::to_program_clauses]  (Normalize-From-Impl: the impl's where
        clauses are the conditions),
      - [AssociatedTyDatum::to_program_clauses]  (AliasEq-Normalize and the low-priority
        fallback AliasEq-Placeholder to the placeholder type [(Tr::A)<Self>]),
    for traits without extra parameters and non-generic associated types, as Horn clauses
    of [Logic.Program]:

        Implemented(X: Tr)              [tapp tr [X]]
        Normalize(<X as Tr>::A -> U)    [aNorm a X U  = tapp 3000 [TCon a; X; U]]
        AliasEq(<X as Tr>::A = U)       [aAlias a X U = tapp 3001 [TCon a; X; U]]
        (Tr::A)<X>                      [tPh a X      = tapp 3002 [TCon a; X]]

    A projection type is not a first-order term: where chalk unifies a type with a projection
    it emits an [AliasEq] subgoal ([Unifier::relate_alias_ty]).  Impl values are therefore
    given in that lowered form: the [k]-th projection [<s_k as _>::a_k] occurring in a value is
    replaced by the extra clause variable [TVar (n + k)] ([n] = number of impl parameters) and
    listed in [av_nested]; its [AliasEq] subgoal is added to the body of the Normalize clause.

    [normalizes]: the rule system (look up an impl whose header matches, substitute, check
    its where clauses, value with its nested projections related by AliasEq).
    [norm_value]: the executable normalizer (fuel) that prefers the normalized form of a
    nested projection over its placeholder form — what the recursive solver's
    [with_priorities] selects. *)

From Chalk Require Export Logic.Contract.

Definition sNorm : N := 3000.
Definition sAlias : N := 3001.
Definition sPh : N := 3002.

Definition aNorm (a : N) (X U : ty) : ty := tapp sNorm [TCon a; X; U].
Definition aAlias (a : N) (X U : ty) : ty := tapp sAlias [TCon a; X; U].
Definition tPh (a : N) (X : ty) : ty := tapp sPh [TCon a; X].
Definition aImpl (tr : N) (X : ty) : ty := tapp tr [X].

(** [type A = av_ty] inside an impl; [av_nested]: (associated type, self type) of the
    projections replaced by the variables [n, n+1, ...]. *)
Record aval : Type := mkAval { av_assoc : N; av_nested : list (N * ty); av_ty : ty }.

(** [impl<T0..Tn-1> Tr for ai_self where ai_wcs { ai_vals }]; where clauses are atoms
    ([Implemented] / [AliasEq]) over the impl parameters. *)
Record aimpl : Type := mkAimpl { ai_trait : N; ai_n : nat; ai_self : ty; ai_wcs : list ty; ai_vals : list aval }.

Record aprog : Type := mkAprog { ap_assocs : list N; ap_impls : list aimpl }.

(** ** Clause generation *)

Fixpoint nested_atoms (k : nat) (l : list (N * ty)) : list ty :=
  match l with
  | [] => []
  | (a, s) :: r => aAlias a s (TVar k) :: nested_atoms (S k) r
  end.

Definition impl_clause (i : aimpl) : clause := mkClause (aImpl (ai_trait i) (ai_self i)) (ai_wcs i).

Definition norm_clause (i : aimpl) (v : aval) : clause :=
  mkClause (aNorm (av_assoc v) (ai_self i) (av_ty v)) (ai_wcs i ++ nested_atoms (ai_n i) (av_nested v)).

Definition alias_norm_clause (a : N) : clause := mkClause (aAlias a (TVar 0) (TVar 1)) [aNorm a (TVar 0) (TVar 1)].
Definition alias_ph_clause (a : N) : clause := mkClause (aAlias a (TVar 0) (tPh a (TVar 0))) [].

Definition impl_clauses (i : aimpl) : list clause := impl_clause i :: map (norm_clause i) (ai_vals i).
Definition assoc_ty_clauses (a : N) : list clause := [alias_norm_clause a; alias_ph_clause a].

Definition assoc_clauses (P : aprog) : list clause :=
  flat_map impl_clauses (ap_impls P) ++ flat_map assoc_ty_clauses (ap_assocs P).

Definition assoc_program (P : aprog) : program := mkProg (assoc_clauses P) [].

(** The meaning of an atom. *)
Definition H (P : aprog) (a : ty) : Prop := holdsP (assoc_program P) [] a.

(** ** One-step unfolding of the meaning *)

Lemma H_unfold : forall P a,
  H P a <-> exists c th, In c (assoc_clauses P) /\ (forall i, ground (th i)) /\
                         subst th (chead c) = a /\ forall b, In b (cbody c) -> H P (subst th b).
Proof.
  intros P a. unfold H, holdsP. rewrite holds_unfold. unfold allc. cbn [app pclauses assoc_program]. split.
  - intros [bs [[c [th [Hc [Hg [Hh Hb]]]]] Hall]]. exists c, th. repeat split; auto.
    intros b Hb'. apply Hall. subst bs. now apply in_map.
  - intros [c [th [Hc [Hg [Hh Hall]]]]]. exists (map (subst th) (cbody c)). split.
    + exists c, th. auto.
    + intros b Hb. apply in_map_iff in Hb. destruct Hb as [b0 [<- Hb0]]. auto.
Qed.

Lemma H_ground : forall P a, H P a -> ground a.
Proof.
  intros P a Ha. apply H_unfold in Ha. destruct Ha as [c [th [_ [Hg [<- _]]]]].
  apply ground_subst. intros i _. apply Hg.
Qed.

Lemma in_assoc_clauses : forall P c,
  In c (assoc_clauses P) <->
  (exists i, In i (ap_impls P) /\ (c = impl_clause i \/ exists v, In v (ai_vals i) /\ c = norm_clause i v)) \/
  (exists a, In a (ap_assocs P) /\ (c = alias_norm_clause a \/ c = alias_ph_clause a)).
Proof.
  intros P c. unfold assoc_clauses. rewrite in_app_iff, !in_flat_map. split.
  - intros [[i [Hi Hc]]|[a [Ha Hc]]].
    + left. exists i. split; [exact Hi|]. destruct Hc as [<-|Hc]; [now left|]. right.
      apply in_map_iff in Hc. destruct Hc as [v [<- Hv]]. eauto.
    + right. exists a. split; [exact Ha|]. destruct Hc as [<-|[<-|[]]]; auto.
  - intros [[i [Hi Hc]]|[a [Ha Hc]]].
    + left. exists i. split; [exact Hi|]. destruct Hc as [-> | [v [Hv ->]]]; [now left|right; now apply in_map].
    + right. exists a. split; [exact Ha|]. destruct Hc as [-> | ->]; [now left|right; now left].
Qed.

(** ** The rule system *)

Definition normalizes (P : aprog) (a : N) (X U : ty) : Prop :=
  exists i v th,
    In i (ap_impls P) /\ In v (ai_vals i) /\ av_assoc v = a /\ (forall k, ground (th k)) /\
    subst th (ai_self i) = X /\ subst th (av_ty v) = U /\
    (forall w, In w (ai_wcs i) -> H P (subst th w)) /\
    (forall b, In b (nested_atoms (ai_n i) (av_nested v)) -> H P (subst th b)).

(** THEOREM (normalize_spec): a Normalize atom holds iff the rule system derives it. *)
Theorem normalize_spec : forall P a X U, H P (aNorm a X U) <-> normalizes P a X U.
Proof.
  intros P a X U. rewrite H_unfold. split.
  - intros [c [th [Hc [Hg [Hh Hb]]]]]. apply in_assoc_clauses in Hc.
    destruct Hc as [[i [Hi [-> | [v [Hv ->]]]]]|[a' [Ha [-> | ->]]]]; cbn in Hh; try discriminate Hh.
    inversion Hh; subst. exists i, v, th. repeat split; auto.
    + intros w Hw. apply Hb. cbn [norm_clause cbody]. apply in_or_app. now left.
    + intros b Hb'. apply Hb. cbn [norm_clause cbody]. apply in_or_app. now right.
  - intros [i [v [th [Hi [Hv [Ha [Hg [Hs [Hu [Hw Hn]]]]]]]]]]. exists (norm_clause i v), th.
    split; [apply in_assoc_clauses; left; exists i; split; [exact Hi|right; eauto]|].
    split; [exact Hg|]. split; [cbn; now subst|].
    intros b Hb. cbn [norm_clause cbody] in Hb. apply in_app_iff in Hb. destruct Hb; auto.
Qed.

(** THEOREM (aliaseq_spec): an alias equality holds iff the type is the normalized value or
    the placeholder form of the projection. *)
Theorem aliaseq_spec : forall P a X Y,
  In a (ap_assocs P) -> ground X ->
  (H P (aAlias a X Y) <-> H P (aNorm a X Y) \/ Y = tPh a X).
Proof.
  intros P a X Y Ha Gx. split.
  - intro Hh. apply H_unfold in Hh. destruct Hh as [c [th [Hc [Hg [Hh Hb]]]]]. apply in_assoc_clauses in Hc.
    destruct Hc as [[i [Hi [-> | [v [Hv ->]]]]]|[a' [Ha' [-> | ->]]]]; cbn in Hh; try discriminate Hh.
    + inversion Hh; subst. left. apply (Hb (aNorm a (TVar 0) (TVar 1))). now left.
    + inversion Hh; subst. right. reflexivity.
  - intros [Hn | ->].
    + pose proof (H_ground _ _ Hn) as Gn. apply H_unfold.
      exists (alias_norm_clause a), (fun k => match k with 0 => X | 1 => Y | _ => TCon 0 end).
      split; [apply in_assoc_clauses; right; eauto|]. split.
      * intros [|[|k]]; [exact Gx| |reflexivity]. unfold ground, aNorm in Gn. cbn in Gn.
        apply andb_true_iff in Gn. tauto.
      * split; [reflexivity|]. intros b [<-|[]]. exact Hn.
    + apply H_unfold. exists (alias_ph_clause a), (fun k => match k with 0 => X | _ => TCon 0 end).
      split; [apply in_assoc_clauses; right; eauto|]. split.
      * intros [|k]; [exact Gx|reflexivity].
      * split; [reflexivity|intros b []].
Qed.

(** ** Functionality under coherence *)

(** No two impls of a trait apply to the same type (what the coherence check establishes),
    and an impl gives each associated type at most one value. *)
Definition coherent (P : aprog) : Prop :=
  (forall i j th1 th2, In i (ap_impls P) -> In j (ap_impls P) -> ai_trait i = ai_trait j ->
     subst th1 (ai_self i) = subst th2 (ai_self j) -> i = j) /\
  (forall i v w, In i (ap_impls P) -> In v (ai_vals i) -> In w (ai_vals i) -> av_assoc v = av_assoc w -> v = w).

(** Each associated type belongs to one trait. *)
Definition assoc_trait_ok (P : aprog) (tr_of : N -> N) : Prop :=
  forall i v, In i (ap_impls P) -> In v (ai_vals i) -> ai_trait i = tr_of (av_assoc v).

(** Values without nested projections whose parameters all occur in the impl header. *)
Definition flat (P : aprog) : Prop :=
  forall i v, In i (ap_impls P) -> In v (ai_vals i) ->
    av_nested v = [] /\ forall k, occurs k (av_ty v) = true -> occurs k (ai_self i) = true.

Lemma subst_eq_agree : forall t th1 th2,
  subst th1 t = subst th2 t -> forall k, occurs k t = true -> th1 k = th2 k.
Proof.
  induction t as [c|f IHf x IHx|p|j]; intros th1 th2 E k Hk; cbn [subst occurs] in *; try discriminate.
  - inversion E. apply orb_true_iff in Hk. destruct Hk; eauto.
  - apply Nat.eqb_eq in Hk. now subst.
Qed.

(** THEOREM (normalize_functional): under coherence a projection has at most one value
    (values without nested projections; for nested projections the placeholder form of the
    inner projection is a second solution of the clauses, see [nested_two_solutions]). *)
Theorem normalize_functional : forall P tr_of a X U1 U2,
  coherent P -> assoc_trait_ok P tr_of -> flat P ->
  normalizes P a X U1 -> normalizes P a X U2 -> U1 = U2.
Proof.
  intros P tr_of a X U1 U2 [C1 C2] Hat Hfl
    [i [v [th1 [Hi [Hv [Ha [_ [Hs1 [Hu1 _]]]]]]]]] [j [w [th2 [Hj [Hw [Ha2 [_ [Hs2 [Hu2 _]]]]]]]]].
  assert (i = j).
  { apply (C1 i j th1 th2); auto; [|congruence]. rewrite (Hat i v Hi Hv), (Hat j w Hj Hw). congruence. }
  subst j. assert (v = w) by (apply (C2 i); auto; congruence). subst w.
  rewrite <- Hu1, <- Hu2. apply subst_ext. intros k Hk.
  destruct (Hfl i v Hi Hv) as [_ Hocc]. apply (subst_eq_agree (ai_self i)); [congruence|auto].
Qed.

(** ** The executable normalizer *)

Definition and_all (l : list (option bool)) : option bool := fold_right and3 (Some true) l.

Lemma and_all_true : forall l, and_all l = Some true -> forall x, In x l -> x = Some true.
Proof.
  induction l as [|y r IH]; intros Hl x Hx; [destruct Hx|]. cbn [and_all fold_right] in Hl.
  fold (and_all r) in Hl. destruct y as [[|]|]; destruct (and_all r) as [[|]|]; cbn in Hl; try discriminate.
  destruct Hx as [<-|Hx]; auto.
Qed.

Lemma and_all_false : forall l, and_all l = Some false -> exists x, In x l /\ x = Some false.
Proof.
  induction l as [|y r IH]; intro Hl; [discriminate|]. cbn [and_all fold_right] in Hl.
  fold (and_all r) in Hl. destruct y as [[|]|].
  - destruct (and_all r) as [[|]|]; cbn in Hl; try discriminate. destruct (IH eq_refl) as [x [Hx E]].
    exists x. split; [now right|exact E].
  - exists (Some false). split; [now left|reflexivity].
  - destruct (and_all r) as [[|]|]; cbn in Hl; try discriminate. destruct (IH eq_refl) as [x [Hx E]].
    exists x. split; [now right|exact E].
Qed.

(** A where clause under the bindings of the header match: inconclusive unless ground. *)
Definition wc_holds (fe : nat) (P : aprog) (s : list (nat * ty)) (w : ty) : option bool :=
  let w' := subst (asfun s) w in
  if groundb w' then eval_atom fe (assoc_clauses P) [] w' else None.

Definition wcs_hold (fe : nat) (P : aprog) (s : list (nat * ty)) (wcs : list ty) : option bool :=
  and_all (map (wc_holds fe P s) wcs).

(** The (impl, value, bindings) triples whose header matches [X] and that define [a]. *)
Definition matches (P : aprog) (a : N) (X : ty) : list (aimpl * aval * list (nat * ty)) :=
  flat_map (fun i =>
    match mtch (ai_self i) X [] with
    | Some s => flat_map (fun v => if N.eqb (av_assoc v) a then [(i, v, s)] else []) (ai_vals i)
    | None => []
    end) (ap_impls P).

(** Bind the variable of each nested projection: its normalized value if it has one, its
    placeholder form otherwise. *)
Fixpoint bind_nested (nv : N -> ty -> option (option ty)) (k : nat) (l : list (N * ty))
                     (s : list (nat * ty)) : option (list (nat * ty)) :=
  match l with
  | [] => Some s
  | (a, t) :: r =>
      let Y := subst (asfun s) t in
      match lookup k s with
      | Some _ => None
      | None =>
          if groundb Y then
            match nv a Y with
            | Some (Some v) => bind_nested nv (S k) r ((k, v) :: s)
            | Some None => bind_nested nv (S k) r ((k, tPh a Y) :: s)
            | None => None
            end
          else None
      end
  end.

(** [Some (Some v)]: the value; [Some None]: no impl applies; [None]: inconclusive (out of
    fuel, overlapping impls, ill-formed input). *)
Fixpoint norm_value (fuel fe : nat) (P : aprog) (a : N) (X : ty) : option (option ty) :=
  match fuel with
  | O => None
  | S f =>
      if negb (groundb X) then None
      else
        let ev := map (fun c => (wcs_hold fe P (snd c) (ai_wcs (fst (fst c))), c)) (matches P a X) in
        if existsb (fun e => is_none (fst e)) ev then None
        else
          match filter (fun e => is_true (fst e)) ev with
          | [] => Some None
          | [(_, (i, v, s))] =>
              if forallb (fun p => memN (fst p) (ap_assocs P)) (av_nested v) then
                match bind_nested (norm_value f fe P) (ai_n i) (av_nested v) s with
                | Some s' =>
                    let U := subst (asfun s') (av_ty v) in
                    if groundb U then Some (Some U) else None
                | None => None
                end
              else None
          | _ => None
          end
  end.

Definition gfun' (s : list (nat * ty)) : nat -> ty := gfun s.

Lemma gfun_ground : forall s, ground_vals s -> forall i, ground (gfun s i).
Proof.
  intros s Hs i. unfold gfun. destruct (lookup i s) as [t|] eqn:E; [eapply Hs; eauto|reflexivity].
Qed.

Lemma subst_ground_agree : forall w s th,
  groundb (subst (asfun s) w) = true -> agree th s -> subst th w = subst (asfun s) w.
Proof.
  induction w as [c|f IHf x IHx|p|j]; intros s th Hg Ha; cbn [subst groundb] in *; try reflexivity.
  - apply andb_true_iff in Hg. destruct Hg. now rewrite (IHf s th), (IHx s th).
  - unfold asfun in *. destruct (lookup j s) as [t|] eqn:E; [now apply Ha|discriminate].
Qed.

Lemma agree_gfun : forall s, agree (gfun s) s.
Proof. intros s i t Hi. unfold gfun. now rewrite Hi. Qed.

Lemma in_matches : forall P a X i v s,
  In (i, v, s) (matches P a X) <->
  In i (ap_impls P) /\ In v (ai_vals i) /\ av_assoc v = a /\ mtch (ai_self i) X [] = Some s.
Proof.
  intros P a X i v s. unfold matches. rewrite in_flat_map. split.
  - intros [i0 [Hi0 Hin]]. destruct (mtch (ai_self i0) X []) as [s0|] eqn:Em; [|destruct Hin].
    apply in_flat_map in Hin. destruct Hin as [v0 [Hv0 Hin]].
    destruct (N.eqb (av_assoc v0) a) eqn:Ea; [|destruct Hin]. destruct Hin as [Hin|[]].
    inversion Hin; subst. apply N.eqb_eq in Ea. auto.
  - intros [Hi [Hv [Ha Hm]]]. exists i. split; [exact Hi|]. rewrite Hm. apply in_flat_map.
    exists v. split; [exact Hv|]. apply N.eqb_eq in Ha. rewrite Ha. now left.
Qed.

Section Sound.
  Variable P : aprog.
  Variable fe : nat.
  Hypothesis Hrr : rr (assoc_clauses P).

  Lemma wc_holds_true : forall s w th,
    wc_holds fe P s w = Some true -> agree th s -> H P (subst th w).
  Proof.
    intros s w th Hw Ha. unfold wc_holds in Hw.
    destruct (groundb (subst (asfun s) w)) eqn:Eg; [|discriminate].
    rewrite (subst_ground_agree _ _ _ Eg Ha).
    apply (eval_atom_correct fe (assoc_clauses P) [] _ true Hrr Hw). reflexivity.
  Qed.

  Lemma wc_holds_false : forall s w th,
    wc_holds fe P s w = Some false -> agree th s -> ~ H P (subst th w).
  Proof.
    intros s w th Hw Ha Hh. unfold wc_holds in Hw.
    destruct (groundb (subst (asfun s) w)) eqn:Eg; [|discriminate].
    rewrite (subst_ground_agree _ _ _ Eg Ha) in Hh.
    apply (eval_atom_correct fe (assoc_clauses P) [] _ false Hrr Hw) in Hh. discriminate.
  Qed.

  (** What [bind_nested] establishes, given that [nv] is sound. *)
  Lemma bind_nested_sound : forall (nv : N -> ty -> option (option ty)),
    (forall a Y v, nv a Y = Some (Some v) -> H P (aNorm a Y v)) ->
    forall l k s s',
      bind_nested nv k l s = Some s' ->
      (forall p, In p l -> In (fst p) (ap_assocs P)) ->
      ground_vals s ->
      extends s s' /\ ground_vals s' /\
      forall th, agree th s' -> forall b, In b (nested_atoms k l) -> H P (subst th b).
  Proof.
    intros nv Hnv. induction l as [|[a t] r IH]; intros k s s' Hb Hin Hg; cbn [bind_nested nested_atoms] in *.
    - inversion Hb; subst. split; [apply extends_refl|]. split; [exact Hg|]. intros th _ b [].
    - destruct (lookup k s) eqn:El; [discriminate|].
      destruct (groundb (subst (asfun s) t)) eqn:Egy; [|discriminate].
      assert (Ha : In a (ap_assocs P)) by (apply (Hin (a, t)); now left).
      assert (Step : forall val, ground val -> H P (aAlias a (subst (asfun s) t) val) ->
                bind_nested nv (S k) r ((k, val) :: s) = Some s' ->
                extends s s' /\ ground_vals s' /\
                forall th, agree th s' -> forall b, In b (aAlias a t (TVar k) :: nested_atoms (S k) r) -> H P (subst th b)).
      { intros val Gv Hal Hb'.
        assert (Hg' : ground_vals ((k, val) :: s)).
        { intros i u Hi. cbn [lookup] in Hi. destruct (Nat.eqb i k); [inversion Hi; now subst|eapply Hg; eauto]. }
        assert (Hex : extends s ((k, val) :: s)).
        { intros i u Hi. cbn [lookup]. destruct (Nat.eqb i k) eqn:Ek; [|exact Hi].
          apply Nat.eqb_eq in Ek. subst. congruence. }
        destruct (IH (S k) _ _ Hb') as [E1 [G1 A1]]; [intros p Hp; apply Hin; now right|exact Hg'|].
        split; [eapply extends_trans; eauto|]. split; [exact G1|].
        intros th Hag b [<-|Hb0]; [|now apply A1].
        assert (Hs : agree th s) by (eapply agree_extends; [|exact Hag]; eapply extends_trans; eauto).
        unfold aAlias. cbn. rewrite (subst_ground_agree t s th Egy Hs).
        replace (th k) with val; [exact Hal|]. symmetry. apply Hag. apply E1. cbn [lookup]. now rewrite Nat.eqb_refl. }
      destruct (nv a (subst (asfun s) t)) as [[v|]|] eqn:En; [| |discriminate].
      + apply (Step v); [|apply aliaseq_spec; [exact Ha|exact Egy|left; now apply Hnv]|exact Hb].
        pose proof (H_ground _ _ (Hnv _ _ _ En)) as Gn. unfold ground, aNorm in Gn. cbn in Gn.
        apply andb_true_iff in Gn. tauto.
      + apply (Step (tPh a (subst (asfun s) t))); [|apply aliaseq_spec; [exact Ha|exact Egy|now right]|exact Hb].
        unfold ground, tPh. cbn. now rewrite Egy.
  Qed.

  (** THEOREM (norm_value_sound): the value computed by the model is a solution. *)
  Theorem norm_value_sound : forall fuel a X v,
    norm_value fuel fe P a X = Some (Some v) -> H P (aNorm a X v).
  Proof.
    induction fuel as [|f IH]; intros a X v Hv; cbn [norm_value] in Hv; [discriminate|].
    destruct (negb (groundb X)) eqn:Egx; [discriminate|]. apply negb_false_iff in Egx.
    set (ev := map (fun c => (wcs_hold fe P (snd c) (ai_wcs (fst (fst c))), c)) (matches P a X)) in *.
    destruct (existsb (fun e => is_none (fst e)) ev); [discriminate|].
    destruct (filter (fun e => is_true (fst e)) ev) as [|[o [[i av] s]] [|e2 r]] eqn:Ef; try discriminate.
    assert (Hin : In (o, (i, av, s)) (filter (fun e => is_true (fst e)) ev)) by (rewrite Ef; now left).
    apply filter_In in Hin. destruct Hin as [Hin Ho]. cbn [fst] in Ho.
    unfold ev in Hin. apply in_map_iff in Hin. destruct Hin as [c [Ec Hc]]. inversion Ec; subst c o. clear Ec.
    cbn [fst snd] in *. apply in_matches in Hc. destruct Hc as [Hi [Hav [Ha Hm]]].
    destruct (forallb (fun p => memN (fst p) (ap_assocs P)) (av_nested av)) eqn:Eas; [|discriminate].
    destruct (bind_nested (norm_value f fe P) (ai_n i) (av_nested av) s) as [s'|] eqn:Eb; [|discriminate].
    destruct (groundb (subst (asfun s') (av_ty av))) eqn:Egu; [|discriminate]. inversion Hv; subst v. clear Hv.
    destruct (mtch_sound _ _ _ _ Hm) as [_ [Ym _]].
    assert (Gs : ground_vals s).
    { eapply mtch_ground; eauto. intros k t Hk. discriminate Hk. }
    destruct (bind_nested_sound (norm_value f fe P) (IH) _ _ _ _ Eb) as [E1 [G1 A1]].
    { intros p Hp. rewrite forallb_forall in Eas. apply memN_In. now apply Eas. }
    { exact Gs. }
    apply normalize_spec. exists i, av, (gfun s'). split; [exact Hi|]. split; [exact Hav|]. split; [exact Ha|].
    split; [now apply gfun_ground|].
    assert (Hag' : agree (gfun s') s') by apply agree_gfun.
    assert (Hag : agree (gfun s') s) by (eapply agree_extends; eauto).
    split; [now apply Ym|]. split; [now apply subst_ground_agree|]. split.
    - intros w Hw. destruct (wcs_hold fe P s (ai_wcs i)) as [[|]|] eqn:Ew; try discriminate.
      apply (wc_holds_true s); [|exact Hag]. apply (and_all_true _ Ew). now apply in_map.
    - intros b Hb. now apply A1.
  Qed.

  (** THEOREM (norm_value_none): when the model says that no impl applies, the Normalize goal
      has no solution at all. *)
  Theorem norm_value_none : forall fuel a X,
    norm_value fuel fe P a X = Some None -> forall U, ~ H P (aNorm a X U).
  Proof.
    intros [|f] a X Hv U Hh; cbn [norm_value] in Hv; [discriminate|].
    destruct (negb (groundb X)); [discriminate|].
    set (ev := map (fun c => (wcs_hold fe P (snd c) (ai_wcs (fst (fst c))), c)) (matches P a X)) in *.
    destruct (existsb (fun e => is_none (fst e)) ev) eqn:En; [discriminate|].
    destruct (filter (fun e => is_true (fst e)) ev) as [|[o [[i0 av0] s0]] [|e2 r]] eqn:Ef.
    2:{ destruct (forallb _ (av_nested av0)); [|discriminate].
        destruct (bind_nested _ _ _ _); [|discriminate]. destruct (groundb _); discriminate. }
    2:{ discriminate. }
    apply normalize_spec in Hh. destruct Hh as [i [v [th [Hi [Hav [Ha [Hg [Hs [_ [Hw _]]]]]]]]]].
    destruct (mtch_complete (ai_self i) X [] th) as [s [Em As]]; [intros k t Hk; discriminate Hk|exact Hs|].
    assert (Hc : In (i, v, s) (matches P a X)) by (apply in_matches; auto).
    set (o := wcs_hold fe P s (ai_wcs i)).
    assert (Hev : In (o, (i, v, s)) ev).
    { unfold ev. apply in_map_iff. exists (i, v, s). split; [reflexivity|exact Hc]. }
    destruct o as [[|]|] eqn:Eo.
    - assert (In (Some true, (i, v, s)) (filter (fun e => is_true (fst e)) ev)) by (apply filter_In; split; [exact Hev|reflexivity]).
      rewrite Ef in H0. destruct H0.
    - destruct (and_all_false _ Eo) as [x [Hx Ex]]. apply in_map_iff in Hx. destruct Hx as [w [Ew Hw']].
      rewrite Ex in Ew. apply (wc_holds_false s w th Ew As). now apply Hw.
    - assert (existsb (fun e => is_none (fst e)) ev = true); [|congruence].
      apply existsb_exists. exists (None, (i, v, s)). split; [exact Hev|reflexivity].
  Qed.
End Sound.

(** ** Priorities: why the recursive solver reports the normalized value

    The clauses admit the placeholder form as a second solution of every [AliasEq] goal
    ([aliaseq_spec]); the recursive solver combines the answers of the clauses with
    [with_priorities] ([chalk-recursive/src/combine.rs], modelled in [Agg.Solution]): the
    answer of the high-priority clause (AliasEq-Normalize) overrides the one of the
    low-priority fallback (AliasEq-Placeholder) whenever both are for the same inputs. *)

From Chalk Require Agg.Solution.

Theorem with_priorities_prefers_high : forall dg hi lo ins,
  Agg.Solution.calculate_inputs dg hi = Ir.Syntax.Ok ins ->
  Agg.Solution.calculate_inputs dg lo = Ir.Syntax.Ok ins ->
  Agg.Solution.with_priorities dg hi Ir.Syntax.High lo Ir.Syntax.Low = Ir.Syntax.Ok (hi, Ir.Syntax.High) /\
  Agg.Solution.with_priorities dg lo Ir.Syntax.Low hi Ir.Syntax.High = Ir.Syntax.Ok (hi, Ir.Syntax.High).
Proof.
  intros dg hi lo ins Hh Hl. unfold Agg.Solution.with_priorities, Agg.Solution.prefer.
  rewrite Hh, Hl. cbn [Ir.Syntax.rbind].
  assert (E : Agg.Solution.tms_eqb ins ins = true) by (now apply Agg.Solution.tms_eqb_eq).
  rewrite E. split; reflexivity.
Qed.

(** ** Examples (computation): non-vacuity and the nested-projection phenomenon *)

Module AssocExamples.
  (* ADTs: 0 = Foo, 1 = Bar, 2 = Baz, 3 = Vec<_>;  traits: 1000 = Iterator { type Item (0) }, 1001 = Tr2 { type B (1) }
     impl<T> Iterator for Vec<T> { type Item = T; }        impl Iterator for Foo { type Item = Bar; }
     impl Tr2 for Bar { type B = <Vec<Foo> as Iterator>::Item; }
     impl<T> Tr2 for Vec<T> where T: Iterator { type B = <T as Iterator>::Item; } *)
  Definition Foo := tapp 0 []. Definition Bar := tapp 1 []. Definition Baz := tapp 2 [].
  Definition Vec t := tapp 3 [t].
  Definition P := mkAprog [0%N; 1%N]
    [ mkAimpl 1000 1 (Vec (TVar 0)) [] [mkAval 0 [] (TVar 0)];
      mkAimpl 1000 0 Foo [] [mkAval 0 [] Bar];
      mkAimpl 1001 0 Bar [] [mkAval 1 [(0%N, Vec Foo)] (TVar 0)];
      mkAimpl 1001 1 (Vec (TVar 0)) [aImpl 1000 (TVar 0)] [mkAval 1 [(0%N, TVar 0)] (TVar 1)] ].

  Example rrP : rr (assoc_clauses P).
  Proof. apply rr_allb_spec. reflexivity. Qed.

  Example values :
    norm_value 10 50 P 0 Foo = Some (Some Bar) /\
    norm_value 10 50 P 0 (Vec Foo) = Some (Some Foo) /\
    norm_value 10 50 P 0 Baz = Some None /\
    norm_value 10 50 P 1 Bar = Some (Some Foo) /\
    norm_value 10 50 P 1 (Vec (Vec Baz)) = Some (Some Baz) /\
    norm_value 10 50 P 1 (Vec Baz) = Some None /\
    norm_value 10 50 P 0 (Vec (TPh 0)) = Some (Some (TPh 0)).
  Proof. repeat split; vm_compute; reflexivity. Qed.

  Example normalize_spec_nonvacuous : normalizes P 1 Bar Foo.
  Proof. apply normalize_spec. apply (norm_value_sound P 50 rrP 10). vm_compute. reflexivity. Qed.

  (** With a nested projection the clauses have TWO solutions: the normalized value and the
      one using the placeholder form of the inner projection (SLG answers Ambiguous, the
      recursive solver prefers the first). *)
  Example nested_two_solutions :
    H P (aNorm 1 Bar Foo) /\ H P (aNorm 1 Bar (tPh 0 (Vec Foo))) /\ ~ H P (aNorm 1 Bar Baz).
  Proof.
    split; [|split].
    - apply (eval_atom_correct 50 (assoc_clauses P) [] _ true rrP); [vm_compute|]; reflexivity.
    - apply (eval_atom_correct 50 (assoc_clauses P) [] _ true rrP); [vm_compute|]; reflexivity.
    - intro Hh. apply (eval_atom_correct 50 (assoc_clauses P) [] _ false rrP) in Hh; [discriminate|vm_compute; reflexivity].
  Qed.

  Example aliaseq_examples :
    H P (aAlias 0 Foo Bar) /\ H P (aAlias 0 Foo (tPh 0 Foo)) /\ ~ H P (aAlias 0 Foo Baz) /\
    H P (aAlias 0 Baz (tPh 0 Baz)).
  Proof.
    repeat split; try (apply (eval_atom_correct 50 (assoc_clauses P) [] _ true rrP); [vm_compute|]; reflexivity).
    intro Hh. apply (eval_atom_correct 50 (assoc_clauses P) [] _ false rrP) in Hh; [discriminate|vm_compute; reflexivity].
  Qed.

  Example coherent_flat_nonvacuous :
    let Q := mkAprog [0%N] [mkAimpl 1000 1 (Vec (TVar 0)) [] [mkAval 0 [] (TVar 0)]; mkAimpl 1000 0 Foo [] [mkAval 0 [] Bar]] in
    coherent Q /\ assoc_trait_ok Q (fun _ => 1000%N) /\ flat Q.
  Proof.
    cbv zeta. split; [split|split].
    - intros i j th1 th2 [<-|[<-|[]]] [<-|[<-|[]]] _ E; try reflexivity; cbn in E; discriminate E.
    - intros i v w [<-|[<-|[]]] [<-|[]] [<-|[]] _; reflexivity.
    - intros i v [<-|[<-|[]]] [<-|[]]; reflexivity.
    - intros i v [<-|[<-|[]]] [<-|[]]; (split; [reflexivity|]); intros k Hk; cbn in *; auto; discriminate.
  Qed.
End AssocExamples.

(** ** Interface of the check *)

(** [X: Tr<A = Y>]  =  Implemented(X: Tr), AliasEq(<X as Tr>::A = Y) *)
Definition accepts (fe : nat) (P : aprog) (tr a : N) (X Y : ty) : option bool :=
  and3 (eval_atom fe (assoc_clauses P) [] (aImpl tr X)) (eval_atom fe (assoc_clauses P) [] (aAlias a X Y)).

Definition oty_eqb (x y : option (option ty)) : bool :=
  match x, y with
  | Some (Some a), Some (Some b) => ty_eqb a b
  | Some None, Some None => true
  | None, None => true
  | _, _ => false
  end.
