(** * Rules.Builtin — the built-in traits Sized, Copy, Clone, Tuple, FnPtr (property C08).

    Model (R) of chalk-solve/src/clauses/builtin_traits.rs [add_builtin_program_clauses]
    (dispatch on the well-known trait), builtin_traits/{sized,copy,clone,tuple}.rs,
    [last_field_of_struct] and [needs_impl_for_tys], as a clause generator in the sense of
    Rules/Types.v; the full program of a set of declarations ([full_gen]: explicit impls,
    auto-trait clauses, built-in clauses — what [program_clauses_that_could_match] pushes
    for an [Implemented] goal on a concrete type); for each of the five traits an
    independently written *inductive* rule system over types and the program's explicit
    impls ([sized], [copy], [clone], [tuple], [fnptr]); and the theorems that the meaning of
    the generated clauses is that rule system ([sized_spec] ... [fnptr_spec]), including the
    on-demand completeness statements ([sized_clauses_spec] ...: the clauses generated for
    the asked type are exactly the instances of the structural rules for that type).

    The Floundered outcomes of the Rust functions concern non-ground self types (general
    inference variables) and are outside the closed goals of the property. *)

From Chalk Require Export Rules.Auto.
Local Open Scope N_scope.

(** ** The model of the Rust functions *)

Fixpoint last_opt {A : Type} (l : list A) : option A :=
  match l with
  | [] => None
  | [x] => Some x
  | _ :: r => last_opt r
  end.

Definition opt_list {A : Type} (o : option A) : list A :=
  match o with Some x => [x] | None => [] end.

(** builtin_traits.rs [last_field_of_struct] (before the substitution). *)
Definition last_field_of_struct (d : adt) : option ty :=
  if a_struct d then
    match last_opt (a_variants d) with
    | Some v => last_opt v
    | None => None
    end
  else None.

(** builtin_traits.rs [needs_impl_for_tys]. *)
Definition needs_impl_for_tys (tr : N) (t : ty) (tys : list ty) : list clause :=
  [mkClause (atom tr t) (map (atom tr) tys)].

(** sized.rs [add_sized_program_clauses]. *)
Definition sized_clauses (D : decls) (tr : N) (t : ty) : list clause :=
  match view t with
  | VAdt id args =>
      match find_adt (d_adts D) id with
      | Some d => if Nat.eqb (length args) (a_np d)
                  then needs_impl_for_tys tr t (map (subst (listth args)) (opt_list (last_field_of_struct d)))
                  else []
      | None => []
      end
  | VTuple args =>
      match last_opt args with
      | None => [mkClause (atom tr t) []]                 (* the empty tuple *)
      | Some l => needs_impl_for_tys tr t [l]
      end
  | VArray _ _ | VNever | VScalar _ | VRaw _ _ | VRef _ _ | VFnPtr _ => [mkClause (atom tr t) []]
  | VSlice _ | VStr | VForeign _ => []
  | VPlaceholder _ | VDyn _ => []
  | VOther => []
  end.

(** copy.rs [add_copy_program_clauses] (also used for Clone by clone.rs). *)
Definition copy_clauses (tr : N) (t : ty) : list clause :=
  match view t with
  | VTuple args => needs_impl_for_tys tr t args           (* arity 0: a fact *)
  | VArray e _ => needs_impl_for_tys tr t [e]
  | VFnPtr _ => [mkClause (atom tr t) []]
  | _ => []                                               (* "these impls are in libcore", ADTs, ... *)
  end.

(** tuple.rs [add_tuple_program_clauses]. *)
Definition tuple_clauses (tr : N) (t : ty) : list clause :=
  match view t with VTuple _ => [mkClause (atom tr t) []] | _ => [] end.

(** builtin_traits.rs, arm [WellKnownTrait::FnPtr]. *)
Definition fnptr_clauses (tr : N) (t : ty) : list clause :=
  match view t with VFnPtr _ => [mkClause (atom tr t) []] | _ => [] end.

(** builtin_traits.rs [add_builtin_program_clauses]. *)
Definition add_builtin_program_clauses (D : decls) (w : wk) (tr : N) (t : ty) : list clause :=
  match w with
  | WSized => sized_clauses D tr t
  | WCopy => copy_clauses tr t
  | WClone => copy_clauses tr t
  | WTuple => tuple_clauses tr t
  | WFnPtr => fnptr_clauses tr t
  end.

Definition builtin_gen (D : decls) : generator :=
  fun a => match a with
           | TAp (TCon tr) t => match wk_of D tr with
                                | Some w => add_builtin_program_clauses D w tr t
                                | None => []
                                end
           | _ => []
           end.

(** Everything [program_clauses_that_could_match] adds to the explicit impls. *)
Definition full_gen (D : decls) : generator := gen_with D (builtin_gen D).

(** The meaning of a set of declarations, and its verified evaluator. *)
Definition holdsR (D : decls) (a : ty) : Prop := holdsD D (full_gen D) a.
Definition bodsR (D : decls) (a : ty) : list (list ty) := bodsD D (full_gen D) a.
Definition evalR (fuel : nat) (D : decls) (a : ty) : option bool := eval_rules D (full_gen D) fuel a.

(** ** The rule systems, written independently of the functions above *)

Definition last_of {A : Type} (l : list A) (x : A) : Prop := exists r, l = r ++ [x].

(** Structural rules: [sr t ts] = "t has the property if all of ts have it". *)
Inductive sized_sr (D : decls) : ty -> list ty -> Prop :=
| sz_struct_last : forall d args f,           (* a struct with fields: its last field *)
    find_adt (d_adts D) (a_id d) = Some d -> (a_id d <? adt_limit) = true -> length args = a_np d ->
    a_struct d = true -> last_of (concat (a_variants d)) f ->
    sized_sr D (tAdt (a_id d) args) [subst (listth args) f]
| sz_struct_empty : forall d args,            (* a struct without fields *)
    find_adt (d_adts D) (a_id d) = Some d -> (a_id d <? adt_limit) = true -> length args = a_np d ->
    a_struct d = true -> concat (a_variants d) = [] ->
    sized_sr D (tAdt (a_id d) args) []
| sz_enum : forall d args,                    (* enums and unions *)
    find_adt (d_adts D) (a_id d) = Some d -> (a_id d <? adt_limit) = true -> length args = a_np d ->
    a_struct d = false ->
    sized_sr D (tAdt (a_id d) args) []
| sz_unit : sized_sr D (tTuple []) []
| sz_tuple : forall args l, last_of args l -> sized_sr D (tTuple args) [l]
| sz_array : forall t n, sized_sr D (tArray t n) []
| sz_never : sized_sr D tNever []
| sz_scalar : forall k, sized_sr D (tScalar k) []
| sz_raw : forall m t, sized_sr D (tRaw m t) []
| sz_ref : forall m t, sized_sr D (tRef m t) []
| sz_fnptr : forall args, sized_sr D (tFnPtr args) [].
(* no rule for slices, str, trait objects, extern types, placeholders *)

Inductive copy_sr : ty -> list ty -> Prop :=
| cp_tuple : forall args, copy_sr (tTuple args) args          (* all elements *)
| cp_array : forall t n, copy_sr (tArray t n) [t]
| cp_fnptr : forall args, copy_sr (tFnPtr args) [].

Inductive tuple_sr : ty -> list ty -> Prop :=
| tp_tuple : forall args, tuple_sr (tTuple args) [].

Inductive fnptr_sr : ty -> list ty -> Prop :=
| fp_fnptr : forall args, fnptr_sr (tFnPtr args) [].

(** The rule system of a trait [tr]: an explicit positive impl applies — its where-clauses
    on [tr] itself are judged by the rule system, all others by the meaning of the
    program — or a structural rule applies. *)
Section RuleSys.
  Variable D : decls.
  Variable SR : ty -> list ty -> Prop.
  Variable tr : N.

  Inductive rule_sys : ty -> Prop :=
  | rs_impl : forall i th t,
      In i (d_impls D) -> i_pos i = true -> (forall k, ground (th k)) ->
      subst th (i_head i) = atom tr t ->
      (forall w t', In w (i_wcs i) -> subst th w = atom tr t' -> rule_sys t') ->
      (forall w, In w (i_wcs i) -> (forall t', subst th w <> atom tr t') -> holdsR D (subst th w)) ->
      rule_sys t
  | rs_struct : forall t ts,
      ground t -> SR t ts -> (forall u, In u ts -> rule_sys u) -> rule_sys t.
End RuleSys.

Definition sized (D : decls) (tr : N) : ty -> Prop := rule_sys D (sized_sr D) tr.
Definition copy (D : decls) (tr : N) : ty -> Prop := rule_sys D copy_sr tr.
Definition clone (D : decls) (tr : N) : ty -> Prop := rule_sys D copy_sr tr.   (* same structural rules *)
Definition tuple (D : decls) (tr : N) : ty -> Prop := rule_sys D tuple_sr tr.
Definition fnptr (D : decls) (tr : N) : ty -> Prop := rule_sys D fnptr_sr tr.

(** ** Generated clauses = instances of the structural rules (on-demand completeness) *)

Definition matches_sr (cls : list clause) (SR : ty -> list ty -> Prop) (tr : N) (t : ty) : Prop :=
  forall c, In c cls <-> exists ts, SR t ts /\ c = mkClause (atom tr t) (map (atom tr) ts).

Lemma last_opt_spec : forall (A : Type) (l : list A) x, last_opt l = Some x <-> last_of l x.
Proof.
  intros A l x. unfold last_of. split.
  - revert x. induction l as [|y r IH]; intros x H; cbn [last_opt] in H; [discriminate|].
    destruct r as [|z r'].
    + inversion H; subst. now exists [].
    + destruct (IH x H) as [q E]. exists (y :: q). now rewrite E.
  - intros [r ->]. induction r as [|y q IH]; [reflexivity|].
    cbn [app last_opt]. destruct (q ++ [x]) eqn:E; [now destruct q|exact IH].
Qed.

Lemma last_opt_none : forall (A : Type) (l : list A), last_opt l = None <-> l = [].
Proof.
  intros A l. split; [|now intros ->].
  induction l as [|y r IH]; intro H; [reflexivity|]. cbn [last_opt] in H.
  destruct r; [discriminate|]. specialize (IH H). discriminate.
Qed.

(** Structs have exactly one variant (true of every lowered chalk program; part of the
    well-formedness the generator checks). *)
Definition struct_one_variant (d : adt) : bool :=
  negb (a_struct d) || Nat.eqb (length (a_variants d)) 1.

Definition structs_ok (D : decls) : Prop := forall d, In d (d_adts D) -> struct_one_variant d = true.

Lemma struct_fields : forall d, struct_one_variant d = true -> a_struct d = true ->
  exists v, a_variants d = [v] /\ concat (a_variants d) = v.
Proof.
  intros d H Hs. unfold struct_one_variant in H. rewrite Hs in H. cbn [negb orb] in H.
  apply Nat.eqb_eq in H. destruct (a_variants d) as [|v [|w r]]; try discriminate.
  exists v. split; [reflexivity|]. cbn [concat]. apply app_nil_r.
Qed.

Theorem sized_clauses_spec : forall D tr t, structs_ok D ->
  matches_sr (sized_clauses D tr t) (sized_sr D) tr t.
Proof.
  intros D tr t Hso c. unfold sized_clauses, needs_impl_for_tys. split.
  - destruct (view t) eqn:Ev; try solve [intros []]; view_inv Ev.
    + destruct (find_adt (d_adts D) id) as [d|] eqn:Ef; [|intros []].
      pose proof (find_adt_id _ _ _ Ef) as Eid. subst id.
      destruct (Nat.eqb (length args) (a_np d)) eqn:El; [|intros []]. apply Nat.eqb_eq in El.
      intros [<-|[]]. unfold last_field_of_struct. destruct (a_struct d) eqn:Es.
      * destruct (struct_fields d (Hso d (find_adt_In _ _ _ Ef)) Es) as [v [Evs Ec]]. rewrite Evs. cbn [last_opt].
        destruct (last_opt v) as [f|] eqn:Elv.
        -- exists [subst (listth args) f]. split; [|reflexivity]. apply sz_struct_last; auto.
           rewrite Ec. now apply last_opt_spec.
        -- exists []. split; [|reflexivity]. apply sz_struct_empty; auto. rewrite Ec. now apply last_opt_none.
      * exists []. split; [|reflexivity]. now apply sz_enum.
    + intros [<-|[]]. exists []. split; [apply sz_scalar|reflexivity].
    + intros [<-|[]]. exists []. split; [apply sz_never|reflexivity].
    + destruct (last_opt args) as [l|] eqn:El.
      * intros [<-|[]]. exists [l]. split; [|reflexivity]. apply sz_tuple. now apply last_opt_spec.
      * intros [<-|[]]. apply last_opt_none in El. subst args. exists []. split; [apply sz_unit|reflexivity].
    + intros [<-|[]]. exists []. split; [apply sz_array|reflexivity].
    + intros [<-|[]]. exists []. split; [apply sz_ref|reflexivity].
    + intros [<-|[]]. exists []. split; [apply sz_raw|reflexivity].
    + intros [<-|[]]. exists []. split; [apply sz_fnptr|reflexivity].
  - intros [ts [Hsr ->]].
    inversion Hsr; subst;
      rewrite ?view_adt, ?view_scalar, ?view_never, ?view_tuple, ?view_array,
              ?view_ref, ?view_raw, ?view_fnptr by assumption.
    + rewrite H, (proj2 (Nat.eqb_eq _ _) H1). unfold last_field_of_struct. rewrite H2.
      destruct (struct_fields d (Hso d (find_adt_In _ _ _ H)) H2) as [v [Evs Ec]]. rewrite Evs. cbn [last_opt].
      rewrite Ec in H3. apply last_opt_spec in H3. rewrite H3. now left.
    + rewrite H, (proj2 (Nat.eqb_eq _ _) H1). unfold last_field_of_struct. rewrite H2.
      destruct (struct_fields d (Hso d (find_adt_In _ _ _ H)) H2) as [v [Evs Ec]]. rewrite Evs. cbn [last_opt].
      rewrite Ec in H3. subst v. now left.
    + rewrite H, (proj2 (Nat.eqb_eq _ _) H1). unfold last_field_of_struct. rewrite H2. now left.
    + now left.
    + apply last_opt_spec in H. rewrite H. now left.
    + now left.
    + now left.
    + now left.
    + now left.
    + now left.
    + now left.
Qed.

Theorem copy_clauses_spec : forall tr t, matches_sr (copy_clauses tr t) copy_sr tr t.
Proof.
  intros tr t c. unfold copy_clauses, needs_impl_for_tys. split.
  - destruct (view t) eqn:Ev; try solve [intros []]; view_inv Ev.
    + intros [<-|[]]. exists args. split; [apply cp_tuple|reflexivity].
    + intros [<-|[]]. exists [t0]. split; [apply cp_array|reflexivity].
    + intros [<-|[]]. exists []. split; [apply cp_fnptr|reflexivity].
  - intros [ts [Hsr ->]]. inversion Hsr; subst; rewrite ?view_tuple, ?view_array, ?view_fnptr; now left.
Qed.

Theorem tuple_clauses_spec : forall tr t, matches_sr (tuple_clauses tr t) tuple_sr tr t.
Proof.
  intros tr t c. unfold tuple_clauses. split.
  - destruct (view t) eqn:Ev; try solve [intros []]; view_inv Ev.
    intros [<-|[]]. exists []. split; [apply tp_tuple|reflexivity].
  - intros [ts [Hsr ->]]. inversion Hsr; subst; rewrite ?view_tuple; now left.
Qed.

Theorem fnptr_clauses_spec : forall tr t, matches_sr (fnptr_clauses tr t) fnptr_sr tr t.
Proof.
  intros tr t c. unfold fnptr_clauses. split.
  - destruct (view t) eqn:Ev; try solve [intros []]; view_inv Ev.
    intros [<-|[]]. exists []. split; [apply fp_fnptr|reflexivity].
  - intros [ts [Hsr ->]]. inversion Hsr; subst; rewrite ?view_fnptr; now left.
Qed.

(** ** Groundness of what is generated *)

Lemma last_of_In : forall (A : Type) (l : list A) x, last_of l x -> In x l.
Proof. intros A l x [r ->]. apply in_or_app. right. now left. Qed.

Lemma sized_sr_ground : forall D t ts, adts_closed D -> ground t -> sized_sr D t ts ->
  forall u, In u ts -> ground u.
Proof.
  intros D t ts Hwf Gt Hs.
  assert (Hargs : forall c' args', t = tapp c' args' -> forall x, In x args' -> ground x).
  { intros c' args' E. subst t. apply (proj1 (ground_tapp c' args')). exact Gt. }
  inversion Hs; subst; intros u Hu; try (destruct Hu; fail).
  - destruct Hu as [<-|[]]. apply (subst_args_ground args f (a_np d)); [assumption| |].
    + now apply (Hargs _ _ eq_refl).
    + intros i Hi. eapply adt_closed_spec; eauto.
      * apply Hwf. eapply find_adt_In; eauto.
      * now apply last_of_In.
  - destruct Hu as [<-|[]]. apply (Hargs _ _ eq_refl). now apply last_of_In.
Qed.

Lemma copy_sr_ground : forall t ts, ground t -> copy_sr t ts -> forall u, In u ts -> ground u.
Proof.
  intros t ts Gt Hs. inversion Hs; subst; intros u Hu.
  - apply (proj1 (ground_tapp _ _) Gt). exact Hu.
  - destruct Hu as [<-|[]]. apply (proj1 (ground_tapp _ _) Gt). now left.
  - destruct Hu.
Qed.

Lemma matches_sr_ok : forall cls SR tr t,
  matches_sr cls SR tr t -> (forall ts, SR t ts -> forall u, In u ts -> ground u) ->
  forall c, In c cls -> chead c = atom tr t /\ forall b, In b (cbody c) -> ground b.
Proof.
  intros cls SR tr t Hm Hg c Hc. apply Hm in Hc. destruct Hc as [ts [Hs ->]]. cbn [chead cbody].
  split; [reflexivity|]. intros b Hb. apply in_map_iff in Hb. destruct Hb as [u [<- Hu]].
  apply ground_atom. eapply Hg; eauto.
Qed.

Lemma builtin_gen_ok : forall D, adts_closed D -> structs_ok D -> gen_ok (builtin_gen D).
Proof.
  intros D Hwf Hso a c Ga Hc. unfold builtin_gen in Hc. destruct a as [|f t| |]; try destruct Hc.
  destruct f as [tr| | |]; try destruct Hc. destruct (wk_of D tr) as [w|]; [|destruct Hc].
  assert (Gt : ground t) by (apply (proj1 (ground_atom tr t)); exact Ga).
  destruct w; cbn [add_builtin_program_clauses] in Hc.
  - apply (matches_sr_ok _ _ tr t (sized_clauses_spec D tr t Hso)); [|exact Hc].
    intros ts Hs. now apply (sized_sr_ground D t ts).
  - apply (matches_sr_ok _ _ tr t (copy_clauses_spec tr t)); [|exact Hc]. intros ts Hs. now apply (copy_sr_ground t ts).
  - apply (matches_sr_ok _ _ tr t (copy_clauses_spec tr t)); [|exact Hc]. intros ts Hs. now apply (copy_sr_ground t ts).
  - apply (matches_sr_ok _ _ tr t (tuple_clauses_spec tr t)); [|exact Hc]. intros ts Hs. inversion Hs; subst. intros u [].
  - apply (matches_sr_ok _ _ tr t (fnptr_clauses_spec tr t)); [|exact Hc]. intros ts Hs. inversion Hs; subst. intros u [].
Qed.

(** ** Well-formed declarations (the boolean the check evaluates on every program) *)

Definition wf_full (D : decls) : bool :=
  wf_decls D && forallb struct_one_variant (d_adts D).

Record wfD (D : decls) : Prop := {
  wf_adts : adts_closed D;
  wf_structs : structs_ok D;
  wf_rr : rr (impl_clauses D);
  wf_auto_wk : forall A, is_auto D A = true -> wk_of D A = None
}.

Lemma wf_full_spec : forall D, wf_full D = true -> wfD D.
Proof.
  intros D H. unfold wf_full, wf_decls in H. repeat (apply andb_true_iff in H; destruct H as [H ?]).
  rewrite forallb_forall in *. constructor.
  - intros d Hd. now apply H.
  - intros d Hd. auto.
  - now apply rr_allb_spec.
  - intros A HA. unfold is_auto in HA. destruct (find_trait (d_traits D) A) as [t|] eqn:Ef; [|discriminate].
    destruct (find_trait_In _ _ _ Ef) as [Hin Hid]. specialize (H1 t Hin). rewrite Hid in H1.
    unfold is_auto in H1. rewrite Ef, HA in H1. cbn [negb orb] in H1. now destruct (wk_of D A).
Qed.

Section Full.
  Variable D : decls.
  Hypothesis Hwf : wfD D.

  Lemma builtin_not_auto : forall A t, is_auto D A = true -> builtin_gen D (atom A t) = [].
  Proof. intros A t HA. unfold builtin_gen, atom. now rewrite (wf_auto_wk D Hwf A HA). Qed.

  Lemma full_gen_ok : gen_ok (full_gen D).
  Proof.
    apply gen_with_ok; [apply (wf_adts D Hwf)|]. apply builtin_gen_ok; [apply (wf_adts D Hwf)|apply (wf_structs D Hwf)].
  Qed.

  (** The verified oracle for closed goals [T: Tr] of every kind of trait. *)
  Theorem evalR_correct : forall fuel a b, evalR fuel D a = Some b -> (b = true <-> holdsR D a).
  Proof. intros fuel a b. apply eval_rules_correct; [apply full_gen_ok|apply (wf_rr D Hwf)]. Qed.

  (** *** C05: the auto-trait theorem for the full program *)
  Theorem auto_spec_full : forall A t, is_auto D A = true -> ground t ->
    (holdsR D (atom A t) <-> auto_spec D (builtin_gen D) A t).
  Proof.
    intros A t. apply auto_clauses_spec.
    - apply (wf_adts D Hwf).
    - apply builtin_gen_ok; [apply (wf_adts D Hwf)|apply (wf_structs D Hwf)].
    - apply builtin_not_auto.
  Qed.

  Theorem auto_unfold_full : forall A t, is_auto D A = true -> ground t ->
    (holdsR D (atom A t) <-> auto_rule D (holdsR D) (atom A t)).
  Proof.
    intros A t. apply auto_unfold.
    - apply (wf_adts D Hwf).
    - apply builtin_gen_ok; [apply (wf_adts D Hwf)|apply (wf_structs D Hwf)].
    - apply builtin_not_auto.
  Qed.

  (** *** C05: any coinductive atom ([#[coinductive]] or [#[auto]] trait, any arity) holds iff
      it belongs to a set of coinductive atoms each of which is justified by one clause whose
      body atoms are in the set or hold (greatest fixed point; cycles count as satisfied). *)
  Theorem coinductive_spec : forall a, isco (coD D) a = true ->
    (holdsR D a <-> exists X : ty -> Prop,
        (forall x, X x -> isco (coD D) x = true /\ one_step D (full_gen D) (fun b => X b \/ holdsR D b) x) /\ X a).
  Proof.
    intros a Ha. apply (co_class_spec D (full_gen D) (fun x => isco (coD D) x = true)); auto.
  Qed.

  (** *** C08: a trait with built-in structural rules [SR] *)
  Section OneTrait.
    Variable tr : N.
    Variable SR : ty -> list ty -> Prop.
    Hypothesis Hco : is_co D tr = false.
    Hypothesis Hgen : forall t, ground t -> matches_sr (full_gen D (atom tr t)) SR tr t.

    Definition dest_atom (a : ty) : option ty :=
      match a with
      | TAp (TCon c) t => if c =? tr then Some t else None
      | _ => None
      end.

    Lemma dest_atom_some : forall a t, dest_atom a = Some t <-> a = atom tr t.
    Proof.
      intros a t. unfold dest_atom, atom. split.
      - destruct a as [|f x| |]; try discriminate. destruct f as [c| | |]; try discriminate.
        destruct (c =? tr) eqn:E; [|discriminate]. apply N.eqb_eq in E. intro H. inversion H; now subst.
      - intros ->. now rewrite N.eqb_refl.
    Qed.

    Lemma dest_atom_none : forall a, dest_atom a = None -> forall t, a <> atom tr t.
    Proof. intros a H t E. apply dest_atom_some in E. congruence. Qed.

    Lemma gen_applies_sr : forall (Y : ty -> Prop) t, ground t ->
      (gen_applies (full_gen D) Y (atom tr t) <-> exists ts, SR t ts /\ forall u, In u ts -> Y (atom tr u)).
    Proof.
      intros Y t Gt. unfold gen_applies. split.
      - intros [c [Hc HY]]. apply (Hgen t Gt) in Hc. destruct Hc as [ts [Hs ->]]. exists ts. split; [exact Hs|].
        intros u Hu. apply HY. cbn [cbody]. now apply in_map.
      - intros [ts [Hs HY]]. exists (mkClause (atom tr t) (map (atom tr) ts)). split.
        + apply (Hgen t Gt). now exists ts.
        + cbn [cbody]. intros b Hb. apply in_map_iff in Hb. destruct Hb as [u [<- Hu]]. now apply HY.
    Qed.

    Theorem rule_sys_spec : forall t, ground t -> (holdsR D (atom tr t) <-> rule_sys D SR tr t).
    Proof.
      intros t Gt. split.
      - set (Q := fun a : ty => exists t', a = atom tr t').
        set (Y := fun a : ty => forall t', a = atom tr t' -> rule_sys D SR tr t').
        assert (HQ : forall a, Q a -> isco (coD D) a = false).
        { intros a [t' ->]. rewrite isco_atom. exact Hco. }
        intro Hh. refine (ind_class_principle D (full_gen D) Q Y HQ _ (atom tr t) _ Hh t eq_refl); [|now exists t].
        clear t Gt Hh. intros a [t ->] Hs t' E. inversion E; subst t'. clear E.
        assert (Ga : ground (atom tr t)).
        { destruct Hs as [bs [Hs _]]. eapply inst_ground; eauto. }
        assert (Gt : ground t) by (apply (proj1 (ground_atom tr t)); exact Ga).
        apply (one_step_split D (full_gen D) full_gen_ok _ _ Ga) in Hs. destruct Hs as [Hs|Hs].
        + destruct Hs as [i [th [Hi [Hp [Hg [Hh HY]]]]]]. apply (rs_impl D SR tr i th t); auto.
          * intros w t' Hw E. destruct (HY w Hw) as [_ Hy]. apply Hy; [now exists t'|exact E].
          * intros w Hw _. now destruct (HY w Hw).
        + apply (gen_applies_sr _ t Gt) in Hs. destruct Hs as [ts [Hsr HY]].
          apply (rs_struct D SR tr t ts Gt Hsr). intros u Hu. destruct (HY u Hu) as [_ Hy].
          apply Hy; [now exists u|reflexivity].
      - clear Gt. intro H. induction H as [i th t Hi Hp Hg Hh _ IH Hother|t ts Gt Hsr _ IH].
        + assert (Ga : ground (atom tr t)).
          { rewrite <- Hh. apply ground_subst. intros k _. apply Hg. }
          apply holdsD_unfold. apply (one_step_split D (full_gen D) full_gen_ok _ _ Ga). left.
          exists i, th. repeat split; auto. intros w Hw.
          destruct (dest_atom (subst th w)) as [t'|] eqn:Ed.
          * apply dest_atom_some in Ed. rewrite Ed. now apply (IH w t').
          * apply Hother; [exact Hw|]. now apply dest_atom_none.
        + assert (Ga : ground (atom tr t)) by now apply ground_atom.
          apply holdsD_unfold. apply (one_step_split D (full_gen D) full_gen_ok _ _ Ga). right.
          apply (gen_applies_sr _ t Gt). exists ts. split; [exact Hsr|exact IH].
    Qed.
  End OneTrait.

  Lemma full_gen_wk : forall tr w t, wk_of D tr = Some w ->
    full_gen D (atom tr t) = add_builtin_program_clauses D w tr t.
  Proof.
    intros tr w t Hw. unfold full_gen, gen_with, auto_gen, builtin_gen, atom. rewrite Hw.
    destruct (is_auto D tr) eqn:HA; [|reflexivity].
    rewrite (wf_auto_wk D Hwf tr HA) in Hw. discriminate.
  Qed.

  Theorem sized_spec : forall tr t, wk_of D tr = Some WSized -> is_co D tr = false -> ground t ->
    (holdsR D (atom tr t) <-> sized D tr t).
  Proof.
    intros tr t Hw Hco Gt. apply rule_sys_spec; auto. intros t' _.
    rewrite (full_gen_wk tr WSized t' Hw). apply sized_clauses_spec. apply (wf_structs D Hwf).
  Qed.

  Theorem copy_spec : forall tr t, wk_of D tr = Some WCopy -> is_co D tr = false -> ground t ->
    (holdsR D (atom tr t) <-> copy D tr t).
  Proof.
    intros tr t Hw Hco Gt. apply rule_sys_spec; auto. intros t' _.
    rewrite (full_gen_wk tr WCopy t' Hw). apply copy_clauses_spec.
  Qed.

  Theorem clone_spec : forall tr t, wk_of D tr = Some WClone -> is_co D tr = false -> ground t ->
    (holdsR D (atom tr t) <-> clone D tr t).
  Proof.
    intros tr t Hw Hco Gt. apply rule_sys_spec; auto. intros t' _.
    rewrite (full_gen_wk tr WClone t' Hw). apply copy_clauses_spec.
  Qed.

  Theorem tuple_spec : forall tr t, wk_of D tr = Some WTuple -> is_co D tr = false -> ground t ->
    (holdsR D (atom tr t) <-> tuple D tr t).
  Proof.
    intros tr t Hw Hco Gt. apply rule_sys_spec; auto. intros t' _.
    rewrite (full_gen_wk tr WTuple t' Hw). apply tuple_clauses_spec.
  Qed.

  Theorem fnptr_spec : forall tr t, wk_of D tr = Some WFnPtr -> is_co D tr = false -> ground t ->
    (holdsR D (atom tr t) <-> fnptr D tr t).
  Proof.
    intros tr t Hw Hco Gt. apply rule_sys_spec; auto. intros t' _.
    rewrite (full_gen_wk tr WFnPtr t' Hw). apply fnptr_clauses_spec.
  Qed.

  (** Slices, [str], trait objects (and extern types) are never Sized by the built-in
      rules: only an explicit impl can make them so. *)
  Corollary unsized_kinds : forall tr t, wk_of D tr = Some WSized -> is_co D tr = false -> ground t ->
    (exists e, t = tSlice e) \/ t = tStr \/ (exists d, t = tDyn d) \/ (exists f, t = tForeign f) ->
    holdsR D (atom tr t) -> impl_applies D (holdsR D) (atom tr t).
  Proof.
    intros tr t Hw Hco Gt Hk Hh. apply holdsD_unfold in Hh.
    apply (one_step_split D (full_gen D) full_gen_ok _ _ (proj2 (ground_atom tr t) Gt)) in Hh.
    destruct Hh as [Hh|[c [Hc _]]]; [exact Hh|]. exfalso.
    rewrite (full_gen_wk tr WSized t Hw) in Hc. cbn [add_builtin_program_clauses] in Hc.
    unfold sized_clauses in Hc.
    destruct Hk as [[e ->]|[->|[[d ->]|[f ->]]]];
      rewrite ?view_slice, ?view_str, ?view_dyn, ?view_foreign in Hc; destruct Hc.
  Qed.
End Full.

(** ** Non-vacuity and sanity (by computation through the verified evaluator) *)

Module RulesExamples.
  (* ADTs: 0 = A { b: B }, 1 = B { a: A }, 2 = N {}, 3 = S { a: u8, b: [u8] }, 4 = W<T> { t: T },
           5 = E (enum) { V0 { x: [u8] }, V1 { } }, 6 = M { a: A, n: N }
     traits: 1000 = Send (auto), 1001 = Sized, 1002 = Copy, 1003 = Clone, 1004 = Tuple, 1005 = FnPtr
     impls: impl !Send for N;  impl Copy for u8;  impl<T> Clone for W<T> where T: Clone;  impl Clone for u8 *)
  Definition u8 := tScalar 3.
  Definition A := tAdt 0 [].  Definition B := tAdt 1 [].  Definition Nn := tAdt 2 [].
  Definition S := tAdt 3 [].  Definition W t := tAdt 4 [t].  Definition E := tAdt 5 [].  Definition M := tAdt 6 [].
  Definition D : decls := mkDecls
    [mkAdt 0 0 true false [[B]]; mkAdt 1 0 true false [[A]]; mkAdt 2 0 true false [[]];
     mkAdt 3 0 true false [[u8; tSlice u8]]; mkAdt 4 1 true false [[TVar 0]];
     mkAdt 5 0 false false [[tSlice u8]; []]; mkAdt 6 0 true false [[A; Nn]]]
    [mkTrait 1000 true false None; mkTrait 1001 false false (Some WSized); mkTrait 1002 false false (Some WCopy);
     mkTrait 1003 false false (Some WClone); mkTrait 1004 false false (Some WTuple); mkTrait 1005 false false (Some WFnPtr)]
    [mkImpl false (atom 1000 Nn) []; mkImpl true (atom 1002 u8) []; mkImpl true (atom 1003 (W (TVar 0))) [atom 1003 (TVar 0)];
     mkImpl true (atom 1003 u8) []].

  Example D_wf : wfD D.
  Proof. apply wf_full_spec. reflexivity. Qed.

  (* the coinductive cycle A -> B -> A counts as satisfied; M fails through N *)
  Example eval_cycle : evalR 100 D (atom 1000 A) = Some true /\ evalR 100 D (atom 1000 M) = Some false /\
                       evalR 100 D (atom 1000 (tTuple [A; tRef false B])) = Some true.
  Proof. repeat split; reflexivity. Qed.

  Example auto_spec_nonvacuous : auto_spec D (builtin_gen D) 1000 A.
  Proof.
    apply (auto_spec_full D D_wf 1000 A); [reflexivity|reflexivity|].
    apply (evalR_correct D D_wf 100 _ true); [|reflexivity]. reflexivity.
  Qed.

  Example auto_negative_nonvacuous : ~ holdsR D (atom 1000 M).
  Proof.
    intro H. apply (evalR_correct D D_wf 100 (atom 1000 M) false) in H; [discriminate|reflexivity].
  Qed.

  (* a tuple of arrays of structs whose last field is a slice: Sized looks at the last element only *)
  Example eval_sized :
    evalR 100 D (atom 1001 S) = Some false /\ evalR 100 D (atom 1001 (W S)) = Some false /\
    evalR 100 D (atom 1001 E) = Some true /\
    evalR 100 D (atom 1001 (tTuple [tArray S (tapp sConst [TCon 2]); u8])) = Some true /\
    evalR 100 D (atom 1001 (tTuple [u8; W S])) = Some false.
  Proof. repeat split; reflexivity. Qed.

  Example sized_spec_nonvacuous : sized D 1001 (tTuple [tArray S (tapp sConst [TCon 2]); u8]) /\ ~ sized D 1001 (W S).
  Proof.
    split.
    - apply (sized_spec D D_wf 1001); [reflexivity|reflexivity|reflexivity|].
      apply (evalR_correct D D_wf 100 _ true); reflexivity.
    - intro H. apply (sized_spec D D_wf 1001) in H; [|reflexivity|reflexivity|reflexivity].
      apply (evalR_correct D D_wf 100 _ false) in H; [discriminate|reflexivity].
  Qed.

  Example copy_clone_spec_nonvacuous :
    copy D 1002 (tTuple [u8; tArray u8 (tapp sConst [TCon 3])]) /\ ~ copy D 1002 (tTuple [u8; A]) /\
    clone D 1003 (W (tTuple [u8; u8])) /\ tuple D 1004 (tTuple []) /\ fnptr D 1005 (tFnPtr [u8; u8]) /\ ~ tuple D 1004 u8.
  Proof.
    repeat split.
    - apply (copy_spec D D_wf 1002); [reflexivity|reflexivity|reflexivity|].
      apply (evalR_correct D D_wf 100 _ true); reflexivity.
    - intro H. apply (copy_spec D D_wf 1002) in H; [|reflexivity|reflexivity|reflexivity].
      apply (evalR_correct D D_wf 100 _ false) in H; [discriminate|reflexivity].
    - apply (clone_spec D D_wf 1003); [reflexivity|reflexivity|reflexivity|].
      apply (evalR_correct D D_wf 100 _ true); reflexivity.
    - apply (tuple_spec D D_wf 1004); [reflexivity|reflexivity|reflexivity|].
      apply (evalR_correct D D_wf 100 _ true); reflexivity.
    - apply (fnptr_spec D D_wf 1005); [reflexivity|reflexivity|reflexivity|].
      apply (evalR_correct D D_wf 100 _ true); reflexivity.
    - intro H. apply (tuple_spec D D_wf 1004) in H; [|reflexivity|reflexivity|reflexivity].
      apply (evalR_correct D D_wf 100 _ false) in H; [discriminate|reflexivity].
  Qed.

  (* the class F7: after the root goal A: Send, the goal B: Send (a cycle member reached by it) *)
  Example f7_class_witness :
    f7_class 100 (bodsR D) (isco (coD D)) [atom 1000 A; atom 1000 B] 1 = true /\
    f7_class 100 (bodsR D) (isco (coD D)) [atom 1000 A; atom 1000 B] 0 = false /\
    f7_class 100 (bodsR D) (isco (coD D)) [atom 1000 Nn; atom 1000 M] 1 = false.
  Proof. repeat split; reflexivity. Qed.
End RulesExamples.

Module F7qExample.
  (* S0 { a: S1 }  S1 { a: S3, b: S2 }  S2 { a: S1, b: S3 }  S3 { a: S2 };  #[auto] Sync = 1000 *)
  Definition T (i : N) := tAdt i [].
  Definition D : decls := mkDecls
    [mkAdt 0 0 true false [[T 1]]; mkAdt 1 0 true false [[T 3; T 2]]; mkAdt 2 0 true false [[T 1; T 3]]; mkAdt 3 0 true false [[T 2]];
     mkAdt 4 0 true false [[T 5]]; mkAdt 5 0 true false [[T 6]]; mkAdt 6 0 true false [[T 5]]]
    [mkTrait 1000 true false None] [].
  Example f7q_witness :
    evalR 100 D (atom 1000 (T 0)) = Some true /\
    f7q_class 100 (bodsR D) (isco (coD D)) (atom 1000 (T 0)) = true /\
    f7q_class 100 (bodsR D) (isco (coD D)) (atom 1000 (T 4)) = false.   (* a simple ring entered from outside *)
  Proof. repeat split; reflexivity. Qed.
End F7qExample.

(** ** The defect repaired by "fix: impl_provided_for recognises explicit auto-trait impls written
    for fn pointer types": the table of the unchanged code had no fn-pointer row.  With that
    table the model refutes [impl_provided_for_spec] (and with it [auto_clauses_spec]): *)
Module PreFix.
  Definition same_ctor_b_prefix (v1 v2 : tview) : bool :=
    match v1, v2 with
    | VFnPtr _, VFnPtr _ => false
    | _, _ => same_ctor_b v1 v2
    end.

  Definition impl_provided_for_prefix (D : decls) (A : N) (t : ty) : bool :=
    existsb (fun i => match hsym (i_head i), targs (i_head i) with
                      | Some tr, s :: _ => (tr =? A) && same_ctor_b_prefix (view t) (view s)
                      | _, _ => false
                      end) (d_impls D).

  (* #[auto] trait Send {}  struct A {}  impl !Send for fn(A) {} *)
  Definition A := tAdt 0 [].
  Definition D : decls := mkDecls [mkAdt 0 0 true false [[]]] [mkTrait 1000 true false None]
                                  [mkImpl false (atom 1000 (tFnPtr [A; tTuple []])) []].

  Example impl_provided_for_prefix_refuted :
    exists D A t, ctor_has_impl D A t /\ impl_provided_for_prefix D A t = false.
  Proof.
    exists D, 1000, (tFnPtr [A; tTuple []]). split; [|reflexivity].
    apply impl_provided_for_spec. reflexivity.
  Qed.

  (* with the repaired table the goal [fn(A): Send] is refuted, as the property demands *)
  Example fnptr_negative_impl : evalR 50 D (atom 1000 (tFnPtr [A; tTuple []])) = Some false /\
                                evalR 50 D (atom 1000 (tFnPtr [A])) = Some true.
  Proof. split; reflexivity. Qed.
End PreFix.

(** ** Closed conjunctions / negations of atoms (single queries such as [G1, not { G2 }]). *)
Inductive rgoal : Type :=
| RAtom (a : ty)
| RAnd (g1 g2 : rgoal)
| RNot (g : rgoal).

Fixpoint satR (D : decls) (g : rgoal) : Prop :=
  match g with
  | RAtom a => holdsR D a
  | RAnd g1 g2 => satR D g1 /\ satR D g2
  | RNot g' => ~ satR D g'
  end.

Fixpoint evalRg (fuel : nat) (D : decls) (g : rgoal) : option bool :=
  match g with
  | RAtom a => evalR fuel D a
  | RAnd g1 g2 => and3 (evalRg fuel D g1) (evalRg fuel D g2)
  | RNot g' => option_map negb (evalRg fuel D g')
  end.

Theorem evalRg_correct : forall D, wfD D -> forall fuel g b,
  evalRg fuel D g = Some b -> (b = true <-> satR D g).
Proof.
  intros D Hwf fuel g. induction g as [a|g1 IH1 g2 IH2|g IH]; intros b H; cbn [evalRg satR] in *.
  - now apply (evalR_correct D Hwf fuel).
  - destruct (evalRg fuel D g1) as [b1|] eqn:E1; destruct (evalRg fuel D g2) as [b2|] eqn:E2.
    + specialize (IH1 _ eq_refl). specialize (IH2 _ eq_refl).
      destruct b1, b2; cbn [and3] in H; inversion H; subst; intuition congruence.
    + specialize (IH1 _ eq_refl). destruct b1; cbn [and3] in H; [discriminate|].
      inversion H; subst. intuition congruence.
    + specialize (IH2 _ eq_refl). destruct b2; cbn [and3] in H; [discriminate|].
      inversion H; subst. intuition congruence.
    + discriminate.
  - destruct (evalRg fuel D g) as [b1|] eqn:E1; [|discriminate].
    cbn [option_map] in H. inversion H; subst. specialize (IH _ eq_refl).
    destruct b1; cbn [negb]; intuition congruence.
Qed.

Module CycleFailExample.
  (* #[auto] Send = 1000; 0 = NotSend (impl !Send), 1 = Node { data: NotSend, label: Label, edge: Edge },
     2 = Edge { target: Node }, 3 = Label { of: Edge }: the cycle Node <-> Edge leans on a false leaf *)
  Definition T (i : N) := tAdt i [].
  Definition D : decls := mkDecls
    [mkAdt 0 0 true false [[]]; mkAdt 1 0 true false [[T 0; T 3; T 2]]; mkAdt 2 0 true false [[T 1]]; mkAdt 3 0 true false [[T 2]]]
    [mkTrait 1000 true false None] [mkImpl false (atom 1000 (T 0)) []].
  Example cycle_on_false_leaf :
    evalR 100 D (atom 1000 (T 3)) = Some false /\
    evalRg 100 D (RAnd (RAtom (atom 1000 (T 3))) (RNot (RAtom (atom 1000 (T 1))))) = Some false /\
    evalRg 100 D (RAnd (RNot (RAtom (atom 1000 (T 3)))) (RNot (RAtom (atom 1000 (T 1))))) = Some true.
  Proof. repeat split; reflexivity. Qed.
End CycleFailExample.

Module F7nExample.
  (* S0 { a: S3 }  S3 { b: S0 }  (a ring);  #[auto] Send = 1000 *)
  Definition T (i : N) := tAdt i [].
  Definition D : decls := mkDecls [mkAdt 0 0 true false [[T 3]]; mkAdt 3 0 true false [[T 0]]] [mkTrait 1000 true false None] [].
  Example f7n_witness :
    f7n_atom 100 (bodsR D) (isco (coD D)) (atom 1000 (tTuple [T 3; T 0])) = true /\
    f7n_atom 100 (bodsR D) (isco (coD D)) (atom 1000 (T 0)) = false /\
    f7n_atom 100 (bodsR D) (isco (coD D)) (atom 1000 (tTuple [T 3; T 3])) = false /\
    evalRg 100 D (RNot (RAtom (atom 1000 (tTuple [T 3; T 0])))) = Some false.
  Proof. repeat split; reflexivity. Qed.
End F7nExample.
