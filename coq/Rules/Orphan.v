(* C20 -- the orphan check implements the orphan rules.

   Model of the clauses chalk generates for the domain goals
     IsLocal / IsUpstream / IsFullyVisible / DownstreamType (types)   and   LocalImplAllowed (trait ref)
   (chalk-solve/src/clauses/program_clauses.rs: AdtDatum / TraitDatum; chalk-solve/src/clauses.rs:
   program_clauses_that_could_match -> match_ty) and of what `perform_orphan_check` proves:
     forall<impl params> { LocalImplAllowed(Self: Trait<P1..Pn>) }.
   Impl parameters are rigid placeholders inside that goal ([TParam]); no clause mentions them.

   [bodies g] are the bodies of the program clauses whose head matches the goal [g],
   instantiated by that match (all heads are linear patterns `Ctor<X0..Xn>`, so matching is
   reading off the arguments).  [holds] is derivability from these clauses, [solve] the
   executable evaluator used by the correspondence run, [orphan_rule] the structural rule of the
   property.  Before the fix builtin types got only WellFormed clauses from match_ty (defect F6):
   [fv_fix = false].  The fix: commit adds the IsFullyVisible clauses ([fv_fix = true], which is
   all the orphan check needs).  The IsUpstream facts for builtin types ([up_fix]) are NOT in the
   code: adding them makes the pinned test `inductive_canonical_cycle` fail (the compatible-world
   rule `Implemented(..) :- Compatible, IsUpstream(..), CannotProve` is generated for local traits
   too), so `IsUpstream(builtin)` stays a recorded class finding: [up_known_class]. *)
From Coq Require Import List NArith Bool Lia Arith PeanoNat.
Import ListNotations.

Inductive ty :=
| TParam (n : N)                    (* type parameter of the impl *)
| TAdt (a : N) (args : list ty)     (* struct number a of the program *)
| TScalar (s : N)                   (* u32, bool, ...: a builtin type without arguments *)
| TTuple (args : list ty).

Record adt_decl := mkAdt { ad_upstream : bool; ad_fundamental : bool }.

Inductive dgoal :=
| IsLocal (t : ty)
| IsUpstream (t : ty)
| IsFullyVisible (t : ty)
| DownstreamType (t : ty)
| LocalImplAllowed (args : list ty).   (* Self :: trait parameters, of the one trait considered *)

(* induction on rose trees *)
Section TyInd.
  Variable P : ty -> Prop.
  Hypothesis Hp : forall n, P (TParam n).
  Hypothesis Ha : forall a args, Forall P args -> P (TAdt a args).
  Hypothesis Hs : forall s, P (TScalar s).
  Hypothesis Ht : forall args, Forall P args -> P (TTuple args).

  Fixpoint ty_rect' (t : ty) : P t :=
    match t with
    | TParam n => Hp n
    | TAdt a args => Ha a args ((fix go (l : list ty) : Forall P l :=
                              match l with [] => Forall_nil P | x :: r => Forall_cons x (ty_rect' x) (go r) end) args)
    | TScalar s => Hs s
    | TTuple args => Ht args ((fix go (l : list ty) : Forall P l :=
                            match l with [] => Forall_nil P | x :: r => Forall_cons x (ty_rect' x) (go r) end) args)
    end.
End TyInd.

Fixpoint tsize (t : ty) : nat :=
  match t with
  | TParam _ | TScalar _ => 1
  | TAdt _ args | TTuple args => S (fold_right (fun x acc => tsize x + acc) 0 args)
  end.

Definition lsize (l : list ty) : nat := fold_right (fun x acc => tsize x + acc) 0 l.

Lemma lsize_in x l : In x l -> tsize x <= lsize l.
Proof.
  induction l as [|y l IH]; simpl; [tauto|]. intros [->|H]; [lia | specialize (IH H); lia].
Qed.

Section Rules.
  Variable fv_fix : bool.              (* builtin types have IsFullyVisible clauses *)
  Variable up_fix : bool.              (* builtin types have IsUpstream facts *)
  Variable flags : N -> adt_decl.      (* the program's struct declarations *)
  Variable trait_upstream : bool.      (* #[upstream] on the impl's trait *)

  (* ---------------------------------------------------------------------------------- *)
  (* The clauses                                                                         *)
  (* ---------------------------------------------------------------------------------- *)

  Definition bodies (g : dgoal) : list (list dgoal) :=
    match g with
    (* fully_visible_program_clauses: IsFullyVisible(Foo<T..>) :- IsFullyVisible(T).. *)
    | IsFullyVisible (TAdt _ args) => [map IsFullyVisible args]
    | IsFullyVisible (TScalar _) => if fv_fix then [[]] else []
    | IsFullyVisible (TTuple args) => if fv_fix then [map IsFullyVisible args] else []
    | IsFullyVisible (TParam _) => []
    (* AdtDatum: not upstream -> fact; upstream + fundamental -> one clause per parameter *)
    | IsLocal (TAdt a args) =>
        if negb (ad_upstream (flags a)) then [[]]
        else if ad_fundamental (flags a) then map (fun x => [IsLocal x]) args
        else []
    | IsLocal _ => []
    | IsUpstream (TAdt a args) =>
        if negb (ad_upstream (flags a)) then []
        else if ad_fundamental (flags a) then [map IsUpstream args]
        else [[]]
    | IsUpstream (TScalar _) => if up_fix then [[]] else []
    | IsUpstream (TTuple _) => if up_fix then [[]] else []
    | IsUpstream (TParam _) => []
    | DownstreamType (TAdt a args) =>
        if ad_fundamental (flags a) then map (fun x => [DownstreamType x]) args else []
    | DownstreamType _ => []
    (* TraitDatum: local trait -> fact; upstream trait -> for each i:
         LocalImplAllowed(..) :- IsFullyVisible(P0) .. IsFullyVisible(P(i-1)), IsLocal(Pi) *)
    | LocalImplAllowed args =>
        if negb trait_upstream then [[]]
        else map (fun i => map IsFullyVisible (firstn i args) ++ [IsLocal (nth i args (TParam 0))])
                 (seq 0 (length args))
    end.

  Inductive holds : dgoal -> Prop :=
  | holds_intro g body : In body (bodies g) -> (forall s, In s body -> holds s) -> holds g.

  (* executable evaluator: SLD resolution on these (structurally decreasing) clauses *)
  Fixpoint solve (fuel : nat) (g : dgoal) : bool :=
    match fuel with
    | 0 => false
    | S f => existsb (forallb (solve f)) (bodies g)
    end.

  (* ---------------------------------------------------------------------------------- *)
  (* The structural rule of the property                                                 *)
  (* ---------------------------------------------------------------------------------- *)

  (* mentions no impl type parameter *)
  Fixpoint no_params (t : ty) : bool :=
    match t with
    | TParam _ => false
    | TAdt _ args => forallb no_params args
    | TScalar _ => true
    | TTuple args => forallb no_params args
    end.

  (* local, looking through fundamental type constructors *)
  Fixpoint local_ty (t : ty) : bool :=
    match t with
    | TAdt a args =>
        if negb (ad_upstream (flags a)) then true
        else if ad_fundamental (flags a) then existsb local_ty args
        else false
    | _ => false
    end.

  (* upstream: builtin types (when [b]), upstream structs (fundamental ones when all arguments are) *)
  Fixpoint upstream_model (b : bool) (t : ty) : bool :=
    match t with
    | TParam _ => false
    | TAdt a args =>
        if negb (ad_upstream (flags a)) then false
        else if ad_fundamental (flags a) then forallb (upstream_model b) args
        else true
    | TScalar _ => b
    | TTuple _ => b
    end.

  (* the property: builtin types count as upstream *)
  Definition upstream_ty (t : ty) : bool := upstream_model true t.

  (* the recorded class: types whose upstream-ness depends on a builtin type being upstream *)
  Definition up_known_class (t : ty) : bool := xorb (upstream_model false t) (upstream_model true t).

  Definition orphan_rule (args : list ty) : Prop :=
    trait_upstream = false \/
    exists i, i < length args /\ local_ty (nth i args (TParam 0)) = true /\
              forall j, j < i -> no_params (nth j args (TParam 0)) = true.

  Definition orphan_rule_b (args : list ty) : bool :=
    negb trait_upstream ||
    existsb (fun i => forallb no_params (firstn i args) && local_ty (nth i args (TParam 0))) (seq 0 (length args)).

  Lemma forallb_firstn_nth (f : ty -> bool) i (args : list ty) : i <= length args ->
    forallb f (firstn i args) = true <-> forall j, j < i -> f (nth j args (TParam 0)) = true.
  Proof.
    revert args. induction i as [|i IH]; intros args Hi; simpl.
    - split; [intros _ j Hj; lia | reflexivity].
    - destruct args as [|x args]; simpl in *; [lia|]. rewrite andb_true_iff, IH by lia. split.
      + intros [Hx H] j Hj. destruct j; [assumption | apply H; lia].
      + intros H. split; [apply (H 0); lia | intros j Hj; apply (H (S j)); lia].
  Qed.

  Lemma orphan_rule_b_spec args : orphan_rule_b args = true <-> orphan_rule args.
  Proof.
    unfold orphan_rule_b, orphan_rule. rewrite orb_true_iff, negb_true_iff, existsb_exists.
    split; (intros [H|H]; [now left | right]).
    - destruct H as [i [Hi H]]. apply in_seq in Hi. apply andb_true_iff in H. destruct H as [H1 H2].
      exists i. split; [lia|]. split; [assumption|]. apply forallb_firstn_nth; [lia | assumption].
    - destruct H as [i [Hi [H1 H2]]]. exists i. split; [apply in_seq; lia|].
      apply andb_true_iff. split; [|assumption]. apply forallb_firstn_nth; [lia | assumption].
  Qed.

  (* ---------------------------------------------------------------------------------- *)
  (* solve is sound for holds; holds implies the structural rules                         *)
  (* ---------------------------------------------------------------------------------- *)

  Lemma solve_sound : forall fuel g, solve fuel g = true -> holds g.
  Proof.
    induction fuel as [|f IH]; intros g H; simpl in H; [discriminate|].
    apply existsb_exists in H. destruct H as [body [Hin Hall]].
    apply holds_intro with body; [assumption|]. intros s Hs. apply IH.
    rewrite forallb_forall in Hall. now apply Hall.
  Qed.

  Lemma holds_inv g : holds g -> exists body, In body (bodies g) /\ forall s, In s body -> holds s.
  Proof. intros H. inversion H; subst. eauto. Qed.

  Lemma holds_local t : holds (IsLocal t) -> local_ty t = true.
  Proof.
    induction t as [n|a args IH|s|args IH] using ty_rect'; intros H; apply holds_inv in H;
      destruct H as [body [Hin Hall]]; simpl in Hin; try tauto.
    simpl. destruct (negb (ad_upstream (flags a))); [reflexivity|].
    destruct (ad_fundamental (flags a)); [|destruct Hin].
    apply in_map_iff in Hin. destruct Hin as [x [<- Hx]].
    apply existsb_exists. exists x. split; [assumption|].
    rewrite Forall_forall in IH. apply IH; [assumption|]. apply Hall. now left.
  Qed.

  Lemma holds_fv t : holds (IsFullyVisible t) -> no_params t = true.
  Proof.
    induction t as [n|a args IH|s|args IH] using ty_rect'; intros H; apply holds_inv in H;
      destruct H as [body [Hin Hall]]; simpl in Hin; try tauto; simpl; try reflexivity.
    - destruct Hin as [<-|[]]. apply forallb_forall. intros x Hx.
      rewrite Forall_forall in IH. apply IH; [assumption|]. apply Hall. now apply in_map.
    - destruct fv_fix; [|destruct Hin]. destruct Hin as [<-|[]]. apply forallb_forall. intros x Hx.
      rewrite Forall_forall in IH. apply IH; [assumption|]. apply Hall. now apply in_map.
  Qed.

  Lemma holds_upstream t : holds (IsUpstream t) -> upstream_model up_fix t = true.
  Proof.
    induction t as [n|a args IH|s|args IH] using ty_rect'; intros H; apply holds_inv in H;
      destruct H as [body [Hin Hall]]; simpl in Hin; try tauto; simpl.
    - destruct (negb (ad_upstream (flags a))); [destruct Hin|].
      destruct (ad_fundamental (flags a)); [|reflexivity].
      destruct Hin as [<-|[]]. apply forallb_forall. intros x Hx.
      rewrite Forall_forall in IH. apply IH; [assumption|]. apply Hall. now apply in_map.
    - destruct up_fix; [reflexivity | destruct Hin].
    - destruct up_fix; [reflexivity | destruct Hin].
  Qed.

  Lemma holds_orphan args : holds (LocalImplAllowed args) -> orphan_rule args.
  Proof.
    intros H. apply holds_inv in H. destruct H as [body [Hin Hall]]. simpl in Hin.
    unfold orphan_rule. destruct trait_upstream; [right | now left]. simpl in Hin.
    apply in_map_iff in Hin. destruct Hin as [i [<- Hi]]. apply in_seq in Hi.
    exists i. split; [lia|]. split.
    - apply holds_local. apply Hall. apply in_app_iff. right. now left.
    - apply forallb_firstn_nth; [lia|]. apply forallb_forall. intros x Hx.
      apply holds_fv. apply Hall. apply in_app_iff. left. now apply in_map.
  Qed.

  (* ---------------------------------------------------------------------------------- *)
  (* solve is complete with fuel above the size of the goal                               *)
  (* ---------------------------------------------------------------------------------- *)

  Lemma forallb_map_ext (f : dgoal -> bool) (c : ty -> dgoal) (h : ty -> bool) (l : list ty) :
    (forall x, In x l -> f (c x) = h x) -> forallb f (map c l) = forallb h l.
  Proof.
    induction l as [|x l IH]; intros H; simpl; [reflexivity|].
    rewrite H by now left. f_equal. apply IH. intros y Hy. apply H. now right.
  Qed.

  Lemma existsb_map_singleton (f : dgoal -> bool) (c : ty -> dgoal) (h : ty -> bool) (l : list ty) :
    (forall x, In x l -> f (c x) = h x) ->
    existsb (forallb f) (map (fun x => [c x]) l) = existsb h l.
  Proof.
    induction l as [|x l IH]; intros H; simpl; [reflexivity|].
    rewrite H by now left. rewrite andb_true_r. f_equal. apply IH. intros y Hy. apply H. now right.
  Qed.

  Lemma solve_local : forall t fuel, tsize t <= fuel -> solve fuel (IsLocal t) = local_ty t.
  Proof.
    induction t as [n|a args IH|s|args IH] using ty_rect'; intros fuel Hf;
      (destruct fuel as [|f]; [simpl in Hf; lia|]); simpl; try reflexivity.
    destruct (negb (ad_upstream (flags a))); [reflexivity|].
    destruct (ad_fundamental (flags a)); [|reflexivity].
    apply existsb_map_singleton. intros x Hx. rewrite Forall_forall in IH. apply IH; [assumption|].
    simpl in Hf. pose proof (lsize_in x args Hx). unfold lsize in *. lia.
  Qed.

  Lemma solve_fv : fv_fix = true -> forall t fuel, tsize t <= fuel -> solve fuel (IsFullyVisible t) = no_params t.
  Proof.
    intros Hr. induction t as [n|a args IH|s|args IH] using ty_rect'; intros fuel Hf;
      (destruct fuel as [|f]; [simpl in Hf; lia|]); simpl; try rewrite Hr; simpl; try reflexivity.
    - rewrite orb_false_r. apply forallb_map_ext. intros x Hx. rewrite Forall_forall in IH. apply IH; [assumption|].
      simpl in Hf. pose proof (lsize_in x args Hx). unfold lsize in *. lia.
    - rewrite orb_false_r. apply forallb_map_ext. intros x Hx. rewrite Forall_forall in IH. apply IH; [assumption|].
      simpl in Hf. pose proof (lsize_in x args Hx). unfold lsize in *. lia.
  Qed.

  Lemma solve_upstream : forall t fuel, tsize t <= fuel -> solve fuel (IsUpstream t) = upstream_model up_fix t.
  Proof.
    induction t as [n|a args IH|s|args IH] using ty_rect'; intros fuel Hf;
      (destruct fuel as [|f]; [simpl in Hf; lia|]); simpl; try reflexivity.
    - destruct (negb (ad_upstream (flags a))); [reflexivity|].
      destruct (ad_fundamental (flags a)); [|reflexivity]. simpl.
      rewrite orb_false_r. apply forallb_map_ext. intros x Hx. rewrite Forall_forall in IH. apply IH; [assumption|].
      simpl in Hf. pose proof (lsize_in x args Hx). unfold lsize in *. lia.
    - destruct up_fix; reflexivity.
    - destruct up_fix; reflexivity.
  Qed.

  Definition orphan_fuel (args : list ty) : nat := S (S (lsize args)).

  Definition orphan_check (args : list ty) : bool := solve (orphan_fuel args) (LocalImplAllowed args).

  Lemma firstn_in (x : ty) i l : In x (firstn i l) -> In x l.
  Proof.
    revert l. induction i as [|i IH]; intros l H; simpl in H; [destruct H|].
    destruct l as [|y l]; [destruct H|]. destruct H as [->|H]; [now left | right; auto].
  Qed.

  Lemma existsb_map' (A B : Type) (f : B -> bool) (g : A -> B) (l : list A) :
    existsb f (map g l) = existsb (fun x => f (g x)) l.
  Proof. induction l as [|x l IH]; simpl; [reflexivity | now rewrite IH]. Qed.

  Lemma existsb_map_seq (F G : nat -> bool) (l : list nat) :
    (forall i, In i l -> F i = G i) -> existsb F l = existsb G l.
  Proof.
    induction l as [|x l IH]; intros H; simpl; [reflexivity|].
    rewrite H by now left. f_equal. apply IH. intros y Hy. apply H. now right.
  Qed.

  Lemma orphan_check_rule : fv_fix = true -> forall args, orphan_check args = orphan_rule_b args.
  Proof.
    intros Hr args. unfold orphan_check, orphan_fuel, orphan_rule_b.
    remember (S (lsize args)) as f eqn:Ef.
    change (solve (S f) (LocalImplAllowed args))
      with (existsb (forallb (solve f)) (bodies (LocalImplAllowed args))).
    unfold bodies. destruct trait_upstream; [|reflexivity].
    change (negb true) with false. cbv iota. rewrite orb_false_l.
    rewrite existsb_map'. apply existsb_map_seq. intros i Hi. apply in_seq in Hi.
    rewrite forallb_app. f_equal.
    - apply forallb_map_ext. intros x Hx. apply solve_fv; [assumption|].
      pose proof (lsize_in x args (firstn_in x i args Hx)). lia.
    - cbn [forallb]. rewrite andb_true_r. apply solve_local.
      assert (In (nth i args (TParam 0)) args) by (apply nth_In; lia).
      pose proof (lsize_in _ args H). lia.
  Qed.

  (* ---------------------------------------------------------------------------------- *)
  (* The theorems                                                                         *)
  (* ---------------------------------------------------------------------------------- *)

  (* the orphan check (derivability of LocalImplAllowed from the generated clauses) is exactly
     the structural rule *)
  Theorem orphan_spec : fv_fix = true -> forall args,
    holds (LocalImplAllowed args) <-> orphan_rule args.
  Proof.
    intros Hr args. split; [apply holds_orphan|].
    intros H. apply (solve_sound (orphan_fuel args)). fold (orphan_check args).
    rewrite orphan_check_rule by assumption. now apply orphan_rule_b_spec.
  Qed.

  Theorem orphan_check_spec : fv_fix = true -> forall args,
    orphan_check args = true <-> orphan_rule args.
  Proof.
    intros Hr args. rewrite orphan_check_rule by assumption. apply orphan_rule_b_spec.
  Qed.

  (* ---------------------------------------------------------------------------------- *)
  (* The solvers' size limit                                                              *)
  (* ---------------------------------------------------------------------------------- *)

  (* Both solvers give up (SLG: the LocalImplAllowed subgoal of the `forall` root goal flounders
     in abstract_positive_literal; recursive: push_obligation sets cannot_prove) as soon as one
     type of the goal has more than [max_size] nodes (truncate::needs_truncation measures each
     outermost type on its own: [tsize]); the answer is then Ambiguous, and
     perform_orphan_check accepts whatever `solve(..).is_some()`: such an impl always passes.
     Recorded class [size_known_class]; max_size = 10 for slg_default, 30 for recursive_default. *)
  Definition size_known_class (max_size : nat) (args : list ty) : bool :=
    existsb (fun a => max_size <? tsize a) args.

  Definition orphan_check_sized (max_size : nat) (args : list ty) : bool :=
    size_known_class max_size args || orphan_check args.

  (* the orphan check as it is run, outside the recorded class, is exactly the rule *)
  Theorem orphan_partial : fv_fix = true -> forall max_size args,
    size_known_class max_size args = false ->
    (orphan_check_sized max_size args = true <-> orphan_rule args).
  Proof.
    intros Hr max_size args Hk. unfold orphan_check_sized. rewrite Hk. simpl.
    now apply orphan_check_spec.
  Qed.

  (* an impl the rule allows passes, whatever its size *)
  Theorem orphan_sized_complete : fv_fix = true -> forall max_size args,
    orphan_rule args -> orphan_check_sized max_size args = true.
  Proof.
    intros Hr max_size args H. unfold orphan_check_sized.
    apply orb_true_iff. right. now apply orphan_check_spec.
  Qed.

  (* what the clauses derive for IsUpstream, whatever the two switches *)
  Theorem upstream_model_spec : forall t, holds (IsUpstream t) <-> upstream_model up_fix t = true.
  Proof.
    intros t. split; [apply holds_upstream|]. intros H.
    apply (solve_sound (tsize t)). rewrite solve_upstream; auto.
  Qed.

  (* builtin types count as upstream: outside the recorded class, for the code as it is *)
  Theorem upstream_partial : forall t, up_known_class t = false ->
    (holds (IsUpstream t) <-> upstream_ty t = true).
  Proof.
    intros t Hk. rewrite upstream_model_spec. unfold up_known_class, upstream_ty in *.
    destruct up_fix; [tauto|].
    destruct (upstream_model false t), (upstream_model true t); simpl in Hk; try discriminate; tauto.
  Qed.

  (* ... and everywhere once the IsUpstream facts exist *)
  Theorem builtin_upstream : up_fix = true -> forall t,
    holds (IsUpstream t) <-> upstream_ty t = true.
  Proof. intros Hu t. rewrite upstream_model_spec, Hu. reflexivity. Qed.

  Theorem fully_visible_spec : fv_fix = true -> forall t,
    holds (IsFullyVisible t) <-> no_params t = true.
  Proof.
    intros Hr t. split; [apply holds_fv|]. intros H.
    apply (solve_sound (tsize t)). rewrite solve_fv; auto.
  Qed.

  Theorem local_spec : forall t, holds (IsLocal t) <-> local_ty t = true.
  Proof.
    intros t. split; [apply holds_local|]. intros H.
    apply (solve_sound (tsize t)). rewrite solve_local; auto.
  Qed.
End Rules.

(* ------------------------------------------------------------------------------------- *)
(* Data form for the correspondence run                                                    *)
(* ------------------------------------------------------------------------------------- *)

Record oinput := mkO {
  o_trait_upstream : bool;
  o_adts : list adt_decl;     (* struct number a = position a *)
  o_args : list ty            (* Self :: trait parameters *)
}.

Definition flags_of (l : list adt_decl) (a : N) : adt_decl := nth (N.to_nat a) l (mkAdt false false).

(* the code as it is after the fix: commit: fv_fix = true, up_fix = false *)
Definition orphan_check_data (x : oinput) : bool :=
  orphan_check true false (flags_of (o_adts x)) (o_trait_upstream x) (o_args x).

Definition orphan_check_orig_data (x : oinput) : bool :=
  orphan_check false false (flags_of (o_adts x)) (o_trait_upstream x) (o_args x).

Definition orphan_rule_data (x : oinput) : bool :=
  orphan_rule_b (flags_of (o_adts x)) (o_trait_upstream x) (o_args x).

(* ... as run by the two default solvers (max_size 10 / 30) *)
Definition orphan_check_slg_data (x : oinput) : bool :=
  orphan_check_sized true false (flags_of (o_adts x)) (o_trait_upstream x) 10 (o_args x).

Definition orphan_check_rec_data (x : oinput) : bool :=
  orphan_check_sized true false (flags_of (o_adts x)) (o_trait_upstream x) 30 (o_args x).

Definition size_class_slg_data (x : oinput) : bool := size_known_class 10 (o_args x).
Definition size_class_rec_data (x : oinput) : bool := size_known_class 30 (o_args x).

(* single domain goals (IsUpstream / IsFullyVisible / IsLocal on a type) *)
Record ginput := mkG { g_adts : list adt_decl; g_goal : dgoal }.

Definition gsize (g : dgoal) : nat :=
  match g with
  | IsLocal t | IsUpstream t | IsFullyVisible t | DownstreamType t => tsize t
  | LocalImplAllowed args => S (S (lsize args))
  end.

Definition solve_data (x : ginput) : bool :=
  solve true false (flags_of (g_adts x)) true (gsize (g_goal x)) (g_goal x).

Definition expect_data (x : ginput) : bool :=
  match g_goal x with
  | IsLocal t => local_ty (flags_of (g_adts x)) t
  | IsUpstream t => upstream_ty (flags_of (g_adts x)) t
  | IsFullyVisible t => no_params t
  | _ => false
  end.

(* the recorded class, as a predicate on the input *)
Definition known_class_data (x : ginput) : bool :=
  match g_goal x with
  | IsUpstream t => up_known_class (flags_of (g_adts x)) t
  | _ => false
  end.

(* ------------------------------------------------------------------------------------- *)
(* Witnesses                                                                              *)
(* ------------------------------------------------------------------------------------- *)

(* #[upstream] trait Remote<T> {}  struct Local {}  impl Remote<Local> for u32 {} *)
Definition f6_witness : oinput := mkO true [mkAdt false false] [TScalar 0; TAdt 0 []].

(* F6: before the fix the impl is rejected although the rule allows it *)
Theorem orphan_refuted :
  exists x, orphan_check_orig_data x = false /\ orphan_rule_data x = true.
Proof. exists f6_witness. vm_compute. split; reflexivity. Qed.

Example f6_repaired : orphan_check_data f6_witness = true.
Proof. vm_compute. reflexivity. Qed.

(* the part of F6 that is recorded, not repaired: IsUpstream(u32) is not derivable *)
Theorem upstream_refuted :
  exists x, known_class_data x = true /\ solve_data x = false /\ expect_data x = true.
Proof. exists (mkG [] (IsUpstream (TScalar 0))). vm_compute. repeat split; reflexivity. Qed.

(* non-vacuity of upstream_partial: a fundamental upstream Box<Up> is outside the class and upstream *)
Example upstream_partial_nonvacuous :
  let x := mkG [mkAdt true false; mkAdt true true] (IsUpstream (TAdt 1 [TAdt 0 []])) in
  known_class_data x = false /\ solve_data x = true /\ expect_data x = true.
Proof. vm_compute. repeat split; reflexivity. Qed.

(* non-vacuity: an upstream trait, a fundamental upstream Box (adt 1) around a local type,
   preceded by a tuple of scalars; and a rejected sibling with a parameter in front *)
Example orphan_spec_nonvacuous_allowed :
  orphan_check_data (mkO true [mkAdt false false; mkAdt true true]
                         [TTuple [TScalar 0; TScalar 1]; TAdt 1 [TParam 0; TAdt 0 []]]) = true.
Proof. vm_compute. reflexivity. Qed.

Example orphan_spec_nonvacuous_rejected :
  orphan_check_data (mkO true [mkAdt false false; mkAdt true true]
                         [TTuple [TScalar 0; TParam 0]; TAdt 1 [TParam 0; TAdt 0 []]]) = false.
Proof. vm_compute. reflexivity. Qed.

(* the size class: all-upstream `impl Rem0 for U2<U2<U1<U0>, U1<U0>>, U2<U1<U0>, U1<U0>>>` (11 type
   nodes) passes the orphan check under the SLG solver although the rule rejects it *)
Definition size_witness : oinput :=
  mkO true [mkAdt true false; mkAdt true false; mkAdt true false]
      [TAdt 2 [TAdt 2 [TAdt 1 [TAdt 0 []]; TAdt 1 [TAdt 0 []]]; TAdt 2 [TAdt 1 [TAdt 0 []]; TAdt 1 [TAdt 0 []]]]].

Theorem orphan_size_refuted :
  exists x, size_class_slg_data x = true /\ orphan_check_slg_data x = true /\ orphan_rule_data x = false.
Proof. exists size_witness. vm_compute. repeat split; reflexivity. Qed.

Example orphan_partial_nonvacuous :
  size_class_slg_data f6_witness = false /\ orphan_check_slg_data f6_witness = true /\ orphan_rule_data f6_witness = true.
Proof. vm_compute. repeat split; reflexivity. Qed.
