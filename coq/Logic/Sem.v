(** * Logic.Sem — the declarative meaning of a program and of goals.

    Ground terms (no [TVar]) are the universe; placeholders [TPh k] are opaque constants of
    that universe (the open-world reading of [forall]: a fresh placeholder stands for a type
    nobody has declared).

    Inductive traits are read as a least fixed point, coinductive ([#[coinductive]], [#[auto]])
    traits as a greatest fixed point.  The two are combined in Park/Tarski form (νX.μY):

      - [derives X a]: [a] has a finite derivation in which every *coinductive* atom used in a
        clause body is assumed from the set [X] and every inductive one is derived in turn;
      - [X] is *co-sound* if each of its members is coinductive and derivable from [X];
      - [holds a]: some co-sound [X] justifies [a].

    For programs without cycles through both kinds of trait (the restriction the properties
    state: "no mixed cycles", [Contract.no_mixed_cycles]) this is the usual stratified
    meaning; a cycle through both kinds would be accepted coinductively here, whereas chalk
    rejects it — which is why the checks stay inside the restriction.

    Goals: [forall] = the canonical fresh placeholder, [exists] = some ground type,
    [if] = more clauses, [not] = classical negation (of a goal whose variables all have
    values), equality = syntactic identity. *)

From Chalk Require Export Logic.Program.

Section Generic.
  (** [step a bs]: some clause instance has head [a] and body [bs]. *)
  Variable step : ty -> list ty -> Prop.
  Variable co : ty -> bool.

  Inductive derives (X : ty -> Prop) : ty -> Prop :=
  | Der : forall a bs,
      step a bs ->
      (forall b, In b bs -> co b = true -> X b) ->
      (forall b, In b bs -> co b = false -> derives X b) ->
      derives X a.

  Definition cosound (X : ty -> Prop) : Prop :=
    forall x, X x -> co x = true /\ derives X x.

  Definition holds (a : ty) : Prop :=
    exists X, cosound X /\ (if co a then X a else derives X a).

  Lemma derives_mono : forall (X Y : ty -> Prop) a,
    (forall x, X x -> Y x) -> derives X a -> derives Y a.
  Proof.
    intros X Y a HXY H. induction H as [a bs Hs Hc _ IH].
    apply (Der Y a bs Hs); auto.
  Qed.

  (** Every atom that holds is derivable from the greatest co-sound set (= [holds] itself
      on coinductive atoms). *)
  Definition gfpX (x : ty) : Prop := co x = true /\ holds x.

  Lemma gfpX_cosound : cosound gfpX.
  Proof.
    intros x [Hco [X [HX Hx]]]. split; [exact Hco|]. rewrite Hco in Hx.
    destruct (HX x Hx) as [_ D]. apply (derives_mono X); [|exact D].
    intros y Hy. destruct (HX y Hy) as [Hcy _]. split; [exact Hcy|].
    exists X. split; [exact HX|]. now rewrite Hcy.
  Qed.

  Lemma holds_derives : forall a, holds a -> derives gfpX a.
  Proof.
    intros a [X [HX Ha]]. destruct (co a) eqn:Hco.
    - apply gfpX_cosound. split; [exact Hco|]. exists X. split; [exact HX|]. now rewrite Hco.
    - apply (derives_mono X); [|exact Ha]. intros y Hy. destruct (HX y Hy) as [Hcy _].
      split; [exact Hcy|]. exists X. split; [exact HX|]. now rewrite Hcy.
  Qed.

  Lemma derives_holds : forall X a, cosound X -> derives X a -> holds a.
  Proof.
    intros X a HX D. destruct (co a) eqn:Hco.
    - (* X ∪ {a} is co-sound *)
      exists (fun x => X x \/ x = a). split.
      + intros x [Hx|Hx].
        * destruct (HX x Hx) as [H1 H2]. split; [exact H1|].
          apply (derives_mono X); [intros; now left|exact H2].
        * subst x. split; [exact Hco|]. apply (derives_mono X); [intros; now left|exact D].
      + rewrite Hco. now right.
    - exists X. split; [exact HX|]. now rewrite Hco.
  Qed.

  (** One-step unfolding: the fixed-point equation. *)
  Lemma holds_unfold : forall a,
    holds a <-> exists bs, step a bs /\ forall b, In b bs -> holds b.
  Proof.
    intro a. split.
    - intro H. apply holds_derives in H. inversion H as [a' bs Hs Hc Hi]; subst.
      exists bs. split; [exact Hs|]. intros b Hb. destruct (co b) eqn:Hcb.
      + destruct (Hc b Hb Hcb) as [_ Hh]. exact Hh.
      + apply (derives_holds gfpX); [apply gfpX_cosound|]. auto.
    - intros [bs [Hs Hb]]. apply (derives_holds gfpX); [apply gfpX_cosound|].
      apply (Der gfpX a bs Hs).
      + intros b HIn Hcb. split; [exact Hcb|auto].
      + intros b HIn Hcb. apply holds_derives. auto.
  Qed.
End Generic.


Lemma derives_step_ext : forall (s1 s2 : ty -> list ty -> Prop) co X a,
  (forall a bs, s1 a bs -> s2 a bs) -> derives s1 co X a -> derives s2 co X a.
Proof.
  intros s1 s2 co X a Hs H. induction H as [a bs H1 Hc _ IH].
  apply (Der s2 co X a bs); auto.
Qed.

Lemma holds_step_ext : forall (s1 s2 : ty -> list ty -> Prop) co a,
  (forall a bs, s1 a bs <-> s2 a bs) -> (holds s1 co a <-> holds s2 co a).
Proof.
  intros s1 s2 co a Hs. split; intros [X [HX Ha]]; exists X; (split;
    [intros x Hx; destruct (HX x Hx) as [H1 H2]; split; [exact H1|];
     eapply derives_step_ext; [|exact H2]; intros; now apply Hs
    |destruct (co a); [exact Ha|eapply derives_step_ext; [|exact Ha]; intros; now apply Hs]]).
Qed.

(** ** Programs *)

(** A ground instance of some clause has head [a] and body [bs]. *)
Definition inst (cls : list clause) (a : ty) (bs : list ty) : Prop :=
  exists c th, In c cls /\ (forall i, ground (th i)) /\ subst th (chead c) = a /\ bs = map (subst th) (cbody c).

Definition allc (P : program) (env : list clause) : list clause := env ++ pclauses P.

Definition holdsP (P : program) (env : list clause) (a : ty) : Prop :=
  holds (inst (allc P env)) (isco (pcoind P)) a.

(** The canonical fresh placeholder for a [forall] met while evaluating [g] under [rho]. *)
Definition fresh (P : program) (env : list clause) (rho : list ty) (g : goal) : N :=
  N.max (phb_clauses (pclauses P)) (N.max (phb_clauses env) (N.max (phb_list rho) (phb_goal g))).

Fixpoint sat (P : program) (env : list clause) (rho : list ty) (g : goal) : Prop :=
  match g with
  | GAtom a => holdsP P env (subst (listth rho) a)
  | GEq t1 t2 => subst (listth rho) t1 = subst (listth rho) t2
  | GAnd g1 g2 => sat P env rho g1 /\ sat P env rho g2
  | GTrue => True
  | GForall g' => sat P env (TPh (fresh P env rho g') :: rho) g'
  | GExists g' => exists t, ground t /\ sat P env (t :: rho) g'
  | GIf hs g' => sat P (map (inst_hyp rho) hs ++ env) rho g'
  | GNot g' => ~ sat P env rho g'
  end.

(** ** Sanity: the semantics on tiny programs (tests, not the property theorems). *)

Module SemExamples.
  (* symbols: 0 = S0, 1 = W<_>, 10 = Tr (inductive), 11 = Co (coinductive) *)
  Definition S0 := tapp 0 [].
  Definition W t := tapp 1 [t].
  Definition Tr t := tapp 10 [t].
  Definition Co t := tapp 11 [t].
  (* impl Tr for S0; impl<T> Tr for W<T> where T: Tr; impl Co for S0 where S0: Co *)
  Definition P := mkProg [mkClause (Tr S0) []; mkClause (Tr (W (TVar 0))) [Tr (TVar 0)];
                          mkClause (Co S0) [Co S0]] [11%N].

  Example ex_ind : holdsP P [] (Tr (W S0)).
  Proof.
    exists (fun _ => False). split; [intros x []|]. cbn.
    apply (Der _ _ _ (Tr (W S0)) [Tr S0]).
    - exists (mkClause (Tr (W (TVar 0))) [Tr (TVar 0)]), (fun _ => S0). cbn. repeat split; auto.
    - intros b [<-|[]] H. discriminate H.
    - intros b [<-|[]] _. apply (Der _ _ _ (Tr S0) []).
      + exists (mkClause (Tr S0) []), (fun _ => S0). cbn. repeat split; auto.
      + intros b [].
      + intros b [].
  Qed.

  Example ex_co_cycle : holdsP P [] (Co S0).
  Proof.
    exists (fun x => x = Co S0). split.
    - intros x ->. split; [reflexivity|]. apply (Der _ _ _ (Co S0) [Co S0]).
      + exists (mkClause (Co S0) [Co S0]), (fun _ => S0). cbn. repeat split; auto.
      + intros b [<-|[]] _. reflexivity.
      + intros b [<-|[]] H. discriminate H.
    - reflexivity.
  Qed.
End SemExamples.
