(** * Logic.Decide — when the contract checker is a decision procedure.

    [check_answer] is alarm-sound for every candidate list
    ([Contract.check_answer_alarm_sound]).  Its silence ([VOk]) proves the contract as soon as

    - the candidate list *covers the solution set* ([covers]: every solution of the query is
      among the candidates — the explicit coverage hypothesis; it holds trivially for closed
      goals, [covers_closed], and whenever the candidates enumerate all ground
      instantiations in which solutions can live), and
    - for [Unique], the body is negation-free and well-formed (then the soundness half tested
      on the fresh-placeholder instance is exact, [Meta.unique_sound_exact]) and the answer is
      well-scoped ([ans_scopedb]: executable; the universes of the answer variables fit the
      universes of the query variables they are substituted into).

    So under these conditions [VOk] / [VAlarm] decide the contract ([check_answer_decides]). *)

From Chalk Require Export Logic.Meta.

Definition covers (P : program) (env : list clause) (q : query) (cands : list (list ty)) : Prop :=
  forall th, Sols P env q th -> In th cands.

Lemma covers_closed : forall P env g, covers P env (closed_query g) [[]].
Proof.
  intros P env g th [Hr _]. cbn [closed_query q_nph q_ubs] in Hr. apply respects_nil in Hr. subst. now left.
Qed.

(** ** From a matching substitution to a list of instantiations *)

Fixpoint maxvar (t : ty) : nat :=
  match t with
  | TVar i => S i
  | TAp f x => Nat.max (maxvar f) (maxvar x)
  | _ => O
  end.

Definition maxvars (l : list ty) : nat := fold_right (fun t m => Nat.max (maxvar t) m) O l.

Lemma maxvars_in : forall l t, In t l -> maxvar t <= maxvars l.
Proof.
  induction l as [|a r IH]; intros t []; cbn [maxvars fold_right].
  - subst. lia.
  - specialize (IH t H). unfold maxvars in IH. lia.
Qed.

Lemma listth_map_seq : forall (sigma : nat -> ty) n i, i < n -> listth (map sigma (seq 0 n)) i = sigma i.
Proof.
  intros sigma n i H. unfold listth. rewrite (nth_indep _ (TVar i) (sigma 0)) by (rewrite map_length, seq_length; exact H).
  rewrite (map_nth sigma (seq 0 n) 0 i). now rewrite seq_nth.
Qed.

Lemma subst_listth_of_fun : forall (sigma : nat -> ty) n t,
  maxvar t <= n -> subst (listth (map sigma (seq 0 n))) t = subst sigma t.
Proof.
  intros sigma n. induction t as [c|f IHf x IHx|k|j]; intro H; cbn [subst maxvar] in *; try reflexivity.
  - rewrite IHf, IHx by lia. reflexivity.
  - apply listth_map_seq. lia.
Qed.

Lemma instance_of_app_ans : forall th s,
  instance_of th s = true -> exists tau, th = app_ans s tau.
Proof.
  intros th s H. apply instance_of_spec in H. destruct H as [sigma ->].
  exists (map sigma (seq 0 (maxvars s))). unfold app_ans. apply map_ext_in. intros t Ht.
  symmetry. apply subst_listth_of_fun. now apply maxvars_in.
Qed.

(** ** Scoping of answers *)

(** Every variable of pattern [t] is one of the [vubs] answer variables and its universe
    bound does not exceed [ub]; the pattern's own placeholders are visible at [ub]. *)
Fixpoint pat_scopedb (m ub : N) (vubs : list N) (t : ty) : bool :=
  match t with
  | TVar i => match nth_error vubs i with Some v => N.leb v ub | None => false end
  | TPh k => N.ltb k ub || N.leb m k
  | TAp f x => pat_scopedb m ub vubs f && pat_scopedb m ub vubs x
  | TCon _ => true
  end.

Fixpoint ans_scopedb (m : N) (ubs vubs : list N) (s : list ty) : bool :=
  match ubs, s with
  | [], [] => true
  | ub :: ur, t :: tr => pat_scopedb m ub vubs t && ans_scopedb m ur vubs tr
  | _, _ => false
  end.

Lemma ph_ok_mono : forall m v ub t, (v <= ub)%N -> ph_ok m v t = true -> ph_ok m ub t = true.
Proof.
  intros m v ub. induction t as [c|f IHf x IHx|k|j]; intros Hle H; cbn [ph_ok] in *; auto.
  - apply andb_true_iff in H. destruct H. rewrite IHf, IHx; auto.
  - apply orb_true_iff in H. apply orb_true_iff. destruct H as [H|H]; [left|right; exact H].
    apply N.ltb_lt in H. apply N.ltb_lt. lia.
Qed.

Lemma respects_allb_nth : forall m vubs tau,
  respects_allb m vubs tau = true ->
  length tau = length vubs /\
  forall i v, nth_error vubs i = Some v -> respectsb m v (nth i tau (TVar i)) = true.
Proof.
  intros m. induction vubs as [|v r IH]; intros tau H; destruct tau as [|t tr]; cbn [respects_allb] in H; try discriminate.
  - split; [reflexivity|]. intros i v Hi. destruct i; discriminate Hi.
  - apply andb_true_iff in H. destruct H as [H1 H2]. destruct (IH tr H2) as [L N']. split; [cbn [length]; lia|].
    intros i v' Hi. destruct i as [|i]; cbn [nth_error nth] in *.
    + inversion Hi; subst. exact H1.
    + rewrite (nth_indep tr (TVar (S i)) (TVar i)).
      * now apply N'.
      * assert (i < length r) by (apply nth_error_Some; congruence). lia.
Qed.

Lemma pat_scoped_respects : forall m ub vubs tau t,
  respects_allb m vubs tau = true -> pat_scopedb m ub vubs t = true ->
  respectsb m ub (subst (listth tau) t) = true.
Proof.
  intros m ub vubs tau t Hr. destruct (respects_allb_nth _ _ _ Hr) as [_ Hn].
  induction t as [c|f IHf x IHx|k|j]; intro H; cbn [pat_scopedb subst] in *.
  - reflexivity.
  - apply andb_true_iff in H. destruct H as [H1 H2]. specialize (IHf H1). specialize (IHx H2).
    unfold respectsb in *. cbn [groundb ph_ok]. apply andb_true_iff in IHf. apply andb_true_iff in IHx.
    destruct IHf as [A1 A2]. destruct IHx as [B1 B2]. now rewrite A1, A2, B1, B2.
  - unfold respectsb. cbn [groundb ph_ok]. exact H.
  - destruct (nth_error vubs j) as [v|] eqn:E; [|discriminate]. apply N.leb_le in H.
    specialize (Hn j v E). unfold listth. unfold respectsb in *. apply andb_true_iff in Hn. destruct Hn as [G Ph].
    rewrite G. cbn [andb]. eapply ph_ok_mono; eauto.
Qed.

Lemma ans_scoped_respects : forall m ubs vubs s tau,
  respects_allb m vubs tau = true -> ans_scopedb m ubs vubs s = true ->
  respects_allb m ubs (app_ans s tau) = true.
Proof.
  intros m. induction ubs as [|ub ur IH]; intros vubs s tau Hr H; destruct s as [|t tr]; cbn [ans_scopedb] in H; try discriminate.
  - reflexivity.
  - apply andb_true_iff in H. destruct H as [H1 H2]. cbn [app_ans map respects_allb].
    rewrite (pat_scoped_respects _ _ _ _ _ Hr H1). cbn [andb]. apply (IH vubs tr tau Hr H2).
Qed.

Lemma respects_allb_ground : forall m vubs tau,
  respects_allb m vubs tau = true -> Forall ground tau.
Proof.
  intros m. induction vubs as [|v r IH]; intros tau H; destruct tau as [|t tr]; cbn [respects_allb] in H; try discriminate.
  - constructor.
  - apply andb_true_iff in H. destruct H as [H1 H2]. constructor; [|eauto].
    unfold respectsb in H1. apply andb_true_iff in H1. apply H1.
Qed.

(** ** Silence of the checker proves the contract *)

Lemma cand_sol_false : forall fuel P env q th,
  rr (allc P env) -> cand_sol fuel P env q th = Some false -> ~ Sols P env q th.
Proof.
  intros fuel P env q th Hrr H [Hr Hs]. unfold cand_sol in H. rewrite Hr in H.
  apply (eval_correct _ _ _ _ _ _ Hrr H) in Hs. discriminate.
Qed.

Lemma no_missing_covered : forall fuel P env q s cands,
  rr (allc P env) -> covers P env q cands ->
  has_missing fuel P env q s cands = false -> has_incon fuel P env q cands = false ->
  forall th, Sols P env q th -> exists tau, th = app_ans s tau.
Proof.
  intros fuel P env q s cands Hrr Hc Hm Hi th Hs. specialize (Hc th Hs).
  unfold has_missing in Hm. unfold has_incon in Hi.
  destruct (cand_sol fuel P env q th) as [[|]|] eqn:E.
  - destruct (instance_of th s) eqn:Ei; [now apply instance_of_app_ans|]. exfalso.
    assert (X : existsb (fun th0 => is_true (cand_sol fuel P env q th0) && negb (instance_of th0 s)) cands = true).
    { apply existsb_exists. exists th. split; [exact Hc|]. rewrite E, Ei. reflexivity. }
    congruence.
  - exfalso. eapply cand_sol_false; eauto.
  - exfalso.
    assert (X : existsb (fun th0 => is_none (cand_sol fuel P env q th0)) cands = true).
    { apply existsb_exists. exists th. split; [exact Hc|]. rewrite E. reflexivity. }
    congruence.
Qed.

Definition answer_scoped (q : query) (a : answer) : bool :=
  match a with
  | AUnique vubs s => ans_scopedb (q_nph q) (q_ubs q) vubs s
  | _ => true
  end.

Theorem check_answer_ok_sound : forall fuel P env q a cands,
  rr (allc P env) -> wf_cls (allc P env) ->
  negfree (q_body q) = true -> wf_goal (q_body q) = true ->
  answer_scoped q a = true ->
  covers P env q cands ->
  check_answer fuel P env q a cands = VOk -> contract P env q a.
Proof.
  intros fuel P env q a cands Hrr W Hn Hw Hsc Hc H. unfold contract.
  destruct a as [vubs s| |vubs s|vubs s|]; cbn [check_answer contractG answer_scoped] in *; try exact I.
  - destruct (sound_half fuel P env q vubs s) as [[|]|] eqn:Es; try discriminate.
    + destruct (has_missing fuel P env q s cands) eqn:Em; [discriminate|].
      cbn [is_none orb] in H. destruct (has_incon fuel P env q cands) eqn:Ei; [discriminate|]. split.
      * intros tau Hr. split; [now apply (ans_scoped_respects _ _ vubs)|].
        destruct (respects_allb_nth _ _ _ Hr) as [L _].
        eapply unique_sound_exact; eauto. eapply respects_allb_ground; eauto.
      * eapply no_missing_covered; eauto.
    + destruct (has_missing fuel P env q s cands); [discriminate|]. cbn [is_none orb] in H. discriminate.
  - destruct (has_solution fuel P env q cands) eqn:Eh; [discriminate|].
    destruct (has_incon fuel P env q cands) eqn:Ei; [discriminate|].
    intros th Hs. specialize (Hc th Hs).
    destruct (cand_sol fuel P env q th) as [[|]|] eqn:E.
    + assert (X : has_solution fuel P env q cands = true).
      { unfold has_solution. apply existsb_exists. exists th. split; [exact Hc|]. rewrite E. reflexivity. }
      congruence.
    + eapply cand_sol_false; eauto.
    + assert (X : has_incon fuel P env q cands = true).
      { unfold has_incon. apply existsb_exists. exists th. split; [exact Hc|]. rewrite E. reflexivity. }
      congruence.
  - destruct (has_missing fuel P env q s cands) eqn:Em; [discriminate|].
    destruct (has_incon fuel P env q cands) eqn:Ei; [discriminate|].
    eapply no_missing_covered; eauto.
Qed.

(** Under the coverage hypothesis a verdict other than "inconclusive" decides the contract. *)
Theorem check_answer_decides : forall fuel P env q a cands,
  rr (allc P env) -> wf_cls (allc P env) ->
  negfree (q_body q) = true -> wf_goal (q_body q) = true ->
  answer_scoped q a = true -> covers P env q cands ->
  (check_answer fuel P env q a cands = VOk -> contract P env q a) /\
  (forall c, check_answer fuel P env q a cands = VAlarm c -> ~ contract P env q a).
Proof.
  intros. split; [now apply check_answer_ok_sound|]. intros c Hc. eapply check_answer_alarm_sound; eauto.
Qed.

(** Closed goals: the single empty candidate covers, so the checker decides. *)
Corollary check_answer_closed_ok_sound : forall fuel P env g a,
  rr (allc P env) -> wf_cls (allc P env) -> negfree g = true -> wf_goal g = true ->
  answer_scoped (closed_query g) a = true ->
  check_answer fuel P env (closed_query g) a [[]] = VOk -> contract P env (closed_query g) a.
Proof. intros. eapply check_answer_ok_sound; eauto. apply covers_closed. Qed.

Module DecideExamples.
  Import ContractExamples.
  (* exists<A> { Vec<I32>: Foo<A> } over P1: the only solution is A = U32 ... *)
  Definition qd := mkQuery 0 [0%N] (GAtom (Foo (Vec I32) (TVar 0))).
  (* ... unless the first impl applies: Foo<T> for Vec<T> gives A = I32 as well *)
  Example decide_nonvacuous :
    check_answer 50 P1 [] qd (ADefinite [0%N] [TVar 0]) [[U32]; [I32]] = VOk /\
    answer_scoped qd (AUnique [] [U32]) = true /\
    check_answer 50 P1 [] (closed_query (GAtom (Foo (Vec I32) U32))) (AUnique [] []) [[]] = VOk.
  Proof. repeat split; reflexivity. Qed.

  Example closed_decided : contract P1 [] (closed_query (GAtom (Foo (Vec I32) U32))) (AUnique [] []).
  Proof.
    apply (check_answer_closed_ok_sound 50); try reflexivity.
    - exact rr1.
    - apply wfb_spec. reflexivity.
  Qed.
End DecideExamples.
