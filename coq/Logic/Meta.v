(** * Logic.Meta — placeholders are generic constants.

    A substitution of *ground terms for placeholders* is a homomorphism of the whole
    semantics: derivations map to derivations, co-sound sets to co-sound sets, and therefore
    every negation-free goal that holds keeps holding ([sat_rp]).  Two corollaries:

    - [placeholder_generic]: what holds for a placeholder that the program, the hypotheses
      and the goal do not mention holds for every ground type in its place;
    - [unique_sound_exact]: the soundness half of the [Unique] contract, which the checker
      tests on ONE instance (fresh placeholders for the answer variables), is thereby
      established for ALL instances — for negation-free bodies the checker's soundness half is
      exact, not just alarm-sound.

    Negation is excluded on purpose: [not] is not monotone, and chalk itself reads a
    placeholder under [not] by inversion. *)

From Chalk Require Export Logic.Contract.

(** ** Substituting placeholders *)

Fixpoint rp (s : N -> ty) (t : ty) : ty :=
  match t with
  | TPh k => s k
  | TAp f x => TAp (rp s f) (rp s x)
  | _ => t
  end.

Definition gsub (s : N -> ty) : Prop := forall k, ground (s k).

Definition rp_clause (s : N -> ty) (c : clause) : clause :=
  mkClause (rp s (chead c)) (map (rp s) (cbody c)).

Definition rp_hyp (s : N -> ty) (h : hyp) : hyp := mkHyp (hn h) (rp_clause s (hc h)).

Fixpoint rp_goal (s : N -> ty) (g : goal) : goal :=
  match g with
  | GAtom a => GAtom (rp s a)
  | GEq t1 t2 => GEq (rp s t1) (rp s t2)
  | GAnd g1 g2 => GAnd (rp_goal s g1) (rp_goal s g2)
  | GTrue => GTrue
  | GForall g' => GForall (rp_goal s g')
  | GExists g' => GExists (rp_goal s g')
  | GIf hs g' => GIf (map (rp_hyp s) hs) (rp_goal s g')
  | GNot g' => GNot (rp_goal s g')
  end.

Definition rp_prog (s : N -> ty) (P : program) : program :=
  mkProg (map (rp_clause s) (pclauses P)) (pcoind P).

Lemma rp_subst : forall s, gsub s -> forall t th,
  rp s (subst th t) = subst (fun i => rp s (th i)) (rp s t).
Proof.
  intros s Hs. induction t as [c|f IHf x IHx|k|j]; intro th; cbn [rp subst]; try reflexivity.
  - now rewrite IHf, IHx.
  - symmetry. apply subst_ground. apply Hs.
Qed.

Lemma rp_ground : forall s, gsub s -> forall t, ground t -> ground (rp s t).
Proof.
  intros s Hs. unfold ground. induction t as [c|f IHf x IHx|k|j]; intro H; cbn [rp groundb] in *; auto.
  - apply andb_true_iff in H. destruct H. now rewrite IHf, IHx.
  - apply Hs.
Qed.

Lemma hsym_rp : forall s t c, hsym t = Some c -> hsym (rp s t) = Some c.
Proof.
  induction t as [d|f IHf x IHx|k|j]; intros c H; cbn [hsym rp] in *; try discriminate; auto.
Qed.

Lemma isco_rp : forall s co t, hsym t <> None -> isco co (rp s t) = isco co t.
Proof.
  intros s co t H. unfold isco. destruct (hsym t) as [c|] eqn:E; [|congruence].
  now rewrite (hsym_rp s t c E).
Qed.

Lemma rp_ext : forall t s1 s2, (forall k, (k < phb t)%N -> s1 k = s2 k) -> rp s1 t = rp s2 t.
Proof.
  induction t as [c|f IHf x IHx|k|j]; intros s1 s2 H; cbn [rp phb] in *; try reflexivity.
  - rewrite (IHf s1 s2), (IHx s1 s2); [reflexivity| |]; intros k Hk; apply H; lia.
  - apply H. lia.
Qed.

Lemma rp_id : forall t, rp (fun k => TPh k) t = t.
Proof. induction t; cbn [rp]; congruence. Qed.

Lemma rp_list_ext : forall l s1 s2,
  (forall k, (k < phb_list l)%N -> s1 k = s2 k) -> map (rp s1) l = map (rp s2) l.
Proof.
  induction l as [|t r IH]; intros s1 s2 H; cbn [map]; [reflexivity|].
  cbn [phb_list fold_right] in H. fold (phb_list r) in H.
  rewrite (rp_ext t s1 s2), (IH s1 s2); [reflexivity| |]; intros k Hk; apply H; lia.
Qed.

Lemma rp_clause_ext : forall c s1 s2,
  (forall k, (k < phb_clause c)%N -> s1 k = s2 k) -> rp_clause s1 c = rp_clause s2 c.
Proof.
  intros c s1 s2 H. unfold rp_clause, phb_clause in *.
  rewrite (rp_ext (chead c) s1 s2), (rp_list_ext (cbody c) s1 s2); [reflexivity| |];
    intros k Hk; apply H; lia.
Qed.

Lemma rp_clauses_ext : forall l s1 s2,
  (forall k, (k < phb_clauses l)%N -> s1 k = s2 k) -> map (rp_clause s1) l = map (rp_clause s2) l.
Proof.
  induction l as [|c r IH]; intros s1 s2 H; cbn [map]; [reflexivity|].
  cbn [phb_clauses fold_right] in H. fold (phb_clauses r) in H.
  rewrite (rp_clause_ext c s1 s2), (IH s1 s2); [reflexivity| |]; intros k Hk; apply H; lia.
Qed.

Definition phb_hyps (hs : list hyp) : N := fold_right (fun h m => N.max (phb_clause (hc h)) m) 0%N hs.

Lemma rp_hyps_ext : forall hs s1 s2,
  (forall k, (k < phb_hyps hs)%N -> s1 k = s2 k) -> map (rp_hyp s1) hs = map (rp_hyp s2) hs.
Proof.
  induction hs as [|h r IH]; intros s1 s2 H; cbn [map]; [reflexivity|].
  cbn [phb_hyps fold_right] in H. fold (phb_hyps r) in H.
  unfold rp_hyp at 1 3. rewrite (rp_clause_ext (hc h) s1 s2), (IH s1 s2); [reflexivity| |];
    intros k Hk; apply H; lia.
Qed.

Lemma rp_goal_ext : forall g s1 s2,
  (forall k, (k < phb_goal g)%N -> s1 k = s2 k) -> rp_goal s1 g = rp_goal s2 g.
Proof.
  induction g as [a|t1 t2|g1 IH1 g2 IH2| |g IH|g IH|hs g IH|g IH]; intros s1 s2 H; cbn [rp_goal phb_goal] in *.
  - now rewrite (rp_ext a s1 s2).
  - rewrite (rp_ext t1 s1 s2), (rp_ext t2 s1 s2); [reflexivity| |]; intros k Hk; apply H; lia.
  - rewrite (IH1 s1 s2), (IH2 s1 s2); [reflexivity| |]; intros k Hk; apply H; lia.
  - reflexivity.
  - now rewrite (IH s1 s2).
  - now rewrite (IH s1 s2).
  - fold (phb_hyps hs) in H. rewrite (rp_hyps_ext hs s1 s2), (IH s1 s2); [reflexivity| |];
      intros k Hk; apply H; lia.
  - now rewrite (IH s1 s2).
Qed.

Lemma listth_rp : forall s rho i, listth (map (rp s) rho) i = rp s (listth rho i).
Proof.
  intros s rho i. unfold listth. change (TVar i) with (rp s (TVar i)) at 1. apply map_nth.
Qed.

Lemma hypth_rp : forall s n rho i, hypth n (map (rp s) rho) i = rp s (hypth n rho i).
Proof.
  intros s n rho i. unfold hypth. destruct (Nat.ltb i n); [reflexivity|].
  change (TVar i) with (rp s (TVar i)) at 1. apply map_nth.
Qed.

Lemma inst_hyp_rp : forall s, gsub s -> forall rho h,
  rp_clause s (inst_hyp rho h) = inst_hyp (map (rp s) rho) (rp_hyp s h).
Proof.
  intros s Hs rho h. unfold inst_hyp, rp_hyp, rp_clause, subst_clause. cbn [chead cbody hn hc]. f_equal.
  - rewrite (rp_subst s Hs). apply subst_ext. intros i _. symmetry. apply hypth_rp.
  - rewrite !map_map. apply map_ext. intro b. rewrite (rp_subst s Hs). apply subst_ext.
    intros i _. symmetry. apply hypth_rp.
Qed.

(** ** Derivations are preserved *)

Definition wf_clause (c : clause) : Prop := hsym (chead c) <> None.
Definition wf_cls (cls : list clause) : Prop := forall c, In c cls -> wf_clause c.
Definition wfb (c : clause) : bool := match hsym (chead c) with Some _ => true | None => false end.

Lemma wfb_spec : forall cls, forallb wfb cls = true <-> wf_cls cls.
Proof.
  intro cls. rewrite forallb_forall. unfold wf_cls, wf_clause, wfb. split; intros H c Hc; specialize (H c Hc);
    destruct (hsym (chead c)); congruence.
Qed.

Lemma inst_hsym : forall cls a bs, wf_cls cls -> inst cls a bs -> hsym a <> None.
Proof.
  intros cls a bs W [c [th [Hc [_ [Hh _]]]]]. subst a. specialize (W c Hc). unfold wf_clause in W.
  destruct (hsym (chead c)) as [h|] eqn:E; [|congruence]. rewrite (hsym_subst _ th h E). discriminate.
Qed.

Lemma isco_true_hsym : forall co a, isco co a = true -> hsym a <> None.
Proof. intros co a H. unfold isco in H. destruct (hsym a); [discriminate|discriminate H]. Qed.

Lemma inst_rp : forall s, gsub s -> forall cls a bs,
  inst cls a bs -> inst (map (rp_clause s) cls) (rp s a) (map (rp s) bs).
Proof.
  intros s Hs cls a bs [c [th [Hc [Hg [Hh Hb]]]]].
  exists (rp_clause s c), (fun i => rp s (th i)). split; [now apply in_map|]. split; [|split].
  - intro i. apply rp_ground; auto.
  - cbn [rp_clause chead]. subst a. symmetry. now apply rp_subst.
  - cbn [rp_clause cbody]. subst bs. rewrite !map_map. apply map_ext. intro b. now apply rp_subst.
Qed.

Section Derive.
  Variable s : N -> ty.
  Hypothesis Hs : gsub s.
  Variable cls : list clause.
  Hypothesis W : wf_cls cls.
  Variable co : list N.

  Definition imgX (X : ty -> Prop) : ty -> Prop := fun y => exists x, X x /\ y = rp s x.

  Lemma derives_rp : forall X a,
    derives (inst cls) (isco co) X a ->
    derives (inst (map (rp_clause s) cls)) (isco co) (imgX X) (rp s a).
  Proof.
    intros X a D. induction D as [a bs Hi Hc Hd IH].
    apply (Der _ _ _ (rp s a) (map (rp s) bs)); [now apply inst_rp| |].
    - intros b' Hb' Hco. apply in_map_iff in Hb'. destruct Hb' as [b [<- Hb]].
      destruct (isco co b) eqn:E.
      + exists b. split; [now apply Hc|reflexivity].
      + exfalso. specialize (Hd b Hb E). inversion Hd as [a' bs' Hi' _ _]; subst.
        rewrite isco_rp in Hco by (eapply inst_hsym; eauto). congruence.
    - intros b' Hb' Hco. apply in_map_iff in Hb'. destruct Hb' as [b [<- Hb]].
      destruct (isco co b) eqn:E.
      + exfalso. rewrite isco_rp in Hco by (eapply isco_true_hsym; eauto). congruence.
      + now apply IH.
  Qed.

  Lemma cosound_rp : forall X,
    cosound (inst cls) (isco co) X -> cosound (inst (map (rp_clause s) cls)) (isco co) (imgX X).
  Proof.
    intros X HX y [x [Hx ->]]. destruct (HX x Hx) as [H1 H2]. split.
    - rewrite isco_rp; [exact H1|]. eapply isco_true_hsym; eauto.
    - now apply derives_rp.
  Qed.

  Lemma holds_rp : forall a,
    holds (inst cls) (isco co) a -> holds (inst (map (rp_clause s) cls)) (isco co) (rp s a).
  Proof.
    intros a H. apply holds_derives in H.
    apply (derives_holds _ _ (imgX (gfpX (inst cls) (isco co)))).
    - apply cosound_rp. apply gfpX_cosound.
    - now apply derives_rp.
  Qed.
End Derive.

(** ** Goals *)

Fixpoint negfree (g : goal) : bool :=
  match g with
  | GAnd g1 g2 => negfree g1 && negfree g2
  | GForall g' | GExists g' | GIf _ g' => negfree g'
  | GNot _ => false
  | _ => true
  end.

Fixpoint wf_goal (g : goal) : bool :=
  match g with
  | GAnd g1 g2 => wf_goal g1 && wf_goal g2
  | GForall g' | GExists g' | GNot g' => wf_goal g'
  | GIf hs g' => forallb (fun h => wfb (hc h)) hs && wf_goal g'
  | _ => true
  end.

Lemma wf_inst_hyp : forall rho hs,
  forallb (fun h => wfb (hc h)) hs = true -> wf_cls (map (inst_hyp rho) hs).
Proof.
  intros rho hs H c Hc. apply in_map_iff in Hc. destruct Hc as [h [<- Hh]].
  rewrite forallb_forall in H. specialize (H h Hh). unfold wfb in H. unfold wf_clause, inst_hyp, subst_clause.
  cbn [chead]. destruct (hsym (chead (hc h))) as [c|] eqn:E; [|discriminate].
  rewrite (hsym_subst _ _ c E). discriminate.
Qed.

Lemma wf_cls_app : forall l1 l2, wf_cls l1 -> wf_cls l2 -> wf_cls (l1 ++ l2).
Proof. intros l1 l2 H1 H2 c Hc. apply in_app_iff in Hc. destruct Hc; auto. Qed.

Lemma allc_rp : forall s P env,
  allc (rp_prog s P) (map (rp_clause s) env) = map (rp_clause s) (allc P env).
Proof. intros. unfold allc, rp_prog. cbn [pclauses]. now rewrite map_app. Qed.

Lemma fresh_bounds : forall P env rho g,
  (phb_clauses (pclauses P) <= fresh P env rho g)%N /\ (phb_clauses env <= fresh P env rho g)%N /\
  (phb_list rho <= fresh P env rho g)%N /\ (phb_goal g <= fresh P env rho g)%N.
Proof. intros. unfold fresh. lia. Qed.

(** The homomorphism theorem. *)
Theorem sat_rp : forall g s P env rho,
  gsub s -> negfree g = true -> wf_goal g = true -> wf_cls (allc P env) ->
  sat P env rho g ->
  sat (rp_prog s P) (map (rp_clause s) env) (map (rp s) rho) (rp_goal s g).
Proof.
  induction g as [a|t1 t2|g1 IH1 g2 IH2| |g IH|g IH|hs g IH|g IH];
    intros s P env rho Hs Hn Hw W H; cbn [sat rp_goal negfree wf_goal] in *.
  - unfold holdsP in *. rewrite allc_rp. cbn [rp_prog pcoind].
    replace (subst (listth (map (rp s) rho)) (rp s a)) with (rp s (subst (listth rho) a)).
    + now apply holds_rp.
    + rewrite (rp_subst s Hs). apply subst_ext. intros i _. symmetry. apply listth_rp.
  - assert (E : forall t, subst (listth (map (rp s) rho)) (rp s t) = rp s (subst (listth rho) t)).
    { intro t. rewrite (rp_subst s Hs). apply subst_ext. intros i _. apply listth_rp. }
    rewrite !E. now rewrite H.
  - apply andb_true_iff in Hn. apply andb_true_iff in Hw. destruct Hn, Hw, H. split; [apply IH1|apply IH2]; auto.
  - exact I.
  - (* forall: map the old fresh placeholder to the new one *)
    set (f := fresh P env rho g) in *.
    set (F' := fresh (rp_prog s P) (map (rp_clause s) env) (map (rp s) rho) (rp_goal s g)).
    set (s2 := fun k => if N.eqb k f then TPh F' else s k).
    assert (Hs2 : gsub s2).
    { intro k. unfold s2. destruct (N.eqb k f); [reflexivity|apply Hs]. }
    destruct (fresh_bounds P env rho g) as [B1 [B2 [B3 B4]]]. fold f in B1, B2, B3, B4.
    assert (Ag : forall k, (k < f)%N -> s2 k = s k).
    { intros k Hk. unfold s2. destruct (N.eqb k f) eqn:E; [apply N.eqb_eq in E; lia|reflexivity]. }
    specialize (IH s2 P env (TPh f :: rho) Hs2 Hn Hw W H).
    cbn [map rp] in IH. unfold s2 at 3 in IH. rewrite N.eqb_refl in IH.
    replace (rp_prog s2 P) with (rp_prog s P) in IH.
    2:{ unfold rp_prog. f_equal. apply rp_clauses_ext. intros k Hk. symmetry. apply Ag. lia. }
    rewrite (rp_clauses_ext env s2 s) in IH by (intros k Hk; apply Ag; lia).
    rewrite (rp_list_ext rho s2 s) in IH by (intros k Hk; apply Ag; lia).
    rewrite (rp_goal_ext g s2 s) in IH by (intros k Hk; apply Ag; lia).
    exact IH.
  - destruct H as [t [Gt Ht]]. exists (rp s t). split; [now apply rp_ground|].
    apply (IH s P env (t :: rho)); auto.
  - apply andb_true_iff in Hw. destruct Hw as [Hw1 Hw2].
    specialize (IH s P (map (inst_hyp rho) hs ++ env) rho Hs Hn Hw2).
    rewrite map_app, map_map in IH.
    rewrite map_map. erewrite map_ext; [apply IH|].
    + unfold allc in *. rewrite <- app_assoc. apply wf_cls_app; [now apply wf_inst_hyp|exact W].
    + exact H.
    + intro h. cbn beta. symmetry. now apply inst_hyp_rp.
  - discriminate.
Qed.

(** ** Corollaries *)

Definition one (k : N) (t : ty) : N -> ty := fun j => if N.eqb j k then t else TPh j.

Lemma rp_one_id : forall k t u, (phb u <= k)%N -> rp (one k t) u = u.
Proof.
  intros k t u H. rewrite <- (rp_id u) at 2. apply rp_ext. intros j Hj. unfold one.
  destruct (N.eqb j k) eqn:E; [apply N.eqb_eq in E; lia|reflexivity].
Qed.

(** A goal that holds with a placeholder [k] unknown to program, hypotheses and goal holds
    with any ground type in its place. *)
Theorem placeholder_generic : forall P env rho g k t,
  (phb_clauses (pclauses P) <= k)%N -> (phb_clauses env <= k)%N -> (phb_goal g <= k)%N ->
  negfree g = true -> wf_goal g = true -> wf_cls (allc P env) -> ground t ->
  sat P env rho g -> sat P env (map (rp (one k t)) rho) g.
Proof.
  intros P env rho g k t B1 B2 B3 Hn Hw W Gt H.
  assert (Hs : gsub (one k t)).
  { intro j. unfold one. destruct (N.eqb j k); [exact Gt|reflexivity]. }
  pose proof (sat_rp g (one k t) P env rho Hs Hn Hw W H) as R.
  assert (Ag : forall j, (j < k)%N -> one k t j = TPh j).
  { intros j Hj. unfold one. destruct (N.eqb j k) eqn:E; [apply N.eqb_eq in E; lia|reflexivity]. }
  replace (rp_prog (one k t) P) with P in R.
  2:{ destruct P as [cl co]. unfold rp_prog. cbn [pclauses pcoind] in *. f_equal.
      rewrite (rp_clauses_ext cl (one k t) (fun j => TPh j)) by (intros j Hj; apply Ag; lia).
      rewrite <- (map_id cl) at 1. apply map_ext. intros [h b]. unfold rp_clause. cbn [chead cbody].
      rewrite rp_id. f_equal. rewrite <- (map_id b) at 1. apply map_ext. intro x. now rewrite rp_id. }
  rewrite (rp_clauses_ext env (one k t) (fun j => TPh j)) in R by (intros j Hj; apply Ag; lia).
  rewrite (rp_goal_ext g (one k t) (fun j => TPh j)) in R by (intros j Hj; apply Ag; lia).
  replace (map (rp_clause (fun j => TPh j)) env) with env in R.
  2:{ rewrite <- (map_id env) at 1. apply map_ext. intros [h b]. unfold rp_clause. cbn [chead cbody].
      rewrite rp_id. f_equal. rewrite <- (map_id b) at 1. apply map_ext. intro x. now rewrite rp_id. }
  replace (rp_goal (fun j => TPh j) g) with g in R; [exact R|].
  clear. induction g as [a|t1 t2|g1 IH1 g2 IH2| |g IH|g IH|hs g IH|g IH]; cbn [rp_goal]; rewrite ?rp_id; try congruence.
  f_equal; [|exact IH]. rewrite <- (map_id hs) at 1. apply map_ext. intros [n [h b]]. unfold rp_hyp, rp_clause.
  cbn [hn hc chead cbody]. rewrite rp_id. do 2 f_equal. rewrite <- (map_id b) at 1. apply map_ext. intro x. now rewrite rp_id.
Qed.

Lemma rp_id_goal : forall g, rp_goal (fun j => TPh j) g = g.
Proof.
  induction g as [a|t1 t2|g1 IH1 g2 IH2| |g IH|g IH|hs g IH|g IH]; cbn [rp_goal]; rewrite ?rp_id; try congruence.
  f_equal; [|exact IH]. rewrite <- (map_id hs) at 2. apply map_ext. intros [n [h b]]. unfold rp_hyp, rp_clause.
  cbn [hn hc chead cbody]. rewrite rp_id. do 2 f_equal. rewrite <- (map_id b) at 2. apply map_ext. intro x. now rewrite rp_id.
Qed.

Lemma rp_id_clauses : forall l, map (rp_clause (fun j => TPh j)) l = l.
Proof.
  intro l. rewrite <- (map_id l) at 2. apply map_ext. intros [h b]. unfold rp_clause. cbn [chead cbody].
  rewrite rp_id. f_equal. rewrite <- (map_id b) at 2. apply map_ext. intro x. now rewrite rp_id.
Qed.

(** Simultaneous instantiation of the fresh answer placeholders [B, B+1, ...] by [tau]. *)
Definition many (B : N) (tau : list ty) : N -> ty :=
  fun j => if N.leb B j then nth (N.to_nat (j - B)) tau (TPh j) else TPh j.

Lemma many_ftau : forall B tau pat,
  (phb_list pat <= B)%N ->
  map (rp (many B tau)) (app_ans pat (ftau B (length tau))) = app_ans pat tau.
Proof.
  intros B tau pat H. unfold app_ans. rewrite map_map. apply map_ext_in. intros t Ht.
  assert (Hb : (phb t <= B)%N) by (pose proof (phb_list_in _ _ Ht); lia).
  clear Ht H. induction t as [c|f IHf x IHx|k|j]; cbn [subst rp phb] in *; try reflexivity.
  - rewrite IHf, IHx by lia. reflexivity.
  - unfold many. destruct (N.leb B k) eqn:E; [apply N.leb_le in E; lia|reflexivity].
  - rewrite listth_ftau. unfold listth. destruct (Nat.ltb j (length tau)) eqn:E.
    + cbn [rp]. unfold many. replace (N.leb B (B + N.of_nat j)) with true by (symmetry; apply N.leb_le; lia).
      replace (N.to_nat (B + N.of_nat j - B)) with j by lia.
      apply Nat.ltb_lt in E. apply nth_indep. exact E.
    + apply Nat.ltb_ge in E. rewrite nth_overflow by exact E. reflexivity.
Qed.

(** The soundness half of [Unique], tested by the checker on the fresh-placeholder instance,
    holds for every ground instantiation of the answer variables (negation-free bodies). *)
Theorem unique_sound_exact : forall fuel P env q vubs pat tau,
  rr (allc P env) -> wf_cls (allc P env) ->
  negfree (q_body q) = true -> wf_goal (q_body q) = true ->
  sound_half fuel P env q vubs pat = Some true ->
  length tau = length vubs -> Forall ground tau ->
  sat P env (rev (app_ans pat tau)) (q_body q).
Proof.
  intros fuel P env q vubs pat tau Hrr W Hn Hw H Hl Hg. unfold sound_half in H.
  apply (eval_correct _ _ _ _ _ _ Hrr) in H. assert (Ht : true = true) by reflexivity. apply H in Ht. clear H.
  set (B := fresh_base P env q pat) in *.
  assert (Hs : gsub (many B tau)).
  { intro j. unfold many. destruct (N.leb B j); [|reflexivity].
    destruct (Nat.ltb (N.to_nat (j - B)) (length tau)) eqn:E.
    - apply Nat.ltb_lt in E. rewrite Forall_forall in Hg. apply Hg. now apply nth_In.
    - apply Nat.ltb_ge in E. rewrite nth_overflow by exact E. reflexivity. }
  pose proof (sat_rp (q_body q) (many B tau) P env _ Hs Hn Hw W Ht) as R.
  assert (Ag : forall j, (j < B)%N -> many B tau j = TPh j).
  { intros j Hj. unfold many. destruct (N.leb B j) eqn:E; [apply N.leb_le in E; lia|reflexivity]. }
  assert (BB : (phb_clauses (pclauses P) <= B)%N /\ (phb_clauses env <= B)%N /\ (phb_list pat <= B)%N /\ (phb_goal (q_body q) <= B)%N).
  { unfold B, fresh_base. lia. }
  destruct BB as [B1 [B2 [B3 B4]]].
  replace (rp_prog (many B tau) P) with P in R.
  2:{ destruct P as [cl co]. unfold rp_prog. cbn [pclauses pcoind] in *. f_equal.
      rewrite (rp_clauses_ext cl (many B tau) (fun j => TPh j)) by (intros j Hj; apply Ag; lia).
      symmetry. apply rp_id_clauses. }
  rewrite (rp_clauses_ext env (many B tau) (fun j => TPh j)) in R by (intros j Hj; apply Ag; lia).
  rewrite rp_id_clauses in R.
  rewrite (rp_goal_ext (q_body q) (many B tau) (fun j => TPh j)) in R by (intros j Hj; apply Ag; lia).
  rewrite rp_id_goal in R. rewrite map_rev in R. rewrite <- Hl in R. rewrite many_ftau in R by exact B3.
  exact R.
Qed.

(** ** Non-vacuity (computation) *)

Module MetaExamples.
  Import SemExamples.
  (* forall-style reasoning on P = { Tr S0; Tr (W T) :- Tr T; Co S0 :- Co S0 }:
     under the hypothesis  !7: Tr  the goal  W<!7>: Tr  holds, hence (placeholder_generic)
     it holds with S0 in place of !7. *)
  Definition hyp7 := [mkClause (Tr (TPh 7)) []].
  Definition g7 := GAtom (Tr (W (TVar 0))).

  Example sat7 : sat P hyp7 [TPh 7] g7.
  Proof.
    assert (R : rr (allc P hyp7)) by (apply rr_allb_spec; reflexivity).
    apply (eval_correct 50 P hyp7 [TPh 7] g7 true R); reflexivity.
  Qed.

  Example sat_rp_nonvacuous :
    sat (rp_prog (one 7 S0) P) (map (rp_clause (one 7 S0)) hyp7) (map (rp (one 7 S0)) [TPh 7]) (rp_goal (one 7 S0) g7).
  Proof.
    apply sat_rp; try reflexivity.
    - intro j. unfold one. destruct (N.eqb j 7); reflexivity.
    - apply wfb_spec. reflexivity.
    - exact sat7.
  Qed.

  (* the answer `Unique [?0 := W<^0>]`-style soundness half on  exists<A> { A: Tr }  restricted to hypotheses-free P:
     pattern W<S0> (no answer variables) is sound for every tau *)
  Example unique_sound_exact_nonvacuous :
    sat P [] (rev (app_ans [W S0] [])) (GAtom (Tr (TVar 0))).
  Proof.
    apply (unique_sound_exact 50 P [] (mkQuery 0 [0%N] (GAtom (Tr (TVar 0)))) [] [W S0] []); try reflexivity.
    - apply rr_allb_spec. reflexivity.
    - apply wfb_spec. reflexivity.
    - constructor.
  Qed.
End MetaExamples.
