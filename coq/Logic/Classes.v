(** * Logic.Classes — the known-class predicates are narrow.

    That the class predicates are *necessary* for the recorded SLG defects cannot be proved
    without a model of the SLG engine.  What can be pinned down in Coq is that they are FALSE on
    the simple shapes that must never be forgiven: goals without unknowns (F14, F14b, F1) and
    programs without any coinductive predicate (F14, F14b, F7q, F7n). *)

From Chalk Require Export Logic.Contract.

Lemma existsb_all_false : forall (A : Type) (f : A -> bool) l, (forall x, In x l -> f x = false) -> existsb f l = false.
Proof.
  intros A f l H. induction l as [|a r IH]; [reflexivity|]. cbn [existsb].
  rewrite (H a (or_introl eq_refl)). apply IH. intros x Hx. apply H. now right.
Qed.

(** ** goals without unknowns are never in F14 / F14b / F1 *)

Theorem f14_class_ground : forall P q, q_ubs q = [] -> f14_class P q = false.
Proof. intros P q H. unfold f14_class. rewrite H. reflexivity. Qed.

Theorem f14b_class_ground : forall P q, q_ubs q = [] -> f14b_class P q = false.
Proof. intros P q H. unfold f14b_class. rewrite H. reflexivity. Qed.

Theorem f1_class_ground : forall P q, q_ubs q = [] -> f1_class P q = false.
Proof. intros P q H. unfold f1_class. rewrite H. reflexivity. Qed.

Corollary classes_closed_query : forall P g,
  f14_class P (closed_query g) = false /\ f14b_class P (closed_query g) = false /\ f1_class P (closed_query g) = false.
Proof.
  intros. split; [apply f14_class_ground; reflexivity|]. split; [apply f14b_class_ground|apply f1_class_ground]; reflexivity.
Qed.

(** ** programs without coinductive predicates are never in F14 / F14b / F7q / F7n *)

Theorem f14_class_inductive : forall P q, pcoind P = [] -> f14_class P q = false.
Proof.
  intros P q H. unfold f14_class. rewrite H. apply andb_false_iff. right.
  apply existsb_all_false. intros c _. destruct (hsym (chead c)); reflexivity.
Qed.

Theorem f14b_class_inductive : forall P q, pcoind P = [] -> f14b_class P q = false.
Proof.
  intros P q H. unfold f14b_class. rewrite H. apply andb_false_iff. right.
  apply existsb_all_false. intros c _. destruct (hsym (chead c)); reflexivity.
Qed.

Lemma isco_nil : forall a, isco [] a = false.
Proof. intro a. unfold isco. destruct (hsym a); reflexivity. Qed.

Lemma f7q_atom_inductive : forall fuel cls a, f7q_atom fuel cls [] a = false.
Proof.
  intros. unfold f7q_atom. destruct (reach (bodies cls) fuel [a] []) as [R|]; [|reflexivity].
  apply existsb_all_false. intros g _. rewrite isco_nil. now rewrite andb_false_r.
Qed.

Lemma f7n_atom_inductive : forall fuel cls a, f7n_atom fuel cls [] a = false.
Proof.
  intros. unfold f7n_atom. destruct (reach (bodies cls) fuel [a] []) as [R|]; [|reflexivity].
  apply existsb_all_false. intros g _. now rewrite isco_nil.
Qed.

Lemma goal_any_false : forall (f : list clause -> ty -> bool), (forall cls a, f cls a = false) ->
  forall g P env rho, goal_any f P env rho g = false.
Proof.
  intros f Hf. induction g as [a|t1 t2|g1 IH1 g2 IH2| |g IH|g IH|hs g IH|g IH]; intros P env rho; cbn [goal_any]; auto.
  - rewrite Hf. apply andb_false_r.
  - now rewrite IH1, IH2.
Qed.

Lemma goal_any_neg_false : forall (f : list clause -> ty -> bool), (forall cls a, f cls a = false) ->
  forall g P env rho neg, goal_any_neg f P env rho neg g = false.
Proof.
  intros f Hf. induction g as [a|t1 t2|g1 IH1 g2 IH2| |g IH|g IH|hs g IH|g IH]; intros P env rho neg; cbn [goal_any_neg]; auto.
  - rewrite Hf. apply andb_false_r.
  - now rewrite IH1, IH2.
Qed.

Theorem f7q_class_inductive : forall fuel P g, pcoind P = [] -> f7q_class fuel P g = false.
Proof.
  intros fuel P g H. unfold f7q_class. rewrite H. apply goal_any_false. intros. apply f7q_atom_inductive.
Qed.

Lemma pairs_later_false : forall (A : Type) (f : A -> A -> bool) l, (forall x y, f x y = false) -> pairs_later f l = false.
Proof.
  intros A f l H. induction l as [|a r IH]; [reflexivity|]. cbn [pairs_later]. rewrite IH, orb_false_r.
  apply existsb_all_false. intros y _. apply H.
Qed.

Lemma two_cycle_members_inductive : forall fuel cls a1 a2, two_cycle_members fuel cls [] a1 a2 = false.
Proof.
  intros. unfold two_cycle_members. apply existsb_all_false. intros g _. now rewrite isco_nil.
Qed.

Lemma f7n_conj_inductive : forall fuel g P, pcoind P = [] -> f7n_conj fuel P g = false.
Proof.
  intros fuel g P H. unfold f7n_conj. rewrite H. rewrite pairs_later_false; [apply andb_false_r|].
  intros. apply two_cycle_members_inductive.
Qed.

Theorem f7n_class_inductive : forall fuel P g, pcoind P = [] -> f7n_class fuel P g = false.
Proof.
  intros fuel P g H. unfold f7n_class. rewrite f7n_conj_inductive, orb_false_r by assumption.
  rewrite H. apply goal_any_neg_false. intros. apply f7n_atom_inductive.
Qed.

Theorem f7q_query_inductive : forall fuel P q cands, pcoind P = [] -> f7q_query fuel P q cands = false.
Proof.
  intros fuel P q cands H. unfold f7q_query. rewrite H. apply existsb_all_false. intros th _.
  apply goal_any_false. intros. apply f7n_atom_inductive.
Qed.

(** F7n only looks at goals with a negation. *)
Lemma f7n_conj_needs_not : forall fuel g P, has_not g = false -> f7n_conj fuel P g = false.
Proof. intros fuel g P H. unfold f7n_conj. now rewrite H. Qed.

Theorem f7n_class_needs_not : forall fuel P g, has_not g = false -> f7n_class fuel P g = false.
Proof.
  intros fuel P g H. unfold f7n_class. rewrite f7n_conj_needs_not, orb_false_r by assumption. revert H.
  generalize (@nil clause) as env. generalize (@nil ty) as rho.
  induction g as [a|t1 t2|g1 IH1 g2 IH2| |g IH|g IH|hs g IH|g IH]; intros rho env H; cbn [goal_any_neg has_not] in *; auto.
  - apply orb_false_iff in H. destruct H. now rewrite IH1, IH2.
  - discriminate.
Qed.

(** F1's symptom needs a repeated variable: a guidance over distinct variables is never forgiven. *)
Example guidance_linear_not_forgiven :
  guidance_repeats (ADefinite [0%N; 0%N] [tapp 2 [TVar 0]; TVar 1]) = false /\
  guidance_repeats (AUnique [0%N] [TVar 0; TVar 0]) = false.
Proof. split; reflexivity. Qed.

(** All of the above in one statement (restated in Props/C01.v). *)
Theorem known_classes_narrow :
  (forall P q, q_ubs q = [] -> f14_class P q = false /\ f14b_class P q = false /\ f1_class P q = false) /\
  (forall P q, pcoind P = [] -> f14_class P q = false /\ f14b_class P q = false) /\
  (forall fuel P g, pcoind P = [] -> f7q_class fuel P g = false /\ f7n_class fuel P g = false) /\
  (forall fuel P q cands, pcoind P = [] -> f7q_query fuel P q cands = false) /\
  (forall fuel P g, has_not g = false -> f7n_class fuel P g = false).
Proof.
  split; [intros P q H; split; [now apply f14_class_ground|split; [now apply f14b_class_ground|now apply f1_class_ground]]|].
  split; [intros P q H; split; [now apply f14_class_inductive|now apply f14b_class_inductive]|].
  split; [intros fuel P g H; split; [now apply f7q_class_inductive|now apply f7n_class_inductive]|].
  split; [intros; now apply f7q_query_inductive|intros; now apply f7n_class_needs_not].
Qed.
