(** * Logic.Ground — the verified evaluator.

    For range-restricted clauses the clause instances whose head is a given *ground* atom
    [a] are determined by matching ([bodies cls a]); the atoms reachable from [a] through
    bodies form a set [R] that is closed, and — when the exploration finishes within fuel —
    finite.  On [R] the meaning of the program is computed by a nested fixed-point
    iteration (outer: greatest, on the coinductive atoms; inner: least), each iteration
    *checked* to have reached a fixed point, so that no cardinality argument is needed:
    out-of-fuel is the explicit outcome [None].

    [eval_correct]: whenever [eval_goal] returns [Some b], [b] is the truth value of the goal
    under the declarative semantics of [Sem] — both directions, all programs, all goals
    ([exists] is decided only positively, by the supplied candidates). *)

From Chalk Require Export Logic.Sem.

(** Number of symbols of a term. *)
Fixpoint tsize (t : ty) : N :=
  match t with
  | TAp f x => (tsize f + tsize x)%N
  | _ => 1%N
  end.

(** Atoms larger than this make the exploration give up ([None]): far beyond every solver
    limit (max_size 10 / 30), and it keeps runaway reach sets (polymorphic recursion) cheap. *)
Definition size_cap : N := 64%N.

Section Eval.
  Variable bods : ty -> list (list ty).
  Variable co : ty -> bool.

  Definition stepB (a : ty) (bs : list ty) : Prop := In bs (bods a).

  (** ** Reachable atoms *)

  Fixpoint reach (fuel : nat) (todo seen : list ty) : option (list ty) :=
    match fuel with
    | O => None
    | S f =>
        match todo with
        | [] => Some seen
        | a :: r =>
            if N.ltb size_cap (tsize a) then None
            else if memT a seen then reach f r seen
            else reach f (concat (bods a) ++ r) (a :: seen)
        end
    end.

  Definition closed (R : list ty) : Prop :=
    forall x bs b, In x R -> In bs (bods x) -> In b bs -> In b R.

  Lemma reach_spec : forall fuel todo seen R,
    reach fuel todo seen = Some R ->
    (forall x bs b, In x seen -> In bs (bods x) -> In b bs -> In b seen \/ In b todo) ->
    closed R /\ incl seen R /\ incl todo R.
  Proof.
    induction fuel as [|f IH]; intros todo seen R H Inv; cbn [reach] in H; [discriminate|].
    destruct todo as [|a r].
    - inversion H; subst. split; [|split].
      + intros x bs b Hx Hbs Hb. destruct (Inv x bs b Hx Hbs Hb) as [?|[]]. assumption.
      + apply incl_refl.
      + intros x [].
    - destruct (N.ltb size_cap (tsize a)); [discriminate|]. destruct (memT a seen) eqn:Em.
      + apply memT_In in Em. destruct (IH r seen R H) as [C [I1 I2]].
        * intros x bs b Hx Hbs Hb. destruct (Inv x bs b Hx Hbs Hb) as [?|[?|?]]; auto. subst. auto.
        * split; [exact C|]. split; [exact I1|]. intros x [<-|Hx]; auto.
      + destruct (IH _ _ R H) as [C [I1 I2]].
        * intros x bs b [<-|Hx] Hbs Hb.
          -- right. apply in_or_app. left. apply in_concat. exists bs. auto.
          -- destruct (Inv x bs b Hx Hbs Hb) as [?|[?|?]].
             ++ left. now right.
             ++ subst. left. now left.
             ++ right. apply in_or_app. now right.
        * split; [exact C|]. split.
          -- intros x Hx. apply I1. now right.
          -- intros x [<-|Hx]; [apply I1; now left|]. apply I2. apply in_or_app. now right.
  Qed.

  (** ** Inner least fixed point, relative to a set [X] of assumed coinductive atoms *)

  Definition okb (X Y bs : list ty) : bool :=
    forallb (fun b => if co b then memT b X else memT b Y) bs.

  Definition stepY (R X Y : list ty) : list ty :=
    filter (fun a => existsb (okb X Y) (bods a)) R.

  Fixpoint lfp_iter (fuel : nat) (R X Y : list ty) : option (list ty) :=
    match fuel with
    | O => None
    | S f =>
        let Y' := stepY R X Y in
        if forallb (fun a => memT a Y) Y' then Some Y else lfp_iter f R X Y'
    end.

  Definition inl (X : list ty) : ty -> Prop := fun x => In x X.

  Lemma stepY_sound : forall R X Y,
    (forall y, In y Y -> derives stepB co (inl X) y) ->
    forall y, In y (stepY R X Y) -> derives stepB co (inl X) y.
  Proof.
    intros R X Y HY y Hy. unfold stepY in Hy. apply filter_In in Hy. destruct Hy as [_ Hy].
    apply existsb_exists in Hy. destruct Hy as [bs [Hbs Hok]]. unfold okb in Hok.
    rewrite forallb_forall in Hok. apply (Der stepB co (inl X) y bs Hbs).
    - intros b Hb Hc. specialize (Hok b Hb). rewrite Hc in Hok. now apply memT_In.
    - intros b Hb Hc. specialize (Hok b Hb). rewrite Hc in Hok. apply HY. now apply memT_In.
  Qed.

  Lemma lfp_sound : forall fuel R X Y L,
    lfp_iter fuel R X Y = Some L ->
    (forall y, In y Y -> derives stepB co (inl X) y) ->
    forall y, In y L -> derives stepB co (inl X) y.
  Proof.
    induction fuel as [|f IH]; intros R X Y L H HY; cbn [lfp_iter] in H; [discriminate|].
    destruct (forallb (fun a => memT a Y) (stepY R X Y)) eqn:E.
    - inversion H; subst. exact HY.
    - apply (IH _ _ _ _ H). apply stepY_sound. exact HY.
  Qed.

  Lemma lfp_prefix : forall fuel R X Y L,
    lfp_iter fuel R X Y = Some L -> forall a, In a (stepY R X L) -> In a L.
  Proof.
    induction fuel as [|f IH]; intros R X Y L H; cbn [lfp_iter] in H; [discriminate|].
    destruct (forallb (fun a => memT a Y) (stepY R X Y)) eqn:E.
    - inversion H; subst. rewrite forallb_forall in E. intros a Ha. apply memT_In. auto.
    - eapply IH; eauto.
  Qed.

  Lemma lfp_complete : forall fuel R X Y L,
    lfp_iter fuel R X Y = Some L -> closed R ->
    forall a, derives stepB co (inl X) a -> In a R -> In a L.
  Proof.
    intros fuel R X Y L H C a D. induction D as [a bs Hs Hc _ IH]. intro Ha.
    apply (lfp_prefix _ _ _ _ _ H). unfold stepY. apply filter_In. split; [exact Ha|].
    apply existsb_exists. exists bs. split; [exact Hs|]. unfold okb. apply forallb_forall.
    intros b Hb. destruct (co b) eqn:Hcb.
    - apply memT_In. apply Hc; assumption.
    - apply memT_In. apply IH; [assumption|assumption|]. eapply C; eauto.
  Qed.

  (** ** Outer greatest fixed point *)

  Fixpoint gfp_iter (fuel fi : nat) (R X : list ty) : option (list ty * list ty) :=
    match fuel with
    | O => None
    | S f =>
        match lfp_iter fi R X [] with
        | None => None
        | Some L =>
            if forallb (fun x => memT x L) X then Some (X, L)
            else gfp_iter f fi R (filter (fun x => memT x L) X)
        end
    end.

  Lemma gfp_sound : forall fuel fi R X0 X L,
    gfp_iter fuel fi R X0 = Some (X, L) ->
    (forall x, In x X0 -> co x = true) ->
    cosound stepB co (inl X) /\ (forall y, In y L -> derives stepB co (inl X) y).
  Proof.
    induction fuel as [|f IH]; intros fi R X0 X L H Hco; cbn [gfp_iter] in H; [discriminate|].
    destruct (lfp_iter fi R X0 []) as [L0|] eqn:EL; [|discriminate].
    destruct (forallb (fun x => memT x L0) X0) eqn:E.
    - inversion H; subst. assert (HL : forall y, In y L -> derives stepB co (inl X) y).
      { apply (lfp_sound _ _ _ _ _ EL). intros y []. }
      split; [|exact HL]. intros x Hx. split; [now apply Hco|]. apply HL.
      rewrite forallb_forall in E. apply memT_In. now apply E.
    - apply (IH _ _ _ _ _ H). intros x Hx. apply filter_In in Hx. apply Hco. tauto.
  Qed.

  Lemma derives_rel : forall R (X : ty -> Prop), closed R ->
    forall a, derives stepB co X a -> In a R -> derives stepB co (fun y => X y /\ In y R) a.
  Proof.
    intros R X C a D. induction D as [a bs Hs Hc _ IH]. intro Ha.
    apply (Der stepB co _ a bs Hs).
    - intros b Hb Hcb. split; [auto|]. eapply C; eauto.
    - intros b Hb Hcb. apply IH; auto. eapply C; eauto.
  Qed.

  Lemma gfp_complete : forall fuel fi R X0 X L,
    gfp_iter fuel fi R X0 = Some (X, L) -> closed R ->
    (forall x, In x R -> gfpX stepB co x -> In x X0) ->
    (forall x, In x R -> gfpX stepB co x -> In x X) /\
    (forall a, In a R -> holds stepB co a -> In a L).
  Proof.
    induction fuel as [|f IH]; intros fi R X0 X L H C Inv; cbn [gfp_iter] in H; [discriminate|].
    destruct (lfp_iter fi R X0 []) as [L0|] eqn:EL; [|discriminate].
    assert (HL0 : forall a, In a R -> holds stepB co a -> In a L0).
    { intros a Ha Hh. apply (lfp_complete _ _ _ _ _ EL C); [|exact Ha].
      apply holds_derives in Hh. apply (derives_rel R _ C) in Hh; [|exact Ha].
      apply (derives_mono stepB co (fun y => gfpX stepB co y /\ In y R)); [|exact Hh].
      intros y [Hy1 Hy2]. unfold inl. auto. }
    destruct (forallb (fun x => memT x L0) X0) eqn:E.
    - inversion H; subst. split; assumption.
    - apply (IH _ _ _ _ _ H C). intros x Hx Hg. apply filter_In. split; [auto|].
      apply memT_In. apply HL0; [exact Hx|]. destruct Hg as [_ Hh]. exact Hh.
  Qed.

  (** ** The evaluator for one atom *)

  Definition eval_atom_g (fuel : nat) (a : ty) : option bool :=
    match reach fuel [a] [] with
    | None => None
    | Some R =>
        match gfp_iter fuel fuel R (filter co R) with
        | None => None
        | Some (X, L) => Some (if co a then memT a X else memT a L)
        end
    end.

  Theorem eval_atom_g_correct : forall fuel a b,
    eval_atom_g fuel a = Some b -> (b = true <-> holds stepB co a).
  Proof.
    intros fuel a b H. unfold eval_atom_g in H.
    destruct (reach fuel [a] []) as [R|] eqn:ER; [|discriminate].
    destruct (reach_spec _ _ _ _ ER) as [C [_ Ia]]; [intros x bs b0 []|].
    assert (HaR : In a R) by (apply Ia; now left).
    destruct (gfp_iter fuel fuel R (filter co R)) as [[X L]|] eqn:EG; [|discriminate].
    destruct (gfp_sound _ _ _ _ _ _ EG) as [S1 S2].
    { intros x Hx. apply filter_In in Hx. tauto. }
    destruct (gfp_complete _ _ _ _ _ _ EG C) as [C1 C2].
    { intros x Hx [Hc _]. apply filter_In. auto. }
    inversion H; subst b. clear H. destruct (co a) eqn:Hco.
    - rewrite memT_In. split.
      + intro Hx. exists (inl X). split; [exact S1|]. now rewrite Hco.
      + intro Hh. apply C1; [exact HaR|]. split; assumption.
    - rewrite memT_In. split.
      + intro Hx. apply (derives_holds stepB co (inl X)); [exact S1|]. now apply S2.
      + intro Hh. now apply C2.
  Qed.
End Eval.

(** ** Clause instances by matching *)

Definition bodies (cls : list clause) (a : ty) : list (list ty) :=
  if groundb a then
    flat_map (fun c => match mtch (chead c) a [] with
                       | Some s => [map (subst (asfun s)) (cbody c)]
                       | None => []
                       end) cls
  else [].

Definition gfun (s : list (nat * ty)) : nat -> ty :=
  fun i => match lookup i s with Some t => t | None => TCon 0 end.

Lemma bodies_spec : forall cls, rr cls ->
  forall a bs, inst cls a bs <-> In bs (bodies cls a).
Proof.
  intros cls Hrr a bs. unfold bodies. split.
  - intros [c [th [Hc [Hg [Hh Hb]]]]].
    assert (Ga : groundb a = true).
    { subst a. apply ground_subst. intros i _. apply Hg. }
    rewrite Ga. apply in_flat_map. exists c. split; [exact Hc|].
    destruct (mtch_complete (chead c) a [] th) as [s [Es As]]; [intros i t Hi; discriminate Hi|exact Hh|].
    rewrite Es. left. subst bs. apply map_ext_in. intros b Hb. apply subst_ext. intros i Hi.
    destruct (mtch_sound _ _ _ _ Es) as [_ [_ Z]].
    specialize (Z i (Hrr c Hc b i Hb Hi)). unfold asfun. destruct (lookup i s) as [t|] eqn:El; [|congruence].
    symmetry. apply As. exact El.
  - destruct (groundb a) eqn:Ga; [|intros []]. intro H. apply in_flat_map in H.
    destruct H as [c [Hc H]]. destruct (mtch (chead c) a []) as [s|] eqn:Es; [|destruct H].
    destruct H as [H|[]]. subst bs.
    destruct (mtch_sound _ _ _ _ Es) as [_ [Y Z]].
    assert (Gs : ground_vals s).
    { eapply mtch_ground; eauto. intros i t Hi. discriminate Hi. }
    exists c, (gfun s). split; [exact Hc|]. split; [|split].
    + intro i. unfold gfun. destruct (lookup i s) as [t|] eqn:El; [eapply Gs; eauto|reflexivity].
    + apply Y. intros i t Hi. unfold gfun. now rewrite Hi.
    + apply map_ext_in. intros b Hb. apply subst_ext. intros i Hi.
      specialize (Z i (Hrr c Hc b i Hb Hi)). unfold asfun, gfun. destruct (lookup i s); [reflexivity|congruence].
Qed.

Definition eval_atom (fuel : nat) (cls : list clause) (co : list N) (a : ty) : option bool :=
  eval_atom_g (bodies cls) (isco co) fuel a.

Theorem eval_atom_correct : forall fuel cls co a b,
  rr cls -> eval_atom fuel cls co a = Some b ->
  (b = true <-> holds (inst cls) (isco co) a).
Proof.
  intros fuel cls co a b Hrr H. unfold eval_atom in H. apply eval_atom_g_correct in H.
  rewrite H. apply holds_step_ext. intros x bs. unfold stepB. symmetry. now apply bodies_spec.
Qed.

(** ** Goals *)

Definition and3 (x y : option bool) : option bool :=
  match x, y with
  | Some false, _ => Some false
  | _, Some false => Some false
  | Some true, Some true => Some true
  | _, _ => None
  end.

(** [cands]: candidate witnesses for [exists] (a bounded search: only a positive verdict). *)
Fixpoint eval_goalx (fuel : nat) (cands : list ty) (P : program) (env : list clause)
                    (rho : list ty) (g : goal) : option bool :=
  match g with
  | GAtom a =>
      let a' := subst (listth rho) a in
      if groundb a' then eval_atom fuel (allc P env) (pcoind P) a' else None
  | GEq t1 t2 =>
      let u1 := subst (listth rho) t1 in
      let u2 := subst (listth rho) t2 in
      if groundb u1 && groundb u2 then Some (ty_eqb u1 u2) else None
  | GAnd g1 g2 => and3 (eval_goalx fuel cands P env rho g1) (eval_goalx fuel cands P env rho g2)
  | GTrue => Some true
  | GForall g' => eval_goalx fuel cands P env (TPh (fresh P env rho g') :: rho) g'
  | GExists g' =>
      if existsb (fun t => groundb t &&
                           match eval_goalx fuel cands P env (t :: rho) g' with
                           | Some true => true
                           | _ => false
                           end) cands
      then Some true else None
  | GIf hs g' =>
      let hs' := map (inst_hyp rho) hs in
      if rr_allb hs' then eval_goalx fuel cands P (hs' ++ env) rho g' else None
  | GNot g' => option_map negb (eval_goalx fuel cands P env rho g')
  end.

Definition eval_goal (fuel : nat) (P : program) (env : list clause) (rho : list ty) (g : goal) : option bool :=
  eval_goalx fuel [] P env rho g.

Theorem eval_goalx_correct : forall g fuel cands P env rho b,
  rr (allc P env) ->
  eval_goalx fuel cands P env rho g = Some b -> (b = true <-> sat P env rho g).
Proof.
  induction g as [a|t1 t2|g1 IH1 g2 IH2| |g IH|g IH|hs g IH|g IH];
    intros fuel cands P env rho b Hrr H; cbn [eval_goalx sat] in *.
  - destruct (groundb (subst (listth rho) a)); [|discriminate].
    unfold holdsP. eapply eval_atom_correct; eauto.
  - destruct (groundb (subst (listth rho) t1) && groundb (subst (listth rho) t2)); [|discriminate].
    inversion H; subst. apply ty_eqb_eq.
  - destruct (eval_goalx fuel cands P env rho g1) as [b1|] eqn:E1;
      destruct (eval_goalx fuel cands P env rho g2) as [b2|] eqn:E2.
    + specialize (IH1 _ _ _ _ _ _ Hrr E1). specialize (IH2 _ _ _ _ _ _ Hrr E2).
      destruct b1, b2; cbn [and3] in H; inversion H; subst; intuition congruence.
    + specialize (IH1 _ _ _ _ _ _ Hrr E1). destruct b1; cbn [and3] in H; [discriminate|].
      inversion H; subst. intuition congruence.
    + specialize (IH2 _ _ _ _ _ _ Hrr E2). destruct b2; cbn [and3] in H; [discriminate|].
      inversion H; subst. intuition congruence.
    + discriminate.
  - inversion H; subst. tauto.
  - eapply IH; eauto.
  - destruct (existsb _ cands) eqn:E; [|discriminate]. inversion H; subst. split; [intros _|reflexivity].
    apply existsb_exists in E. destruct E as [t [_ Ht]]. apply andb_true_iff in Ht. destruct Ht as [Gt Ht].
    exists t. split; [exact Gt|].
    destruct (eval_goalx fuel cands P env (t :: rho) g) as [[|]|] eqn:E1; try discriminate.
    apply (IH _ _ _ _ _ _ Hrr E1). reflexivity.
  - destruct (rr_allb (map (inst_hyp rho) hs)) eqn:Er; [|discriminate].
    apply rr_allb_spec in Er. eapply IH; [|exact H]. unfold allc in *. rewrite <- app_assoc.
    apply rr_app; assumption.
  - destruct (eval_goalx fuel cands P env rho g) as [b1|] eqn:E1; [|discriminate].
    cbn [option_map] in H. inversion H; subst. specialize (IH _ _ _ _ _ _ Hrr E1).
    destruct b1; cbn [negb]; intuition congruence.
Qed.

(** THE oracle theorem: a verdict of the evaluator is the truth value of the goal. *)
Theorem eval_correct : forall fuel P env rho g b,
  rr (allc P env) -> eval_goal fuel P env rho g = Some b -> (b = true <-> sat P env rho g).
Proof. intros. eapply eval_goalx_correct; eauto. Qed.

(** ** Statistics of the ground search space (the side condition of C02) *)

(** The size the solvers measure ([TySizeVisitor]): every outermost type of an atom is
    measured on its own — the largest argument of the atom, in symbols (= type nodes). *)
Fixpoint asize (t : ty) : N :=
  match t with
  | TAp f x => N.max (asize f) (tsize x)
  | _ => 0%N
  end.

Definition reach_stats (fuel : nat) (cls : list clause) (a : ty) : option (N * N) :=
  match reach (bodies cls) fuel [a] [] with
  | None => None
  | Some R => Some (fold_right (fun t m => N.max (asize t) m) 0%N R, N.of_nat (length R))
  end.

Definition stats_join (x y : option (N * N)) : option (N * N) :=
  match x, y with
  | Some (m1, n1), Some (m2, n2) => Some (N.max m1 m2, (n1 + n2)%N)
  | _, _ => None
  end.

(** Size of the search space of a whole (exists-free) goal: the largest type among all atoms
    that any complete search has to look at, and their number.  Mirrors [eval_goalx]. *)
Fixpoint goal_stats (fuel : nat) (P : program) (env : list clause) (rho : list ty) (g : goal) : option (N * N) :=
  match g with
  | GAtom a =>
      let a' := subst (listth rho) a in
      if groundb a' then reach_stats fuel (allc P env) a' else None
  | GEq t1 t2 => Some (N.max (tsize (subst (listth rho) t1)) (tsize (subst (listth rho) t2)), 0%N)
  | GAnd g1 g2 => stats_join (goal_stats fuel P env rho g1) (goal_stats fuel P env rho g2)
  | GTrue => Some (0%N, 0%N)
  | GForall g' => goal_stats fuel P env (TPh (fresh P env rho g') :: rho) g'
  | GExists _ => None
  | GIf hs g' =>
      (* the hypotheses are part of the goal the solvers measure *)
      let hs' := map (inst_hyp rho) hs in
      let hsz := fold_right (fun c m => N.max (asize (chead c)) (fold_right (fun b k => N.max (asize b) k) m (cbody c))) 0%N hs' in
      stats_join (Some (hsz, 0%N)) (goal_stats fuel P (hs' ++ env) rho g')
  | GNot g' => goal_stats fuel P env rho g'
  end.

(** ** Non-vacuity and sanity (tests by computation; not the property theorems) *)

Module GroundExamples.
  Import SemExamples.

  Example rr_P : rr (allc P []).
  Proof. apply rr_allb_spec. reflexivity. Qed.

  Example eval_true : eval_goal 50 P [] [] (GAtom (Tr (W (W S0)))) = Some true.
  Proof. reflexivity. Qed.

  Example eval_co : eval_goal 50 P [] [] (GAnd (GAtom (Co S0)) (GNot (GAtom (Co (W S0))))) = Some true.
  Proof. reflexivity. Qed.

  (* forall<X> { if (X: Tr) { W<X>: Tr } }  and  forall<X> { W<X>: Tr } *)
  Example eval_forall_if :
    eval_goal 50 P [] [] (GForall (GIf [mkHyp 0 (mkClause (Tr (TVar 0)) [])] (GAtom (Tr (W (TVar 0)))))) = Some true /\
    eval_goal 50 P [] [] (GForall (GAtom (Tr (W (TVar 0))))) = Some false.
  Proof. split; reflexivity. Qed.

  Example eval_correct_nonvacuous : sat P [] [] (GAtom (Tr (W (W S0)))).
  Proof. apply (eval_correct 50 P [] [] _ true rr_P eval_true). reflexivity. Qed.

  (* out of fuel is an explicit outcome *)
  Example eval_fuel : eval_goal 1 P [] [] (GAtom (Tr (W (W S0)))) = None.
  Proof. reflexivity. Qed.
End GroundExamples.
