(** * Logic.Inv — the inversion reading of [not] under hypotheses that mention placeholders.

    [Sem.sat] reads [not { G }] classically over the *opaque* placeholders in scope (the
    generic-constant reading of the properties' text).  chalk does something else
    (`InferenceTable::invert`, used by both engines for negative literals): the negated
    subgoal — goal AND environment — has its placeholders turned into existential variables,
    and the negative literal fails as soon as that inverted subgoal has an answer.  So
    [forall<T> { if (T: Foo) { not { A: Bar } } }] fails in chalk whenever SOME type in place
    of [T] makes [T: Foo |- A: Bar] derivable (here [T := A] with [impl Bar for A where A: Foo]),
    although for an opaque [T] the goal holds.

    [sat_inv] is that reading: identical to [sat] except that [GNot g] holds iff there is NO
    ground substitution [s] of the placeholders with [g] holding under [s env], [s rho].
    - [sat_inv_negfree]: without [not] the readings are the same relation;
    - [sat_inv_clean]: they agree on every goal in which no [not] sits below a [forall] and
      nothing in scope mentions a placeholder (the goal language the checks used so far);
    - [sat_inv_le]: the inversion reading is the stronger one on goals whose [not]s are not
      nested ([sat_inv -> sat]); so where the readings differ, chalk answers "no solution" for
      a goal that holds under the literal text — known class [neg_inv_shape] + "readings
      differ";
    - [eval_inv]: evaluator (the substitutions range over a supplied finite universe);
      [eval_inv_false_sound]: a verdict [Some false] is a proof that the goal fails under the
      inversion reading ([Some true] is a bounded search, like the completeness half of the
      contract checker). *)

From Chalk Require Export Logic.Meta.

Fixpoint sat_inv (P : program) (env : list clause) (rho : list ty) (g : goal) : Prop :=
  match g with
  | GAtom a => holdsP P env (subst (listth rho) a)
  | GEq t1 t2 => subst (listth rho) t1 = subst (listth rho) t2
  | GAnd g1 g2 => sat_inv P env rho g1 /\ sat_inv P env rho g2
  | GTrue => True
  | GForall g' => sat_inv P env (TPh (fresh P env rho g') :: rho) g'
  | GExists g' => exists t, ground t /\ sat_inv P env (t :: rho) g'
  | GIf hs g' => sat_inv P (map (inst_hyp rho) hs ++ env) rho g'
  | GNot g' => ~ exists s, gsub s /\ sat_inv P (map (rp_clause s) env) (map (rp s) rho) g'
  end.

Theorem sat_inv_negfree : forall g P env rho, negfree g = true -> (sat_inv P env rho g <-> sat P env rho g).
Proof.
  induction g as [a|t1 t2|g1 IH1 g2 IH2| |g IH|g IH|hs g IH|g IH]; intros P env rho H; cbn [sat_inv sat negfree] in *;
    try tauto.
  - apply andb_true_iff in H. destruct H. rewrite IH1, IH2 by assumption. tauto.
  - now apply IH.
  - split; intros [t [Gt Ht]]; exists t; (split; [exact Gt|]); now apply IH.
  - now apply IH.
  - discriminate.
Qed.

(** ** nothing in scope mentions a placeholder: the readings agree *)

Lemma phb_list_zero_in : forall l t, phb_list l = 0%N -> In t l -> phb t = 0%N.
Proof. intros l t H Ht. pose proof (phb_list_in l t Ht). lia. Qed.

Lemma rp_zero : forall s t, phb t = 0%N -> rp s t = t.
Proof. intros s t H. rewrite <- (rp_id t) at 2. apply rp_ext. intros k Hk. lia. Qed.

Lemma rp_list_zero : forall s l, phb_list l = 0%N -> map (rp s) l = l.
Proof.
  intros s l H. rewrite <- (map_id l) at 2. apply map_ext_in. intros t Ht. apply rp_zero.
  eapply phb_list_zero_in; eauto.
Qed.

Lemma rp_clauses_zero : forall s l, phb_clauses l = 0%N -> map (rp_clause s) l = l.
Proof.
  intros s l H. rewrite (rp_clauses_ext l s (fun j => TPh j)) by (intros k Hk; lia). apply rp_id_clauses.
Qed.

Lemma phb_subst_zero : forall th t, phb t = 0%N -> (forall i, phb (th i) = 0%N) -> phb (subst th t) = 0%N.
Proof.
  intros th. induction t as [c|f IHf x IHx|k|j]; intros H Hth; cbn [subst phb] in *.
  - reflexivity.
  - rewrite IHf, IHx by (auto; lia). reflexivity.
  - lia.
  - apply Hth.
Qed.

Lemma phb_list_nth : forall l i d, phb_list l = 0%N -> phb d = 0%N -> phb (nth i l d) = 0%N.
Proof.
  intros l i d H Hd. destruct (Nat.ltb i (length l)) eqn:E.
  - apply Nat.ltb_lt in E. eapply phb_list_zero_in; eauto. now apply nth_In.
  - apply Nat.ltb_ge in E. now rewrite nth_overflow.
Qed.

Lemma phb_list_map_zero : forall (f : ty -> ty) l, (forall t, In t l -> phb (f t) = 0%N) -> phb_list (map f l) = 0%N.
Proof.
  intros f l H. induction l as [|a r IH]; [reflexivity|]. cbn [map phb_list fold_right].
  fold (phb_list (map f r)). rewrite (H a (or_introl eq_refl)), IH; [reflexivity|]. intros t Ht. apply H. now right.
Qed.

Lemma phb_clauses_app : forall l1 l2, phb_clauses (l1 ++ l2) = N.max (phb_clauses l1) (phb_clauses l2).
Proof.
  induction l1 as [|c r IH]; intro l2; cbn [app].
  - change (phb_clauses []) with 0%N. symmetry. apply N.max_0_l.
  - change (phb_clauses (c :: r ++ l2)) with (N.max (phb_clause c) (phb_clauses (r ++ l2))).
    change (phb_clauses (c :: r)) with (N.max (phb_clause c) (phb_clauses r)). rewrite IH. lia.
Qed.

Lemma inst_hyps_clean : forall rho hs,
  phb_list rho = 0%N -> phb_hyps hs = 0%N -> phb_clauses (map (inst_hyp rho) hs) = 0%N.
Proof.
  intros rho hs Hr. induction hs as [|h r IH]; intro H; [reflexivity|].
  cbn [phb_hyps fold_right] in H. fold (phb_hyps r) in H. cbn [map phb_clauses fold_right].
  fold (phb_clauses (map (inst_hyp rho) r)). rewrite IH by lia.
  assert (Hth : forall i, phb (hypth (hn h) rho i) = 0%N).
  { intro i. unfold hypth. destruct (Nat.ltb i (hn h)); [reflexivity|]. now apply phb_list_nth. }
  unfold inst_hyp, subst_clause, phb_clause in *. cbn [chead cbody].
  rewrite phb_subst_zero by (auto; lia).
  rewrite phb_list_map_zero; [reflexivity|]. intros t Ht. apply phb_subst_zero; [|exact Hth].
  pose proof (phb_list_in _ _ Ht). lia.
Qed.

(** no [not] below a [forall] / [exists] (those bring placeholders / arbitrary ground terms
    into scope), and no [not] below a [not] *)
Fixpoint naf (g : goal) : bool :=
  match g with
  | GAnd g1 g2 => naf g1 && naf g2
  | GForall g' | GExists g' | GNot g' => negfree g'
  | GIf _ g' => naf g'
  | _ => true
  end.

Theorem sat_inv_clean : forall g P env rho,
  naf g = true -> phb_clauses env = 0%N -> phb_list rho = 0%N -> phb_goal g = 0%N ->
  (sat_inv P env rho g <-> sat P env rho g).
Proof.
  induction g as [a|t1 t2|g1 IH1 g2 IH2| |g IH|g IH|hs g IH|g IH]; intros P env rho H He Hr Hg;
    cbn [sat_inv sat naf phb_goal] in *; try tauto.
  - apply andb_true_iff in H. destruct H. rewrite IH1, IH2 by (auto; lia). tauto.
  - now apply sat_inv_negfree.
  - split; intros [t [Gt Ht]]; exists t; (split; [exact Gt|]); now apply sat_inv_negfree.
  - fold (phb_hyps hs) in Hg. apply IH; auto; [|lia].
    rewrite phb_clauses_app, inst_hyps_clean by (auto; lia). lia.
  - split; intros Hn Hs; apply Hn.
    + exists (fun k => TPh k). split; [intro k; reflexivity|].
      rewrite rp_clauses_zero, rp_list_zero by assumption. now apply sat_inv_negfree.
    + destruct Hs as [s [_ Hs]]. rewrite rp_clauses_zero, rp_list_zero in Hs by assumption.
      now apply sat_inv_negfree.
Qed.

(** ** the inversion reading is the stronger one (non-nested [not]) *)

Fixpoint nn1 (g : goal) : bool :=
  match g with
  | GAnd g1 g2 => nn1 g1 && nn1 g2
  | GForall g' | GExists g' | GIf _ g' => nn1 g'
  | GNot g' => negfree g'
  | _ => true
  end.

Theorem sat_inv_le : forall g P env rho, nn1 g = true -> sat_inv P env rho g -> sat P env rho g.
Proof.
  induction g as [a|t1 t2|g1 IH1 g2 IH2| |g IH|g IH|hs g IH|g IH]; intros P env rho H Hs; cbn [sat_inv sat nn1] in *; auto.
  - apply andb_true_iff in H. destruct H, Hs. split; auto.
  - destruct Hs as [t [Gt Ht]]. exists t. auto.
  - intro Hc. apply Hs. exists (fun k => TPh k). split; [intro k; reflexivity|].
    rewrite rp_id_clauses. replace (map (rp (fun k => TPh k)) rho) with rho.
    + now apply sat_inv_negfree.
    + rewrite <- (map_id rho) at 1. apply map_ext. intro t. now rewrite rp_id.
Qed.

(** ** evaluator *)

Definition ph_ids (rho : list ty) : list N :=
  flat_map (fun t => match t with TPh k => [k] | _ => [] end) rho.

Fixpoint assigns (ids : list N) (univ : list ty) : list (list (N * ty)) :=
  match ids with
  | [] => [[]]
  | k :: r => flat_map (fun t => map (fun a => (k, t) :: a) (assigns r univ)) univ
  end.

Definition asub (a : list (N * ty)) : N -> ty :=
  fun k => match find (fun p => N.eqb (fst p) k) a with Some p => snd p | None => TPh k end.

Definition ground_assign (a : list (N * ty)) : bool := forallb (fun p => groundb (snd p)) a.

Lemma asub_gsub : forall a, ground_assign a = true -> gsub (asub a).
Proof.
  intros a H k. unfold asub. destruct (find (fun p => N.eqb (fst p) k) a) as [p|] eqn:E; [|reflexivity].
  apply find_some in E. destruct E as [Hin _]. unfold ground_assign in H. rewrite forallb_forall in H. now apply H.
Qed.

Definition is_false (o : option bool) : bool := match o with Some false => true | _ => false end.

Fixpoint eval_inv (fuel : nat) (univ : list ty) (P : program) (env : list clause) (rho : list ty) (g : goal) : option bool :=
  match g with
  | GAtom a =>
      let a' := subst (listth rho) a in
      if groundb a' then eval_atom fuel (allc P env) (pcoind P) a' else None
  | GEq t1 t2 =>
      let u1 := subst (listth rho) t1 in
      let u2 := subst (listth rho) t2 in
      if groundb u1 && groundb u2 then Some (ty_eqb u1 u2) else None
  | GAnd g1 g2 => and3 (eval_inv fuel univ P env rho g1) (eval_inv fuel univ P env rho g2)
  | GTrue => Some true
  | GForall g' => eval_inv fuel univ P env (TPh (fresh P env rho g') :: rho) g'
  | GExists _ => None
  | GIf hs g' =>
      let hs' := map (inst_hyp rho) hs in
      if rr_allb hs' then eval_inv fuel univ P (hs' ++ env) rho g' else None
  | GNot g' =>
      if negfree g' then
        let subs := filter ground_assign (assigns (ph_ids rho) univ) in
        let rs := map (fun a => eval_goal fuel P (map (rp_clause (asub a)) env) (map (rp (asub a)) rho) g') subs in
        if existsb is_true rs then Some false
        else if forallb is_false rs then Some true else None
      else None
  end.

Lemma occurs_rp : forall s, gsub s -> forall t i, occurs i (rp s t) = occurs i t.
Proof.
  intros s Hs. induction t as [c|f IHf x IHx|k|j]; intro i; cbn [rp occurs]; auto.
  - now rewrite IHf, IHx.
  - apply ground_no_occurs. apply Hs.
Qed.

Lemma rr_rp : forall s, gsub s -> forall cls, rr cls -> rr (map (rp_clause s) cls).
Proof.
  intros s Hs cls H c Hc. apply in_map_iff in Hc. destruct Hc as [c0 [<- Hc0]].
  intros b i Hb Hi. cbn [rp_clause chead cbody] in *. apply in_map_iff in Hb. destruct Hb as [b0 [<- Hb0]].
  rewrite occurs_rp in * by assumption. eapply H; eauto.
Qed.

Lemma rr_split : forall l1 l2, rr (l1 ++ l2) -> rr l1 /\ rr l2.
Proof. intros l1 l2 H. split; intros c Hc; apply H; apply in_app_iff; auto. Qed.

Lemma and3_false : forall x y, and3 x y = Some false -> x = Some false \/ y = Some false.
Proof. intros [[|]|] [[|]|]; cbn [and3]; intro H; try discriminate; auto. Qed.

Theorem eval_inv_false_sound : forall g fuel univ P env rho,
  rr (allc P env) -> eval_inv fuel univ P env rho g = Some false -> ~ sat_inv P env rho g.
Proof.
  induction g as [a|t1 t2|g1 IH1 g2 IH2| |g IH|g IH|hs g IH|g IH];
    intros fuel univ P env rho Hrr H; cbn [eval_inv sat_inv] in *.
  - destruct (groundb (subst (listth rho) a)); [|discriminate]. intro Hs.
    apply (eval_atom_correct _ _ _ _ _ Hrr H) in Hs. discriminate.
  - destruct (groundb (subst (listth rho) t1) && groundb (subst (listth rho) t2)); [|discriminate].
    inversion H as [E]. apply ty_eqb_neq in E. exact E.
  - apply and3_false in H. intros [S1 S2]. destruct H as [H|H]; [eapply IH1|eapply IH2]; eauto.
  - discriminate.
  - eapply IH; eauto.
  - discriminate.
  - destruct (rr_allb (map (inst_hyp rho) hs)) eqn:Er; [|discriminate]. apply rr_allb_spec in Er.
    eapply IH; [|exact H]. unfold allc in *. rewrite <- app_assoc. now apply rr_app.
  - destruct (negfree g) eqn:En; [|discriminate]. intro Hn. apply Hn. clear Hn.
    match type of H with context [existsb is_true ?rs] => destruct (existsb is_true rs) eqn:Ex end.
    + apply existsb_exists in Ex. destruct Ex as [r [Hr Ht]]. apply in_map_iff in Hr.
      destruct Hr as [a [<- Ha]]. apply filter_In in Ha. destruct Ha as [_ Hg].
      exists (asub a). split; [now apply asub_gsub|]. apply sat_inv_negfree; [exact En|].
      destruct (eval_goal fuel P (map (rp_clause (asub a)) env) (map (rp (asub a)) rho) g) as [[|]|] eqn:E; try discriminate.
      refine (proj1 (eval_correct _ _ _ _ _ _ _ E) eq_refl).
      unfold allc in *. destruct (rr_split _ _ Hrr) as [R1 R2]. apply rr_app; [|exact R2].
      apply rr_rp; [now apply asub_gsub|exact R1].
    + match type of H with context [forallb is_false ?rs] => destruct (forallb is_false rs) end; discriminate.
Qed.

(** ** the shape of the known class *)

(** a [not] in the scope of a hypothesis that mentions a variable of the goal *)
Fixpoint neg_inv_shape (inscope : bool) (g : goal) : bool :=
  match g with
  | GNot _ => inscope
  | GAnd g1 g2 => neg_inv_shape inscope g1 || neg_inv_shape inscope g2
  | GForall g' | GExists g' => neg_inv_shape inscope g'
  | GIf hs g' => neg_inv_shape (inscope || existsb hyp_mentions_goal_var hs) g'
  | _ => false
  end.

Lemma neg_inv_shape_negfree : forall g b, negfree g = true -> neg_inv_shape b g = false.
Proof.
  induction g as [a|t1 t2|g1 IH1 g2 IH2| |g IH|g IH|hs g IH|g IH]; intros b H; cbn [neg_inv_shape negfree] in *; auto.
  - apply andb_true_iff in H. destruct H. now rewrite IH1, IH2.
  - discriminate.
Qed.

Module InvExamples.
  (* trait Foo {} trait Bar {} struct A {} struct B {} struct S<T> {}
     impl Bar for A where A: Foo {}  impl<T> Bar for S<T> where T: Foo {}  impl Foo for B {} *)
  Definition A := tapp 0 [].
  Definition B := tapp 1 [].
  Definition S t := tapp 2 [t].
  Definition Foo t := tapp 1000 [t].
  Definition Bar t := tapp 1001 [t].
  Definition Pn := mkProg [mkClause (Bar A) [Foo A]; mkClause (Bar (S (TVar 0))) [Foo (TVar 0)]; mkClause (Foo B) []] [].
  (* forall<T> { if (T: Foo) { not { A: Bar } } } *)
  Definition gn := GForall (GIf [mkHyp 0 (mkClause (Foo (TVar 0)) [])] (GNot (GAtom (Bar A)))).

  Example rrn : rr (allc Pn []).
  Proof. apply rr_allb_spec. reflexivity. Qed.

  (** The literal (generic-constant) reading says the goal holds, the inversion reading —
      chalk's — says it fails: the readings differ on this goal, which has the class shape. *)
  Theorem neg_inv_differ :
    neg_inv_shape false gn = true /\ sat Pn [] [] gn /\ ~ sat_inv Pn [] [] gn.
  Proof.
    split; [reflexivity|]. split.
    - apply (eval_correct 50 Pn [] [] gn true rrn); reflexivity.
    - apply (eval_inv_false_sound gn 50 [A; B] Pn [] [] rrn). reflexivity.
  Qed.

  (* a hypothesis that cannot produce  A: Foo : the readings agree (bounded search says so) *)
  Example neg_inv_agree :
    eval_inv 50 [A; B; S A; TPh 99] Pn [] [] (GForall (GIf [mkHyp 0 (mkClause (Foo (S (TVar 0))) [])] (GNot (GAtom (Bar A))))) = Some true /\
    eval_goal 50 Pn [] [] (GForall (GIf [mkHyp 0 (mkClause (Foo (S (TVar 0))) [])] (GNot (GAtom (Bar A))))) = Some true.
  Proof. split; reflexivity. Qed.
End InvExamples.
