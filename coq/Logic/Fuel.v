(** * Logic.Fuel — the oracle is not under-fuelled.

    [eval_goal] can answer [None] for three reasons: the goal is outside its domain
    ([exists], a non-ground atom, a hypothesis that is not range-restricted), the ground reach
    set of one of its atoms cannot be explored (genuinely infinite, or an atom beyond
    [size_cap]), or the fuel is too small.  This file removes the third reason: if the
    exploration of every atom finishes with some fuel [fuel0] ([goal_ready] — an executable
    statement of "the reach sets are finite"), then every fuel above [fuel0] and above the
    largest reach set makes [eval_goal] answer.  The fixed-point iterations need at most
    [|R| + 1] rounds each because the inner chain strictly grows and the outer chain strictly
    shrinks inside the finite set [R]. *)

From Chalk Require Export Logic.Ground.

Lemma filter_length_le : forall (p : ty -> bool) l, length (filter p l) <= length l.
Proof. induction l as [|a r IH]; cbn [filter length]; [lia|]. destruct (p a); cbn [length]; lia. Qed.

Lemma filter_length_lt : forall (p q : ty -> bool) l,
  (forall a, In a l -> p a = true -> q a = true) ->
  (exists a, In a l /\ q a = true /\ p a = false) ->
  length (filter p l) < length (filter q l).
Proof.
  induction l as [|x r IH]; intros Hpq [a [Ha [Hq Hp]]]; [destruct Ha|].
  assert (Hle : length (filter p r) <= length (filter q r)).
  { clear -Hpq. induction r as [|y r IH]; cbn [filter length]; [lia|].
    assert (IH' : length (filter p r) <= length (filter q r)).
    { apply IH. intros a Ha. apply Hpq. destruct Ha; [now left|right; now right]. }
    destruct (p y) eqn:Ep.
    - rewrite (Hpq y (or_intror (or_introl eq_refl)) Ep). cbn [length]. lia.
    - destruct (q y); cbn [length]; lia. }
  cbn [filter]. destruct Ha as [<-|Ha].
  - rewrite Hq, Hp. cbn [length]. lia.
  - assert (Hlt : length (filter p r) < length (filter q r)).
    { apply IH; [intros b Hb; apply Hpq; now right|exists a; auto]. }
    destruct (p x) eqn:Ep.
    + rewrite (Hpq x (or_introl eq_refl) Ep). cbn [length]. lia.
    + destruct (q x); cbn [length]; lia.
Qed.

Lemma filter_length_lt_self : forall (p : ty -> bool) l,
  (exists a, In a l /\ p a = false) -> length (filter p l) < length l.
Proof.
  induction l as [|x r IH]; intros [a [Ha Hp]]; [destruct Ha|]. cbn [filter length].
  destruct Ha as [<-|Ha].
  - rewrite Hp. pose proof (filter_length_le p r). lia.
  - assert (length (filter p r) < length r) by (apply IH; eauto).
    destruct (p x); cbn [length]; lia.
Qed.

Section FuelGen.
  Variable bods : ty -> list (list ty).
  Variable co : ty -> bool.

  Lemma reach_mono : forall f f' todo seen R,
    reach bods f todo seen = Some R -> f <= f' -> reach bods f' todo seen = Some R.
  Proof.
    induction f as [|f IH]; intros f' todo seen R H Hle; cbn [reach] in H; [discriminate|].
    destruct f' as [|f']; [lia|]. cbn [reach]. destruct todo as [|a r]; [exact H|].
    destruct (N.ltb size_cap (tsize a)); [discriminate|].
    destruct (memT a seen); apply IH; auto; lia.
  Qed.

  (** *** inner iteration *)

  Definition qstep (X Y : list ty) : ty -> bool := fun a => existsb (okb co X Y) (bods a).

  Lemma okb_mono : forall X Y Y' bs,
    (forall y, In y Y -> In y Y') -> okb co X Y bs = true -> okb co X Y' bs = true.
  Proof.
    intros X Y Y' bs HY H. unfold okb in *. rewrite forallb_forall in *. intros b Hb.
    specialize (H b Hb). destruct (co b); [exact H|]. apply memT_In. apply HY. now apply memT_In.
  Qed.

  Lemma qstep_mono : forall X Y Y' a,
    (forall y, In y Y -> In y Y') -> qstep X Y a = true -> qstep X Y' a = true.
  Proof.
    intros X Y Y' a HY H. unfold qstep in *. apply existsb_exists in H. destruct H as [bs [Hb Ho]].
    apply existsb_exists. exists bs. split; [exact Hb|]. eapply okb_mono; eauto.
  Qed.

  (** [Y] is a stage of the chain: a filter of [R] that is contained in its own successor. *)
  Definition stage (R X Y : list ty) : Prop :=
    exists p : ty -> bool, Y = filter p R /\ forall a, In a R -> p a = true -> qstep X Y a = true.

  Lemma stage_nil : forall R X, stage R X [].
  Proof.
    intros R X. exists (fun _ => false). split; [|intros; discriminate].
    induction R; cbn [filter]; auto.
  Qed.

  Lemma stage_incl : forall R X Y, stage R X Y -> forall y, In y Y -> In y (stepY bods co R X Y).
  Proof.
    intros R X Y [p [-> Hp]] y Hy. apply filter_In in Hy. destruct Hy as [Hr Hpy].
    unfold stepY. apply filter_In. split; [exact Hr|]. apply (Hp y Hr Hpy).
  Qed.

  Lemma stage_step : forall R X Y, stage R X Y -> stage R X (stepY bods co R X Y).
  Proof.
    intros R X Y St. exists (qstep X Y). split; [reflexivity|].
    intros a Ha Hq. eapply qstep_mono; [|exact Hq]. apply stage_incl. exact St.
  Qed.

  Lemma stage_le : forall R X Y, stage R X Y -> length Y <= length R.
  Proof. intros R X Y [p [-> _]]. apply filter_length_le. Qed.

  Lemma stage_grows : forall R X Y, stage R X Y ->
    forallb (fun a => memT a Y) (stepY bods co R X Y) = false ->
    length Y < length (stepY bods co R X Y).
  Proof.
    intros R X Y St H. pose proof (stage_incl R X Y St) as Hin. destruct St as [p [-> Hp]].
    unfold stepY in *. apply filter_length_lt.
    - intros a Ha Hpa. apply (Hp a Ha Hpa).
    - destruct (forallb (fun a => memT a (filter p R)) (filter (fun a => existsb (okb co X (filter p R)) (bods a)) R)) eqn:E; [discriminate|].
      assert (Hex : exists a, In a (filter (fun a => existsb (okb co X (filter p R)) (bods a)) R) /\ memT a (filter p R) = false).
      { clear -E. induction (filter (fun a => existsb (okb co X (filter p R)) (bods a)) R) as [|x l IH]; cbn [forallb] in E; [discriminate|].
        destruct (memT x (filter p R)) eqn:Em.
        - cbn [andb] in E. destruct (IH E) as [a [Ha Hm]]. exists a. split; [now right|exact Hm].
        - exists x. split; [now left|exact Em]. }
      destruct Hex as [a [Ha Hm]]. apply filter_In in Ha. destruct Ha as [HaR Hq].
      exists a. split; [exact HaR|]. split; [exact Hq|].
      destruct (p a) eqn:Ep; [|reflexivity]. exfalso.
      assert (In a (filter p R)) by (apply filter_In; auto). apply memT_In in H0. congruence.
  Qed.

  Lemma lfp_terminates : forall k R X Y,
    stage R X Y -> length R - length Y <= k -> exists L, lfp_iter bods co (S k) R X Y = Some L.
  Proof.
    induction k as [|k IH]; intros R X Y St Hm; cbn [lfp_iter].
    - destruct (forallb (fun a => memT a Y) (stepY bods co R X Y)) eqn:E; [eauto|].
      pose proof (stage_grows R X Y St E). pose proof (stage_le R X _ (stage_step R X Y St)). lia.
    - destruct (forallb (fun a => memT a Y) (stepY bods co R X Y)) eqn:E; [eauto|].
      apply IH; [now apply stage_step|].
      pose proof (stage_grows R X Y St E). pose proof (stage_le R X _ (stage_step R X Y St)). lia.
  Qed.

  Lemma lfp_enough : forall fi R X, length R < fi -> exists L, lfp_iter bods co fi R X [] = Some L.
  Proof.
    intros fi R X H. destruct fi as [|k]; [lia|]. apply lfp_terminates; [apply stage_nil|].
    cbn [length]. lia.
  Qed.

  (** *** outer iteration *)

  Lemma gfp_terminates : forall k fi R X,
    length R < fi -> length X <= k -> exists r, gfp_iter bods co (S k) fi R X = Some r.
  Proof.
    induction k as [|k IH]; intros fi R X Hfi Hk; cbn [gfp_iter];
      destruct (lfp_enough fi R X Hfi) as [L ->];
      destruct (forallb (fun x => memT x L) X) eqn:E; eauto.
    - destruct X as [|x r]; [discriminate E|cbn [length] in Hk; lia].
    - apply IH; [exact Hfi|].
      assert (length (filter (fun x => memT x L) X) < length X); [|lia].
      apply filter_length_lt_self.
      clear -E. induction X as [|x l IHl]; cbn [forallb] in E; [discriminate|].
      destruct (memT x L) eqn:Em.
      + cbn [andb] in E. destruct (IHl E) as [a [Ha Hm]]. exists a. split; [now right|exact Hm].
      + exists x. split; [now left|exact Em].
  Qed.

  Theorem eval_atom_g_fuel : forall fuel0 a R F,
    reach bods fuel0 [a] [] = Some R -> fuel0 <= F -> length R < F ->
    exists b, eval_atom_g bods co F a = Some b.
  Proof.
    intros fuel0 a R F HR Hle Hlt. unfold eval_atom_g. rewrite (reach_mono _ _ _ _ _ HR Hle).
    destruct F as [|k]; [lia|].
    destruct (gfp_terminates k (S k) R (filter co R)) as [[X L] ->]; [exact Hlt| |eauto].
    pose proof (filter_length_le co R). lia.
  Qed.
End FuelGen.

(** ** Goals *)

(** Executable statement of "every atom the evaluation of the goal looks at has a finite
    reach set": the exploration of each of them finishes with fuel [fuel0]; the result is the
    size of the largest reach set.  [None] exactly where [eval_goal] is outside its domain. *)
Fixpoint goal_ready (fuel0 : nat) (P : program) (env : list clause) (rho : list ty) (g : goal) : option nat :=
  match g with
  | GAtom a =>
      let a' := subst (listth rho) a in
      if groundb a' then
        match reach (bodies (allc P env)) fuel0 [a'] [] with Some R => Some (length R) | None => None end
      else None
  | GEq t1 t2 =>
      if groundb (subst (listth rho) t1) && groundb (subst (listth rho) t2) then Some O else None
  | GAnd g1 g2 =>
      match goal_ready fuel0 P env rho g1, goal_ready fuel0 P env rho g2 with
      | Some n1, Some n2 => Some (Nat.max n1 n2)
      | _, _ => None
      end
  | GTrue => Some O
  | GForall g' => goal_ready fuel0 P env (TPh (fresh P env rho g') :: rho) g'
  | GExists _ => None
  | GIf hs g' =>
      let hs' := map (inst_hyp rho) hs in
      if rr_allb hs' then goal_ready fuel0 P (hs' ++ env) rho g' else None
  | GNot g' => goal_ready fuel0 P env rho g'
  end.

Theorem eval_goal_fuel_sufficient : forall g fuel0 P env rho n F,
  goal_ready fuel0 P env rho g = Some n -> fuel0 <= F -> n < F ->
  exists b, eval_goal F P env rho g = Some b.
Proof.
  unfold eval_goal.
  induction g as [a|t1 t2|g1 IH1 g2 IH2| |g IH|g IH|hs g IH|g IH];
    intros fuel0 P env rho n F H Hle Hlt; cbn [goal_ready eval_goalx] in *.
  - destruct (groundb (subst (listth rho) a)); [|discriminate].
    destruct (reach (bodies (allc P env)) fuel0 [subst (listth rho) a] []) as [R|] eqn:ER; [|discriminate].
    inversion H; subst n. unfold eval_atom. eapply eval_atom_g_fuel; eauto.
  - destruct (groundb (subst (listth rho) t1) && groundb (subst (listth rho) t2)); [eauto|discriminate].
  - destruct (goal_ready fuel0 P env rho g1) as [n1|] eqn:E1; [|discriminate].
    destruct (goal_ready fuel0 P env rho g2) as [n2|] eqn:E2; [|discriminate].
    inversion H; subst n.
    destruct (IH1 _ _ _ _ _ F E1 Hle) as [b1 ->]; [lia|].
    destruct (IH2 _ _ _ _ _ F E2 Hle) as [b2 ->]; [lia|].
    destruct b1, b2; cbn [and3]; eauto.
  - eauto.
  - eapply IH; eauto.
  - discriminate.
  - destruct (rr_allb (map (inst_hyp rho) hs)); [|discriminate]. eapply IH; eauto.
  - destruct (IH _ _ _ _ _ F H Hle Hlt) as [b ->]. cbn [option_map]. eauto.
Qed.

(** The explicit fuel. *)
Corollary eval_goal_fuel_explicit : forall g fuel0 P env rho n,
  goal_ready fuel0 P env rho g = Some n ->
  exists b, eval_goal (S (Nat.max fuel0 n)) P env rho g = Some b.
Proof. intros. eapply eval_goal_fuel_sufficient; eauto; lia. Qed.

Module FuelExamples.
  Import SemExamples.
  Example ready : goal_ready 10 P [] [] (GAnd (GAtom (Tr (W (W S0)))) (GNot (GAtom (Co S0)))) = Some 3.
  Proof. reflexivity. Qed.
  Example fuel_nonvacuous : exists b, eval_goal 11 P [] [] (GAnd (GAtom (Tr (W (W S0)))) (GNot (GAtom (Co S0)))) = Some b.
  Proof. apply (eval_goal_fuel_explicit _ 10 P [] [] 3 ready). Qed.
End FuelExamples.
