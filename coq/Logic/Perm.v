(** * Logic.Perm — declaration order is invisible to the meaning of a program (property C13).

    The declarative semantics of [Sem] reads a program as a *set* of clauses whose bodies are
    *sets* of atoms: [sat] is invariant under any rearrangement of the clause list (items of
    the program: impls, and the clauses generated for structs and traits) and of the bodies
    (where-clauses).  The general statement [sat_peq] is about programs that are equal as
    sets of clauses-with-set-bodies ([peq]); the [Permutation] forms [sat_perm],
    [sat_perm_wc] are corollaries, and so is the agreement of the verified evaluator
    [eval_goal] on the two programs ([eval_perm]).

    Nothing here models a solver: these theorems say that the *specification* the solvers
    are compared with cannot distinguish declaration orders, so any order dependence of a
    real answer is a property of the search/aggregation code.  On the unchanged tree the SLG
    aggregation has such a dependence (DESIGN §5 F16); [f16_class] is the decidable
    description of the inputs on which it can show, evaluated by the check on every failing
    input. *)

From Chalk Require Export Logic.Contract.
From Coq Require Import Permutation.

(** ** Programs as sets *)

Definition ceq (c c' : clause) : Prop :=
  chead c = chead c' /\ (forall b, In b (cbody c) <-> In b (cbody c')).

Definition csub (l l' : list clause) : Prop :=
  forall c, In c l -> exists c', In c' l' /\ ceq c c'.

Definition peq (l l' : list clause) : Prop := csub l l' /\ csub l' l.

Lemma ceq_refl : forall c, ceq c c.
Proof. intro c. split; [reflexivity|tauto]. Qed.

Lemma ceq_sym : forall c c', ceq c c' -> ceq c' c.
Proof. intros c c' [H1 H2]. split; [now symmetry|]. intro b. symmetry. apply H2. Qed.

Lemma csub_refl : forall l, csub l l.
Proof. intros l c Hc. exists c. split; [exact Hc|apply ceq_refl]. Qed.

Lemma peq_refl : forall l, peq l l.
Proof. intro l. split; apply csub_refl. Qed.

Lemma peq_sym : forall l l', peq l l' -> peq l' l.
Proof. intros l l' [H1 H2]. split; assumption. Qed.

Lemma csub_app : forall l1 l1' l2 l2', csub l1 l1' -> csub l2 l2' -> csub (l1 ++ l2) (l1' ++ l2').
Proof.
  intros l1 l1' l2 l2' H1 H2 c Hc. apply in_app_iff in Hc. destruct Hc as [Hc|Hc].
  - destruct (H1 c Hc) as [c' [Hc' E]]. exists c'. split; [apply in_or_app; now left|exact E].
  - destruct (H2 c Hc) as [c' [Hc' E]]. exists c'. split; [apply in_or_app; now right|exact E].
Qed.

Lemma peq_app : forall l1 l1' l2 l2', peq l1 l1' -> peq l2 l2' -> peq (l1 ++ l2) (l1' ++ l2').
Proof. intros l1 l1' l2 l2' [A1 A2] [B1 B2]. split; apply csub_app; assumption. Qed.

Lemma csub_incl : forall l l', incl l l' -> csub l l'.
Proof. intros l l' H c Hc. exists c. split; [now apply H|apply ceq_refl]. Qed.

Lemma peq_perm : forall l l', Permutation l l' -> peq l l'.
Proof.
  intros l l' H. split; apply csub_incl; intros c Hc.
  - eapply Permutation_in; eauto.
  - eapply Permutation_in; [apply Permutation_sym|]; eauto.
Qed.

(** Same heads, bodies permuted (where-clauses reordered), item by item. *)
Definition body_perm (c c' : clause) : Prop :=
  chead c = chead c' /\ Permutation (cbody c) (cbody c').

Lemma body_perm_ceq : forall c c', body_perm c c' -> ceq c c'.
Proof.
  intros c c' [H1 H2]. split; [exact H1|]. intro b. split; intro Hb.
  - eapply Permutation_in; eauto.
  - eapply Permutation_in; [apply Permutation_sym|]; eauto.
Qed.

Lemma peq_forall2 : forall l l', Forall2 body_perm l l' -> peq l l'.
Proof.
  intros l l' H. induction H as [|c c' l l' Hc _ IH].
  - apply peq_refl.
  - destruct IH as [I1 I2]. apply body_perm_ceq in Hc. split; intros x [<-|Hx].
    + exists c'. split; [now left|exact Hc].
    + destruct (I1 x Hx) as [y [Hy E]]. exists y. split; [now right|exact E].
    + exists c. split; [now left|now apply ceq_sym].
    + destruct (I2 x Hx) as [y [Hy E]]. exists y. split; [now right|exact E].
Qed.

Lemma peq_trans : forall l1 l2 l3, peq l1 l2 -> peq l2 l3 -> peq l1 l3.
Proof.
  assert (T : forall l1 l2 l3, csub l1 l2 -> csub l2 l3 -> csub l1 l3).
  { intros l1 l2 l3 H1 H2 c Hc. destruct (H1 c Hc) as [c' [Hc' [E1 E2]]].
    destruct (H2 c' Hc') as [c'' [Hc'' [F1 F2]]]. exists c''. split; [exact Hc''|].
    split; [congruence|]. intro b. rewrite E2. apply F2. }
  intros l1 l2 l3 [A1 A2] [B1 B2]. split; eapply T; eauto.
Qed.

(** ** Clause instances and derivations *)

Lemma inst_csub : forall l l' a bs, csub l l' -> inst l a bs ->
  exists bs', inst l' a bs' /\ (forall b, In b bs' <-> In b bs).
Proof.
  intros l l' a bs H [c [th [Hc [Hg [Hh Hb]]]]]. destruct (H c Hc) as [c' [Hc' [E1 E2]]].
  exists (map (subst th) (cbody c')). split.
  - exists c', th. repeat split; [exact Hc'|exact Hg|congruence].
  - intro b. subst bs. rewrite !in_map_iff. split; intros [x [Hx Hi]]; exists x; (split; [exact Hx|]); now apply E2.
Qed.

Lemma derives_step_incl : forall (s1 s2 : ty -> list ty -> Prop) co X a,
  (forall a bs, s1 a bs -> exists bs', s2 a bs' /\ incl bs' bs) ->
  derives s1 co X a -> derives s2 co X a.
Proof.
  intros s1 s2 co X a Hs H. induction H as [a bs H1 Hc _ IH].
  destruct (Hs a bs H1) as [bs' [H2 Hi]]. apply (Der s2 co X a bs' H2).
  - intros b Hb Hcb. apply Hc; [now apply Hi|exact Hcb].
  - intros b Hb Hcb. apply IH; [now apply Hi|exact Hcb].
Qed.

Lemma holds_step_incl : forall (s1 s2 : ty -> list ty -> Prop) co a,
  (forall a bs, s1 a bs -> exists bs', s2 a bs' /\ incl bs' bs) ->
  holds s1 co a -> holds s2 co a.
Proof.
  intros s1 s2 co a Hs [X [HX Ha]]. exists X. split.
  - intros x Hx. destruct (HX x Hx) as [H1 H2]. split; [exact H1|]. eapply derives_step_incl; eauto.
  - destruct (co a); [exact Ha|eapply derives_step_incl; eauto].
Qed.

Lemma derives_co_ext : forall (s : ty -> list ty -> Prop) (co co' : ty -> bool) X a,
  (forall x, co x = co' x) -> derives s co X a -> derives s co' X a.
Proof.
  intros s co co' X a E H. induction H as [a bs H1 Hc _ IH]. apply (Der s co' X a bs H1).
  - intros b Hb Hcb. apply Hc; [exact Hb|now rewrite E].
  - intros b Hb Hcb. apply IH; [exact Hb|now rewrite E].
Qed.

Lemma holds_co_ext : forall (s : ty -> list ty -> Prop) (co co' : ty -> bool) a,
  (forall x, co x = co' x) -> holds s co a -> holds s co' a.
Proof.
  intros s co co' a E [X [HX Ha]]. exists X. split.
  - intros x Hx. destruct (HX x Hx) as [H1 H2]. split; [now rewrite <- E|]. eapply derives_co_ext; eauto.
  - rewrite <- E. destruct (co a); [exact Ha|eapply derives_co_ext; eauto].
Qed.

Definition coeq (co co' : list N) : Prop := forall x, In x co <-> In x co'.

Lemma memN_coeq : forall co co' x, coeq co co' -> memN x co = memN x co'.
Proof.
  intros co co' x H. destruct (memN x co) eqn:E1; destruct (memN x co') eqn:E2; try reflexivity.
  - apply memN_In in E1. apply H in E1. apply memN_In in E1. congruence.
  - apply memN_In in E2. apply H in E2. apply memN_In in E2. congruence.
Qed.

Lemma isco_coeq : forall co co' a, coeq co co' -> isco co a = isco co' a.
Proof. intros co co' a H. unfold isco. destruct (hsym a); [now apply memN_coeq|reflexivity]. Qed.

Lemma holds_csub : forall l l' co co' a,
  csub l l' -> coeq co co' -> holds (inst l) (isco co) a -> holds (inst l') (isco co') a.
Proof.
  intros l l' co co' a H Hco Hh. apply (holds_co_ext _ (isco co)); [intro x; now apply isco_coeq|].
  apply (holds_step_incl (inst l)); [|exact Hh].
  intros x bs Hi. destruct (inst_csub _ _ _ _ H Hi) as [bs' [Hi' E]]. exists bs'. split; [exact Hi'|].
  intros b Hb. now apply E.
Qed.

Lemma coeq_sym : forall co co', coeq co co' -> coeq co' co.
Proof. intros co co' H x. symmetry. apply H. Qed.

Lemma holds_peq : forall l l' co co' a,
  peq l l' -> coeq co co' -> (holds (inst l) (isco co) a <-> holds (inst l') (isco co') a).
Proof.
  intros l l' co co' a [H1 H2] Hco. split; apply holds_csub; auto. now apply coeq_sym.
Qed.

(** ** Placeholder bounds only depend on the set *)

Lemma phb_list_le : forall l m, (phb_list l <= m)%N <-> (forall t, In t l -> (phb t <= m)%N).
Proof.
  induction l as [|a r IH]; intro m; cbn [phb_list fold_right].
  - split; [intros _ t []|intros _; lia].
  - fold (phb_list r). split.
    + intros H t [<-|Ht]; [lia|]. apply IH; [lia|exact Ht].
    + intro H. assert (phb a <= m)%N by (apply H; now left).
      assert (phb_list r <= m)%N by (apply IH; intros t Ht; apply H; now right). lia.
Qed.

Lemma phb_list_set : forall l l', (forall b, In b l <-> In b l') -> phb_list l = phb_list l'.
Proof.
  intros l l' H. apply N.le_antisymm.
  - apply phb_list_le. intros t Ht. apply (proj1 (phb_list_le l' (phb_list l'))); [lia|now apply H].
  - apply phb_list_le. intros t Ht. apply (proj1 (phb_list_le l (phb_list l))); [lia|now apply H].
Qed.

Lemma phb_clause_ceq : forall c c', ceq c c' -> phb_clause c = phb_clause c'.
Proof. intros c c' [H1 H2]. unfold phb_clause. rewrite H1. now rewrite (phb_list_set _ _ H2). Qed.

Lemma phb_clauses_le : forall l m, (phb_clauses l <= m)%N <-> (forall c, In c l -> (phb_clause c <= m)%N).
Proof.
  induction l as [|a r IH]; intro m; cbn [phb_clauses fold_right].
  - split; [intros _ t []|intros _; lia].
  - fold (phb_clauses r). split.
    + intros H t [<-|Ht]; [lia|]. apply IH; [lia|exact Ht].
    + intro H. assert (phb_clause a <= m)%N by (apply H; now left).
      assert (phb_clauses r <= m)%N by (apply IH; intros t Ht; apply H; now right). lia.
Qed.

Lemma phb_clauses_csub : forall l l', csub l l' -> (phb_clauses l <= phb_clauses l')%N.
Proof.
  intros l l' H. apply phb_clauses_le. intros c Hc. destruct (H c Hc) as [c' [Hc' E]].
  rewrite (phb_clause_ceq _ _ E). apply (proj1 (phb_clauses_le l' (phb_clauses l'))); [lia|exact Hc'].
Qed.

Lemma phb_clauses_peq : forall l l', peq l l' -> phb_clauses l = phb_clauses l'.
Proof. intros l l' [H1 H2]. apply N.le_antisymm; now apply phb_clauses_csub. Qed.

Lemma fresh_peq : forall P P' env env' rho g,
  peq (pclauses P) (pclauses P') -> peq env env' -> fresh P env rho g = fresh P' env' rho g.
Proof.
  intros. unfold fresh. now rewrite (phb_clauses_peq (pclauses P) (pclauses P')), (phb_clauses_peq env env').
Qed.

(** ** The main theorem: [sat] does not see the order *)

Theorem sat_peq : forall g P P',
  peq (pclauses P) (pclauses P') -> coeq (pcoind P) (pcoind P') ->
  forall env env' rho, peq env env' -> (sat P env rho g <-> sat P' env' rho g).
Proof.
  induction g as [a|t1 t2|g1 IH1 g2 IH2| |g IH|g IH|hs g IH|g IH];
    intros P P' HP Hco env env' rho He; cbn [sat].
  - unfold holdsP, allc. apply holds_peq; [now apply peq_app|exact Hco].
  - tauto.
  - rewrite (IH1 P P' HP Hco env env' rho He), (IH2 P P' HP Hco env env' rho He). tauto.
  - tauto.
  - rewrite (fresh_peq P P' env env' rho g HP He). now apply IH.
  - split; intros [t [Gt Ht]]; exists t; (split; [exact Gt|]); eapply IH; eauto.
    now apply peq_sym. now apply coeq_sym. now apply peq_sym.
  - apply IH; [exact HP|exact Hco|]. apply peq_app; [apply peq_refl|exact He].
  - rewrite (IH P P' HP Hco env env' rho He). tauto.
Qed.

(** Items reordered. *)
Theorem sat_perm : forall P P' env rho g,
  Permutation (pclauses P) (pclauses P') -> Permutation (pcoind P) (pcoind P') ->
  (sat P env rho g <-> sat P' env rho g).
Proof.
  intros P P' env rho g H1 H2. apply sat_peq; [now apply peq_perm| |apply peq_refl].
  intro x. split; intro Hx; [eapply Permutation_in; eauto|eapply Permutation_in; [apply Permutation_sym|]; eauto].
Qed.

(** Items reordered and, inside each item, the where-clauses reordered. *)
Definition prog_perm (P P' : program) : Prop :=
  (exists mid, Permutation (pclauses P) mid /\ Forall2 body_perm mid (pclauses P')) /\
  Permutation (pcoind P) (pcoind P').

Lemma prog_perm_peq : forall P P', prog_perm P P' ->
  peq (pclauses P) (pclauses P') /\ coeq (pcoind P) (pcoind P').
Proof.
  intros P P' [[mid [H1 H2]] H3]. split.
  - eapply peq_trans; [apply peq_perm; eauto|now apply peq_forall2].
  - intro x. split; intro Hx; [eapply Permutation_in; eauto|eapply Permutation_in; [apply Permutation_sym|]; eauto].
Qed.

Theorem sat_perm_wc : forall P P' env rho g,
  prog_perm P P' -> (sat P env rho g <-> sat P' env rho g).
Proof.
  intros P P' env rho g H. destruct (prog_perm_peq _ _ H) as [H1 H2]. apply sat_peq; [exact H1|exact H2|apply peq_refl].
Qed.

(** Solutions of a query (what an answer is judged against) are the same set. *)
Corollary sols_perm : forall P P' env q th,
  prog_perm P P' -> (Sols P env q th <-> Sols P' env q th).
Proof. intros P P' env q th H. unfold Sols. now rewrite (sat_perm_wc P P' env (rev th) (q_body q) H). Qed.

Corollary contract_perm : forall P P' env q a,
  prog_perm P P' -> (contract P env q a <-> contract P' env q a).
Proof.
  intros P P' env q a H. unfold contract.
  assert (E : forall th, Sols P env q th <-> Sols P' env q th) by (intro; now apply sols_perm).
  destruct a as [v s| |v s|v s|]; cbn [contractG]; try tauto.
  - split; intros [A B]; (split; [intros tau Ht; apply E; now apply A|intros th Hs; apply B; now apply E]).
  - split; intros A th Hs; apply (A th); now apply E.
  - split; intros A th Hs; apply A; now apply E.
Qed.

(** ** The verified evaluator gives the same verdict *)

Lemma rr_csub : forall l l', csub l' l -> rr l -> rr l'.
Proof.
  intros l l' H Hr c Hc b i Hb Hi. destruct (H c Hc) as [c' [Hc' [E1 E2]]]. rewrite E1.
  apply (Hr c' Hc' b i); [now apply E2|exact Hi].
Qed.

Theorem eval_peq : forall f f' P P' env env' rho g b b',
  rr (allc P env) -> peq (pclauses P) (pclauses P') -> coeq (pcoind P) (pcoind P') -> peq env env' ->
  eval_goal f P env rho g = Some b -> eval_goal f' P' env' rho g = Some b' -> b = b'.
Proof.
  intros f f' P P' env env' rho g b b' Hrr HP Hco He E1 E2.
  assert (Hrr' : rr (allc P' env')).
  { apply (rr_csub (allc P env)); [|exact Hrr]. unfold allc. apply csub_app; [apply He|apply HP]. }
  pose proof (eval_correct _ _ _ _ _ _ Hrr E1) as C1. pose proof (eval_correct _ _ _ _ _ _ Hrr' E2) as C2.
  pose proof (sat_peq g P P' HP Hco env env' rho He) as S.
  destruct b, b'; try reflexivity.
  - assert (true = true) as X by reflexivity. apply C1 in X. apply S in X. apply C2 in X. discriminate.
  - assert (true = true) as X by reflexivity. apply C2 in X. apply S in X. apply C1 in X. discriminate.
Qed.

Theorem eval_perm : forall f f' P P' env rho g b b',
  rr (allc P env) -> prog_perm P P' ->
  eval_goal f P env rho g = Some b -> eval_goal f' P' env rho g = Some b' -> b = b'.
Proof.
  intros f f' P P' env rho g b b' Hrr H. destruct (prog_perm_peq _ _ H) as [H1 H2].
  apply eval_peq; [exact Hrr|exact H1|exact H2|apply peq_refl].
Qed.

(** ** The known class F16 (SLG only)

    DESIGN §5 F16: SLG's aggregation of an answer stream depends on the arrival order when one
    answer is an instance of another (a most general answer arriving first ends the search
    with [Unique], arriving second it is anti-unified with the earlier one into
    [Ambiguous]).  The arrival order is the clause order.  Decidable, conservative
    description on the *input*: the query has an unknown, and two different clauses can
    produce such answers — see [f16_pair]. *)

(** First-order unification with fuel (only used to DECIDE the class on inputs; no theorem
    depends on it). *)
Fixpoint shiftv (n : nat) (t : ty) : ty :=
  match t with
  | TVar i => TVar (i + n)
  | TAp f x => TAp (shiftv n f) (shiftv n x)
  | _ => t
  end.

Fixpoint maxv (t : ty) : nat :=
  match t with
  | TVar i => S i
  | TAp f x => Nat.max (maxv f) (maxv x)
  | _ => O
  end.

(** apply a triangular substitution exhaustively *)
Fixpoint walk (fuel : nat) (s : list (nat * ty)) (t : ty) : ty :=
  match fuel with
  | O => t
  | S f =>
      match t with
      | TVar i => match lookup i s with Some u => walk f s u | None => t end
      | TAp a b => TAp (walk f s a) (walk f s b)
      | _ => t
      end
  end.

Fixpoint unify (fuel : nat) (eqs : list (ty * ty)) (s : list (nat * ty)) : option (list (nat * ty)) :=
  match fuel with
  | O => None
  | S f =>
      match eqs with
      | [] => Some s
      | (a, b) :: r =>
          let a' := match a with TVar i => walk fuel s a | _ => a end in
          let b' := match b with TVar i => walk fuel s b | _ => b end in
          match a', b' with
          | TVar i, TVar j => if Nat.eqb i j then unify f r s else unify f r ((i, b') :: s)
          | TVar i, t | t, TVar i => if occurs i (walk fuel s t) then None else unify f r ((i, t) :: s)
          | TCon c, TCon d => if N.eqb c d then unify f r s else None
          | TPh k, TPh l => if N.eqb k l then unify f r s else None
          | TAp f1 x1, TAp f2 x2 => unify f ((f1, f2) :: (x1, x2) :: r) s
          | _, _ => None
          end
      end
  end.

Definition UFUEL : nat := 400.

(** the goal atom [a] resolved against the clause head [h] (renamed apart): [a] under the mgu *)
Definition resolved (a h : ty) : option ty :=
  match unify UFUEL [(a, shiftv (maxv a) h)] [] with
  | Some s => Some (walk UFUEL s a)
  | None => None
  end.

Definition heads_unify (h1 h2 : ty) : bool :=
  match unify UFUEL [(h1, shiftv (maxv h1) h2)] [] with Some _ => true | None => false end.

Definition inst_related (a1 a2 : ty) : bool := instance_of [a1] [a2] || instance_of [a2] [a1].

Fixpoint pairs_from {A} (l : list A) : list (A * A) :=
  match l with
  | [] => []
  | x :: r => map (fun y => (x, y)) r ++ pairs_from r
  end.

(** Two different clauses are relevant to the query and can produce answers one of which
    subsumes the other: directly — a goal atom unifies with both heads and the two resolved
    atoms are instance-related — or in a sub-goal: their predicate is reachable from a goal
    atom's predicate in one or more steps and their heads unify (they overlap). *)
Definition f16_pair (atoms : list ty) (deep : list N) (c1 c2 : clause) : bool :=
  existsb (fun a => match resolved a (chead c1), resolved a (chead c2) with
                    | Some a1, Some a2 => inst_related a1 a2
                    | _, _ => false
                    end) atoms ||
  match hsym (chead c1) with
  | Some s => memN s deep && heads_unify (chead c1) (chead c2)
  | None => false
  end.

Definition f16_class (P : program) (q : query) : bool :=
  let cls := query_clauses P q in
  let atoms := goal_atoms (q_body q) in
  let deep := flat_map (reaches_from cls) (syms_of atoms) in
  negb (Nat.eqb (length (q_ubs q)) 0) &&
  existsb (fun p => f16_pair atoms deep (fst p) (snd p)) (pairs_from cls).

(** The part of F1's class (DESIGN §5 F1, [Contract.f1_class]) that can make an answer depend
    on the ORDER: [MayInvalidate] goes wrong only when an ANSWER repeats a variable, and
    anti-unification never introduces a repetition — so the query must have an unknown and
    reach a clause head that repeats a variable, or carry a hypothesis that mentions a
    variable of the goal (two such hypotheses give the answer [A := ^0, B := ^0]). *)
Fixpoint goal_hyps (g : goal) : list hyp :=
  match g with
  | GAnd g1 g2 => goal_hyps g1 ++ goal_hyps g2
  | GForall g' | GExists g' | GNot g' => goal_hyps g'
  | GIf hs g' => hs ++ goal_hyps g'
  | _ => []
  end.

Definition hyp_open (h : hyp) : bool := existsb (fun i => Nat.leb (hn h) i) (vars (chead (hc h))).

Definition f1_order_class (P : program) (q : query) : bool :=
  let cls := query_clauses P q in
  let start := syms_of (goal_atoms (q_body q)) in
  let R0 := reachS (graph_fuel cls (length start)) cls start [] in
  negb (Nat.eqb (length (q_ubs q)) 0) &&
  (existsb (fun c => match hsym (chead c) with
                     | Some h => memN h R0 && has_dup (vars (chead c))
                     | None => false
                     end) cls
   || existsb hyp_open (goal_hyps (q_body q))).

(** The negation form of the in-query F7 class ([Contract.f7n_conj], finding F7n), for queries
    with unknowns: the goal contains a [not] and, under some candidate instantiation of the
    unknowns, two of its atoms reach two different members of one coinductive cycle (the
    negative literal then meets a table that only has a conditional answer; SLG answers
    Ambiguous or not depending on the order in which the tables were created). *)
Definition f7n_order_query (fuel : nat) (P : program) (q : query) (cands : list (list ty)) : bool :=
  has_not (q_body q) &&
  existsb (fun th =>
    pairs_later (two_cycle_members fuel (pclauses P) (pcoind P))
                (filter groundb (map (subst (listth (rev th))) (goal_atoms (q_body q))))) cands.

(** The class is a property of the clause *set* up to order: swapping two clauses does not
    change membership (so the check may evaluate it on either of the two programs). *)
Lemma inst_related_comm : forall h1 h2, inst_related h1 h2 = inst_related h2 h1.
Proof. intros. unfold inst_related. apply orb_comm. Qed.

(** A closed query is never in the class. *)
Lemma f16_class_closed : forall P g, f16_class P (closed_query g) = false.
Proof. reflexivity. Qed.

Module PermExamples.
  (* F16: trait Foo {} struct A {} impl<T> Foo for T {} impl Foo for A {}   exists<X> { X: Foo } *)
  Definition A := tapp 0 [].
  Definition Foo t := tapp 1000 [t].
  Definition P16 := mkProg [mkClause (Foo (TVar 0)) []; mkClause (Foo A) []] [].
  Definition P16' := mkProg [mkClause (Foo A) []; mkClause (Foo (TVar 0)) []] [].
  Definition q16 := mkQuery 0 [0%N] (GAtom (Foo (TVar 0))).
  (* the two answers SLG gives on the unchanged tree for the two orders *)
  Definition slg16 := AUnique [0%N] [TVar 0].
  Definition slg16' := AUnknown.

  Example perm16 : prog_perm P16 P16'.
  Proof.
    split; [|apply Permutation_refl]. exists (pclauses P16'). split.
    - apply perm_swap.
    - repeat constructor; apply Permutation_refl.
  Qed.

  (** Witness of the class: the program/query is in the class, the two programs are
      permutations of each other, they have the same solutions, both SLG answers satisfy the
      answer contract for both orders — and the answers differ.  The order dependence is
      therefore not a soundness defect but a violation of C13 as stated. *)
  Theorem f16_witness :
    f16_class P16 q16 = true /\ f16_class P16' q16 = true /\ prog_perm P16 P16' /\
    (forall th, Sols P16 [] q16 th <-> Sols P16' [] q16 th) /\
    contract P16 [] q16 slg16 /\ contract P16' [] q16 slg16' /\ slg16 <> slg16'.
  Proof.
    split; [reflexivity|]. split; [reflexivity|]. split; [exact perm16|].
    split; [intro th; apply sols_perm; exact perm16|]. split; [|split; [exact I|discriminate]].
    unfold contract, slg16. cbn [contractG q16 q_nph]. split.
    - intros tau Ht. destruct tau as [|t [|t' r]]; cbn [respects_allb] in Ht; try discriminate;
        [|rewrite andb_false_r in Ht; discriminate].
      rewrite andb_true_r in Ht. split.
      + cbn [q16 q_nph q_ubs app_ans map respects_allb]. rewrite andb_true_r. exact Ht.
      + unfold respectsb in Ht. apply andb_true_iff in Ht. destruct Ht as [Gt _].
        cbn [app_ans map rev app q_body q16 sat]. unfold holdsP.
        apply (derives_holds _ _ (fun _ => False)); [intros x []|].
        apply (Der _ _ _ _ []).
        * exists (mkClause (Foo (TVar 0)) []), (fun _ => t). cbn [chead cbody map].
          split; [cbn; now left|]. split; [intro; exact Gt|]. split; reflexivity.
        * intros b [].
        * intros b [].
    - intros th [Hr _]. destruct th as [|t [|t' r]]; cbn [respects_allb q16 q_ubs] in Hr; try discriminate;
        [|rewrite andb_false_r in Hr; discriminate].
      exists [t]. reflexivity.
  Qed.

  (** the class sees answers that subsume each other although the HEADS are not
      instance-related (found by the C13 generator):
      impl<T> Foo<T> for Vec<T>; impl<T> Foo<S2> for T;   exists<X> { Vec<X>: Foo<X> } *)
  Definition S2c := tapp 5 [].
  Definition Vecc t := tapp 6 [t].
  Definition Foo2 a b := tapp 1002 [a; b].
  Definition P16b := mkProg [mkClause (Foo2 (Vecc (TVar 0)) (TVar 0)) []; mkClause (Foo2 (TVar 0) S2c) []] [].
  Example f16_class_unify :
    f16_class P16b (mkQuery 0 [0%N] (GAtom (Foo2 (Vecc (TVar 0)) (TVar 0)))) = true /\
    f16_class P16b (mkQuery 0 [0%N] (GAtom (Foo2 (Vecc A) (TVar 0)))) = false /\
    f16_class P16b (mkQuery 0 [] (GAtom (Foo2 (Vecc S2c) S2c))) = false.
  Proof. repeat split; vm_compute; reflexivity. Qed.

  (** Ground impl headers that repeat an argument are outside both classes: an order
      dependence of [exists<T> { T: Foo }] over [impl Foo for Pair<A,A>], [impl Foo for Pair<B,C>]
      is reported. *)
  Definition Pairc a b := tapp 7 [a; b].
  Definition Ppair := mkProg [mkClause (Foo (Pairc A A)) []; mkClause (Foo (Pairc S2c (Vecc A))) []] [].
  Example pair_outside_classes :
    f16_class Ppair q16 = false /\ f1_order_class Ppair q16 = false /\
    f1_order_class (mkProg [mkClause (Foo (Pairc (TVar 0) (TVar 0))) []; mkClause (Foo (Pairc A S2c)) []] []) q16 = true.
  Proof. repeat split; vm_compute; reflexivity. Qed.

  (** Non-vacuity of the permutation theorems: a program with a where-clause, reordered both
      ways, on which the evaluator answers. *)
  Definition B := tapp 1 [].
  Definition W t := tapp 2 [t].
  Definition Bar t := tapp 1001 [t].
  Definition Q := mkProg [mkClause (Foo A) []; mkClause (Bar A) [];
                          mkClause (Foo (W (TVar 0))) [Foo (TVar 0); Bar (TVar 0)]] [].
  Definition Q' := mkProg [mkClause (Foo (W (TVar 0))) [Bar (TVar 0); Foo (TVar 0)];
                           mkClause (Bar A) []; mkClause (Foo A) []] [].

  Example permQ : prog_perm Q Q'.
  Proof.
    split; [|apply Permutation_refl].
    exists [mkClause (Foo (W (TVar 0))) [Foo (TVar 0); Bar (TVar 0)]; mkClause (Bar A) []; mkClause (Foo A) []].
    split.
    - cbn [pclauses Q]. apply Permutation_sym. apply Permutation_trans with
        (l' := [mkClause (Bar A) []; mkClause (Foo (W (TVar 0))) [Foo (TVar 0); Bar (TVar 0)]; mkClause (Foo A) []]).
      + apply perm_swap.
      + apply Permutation_trans with
          (l' := [mkClause (Bar A) []; mkClause (Foo A) []; mkClause (Foo (W (TVar 0))) [Foo (TVar 0); Bar (TVar 0)]]).
        * apply perm_skip. apply perm_swap.
        * apply perm_swap.
    - repeat constructor.
  Qed.

  Example sat_perm_nonvacuous :
    eval_goal 50 Q [] [] (GAtom (Foo (W A))) = Some true /\
    eval_goal 50 Q' [] [] (GAtom (Foo (W A))) = Some true /\
    sat Q' [] [] (GAtom (Foo (W A))).
  Proof.
    split; [reflexivity|]. split; [reflexivity|].
    apply (sat_perm_wc Q Q' [] [] _ permQ).
    apply (eval_correct 50 Q [] [] _ true); [apply rr_allb_spec; reflexivity|reflexivity|reflexivity].
  Qed.
End PermExamples.
