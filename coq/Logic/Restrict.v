(** * Logic.Restrict — answers depend only on the clauses the search can reach (property C23)

    The recording database wrapper prints the items it served; everything else becomes a stub
    (a declaration without clauses) or disappears.  In the clause reading of a program an item
    is a set of clauses, so the printed program is a *restriction* of the original one.

    [eval_atom_restrict]: if a restriction keeps every clause whose head matches an atom of
    the reach set of the goal atom (the reach set computed on the FULL program), the verified
    evaluator returns exactly the same result on the restricted program — all programs, all
    ground atoms, any fuel with which the reach set is computed.
    [eval_goal_restrict]: the same for goals (quantifiers, hypotheses, negation).
    Together with [eval_correct] this says that the declarative meaning of the goal is the
    same on both programs.

    [recorded_superset]: the recorded-id model of [LoggingRustIrDatabase]: every database
    callback records some ids and its result depends on some ids; if each callback kind
    records what it depends on, then after ANY callback sequence the recorded set contains
    everything the solver's computation depended on.  [f10_refuted]: on the unchanged tree
    [impl_provided_for] depends on the impls of the auto trait but records only the trait and
    the ADT. *)

From Chalk Require Export Logic.Ground.

(** ** The evaluator only looks at the bodies of reached atoms *)

Section Congr.
  Variables b1 b2 : ty -> list (list ty).
  Variable co : ty -> bool.
  Variable S : ty -> Prop.
  Hypothesis Heq : forall x, S x -> b1 x = b2 x.
  Hypothesis Hcl : forall x bs b, S x -> In bs (b1 x) -> In b bs -> S b.

  Lemma reach_congr : forall fuel todo seen,
    (forall x, In x todo -> S x) -> (forall x, In x seen -> S x) ->
    reach b1 fuel todo seen = reach b2 fuel todo seen /\
    forall R, reach b1 fuel todo seen = Some R -> forall x, In x R -> S x.
  Proof.
    induction fuel as [|f IH]; intros todo seen Ht Hs; cbn [reach]; [split; [reflexivity|discriminate]|].
    destruct todo as [|a r].
    - split; [reflexivity|]. intros R H. inversion H; subst. exact Hs.
    - destruct (N.ltb size_cap (tsize a)); [split; [reflexivity|discriminate]|]. destruct (memT a seen).
      + apply IH; [intros x Hx; apply Ht; now right|exact Hs].
      + rewrite <- (Heq a) by (apply Ht; now left). apply IH.
        * intros x Hx. apply in_app_iff in Hx. destruct Hx as [Hx|Hx]; [|apply Ht; now right].
          apply in_concat in Hx. destruct Hx as [bs [Hbs Hx]]. apply (Hcl a bs x); auto. apply Ht. now left.
        * intros x [<-|Hx]; [apply Ht; now left|now apply Hs].
  Qed.

  Lemma stepY_congr : forall R X Y, (forall x, In x R -> S x) -> stepY b1 co R X Y = stepY b2 co R X Y.
  Proof.
    intros R X Y HR. unfold stepY. apply filter_ext_in. intros a Ha. now rewrite (Heq a (HR a Ha)).
  Qed.

  Lemma lfp_congr : forall fuel R X Y, (forall x, In x R -> S x) ->
    lfp_iter b1 co fuel R X Y = lfp_iter b2 co fuel R X Y.
  Proof.
    induction fuel as [|f IH]; intros R X Y HR; cbn [lfp_iter]; [reflexivity|].
    rewrite (stepY_congr R X Y HR). destruct (forallb _ _); [reflexivity|]. now apply IH.
  Qed.

  Lemma gfp_congr : forall fuel fi R X, (forall x, In x R -> S x) ->
    gfp_iter b1 co fuel fi R X = gfp_iter b2 co fuel fi R X.
  Proof.
    induction fuel as [|f IH]; intros fi R X HR; cbn [gfp_iter]; [reflexivity|].
    rewrite (lfp_congr fi R X [] HR). destruct (lfp_iter b2 co fi R X []) as [L|]; [|reflexivity].
    destruct (forallb _ X); [reflexivity|]. now apply IH.
  Qed.

  Lemma eval_atom_g_congr : forall fuel a, S a -> eval_atom_g b1 co fuel a = eval_atom_g b2 co fuel a.
  Proof.
    intros fuel a Ha. unfold eval_atom_g.
    destruct (reach_congr fuel [a] []) as [E HR]; [intros x [<-|[]]; exact Ha|intros x []|].
    rewrite <- E. destruct (reach b1 fuel [a] []) as [R|]; [|reflexivity].
    now rewrite (gfp_congr fuel fuel R (filter co R) (HR R eq_refl)).
  Qed.
End Congr.

(** ** Restricting a clause list *)

Lemma bodies_filter : forall keep cls a,
  (forall c, In c cls -> mtch (chead c) a [] <> None -> keep c = true) ->
  bodies (filter keep cls) a = bodies cls a.
Proof.
  intros keep cls a H. unfold bodies. destruct (groundb a); [|reflexivity].
  induction cls as [|c r IH]; [reflexivity|]. cbn [filter flat_map].
  destruct (keep c) eqn:Ek.
  - cbn [flat_map]. rewrite IH; [reflexivity|]. intros c' Hc'. apply H. now right.
  - destruct (mtch (chead c) a []) as [s|] eqn:Em.
    + assert (keep c = true) by (apply H; [now left|congruence]). congruence.
    + cbn [app]. apply IH. intros c' Hc'. apply H. now right.
Qed.

(** [kept keep cls R]: the restriction keeps every clause that matches an atom of [R]. *)
Definition kept (keep : clause -> bool) (cls : list clause) (R : list ty) : Prop :=
  forall x c, In x R -> In c cls -> mtch (chead c) x [] <> None -> keep c = true.

(** THEOREM (eval_atom_restrict). *)
Theorem eval_atom_restrict : forall fuel cls co a keep R,
  reach (bodies cls) fuel [a] [] = Some R -> kept keep cls R ->
  eval_atom fuel (filter keep cls) co a = eval_atom fuel cls co a.
Proof.
  intros fuel cls co a keep R HR Hk. unfold eval_atom. symmetry.
  destruct (reach_spec _ _ _ _ _ HR) as [C [_ Ia]]; [intros x bs b []|].
  apply (eval_atom_g_congr (bodies cls) (bodies (filter keep cls)) (isco co) (fun x => In x R)).
  - intros x Hx. symmetry. apply bodies_filter. intros c Hc Hm. apply (Hk x c Hx Hc Hm).
  - intros x bs b Hx Hbs Hb. eapply C; eauto.
  - apply Ia. now left.
Qed.

(** ** Goals *)

Definition restrictP (keep : clause -> bool) (P : program) : program :=
  mkProg (filter keep (pclauses P)) (pcoind P).

(** The restriction is fine for one ground atom under the hypotheses [env]. *)
Definition atom_ok (fuel : nat) (keep : clause -> bool) (P : program) (env : list clause) (a : ty) : Prop :=
  exists R, reach (bodies (allc P env)) fuel [a] [] = Some R /\ kept keep (allc P env) R.

(** ... and for every atom the evaluation of a goal looks at. *)
Fixpoint goal_ok (fuel : nat) (keep : clause -> bool) (P : program) (env : list clause)
                 (rho : list ty) (g : goal) : Prop :=
  match g with
  | GAtom a => groundb (subst (listth rho) a) = true -> atom_ok fuel keep P env (subst (listth rho) a)
  | GEq _ _ | GTrue => True
  | GAnd g1 g2 => goal_ok fuel keep P env rho g1 /\ goal_ok fuel keep P env rho g2
  | GForall g' => goal_ok fuel keep P env (TPh (fresh P env rho g') :: rho) g'
  | GExists g' => True
  | GIf hs g' => (forall c, In c (map (inst_hyp rho) hs) -> keep c = true) /\
                 goal_ok fuel keep P (map (inst_hyp rho) hs ++ env) rho g'
  | GNot g' => goal_ok fuel keep P env rho g'
  end.

Lemma phb_clauses_filter : forall keep cls, phb_clauses cls = 0%N -> phb_clauses (filter keep cls) = 0%N.
Proof.
  intros keep cls. induction cls as [|c r IH]; intro H; [reflexivity|]. cbn [phb_clauses fold_right] in H.
  fold (phb_clauses r) in H. assert (phb_clause c = 0%N /\ phb_clauses r = 0%N) as [H1 H2] by lia.
  cbn [filter]. destruct (keep c); [|now apply IH]. cbn [phb_clauses fold_right]. fold (phb_clauses (filter keep r)).
  rewrite (IH H2). lia.
Qed.

Lemma filter_env_app : forall keep (env cls : list clause),
  (forall c, In c env -> keep c = true) -> filter keep (env ++ cls) = env ++ filter keep cls.
Proof.
  intros keep env cls H. rewrite filter_app. f_equal. induction env as [|c r IH]; [reflexivity|].
  cbn [filter]. rewrite (H c) by now left. f_equal. apply IH. intros c' Hc'. apply H. now right.
Qed.

(** THEOREM (eval_restrict): programs never mention placeholders ([phb_clauses = 0]: source
    text cannot); the hypotheses of the goal are part of the goal and are kept. *)
Theorem eval_restrict : forall g fuel keep P env rho,
  phb_clauses (pclauses P) = 0%N ->
  (forall c, In c env -> keep c = true) ->
  goal_ok fuel keep P env rho g ->
  eval_goal fuel (restrictP keep P) env rho g = eval_goal fuel P env rho g.
Proof.
  unfold eval_goal.
  induction g as [a|t1 t2|g1 IH1 g2 IH2| |g IH|g IH|hs g IH|g IH];
    intros fuel keep P env rho Hph Henv Hok; cbn [eval_goalx goal_ok] in *.
  - destruct (groundb (subst (listth rho) a)) eqn:Eg; [|reflexivity].
    destruct (Hok eq_refl) as [R [HR HK]]. unfold allc, restrictP. cbn [pclauses pcoind].
    rewrite <- (filter_env_app keep env (pclauses P) Henv).
    apply (eval_atom_restrict fuel (env ++ pclauses P) (pcoind P) _ keep R HR HK).
  - reflexivity.
  - destruct Hok as [H1 H2]. now rewrite (IH1 fuel keep P env rho), (IH2 fuel keep P env rho).
  - reflexivity.
  - assert (Ef : fresh (restrictP keep P) env rho g = fresh P env rho g).
    { unfold fresh, restrictP. cbn [pclauses]. now rewrite Hph, (phb_clauses_filter keep _ Hph). }
    rewrite Ef. now apply IH.
  - reflexivity.
  - destruct Hok as [Hh Hok]. destruct (rr_allb (map (inst_hyp rho) hs)); [|reflexivity]. apply IH; auto.
    intros c Hc. apply in_app_iff in Hc. destruct Hc as [Hc|Hc]; [now apply Hh|now apply Henv].
  - now rewrite (IH fuel keep P env rho).
Qed.

(** ** Executable side: is a second program a reach-preserving restriction of the first? *)

Definition clause_eqb (c d : clause) : bool := ty_eqb (chead c) (chead d) && tys_eqb (cbody c) (cbody d).

Lemma clause_eqb_eq : forall c d, clause_eqb c d = true <-> c = d.
Proof.
  intros [h b] [h' b']. unfold clause_eqb. cbn. rewrite andb_true_iff, ty_eqb_eq, tys_eqb_eq.
  split; [intros [-> ->]; reflexivity|intro H; inversion H; auto].
Qed.

Definition memC (c : clause) (l : list clause) : bool := existsb (clause_eqb c) l.

Definition is_some {A} (o : option A) : bool := match o with Some _ => true | None => false end.

(** every clause of [cls] that matches an atom of [R] satisfies [keep] *)
Definition keptb (keep : clause -> bool) (cls : list clause) (R : list ty) : bool :=
  forallb (fun x => forallb (fun c => negb (is_some (mtch (chead c) x [])) || keep c) cls) R.

Lemma keptb_spec : forall keep cls R, keptb keep cls R = true -> kept keep cls R.
Proof.
  intros keep cls R H x c Hx Hc Hm. unfold keptb in H. rewrite forallb_forall in H.
  specialize (H x Hx). rewrite forallb_forall in H. specialize (H c Hc).
  destruct (mtch (chead c) x []); [exact H|congruence].
Qed.

(** [Some true]: the clauses [cls2] (the printed program) contain every clause of [cls] that
    the search for [a] can reach, so [eval_atom_restrict] applies to [keep := member of cls2]. *)
Definition covers_reach (fuel : nat) (cls cls2 : list clause) (a : ty) : option bool :=
  match reach (bodies cls) fuel [a] [] with
  | None => None
  | Some R => Some (keptb (fun c => memC c cls2) cls R)
  end.

Theorem covers_reach_sound : forall fuel cls cls2 co a,
  covers_reach fuel cls cls2 a = Some true ->
  eval_atom fuel (filter (fun c => memC c cls2) cls) co a = eval_atom fuel cls co a.
Proof.
  intros fuel cls cls2 co a H. unfold covers_reach in H.
  destruct (reach (bodies cls) fuel [a] []) as [R|] eqn:ER; [|discriminate]. inversion H.
  apply (eval_atom_restrict fuel cls co a _ R ER). now apply keptb_spec.
Qed.

(** ** The recorded-id model of [LoggingRustIrDatabase] *)

Inductive item_id : Type := IdAdt (n : N) | IdTrait (n : N) | IdImpl (n : N).

Definition item_id_eqb (a b : item_id) : bool :=
  match a, b with
  | IdAdt x, IdAdt y | IdTrait x, IdTrait y | IdImpl x, IdImpl y => N.eqb x y
  | _, _ => false
  end.

(** The database callbacks the solvers use in the fragments of the property, with the data
    that determines their result. *)
Inductive callback : Type :=
| CbTraitDatum (t : N)
| CbAdtDatum (a : N)
| CbImplDatum (i : N)
| CbAssocTyData (t : N)                       (* the trait the associated type belongs to *)
| CbAssocTyValue (i : N)                      (* the impl the value belongs to *)
| CbImplsForTrait (t : N) (params : list item_id) (result : list N)
| CbImplProvidedFor (t : N) (adt : list N) (deciding : list N)
| CbProgramClausesForEnv (env : list item_id).

(** What the result of a callback depends on: the items the printed program must define for
    the callback to answer the same on it. *)
Definition deps (cb : callback) : list item_id :=
  match cb with
  | CbTraitDatum t | CbAssocTyData t => [IdTrait t]
  | CbAdtDatum a => [IdAdt a]
  | CbImplDatum i | CbAssocTyValue i => [IdImpl i]
  | CbImplsForTrait t ps res => IdTrait t :: ps ++ map IdImpl res
  | CbImplProvidedFor t adt dec => IdTrait t :: map IdAdt adt ++ map IdImpl dec
  | CbProgramClausesForEnv env => env
  end.

(** What the wrapper records; the two switches are the two repairs (F10, F11). *)
Definition records (fix10 fix11 : bool) (cb : callback) : list item_id :=
  match cb with
  | CbTraitDatum t | CbAssocTyData t => [IdTrait t]
  | CbAdtDatum a => [IdAdt a]
  | CbImplDatum i | CbAssocTyValue i => [IdImpl i]
  | CbImplsForTrait t ps res => IdTrait t :: (if fix11 then ps else []) ++ map IdImpl res
  | CbImplProvidedFor t adt dec => IdTrait t :: map IdAdt adt ++ (if fix10 then map IdImpl dec else [])
  | CbProgramClausesForEnv env => if fix11 then env else []
  end.

Definition recorded (fix10 fix11 : bool) (cbs : list callback) : list item_id :=
  flat_map (records fix10 fix11) cbs.

(** THEOREM (recorded_superset): with both repairs the recorded set contains everything any
    sequence of callbacks depended on. *)
Theorem recorded_superset : forall cbs, incl (flat_map deps cbs) (recorded true true cbs).
Proof.
  intros cbs x Hx. unfold recorded. apply in_flat_map in Hx. destruct Hx as [cb [Hcb Hx]].
  apply in_flat_map. exists cb. split; [exact Hcb|]. destruct cb; exact Hx.
Qed.

(** On the unchanged tree the obligation fails for [impl_provided_for] (F10) and for the
    parameters of [impls_for_trait] (F11). *)
Theorem f10_refuted : exists cbs, ~ incl (flat_map deps cbs) (recorded false true cbs).
Proof.
  exists [CbImplProvidedFor 1000 [0%N] [7%N]]. intro H. specialize (H (IdImpl 7)). cbn in H.
  destruct H as [H|[H|H]]; try discriminate; [auto|destruct H].
Qed.

Theorem f11_refuted : exists cbs, ~ incl (flat_map deps cbs) (recorded true false cbs).
Proof.
  exists [CbImplsForTrait 1000 [IdAdt 3] []]. intro H. specialize (H (IdAdt 3)). cbn in H.
  destruct H as [H|H]; [auto|discriminate|destruct H].
Qed.

(** ** Non-vacuity (computation) *)

Module RestrictExamples.
  Import SemExamples.
  (* an unrelated item: impl Co for W<S0> *)
  Definition Pbig := mkProg (pclauses P ++ [mkClause (Co (W S0)) []]) (pcoind P).
  Definition keep (c : clause) : bool := memC c (pclauses P).

  Example restrict_atom :
    covers_reach 50 (pclauses Pbig) (pclauses P) (Tr (W (W S0))) = Some true /\
    eval_atom 50 (filter keep (pclauses Pbig)) (pcoind Pbig) (Tr (W (W S0))) = Some true /\
    covers_reach 50 (pclauses Pbig) (pclauses P) (Co (W S0)) = Some false.
  Proof. repeat split; vm_compute; reflexivity. Qed.

  Example eval_restrict_nonvacuous :
    let g := GForall (GIf [mkHyp 0 (mkClause (Tr (TVar 0)) [])] (GAtom (Tr (W (TVar 0))))) in
    eval_goal 50 (restrictP (fun c => keep c || clause_eqb c (mkClause (Tr (TPh 0)) [])) Pbig) [] [] g = eval_goal 50 Pbig [] [] g /\
    eval_goal 50 Pbig [] [] g = Some true.
  Proof. split; vm_compute; reflexivity. Qed.
End RestrictExamples.
