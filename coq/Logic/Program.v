(** * Logic.Program — first-order programs: terms, clauses, goals, substitution, matching.

    The semantic-oracle layer reads a chalk program of the C01 fragment as a set of Horn
    clauses over first-order terms.  Terms are *curried*: [Vec<T>] is [TAp (TCon vec) T],
    and an atom [T: Tr<P>] is the term [tapp tr [T; P]] — predicates are just head symbols, so
    other rule systems (FromEnv, WellFormed, Normalize ...) can reuse the layer by choosing
    their own symbols.  [TPh k] is an opaque constant (chalk's placeholder, the value of a
    [forall] variable), [TVar i] a variable: a clause variable inside clauses, a de Bruijn
    goal variable inside goals, an answer variable inside answers.

    Nothing here depends on the rest of the development. *)

From Coq Require Export List NArith Bool Lia Arith PeanoNat.
Export ListNotations.

Inductive ty : Type :=
| TCon (c : N)
| TAp (f x : ty)
| TPh (k : N)
| TVar (i : nat).

(** n-ary application, the constructor used by the generators. *)
Definition tapp (c : N) (args : list ty) : ty := fold_left TAp args (TCon c).

Record clause : Type := mkClause { chead : ty; cbody : list ty }.

(** [pcoind]: the head symbols read coinductively ([#[coinductive]] and [#[auto]] traits). *)
Record program : Type := mkProg { pclauses : list clause; pcoind : list N }.

(** A hypothesis of an [if]: [hn] own (universally quantified) variables [TVar 0..hn-1]; the
    variables of the enclosing goal are shifted by [hn]. *)
Record hyp : Type := mkHyp { hn : nat; hc : clause }.

Inductive goal : Type :=
| GAtom (a : ty)
| GEq (t1 t2 : ty)
| GAnd (g1 g2 : goal)
| GTrue
| GForall (g : goal)
| GExists (g : goal)
| GIf (hs : list hyp) (g : goal)
| GNot (g : goal).

(** ** Decidable equality *)

Fixpoint ty_eqb (a b : ty) : bool :=
  match a, b with
  | TCon c, TCon d => N.eqb c d
  | TAp f x, TAp g y => ty_eqb f g && ty_eqb x y
  | TPh k, TPh l => N.eqb k l
  | TVar i, TVar j => Nat.eqb i j
  | _, _ => false
  end.

Lemma ty_eqb_eq : forall a b, ty_eqb a b = true <-> a = b.
Proof.
  induction a as [c|f IHf x IHx|k|i]; destruct b as [d|g y|l|j]; cbn [ty_eqb];
    try (split; intro H; discriminate H).
  - rewrite N.eqb_eq. split; intro H; [now subst|now inversion H].
  - rewrite andb_true_iff, IHf, IHx. split; [intros [-> ->]; reflexivity|intro H; inversion H; auto].
  - rewrite N.eqb_eq. split; intro H; [now subst|now inversion H].
  - rewrite Nat.eqb_eq. split; intro H; [now subst|now inversion H].
Qed.

Lemma ty_eqb_refl : forall a, ty_eqb a a = true.
Proof. intro a. apply ty_eqb_eq. reflexivity. Qed.

Lemma ty_eqb_neq : forall a b, ty_eqb a b = false <-> a <> b.
Proof.
  intros a b. split.
  - intros H E. apply ty_eqb_eq in E. congruence.
  - intro H. destruct (ty_eqb a b) eqn:E; [apply ty_eqb_eq in E; contradiction|reflexivity].
Qed.

Definition memT (a : ty) (l : list ty) : bool := existsb (ty_eqb a) l.

Lemma memT_In : forall a l, memT a l = true <-> In a l.
Proof.
  intros a l. unfold memT. rewrite existsb_exists. split.
  - intros [x [Hx E]]. apply ty_eqb_eq in E. now subst.
  - intro H. exists a. split; [assumption|apply ty_eqb_refl].
Qed.

Lemma memT_false : forall a l, memT a l = false <-> ~ In a l.
Proof.
  intros a l. split.
  - intros H HI. apply memT_In in HI. congruence.
  - intro H. destruct (memT a l) eqn:E; [apply memT_In in E; contradiction|reflexivity].
Qed.

Fixpoint tys_eqb (l1 l2 : list ty) : bool :=
  match l1, l2 with
  | [], [] => true
  | a :: r1, b :: r2 => ty_eqb a b && tys_eqb r1 r2
  | _, _ => false
  end.

Lemma tys_eqb_eq : forall l1 l2, tys_eqb l1 l2 = true <-> l1 = l2.
Proof.
  induction l1 as [|a r IH]; destruct l2 as [|b r2]; cbn [tys_eqb]; try (split; intro H; [discriminate H|inversion H]).
  - split; reflexivity.
  - rewrite andb_true_iff, ty_eqb_eq, IH. split; [intros [-> ->]; reflexivity|intro H; inversion H; auto].
Qed.

(** ** Head symbols, coinductive atoms *)

Fixpoint hsym (t : ty) : option N :=
  match t with
  | TCon c => Some c
  | TAp f _ => hsym f
  | _ => None
  end.

Definition memN (x : N) (l : list N) : bool := existsb (N.eqb x) l.

Lemma memN_In : forall x l, memN x l = true <-> In x l.
Proof.
  intros x l. unfold memN. rewrite existsb_exists. split.
  - intros [y [Hy E]]. apply N.eqb_eq in E. now subst.
  - intro H. exists x. split; [assumption|apply N.eqb_refl].
Qed.

Definition isco (co : list N) (a : ty) : bool :=
  match hsym a with Some c => memN c co | None => false end.

(** ** Ground terms, substitution *)

Fixpoint groundb (t : ty) : bool :=
  match t with
  | TVar _ => false
  | TAp f x => groundb f && groundb x
  | _ => true
  end.

Definition ground (t : ty) : Prop := groundb t = true.

Fixpoint subst (th : nat -> ty) (t : ty) : ty :=
  match t with
  | TVar i => th i
  | TAp f x => TAp (subst th f) (subst th x)
  | _ => t
  end.

Fixpoint occurs (i : nat) (t : ty) : bool :=
  match t with
  | TVar j => Nat.eqb i j
  | TAp f x => occurs i f || occurs i x
  | _ => false
  end.

Fixpoint vars (t : ty) : list nat :=
  match t with
  | TVar j => [j]
  | TAp f x => vars f ++ vars x
  | _ => []
  end.

Lemma vars_occurs : forall t i, In i (vars t) <-> occurs i t = true.
Proof.
  induction t as [c|f IHf x IHx|k|j]; intro i; cbn [vars occurs].
  - split; [intros []|discriminate].
  - rewrite in_app_iff, orb_true_iff, IHf, IHx. reflexivity.
  - split; [intros []|discriminate].
  - rewrite Nat.eqb_eq. split; [intros [H|[]]; now subst|intro H; left; now subst].
Qed.

Lemma subst_ext : forall t th1 th2,
  (forall i, occurs i t = true -> th1 i = th2 i) -> subst th1 t = subst th2 t.
Proof.
  induction t as [c|f IHf x IHx|k|j]; intros th1 th2 H; cbn [subst]; try reflexivity.
  - rewrite (IHf th1 th2), (IHx th1 th2); [reflexivity| |];
      intros i Hi; apply H; cbn [occurs]; rewrite Hi; [apply orb_true_r|reflexivity].
  - apply H. cbn [occurs]. apply Nat.eqb_refl.
Qed.

Lemma subst_ground : forall t th, ground t -> subst th t = t.
Proof.
  unfold ground. induction t as [c|f IHf x IHx|k|j]; intros th H; cbn [subst groundb] in *; try reflexivity.
  - apply andb_true_iff in H. destruct H as [H1 H2]. now rewrite IHf, IHx.
  - discriminate.
Qed.

Lemma ground_subst : forall t th, (forall i, occurs i t = true -> ground (th i)) -> ground (subst th t).
Proof.
  unfold ground. induction t as [c|f IHf x IHx|k|j]; intros th H; cbn [subst groundb]; try reflexivity.
  - rewrite IHf, IHx; [reflexivity| |]; intros i Hi; apply H; cbn [occurs]; rewrite Hi;
      [apply orb_true_r|reflexivity].
  - apply H. cbn [occurs]. apply Nat.eqb_refl.
Qed.

Lemma ground_no_occurs : forall t i, ground t -> occurs i t = false.
Proof.
  unfold ground. induction t as [c|f IHf x IHx|k|j]; intros i H; cbn [occurs groundb] in *; try reflexivity.
  - apply andb_true_iff in H. destruct H as [H1 H2]. now rewrite IHf, IHx.
  - discriminate.
Qed.

Lemma subst_subst : forall t th1 th2, subst th2 (subst th1 t) = subst (fun i => subst th2 (th1 i)) t.
Proof.
  induction t as [c|f IHf x IHx|k|j]; intros; cbn [subst]; try reflexivity.
  now rewrite IHf, IHx.
Qed.

Lemma hsym_subst : forall t th c, hsym t = Some c -> hsym (subst th t) = Some c.
Proof.
  induction t as [d|f IHf x IHx|k|j]; intros th c H; cbn [hsym subst] in *; try discriminate; auto.
Qed.

(** Substitutions given by lists: variable [i] is the [i]-th element; out of range stays. *)
Definition listth (l : list ty) : nat -> ty := fun i => nth i l (TVar i).

(** Under [n] own binders: own variables stay, the others are looked up (shifted). *)
Definition hypth (n : nat) (rho : list ty) : nat -> ty :=
  fun i => if Nat.ltb i n then TVar i else nth (i - n) rho (TVar i).

Definition subst_clause (th : nat -> ty) (c : clause) : clause :=
  mkClause (subst th (chead c)) (map (subst th) (cbody c)).

Definition inst_hyp (rho : list ty) (h : hyp) : clause := subst_clause (hypth (hn h) rho) (hc h).

(** ** Placeholder bounds: [phb x] is a strict upper bound of the placeholders in [x]. *)

Fixpoint phb (t : ty) : N :=
  match t with
  | TPh k => N.succ k
  | TAp f x => N.max (phb f) (phb x)
  | _ => 0%N
  end.

Definition phb_list (l : list ty) : N := fold_right (fun t m => N.max (phb t) m) 0%N l.
Definition phb_clause (c : clause) : N := N.max (phb (chead c)) (phb_list (cbody c)).
Definition phb_clauses (l : list clause) : N := fold_right (fun c m => N.max (phb_clause c) m) 0%N l.

Fixpoint phb_goal (g : goal) : N :=
  match g with
  | GAtom a => phb a
  | GEq t1 t2 => N.max (phb t1) (phb t2)
  | GAnd g1 g2 => N.max (phb_goal g1) (phb_goal g2)
  | GTrue => 0%N
  | GForall g' | GExists g' | GNot g' => phb_goal g'
  | GIf hs g' => N.max (fold_right (fun h m => N.max (phb_clause (hc h)) m) 0%N hs) (phb_goal g')
  end.

(** ** Well-formedness of clauses *)

(** Range restriction: every variable of the body occurs in the head (Rust requires impl
    parameters to occur in the impl header). *)
Definition rrb (c : clause) : bool :=
  forallb (fun b => forallb (fun i => occurs i (chead c)) (vars b)) (cbody c).

Definition rr_clause (c : clause) : Prop :=
  forall b i, In b (cbody c) -> occurs i b = true -> occurs i (chead c) = true.

Lemma rrb_spec : forall c, rrb c = true <-> rr_clause c.
Proof.
  intro c. unfold rrb, rr_clause. rewrite forallb_forall. split.
  - intros H b i Hb Hi. specialize (H b Hb). rewrite forallb_forall in H. apply H. now apply vars_occurs.
  - intros H b Hb. apply forallb_forall. intros i Hi. apply (H b i Hb). now apply vars_occurs.
Qed.

Definition rr (cls : list clause) : Prop := forall c, In c cls -> rr_clause c.
Definition rr_allb (cls : list clause) : bool := forallb rrb cls.

Lemma rr_allb_spec : forall cls, rr_allb cls = true <-> rr cls.
Proof.
  intro cls. unfold rr_allb, rr. rewrite forallb_forall. split; intros H c Hc; apply rrb_spec; auto.
Qed.

Lemma rr_app : forall l1 l2, rr l1 -> rr l2 -> rr (l1 ++ l2).
Proof. intros l1 l2 H1 H2 c Hc. apply in_app_iff in Hc. destruct Hc; auto. Qed.

(** ** First-order matching *)

Fixpoint lookup (i : nat) (s : list (nat * ty)) : option ty :=
  match s with
  | [] => None
  | (j, t) :: r => if Nat.eqb i j then Some t else lookup i r
  end.

Fixpoint mtch (p t : ty) (s : list (nat * ty)) : option (list (nat * ty)) :=
  match p with
  | TVar i =>
      match lookup i s with
      | Some u => if ty_eqb u t then Some s else None
      | None => Some ((i, t) :: s)
      end
  | TCon c => match t with TCon d => if N.eqb c d then Some s else None | _ => None end
  | TPh k => match t with TPh l => if N.eqb k l then Some s else None | _ => None end
  | TAp pf px =>
      match t with
      | TAp tf tx => match mtch pf tf s with Some s1 => mtch px tx s1 | None => None end
      | _ => None
      end
  end.

Definition asfun (s : list (nat * ty)) : nat -> ty :=
  fun i => match lookup i s with Some t => t | None => TVar i end.

Definition agree (th : nat -> ty) (s : list (nat * ty)) : Prop :=
  forall i t, lookup i s = Some t -> th i = t.

Definition extends (s s' : list (nat * ty)) : Prop :=
  forall i t, lookup i s = Some t -> lookup i s' = Some t.

Lemma extends_refl : forall s, extends s s.
Proof. intros s i t H. exact H. Qed.

Lemma extends_trans : forall s1 s2 s3, extends s1 s2 -> extends s2 s3 -> extends s1 s3.
Proof. intros s1 s2 s3 H1 H2 i t H. auto. Qed.

Lemma agree_extends : forall th s s', extends s s' -> agree th s' -> agree th s.
Proof. intros th s s' He Ha i t H. apply Ha. apply He. exact H. Qed.

Lemma agree_asfun : forall s, agree (asfun s) s.
Proof. intros s i t H. unfold asfun. now rewrite H. Qed.

Lemma mtch_sound : forall p t s s',
  mtch p t s = Some s' ->
  extends s s' /\ (forall th, agree th s' -> subst th p = t) /\
  (forall i, occurs i p = true -> lookup i s' <> None).
Proof.
  induction p as [c|pf IHf px IHx|k|j]; intros t s s' H; cbn [mtch] in H.
  - destruct t as [d| | |]; try discriminate. destruct (N.eqb c d) eqn:E; [|discriminate].
    apply N.eqb_eq in E. inversion H; subst. split; [apply extends_refl|]. split; [reflexivity|].
    intros i Hi; discriminate Hi.
  - destruct t as [|tf tx| |]; try discriminate.
    destruct (mtch pf tf s) as [s1|] eqn:E1; [|discriminate].
    destruct (IHf _ _ _ E1) as [X1 [Y1 Z1]]. destruct (IHx _ _ _ H) as [X2 [Y2 Z2]].
    split; [eapply extends_trans; eauto|]. split.
    + intros th Ha. cbn [subst]. rewrite (Y2 th Ha). rewrite (Y1 th); [reflexivity|].
      eapply agree_extends; eauto.
    + intros i Hi. cbn [occurs] in Hi. apply orb_true_iff in Hi. destruct Hi as [Hi|Hi].
      * specialize (Z1 i Hi). destruct (lookup i s1) as [u|] eqn:El; [|congruence].
        rewrite (X2 _ _ El). discriminate.
      * apply Z2. exact Hi.
  - destruct t as [| |l|]; try discriminate. destruct (N.eqb k l) eqn:E; [|discriminate].
    apply N.eqb_eq in E. inversion H; subst. split; [apply extends_refl|]. split; [reflexivity|].
    intros i Hi; discriminate Hi.
  - destruct (lookup j s) as [u|] eqn:El.
    + destruct (ty_eqb u t) eqn:E; [|discriminate]. apply ty_eqb_eq in E. inversion H; subst.
      split; [apply extends_refl|]. split.
      * intros th Ha. cbn [subst]. apply Ha. exact El.
      * intros i Hi. cbn [occurs] in Hi. apply Nat.eqb_eq in Hi. subst. congruence.
    + inversion H; subst. split.
      * intros i u Hi. cbn [lookup]. destruct (Nat.eqb i j) eqn:E; [|exact Hi].
        apply Nat.eqb_eq in E. subst. congruence.
      * split.
        -- intros th Ha. cbn [subst]. apply Ha. cbn [lookup]. now rewrite Nat.eqb_refl.
        -- intros i Hi. cbn [occurs] in Hi. cbn [lookup]. rewrite Hi. discriminate.
Qed.

Lemma mtch_complete : forall p t s th,
  agree th s -> subst th p = t -> exists s', mtch p t s = Some s' /\ agree th s'.
Proof.
  induction p as [c|pf IHf px IHx|k|j]; intros t s th Ha H; cbn [subst] in H; subst t; cbn [mtch].
  - rewrite N.eqb_refl. eauto.
  - destruct (IHf (subst th pf) s th Ha eq_refl) as [s1 [E1 A1]]. rewrite E1.
    apply (IHx (subst th px) s1 th A1 eq_refl).
  - rewrite N.eqb_refl. eauto.
  - destruct (lookup j s) as [u|] eqn:El.
    + rewrite (Ha _ _ El). rewrite ty_eqb_refl. eauto.
    + eexists. split; [reflexivity|]. intros i u Hi. cbn [lookup] in Hi.
      destruct (Nat.eqb i j) eqn:E.
      * apply Nat.eqb_eq in E. subst. now inversion Hi.
      * apply Ha. exact Hi.
Qed.

(** Values bound by matching against a ground term are ground. *)
Definition ground_vals (s : list (nat * ty)) : Prop := forall i t, lookup i s = Some t -> ground t.

Lemma mtch_ground : forall p t s s',
  mtch p t s = Some s' -> ground t -> ground_vals s -> ground_vals s'.
Proof.
  unfold ground. induction p as [c|pf IHf px IHx|k|j]; intros t s s' H Ht Hs; cbn [mtch] in H.
  - destruct t; try discriminate. destruct (N.eqb c c0); [|discriminate]. now inversion H; subst.
  - destruct t as [|tf tx| |]; try discriminate. cbn [groundb] in Ht. apply andb_true_iff in Ht.
    destruct Ht as [H1 H2]. destruct (mtch pf tf s) as [s1|] eqn:E1; [|discriminate].
    eapply IHx; eauto.
  - destruct t; try discriminate. destruct (N.eqb k k0); [|discriminate]. now inversion H; subst.
  - destruct (lookup j s) as [u|] eqn:El.
    + destruct (ty_eqb u t); [|discriminate]. now inversion H; subst.
    + inversion H; subst. intros i u Hi. cbn [lookup] in Hi. destruct (Nat.eqb i j).
      * inversion Hi; subst. exact Ht.
      * eapply Hs; eauto.
Qed.

(** Matching of lists of patterns against lists of terms (same length). *)
Fixpoint mtch_list (ps ts : list ty) (s : list (nat * ty)) : option (list (nat * ty)) :=
  match ps, ts with
  | [], [] => Some s
  | p :: pr, t :: tr => match mtch p t s with Some s1 => mtch_list pr tr s1 | None => None end
  | _, _ => None
  end.

Lemma mtch_list_sound : forall ps ts s s',
  mtch_list ps ts s = Some s' ->
  extends s s' /\ (forall th, agree th s' -> map (subst th) ps = ts).
Proof.
  induction ps as [|p pr IH]; intros ts s s' H; destruct ts as [|t tr]; cbn [mtch_list] in H; try discriminate.
  - inversion H; subst. split; [apply extends_refl|reflexivity].
  - destruct (mtch p t s) as [s1|] eqn:E1; [|discriminate].
    destruct (mtch_sound _ _ _ _ E1) as [X1 [Y1 _]]. destruct (IH _ _ _ H) as [X2 Y2].
    split; [eapply extends_trans; eauto|]. intros th Ha. cbn [map]. rewrite (Y2 th Ha).
    rewrite (Y1 th); [reflexivity|]. eapply agree_extends; eauto.
Qed.

Lemma mtch_list_complete : forall ps ts s th,
  agree th s -> map (subst th) ps = ts -> exists s', mtch_list ps ts s = Some s' /\ agree th s'.
Proof.
  induction ps as [|p pr IH]; intros ts s th Ha H; cbn [map] in H; subst ts; cbn [mtch_list].
  - eauto.
  - destruct (mtch_complete p (subst th p) s th Ha eq_refl) as [s1 [E1 A1]]. rewrite E1.
    apply (IH _ s1 th A1 eq_refl).
Qed.

(** [s] is an instance of the pattern list [g]. *)
Definition instance_of (s g : list ty) : bool :=
  match mtch_list g s [] with Some _ => true | None => false end.

Theorem instance_of_spec : forall s g,
  instance_of s g = true <-> exists sigma : nat -> ty, s = map (subst sigma) g.
Proof.
  intros s g. unfold instance_of. split.
  - destruct (mtch_list g s []) as [s'|] eqn:E; [|discriminate]. intros _.
    destruct (mtch_list_sound _ _ _ _ E) as [_ Y]. exists (asfun s'). symmetry. apply Y. apply agree_asfun.
  - intros [sigma H]. destruct (mtch_list_complete g s [] sigma) as [s' [E _]].
    + intros i t Hi. discriminate Hi.
    + now symmetry.
    + now rewrite E.
Qed.

Example instance_of_nonvacuous :
  instance_of [tapp 2 [tapp 0 []]; tapp 0 []] [tapp 2 [TVar 0]; TVar 0] = true /\
  instance_of [tapp 2 [tapp 0 []]; tapp 1 []] [tapp 2 [TVar 0]; TVar 0] = false.
Proof. split; reflexivity. Qed.
