(** * Logic.Contract — what a solver may answer, executable checkers, the C04 relation.

    A *query* is a peeled goal: the outer [forall] variables have become the placeholder
    constants [TPh 0 .. TPh (m-1)] ([q_nph = m]), the outer [exists] variables are the free
    variables of [q_body] ([q_ubs]: one entry per variable = the number of those placeholders
    that are in scope for it, i.e. its universe).  A *solution* is a list of ground terms,
    one per [exists] variable, that respects the universes and satisfies the body.

    An answer carries a list of patterns over answer variables [TVar 0 ..] with their
    universes ([vubs]).

    [contractG] is stated over an arbitrary solution set, so [contract_compat] (property C04)
    does not depend on the fragment for which [Sem] defines truth. *)

From Chalk Require Export Logic.Ground.

Record query : Type := mkQuery { q_nph : N; q_ubs : list N; q_body : goal }.

Inductive answer : Type :=
| AUnique (vubs : list N) (s : list ty)
| ANone
| ADefinite (vubs : list N) (s : list ty)
| ASuggested (vubs : list N) (s : list ty)
| AUnknown.

(** ** Universes *)

(** [ph_ok m ub t]: of the prefix placeholders [TPh 0..m-1], [t] names only those below [ub]. *)
Fixpoint ph_ok (m ub : N) (t : ty) : bool :=
  match t with
  | TPh k => N.ltb k ub || N.leb m k
  | TAp f x => ph_ok m ub f && ph_ok m ub x
  | _ => true
  end.

Definition respectsb (m ub : N) (t : ty) : bool := groundb t && ph_ok m ub t.

Fixpoint respects_allb (m : N) (ubs : list N) (ts : list ty) : bool :=
  match ubs, ts with
  | [], [] => true
  | ub :: ur, t :: tr => respectsb m ub t && respects_allb m ur tr
  | _, _ => false
  end.

Definition app_ans (s tau : list ty) : list ty := map (subst (listth tau)) s.

(** ** Fresh instantiation of answer variables *)

Fixpoint ftau_from (B : N) (k n : nat) : list ty :=
  match n with
  | O => []
  | S n' => TPh (B + N.of_nat k) :: ftau_from B (S k) n'
  end.

Definition ftau (B : N) (n : nat) : list ty := ftau_from B 0 n.

Lemma nth_ftau_from : forall n B k i d,
  nth i (ftau_from B k n) d = if Nat.ltb i n then TPh (B + N.of_nat (k + i)) else d.
Proof.
  induction n as [|n IH]; intros B k i d; cbn [ftau_from].
  - destruct i; reflexivity.
  - destruct i as [|i]; cbn [nth].
    + now rewrite Nat.add_0_r.
    + rewrite IH. change (Nat.ltb (S i) (S n)) with (Nat.ltb i n).
      replace (S k + i)%nat with (k + S i)%nat by lia. reflexivity.
Qed.

Lemma listth_ftau : forall B n i,
  listth (ftau B n) i = if Nat.ltb i n then TPh (B + N.of_nat i) else TVar i.
Proof. intros. unfold listth, ftau. now rewrite nth_ftau_from. Qed.

Lemma respects_ftau_from : forall vubs m B k,
  (m <= B)%N -> respects_allb m vubs (ftau_from B k (length vubs)) = true.
Proof.
  induction vubs as [|ub r IH]; intros m B k H; cbn [length ftau_from respects_allb]; [reflexivity|].
  rewrite IH by assumption. unfold respectsb. cbn [groundb ph_ok].
  replace (N.leb m (B + N.of_nat k)) with true; [now rewrite orb_true_r|].
  symmetry. apply N.leb_le. lia.
Qed.

(** Generalisation: turn the placeholders from [B] upwards back into variables. *)
Fixpoint gen (B : N) (t : ty) : ty :=
  match t with
  | TPh k => if N.leb B k then TVar (N.to_nat (k - B)) else TPh k
  | TAp f x => TAp (gen B f) (gen B x)
  | _ => t
  end.

Lemma gen_subst : forall B t th,
  (phb t <= B)%N -> gen B (subst th t) = subst (fun i => gen B (th i)) t.
Proof.
  induction t as [c|f IHf x IHx|k|j]; intros th H; cbn [subst gen phb] in *; try reflexivity.
  - rewrite IHf, IHx by lia. reflexivity.
  - destruct (N.leb B k) eqn:E; [apply N.leb_le in E; lia|reflexivity].
Qed.

Lemma phb_list_in : forall l t, In t l -> (phb t <= phb_list l)%N.
Proof.
  induction l as [|a r IH]; intros t []; cbn [phb_list fold_right].
  - subst. lia.
  - specialize (IH t H). unfold phb_list in IH. lia.
Qed.

Lemma subst_id : forall t, subst (fun i => TVar i) t = t.
Proof. induction t; cbn [subst]; congruence. Qed.

Lemma gen_app_ans_fresh : forall B n s,
  (phb_list s <= B)%N -> map (gen B) (app_ans s (ftau B n)) = s.
Proof.
  intros B n s H. unfold app_ans. rewrite map_map. rewrite <- (map_id s) at 2.
  apply map_ext_in. intros t Ht. rewrite gen_subst by (pose proof (phb_list_in _ _ Ht); lia).
  rewrite <- (subst_id t) at 2. apply subst_ext. intros i _. rewrite listth_ftau.
  destruct (Nat.ltb i n); cbn [gen]; [|reflexivity].
  replace (N.leb B (B + N.of_nat i)) with true by (symmetry; apply N.leb_le; lia).
  f_equal. lia.
Qed.

Lemma gen_app_ans : forall B s tau,
  (phb_list s <= B)%N -> map (gen B) (app_ans s tau) = map (subst (fun i => gen B (listth tau i))) s.
Proof.
  intros B s tau H. unfold app_ans. rewrite map_map. apply map_ext_in. intros t Ht.
  apply gen_subst. pose proof (phb_list_in _ _ Ht). lia.
Qed.

(** ** The contract, over an arbitrary solution set *)

Section Generic.
  Variable m : N.
  Variable Sol : list ty -> Prop.

  Definition contractG (a : answer) : Prop :=
    match a with
    | AUnique vubs s =>
        (forall tau, respects_allb m vubs tau = true -> Sol (app_ans s tau)) /\
        (forall th, Sol th -> exists tau, th = app_ans s tau)
    | ANone => forall th, ~ Sol th
    | ADefinite vubs s => forall th, Sol th -> exists tau, th = app_ans s tau
    | ASuggested _ _ | AUnknown => True
    end.

  (** The C04 relation. *)
  Definition compatible (a1 a2 : answer) : bool :=
    match a1, a2 with
    | ANone, AUnique _ _ | AUnique _ _, ANone => false
    | AUnique _ s1, AUnique _ s2 => instance_of s1 s2 && instance_of s2 s1
    | AUnique _ s, ADefinite _ g | ADefinite _ g, AUnique _ s => instance_of s g
    | _, _ => true
    end.

  Lemma unique_instance : forall vubs s g,
    (forall tau, respects_allb m vubs tau = true -> Sol (app_ans s tau)) ->
    (forall th, Sol th -> exists tau, th = app_ans g tau) ->
    instance_of s g = true.
  Proof.
    intros vubs s g H1 H2.
    set (B := N.max m (N.max (phb_list s) (phb_list g))).
    assert (HS : Sol (app_ans s (ftau B (length vubs)))).
    { apply H1. unfold ftau. apply respects_ftau_from. unfold B. lia. }
    destruct (H2 _ HS) as [tau E]. apply instance_of_spec.
    exists (fun i => gen B (listth tau i)).
    rewrite <- (gen_app_ans_fresh B (length vubs) s) by (unfold B; lia).
    rewrite E. apply gen_app_ans. unfold B. lia.
  Qed.

  Theorem contract_compatG : forall a1 a2, contractG a1 -> contractG a2 -> compatible a1 a2 = true.
  Proof.
    intros a1 a2 C1 C2.
    destruct a1 as [v1 s1| |v1 s1|v1 s1|]; destruct a2 as [v2 s2| |v2 s2|v2 s2|]; cbn [compatible contractG] in *;
      try reflexivity.
    - destruct C1 as [A1 B1]. destruct C2 as [A2 B2]. apply andb_true_iff. split.
      + eapply unique_instance; eauto.
      + eapply unique_instance; eauto.
    - destruct C1 as [A1 _]. exfalso.
      apply (C2 (app_ans s1 (ftau m (length v1)))). apply A1. unfold ftau. apply respects_ftau_from. lia.
    - destruct C1 as [A1 _]. eapply unique_instance; eauto.
    - destruct C2 as [A2 _]. exfalso.
      apply (C1 (app_ans s2 (ftau m (length v2)))). apply A2. unfold ftau. apply respects_ftau_from. lia.
    - destruct C2 as [A2 _]. eapply unique_instance; eauto.
  Qed.
End Generic.

(** ** The contract relative to the declarative semantics *)

Definition Sols (P : program) (env : list clause) (q : query) : list ty -> Prop :=
  fun th => respects_allb (q_nph q) (q_ubs q) th = true /\ sat P env (rev th) (q_body q).

Definition contract (P : program) (env : list clause) (q : query) (a : answer) : Prop :=
  contractG (q_nph q) (Sols P env q) a.

(** Property C04: two answers that both satisfy the contract are compatible — for *any*
    notion of solution. *)
Theorem contract_compat : forall (m : N) (Sol : list ty -> Prop) a1 a2,
  contractG m Sol a1 -> contractG m Sol a2 -> compatible a1 a2 = true.
Proof. exact contract_compatG. Qed.

Corollary contract_compat_sem : forall P env q a1 a2,
  contract P env q a1 -> contract P env q a2 -> compatible a1 a2 = true.
Proof. intros P env q a1 a2. apply contract_compatG. Qed.

(** ** Executable checkers *)

Inductive verdict : Type := VOk | VAlarm (code : N) | VIncon.

Definition verdict_code (v : verdict) : N :=
  match v with VOk => 0 | VIncon => 1 | VAlarm c => 10 + c end.

Definition fresh_base (P : program) (env : list clause) (q : query) (s : list ty) : N :=
  N.max (q_nph q) (N.max (phb_clauses (pclauses P)) (N.max (phb_clauses env)
        (N.max (phb_list s) (phb_goal (q_body q))))).

(** Soundness half of [Unique]: the body under the answer with fresh placeholders for its
    variables. *)
Definition sound_half (fuel : nat) (P : program) (env : list clause) (q : query)
                      (vubs : list N) (s : list ty) : option bool :=
  eval_goal fuel P env (rev (app_ans s (ftau (fresh_base P env q s) (length vubs)))) (q_body q).

(** Is the candidate a solution? *)
Definition cand_sol (fuel : nat) (P : program) (env : list clause) (q : query) (th : list ty) : option bool :=
  if respects_allb (q_nph q) (q_ubs q) th then eval_goal fuel P env (rev th) (q_body q) else Some false.

Definition is_true (o : option bool) : bool := match o with Some true => true | _ => false end.
Definition is_none (o : option bool) : bool := match o with None => true | _ => false end.

Definition has_missing fuel P env q s (cands : list (list ty)) : bool :=
  existsb (fun th => is_true (cand_sol fuel P env q th) && negb (instance_of th s)) cands.

Definition has_solution fuel P env q (cands : list (list ty)) : bool :=
  existsb (fun th => is_true (cand_sol fuel P env q th)) cands.

Definition has_incon fuel P env q (cands : list (list ty)) : bool :=
  existsb (fun th => is_none (cand_sol fuel P env q th)) cands.

(** Alarm codes: 1 = [Unique] substitution has a false instance; 2 = a solution is not an
    instance of the [Unique]/[Definite] substitution; 3 = [NoSolution] although a solution
    exists. *)
Definition check_answer (fuel : nat) (P : program) (env : list clause) (q : query)
                        (a : answer) (cands : list (list ty)) : verdict :=
  match a with
  | AUnique vubs s =>
      let sh := sound_half fuel P env q vubs s in
      match sh with
      | Some false => VAlarm 1
      | _ =>
          if has_missing fuel P env q s cands then VAlarm 2
          else if is_none sh || has_incon fuel P env q cands then VIncon else VOk
      end
  | ANone =>
      if has_solution fuel P env q cands then VAlarm 3
      else if has_incon fuel P env q cands then VIncon else VOk
  | ADefinite vubs s =>
      if has_missing fuel P env q s cands then VAlarm 2
      else if has_incon fuel P env q cands then VIncon else VOk
  | ASuggested _ _ | AUnknown => VOk
  end.

Lemma cand_sol_true : forall fuel P env q th,
  rr (allc P env) -> cand_sol fuel P env q th = Some true -> Sols P env q th.
Proof.
  intros fuel P env q th Hrr H. unfold cand_sol in H.
  destruct (respects_allb (q_nph q) (q_ubs q) th) eqn:E; [|discriminate].
  split; [exact E|]. apply (eval_correct _ _ _ _ _ _ Hrr H). reflexivity.
Qed.

Lemma has_missing_sound : forall fuel P env q s cands,
  rr (allc P env) -> has_missing fuel P env q s cands = true ->
  exists th, Sols P env q th /\ ~ exists tau, th = app_ans s tau.
Proof.
  intros fuel P env q s cands Hrr H. unfold has_missing in H. apply existsb_exists in H.
  destruct H as [th [_ H]]. apply andb_true_iff in H. destruct H as [H1 H2].
  exists th. split.
  - apply (cand_sol_true fuel); [exact Hrr|]. destruct (cand_sol fuel P env q th) as [[|]|]; try discriminate. reflexivity.
  - intros [tau E]. apply negb_true_iff in H2.
    assert (instance_of th s = true); [|congruence].
    apply instance_of_spec. exists (listth tau). exact E.
Qed.

(** Alarm soundness: whenever the checker flags an answer, the contract is really violated. *)
Theorem check_answer_alarm_sound : forall fuel P env q a cands c,
  rr (allc P env) -> check_answer fuel P env q a cands = VAlarm c -> ~ contract P env q a.
Proof.
  intros fuel P env q a cands c Hrr H C. unfold contract in C.
  destruct a as [vubs s| |vubs s|vubs s|]; cbn [check_answer contractG] in *; try discriminate.
  - destruct C as [C1 C2].
    destruct (sound_half fuel P env q vubs s) as [[|]|] eqn:Es.
    + destruct (has_missing fuel P env q s cands) eqn:Em.
      * destruct (has_missing_sound _ _ _ _ _ _ Hrr Em) as [th [Hs Hn]]. apply Hn. now apply C2.
      * destruct (is_none (Some true) || has_incon fuel P env q cands); discriminate.
    + unfold sound_half in Es.
      assert (HS : Sols P env q (app_ans s (ftau (fresh_base P env q s) (length vubs)))).
      { apply C1. unfold ftau. apply respects_ftau_from. unfold fresh_base. lia. }
      destruct HS as [_ HS]. apply (eval_correct _ _ _ _ _ _ Hrr Es) in HS. discriminate.
    + destruct (has_missing fuel P env q s cands) eqn:Em.
      * destruct (has_missing_sound _ _ _ _ _ _ Hrr Em) as [th [Hs Hn]]. apply Hn. now apply C2.
      * destruct (is_none None || has_incon fuel P env q cands); discriminate.
  - destruct (has_solution fuel P env q cands) eqn:Eh.
    + unfold has_solution in Eh. apply existsb_exists in Eh. destruct Eh as [th [_ Ht]].
      apply (C th). apply (cand_sol_true fuel); [exact Hrr|].
      destruct (cand_sol fuel P env q th) as [[|]|]; try discriminate. reflexivity.
    + destruct (has_incon fuel P env q cands); discriminate.
  - destruct (has_missing fuel P env q s cands) eqn:Em.
    + destruct (has_missing_sound _ _ _ _ _ _ Hrr Em) as [th [Hs Hn]]. apply Hn. now apply C.
    + destruct (has_incon fuel P env q cands); discriminate.
Qed.

(** ** Closed goals (property C02): the contract leaves exactly one definitive answer *)

Definition closed_query (g : goal) : query := mkQuery 0 [] g.

Lemma respects_nil : forall m tau, respects_allb m [] tau = true -> tau = [].
Proof. intros m [|t r] H; [reflexivity|discriminate H]. Qed.

Lemma closed_unique : forall P env g,
  contract P env (closed_query g) (AUnique [] []) <-> sat P env [] g.
Proof.
  intros P env g. unfold contract, closed_query. cbn [contractG q_nph]. split.
  - intros [H _]. destruct (H [] eq_refl) as [_ Hs]. exact Hs.
  - intro Hs. split.
    + intros tau _. split; [reflexivity|exact Hs].
    + intros th [Hr _]. apply respects_nil in Hr. subst. exists []. reflexivity.
Qed.

Lemma closed_none : forall P env g,
  contract P env (closed_query g) ANone <-> ~ sat P env [] g.
Proof.
  intros P env g. unfold contract, closed_query. cbn [contractG q_nph]. split.
  - intros H Hs. apply (H []). split; [reflexivity|exact Hs].
  - intros Hn th [Hr Hs]. apply respects_nil in Hr. subst. apply Hn. exact Hs.
Qed.

(** For a closed goal a verdict of the oracle determines which of [Unique] / [NoSolution]
    satisfies the contract: exactly one of them. *)
Theorem closed_answer_exact : forall fuel P env g b,
  rr (allc P env) -> eval_goal fuel P env [] g = Some b ->
  (contract P env (closed_query g) (AUnique [] []) <-> b = true) /\
  (contract P env (closed_query g) ANone <-> b = false).
Proof.
  intros fuel P env g b Hrr H. pose proof (eval_correct _ _ _ _ _ _ Hrr H) as E.
  rewrite closed_unique, closed_none. split; [tauto|].
  destruct b; split; intro X; try discriminate; try reflexivity.
  - exfalso. apply X. now apply E.
  - intro Hs. apply E in Hs. discriminate.
Qed.

(** ** Predicate dependency graph: the restriction of the properties and the known class *)

Definition syms_of (l : list ty) : list N :=
  flat_map (fun b => match hsym b with Some s => [s] | None => [] end) l.

Definition deps (cls : list clause) (h : N) : list N :=
  flat_map (fun c => match hsym (chead c) with
                     | Some h' => if N.eqb h h' then syms_of (cbody c) else []
                     | None => []
                     end) cls.

Fixpoint reachS (fuel : nat) (cls : list clause) (todo seen : list N) : list N :=
  match fuel with
  | O => seen
  | S f =>
      match todo with
      | [] => seen
      | h :: r => if memN h seen then reachS f cls r seen else reachS f cls (deps cls h ++ r) (h :: seen)
      end
  end.

Definition graph_fuel (cls : list clause) (n : nat) : nat :=
  2 * (n + fold_right (fun c k => (S (length (cbody c)) + k)%nat) O cls) + 2.

(** symbols reachable from [h] in one or more steps *)
Definition reaches_from (cls : list clause) (h : N) : list N :=
  reachS (graph_fuel cls 0) cls (deps cls h) [].

(** No cycle of the predicate dependency graph goes through both an inductive and a
    coinductive symbol (the properties' "no mixed cycles"). *)
Definition no_mixed_cycles (cls : list clause) (co : list N) : bool :=
  forallb (fun c =>
    match hsym (chead c) with
    | None => false
    | Some h =>
        forallb (fun b =>
          match hsym b with
          | None => false
          | Some h' => Bool.eqb (memN h co) (memN h' co) || negb (memN h (h' :: reaches_from cls h'))
          end) (cbody c)
    end) cls.

Fixpoint goal_atoms (g : goal) : list ty :=
  match g with
  | GAtom a => [a]
  | GAnd g1 g2 => goal_atoms g1 ++ goal_atoms g2
  | GForall g' | GExists g' | GNot g' => goal_atoms g'
  | GIf hs g' => goal_atoms g'
  | _ => []
  end.

Fixpoint goal_clauses (g : goal) : list clause :=
  match g with
  | GAnd g1 g2 => goal_clauses g1 ++ goal_clauses g2
  | GForall g' | GExists g' | GNot g' => goal_clauses g'
  | GIf hs g' => map hc hs ++ goal_clauses g'
  | _ => []
  end.

Definition query_clauses (P : program) (q : query) : list clause := goal_clauses (q_body q) ++ pclauses P.

Definition fragment_ok (P : program) (q : query) : bool :=
  rr_allb (pclauses P) && no_mixed_cycles (query_clauses P q) (pcoind P).

(** Known class F13/F14 (DESIGN §5): the goal has an unknown and reaches a coinductive
    predicate one of whose clauses re-enters the predicate's strongly connected component
    with a non-ground argument. *)
Definition f14_class (P : program) (q : query) : bool :=
  let cls := query_clauses P q in
  let start := syms_of (goal_atoms (q_body q)) in
  let R0 := reachS (graph_fuel cls (length start)) cls start [] in
  negb (Nat.eqb (length (q_ubs q)) 0) &&
  existsb (fun c =>
    match hsym (chead c) with
    | None => false
    | Some h =>
        memN h (pcoind P) && memN h R0 &&
        existsb (fun b => negb (groundb b) &&
                          match hsym b with
                          | Some h' => N.eqb h' h || memN h (reaches_from cls h')
                          | None => false
                          end) (cbody c)
    end) cls.

(** Known class F14b (found by the thorough tier of C04 on the and-or programs; the SLG solver's
    treatment of coinductive cycles on non-ground goals again, this time losing answers): the
    goal has an unknown and reaches a coinductive predicate with a *blanket* clause — an
    argument of the head is a bare variable — whose body re-enters the predicate's strongly
    connected component with that very variable as an argument.  SLG then may answer
    [Unique] with a substitution that is only one of the solutions. *)
Fixpoint aargs (t : ty) : list ty :=
  match t with
  | TAp f x => aargs f ++ [x]
  | _ => []
  end.

Definition bare_vars (t : ty) : list nat :=
  flat_map (fun x => match x with TVar i => [i] | _ => [] end) (aargs t).

Definition f14b_class (P : program) (q : query) : bool :=
  let cls := query_clauses P q in
  let start := syms_of (goal_atoms (q_body q)) in
  let R0 := reachS (graph_fuel cls (length start)) cls start [] in
  negb (Nat.eqb (length (q_ubs q)) 0) &&
  existsb (fun c =>
    match hsym (chead c) with
    | None => false
    | Some h =>
        memN h (pcoind P) && memN h R0 &&
        existsb (fun i =>
          existsb (fun b => existsb (Nat.eqb i) (bare_vars b) &&
                            match hsym b with
                            | Some h' => N.eqb h' h || memN h (reaches_from cls h')
                            | None => false
                            end) (cbody c)) (bare_vars (chead c))
    end) cls.

(** Known class F1 (DESIGN §5; [MayInvalidate] compares a new answer with the current guidance
    position by position and ignores that the guidance may repeat a bound variable).  The
    guidance can repeat a variable only if two unknowns of the goal can be identified, or one
    unknown can be bound to a term with a repeated variable: the goal has at least two
    unknowns, or it has one and reaches a clause (or hypothesis) head that repeats a variable. *)
Fixpoint has_dup (l : list nat) : bool :=
  match l with
  | [] => false
  | i :: r => existsb (Nat.eqb i) r || has_dup r
  end.

(** Superseded, wide version (kept only so that the evidence can report how much narrower the
    class became): two or more unknowns, or one unknown reaching a non-linear head. *)
Definition f1_class_wide (P : program) (q : query) : bool :=
  let cls := query_clauses P q in
  let start := syms_of (goal_atoms (q_body q)) in
  let R0 := reachS (graph_fuel cls (length start)) cls start [] in
  Nat.leb 2 (length (q_ubs q)) ||
  (Nat.eqb (length (q_ubs q)) 1 &&
   existsb (fun c =>
     match hsym (chead c) with
     | None => false
     | Some h => memN h R0 && has_dup (vars (chead c))
     end) cls).

(** The hypotheses of a goal, and whether one mentions a variable of the goal (an index
    beyond its own [hn] variables). *)
Fixpoint goal_hyps_of (g : goal) : list hyp :=
  match g with
  | GAnd g1 g2 => goal_hyps_of g1 ++ goal_hyps_of g2
  | GForall g' | GExists g' | GNot g' => goal_hyps_of g'
  | GIf hs g' => hs ++ goal_hyps_of g'
  | _ => []
  end.

Definition hyp_mentions_goal_var (h : hyp) : bool :=
  existsb (fun i => Nat.leb (hn h) i) (vars (chead (hc h))).

(** F1 needs a *first answer whose substitution repeats a variable* (guidance produced by
    merging never repeats one).  Such an answer can only come from resolving with a clause
    head that repeats a variable, or with a hypothesis that mentions an unknown of the goal
    (two unknowns matched against the same hypothesis variable).  Same shape as
    [Perm.f1_order_class]. *)
Definition f1_class (P : program) (q : query) : bool :=
  let cls := query_clauses P q in
  let start := syms_of (goal_atoms (q_body q)) in
  let R0 := reachS (graph_fuel cls (length start)) cls start [] in
  negb (Nat.eqb (length (q_ubs q)) 0) &&
  (existsb (fun c =>
     match hsym (chead c) with
     | None => false
     | Some h => memN h R0 && has_dup (vars (chead c))
     end) cls
   || existsb hyp_mentions_goal_var (goal_hyps_of (q_body q))).

(** The symptom that is forgiven: definite guidance that itself repeats a bound variable. *)
Definition guidance_repeats (a : answer) : bool :=
  match a with
  | ADefinite _ s => has_dup (flat_map vars s)
  | _ => false
  end.

(** Known class F7q (found by the C05 builder; same mechanism as DESIGN §5 F7, but within one
    query): the ground search space of the goal contains a coinductive atom [g], different
    from the root atom, that lies on a cycle whose strongly connected component is not a
    simple ring (some member has two distinct successors inside the component).  The SLG
    solver then may answer "no solution" for a goal that holds coinductively. *)
Fixpoint dedup (l : list ty) : list ty :=
  match l with
  | [] => []
  | a :: r => if memT a r then dedup r else a :: dedup r
  end.

Definition succs (cls : list clause) (x : ty) : list ty := dedup (concat (bodies cls x)).

Definition reach_plus (fuel : nat) (cls : list clause) (x : ty) : list ty :=
  match reach (bodies cls) fuel (succs cls x) [] with Some R => R | None => [] end.

Definition f7q_atom (fuel : nat) (cls : list clause) (co : list N) (a : ty) : bool :=
  match reach (bodies cls) fuel [a] [] with
  | None => false
  | Some R =>
      existsb (fun g =>
        negb (ty_eqb g a) && isco co g &&
        let Rg := reach_plus fuel cls g in
        memT g Rg &&
        let scc := filter (fun y => memT g (reach_plus fuel cls y)) Rg in
        existsb (fun m => Nat.leb 2 (length (filter (fun s => memT s scc) (succs cls m)))) scc) R
  end.

(** [goal_any f]: does [f] hold for some (ground) atom the evaluation of the goal looks at?
    Mirrors the traversal of [eval_goalx]. *)
Fixpoint goal_any (f : list clause -> ty -> bool) (P : program) (env : list clause) (rho : list ty) (g : goal) : bool :=
  match g with
  | GAtom a => let a' := subst (listth rho) a in groundb a' && f (allc P env) a'
  | GAnd g1 g2 => goal_any f P env rho g1 || goal_any f P env rho g2
  | GForall g' => goal_any f P env (TPh (fresh P env rho g') :: rho) g'
  | GExists g' => false
  | GIf hs g' => goal_any f P (map (inst_hyp rho) hs ++ env) rho g'
  | GNot g' => goal_any f P env rho g'
  | _ => false
  end.

Definition f7q_class (fuel : nat) (P : program) (g : goal) : bool :=
  goal_any (fun cls a => f7q_atom fuel cls (pcoind P) a) P [] [] g.

(** Known class F7n: SLG panics ("Negative subgoal had delayed_subgoals", logic.rs) when a
    negated closed goal looks at an atom whose search space contains a coinductive cycle atom
    in a strongly connected component that is not a simple ring (the negated subgoal's answer
    then carries delayed subgoals, which the engine declares impossible "by construction"). *)
Definition f7n_atom (fuel : nat) (cls : list clause) (co : list N) (a : ty) : bool :=
  match reach (bodies cls) fuel [a] [] with
  | None => false
  | Some R =>
      existsb (fun g =>
        isco co g &&
        let Rg := reach_plus fuel cls g in
        memT g Rg &&
        let scc := filter (fun y => memT g (reach_plus fuel cls y)) Rg in
        existsb (fun m => Nat.leb 2 (length (filter (fun s => memT s scc) (succs cls m)))) scc) R
  end.

Fixpoint goal_any_neg (f : list clause -> ty -> bool) (P : program) (env : list clause) (rho : list ty)
                      (neg : bool) (g : goal) : bool :=
  match g with
  | GAtom a => let a' := subst (listth rho) a in neg && groundb a' && f (allc P env) a'
  | GAnd g1 g2 => goal_any_neg f P env rho neg g1 || goal_any_neg f P env rho neg g2
  | GForall g' => goal_any_neg f P env (TPh (fresh P env rho g') :: rho) neg g'
  | GExists g' => false
  | GIf hs g' => goal_any_neg f P (map (inst_hyp rho) hs ++ env) rho neg g'
  | GNot g' => goal_any_neg f P env rho true g'
  | _ => false
  end.

(** Second form of F7n: the negated goal is a conjunction in which two conjuncts (at different
    positions) reach two DIFFERENT members of one coinductive cycle — the table of the second
    member was created as a non-root member of the first one's cycle (the F7 mechanism inside
    one negative subgoal): [not { S0: C, S1: C }] over the ring [S0 :- S1], [S1 :- S0]. *)
Definition reach_or_nil (fuel : nat) (cls : list clause) (a : ty) : list ty :=
  match reach (bodies cls) fuel [a] [] with Some R => R | None => [] end.

Fixpoint pairs_later {A : Type} (f : A -> A -> bool) (l : list A) : bool :=
  match l with
  | [] => false
  | a :: r => existsb (f a) r || pairs_later f r
  end.

Definition two_cycle_members (fuel : nat) (cls : list clause) (co : list N) (a1 a2 : ty) : bool :=
  existsb (fun g1 =>
    isco co g1 &&
    existsb (fun g2 => negb (ty_eqb g1 g2) && memT g2 (reach_plus fuel cls g1) && memT g1 (reach_plus fuel cls g2))
            (reach_or_nil fuel cls a2)) (reach_or_nil fuel cls a1).

Fixpoint has_not (g : goal) : bool :=
  match g with
  | GNot _ => true
  | GAnd g1 g2 => has_not g1 || has_not g2
  | GForall g' | GExists g' | GIf _ g' => has_not g'
  | _ => false
  end.

(** The goal contains a [not], and two of its (ground) atoms at different positions — inside or
    outside the [not] — reach two different members of one coinductive cycle: one of the two
    tables is then created as a non-root member of the other's cycle and consumed again by the
    negative literal ([S1: C, not { W<S0>: C }] as well as [not { S0: C, S1: C }]). *)
Definition f7n_conj (fuel : nat) (P : program) (g : goal) : bool :=
  has_not g &&
  pairs_later (two_cycle_members fuel (pclauses P) (pcoind P)) (filter groundb (goal_atoms g)).

Definition f7n_class (fuel : nat) (P : program) (g : goal) : bool :=
  goal_any_neg (fun cls a => f7n_atom fuel cls (pcoind P) a) P [] [] false g || f7n_conj fuel P g.

(** F7q for goals with unknowns: some candidate instantiation of the unknowns makes the goal
    look at an atom of the F7n/F7q kind (for a non-ground goal every ground atom is a
    non-root member of the search). *)
Definition f7q_query (fuel : nat) (P : program) (q : query) (cands : list (list ty)) : bool :=
  existsb (fun th => goal_any (fun cls a => f7n_atom fuel cls (pcoind P) a) P [] (rev th) (q_body q)) cands.

(** ** Witnesses (computation) *)

Module ContractExamples.
  (* F14: #[coinductive] trait Tr0 {}  impl<T> Tr0 for S2<T> where T: Tr0 {}   exists<A> { A: Tr0 } *)
  Definition S0 := tapp 0 [].
  Definition S2 t := tapp 1 [t].
  Definition Tr0 t := tapp 1000 [t].
  Definition P14 := mkProg [mkClause (Tr0 (S2 (TVar 0))) [Tr0 (TVar 0)]] [1000%N].
  Definition q14 := mkQuery 0 [0%N] (GAtom (Tr0 (TVar 0))).
  Definition slg14 := AUnique [0%N] [S2 (TVar 0)].

  Example rr14 : rr (allc P14 []).
  Proof. apply rr_allb_spec. reflexivity. Qed.

  (** The answer SLG gives on the unchanged tree violates the contract ... *)
  Theorem f14_refuted : f14_class P14 q14 = true /\ ~ contract P14 [] q14 slg14.
  Proof.
    split; [reflexivity|].
    apply (check_answer_alarm_sound 50 P14 [] q14 slg14 [] 1 rr14). reflexivity.
  Qed.

  (** ... and [NoSolution] is what the semantics dictates on ground instances. *)
  Example f14_ground : eval_goal 50 P14 [] [] (GAtom (Tr0 (S2 S0))) = Some false.
  Proof. reflexivity. Qed.

  (* F1: trait Foo<U>; impl<T> Foo<T> for Vec<T>; impl Foo<U32> for Vec<I32>;  exists<A,B> { A: Foo<B> } *)
  Definition I32 := tapp 0 [].
  Definition U32 := tapp 1 [].
  Definition Vec t := tapp 2 [t].
  Definition Foo a b := tapp 1000 [a; b].
  Definition P1 := mkProg [mkClause (Foo (Vec (TVar 0)) (TVar 0)) []; mkClause (Foo (Vec I32) U32) []] [].
  Definition q1 := mkQuery 0 [0%N; 0%N] (GAtom (Foo (TVar 1) (TVar 0))).
  Definition slg1 := ADefinite [0%N] [Vec (TVar 0); TVar 0].

  Example rr1 : rr (allc P1 []).
  Proof. apply rr_allb_spec. reflexivity. Qed.

  Theorem f1_refuted : f1_class P1 q1 = true /\ guidance_repeats slg1 = true /\ ~ contract P1 [] q1 slg1.
  Proof.
    split; [reflexivity|]. split; [reflexivity|].
    apply (check_answer_alarm_sound 50 P1 [] q1 slg1 [[Vec I32; U32]] 2 rr1). reflexivity.
  Qed.

  (** Non-vacuity: a correct answer passes, and a contract really holds. *)
  Example check_ok : check_answer 50 P1 [] q1 (ADefinite [0%N] [Vec (TVar 0); TVar 1]) [[Vec I32; U32]; [Vec U32; U32]] = VOk.
  Proof. reflexivity. Qed.

  Example compat_examples :
    compatible ANone (AUnique [] [I32]) = false /\
    compatible (AUnique [0%N] [Vec (TVar 0)]) (AUnique [0%N] [Vec (TVar 3)]) = true /\
    compatible (AUnique [] [Vec I32; U32]) slg1 = false /\
    compatible (AUnique [] [Vec I32; I32]) slg1 = true.
  Proof. repeat split; reflexivity. Qed.

  Example contract_compat_nonvacuous :
    contractG 0 (fun th => th = [I32]) (AUnique [] [I32]) /\
    contractG 0 (fun th => th = [I32]) (ADefinite [0%N] [TVar 0]).
  Proof.
    split.
    - split; [intros tau _; reflexivity|intros th ->; exists []; reflexivity].
    - intros th ->. exists [I32]. reflexivity.
  Qed.
  (* F7q: #[coinductive] trait C; S0 :- S1; S1 :- S3, S2; S2 :- S1, S3; S3 :- S2 ; goal S0: C *)
  Definition K (n : N) := tapp n [].
  Definition C t := tapp 1000 [t].
  Definition P7q := mkProg [mkClause (C (K 0)) [C (K 1)]; mkClause (C (K 1)) [C (K 3); C (K 2)];
                            mkClause (C (K 2)) [C (K 1); C (K 3)]; mkClause (C (K 3)) [C (K 2)]] [1000%N].

  Example rr7q : rr (allc P7q []).
  Proof. apply rr_allb_spec. reflexivity. Qed.

  (** SLG answers [NoSolution] for [S0: C] on the unchanged tree; the goal holds. *)
  Theorem f7q_refuted :
    f7q_class 50 P7q (GAtom (C (K 0))) = true /\ ~ contract P7q [] (closed_query (GAtom (C (K 0)))) ANone.
  Proof.
    split; [reflexivity|].
    apply (check_answer_alarm_sound 50 P7q [] (closed_query (GAtom (C (K 0)))) ANone [[]] 3 rr7q). reflexivity.
  Qed.

  (* simple rings and stars are outside the class *)
  Example f7q_ring_outside :
    f7q_class 50 (mkProg [mkClause (C (K 0)) [C (K 1)]; mkClause (C (K 1)) [C (K 2)]; mkClause (C (K 2)) [C (K 1)]] [1000%N]) (GAtom (C (K 0))) = false.
  Proof. reflexivity. Qed.
  Example f7q_query_witness :
    f7q_query 50 P7q (mkQuery 0 [0%N] (GAtom (C (TVar 0)))) [[K 0]; [K 2]] = true /\
    ~ contract P7q [] (mkQuery 0 [0%N] (GAtom (C (TVar 0)))) ANone.
  Proof.
    split; [reflexivity|].
    apply (check_answer_alarm_sound 50 P7q [] (mkQuery 0 [0%N] (GAtom (C (TVar 0)))) ANone [[K 2]] 3 rr7q). reflexivity.
  Qed.

  (* F7n: not { S2: C } on P7q (S2 lies in the non-ring SCC): SLG panics on the unchanged tree;
     the goal is simply false *)
  Example f7n_witness :
    f7n_class 50 P7q (GNot (GAtom (C (K 2)))) = true /\ eval_goal 50 P7q [] [] (GNot (GAtom (C (K 2)))) = Some false /\
    f7n_class 50 P7q (GAtom (C (K 2))) = false.
  Proof. repeat split; reflexivity. Qed.

  (* second form: not { S0: C, S1: C } over the simple ring S0 :- S1, S1 :- S0 (SLG: Ambiguous; truth: false) *)
  Definition Pring := mkProg [mkClause (C (K 0)) [C (K 1)]; mkClause (C (K 1)) [C (K 0)]] [1000%N].
  Example f7n_conj_witness :
    f7n_class 50 Pring (GNot (GAnd (GAtom (C (K 0))) (GAtom (C (K 1))))) = true /\
    eval_goal 50 Pring [] [] (GNot (GAnd (GAtom (C (K 0))) (GAtom (C (K 1))))) = Some false /\
    f7n_class 50 Pring (GNot (GAtom (C (K 0)))) = false /\
    f7n_class 50 Pring (GAnd (GAtom (C (K 0))) (GAtom (C (K 1)))) = false /\
    f7n_class 50 Pring (GAnd (GAtom (C (K 1))) (GNot (GAtom (C (K 0))))) = true.
  Proof. repeat split; reflexivity. Qed.
  (* F1 through hypotheses: exists<A,B> { if (B: Tr; A: Tr) { A: Tr } } with SLG's definite [^0, ^0];
     and a two-unknown goal without hypotheses over linear heads is OUTSIDE the class *)
  Definition TrX t := tapp 1001 [t].
  Definition qh := mkQuery 0 [0%N; 0%N]
    (GIf [mkHyp 0 (mkClause (TrX (TVar 0)) []); mkHyp 0 (mkClause (TrX (TVar 1)) [])] (GAtom (TrX (TVar 1)))).
  Example f1_hyp_witness :
    f1_class (mkProg [] []) qh = true /\ guidance_repeats (ADefinite [0%N] [TVar 0; TVar 0]) = true /\
    ~ contract (mkProg [] []) [] qh (ADefinite [0%N] [TVar 0; TVar 0]) /\
    f1_class (mkProg [mkClause (TrX I32) []; mkClause (TrX (Vec (TVar 0))) []] [])
             (mkQuery 0 [0%N; 0%N] (GAnd (GAtom (TrX (TVar 0))) (GAtom (TrX (TVar 1))))) = false.
  Proof.
    split; [reflexivity|]. split; [reflexivity|]. split; [|reflexivity].
    apply (check_answer_alarm_sound 50 (mkProg [] []) [] qh (ADefinite [0%N] [TVar 0; TVar 0]) [[I32; U32]] 2).
    - apply rr_allb_spec. reflexivity.
    - reflexivity.
  Qed.
  (* F14b: all traits coinductive;  H(T) :- P1(T), P0(T), P2(T);  H(B);  P2(T) :- H(T);  P1(T) :- P2(T);  P0(T) :- P2(T).
     Every atom holds for every type (greatest fixed point), yet SLG answers
     exists<X,Y> { X: P1, Y: H }  with  Unique [B, B]. *)
  Definition tA := tapp 0 [].
  Definition tB := tapp 1 [].
  Definition Pq (n : N) t := tapp (1000 + n) [t].
  Definition P14b := mkProg [mkClause (Pq 4 (TVar 0)) [Pq 1 (TVar 0); Pq 0 (TVar 0); Pq 2 (TVar 0)]; mkClause (Pq 4 tB) [];
                             mkClause (Pq 2 (TVar 0)) [Pq 4 (TVar 0)]; mkClause (Pq 1 (TVar 0)) [Pq 2 (TVar 0)];
                             mkClause (Pq 0 (TVar 0)) [Pq 2 (TVar 0)]] [1000%N; 1001%N; 1002%N; 1004%N].
  Definition q14b := mkQuery 0 [0%N; 0%N] (GAnd (GAtom (Pq 1 (TVar 1))) (GAtom (Pq 4 (TVar 0)))).

  Theorem f14b_refuted :
    f14b_class P14b q14b = true /\ ~ contract P14b [] q14b (AUnique [] [tB; tB]) /\
    check_answer 50 P14b [] q14b (AUnique [0%N; 0%N] [TVar 0; TVar 1]) [[tA; tA]; [tB; tA]] = VOk /\
    f14b_class P14 q14 = false.
  Proof.
    split; [reflexivity|]. split; [|split; reflexivity].
    apply (check_answer_alarm_sound 50 P14b [] q14b (AUnique [] [tB; tB]) [[tA; tA]] 2).
    - apply rr_allb_spec. reflexivity.
    - reflexivity.
  Qed.
End ContractExamples.
