(** * Mem.InPlace — ownership-level abstract machine for [chalk-ir/src/fold/in_place.rs]  (C27)

    [fallible_map_vec] / [fallible_map_box] rewrite a [Vec<T>] / [Box<T>] into a [Vec<U>] /
    [Box<U>] re-using the allocation when [T] and [U] have the same layout, with hand-written
    [unsafe] code and a drop guard ([VecMappedInPlace]) that has to clean up a half-mapped
    buffer when the mapper returns an error or panics.

    The machine: a buffer of cells, each [LiveT id] (an initialised, owned [T]), [LiveU id]
    (an initialised, owned [U]), [Moved] (no owned value: moved out by [ptr::read], already
    dropped, or never initialised) or [Freed] (the allocation is gone); one allocation token
    ([own]); and an event log.  The primitives are the meaning given to
    [ptr::read], [ptr::write], [ptr::drop_in_place], dropping [Vec::from_raw_parts(p,0,cap)]
    (= deallocate) and [Vec::from_raw_parts(p,len,cap)] returned to the caller (= hand-over).
    A primitive applied to a cell in the wrong state does not get stuck: it logs an [EBad…]
    event (this is the undefined behaviour / leak the property forbids) and goes on, so that
    the model is executable on buggy variants too.

    [vec_inplace], [guard_drop], [box_inplace] follow the Rust control flow statement by
    statement (same order of reads, writes, drops); the mapper is an arbitrary function
    [N -> mres] (ok with the id of the produced [U] | error | panic), which covers every
    failure position and both failure modes.  [vec_fallback] / [box_fallback] describe the
    safe-Rust path taken for non-identical layouts and ZSTs at the same level (there the
    order of the clean-up events is the standard library's business and is compared only up
    to canonicalisation).

    Theorems (re-stated in [Props/C27.v]): [vec_inplace_safe], [vec_fallback_safe],
    [box_inplace_safe], [box_fallback_safe], and the life-cycle versions
    [vec_lifecycle_safe], [box_lifecycle_safe] (caller drops the result afterwards).

    The second half ([oevent], [observe], [summarize], [agree]) is the correspondence
    interface: what the Rust harness [harness/src/bin/mem.rs] can observe of a run. *)

From Coq Require Import List NArith Bool Lia Arith Permutation.
Import ListNotations.

Set Implicit Arguments.

(* ------------------------------------------------------------------------------------- *)
(** ** Machine *)

Inductive cell := LiveT (id : N) | LiveU (id : N) | Moved | Freed.
Inductive side := ST | SU.
Inductive outcome := ROk | RErr | RPanic.
(** What the mapper does with the element it is given (it always takes ownership):
    [MOk u]: returns [Ok] of a fresh [U] with id [u] (the [T] lives on in it);
    [MErr] / [MPanic]: returns [Err] / unwinds, having dropped its argument. *)
Inductive mres := MOk (u : N) | MErr | MPanic.

Inductive event :=
| ERead (i : nat) (id : N)          (* ptr::read of cell i, which held a live T *)
| EBadRead (i : nat)                (* ptr::read of a Moved / Freed / wrongly typed / out-of-bounds cell *)
| EWrite (i : nat) (u : N)          (* ptr::write of a U into the vacated cell i *)
| EBadWrite (i : nat)               (* write into freed / out-of-bounds memory or over a live value (leak) *)
| ECall (i : nat) (id : N)          (* the mapper is invoked on the element moved out of cell i *)
| EConsumed (i : nat) (id : N)      (* the failing mapper dropped the element it was given *)
| EDrop (s : side) (i : nat) (id : N)  (* drop of the live element that originates from position i *)
| EBadDrop (s : side) (i : nat)     (* drop_in_place on a cell that holds no live value of that type *)
| EDealloc (real : bool)            (* the buffer is released ([real] = there is heap memory behind it) *)
| EBadDealloc                       (* release of an already released buffer *)
| EHandOver (real : bool)           (* the buffer is returned to the caller as the result *)
| EReturn (o : outcome)             (* control returns to the caller (normally or unwinding) *)
| EResult (len : nat)               (* length of the returned container *)
| EBalance (k : nat).               (* allocations of the run that are still live at the very end *)

Record state := mk { buf : list cell; own : bool; log : list event (* newest first *) }.

Definition emit (e : event) (s : state) : state := mk (buf s) (own s) (e :: log s).

Definition upd (i : nat) (c : cell) (b : list cell) : list cell :=
  firstn i b ++ c :: skipn (S i) b.

Definition set_cell (i : nat) (c : cell) (e : event) (s : state) : state :=
  mk (upd i c (buf s)) (own s) (e :: log s).

Definition ptr_read (i : nat) (s : state) : N * state :=
  match nth_error (buf s) i with
  | Some (LiveT id) => (id, set_cell i Moved (ERead i id) s)
  | _ => (0%N, emit (EBadRead i) s)
  end.

Definition ptr_write (i : nat) (u : N) (s : state) : state :=
  match nth_error (buf s) i with
  | Some Moved => set_cell i (LiveU u) (EWrite i u) s
  | _ => emit (EBadWrite i) s
  end.

Definition drop_in_place (sd : side) (i : nat) (s : state) : state :=
  match sd, nth_error (buf s) i with
  | ST, Some (LiveT id) => set_cell i Moved (EDrop ST i id) s
  | SU, Some (LiveU id) => set_cell i Moved (EDrop SU i id) s
  | _, _ => emit (EBadDrop sd i) s
  end.

(** Dropping [Vec::from_raw_parts(ptr, 0, cap)] / a [Box<MaybeUninit<_>>]: frees the
    storage, drops no element. *)
Definition dealloc (real : bool) (s : state) : state :=
  if own s then mk (map (fun _ => Freed) (buf s)) false (EDealloc real :: log s)
  else emit EBadDealloc s.

Fixpoint drops (sd : side) (is : list nat) (s : state) : state :=
  match is with
  | [] => s
  | i :: r => drops sd r (drop_in_place sd i s)
  end.

Definition init (ids : list N) : state := mk (map LiveT ids) true [].

(* ------------------------------------------------------------------------------------- *)
(** ** [fallible_map_vec], identical layout *)

(** [impl Drop for VecMappedInPlace]:
<<
    for i in 0..self.map_in_progress        { drop_in_place(ptr.add(i) as *mut U) }
    for i in (self.map_in_progress+1)..len  { drop_in_place(ptr.add(i)) }
    Vec::from_raw_parts(self.ptr, 0, self.cap);
>> *)
Definition guard_drop (real : bool) (mip len : nat) (s : state) : state :=
  let s := drops SU (seq 0 mip) s in
  let s := drops ST (seq (S mip) (len - S mip)) s in
  dealloc real s.

(** The loop of [fallible_map_vec], parameterised by the guard's [Drop] so that broken
    variants can be run through the same definitions (see [buggy_guard_is_caught]).
<<
    for i in 0..vec.len {
        let place = vec.ptr.add(i);
        let val = ptr::read(place);
        vec.map_in_progress = i;
        let mapped_val = map(val)?;          // Err: return, guard dropped; panic: unwinding drops guard
        ptr::write(place as *mut U, mapped_val);
    }
    Ok(vec.finish())
>> *)
Fixpoint loop_with (guard : bool -> nat -> nat -> state -> state)
         (f : N -> mres) (real : bool) (len : nat) (is : list nat) (mip : nat) (s : state) : state :=
  match is with
  | [] => emit (EReturn ROk) (emit (EHandOver real) s)
  | i :: r =>
      let (id, s) := ptr_read i s in
      let mip := i in
      let s := emit (ECall i id) s in
      match f id with
      | MOk u => loop_with guard f real len r mip (ptr_write i u s)
      | MErr => emit (EReturn RErr) (guard real mip len (emit (EConsumed i id) s))
      | MPanic => emit (EReturn RPanic) (guard real mip len (emit (EConsumed i id) s))
      end
  end.

Definition loop := loop_with guard_drop.

(** [cap = len + extra]; an empty capacity has no heap memory behind it. *)
Definition has_heap (len extra : nat) : bool := negb (Nat.eqb (len + extra) 0).

Definition vec_inplace (f : N -> mres) (ids : list N) (extra : nat) : state :=
  let len := length ids in
  loop f (has_heap len extra) len (seq 0 len) 0 (init ids).

(* ------------------------------------------------------------------------------------- *)
(** ** [fallible_map_vec], fallback [vec.into_iter().map(map).collect::<Result<Vec<U>,E>>()]

    Ownership-level description of the safe path: the [IntoIter] owns the source buffer and
    moves the elements out one by one; the results are pushed to a separate, safe [Vec<U>]
    ([out]); on failure the partial [Vec<U>] and the rest of the [IntoIter] are dropped. *)

Fixpoint devs (sd : side) (k : nat) (xs : list N) : list event :=
  match xs with
  | [] => []
  | x :: r => EDrop sd k x :: devs sd (S k) r
  end.

Definition emits (es : list event) (s : state) : state := mk (buf s) (own s) (rev es ++ log s).

Fixpoint fb_loop (f : N -> mres) (real : bool) (len : nat) (is : list nat) (out : list N) (s : state)
  : state * list N :=
  match is with
  | [] => (emit (EReturn ROk) (dealloc real s), out)
  | i :: r =>
      let (id, s) := ptr_read i s in
      let s := emit (ECall i id) s in
      let cleanup s := emits (devs SU 0 out) (dealloc real (drops ST (seq (S i) (len - S i)) s)) in
      match f id with
      | MOk u => fb_loop f real len r (out ++ [u]) s
      | MErr => (emit (EReturn RErr) (cleanup (emit (EConsumed i id) s)), [])
      | MPanic => (emit (EReturn RPanic) (cleanup (emit (EConsumed i id) s)), [])
      end
  end.

Definition vec_fallback (f : N -> mres) (real : bool) (ids : list N) : state * list N :=
  let len := length ids in
  fb_loop f real len (seq 0 len) [] (init ids).

(* ------------------------------------------------------------------------------------- *)
(** ** [fallible_map_box] *)

(** Identical layout:
<<
    let raw = Box::into_raw(b);
    let val = ptr::read(raw);
    let mut raw: Box<MaybeUninit<U>> = Box::from_raw(raw.cast());   // owns the storage only
    let mapped_val = map(val)?;                                     // failure: storage freed, no drop
    ptr::write(raw.as_mut_ptr(), mapped_val);
    Ok(Box::from_raw(Box::into_raw(raw).cast()))
>> *)
Definition box_inplace (f : N -> mres) (id : N) : state :=
  let s := init [id] in
  let (v, s) := ptr_read 0 s in
  let s := emit (ECall 0 v) s in
  match f v with
  | MOk u => emit (EReturn ROk) (emit (EHandOver true) (ptr_write 0 u s))
  | MErr => emit (EReturn RErr) (dealloc true (emit (EConsumed 0 v) s))
  | MPanic => emit (EReturn RPanic) (dealloc true (emit (EConsumed 0 v) s))
  end.

(** Fallback [map( *b ).map(Box::new)]: the value is moved out of the box, whose storage is
    freed when [b] goes out of scope; the result lives in a fresh box. *)
Definition box_fallback (f : N -> mres) (real : bool) (id : N) : state * list N :=
  let s := init [id] in
  let (v, s) := ptr_read 0 s in
  let s := emit (ECall 0 v) s in
  match f v with
  | MOk u => (emit (EReturn ROk) (dealloc real s), [u])
  | MErr => (emit (EReturn RErr) (dealloc real (emit (EConsumed 0 v) s)), [])
  | MPanic => (emit (EReturn RPanic) (dealloc real (emit (EConsumed 0 v) s)), [])
  end.

(* ------------------------------------------------------------------------------------- *)
(** ** The caller afterwards: drops whatever it was given, then allocations are counted *)

Definition trace (s : state) : list event := rev (log s).

Definition evt_outcomes (e : event) : list outcome := match e with EReturn o => [o] | _ => [] end.
Definition returned (t : list event) : list outcome := flat_map evt_outcomes t.

Definition balance (real : bool) (s : state) : nat := if own s && real then 1 else 0.

Definition with_balance (real : bool) (s : state) : state := emit (EBalance (balance real s)) s.

(** The result of the in-place path is the buffer itself ([len] cells); the caller drops
    the elements in order, then frees it. *)
Definition caller_inplace (real : bool) (len : nat) (s : state) : state :=
  match returned (trace s) with
  | [ROk] => with_balance real (dealloc real (drops SU (seq 0 len) (emit (EResult len) s)))
  | _ => with_balance real s
  end.

(** The result of the fallback path is a fresh container holding [out]. *)
Definition caller_fresh (real : bool) (r : state * list N) : state :=
  let (s, out) := r in
  match returned (trace s) with
  | [ROk] => with_balance real (emits (devs SU 0 out) (emit (EResult (length out)) s))
  | _ => with_balance real s
  end.

(* ------------------------------------------------------------------------------------- *)
(** ** Reading a trace *)

Definition is_bad (e : event) : bool :=
  match e with
  | EBadRead _ | EBadWrite _ | EBadDrop _ _ | EBadDealloc => true
  | _ => false
  end.
Definition no_bad (t : list event) : bool := forallb (fun e => negb (is_bad e)) t.

(** positions whose element is dropped (by the mapper it was handed to, or by clean-up) *)
Definition evt_drop_pos (e : event) : list nat :=
  match e with EConsumed i _ | EDrop _ i _ => [i] | _ => [] end.
Definition drop_positions (t : list event) : list nat := flat_map evt_drop_pos t.

Definition is_dealloc (e : event) : bool := match e with EDealloc _ => true | _ => false end.
Definition is_handover (e : event) : bool := match e with EHandOver _ => true | _ => false end.
Definition deallocs (t : list event) : nat := length (filter is_dealloc t).
Definition handovers (t : list event) : nat := length (filter is_handover t).

Definition evt_balance (e : event) : list nat := match e with EBalance k => [k] | _ => [] end.
Definition balances (t : list event) : list nat := flat_map evt_balance t.

(** What the mapper does on the elements in order: the outcome of the whole map and the
    ids of the produced [U]s up to the first failure. *)
Fixpoint first_outcome (f : N -> mres) (ids : list N) : outcome :=
  match ids with
  | [] => ROk
  | id :: r => match f id with MOk _ => first_outcome f r | MErr => RErr | MPanic => RPanic end
  end.
Fixpoint outputs (f : N -> mres) (ids : list N) : list N :=
  match ids with
  | [] => []
  | id :: r => match f id with MOk u => u :: outputs f r | _ => [] end
  end.

(* ------------------------------------------------------------------------------------- *)
(** ** Generic lemmas *)

Lemma nth_error_mid : forall (xs : list cell) c ys, nth_error (xs ++ c :: ys) (length xs) = Some c.
Proof. induction xs; simpl; auto. Qed.

Lemma upd_mid : forall (xs : list cell) c0 c ys, upd (length xs) c (xs ++ c0 :: ys) = xs ++ c :: ys.
Proof.
  unfold upd. induction xs; intros; simpl; auto.
  simpl in IHxs. rewrite IHxs. reflexivity.
Qed.

Lemma map_freed : forall (b : list cell), map (fun _ => Freed) b = repeat Freed (length b).
Proof. induction b; simpl; congruence. Qed.

Lemma ptr_read_at : forall xs id ys o lg n, n = length xs ->
  ptr_read n (mk (xs ++ LiveT id :: ys) o lg) = (id, mk (xs ++ Moved :: ys) o (ERead n id :: lg)).
Proof.
  intros. subst n. unfold ptr_read. cbn [buf]. rewrite nth_error_mid.
  unfold set_cell. cbn [buf own log]. rewrite upd_mid. reflexivity.
Qed.

Lemma ptr_write_at : forall xs u ys o lg n, n = length xs ->
  ptr_write n u (mk (xs ++ Moved :: ys) o lg) = mk (xs ++ LiveU u :: ys) o (EWrite n u :: lg).
Proof.
  intros. subst n. unfold ptr_write. cbn [buf]. rewrite nth_error_mid.
  unfold set_cell. cbn [buf own log]. rewrite upd_mid. reflexivity.
Qed.

Definition live (sd : side) : N -> cell := match sd with ST => LiveT | SU => LiveU end.

Lemma drops_run : forall sd xs pre post o lg,
  drops sd (seq (length pre) (length xs)) (mk (pre ++ map (live sd) xs ++ post) o lg)
  = mk (pre ++ repeat Moved (length xs) ++ post) o (rev (devs sd (length pre) xs) ++ lg).
Proof.
  induction xs as [|x xs IH]; intros; simpl.
  - reflexivity.
  - unfold drop_in_place. cbn [buf].
    rewrite nth_error_mid.
    assert (E : set_cell (length pre) Moved (EDrop sd (length pre) x)
                  (mk (pre ++ live sd x :: map (live sd) xs ++ post) o lg)
                = mk ((pre ++ [Moved]) ++ map (live sd) xs ++ post) o (EDrop sd (length pre) x :: lg)).
    { unfold set_cell. cbn [buf own log]. rewrite upd_mid. rewrite <- app_assoc. reflexivity. }
    assert (L : S (length pre) = length (pre ++ [Moved])) by (rewrite app_length; simpl; lia).
    destruct sd; cbn [live] in *; rewrite E, L, IH; rewrite <- app_assoc; cbn [app];
      rewrite <- L; rewrite <- app_assoc; reflexivity.
Qed.

(** distribution of the trace readers over [++] and [::] *)
Lemma no_bad_app : forall a b, no_bad (a ++ b) = no_bad a && no_bad b.
Proof. intros. apply forallb_app. Qed.
Lemma drop_positions_app : forall a b, drop_positions (a ++ b) = drop_positions a ++ drop_positions b.
Proof. intros. apply flat_map_app. Qed.
Lemma returned_app : forall a b, returned (a ++ b) = returned a ++ returned b.
Proof. intros. apply flat_map_app. Qed.
Lemma balances_app : forall a b, balances (a ++ b) = balances a ++ balances b.
Proof. intros. apply flat_map_app. Qed.
Lemma deallocs_app : forall a b, deallocs (a ++ b) = deallocs a + deallocs b.
Proof. intros. unfold deallocs. rewrite filter_app, app_length. reflexivity. Qed.
Lemma handovers_app : forall a b, handovers (a ++ b) = handovers a + handovers b.
Proof. intros. unfold handovers. rewrite filter_app, app_length. reflexivity. Qed.

Lemma devs_no_bad : forall sd xs k, no_bad (devs sd k xs) = true.
Proof. induction xs; intros; simpl; auto. Qed.
Lemma devs_positions : forall sd xs k, drop_positions (devs sd k xs) = seq k (length xs).
Proof. induction xs; intros; simpl; auto. f_equal. apply IHxs. Qed.
Lemma devs_returned : forall sd xs k, returned (devs sd k xs) = [].
Proof. induction xs; intros; simpl; auto. Qed.
Lemma devs_balances : forall sd xs k, balances (devs sd k xs) = [].
Proof. induction xs; intros; simpl; auto. Qed.
Lemma devs_deallocs : forall sd xs k, deallocs (devs sd k xs) = 0.
Proof. induction xs; intros; simpl; auto. apply IHxs. Qed.
Lemma devs_handovers : forall sd xs k, handovers (devs sd k xs) = 0.
Proof. induction xs; intros; simpl; auto. apply IHxs. Qed.

Lemma perm_fail_positions : forall i m,
  Permutation (i :: seq 0 i ++ seq (S i) m) (seq 0 (i + S m)).
Proof.
  intros. rewrite seq_app. cbn [seq plus]. apply Permutation_middle.
Qed.

(* ------------------------------------------------------------------------------------- *)
(** ** In-place vector: the machine run equals a closed-form trace *)

(** Closed form of the run from loop index [i], where [us] are the [U]s written so far and
    [rest] the [T]s not yet visited: final buffer, allocation token, events in order. *)
Fixpoint spec (f : N -> mres) (real : bool) (i : nat) (us rest : list N)
  : list cell * bool * list event :=
  match rest with
  | [] => (map LiveU us, true, [EHandOver real; EReturn ROk])
  | id :: r =>
      let fail o :=
        (repeat Freed (i + S (length r)), false,
         ERead i id :: ECall i id :: EConsumed i id
           :: devs SU 0 us ++ devs ST (S i) r ++ [EDealloc real; EReturn o]) in
      match f id with
      | MOk u =>
          let '(b, o, t) := spec f real (S i) (us ++ [u]) r in
          (b, o, ERead i id :: ECall i id :: EWrite i u :: t)
      | MErr => fail RErr
      | MPanic => fail RPanic
      end
  end.

Lemma guard_drop_run : forall real us (r : list N) lg,
  guard_drop real (length us) (length us + S (length r))
    (mk (map LiveU us ++ Moved :: map LiveT r) true lg)
  = mk (repeat Freed (length us + S (length r))) false
       (EDealloc real :: rev (devs ST (S (length us)) r) ++ rev (devs SU 0 us) ++ lg).
Proof.
  intros. unfold guard_drop.
  pose proof (drops_run SU us [] (Moved :: map LiveT r) true lg) as H1.
  cbn [length app] in H1. cbn [live] in H1. rewrite H1. clear H1.
  replace (length us + S (length r) - S (length us)) with (length r) by lia.
  pose proof (drops_run ST r (repeat Moved (length us) ++ [Moved]) [] true
                (rev (devs SU 0 us) ++ lg)) as H2.
  rewrite app_length, repeat_length in H2. cbn [length] in H2.
  replace (length us + 1) with (S (length us)) in H2 by lia.
  rewrite app_nil_r in H2. rewrite <- app_assoc in H2. cbn [app live] in H2.
  rewrite H2. clear H2.
  unfold dealloc. cbn [own buf log].
  rewrite map_freed. f_equal.
  rewrite !app_length, !repeat_length. cbn [length]. f_equal. lia.
Qed.

Lemma loop_run : forall f real rest us lg mip len,
  len = length us + length rest ->
  loop f real len (seq (length us) (length rest)) mip (mk (map LiveU us ++ map LiveT rest) true lg)
  = let '(b, o, t) := spec f real (length us) us rest in mk b o (rev t ++ lg).
Proof.
  induction rest as [|id r IH]; intros us lg mip len Hlen.
  - cbn. rewrite app_nil_r. reflexivity.
  - cbn [length seq loop loop_with map].
    rewrite (ptr_read_at (map LiveU us)) by (rewrite map_length; reflexivity).
    cbn [spec]. unfold emit at 1. cbn [buf own log].
    destruct (f id) as [u| |].
    + rewrite (ptr_write_at (map LiveU us)) by (rewrite map_length; reflexivity).
      replace (map LiveU us ++ LiveU u :: map LiveT r)
        with (map LiveU (us ++ [u]) ++ map LiveT r)
        by (rewrite map_app, <- app_assoc; reflexivity).
      replace (S (length us)) with (length (us ++ [u])) by (rewrite app_length; simpl; lia).
      fold (loop_with guard_drop). fold loop.
      rewrite IH by (rewrite app_length; simpl in *; lia).
      destruct (spec f real (length (us ++ [u])) (us ++ [u]) r) as [[b o] t].
      cbn [rev]. rewrite <- !app_assoc. reflexivity.
    + unfold emit. cbn [buf own log]. subst len. cbn [length].
      rewrite guard_drop_run. cbn [rev]. rewrite !rev_app_distr. cbn [rev app].
      rewrite <- !app_assoc. cbn [app]. reflexivity.
    + unfold emit. cbn [buf own log]. subst len. cbn [length].
      rewrite guard_drop_run. cbn [rev]. rewrite !rev_app_distr. cbn [rev app].
      rewrite <- !app_assoc. cbn [app]. reflexivity.
Qed.

Lemma vec_inplace_run : forall f ids extra,
  vec_inplace f ids extra
  = let '(b, o, t) := spec f (has_heap (length ids) extra) 0 [] ids in mk b o (rev t).
Proof.
  intros. unfold vec_inplace, init.
  pose proof (loop_run f (has_heap (length ids) extra) ids [] [] 0 (len := length ids) eq_refl) as H.
  cbn [length app map] in H. rewrite H.
  destruct (spec f (has_heap (length ids) extra) 0 [] ids) as [[b o] t].
  rewrite app_nil_r. reflexivity.
Qed.

(** Properties of the closed form. *)
Record vec_ok (f : N -> mres) (us0 ids : list N) (b : list cell) (o : bool) (t : list event) : Prop := {
  ok_no_bad : no_bad t = true;
  ok_returned : returned t = [first_outcome f ids];
  ok_success :
    first_outcome f ids = ROk ->
    drop_positions t = [] /\ deallocs t = 0 /\ handovers t = 1 /\
    b = map LiveU (us0 ++ outputs f ids) /\ length (outputs f ids) = length ids /\ o = true;
  ok_failure :
    first_outcome f ids <> ROk ->
    Permutation (drop_positions t) (seq 0 (length us0 + length ids)) /\
    deallocs t = 1 /\ handovers t = 0 /\
    b = repeat Freed (length us0 + length ids) /\ o = false
}.

Lemma spec_fail_ok : forall f real us id r o,
  first_outcome f (id :: r) = o -> o <> ROk ->
  vec_ok f us (id :: r) (repeat Freed (length us + S (length r))) false
    (ERead (length us) id :: ECall (length us) id :: EConsumed (length us) id
       :: devs SU 0 us ++ devs ST (S (length us)) r ++ [EDealloc real; EReturn o]).
Proof.
  intros f real us id r o Ho Hne. split.
  - cbn. rewrite !no_bad_app, !devs_no_bad. reflexivity.
  - cbn. rewrite !returned_app, !devs_returned. cbn. rewrite <- Ho. reflexivity.
  - intros. congruence.
  - intros _. repeat split.
    + cbn [drop_positions flat_map evt_drop_pos app].
      fold (drop_positions (devs SU 0 us ++ devs ST (S (length us)) r ++ [EDealloc real; EReturn o])).
      rewrite !drop_positions_app, !devs_positions. cbn. rewrite app_nil_r.
      cbn [length]. apply perm_fail_positions.
    + cbn. fold (deallocs (devs SU 0 us ++ devs ST (S (length us)) r ++ [EDealloc real; EReturn o])).
      rewrite !deallocs_app, !devs_deallocs. reflexivity.
    + cbn. fold (handovers (devs SU 0 us ++ devs ST (S (length us)) r ++ [EDealloc real; EReturn o])).
      rewrite !handovers_app, !devs_handovers. reflexivity.
Qed.

Lemma spec_ok : forall f real rest us,
  let '(b, o, t) := spec f real (length us) us rest in vec_ok f us rest b o t.
Proof.
  induction rest as [|id r IH]; intros us.
  - cbn. split; cbn; auto.
    + intros _. rewrite app_nil_r. repeat split; auto.
    + intros H. congruence.
  - cbn [spec].
    destruct (f id) as [u| |] eqn:Ef.
    + specialize (IH (us ++ [u])).
      replace (length (us ++ [u])) with (S (length us)) in IH by (rewrite app_length; simpl; lia).
      destruct (spec f real (S (length us)) (us ++ [u]) r) as [[b o] t].
      destruct IH as [H1 H2 H3 H4]. split.
      * cbn. exact H1.
      * cbn. rewrite Ef. exact H2.
      * cbn [first_outcome outputs]. rewrite Ef. intros Hs.
        destruct (H3 Hs) as (A & B & C & D & E & F).
        repeat split; auto.
        -- rewrite D, <- app_assoc. reflexivity.
        -- cbn [length]. congruence.
      * cbn [first_outcome]. rewrite Ef. intros Hf.
        destruct (H4 Hf) as (A & B & C & D & E).
        rewrite app_length in A, D. cbn [length] in *.
        replace (length us + S (length r)) with (length us + 1 + length r) by lia.
        repeat split; auto.
    + apply spec_fail_ok; [cbn; rewrite Ef; reflexivity | congruence].
    + apply spec_fail_ok; [cbn; rewrite Ef; reflexivity | congruence].
Qed.

(** *** Main statement for the in-place vector path.  For every mapper [f], every list of
    elements and every spare capacity: the run never touches a cell in the wrong state
    (in particular never reads a [Moved]/[Freed] cell and never frees twice), returns
    exactly once with the outcome the mapper dictates, and
    - on success drops nothing, does not release the buffer, hands it over exactly once
      with every cell holding the live mapped [U];
    - on failure (error or panic, at any position) every position's element is dropped
      exactly once (the one given to the failing mapper counts as dropped by it), the
      buffer is released exactly once, never handed over, and nothing stays live. *)
Definition vec_inplace_safe_stmt : Prop :=
  forall (f : N -> mres) (ids : list N) (extra : nat),
    let s := vec_inplace f ids extra in
    let t := trace s in
    no_bad t = true /\
    returned t = [first_outcome f ids] /\
    (first_outcome f ids = ROk ->
       drop_positions t = [] /\ deallocs t = 0 /\ handovers t = 1 /\
       buf s = map LiveU (outputs f ids) /\ length (outputs f ids) = length ids /\ own s = true) /\
    (first_outcome f ids <> ROk ->
       Permutation (drop_positions t) (seq 0 (length ids)) /\ deallocs t = 1 /\ handovers t = 0 /\
       buf s = repeat Freed (length ids) /\ own s = false).

Lemma vec_inplace_safe : vec_inplace_safe_stmt.
Proof.
  intros f ids extra s t. subst t s. rewrite vec_inplace_run.
  pose proof (spec_ok f (has_heap (length ids) extra) ids []) as H. cbn [length] in H.
  destruct (spec f (has_heap (length ids) extra) 0 [] ids) as [[b o] tr].
  unfold trace. cbn [log buf own]. rewrite rev_involutive.
  destruct H as [H1 H2 H3 H4]. cbn [length app plus] in *. auto.
Qed.

(* ------------------------------------------------------------------------------------- *)
(** ** Fallback vector path *)

Fixpoint fb_spec (f : N -> mres) (real : bool) (i : nat) (us rest : list N)
  : list cell * bool * list event * list N :=
  match rest with
  | [] => (repeat Freed i, false, [EDealloc real; EReturn ROk], us)
  | id :: r =>
      let fail o :=
        (repeat Freed (i + S (length r)), false,
         ERead i id :: ECall i id :: EConsumed i id
           :: devs ST (S i) r ++ EDealloc real :: devs SU 0 us ++ [EReturn o], @nil N) in
      match f id with
      | MOk u =>
          let '(b, o, t, out) := fb_spec f real (S i) (us ++ [u]) r in
          (b, o, ERead i id :: ECall i id :: t, out)
      | MErr => fail RErr
      | MPanic => fail RPanic
      end
  end.

Lemma fb_loop_run : forall f real rest us lg len,
  len = length us + length rest ->
  fb_loop f real len (seq (length us) (length rest)) us
    (mk (repeat Moved (length us) ++ map LiveT rest) true lg)
  = let '(b, o, t, out) := fb_spec f real (length us) us rest in (mk b o (rev t ++ lg), out).
Proof.
  induction rest as [|id r IH]; intros us lg len Hlen.
  - cbn. unfold dealloc, emit. cbn [own buf log]. rewrite map_freed, app_nil_r, repeat_length.
    reflexivity.
  - cbn [length seq fb_loop map].
    rewrite (ptr_read_at (repeat Moved (length us))) by (rewrite repeat_length; reflexivity).
    cbn [fb_spec]. unfold emit at 1. cbn [buf own log].
    assert (Hfail : forall o,
      emit (EReturn o)
        (emits (devs SU 0 us)
           (dealloc real
              (drops ST (seq (S (length us)) (len - S (length us)))
                 (emit (EConsumed (length us) id)
                    (mk (repeat Moved (length us) ++ Moved :: map LiveT r) true
                        (ECall (length us) id :: ERead (length us) id :: lg))))))
      = mk (repeat Freed (length us + S (length r))) false
           (rev (ERead (length us) id :: ECall (length us) id :: EConsumed (length us) id
                  :: devs ST (S (length us)) r ++ EDealloc real :: devs SU 0 us ++ [EReturn o]) ++ lg)).
    { intros o. unfold emit at 2. cbn [buf own log].
      replace (len - S (length us)) with (length r) by (simpl in Hlen; lia).
      pose proof (drops_run ST r (repeat Moved (length us) ++ [Moved]) [] true
                    (EConsumed (length us) id :: ECall (length us) id :: ERead (length us) id :: lg)) as H2.
      rewrite app_length, repeat_length in H2. cbn [length] in H2.
      replace (length us + 1) with (S (length us)) in H2 by lia.
      rewrite app_nil_r in H2. rewrite <- app_assoc in H2. cbn [app live] in H2.
      rewrite H2. clear H2.
      unfold dealloc, emits, emit. cbn [own buf log]. rewrite map_freed.
      f_equal.
      - rewrite !app_length, !repeat_length. cbn [length]. f_equal. lia.
      - cbn [rev]. rewrite !rev_app_distr. cbn [rev app]. rewrite !rev_app_distr. cbn [rev app].
        rewrite <- !app_assoc. cbn [app]. reflexivity. }
    destruct (f id) as [u| |].
    + replace (repeat Moved (length us) ++ Moved :: map LiveT r)
        with (repeat Moved (length (us ++ [u])) ++ map LiveT r).
      2:{ rewrite app_length. cbn [length]. rewrite repeat_app, <- app_assoc. reflexivity. }
      replace (S (length us)) with (length (us ++ [u])) by (rewrite app_length; simpl; lia).
      rewrite IH by (rewrite app_length; simpl in *; lia).
      destruct (fb_spec f real (length (us ++ [u])) (us ++ [u]) r) as [[[b o] t] out].
      cbn [rev]. rewrite <- !app_assoc. reflexivity.
    + rewrite Hfail. reflexivity.
    + rewrite Hfail. reflexivity.
Qed.

Record fb_ok (f : N -> mres) (us0 ids : list N) (b : list cell) (o : bool) (t : list event) (out : list N) : Prop := {
  fb_no_bad : no_bad t = true;
  fb_returned : returned t = [first_outcome f ids];
  fb_deallocs : deallocs t = 1;
  fb_handovers : handovers t = 0;
  fb_buf : b = repeat Freed (length us0 + length ids) /\ o = false;
  fb_success :
    first_outcome f ids = ROk ->
    drop_positions t = [] /\ out = us0 ++ outputs f ids /\ length (outputs f ids) = length ids;
  fb_failure :
    first_outcome f ids <> ROk ->
    Permutation (drop_positions t) (seq 0 (length us0 + length ids)) /\ out = []
}.

Lemma fb_spec_fail_ok : forall f real us id r o,
  first_outcome f (id :: r) = o -> o <> ROk ->
  fb_ok f us (id :: r) (repeat Freed (length us + S (length r))) false
    (ERead (length us) id :: ECall (length us) id :: EConsumed (length us) id
       :: devs ST (S (length us)) r ++ EDealloc real :: devs SU 0 us ++ [EReturn o]) [].
Proof.
  intros f real us id r o Ho Hne. split.
  - cbn. rewrite !no_bad_app. cbn. rewrite !no_bad_app, !devs_no_bad. reflexivity.
  - cbn. rewrite !returned_app. cbn. rewrite !returned_app, !devs_returned. cbn. rewrite <- Ho. reflexivity.
  - cbn. fold (deallocs (devs ST (S (length us)) r ++ EDealloc real :: devs SU 0 us ++ [EReturn o])).
    rewrite !deallocs_app. change (EDealloc real :: devs SU 0 us ++ [EReturn o])
      with ([EDealloc real] ++ devs SU 0 us ++ [EReturn o]).
    rewrite !deallocs_app, !devs_deallocs. reflexivity.
  - cbn. fold (handovers (devs ST (S (length us)) r ++ EDealloc real :: devs SU 0 us ++ [EReturn o])).
    rewrite !handovers_app. change (EDealloc real :: devs SU 0 us ++ [EReturn o])
      with ([EDealloc real] ++ devs SU 0 us ++ [EReturn o]).
    rewrite !handovers_app, !devs_handovers. reflexivity.
  - cbn [length]. auto.
  - intros. congruence.
  - intros _. split; auto.
    cbn [drop_positions flat_map evt_drop_pos app].
    fold (drop_positions (devs ST (S (length us)) r ++ EDealloc real :: devs SU 0 us ++ [EReturn o])).
    change (EDealloc real :: devs SU 0 us ++ [EReturn o])
      with ([EDealloc real] ++ devs SU 0 us ++ [EReturn o]).
    rewrite !drop_positions_app, !devs_positions. cbn. rewrite app_nil_r. cbn [length].
    eapply Permutation_trans; [| apply perm_fail_positions].
    constructor. apply Permutation_app_comm.
Qed.

Lemma fb_spec_ok : forall f real rest us,
  let '(b, o, t, out) := fb_spec f real (length us) us rest in fb_ok f us rest b o t out.
Proof.
  induction rest as [|id r IH]; intros us.
  - cbn. split; cbn; auto.
    + intros _. rewrite app_nil_r. repeat split; auto.
    + intros H. congruence.
  - cbn [fb_spec].
    destruct (f id) as [u| |] eqn:Ef.
    + specialize (IH (us ++ [u])).
      replace (length (us ++ [u])) with (S (length us)) in IH by (rewrite app_length; simpl; lia).
      destruct (fb_spec f real (S (length us)) (us ++ [u]) r) as [[[b o] t] out].
      destruct IH as [H1 H2 H3 H4 H5 H6 H7]. split.
      * cbn. exact H1.
      * cbn. rewrite Ef. exact H2.
      * cbn. exact H3.
      * cbn. exact H4.
      * rewrite app_length in H5. cbn [length] in *.
        replace (length us + S (length r)) with (length us + 1 + length r) by lia. exact H5.
      * cbn [first_outcome outputs]. rewrite Ef. intros Hs.
        destruct (H6 Hs) as (A & B & C).
        repeat split; auto.
        -- rewrite B, <- app_assoc. reflexivity.
        -- cbn [length]. congruence.
      * cbn [first_outcome]. rewrite Ef. intros Hf.
        destruct (H7 Hf) as (A & B).
        rewrite app_length in A. cbn [length] in *.
        replace (length us + S (length r)) with (length us + 1 + length r) by lia.
        split; auto.
    + apply fb_spec_fail_ok; [cbn; rewrite Ef; reflexivity | congruence].
    + apply fb_spec_fail_ok; [cbn; rewrite Ef; reflexivity | congruence].
Qed.

(** *** Statement for the fallback path (a description of safe std code, proved for
    completeness of the case split): the source buffer is always released exactly once and
    never handed over; on success nothing is dropped and the fresh result holds the mapped
    [U]s; on failure every position is dropped exactly once and there is no result. *)
Definition vec_fallback_safe_stmt : Prop :=
  forall (f : N -> mres) (real : bool) (ids : list N),
    let s := fst (vec_fallback f real ids) in
    let out := snd (vec_fallback f real ids) in
    let t := trace s in
    no_bad t = true /\
    returned t = [first_outcome f ids] /\
    deallocs t = 1 /\ handovers t = 0 /\
    buf s = repeat Freed (length ids) /\ own s = false /\
    (first_outcome f ids = ROk ->
       drop_positions t = [] /\ out = outputs f ids /\ length out = length ids) /\
    (first_outcome f ids <> ROk ->
       Permutation (drop_positions t) (seq 0 (length ids)) /\ out = []).

Lemma vec_fallback_safe : vec_fallback_safe_stmt.
Proof.
  intros f real ids s out t. subst t s out. unfold vec_fallback, init.
  pose proof (fb_loop_run f real ids [] [] (len := length ids) eq_refl) as H.
  cbn [length app repeat] in H. rewrite H. clear H.
  pose proof (fb_spec_ok f real ids []) as H. cbn [length] in H.
  destruct (fb_spec f real 0 [] ids) as [[[b o] tr] out].
  cbn [fst snd]. unfold trace. cbn [log buf own]. rewrite app_nil_r, rev_involutive.
  destruct H as [H1 H2 H3 H4 [H5 H5'] H6 H7]. cbn [length app plus] in *.
  repeat split; auto.
  - apply H6; auto.
  - apply H6; auto.
  - destruct (H6 H) as (_ & A & B). congruence.
  - apply H7; auto.
  - apply H7; auto.
Qed.

(* ------------------------------------------------------------------------------------- *)
(** ** Boxes *)

Definition box_inplace_safe_stmt : Prop :=
  forall (f : N -> mres) (id : N),
    let s := box_inplace f id in
    let t := trace s in
    no_bad t = true /\
    returned t = [first_outcome f [id]] /\
    (first_outcome f [id] = ROk ->
       drop_positions t = [] /\ deallocs t = 0 /\ handovers t = 1 /\
       buf s = map LiveU (outputs f [id]) /\ length (outputs f [id]) = 1 /\ own s = true) /\
    (first_outcome f [id] <> ROk ->
       drop_positions t = [0] /\ deallocs t = 1 /\ handovers t = 0 /\
       buf s = [Freed] /\ own s = false).

Lemma box_inplace_safe : box_inplace_safe_stmt.
Proof.
  intros f id s t. subst t s. unfold box_inplace. cbn.
  destruct (f id); cbn; repeat split; auto; intros; congruence.
Qed.

Definition box_fallback_safe_stmt : Prop :=
  forall (f : N -> mres) (real : bool) (id : N),
    let s := fst (box_fallback f real id) in
    let out := snd (box_fallback f real id) in
    let t := trace s in
    no_bad t = true /\
    returned t = [first_outcome f [id]] /\
    deallocs t = 1 /\ handovers t = 0 /\ buf s = [Freed] /\ own s = false /\
    (first_outcome f [id] = ROk -> drop_positions t = [] /\ out = outputs f [id] /\ length out = 1) /\
    (first_outcome f [id] <> ROk -> drop_positions t = [0] /\ out = []).

Lemma box_fallback_safe : box_fallback_safe_stmt.
Proof.
  intros f real id s out t. subst t s out. unfold box_fallback. cbn.
  destruct (f id); cbn; repeat split; auto; intros; congruence.
Qed.

(* ------------------------------------------------------------------------------------- *)
(** ** Whole life cycle: the caller drops the result

    Whatever the mapper does, after the caller has disposed of what it got back every
    position's element has been dropped exactly once, the buffer has been released exactly
    once, nothing bad happened and no allocation is left. *)

Lemma trace_emit : forall e s, trace (emit e s) = trace s ++ [e].
Proof. intros. unfold trace, emit. cbn. reflexivity. Qed.

Lemma drops_live_U : forall us o lg,
  drops SU (seq 0 (length us)) (mk (map LiveU us) o lg)
  = mk (repeat Moved (length us)) o (rev (devs SU 0 us) ++ lg).
Proof.
  intros. pose proof (drops_run SU us [] [] o lg) as H. cbn [length app live] in H.
  rewrite !app_nil_r in H. exact H.
Qed.

Definition lifecycle_ok (n : nat) (t : list event) : Prop :=
  no_bad t = true /\ Permutation (drop_positions t) (seq 0 n) /\ deallocs t = 1 /\
  handovers t <= 1 /\ balances t = [0].

Definition vec_lifecycle_safe_stmt : Prop :=
  forall (f : N -> mres) (ids : list N) (extra : nat),
    let real := has_heap (length ids) extra in
    lifecycle_ok (length ids) (trace (caller_inplace real (length ids) (vec_inplace f ids extra))) /\
    forall real', lifecycle_ok (length ids) (trace (caller_fresh real' (vec_fallback f real' ids))).

Lemma first_outcome_dec : forall f ids, {first_outcome f ids = ROk} + {first_outcome f ids <> ROk}.
Proof. intros. destruct (first_outcome f ids); [left|right|right]; congruence. Qed.

Lemma lifecycle_inplace : forall (s : state) n us,
  no_bad (trace s) = true -> returned (trace s) = [ROk] ->
  drop_positions (trace s) = [] -> deallocs (trace s) = 0 -> handovers (trace s) = 1 ->
  balances (trace s) = [] ->
  buf s = map LiveU us -> length us = n -> own s = true ->
  forall real, lifecycle_ok n (trace (caller_inplace real n s)).
Proof.
  intros s n us Hb Hr Hd Hde Hh Hbal Hbuf Hlen Hown real.
  unfold caller_inplace. rewrite Hr.
  destruct s as [b o lg]. cbn [buf own log] in *. subst b o n.
  unfold emit. cbn [buf own log]. rewrite drops_live_U.
  unfold dealloc. cbn [own buf log]. unfold with_balance, balance, emit. cbn [buf own log andb].
  unfold trace in *. cbn [log] in *. cbn [rev].
  rewrite rev_app_distr, rev_involutive. cbn [rev app].
  unfold lifecycle_ok.
  rewrite <- !app_assoc. cbn [app].
  rewrite !no_bad_app, !drop_positions_app, !deallocs_app, !handovers_app, !balances_app.
  rewrite Hb, Hd, Hde, Hh, Hbal.
  change (EResult (length us) :: devs SU 0 us ++ [EDealloc real; EBalance 0])
    with ([EResult (length us)] ++ devs SU 0 us ++ [EDealloc real; EBalance 0]).
  rewrite !no_bad_app, !drop_positions_app, !deallocs_app, !handovers_app, !balances_app.
  rewrite devs_no_bad, devs_positions, devs_deallocs, devs_handovers, devs_balances.
  cbn. rewrite !app_nil_r.
  repeat split; auto.
Qed.

(** No run of the window emits [EBalance]: it is only emitted by the caller. *)
Fixpoint no_balance (t : list event) : bool :=
  match t with [] => true | EBalance _ :: _ => false | _ :: r => no_balance r end.
Lemma no_balance_balances : forall t, no_balance t = true -> balances t = [].
Proof. induction t as [|e t IH]; cbn; auto. destruct e; cbn; auto; discriminate. Qed.
Lemma no_balance_app : forall a b, no_balance (a ++ b) = no_balance a && no_balance b.
Proof. induction a as [|e a IH]; intros; cbn; auto. destruct e; cbn; auto. Qed.
Lemma devs_no_balance : forall sd xs k, no_balance (devs sd k xs) = true.
Proof. induction xs; intros; cbn; auto. Qed.

Lemma spec_no_balance : forall f real rest i us,
  let '(_, _, t) := spec f real i us rest in no_balance t = true.
Proof.
  induction rest as [|id r IH]; intros; cbn [spec]; auto.
  destruct (f id).
  - specialize (IH (S i) (us ++ [u])). destruct (spec f real (S i) (us ++ [u]) r) as [[b o] t]. cbn. auto.
  - cbn. rewrite !no_balance_app, !devs_no_balance. reflexivity.
  - cbn. rewrite !no_balance_app, !devs_no_balance. reflexivity.
Qed.

Lemma fb_spec_no_balance : forall f real rest i us,
  let '(_, _, t, _) := fb_spec f real i us rest in no_balance t = true.
Proof.
  induction rest as [|id r IH]; intros; cbn [fb_spec]; auto.
  destruct (f id).
  - specialize (IH (S i) (us ++ [u])). destruct (fb_spec f real (S i) (us ++ [u]) r) as [[[b o] t] out]. cbn. auto.
  - cbn. rewrite !no_balance_app. cbn. rewrite !no_balance_app, !devs_no_balance. reflexivity.
  - cbn. rewrite !no_balance_app. cbn. rewrite !no_balance_app, !devs_no_balance. reflexivity.
Qed.

Lemma lifecycle_failed : forall real n (s : state),
  no_bad (trace s) = true -> Permutation (drop_positions (trace s)) (seq 0 n) ->
  deallocs (trace s) = 1 -> handovers (trace s) = 0 -> balances (trace s) = [] -> own s = false ->
  lifecycle_ok n (trace (with_balance real s)).
Proof.
  intros real n s Hb Hp Hd Hh Hbal Ho.
  unfold with_balance. rewrite trace_emit. unfold lifecycle_ok, balance. rewrite Ho. cbn [andb].
  rewrite no_bad_app, drop_positions_app, deallocs_app, handovers_app, balances_app.
  rewrite Hb, Hd, Hh, Hbal. cbn. rewrite app_nil_r. repeat split; auto.
Qed.

Lemma vec_lifecycle_safe : vec_lifecycle_safe_stmt.
Proof.
  intros f ids extra real. split.
  - pose proof (vec_inplace_safe f ids extra) as H. cbv zeta in H.
    destruct H as (Hb & Hr & Hs & Hf).
    assert (Hbal : balances (trace (vec_inplace f ids extra)) = []).
    { rewrite vec_inplace_run.
      pose proof (spec_no_balance f (has_heap (length ids) extra) ids 0 []) as Hn.
      destruct (spec f (has_heap (length ids) extra) 0 [] ids) as [[b o] t].
      unfold trace. cbn [log]. rewrite rev_involutive. apply no_balance_balances. exact Hn. }
    destruct (first_outcome_dec f ids) as [E|E].
    + destruct (Hs E) as (A & B & C & D & L & O).
      eapply lifecycle_inplace; eauto. rewrite Hr, E. reflexivity.
    + destruct (Hf E) as (A & B & C & D & O).
      unfold caller_inplace. rewrite Hr.
      pose proof (@lifecycle_failed real _ _ Hb A B C Hbal O) as G.
      destruct (first_outcome f ids); [congruence | exact G | exact G].
  - intros real'.
    pose proof (vec_fallback_safe f real' ids) as H. cbv zeta in H.
    destruct H as (Hb & Hr & Hde & Hh & Hbuf & Hown & Hs & Hf).
    assert (Hbal : balances (trace (fst (vec_fallback f real' ids))) = []).
    { unfold vec_fallback, init.
      pose proof (fb_loop_run f real' ids [] [] (len := length ids) eq_refl) as H.
      cbn [length app repeat] in H. rewrite H. clear H.
      pose proof (fb_spec_no_balance f real' ids 0 []) as Hn.
      destruct (fb_spec f real' 0 [] ids) as [[[b o] t] out].
      cbn [fst]. unfold trace. cbn [log]. rewrite app_nil_r, rev_involutive.
      apply no_balance_balances. exact Hn. }
    unfold caller_fresh.
    destruct (vec_fallback f real' ids) as [s out]. cbn [fst snd] in *.
    rewrite Hr.
    destruct (first_outcome_dec f ids) as [E|E].
    + rewrite E. destruct (Hs E) as (A & B & C).
      destruct s as [b o lg]. cbn [buf own log] in *. subst o.
      unfold with_balance, balance, emits, emit. cbn [buf own log andb].
      unfold trace in *. cbn [log] in *. cbn [rev].
      rewrite rev_app_distr, rev_involutive. cbn [rev app].
      unfold lifecycle_ok.
      rewrite <- !app_assoc. cbn [app].
      rewrite !no_bad_app, !drop_positions_app, !deallocs_app, !handovers_app, !balances_app.
      rewrite Hb, A, Hde, Hh, Hbal.
      change (EResult (length out) :: devs SU 0 out ++ [EBalance 0])
        with ([EResult (length out)] ++ devs SU 0 out ++ [EBalance 0]).
      rewrite !no_bad_app, !drop_positions_app, !deallocs_app, !handovers_app, !balances_app.
      rewrite devs_no_bad, devs_positions, devs_deallocs, devs_handovers, devs_balances.
      cbn. rewrite !app_nil_r. rewrite C. repeat split; auto.
    + destruct (Hf E) as (A & B).
      pose proof (@lifecycle_failed real' _ _ Hb A Hde Hh Hbal Hown) as G.
      destruct (first_outcome f ids); [congruence | exact G | exact G].
Qed.

Definition box_lifecycle_safe_stmt : Prop :=
  forall (f : N -> mres) (id : N),
    lifecycle_ok 1 (trace (caller_inplace true 1 (box_inplace f id))) /\
    forall real, lifecycle_ok 1 (trace (caller_fresh real (box_fallback f real id))).

Lemma box_lifecycle_safe : box_lifecycle_safe_stmt.
Proof.
  intros f id. split.
  - unfold box_inplace. cbn. destruct (f id); cbn; unfold lifecycle_ok; cbn; repeat split; auto.
  - intros real. unfold box_fallback. cbn.
    destruct (f id); cbn; unfold lifecycle_ok; cbn; repeat split; auto.
Qed.

(* ------------------------------------------------------------------------------------- *)
(** ** Non-vacuity and teeth *)

Definition fail_at (fid : N) (m : mres) (off : N) : N -> mres :=
  fun id => if N.eqb id fid then m else MOk (id + off)%N.

(** All three outcomes occur, with non-trivial traces (5 elements, failure at position 3). *)
Example vec_inplace_safe_nonvacuous :
  first_outcome (fail_at 13 MPanic 100) [10; 11; 12; 13; 14]%N = RPanic /\
  first_outcome (fail_at 12 MErr 100) [10; 11; 12; 13; 14]%N = RErr /\
  first_outcome (fail_at 99 MErr 100) [10; 11; 12; 13; 14]%N = ROk /\
  trace (vec_inplace (fail_at 13 MPanic 100) [10; 11; 12; 13; 14]%N 0)
  = [ERead 0 10; ECall 0 10; EWrite 0 110; ERead 1 11; ECall 1 11; EWrite 1 111;
     ERead 2 12; ECall 2 12; EWrite 2 112; ERead 3 13; ECall 3 13; EConsumed 3 13;
     EDrop SU 0 110; EDrop SU 1 111; EDrop SU 2 112; EDrop ST 4 14;
     EDealloc true; EReturn RPanic]%N /\
  drop_positions (trace (vec_inplace (fail_at 12 MErr 100) [10; 11; 12; 13; 14]%N 0)) = [2; 0; 1; 3; 4] /\
  buf (vec_inplace (fail_at 99 MErr 100) [10; 11; 12; 13; 14]%N 0)
  = [LiveU 110; LiveU 111; LiveU 112; LiveU 113; LiveU 114]%N.
Proof. vm_compute. repeat split; reflexivity. Qed.

Example vec_fallback_safe_nonvacuous :
  trace (fst (vec_fallback (fail_at 12 MErr 100) true [10; 11; 12; 13]%N))
  = [ERead 0 10; ECall 0 10; ERead 1 11; ECall 1 11; ERead 2 12; ECall 2 12; EConsumed 2 12;
     EDrop ST 3 13; EDealloc true; EDrop SU 0 110; EDrop SU 1 111; EReturn RErr]%N.
Proof. vm_compute. reflexivity. Qed.

Example box_inplace_safe_nonvacuous :
  trace (box_inplace (fail_at 7 MPanic 100) 7)
  = [ERead 0 7; ECall 0 7; EConsumed 0 7; EDealloc true; EReturn RPanic]%N /\
  trace (box_inplace (fail_at 8 MPanic 100) 7)
  = [ERead 0 7; ECall 0 7; EWrite 0 107; EHandOver true; EReturn ROk]%N.
Proof. vm_compute. split; reflexivity. Qed.

Example vec_lifecycle_safe_nonvacuous :
  trace (caller_inplace true 3 (vec_inplace (fail_at 99 MErr 100) [10; 11; 12]%N 0))
  = [ERead 0 10; ECall 0 10; EWrite 0 110; ERead 1 11; ECall 1 11; EWrite 1 111;
     ERead 2 12; ECall 2 12; EWrite 2 112; EHandOver true; EReturn ROk; EResult 3;
     EDrop SU 0 110; EDrop SU 1 111; EDrop SU 2 112; EDealloc true; EBalance 0]%N.
Proof. vm_compute. reflexivity. Qed.

Example box_fallback_safe_nonvacuous :
  trace (fst (box_fallback (fail_at 7 MErr 100) true 7))
  = [ERead 0 7; ECall 0 7; EConsumed 0 7; EDealloc true; EReturn RErr]%N /\
  box_fallback (fail_at 8 MErr 100) true 7
  = (mk [Freed] false [EReturn ROk; EDealloc true; ECall 0 7; ERead 0 7]%N, [107%N]).
Proof. vm_compute. split; reflexivity. Qed.

Example box_lifecycle_safe_nonvacuous :
  trace (caller_inplace true 1 (box_inplace (fail_at 8 MErr 100) 7))
  = [ERead 0 7; ECall 0 7; EWrite 0 107; EHandOver true; EReturn ROk; EResult 1;
     EDrop SU 0 107; EDealloc true; EBalance 0]%N /\
  trace (caller_fresh true (box_fallback (fail_at 7 MPanic 100) true 7))
  = [ERead 0 7; ECall 0 7; EConsumed 0 7; EDealloc true; EReturn RPanic; EBalance 0]%N.
Proof. vm_compute. split; reflexivity. Qed.

(** The statement has teeth: three broken guards are refuted by the same machine. *)
Definition guard_drop_inprogress (real : bool) (mip len : nat) (s : state) : state :=
  (* drops the in-progress element as well: [mip..len] instead of [mip+1..len] *)
  dealloc real (drops ST (seq mip (len - mip)) (drops SU (seq 0 mip) s)).
Definition guard_drop_offbyone (real : bool) (mip len : nat) (s : state) : state :=
  (* mapped range one too long: [0..=mip] *)
  dealloc real (drops ST (seq (S mip) (len - S mip)) (drops SU (seq 0 (S mip)) s)).
Definition guard_drop_leak (real : bool) (mip len : nat) (s : state) : state :=
  (* forgets to free the storage *)
  drops ST (seq (S mip) (len - S mip)) (drops SU (seq 0 mip) s).

Example buggy_guard_is_caught :
  let run g := trace (loop_with g (fail_at 12 MErr 100) true 4 (seq 0 4) 0 (init [10; 11; 12; 13]%N)) in
  no_bad (run guard_drop_inprogress) = false /\
  no_bad (run guard_drop_offbyone) = false /\
  deallocs (run guard_drop_leak) = 0 /\
  no_bad (run guard_drop) = true /\ deallocs (run guard_drop) = 1.
Proof. vm_compute. repeat split; reflexivity. Qed.

(* ------------------------------------------------------------------------------------- *)
(** ** Correspondence interface: what the harness observes *)

Inductive oevent :=
| OCall (id : N)                 (* mapper invoked on the element with this id *)
| ODrop (s : side) (id : N)      (* Drop::drop of an element ran *)
| OBad                           (* tag mismatch in a drop (type confusion / garbage / freed memory),
                                    double free or wrong layout on the watched buffer *)
| ODealloc                       (* the watched input buffer went back to the allocator *)
| OHandOver                      (* the result re-uses the input buffer *)
| OReturn (o : outcome)
| OResult (len : N)
| OBalance (k : N).              (* allocations minus deallocations over the whole case *)

Definition observe1 (e : event) : list oevent :=
  match e with
  | ERead _ _ | EWrite _ _ => []
  | EBadRead _ | EBadWrite _ | EBadDrop _ _ | EBadDealloc => [OBad]
  | ECall _ id => [OCall id]
  | EConsumed _ id => [ODrop ST id]
  | EDrop s _ id => [ODrop s id]
  | EDealloc real => if real then [ODealloc] else []
  | EHandOver real => if real then [OHandOver] else []
  | EReturn o => [OReturn o]
  | EResult n => [OResult (N.of_nat n)]
  | EBalance k => [OBalance (N.of_nat k)]
  end.
Definition observe (t : list event) : list oevent := flat_map observe1 t.

(** ZST elements carry no id. *)
Definition erase1 (e : oevent) : oevent :=
  match e with OCall _ => OCall 0 | ODrop s _ => ODrop s 0 | e => e end.

Inductive kind := KVec | KBox.
Inductive layout := LSame | LDiff | LZst.
Inductive failspec := NoFail | FailAt (id : N) (m : outcome).
Inductive case := Case (k : kind) (l : layout) (ids : list N) (extra : nat) (off : N) (fl : failspec).

Definition mapper (off : N) (fl : failspec) : N -> mres :=
  match fl with
  | NoFail => fun id => MOk (id + off)%N
  | FailAt fid RPanic => fail_at fid MPanic off
  | FailAt fid _ => fail_at fid MErr off
  end.

(** [fallible_map_vec] / [fallible_map_box] as a whole: the layout test picks the path. *)
Definition run_case (c : case) : list oevent :=
  match c with
  | Case KVec LSame ids extra off fl =>
      let n := length ids in
      observe (trace (caller_inplace (has_heap n extra) n (vec_inplace (mapper off fl) ids extra)))
  | Case KVec LDiff ids extra off fl =>
      let real := has_heap (length ids) extra in
      observe (trace (caller_fresh real (vec_fallback (mapper off fl) real ids)))
  | Case KVec LZst ids extra off fl =>
      map erase1 (observe (trace (caller_fresh false (vec_fallback (mapper off fl) false ids))))
  | Case KBox LSame ids _ off fl =>
      observe (trace (caller_inplace true 1 (box_inplace (mapper off fl) (hd 0%N ids))))
  | Case KBox LDiff ids _ off fl =>
      observe (trace (caller_fresh true (box_fallback (mapper off fl) true (hd 0%N ids))))
  | Case KBox LZst ids _ off fl =>
      map erase1 (observe (trace (caller_fresh false (box_fallback (mapper off fl) false (hd 0%N ids)))))
  end.

Definition inplace_case (c : case) : bool :=
  match c with Case _ LSame _ _ _ _ => true | _ => false end.

(** The path is chosen by the layout test of in_place.rs, from the sizes and alignments of
    the two element types as measured in the harness:
<<
    fn is_zst<T>() -> bool { size_of::<T>() == 0 }
    fn is_layout_identical<T, U>() -> bool { size_of::<T>() == size_of::<U>() && align_of::<T>() == align_of::<U>() }
    if !is_layout_identical::<T, U>() || is_zst::<T>() { fallback } else { in place }
>>
    Identical alignment is needed although storage aligned for [T] would do for a less
    aligned [U]: the storage is later released as [Vec<U>] / [Box<U>], i.e. with [U]'s layout. *)
Definition is_zst (size_t : N) : bool := N.eqb size_t 0.
Definition is_layout_identical (size_t align_t size_u align_u : N) : bool :=
  N.eqb size_t size_u && N.eqb align_t align_u.
Definition classify (size_t align_t size_u align_u : N) : layout :=
  if negb (is_layout_identical size_t align_t size_u align_u) || is_zst size_t
  then (if is_zst size_t then LZst else LDiff)
  else LSame.

(** [needs_t] / [needs_u]: whether the element type has drop glue ([mem::needs_drop]).  A
    value of a type without drop glue is dropped by doing nothing, which cannot be observed:
    its drop events are removed from the model's observable log. *)
Inductive tcase :=
  TCase (k : kind) (size_t align_t size_u align_u : N) (needs_t needs_u : bool)
        (ids : list N) (extra : nat) (off : N) (fl : failspec).
Definition case_of (c : tcase) : case :=
  match c with
  | TCase k st al su au _ _ ids extra off fl => Case k (classify st al su au) ids extra off fl
  end.
Definition visible (needs_t needs_u : bool) (e : oevent) : bool :=
  match e with ODrop ST _ => needs_t | ODrop SU _ => needs_u | _ => true end.
Definition run_tcase (c : tcase) : list oevent :=
  match c with
  | TCase _ _ _ _ _ nt nu _ _ _ _ => filter (visible nt nu) (run_case (case_of c))
  end.

(** *** Canonical summary of an observation (order of clean-up drops is not compared) *)

Fixpoint insert (x : N) (l : list N) : list N :=
  match l with
  | [] => [x]
  | y :: r => if N.leb x y then x :: l else y :: insert x r
  end.
Definition isort (l : list N) : list N := fold_right insert [] l.

Fixpoint window (l : list oevent) : list oevent :=
  match l with [] => [] | OReturn _ :: _ => [] | e :: r => e :: window r end.
Fixpoint post (l : list oevent) : list oevent :=
  match l with [] => [] | OReturn _ :: r => r | _ :: r => post r end.
Fixpoint after_dealloc (l : list oevent) : list oevent :=
  match l with [] => [] | ODealloc :: r => r | _ :: r => after_dealloc r end.

Definition dkey (e : oevent) : list N :=
  match e with ODrop ST id => [2 * id]%N | ODrop SU id => [2 * id + 1]%N | _ => [] end.
Definition okey (o : outcome) : N := match o with ROk => 0 | RErr => 1 | RPanic => 2 end%N.
Definition count (p : oevent -> list N) (l : list oevent) : N := N.of_nat (length (flat_map p l)).

Definition summarize (inplace : bool) (l : list oevent) : list (list N) :=
  [ flat_map (fun e => match e with OReturn o => [okey o] | _ => [] end) l;   (* outcome(s) *)
    flat_map (fun e => match e with OCall id => [id] | _ => [] end) l;        (* mapper calls in order *)
    isort (flat_map dkey (window l));                                           (* drops before returning *)
    [count (fun e => match e with ODealloc => [0%N] | _ => [] end) (window l)]; (* buffer frees before returning *)
    [if inplace then count dkey (after_dealloc l) else 0%N];                    (* drops out of freed buffer *)
    [count (fun e => match e with OBad => [0%N] | _ => [] end) l];
    [count (fun e => match e with OHandOver => [0%N] | _ => [] end) l];
    flat_map (fun e => match e with OResult n => [n] | _ => [] end) l;
    isort (flat_map dkey (post l));                                             (* drops of the result *)
    [count (fun e => match e with ODealloc => [0%N] | _ => [] end) l];
    flat_map (fun e => match e with OBalance k => [k] | _ => [] end) l ].

Fixpoint list_eqb {A} (eqb : A -> A -> bool) (a b : list A) : bool :=
  match a, b with
  | [], [] => true
  | x :: a', y :: b' => eqb x y && list_eqb eqb a' b'
  | _, _ => false
  end.

Definition side_eqb (a b : side) := match a, b with ST, ST | SU, SU => true | _, _ => false end.
Definition outcome_eqb (a b : outcome) := N.eqb (okey a) (okey b).
Definition oevent_eqb (a b : oevent) : bool :=
  match a, b with
  | OCall x, OCall y => N.eqb x y
  | ODrop s x, ODrop s' y => side_eqb s s' && N.eqb x y
  | OBad, OBad | ODealloc, ODealloc | OHandOver, OHandOver => true
  | OReturn o, OReturn o' => outcome_eqb o o'
  | OResult x, OResult y => N.eqb x y
  | OBalance x, OBalance y => N.eqb x y
  | _, _ => false
  end.

(** The correspondence relations evaluated by [checks/c27.py] on every case:
    [agree] (verdict) and [agree_strict] (same events in the same order; informational). *)
Definition agree (cr : case * list oevent) : bool :=
  let (c, real) := cr in
  list_eqb (list_eqb N.eqb) (summarize (inplace_case c) (run_case c)) (summarize (inplace_case c) real).
Definition agree_strict (cr : case * list oevent) : bool :=
  let (c, real) := cr in list_eqb oevent_eqb (run_case c) real.

Definition agree_t (cr : tcase * list oevent) : bool :=
  let (c, real) := cr in
  let ip := inplace_case (case_of c) in
  list_eqb (list_eqb N.eqb) (summarize ip (run_tcase c)) (summarize ip real).
Definition agree_strict_t (cr : tcase * list oevent) : bool :=
  let (c, real) := cr in list_eqb oevent_eqb (run_tcase c) real.

Example run_tcase_example :
  run_tcase (TCase KVec 16 8 16 8 false true [10; 11; 12; 13]%N 0 100 (FailAt 12 RErr))
  = [OCall 10; OCall 11; OCall 12; ODrop SU 110; ODrop SU 111; ODealloc; OReturn RErr; OBalance 0]%N /\
  run_tcase (TCase KVec 16 8 16 8 true false [10; 11; 12; 13]%N 0 100 (FailAt 12 RErr))
  = [OCall 10; OCall 11; OCall 12; ODrop ST 12; ODrop ST 13; ODealloc; OReturn RErr; OBalance 0]%N.
Proof. vm_compute. split; reflexivity. Qed.

Example classify_examples :
  classify 16 8 16 8 = LSame /\ classify 16 8 16 4 = LDiff /\ classify 8 4 8 8 = LDiff /\
  classify 16 8 8 4 = LDiff /\ classify 0 1 0 1 = LZst /\ classify 0 1 8 8 = LZst.
Proof. vm_compute. repeat split; reflexivity. Qed.

Example run_case_example :
  run_case (Case KVec LSame [10; 11; 12; 13; 14]%N 0 100 (FailAt 13 RPanic))
  = [OCall 10; OCall 11; OCall 12; OCall 13; ODrop ST 13; ODrop SU 110; ODrop SU 111; ODrop SU 112;
     ODrop ST 14; ODealloc; OReturn RPanic; OBalance 0]%N.
Proof. vm_compute. reflexivity. Qed.
