(* C19 -- coherence checking is total and its accepted priorities are consistent.

   Executable model of chalk-solve/src/coherence.rs + coherence/solve.rs over the two oracle
   queries of the pairwise loop:

     disjoint l r      = CoherenceSolver::disjoint(impl_l, impl_r)              (called with l < r)
     specializes a b   = CoherenceSolver::specializes(less_special = a, more_special = b)
     positive i        = ImplDatum::is_positive
     marker            = TraitDatum.flags.marker

   Impls of one trait are numbered 0 .. n-1 in program order (positions: nat).

   [run]      the repaired code (fix: commit in /repo): toposort of the specialization graph,
              priority = 1 + highest priority among the impls it specializes, inserted once.
   [run_orig] the code before the fix: DFS from the roots, priority = depth, with the
              insert-once assertion; refuted on a chain of three impls (defect F2). *)
From Coq Require Import List Arith Bool Lia PeanoNat.
Import ListNotations.

(* ------------------------------------------------------------------------------------- *)
(* Outcomes                                                                               *)
(* ------------------------------------------------------------------------------------- *)

Inductive psite :=
| InsertTwice        (* SpecializationPriorities::insert: assert!(old_value.is_none()) *)
| PriorityMissing.   (* SpecializationPriorities::priority: self.map[&impl_id] on an absent impl *)

Inductive outcome :=
| Accepted (prios : list (nat * nat))   (* (impl, priority), impls without entry omitted, by impl *)
| Overlap                               (* Err(CoherenceError::OverlappingImpls) *)
| Panic (s : psite)
| OutOfFuel.                            (* only the model of the original DFS can produce it *)

Definition psite_eqb (a b : psite) : bool :=
  match a, b with InsertTwice, InsertTwice | PriorityMissing, PriorityMissing => true | _, _ => false end.

Fixpoint prios_eqb (a b : list (nat * nat)) : bool :=
  match a, b with
  | [], [] => true
  | (i, p) :: a', (j, q) :: b' => (i =? j) && (p =? q) && prios_eqb a' b'
  | _, _ => false
  end.

Definition outcome_eqb (a b : outcome) : bool :=
  match a, b with
  | Accepted x, Accepted y => prios_eqb x y
  | Overlap, Overlap => true
  | Panic s, Panic t => psite_eqb s t
  | OutOfFuel, OutOfFuel => true
  | _, _ => false
  end.

Definition is_panic (o : outcome) : bool := match o with Panic _ => true | _ => false end.

(* ------------------------------------------------------------------------------------- *)
(* Small list machinery                                                                   *)
(* ------------------------------------------------------------------------------------- *)

(* itertools::tuple_combinations::<(_, _)> *)
Fixpoint tuple_combinations (l : list nat) : list (nat * nat) :=
  match l with
  | [] => []
  | x :: r => map (pair x) r ++ tuple_combinations r
  end.

Definition mem (x : nat) (l : list nat) : bool := existsb (Nat.eqb x) l.

Lemma mem_In x l : mem x l = true <-> In x l.
Proof.
  unfold mem. rewrite existsb_exists. split.
  - intros [y [H1 H2]]. apply Nat.eqb_eq in H2. now subst.
  - intros H. exists x. split; [assumption | apply Nat.eqb_refl].
Qed.

Fixpoint lookup (m : list (nat * nat)) (i : nat) : option nat :=
  match m with
  | [] => None
  | (k, p) :: r => if k =? i then Some p else lookup r i
  end.

Lemma lookup_app_some m m' i p : lookup m i = Some p -> lookup (m ++ m') i = Some p.
Proof.
  induction m as [|[k q] m IH]; simpl; [discriminate|].
  destruct (k =? i); auto.
Qed.

Lemma lookup_none_keys m i : lookup m i = None <-> ~ In i (map fst m).
Proof.
  induction m as [|[k q] m IH]; simpl.
  - tauto.
  - destruct (k =? i) eqn:E.
    + apply Nat.eqb_eq in E. subst. split; [discriminate | intros H; exfalso; apply H; now left].
    + apply Nat.eqb_neq in E. rewrite IH. tauto.
Qed.

Lemma lookup_some_keys m i : (exists p, lookup m i = Some p) <-> In i (map fst m).
Proof.
  destruct (lookup m i) eqn:E.
  - split; [intros _ | intros _; eauto].
    destruct (in_dec Nat.eq_dec i (map fst m)) as [H|H]; [assumption|].
    apply lookup_none_keys in H. congruence.
  - split; [intros [p H]; discriminate|]. intros H. apply lookup_none_keys in E. contradiction.
Qed.

Lemma lookup_app_none m m' i : lookup m i = None -> lookup (m ++ m') i = lookup m' i.
Proof.
  induction m as [|[k q] m IH]; simpl; [reflexivity|].
  destruct (k =? i); [discriminate | auto].
Qed.

Lemma in_tuple_combinations_seq n : forall a i j,
  In (i, j) (tuple_combinations (seq a n)) <-> a <= i /\ i < j /\ j < a + n.
Proof.
  induction n as [|n IH]; intros a i j; simpl.
  - lia.
  - rewrite in_app_iff, in_map_iff, IH. split.
    + intros [[y [H1 H2]] | H].
      * inversion H1; subst. apply in_seq in H2. lia.
      * lia.
    + intros H. destruct (Nat.eq_dec a i) as [->|Hne].
      * left. exists j. split; [reflexivity|]. apply in_seq. lia.
      * right. lia.
Qed.

(* ------------------------------------------------------------------------------------- *)
(* The model                                                                              *)
(* ------------------------------------------------------------------------------------- *)

Section Model.
  Variable n : nat.
  Variable marker : bool.
  Variable positive : nat -> bool.
  Variable disjoint : nat -> nat -> bool.
  Variable specializes : nat -> nat -> bool.

  (* one iteration of the loop in visit_specializations_of_trait *)
  Inductive pair_result := Skip | Edge (less more : nat) | Clash.

  Definition step (l r : nat) : pair_result :=
    if negb (positive l) && negb (positive r) then Skip          (* two negative impls never overlap *)
    else if disjoint l r then Skip
    else match specializes l r, specializes r l with
         | true, false => Edge l r
         | false, true => Edge r l
         | _, _ => Clash
         end.

  (* the loop: None = Err(OverlappingImpls); Some edges = the calls of record_specialization *)
  Fixpoint visit (ps : list (nat * nat)) : option (list (nat * nat)) :=
    match ps with
    | [] => Some []
    | (l, r) :: rest =>
        match step l r with
        | Clash => None
        | Skip => visit rest
        | Edge a b => match visit rest with Some es => Some ((a, b) :: es) | None => None end
        end
    end.

  Definition pairs : list (nat * nat) := tuple_combinations (seq 0 n).

  (* build_specialization_forest: nodes are the impls that occur in some edge *)
  Definition nodes (edges : list (nat * nat)) : list nat :=
    nodup Nat.eq_dec (flat_map (fun e => [fst e; snd e]) edges).

  Definition preds (edges : list (nat * nat)) (j : nat) : list nat :=
    map fst (filter (fun e => snd e =? j) edges).

  Definition succs (edges : list (nat * nat)) (i : nat) : list nat :=
    map snd (filter (fun e => fst e =? i) edges).

  (* petgraph::algo::toposort, observationally: Some (an order of all nodes in which every
     edge points forward) or None when there is a cycle. *)
  Definition ready (edges : list (nat * nat)) (placed : list nat) (j : nat) : bool :=
    forallb (fun i => mem i placed) (preds edges j).

  Fixpoint kahn (fuel : nat) (edges : list (nat * nat)) (placed remaining : list nat) : option (list nat) :=
    match remaining with
    | [] => Some placed
    | _ :: _ =>
        match fuel with
        | 0 => None
        | S f =>
            match find (ready edges placed) remaining with
            | None => None
            | Some j => kahn f edges (placed ++ [j]) (remove Nat.eq_dec j remaining)
            end
        end
    end.

  Definition toposort (edges : list (nat * nat)) : option (list nat) :=
    kahn (length (nodes edges)) edges [] (nodes edges).

  (* 1 + the highest priority among the less special impls; None: `priority` indexed an
     impl that has no entry yet *)
  Fixpoint max_pred (ps : list nat) (m : list (nat * nat)) : option nat :=
    match ps with
    | [] => Some 0
    | i :: r =>
        match lookup m i, max_pred r m with
        | Some p, Some q => Some (Nat.max (S p) q)
        | _, _ => None
        end
    end.

  Fixpoint assign (edges : list (nat * nat)) (order : list nat) (m : list (nat * nat))
    : list (nat * nat) + psite :=
    match order with
    | [] => inl m
    | j :: rest =>
        match max_pred (preds edges j) m with
        | None => inr PriorityMissing
        | Some p =>
            match lookup m j with
            | Some _ => inr InsertTwice
            | None => assign edges rest (m ++ [(j, p)])
            end
        end
    end.

  (* observable form of the priority map: by impl, absent impls omitted *)
  Definition canon (m : list (nat * nat)) : list (nat * nat) :=
    flat_map (fun i => match lookup m i with Some p => [(i, p)] | None => [] end) (seq 0 n).

  Definition run : outcome :=
    if marker then Accepted []
    else match visit pairs with
         | None => Overlap
         | Some edges =>
             match toposort edges with
             | None => Overlap
             | Some order =>
                 match assign edges order [] with
                 | inl m => Accepted (canon m)
                 | inr s => Panic s
                 end
             end
         end.

  (* ---------------------------------------------------------------------------------- *)
  (* The original assignment (before the fix)                                            *)
  (* ---------------------------------------------------------------------------------- *)

  (* set_priorities: insert (asserting the impl has no entry), then recurse into the
     children with p + 1 *)
  Fixpoint set_priorities (fuel : nat) (edges : list (nat * nat)) (idx p : nat) (m : list (nat * nat))
    : outcome + list (nat * nat) :=
    match fuel with
    | 0 => inl OutOfFuel
    | S f =>
        match lookup m idx with
        | Some _ => inl (Panic InsertTwice)
        | None =>
            fold_left (fun acc c => match acc with
                                    | inl o => inl o
                                    | inr m' => set_priorities f edges c (S p) m'
                                    end)
                      (succs edges idx) (inr (m ++ [(idx, p)]))
        end
    end.

  Definition roots (edges : list (nat * nat)) : list nat :=
    filter (fun j => match preds edges j with [] => true | _ => false end) (nodes edges).

  Definition run_orig (fuel : nat) : outcome :=
    if marker then Accepted []
    else match visit pairs with
         | None => Overlap
         | Some edges =>
             match fold_left (fun acc r => match acc with
                                           | inl o => inl o
                                           | inr m => set_priorities fuel edges r 0 m
                                           end) (roots edges) (inr []) with
             | inl o => o
             | inr m => Accepted (canon m)
             end
         end.

  (* ---------------------------------------------------------------------------------- *)
  (* Facts about the loop                                                                *)
  (* ---------------------------------------------------------------------------------- *)

  Lemma visit_spec ps edges :
    visit ps = Some edges ->
    (forall l r, In (l, r) ps -> step l r <> Clash) /\
    (forall a b, In (a, b) edges <-> exists l r, In (l, r) ps /\ step l r = Edge a b).
  Proof.
    revert edges. induction ps as [|[l r] ps IH]; simpl; intros edges H.
    - inversion H; subst. split; [tauto|]. intros a b. split; [intros []|intros [l [r [[] _]]]].
    - destruct (step l r) eqn:E.
      + destruct (IH _ H) as [H1 H2]. split.
        * intros l' r' [Heq|Hin]; [inversion Heq; subst; congruence | auto].
        * intros a b. rewrite H2. split.
          -- intros [l' [r' [Hin Hs]]]. exists l', r'. auto.
          -- intros [l' [r' [[Heq|Hin] Hs]]]; [inversion Heq; subst; congruence | eauto].
      + destruct (visit ps) as [es|] eqn:V; [|discriminate]. inversion H; subst.
        destruct (IH _ eq_refl) as [H1 H2]. split.
        * intros l' r' [Heq|Hin]; [inversion Heq; subst; congruence | auto].
        * intros a b. simpl. rewrite H2. split.
          -- intros [Heq|[l' [r' [Hin Hs]]]].
             ++ inversion Heq; subst. exists l, r. auto.
             ++ exists l', r'. auto.
          -- intros [l' [r' [[Heq|Hin] Hs]]].
             ++ inversion Heq; subst. rewrite E in Hs. inversion Hs; subst. now left.
             ++ right. eauto.
      + discriminate.
  Qed.

  (* ---------------------------------------------------------------------------------- *)
  (* toposort is sound: every node exactly once, every edge forward                       *)
  (* ---------------------------------------------------------------------------------- *)

  Fixpoint topo_from (edges : list (nat * nat)) (placed rest : list nat) : Prop :=
    match rest with
    | [] => True
    | j :: r => ~ In j placed /\ (forall i, In (i, j) edges -> In i placed) /\ topo_from edges (placed ++ [j]) r
    end.

  Lemma in_preds edges i j : In i (preds edges j) <-> In (i, j) edges.
  Proof.
    unfold preds. rewrite in_map_iff. split.
    - intros [[a b] [H1 H2]]. simpl in H1. subst. apply filter_In in H2. destruct H2 as [H2 H3].
      simpl in H3. apply Nat.eqb_eq in H3. now subst.
    - intros H. exists (i, j). split; [reflexivity|]. apply filter_In. split; [assumption|].
      simpl. apply Nat.eqb_refl.
  Qed.

  Lemma ready_spec edges placed j :
    ready edges placed j = true <-> (forall i, In (i, j) edges -> In i placed).
  Proof.
    unfold ready. rewrite forallb_forall. split.
    - intros H i Hi. apply mem_In. apply H. now apply in_preds.
    - intros H i Hi. apply mem_In. apply H. now apply in_preds.
  Qed.

  Lemma remove_length_lt (x : nat) l : In x l -> length (remove Nat.eq_dec x l) < length l.
  Proof.
    induction l as [|y l IH]; simpl; [tauto|].
    intros [->|H].
    - destruct (Nat.eq_dec x x); [|congruence].
      pose proof (remove_length_le Nat.eq_dec l x). lia.
    - destruct (Nat.eq_dec x y); simpl; [pose proof (remove_length_le Nat.eq_dec l x); lia | specialize (IH H); lia].
  Qed.

  Lemma NoDup_remove_nat (x : nat) l : NoDup l -> NoDup (remove Nat.eq_dec x l).
  Proof.
    induction 1 as [|y l Hy Hl IH]; simpl; [constructor|].
    destruct (Nat.eq_dec x y); [assumption|].
    constructor; [|assumption]. intros H. apply in_remove in H. tauto.
  Qed.

  Lemma kahn_step f edges placed r0 rem :
    kahn (S f) edges placed (r0 :: rem) =
    match find (ready edges placed) (r0 :: rem) with
    | None => None
    | Some j => kahn f edges (placed ++ [j]) (remove Nat.eq_dec j (r0 :: rem))
    end.
  Proof. reflexivity. Qed.

  Lemma kahn_sound edges : forall fuel placed remaining order,
    NoDup remaining ->
    (forall x, In x remaining -> ~ In x placed) ->
    kahn fuel edges placed remaining = Some order ->
    exists rest, order = placed ++ rest /\ topo_from edges placed rest /\
                 (forall x, In x rest <-> In x remaining).
  Proof.
    induction fuel as [|f IH]; intros placed remaining order Hnd Hdis H.
    - destruct remaining; simpl in H; [|discriminate]. inversion H; subst.
      exists []. rewrite app_nil_r. simpl. tauto.
    - destruct remaining as [|r0 rem]; [simpl in H | rewrite kahn_step in H].
      + inversion H; subst. exists []. rewrite app_nil_r. simpl. tauto.
      + remember (r0 :: rem) as remaining.
        destruct (find (ready edges placed) remaining) as [j|] eqn:F; [|discriminate].
        apply find_some in F. destruct F as [Hj Hr].
        apply IH in H.
        * destruct H as [rest [H1 [H2 H3]]].
          exists (j :: rest). split; [rewrite H1, <- app_assoc; reflexivity|]. split.
          -- simpl. split; [now apply Hdis|]. split; [now apply ready_spec | assumption].
          -- intros x. simpl. rewrite H3. split.
             ++ intros [->|Hx]; [assumption | apply in_remove in Hx; tauto].
             ++ intros Hx. destruct (Nat.eq_dec j x) as [->|Hne]; [now left|].
                right. apply in_in_remove; auto.
        * now apply NoDup_remove_nat.
        * intros x Hx Hp. apply in_remove in Hx. destruct Hx as [Hx Hne].
          apply in_app_iff in Hp. destruct Hp as [Hp|[->|[]]]; [apply (Hdis x); assumption | congruence].
  Qed.

  Lemma toposort_sound edges order :
    toposort edges = Some order ->
    topo_from edges [] order /\ (forall x, In x order <-> In x (nodes edges)).
  Proof.
    intros H. apply kahn_sound in H.
    - destruct H as [rest [H1 [H2 H3]]]. simpl in H1. subst. auto.
    - apply NoDup_nodup.
    - intros x _ [].
  Qed.

  Lemma in_nodes edges x : In x (nodes edges) <-> exists y, In (x, y) edges \/ In (y, x) edges.
  Proof.
    unfold nodes. rewrite nodup_In, in_flat_map. split.
    - intros [[a b] [H1 [H2|[H2|[]]]]]; simpl in H2; subst; eauto.
    - intros [y [H|H]]; [exists (x, y) | exists (y, x)]; simpl; auto.
  Qed.

  (* ---------------------------------------------------------------------------------- *)
  (* toposort is complete on ranked (= acyclic) graphs                                    *)
  (* ---------------------------------------------------------------------------------- *)

  Definition ranked (edges : list (nat * nat)) : Prop :=
    exists rank : nat -> nat, forall i j, In (i, j) edges -> rank i < rank j.

  Lemma min_rank (rank : nat -> nat) (l : list nat) :
    l <> [] -> exists x, In x l /\ forall y, In y l -> rank x <= rank y.
  Proof.
    induction l as [|a l IH]; [congruence|]. intros _.
    destruct l as [|b l].
    - exists a. split; [now left|]. intros y [->|[]]. lia.
    - destruct IH as [x [Hx Hmin]]; [discriminate|].
      destruct (le_lt_dec (rank a) (rank x)).
      + exists a. split; [now left|]. intros y [->|Hy]; [lia | specialize (Hmin y Hy); lia].
      + exists x. split; [now right|]. intros y [->|Hy]; [lia | auto].
  Qed.

  Lemma find_none_iff (f : nat -> bool) l : find f l = None <-> forall x, In x l -> f x = false.
  Proof.
    split; [apply find_none|]. induction l as [|a l IH]; simpl; [reflexivity|].
    intros H. rewrite (H a (or_introl eq_refl)). apply IH. intros x Hx. apply H. now right.
  Qed.

  Lemma kahn_complete edges : ranked edges -> forall fuel placed remaining,
    length remaining <= fuel ->
    (forall x, In x (nodes edges) -> In x placed \/ In x remaining) ->
    kahn fuel edges placed remaining <> None.
  Proof.
    intros [rank Hrank]. induction fuel as [|f IH]; intros placed remaining Hlen Hcov.
    - destruct remaining; simpl in *; [discriminate | lia].
    - destruct remaining as [|r0 rem]; [simpl; discriminate | rewrite kahn_step].
      remember (r0 :: rem) as remaining.
      destruct (find (ready edges placed) remaining) as [j|] eqn:F.
      + apply find_some in F. destruct F as [Hj _]. apply IH.
        * pose proof (remove_length_lt j remaining Hj). lia.
        * intros x Hx. destruct (Hcov x Hx) as [H|H].
          -- left. apply in_app_iff. now left.
          -- destruct (Nat.eq_dec j x) as [->|Hne].
             ++ left. apply in_app_iff. right. now left.
             ++ right. apply in_in_remove; auto.
      + exfalso. destruct (min_rank rank remaining) as [x [Hx Hmin]]; [subst; discriminate|].
        rewrite find_none_iff in F. specialize (F x Hx).
        assert (ready edges placed x = true); [|congruence].
        apply ready_spec. intros i Hi.
        destruct (Hcov i) as [H|H]; [apply in_nodes; eauto | assumption |].
        specialize (Hmin i H). specialize (Hrank i x Hi). lia.
  Qed.

  Lemma toposort_complete edges : ranked edges -> toposort edges <> None.
  Proof.
    intros H. apply kahn_complete; auto.
  Qed.

  (* ---------------------------------------------------------------------------------- *)
  (* The assignment never panics on a topological order, and is strict                    *)
  (* ---------------------------------------------------------------------------------- *)

  Definition strict_on (edges : list (nat * nat)) (m : list (nat * nat)) : Prop :=
    forall i j pj, In (i, j) edges -> lookup m j = Some pj ->
                   exists pi, lookup m i = Some pi /\ pi < pj.

  Lemma max_pred_spec ps m :
    (forall i, In i ps -> In i (map fst m)) ->
    exists q, max_pred ps m = Some q /\ forall i pi, In i ps -> lookup m i = Some pi -> pi < q.
  Proof.
    induction ps as [|a ps IH]; intros H; simpl.
    - exists 0. split; [reflexivity|]. intros i pi [].
    - destruct IH as [q [Hq Hlt]]; [intros i Hi; apply H; now right|].
      assert (Ha : exists p, lookup m a = Some p) by (apply lookup_some_keys, H; now left).
      destruct Ha as [p Hp]. rewrite Hp, Hq. exists (Nat.max (S p) q). split; [reflexivity|].
      intros i pi [->|Hi] Hl.
      + rewrite Hp in Hl. inversion Hl; subst. lia.
      + specialize (Hlt i pi Hi Hl). lia.
  Qed.

  Lemma assign_ok edges : forall rest m,
    topo_from edges (map fst m) rest ->
    strict_on edges m ->
    exists m', assign edges rest m = inl m' /\ strict_on edges m' /\
               (forall x, In x (map fst m') <-> In x (map fst m) \/ In x rest).
  Proof.
    induction rest as [|j rest IH]; intros m Ht Hs; simpl.
    - exists m. split; [reflexivity|]. split; [assumption|]. intros x. tauto.
    - simpl in Ht. destruct Ht as [Hnew [Hpred Ht]].
      destruct (max_pred_spec (preds edges j) m) as [q [Hq Hlt]].
      { intros i Hi. apply Hpred. now apply in_preds. }
      rewrite Hq. apply lookup_none_keys in Hnew. rewrite Hnew.
      destruct (IH (m ++ [(j, q)])) as [m' [H1 [H2 H3]]].
      + rewrite map_app. simpl. assumption.
      + intros i j' pj Hin Hl.
        destruct (lookup m j') as [pj'|] eqn:Ej.
        * rewrite (lookup_app_some _ _ _ _ Ej) in Hl. inversion Hl; subst.
          destruct (Hs i j' pj Hin Ej) as [pi [Hpi Hlt']].
          exists pi. split; [now apply lookup_app_some | assumption].
        * rewrite (lookup_app_none _ _ _ Ej) in Hl. simpl in Hl.
          destruct (j =? j') eqn:E; [|discriminate]. apply Nat.eqb_eq in E. subst j'.
          inversion Hl; subst pj.
          assert (Hi : exists pi, lookup m i = Some pi) by (apply lookup_some_keys, Hpred; assumption).
          destruct Hi as [pi Hpi]. exists pi. split; [now apply lookup_app_some|].
          apply (Hlt i pi); [now apply in_preds | assumption].
      + exists m'. split; [assumption|]. split; [assumption|].
        intros x. rewrite H3, map_app, in_app_iff. simpl. tauto.
  Qed.

  (* ---------------------------------------------------------------------------------- *)
  (* The theorems                                                                         *)
  (* ---------------------------------------------------------------------------------- *)

  (* Priority as the property reads it: impls that take part in no specialization have no
     entry; they count as the default priority 0. *)
  Definition prio_of (ps : list (nat * nat)) (i : nat) : nat :=
    match lookup ps i with Some p => p | None => 0 end.

  Lemma lookup_canon m i : i < n -> lookup (canon m) i = lookup m i.
  Proof.
    unfold canon. intros Hi.
    assert (G : forall a k, a <= i < a + k \/ ~ (a <= i) ->
              lookup (flat_map (fun i0 => match lookup m i0 with Some p => [(i0, p)] | None => [] end) (seq a k)) i
              = if le_lt_dec a i then if le_lt_dec (a + k) i then None else lookup m i else None).
    { intros a k. revert a. induction k as [|k IH]; intros a Hr; simpl.
      - destruct (le_lt_dec a i); [destruct (le_lt_dec (a + 0) i); [reflexivity|lia] | reflexivity].
      - destruct (lookup m a) as [p|] eqn:E; simpl.
        + destruct (a =? i) eqn:Eq.
          * apply Nat.eqb_eq in Eq. subst. destruct (le_lt_dec i i); [|lia].
            destruct (le_lt_dec (i + S k) i); [lia | now rewrite E].
          * apply Nat.eqb_neq in Eq. rewrite IH by lia.
            destruct (le_lt_dec (S a) i), (le_lt_dec a i); try lia; try reflexivity.
            destruct (le_lt_dec (S a + k) i), (le_lt_dec (a + S k) i); try lia; reflexivity.
        + rewrite IH by lia.
          destruct (le_lt_dec (S a) i), (le_lt_dec a i); try lia; try reflexivity.
          * destruct (le_lt_dec (S a + k) i), (le_lt_dec (a + S k) i); try lia; reflexivity.
          * assert (a = i) by lia. subst. destruct (le_lt_dec (i + S k) i); [reflexivity | now rewrite E]. }
    rewrite G by lia. simpl. destruct (le_lt_dec 0 i); [|lia]. destruct (le_lt_dec n i); [lia | reflexivity].
  Qed.

  (* What acceptance means, in one place. *)
  Lemma run_accepted ps :
    marker = false -> run = Accepted ps ->
    exists edges m,
      visit pairs = Some edges /\ ps = canon m /\ strict_on edges m /\
      (forall x, In x (map fst m) <-> In x (nodes edges)).
  Proof.
    unfold run. intros -> H.
    destruct (visit pairs) as [edges|] eqn:V; [|discriminate].
    destruct (toposort edges) as [order|] eqn:T; [|discriminate].
    apply toposort_sound in T. destruct T as [T1 T2].
    destruct (assign_ok edges order [] T1) as [m [A1 [A2 A3]]].
    { intros i j pj _ Hl. discriminate. }
    rewrite A1 in H. inversion H; subst.
    exists edges, m. repeat split; auto.
    - intros Hx. apply T2. apply A3 in Hx. simpl in Hx. tauto.
    - intros Hx. apply A3. right. now apply T2.
  Qed.

  (* never a panic: for ALL oracle matrices, cyclic ones included *)
  Theorem priorities_total : is_panic run = false.
  Proof.
    unfold run. destruct marker; [reflexivity|].
    destruct (visit pairs) as [edges|] eqn:V; [|reflexivity].
    destruct (toposort edges) as [order|] eqn:T; [|reflexivity].
    apply toposort_sound in T. destruct T as [T1 T2].
    destruct (assign_ok edges order [] T1) as [m [A1 _]].
    { intros i j pj _ Hl. discriminate. }
    now rewrite A1.
  Qed.

  Lemma edges_in_range edges a b : visit pairs = Some edges -> In (a, b) edges -> a < n /\ b < n /\ a <> b.
  Proof.
    intros V H. destruct (visit_spec _ _ V) as [_ H2]. apply H2 in H.
    destruct H as [l [r [Hin Hs]]]. apply in_tuple_combinations_seq in Hin.
    unfold step in Hs.
    destruct (negb (positive l) && negb (positive r)); [discriminate|].
    destruct (disjoint l r); [discriminate|].
    destruct (specializes l r), (specializes r l); inversion Hs; subst; lia.
  Qed.

  (* the specialization relation the loop records: [more] specializes [less] *)
  Definition spec_edge (less more : nat) : Prop :=
    exists l r, l < r /\ r < n /\ step l r = Edge less more.

  (* a strictly more special impl has the strictly higher priority *)
  Theorem priorities_strict ps less more :
    marker = false -> run = Accepted ps -> spec_edge less more ->
    exists p q, lookup ps less = Some p /\ lookup ps more = Some q /\ p < q.
  Proof.
    intros Hm H [l [r [Hlr [Hr Hs]]]].
    destruct (run_accepted _ Hm H) as [edges [m [V [-> [S N]]]]].
    assert (E : In (less, more) edges).
    { apply (proj2 (visit_spec _ _ V)). exists l, r. split; [|assumption].
      apply in_tuple_combinations_seq. lia. }
    destruct (edges_in_range _ _ _ V E) as [R1 [R2 _]].
    assert (Hq : exists q, lookup m more = Some q).
    { apply lookup_some_keys, N, in_nodes. eauto. }
    destruct Hq as [q Hq]. destruct (S less more q E Hq) as [p [Hp Hlt]].
    exists p, q. rewrite !lookup_canon by assumption. auto.
  Qed.

  (* acceptance: every pair of impls (not both negative) is disjoint or related by
     specialization, and impls of equal priority are disjoint *)
  Theorem equal_priority_disjoint ps i j :
    marker = false -> run = Accepted ps -> i < j -> j < n ->
    (positive i = true \/ positive j = true) ->
    prio_of ps i = prio_of ps j -> disjoint i j = true.
  Proof.
    intros Hm H Hij Hj Hpos Heq.
    destruct (disjoint i j) eqn:D; [reflexivity|]. exfalso.
    assert (Hin : In (i, j) pairs) by (apply in_tuple_combinations_seq; lia).
    destruct (run_accepted _ Hm H) as [edges [m [V _]]].
    destruct (visit_spec _ _ V) as [NC _]. specialize (NC i j Hin).
    assert (Hstep : step i j = Edge i j \/ step i j = Edge j i).
    { unfold step in *. rewrite D in *.
      destruct (positive i), (positive j); simpl in *;
        try (destruct Hpos; discriminate);
        destruct (specializes i j), (specializes j i); auto; congruence. }
    unfold prio_of in Heq.
    destruct Hstep as [Hs|Hs].
    - destruct (priorities_strict _ i j Hm H) as [p [q [Hp [Hq Hlt]]]].
      { exists i, j. auto. }
      rewrite Hp, Hq in Heq. lia.
    - destruct (priorities_strict _ j i Hm H) as [p [q [Hp [Hq Hlt]]]].
      { exists i, j. auto. }
      rewrite Hp, Hq in Heq. lia.
  Qed.

  (* completeness of acceptance: when no pair clashes and the recorded specialization
     relation is acyclic (has a rank function), the program is accepted *)
  Theorem acyclic_accepted edges :
    marker = false -> visit pairs = Some edges -> ranked edges -> exists ps, run = Accepted ps.
  Proof.
    intros Hm V R. unfold run. rewrite Hm, V.
    destruct (toposort edges) as [order|] eqn:T; [|exfalso; now apply (toposort_complete _ R)].
    apply toposort_sound in T. destruct T as [T1 _].
    destruct (assign_ok edges order [] T1) as [m [A1 _]].
    { intros a b pj _ Hl. discriminate. }
    rewrite A1. eauto.
  Qed.

  (* and conversely acceptance yields a rank function: the priorities *)
  Theorem accepted_acyclic ps edges :
    marker = false -> run = Accepted ps -> visit pairs = Some edges -> ranked edges.
  Proof.
    intros Hm H V. destruct (run_accepted _ Hm H) as [edges' [m [V' [-> [S N]]]]].
    rewrite V in V'. inversion V'; subst edges'.
    exists (fun i => match lookup m i with Some p => p | None => 0 end).
    intros i j E.
    assert (Hq : exists q, lookup m j = Some q) by (apply lookup_some_keys, N, in_nodes; eauto).
    destruct Hq as [q Hq]. destruct (S i j q E Hq) as [p [Hp Hlt]]. now rewrite Hp, Hq.
  Qed.
End Model.

(* ------------------------------------------------------------------------------------- *)
(* The two semantic clauses of the property, from soundness of the two oracle queries       *)
(* ------------------------------------------------------------------------------------- *)

Section Semantics.
  Variable R : Type.                       (* concrete trait references *)
  Variable n : nat.
  Variable marker : bool.
  Variable positive : nat -> bool.
  Variable disjoint : nat -> nat -> bool.
  Variable specializes : nat -> nat -> bool.
  Variable applies : nat -> R -> Prop.     (* impl i applies to trait reference r *)

  (* what the real solver is trusted for (and what the correspondence run tests on the
     bounded universe): a proven disjointness / specialization goal is true *)
  Hypothesis disjoint_sound :
    forall l r, disjoint l r = true -> forall x, applies l x -> applies r x -> False.
  Hypothesis specializes_sound :
    forall less more, specializes less more = true -> forall x, applies more x -> applies less x.

  Lemma step_edge l r a b :
    step positive disjoint specializes l r = Edge a b ->
    specializes a b = true /\ ((a = l /\ b = r) \/ (a = r /\ b = l)).
  Proof.
    unfold step. destruct (negb (positive l) && negb (positive r)); [discriminate|].
    destruct (disjoint l r); [discriminate|].
    destruct (specializes l r) eqn:E1, (specializes r l) eqn:E2; intros H; inversion H; subst; auto.
  Qed.

  Theorem equal_priority_no_common_ref ps i j x :
    marker = false -> run n marker positive disjoint specializes = Accepted ps ->
    i < j -> j < n -> (positive i = true \/ positive j = true) ->
    prio_of ps i = prio_of ps j -> applies i x -> applies j x -> False.
  Proof.
    intros Hm H Hij Hj Hp Heq Ai Aj.
    apply (disjoint_sound i j (equal_priority_disjoint n marker positive disjoint specializes ps i j Hm H Hij Hj Hp Heq) x Ai Aj).
  Qed.

  Lemma related_pair ps l r :
    marker = false -> run n marker positive disjoint specializes = Accepted ps ->
    l < r -> r < n -> (positive l = true \/ positive r = true) ->
    (exists x, applies l x /\ applies r x) ->
    exists a b, step positive disjoint specializes l r = Edge a b.
  Proof.
    intros Hm H Hlr Hr Hp [x [Al Ar]].
    destruct (run_accepted n marker positive disjoint specializes ps Hm H) as [edges [m [V _]]].
    destruct (visit_spec positive disjoint specializes _ _ V) as [NC _].
    assert (Hin : In (l, r) (pairs n)) by (apply in_tuple_combinations_seq; lia).
    specialize (NC l r Hin).
    destruct (step positive disjoint specializes l r) eqn:E; [|eauto|congruence].
    exfalso. unfold step in E.
    destruct (positive l), (positive r); simpl in E;
      try (destruct Hp; discriminate);
      (destruct (disjoint l r) eqn:D; [apply (disjoint_sound l r D x Al Ar) |
        destruct (specializes l r), (specializes r l); discriminate]).
  Qed.

  (* an impl that applies to a non-empty strict subset of another impl's trait references
     has the higher priority *)
  Theorem strict_subset_higher_priority ps i j :
    marker = false -> run n marker positive disjoint specializes = Accepted ps ->
    i < n -> j < n -> i <> j -> (positive i = true \/ positive j = true) ->
    (exists x, applies i x) ->
    (forall x, applies i x -> applies j x) ->
    (exists x, applies j x /\ ~ applies i x) ->
    prio_of ps j < prio_of ps i.
  Proof.
    intros Hm H Hi Hj Hne Hp [x0 A0] Hsub [x1 [A1 N1]].
    assert (Common : exists x, applies i x /\ applies j x) by (exists x0; auto).
    assert (Fin : forall a b, (a = i /\ b = j) \/ (a = j /\ b = i) -> specializes a b = true ->
                  spec_edge n positive disjoint specializes a b -> prio_of ps j < prio_of ps i).
    { intros a b [[-> ->]|[-> ->]] Sp SE.
      - exfalso. apply N1. apply (specializes_sound i j Sp x1 A1).
      - destruct (priorities_strict n marker positive disjoint specializes ps j i Hm H SE) as [p [q [Hp' [Hq Hlt]]]].
        unfold prio_of. now rewrite Hp', Hq. }
    destruct (Nat.lt_ge_cases i j) as [Hlt|Hge].
    - destruct (related_pair ps i j Hm H Hlt Hj Hp Common) as [a [b E]].
      destruct (step_edge _ _ _ _ E) as [Sp Hab].
      apply (Fin a b); [tauto | assumption | exists i, j; auto].
    - assert (Hlt : j < i) by lia.
      destruct (related_pair ps j i Hm H Hlt Hi) as [a [b E]]; [tauto | destruct Common as [x [? ?]]; eauto |].
      destruct (step_edge _ _ _ _ E) as [Sp Hab].
      apply (Fin a b); [tauto | assumption | exists j, i; auto].
  Qed.
End Semantics.

(* ------------------------------------------------------------------------------------- *)
(* The model on matrices given as data (what the correspondence run evaluates)             *)
(* ------------------------------------------------------------------------------------- *)

Record input := mkInput {
  in_marker : bool;
  in_positive : list bool;          (* length = number of impls *)
  in_disjoint : list (list bool);   (* entry (l, r) read only for l < r *)
  in_specializes : list (list bool) (* entry (a, b) = specializes(less = a, more = b) *)
}.

Definition mat (m : list (list bool)) (i j : nat) : bool := nth j (nth i m []) false.

Definition run_data (x : input) : outcome :=
  run (length (in_positive x)) (in_marker x) (fun i => nth i (in_positive x) true)
      (mat (in_disjoint x)) (mat (in_specializes x)).

Definition run_orig_data (x : input) : outcome :=
  run_orig (length (in_positive x)) (in_marker x) (fun i => nth i (in_positive x) true)
      (mat (in_disjoint x)) (mat (in_specializes x)) (S (length (in_positive x))).

(* ------------------------------------------------------------------------------------- *)
(* Witnesses                                                                              *)
(* ------------------------------------------------------------------------------------- *)

(* impl<T> Foo for T {}   impl<T> Foo for Vec<T> {}   impl Foo for Vec<I32> {}
   (the matrices are the ones the real CoherenceSolver computes for this program) *)
Definition chain3 : input :=
  mkInput false [true; true; true]
          [[false; false; false]; [false; false; false]; [false; false; false]]
          [[false; true; true]; [false; false; true]; [false; false; false]].

(* F2: the original assignment reaches impl 2 twice (0 -> 2 and 0 -> 1 -> 2) *)
Theorem priorities_refuted : exists x, run_orig_data x = Panic InsertTwice.
Proof. exists chain3. vm_compute. reflexivity. Qed.

Example chain3_repaired : run_data chain3 = Accepted [(0, 0); (1, 1); (2, 2)].
Proof. vm_compute. reflexivity. Qed.

(* non-vacuity of the hypotheses of priorities_strict / equal_priority_disjoint *)
Example priorities_strict_nonvacuous :
  let x := chain3 in
  let n := length (in_positive x) in
  in_marker x = false /\ run_data x = Accepted [(0, 0); (1, 1); (2, 2)] /\
  spec_edge n (fun i => nth i (in_positive x) true) (mat (in_disjoint x)) (mat (in_specializes x)) 0 2.
Proof.
  split; [reflexivity|]. split; [vm_compute; reflexivity|].
  exists 0, 2. repeat split; try (simpl; lia).
Qed.

(* two unrelated impls and a specialization of one of them: equal priorities 0, 0 (impl 2
   has no entry) and the pair is disjoint *)
Definition unrelated3 : input :=
  mkInput false [true; true; true]
          [[false; false; true]; [false; false; true]; [false; false; false]]
          [[false; true; false]; [false; false; false]; [false; false; false]].

Example equal_priority_disjoint_nonvacuous :
  run_data unrelated3 = Accepted [(0, 0); (1, 1)] /\
  prio_of [(0, 0); (1, 1)] 0 = prio_of [(0, 0); (1, 1)] 2 /\ mat (in_disjoint unrelated3) 0 2 = true.
Proof. vm_compute. repeat split; reflexivity. Qed.

(* a cyclic specialization relation is rejected, not a panic *)
Definition cycle3 : input :=
  mkInput false [true; true; true]
          [[false; false; false]; [false; false; false]; [false; false; false]]
          [[false; true; false]; [false; false; true]; [true; false; false]].

Example cycle3_rejected : run_data cycle3 = Overlap.
Proof. vm_compute. reflexivity. Qed.

(* a diamond 0 -> 1, 0 -> 2, 1 -> 3, 2 -> 3, 0 -> 3 with 1, 2 disjoint *)
Definition diamond4 : input :=
  mkInput false [true; true; true; true]
          [[false; false; false; false]; [false; false; true; false]; [false; false; false; false]; [false; false; false; false]]
          [[false; true; true; true]; [false; false; false; true]; [false; false; false; true]; [false; false; false; false]].

Example diamond4_repaired : run_data diamond4 = Accepted [(0, 0); (1, 1); (2, 1); (3, 2)].
Proof. vm_compute. reflexivity. Qed.

Example diamond4_orig_panics : run_orig_data diamond4 = Panic InsertTwice.
Proof. vm_compute. reflexivity. Qed.

(* non-vacuity of the hypotheses of the two semantic theorems: the chain of three impls with
   trait references 0 = I32, 1 = Vec<Vec<I32>>-like (only impls 0, 1), 2 = Vec<I32> (all three) *)
Definition chain3_applies (i x : nat) : Prop :=
  match i with 0 => True | 1 => x = 1 \/ x = 2 | _ => x = 2 end.

Example semantics_nonvacuous :
  let d := mat (in_disjoint chain3) in
  let s := mat (in_specializes chain3) in
  (forall l r, d l r = true -> forall y, chain3_applies l y -> chain3_applies r y -> False) /\
  (forall a b, s a b = true -> forall y, chain3_applies b y -> chain3_applies a y) /\
  (exists y, chain3_applies 1 y) /\
  (forall y, chain3_applies 1 y -> chain3_applies 0 y) /\
  (exists y, chain3_applies 0 y /\ ~ chain3_applies 1 y) /\
  prio_of [(0, 0); (1, 1); (2, 2)] 0 < prio_of [(0, 0); (1, 1); (2, 2)] 1.
Proof.
  cbv zeta. split; [|split; [|split; [|split; [|split]]]].
  - intros l r H. exfalso.
    destruct l as [|[|[|[|l]]]]; destruct r as [|[|[|[|r]]]]; simpl in H; discriminate.
  - intros a b H y Hb.
    destruct a as [|[|[|[|a]]]]; destruct b as [|[|[|[|b]]]]; simpl in H; try discriminate; simpl in *; auto.
  - exists 1. simpl. auto.
  - intros y _. exact I.
  - exists 0. simpl. split; [exact I | intros [H|H]; discriminate].
  - vm_compute. auto.
Qed.
