(** * Engine.RecFuelAcyclic — the explicit fuel bound, proved for acyclic and-or graphs.

    On an acyclic graph no goal is ever found on the stack, so no cycle flag is ever raised and
    every fixed-point loop ends after its first iteration; the depth of the stack is bounded by
    the overflow depth and by the number of goals.  (For graphs with cycles the missing lemma is
    the bound on the iterations of the loop, see [RecFuel].) *)

From Chalk Require Export Engine.RecFuel.

Definition acyclic (G : graph) : Prop := forall a b, edge G a b -> ~ path G b a.

Lemma path_trans' G a b c : path G a b -> path G b c -> path G a c.
Proof. induction 1; auto. intros. eapply path_step; eauto. Qed.

Lemma acyclic_no_mixed G : acyclic G -> ~ mixed_cycle G.
Proof.
  intros H [a [b [Ha [Hb [P1 P2]]]]]. inversion P1 as [x|x y z He P]; subst.
  - congruence.
  - apply (H a y He). eapply path_trans'; eauto.
Qed.

Definition AllClear (s : state) : Prop := forall i e, nth_error (stack s) i = Some e -> se_cycle e = false.

Definition nf_post {A} (r : res A) : Prop :=
  match r with OutOfFuel => False | Done _ s' => AllClear s' | Panic _ _ => True end.

Section Acyclic.
  Variable G : graph.
  Variable cf : config.
  Hypothesis Hwf : wf G.
  Hypothesis Hac : acyclic G.
  Hypothesis Hvr : vr cf = repaired.

  Let Hnm : ~ mixed_cycle G := acyclic_no_mixed G Hac.
  Let D := Nat.min (overflow cf) (length G).

  (** ** the stack is never deeper than the number of goals *)
  Lemma depth_goals s : WF G s -> forall k, k <= length (stack s) ->
    exists l, length l = k /\ NoDup l /\
      forall x, In x l -> x < length G /\ exists d nd i, i < k /\ nodeat s d nd /\ gn_depth nd = Some i /\ gn_goal nd = x.
  Proof.
    intros W k. induction k as [|k IH]; intros Hk.
    - exists []. split; [reflexivity|]. split; [constructor|intros x []].
    - destruct IH as [l [Hl [Hn Hx]]]; [lia|].
      destruct (wf_surj _ _ W k) as [d [nd [Hnd Hd]]]; [lia|].
      exists (gn_goal nd :: l). split; [simpl; lia|]. split.
      + constructor; auto. intros Hin. destruct (Hx _ Hin) as [_ [d' [nd' [i [Hi [Hn' [Hd' Hg']]]]]]].
        assert (d' = d) by (eapply wf_nodup; eauto). subst d'.
        unfold nodeat in *. assert (nd' = nd) by congruence. subst nd'. assert (i = k) by congruence. lia.
      + intros x [<-|Hin].
        * split; [eapply wf_goal; eauto|]. exists d, nd, k. repeat split; auto.
        * destruct (Hx _ Hin) as [A [d' [nd' [i [Hi B]]]]]. split; auto. exists d', nd', i. split; [lia|auto].
  Qed.

  Lemma stack_le_G s : WF G s -> length (stack s) <= length G.
  Proof.
    intros W. destruct (depth_goals s W (length (stack s)) (le_n _)) as [l [Hl [Hn Hx]]].
    assert (Hincl : incl l (seq 0 (length G))) by (intros x Hin; apply in_seq; destruct (Hx x Hin); lia).
    pose proof (NoDup_incl_length Hn Hincl) as H. rewrite seq_length in H. lia.
  Qed.

  (** ** no goal is found on the stack *)
  Lemma no_onstack_hit s t g dfn nd d :
    WF G s -> Ctx G s t g -> nodeat s dfn nd -> gn_goal nd = g -> gn_depth nd = Some d -> False.
  Proof.
    intros W C Hn Hg Hd. destruct C as [[_ C]|[[dt [ndt [T1 [T2 [T3 T4]]]]] He]].
    - unfold nodeat in Hn. rewrite C in Hn. destruct dfn; discriminate.
    - apply (Hac t g He). subst t g. eapply (wf_top _ _ W dfn nd dt ndt); eauto.
  Qed.

  Lemma AllClear_eq s s' : stack s' = stack s -> AllClear s -> AllClear s'.
  Proof. intros H A i e Hi. rewrite H in Hi. eauto. Qed.

  (** ** clause evaluation *)
  Section WithFuel.
    Variable f : nat.
    Variable L : nat.
    (** [solve_goal] at fuel [f] from any state whose stack has [L] entries *)
    Hypothesis Hnf : forall g m s t, WF G s -> SI G s -> g < length G -> Ctx G s t g -> AllClear s ->
                       length (stack s) = L -> nf_post (solve_goal G cf f g m s).

    Let sg := solve_goal G cf f.
    Let Hsg : forall g m s t, WF G s -> SI G s -> g < length G -> topgoal s t -> edge G t g ->
                sg_post G cf t g m s (sg g m s).
    Proof. intros g m s t W S Hg T He. apply (proj1 (specs G cf Hwf Hnm Hvr f)); auto. right. auto. Qed.

    Lemma eval_subs_nf t l : forall amb m s,
      WF G s -> SI G s -> topgoal s t -> (forall x, In x l -> edge G t x /\ x < length G) ->
      AllClear s -> length (stack s) = L -> nf_post (eval_subs sg l amb m s).
    Proof.
      induction l as [|x r IH]; intros amb m s W S T Hl A HL; simpl; auto.
      destruct (Hl x (or_introl eq_refl)) as [He Hx].
      pose proof (Hsg x m s t W S Hx T He) as H1.
      pose proof (Hnf x m s t W S Hx (or_intror (conj T He)) A HL) as H2.
      fold sg in H2. destruct (sg x m s) as [[v m'] s'| |]; simpl in *; auto.
      destruct H1 as [F _].
      assert (T' : topgoal s' t) by (eapply topgoal_ext; eauto; apply (fr_ext _ _ _ _ _ _ _ F)).
      assert (HL' : length (stack s') = L) by (rewrite (ext_len _ _ (fr_ext _ _ _ _ _ _ _ F)); auto).
      assert (Hr : forall y, In y r -> edge G t y /\ y < length G) by (intros y Hy; apply Hl; right; auto).
      destruct v; simpl; auto; apply IH; auto;
        try apply (fr_wf _ _ _ _ _ _ _ F); try apply (fr_si _ _ _ _ _ _ _ F).
    Qed.

    Lemma eval_clauses_nf t cs : forall cur m s,
      WF G s -> SI G s -> topgoal s t ->
      (forall c x, In c cs -> In x (fst c) -> edge G t x /\ x < length G) ->
      AllClear s -> length (stack s) = L -> nf_post (eval_clauses sg cs cur m s).
    Proof.
      induction cs as [|c r IH]; intros cur m s W S T Hcs A HL; simpl; auto.
      assert (Hc : forall x, In x (fst c) -> edge G t x /\ x < length G) by (intros x Hx; eapply Hcs; eauto; left; auto).
      pose proof (eval_subs_spec G cf sg Hsg t (fst c) (snd c) m s W S T Hc) as H1.
      pose proof (eval_subs_nf t (fst c) (snd c) m s W S T Hc A HL) as H2.
      destruct (eval_subs sg (fst c) (snd c) m s) as [[v m'] s'| |]; simpl in *; auto.
      destruct H1 as [F _].
      assert (T' : topgoal s' t) by (eapply topgoal_ext; eauto; apply (fr_ext _ _ _ _ _ _ _ F)).
      assert (HL' : length (stack s') = L) by (rewrite (ext_len _ _ (fr_ext _ _ _ _ _ _ _ F)); auto).
      assert (Hr : forall c' x, In c' r -> In x (fst c') -> edge G t x /\ x < length G)
        by (intros c' x H3 H4; eapply Hcs; eauto; right; auto).
      destruct (combine cur v) as [[| |]|]; simpl; auto; apply IH; auto;
        try apply (fr_wf _ _ _ _ _ _ _ F); try apply (fr_si _ _ _ _ _ _ _ F).
    Qed.

    Lemma solve_iteration_nf g s :
      WF G s -> SI G s -> g < length G -> topgoal s g -> AllClear s -> length (stack s) = L ->
      nf_post (solve_iteration G cf sg g s).
    Proof.
      intros W S Hg T A HL. unfold solve_iteration.
      destruct (tick_cases cf (bump_iters s)) as [Et|Et]; rewrite Et; simpl bind; [exact I|].
      unfold ask_continue. simpl. destruct (sc cf (sci s)); simpl.
      - assert (Hcs : forall c x, In c (clauses (get G g)) -> In x (fst c) -> edge G g x /\ x < length G).
        { intros c x Hc Hx. split; [unfold edge, succs; apply in_flat_map; exists c; auto|]. eapply Hwf; eauto. }
        apply eval_clauses_nf with (t := g); auto.
        all: try (eapply WF_eq; [| |exact W]; reflexivity).
        all: try (eapply SI_core; [exact W| |exact S]; repeat split; auto).
        all: try (destruct T as [dt [ndt [T1 [T2 [T3 T4]]]]]; exists dt, ndt; auto).
      - exact A.
    Qed.
  End WithFuel.

  (** ** the end of a visit never runs out of fuel and raises no flag *)
  Lemma finish_node_nf m depth dfn sm s1 : AllClear s1 -> nf_post (finish_node cf m depth dfn sm s1).
  Proof.
    intros A. rewrite finish_node_eq.
    destruct (negb (S depth =? length (stack s1))); [exact I|]. cbv zeta.
    assert (A2 : AllClear (popnode s1 dfn sm)).
    { intros i e Hi. unfold popnode in Hi. simpl in Hi.
      destruct (le_lt_dec (length (stack s1) - 1) i) as [Hge|Hlt].
      - assert (Hn : nth_error (removelast (stack s1)) i = None) by (apply nth_error_None; rewrite removelast_length; lia).
        congruence.
      - rewrite nth_error_removelast in Hi by lia. eauto. }
    destruct (nth_error (sgraph (popnode s1 dfn sm)) dfn); [|exact I].
    destruct (mn_geb sm dfn); [|exact A2].
    destruct (caching cf && negb (fix_f3 (vr cf) && interrupted (popnode s1 dfn sm))).
    - unfold move_to_cache. destruct (forallb (move_ok dfn) (skipn dfn (sgraph (popnode s1 dfn sm)))); simpl; [|exact I].
      eapply AllClear_eq; [|exact A2]. reflexivity.
    - eapply AllClear_eq; [|exact A2]. reflexivity.
  Qed.

  (** ** the two functions, by induction on the fuel *)
  Definition NFspec (f : nat) : Prop := forall g m s t,
    WF G s -> SI G s -> g < length G -> Ctx G s t g -> AllClear s ->
    2 * (D - length (stack s)) + 1 <= f -> nf_post (solve_goal G cf f g m s).

  Definition NLspec (f : nat) : Prop := forall s0 s g depth dfn,
    loop_in G cf s0 s g depth dfn -> AllClear s -> length (stack s) <= D ->
    2 * (D - length (stack s)) + 2 <= f -> nf_post (solve_new_subgoal G cf f g depth dfn s).

  Theorem nf_specs f : NFspec f /\ NLspec f.
  Proof.
    induction f as [|f [IHg IHl]].
    - split; intros; intro; intros; lia.
    - split.
      + intros g m s t W Sx Hg C A Hf. rewrite solve_goal_S. cbv zeta.
        set (s1 := bump_work s).
        assert (W1 : WF G s1) by (eapply WF_eq; [| |exact W]; reflexivity).
        assert (C1c : same_core s s1) by (repeat split; auto).
        assert (S1 : SI G s1) by (exact (SI_core G s s1 W C1c Sx)).
        assert (Cx : Ctx G s1 t g) by (exact (Ctx_core G s s1 t g C1c C)).
        destruct (if caching cf then cache_get (cache s1) g else None); [exact A|].
        destruct (glookup (sgraph s1) g) as [dfn|] eqn:Elook.
        * destruct (glookup_some _ _ _ Elook) as [nd [Hn Hgn]].
          unfold found_node. unfold nodeat in Hn. rewrite Hn.
          destruct (gn_depth nd) as [d|] eqn:Ed; [|exact A].
          exfalso. eapply (no_onstack_hit s1 t g dfn nd d); eauto.
        * unfold new_node.
          destruct (tick_cases cf s1) as [Et|Et]; rewrite Et; simpl bind; [exact I|].
          destruct (tick_cases cf (bump_ticks s1)) as [Et2|Et2]; rewrite Et2; simpl bind; [exact I|].
          set (s3 := bump_ticks (bump_ticks s1)).
          change (stack s) with (stack s3). change (sgraph s) with (sgraph s3).
          assert (W3 : WF G s3) by (eapply WF_eq; [| |exact W]; reflexivity).
          assert (C3c : same_core s s3) by (repeat split; auto).
          assert (S3 : SI G s3) by (exact (SI_core G s s3 W C3c Sx)).
          assert (C3 : Ctx G s3 t g) by (exact (Ctx_core G s s3 t g C3c C)).
          destruct (overflow cf <=? length (stack s3)) eqn:Eov; [exact I|]. apply Nat.leb_gt in Eov.
          assert (WP : WF G (push_node G s3 g)) by (eapply WF_push; eauto).
          assert (HlenP : length (stack (push_node G s3 g)) = S (length (stack s3))).
          { rewrite stack_push, app_length. simpl. lia. }
          assert (HD : S (length (stack s3)) <= D).
          { pose proof (stack_le_G _ WP) as HG. rewrite HlenP in HG. unfold D. apply Nat.min_glb; lia. }
          assert (LI : loop_in G cf s3 (push_node G s3 g) g (length (stack s3)) (length (sgraph s3))).
          { constructor; auto.
            - apply sub_push.
            - apply SI_push; auto.
            - eexists. split; [apply nodeat_push_new|]. split; reflexivity.
            - unfold push_node. simpl. rewrite app_length. simpl. lia.
            - eexists. rewrite stack_push. split; [apply nth_error_snoc|reflexivity].
            - apply int_ok_eq; [apply le_n|reflexivity]. }
          assert (AP : AllClear (push_node G s3 g)).
          { intros i e Hi. rewrite stack_push in Hi. apply nth_error_snoc_inv in Hi.
            destruct Hi as [[_ Hi]|[_ ->]]; [eapply A; exact Hi|reflexivity]. }
          assert (Hfl : 2 * (D - length (stack (push_node G s3 g))) + 2 <= f).
          { rewrite HlenP. change (stack s3) with (stack s) in *. lia. }
          pose proof (IHl _ _ _ _ _ LI AP ltac:(rewrite HlenP; exact HD) Hfl) as HL.
          destruct (solve_new_subgoal G cf f g (length (stack s3)) (length (sgraph s3)) (push_node G s3 g))
            as [sm sL|p sL|]; simpl bind; simpl in HL; auto.
          apply finish_node_nf. exact HL.
      + intros s0 s g depth dfn LI A HD Hf. rewrite snsg_S.
        assert (Hnf : forall g' m s' t, WF G s' -> SI G s' -> g' < length G -> Ctx G s' t g' -> AllClear s' ->
                        length (stack s') = length (stack s) -> nf_post (solve_goal G cf f g' m s')).
        { intros g' m s' t W' S' Hg' C' A' HL'. apply (IHg g' m s' t W' S' Hg' C' A'). rewrite HL'. lia. }
        pose proof (solve_iteration_nf f (length (stack s)) Hnf g s (li_wf _ _ _ _ _ _ _ LI) (li_si _ _ _ _ _ _ _ LI)
                      (li_g _ _ _ _ _ _ _ LI) (loop_in_top _ _ _ _ _ _ _ LI) A eq_refl) as H2.
        destruct (solve_iteration G cf (solve_goal G cf f) g s) as [[v m] sa|p sa|]; simpl bind; simpl in H2; auto.
        unfold loop_step.
        destruct (nth_error (stack sa) depth) as [e|] eqn:He; [|exact I].
        destruct (nth_error (sgraph sa) dfn); [|exact I].
        rewrite (H2 depth e He). simpl.
        intros i e' Hi. simpl in Hi. apply upd_nth_inv in Hi.
        destruct Hi as [x [Hx [[_ ->]|[_ ->]]]]; [eapply H2; eauto|reflexivity].
  Qed.

  (** [rec_fuel_bound] for acyclic graphs *)
  Theorem rec_fuel_bound_acyclic_lemma g s :
    g < length G -> cache_exact G s -> solve_root G cf (fuel_bound G cf) g s <> OutOfFuel.
  Proof.
    intros Hg Hc. unfold solve_root. rewrite Hvr. simpl fix_f4. cbv iota. simpl bind.
    set (s1 := set_interrupted (set_graph (set_stack s []) []) false).
    assert (W1 : WF G s1) by (apply WF_empty; reflexivity).
    assert (S1 : SI G s1) by (apply SI_empty; [reflexivity|exact Hc]).
    assert (C1 : Ctx G s1 0 g) by (left; split; reflexivity).
    assert (A1 : AllClear s1) by (intros i e Hi; destruct i; discriminate).
    assert (Hf : 2 * (D - length (stack s1)) + 1 <= fuel_bound G cf).
    { unfold fuel_bound. fold D. simpl. lia. }
    pose proof (proj1 (nf_specs (fuel_bound G cf)) g None s1 0 W1 S1 Hg C1 A1 Hf) as H.
    destruct (solve_goal G cf (fuel_bound G cf) g None s1) as [[v m] s'|p s'|]; simpl in *; [discriminate|discriminate|contradiction].
  Qed.
End Acyclic.
