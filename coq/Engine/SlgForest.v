(** * Engine.SlgForest — the forest of SLG tables across root calls (table layer).

    [chalk-engine/src/forest.rs] keeps ONE [Tables] value for the lifetime of a solver; every
    root call ([Forest::iter_answers] / [root_answer]) only ever
      - creates tables ([get_or_create_table_for_ucanonical_goal], [Tables::insert]: appended),
      - pushes answers into tables ([Table::push_answer], model: [SlgTable.push_answer]),
      - marks tables as floundered ([Table::mark_floundered], which drops the stored answers).
    Whatever the strands do during a root call -- including an unwinding panic after any prefix
    of these operations -- is abstracted into a list of such operations; a history of root
    calls is a list of such lists.  The theorems quantify over ALL of them.

    This is the table layer only: it says that what an earlier root call has stored is still
    there (same table index, same answer index) for every later root call on the same solver;
    it does not model strands, so it does not say which answers are found (F7 lives there). *)

From Chalk Require Export Engine.SlgTable.

Definition forest := list table.

Inductive fop : Type :=
| FNew                          (* a new table is appended *)
| FPush (i : nat) (a : tans)    (* push_answer on table i *)
| FFlounder (i : nat).          (* mark_floundered on table i *)

Fixpoint fupd (F : forest) (i : nat) (t : table) : forest :=
  match F, i with
  | [], _ => []
  | _ :: r, 0 => t :: r
  | x :: r, S i => x :: fupd r i t
  end.

(** one operation; [PanicR] leaves the forest as it is (the panic unwinds to the caller) *)
Definition apply_fop (F : forest) (o : fop) : pr forest :=
  match o with
  | FNew => OkR (F ++ [empty_table])
  | FPush i a =>
      match nth_error F i with
      | None => PanicR 6
      | Some t => match push_answer t a with
                  | PanicR c => PanicR c
                  | OkR (t', _) => OkR (fupd F i t')
                  end
      end
  | FFlounder i =>
      match nth_error F i with
      | None => PanicR 6
      | Some t => OkR (fupd F i (mark_floundered t))
      end
  end.

(** a root call: operations until the first panic *)
Fixpoint run_fops (F : forest) (ops : list fop) : forest :=
  match ops with
  | [] => F
  | o :: r => match apply_fop F o with
              | OkR F' => run_fops F' r
              | PanicR _ => F
              end
  end.

(** a history of root calls on one solver *)
Definition run_history (F : forest) (h : list (list fop)) : forest := fold_left run_fops h F.

(** ** what persists *)
Definition tmono (t t' : table) : Prop :=
  (t_floundered t = true -> t_floundered t' = true) /\
  (t_floundered t' = false -> exists ext, t_answers t' = t_answers t ++ ext) /\
  (forall k, hget k (t_hash t) <> None -> hget k (t_hash t') <> None).

Definition fmono (F F' : forest) : Prop :=
  length F <= length F' /\
  forall i t, nth_error F i = Some t -> exists t', nth_error F' i = Some t' /\ tmono t t'.

Definition forest_ok (F : forest) : Prop := forall i t, nth_error F i = Some t -> tbl_ok t.

Lemma tmono_refl t : tmono t t.
Proof. split; auto. split; auto. intros _. exists []. now rewrite app_nil_r. Qed.

Lemma tmono_trans a b c : tmono a b -> tmono b c -> tmono a c.
Proof.
  intros [A1 [A2 A3]] [B1 [B2 B3]]. split; [auto|]. split; [|auto].
  intros Hc. destruct (B2 Hc) as [e2 E2].
  destruct (t_floundered b) eqn:Eb.
  - rewrite (B1 eq_refl) in Hc. discriminate.
  - destruct (A2 eq_refl) as [e1 E1]. exists (e1 ++ e2). rewrite E2, E1. now rewrite app_assoc.
Qed.

Lemma fmono_refl F : fmono F F.
Proof. split; auto. intros i t H. exists t. split; auto. apply tmono_refl. Qed.

Lemma fmono_trans A B C : fmono A B -> fmono B C -> fmono A C.
Proof.
  intros [L1 H1] [L2 H2]. split; [lia|]. intros i t Hi.
  destruct (H1 i t Hi) as [t1 [Hi1 M1]]. destruct (H2 i t1 Hi1) as [t2 [Hi2 M2]].
  exists t2. split; auto. eapply tmono_trans; eauto.
Qed.

Lemma fupd_length F i t : length (fupd F i t) = length F.
Proof. revert i. induction F; intros [|i]; simpl; auto. Qed.

Lemma fupd_same F i t x : nth_error F i = Some x -> nth_error (fupd F i t) i = Some t.
Proof. revert i. induction F; intros [|i]; simpl; intros H; try discriminate; auto. Qed.

Lemma fupd_other F i j t : i <> j -> nth_error (fupd F i t) j = nth_error F j.
Proof. revert i j. induction F; intros [|i] [|j] H; simpl; auto; congruence. Qed.

Lemma fupd_mono F i t t' : nth_error F i = Some t -> tmono t t' -> fmono F (fupd F i t').
Proof.
  intros Hi M. split; [rewrite fupd_length; auto|]. intros j x Hj.
  destruct (Nat.eq_dec i j) as [<-|Hne].
  - exists t'. split; [eapply fupd_same; eauto|]. congruence.
  - exists x. split; [rewrite fupd_other; auto|apply tmono_refl].
Qed.

Lemma push_tmono t a t' o : push_answer t a = OkR (t', o) -> tmono t t'.
Proof.
  unfold push_answer. destruct (t_floundered t) eqn:Ef; [discriminate|].
  destruct (hget (ta_key a) (t_hash t)) as [was|] eqn:Eh.
  - destruct (was && negb (ta_amb a)); [discriminate|]. intros H. inversion H; subst. apply tmono_refl.
  - intros H. inversion H; subst. clear H. split; [congruence|]. split.
    + intros _. exists [a]. reflexivity.
    + intros k Hk. cbn [t_hash hget]. destruct (key_eqb k (ta_key a)); [discriminate|exact Hk].
Qed.

Lemma flounder_tmono t : tmono t (mark_floundered t).
Proof. split; [reflexivity|]. split; [discriminate|auto]. Qed.

Lemma apply_fop_mono F o F' : apply_fop F o = OkR F' -> fmono F F'.
Proof.
  destruct o as [|i a|i]; simpl.
  - intros H. inversion H; subst. split; [rewrite app_length; lia|].
    intros i t Hi. exists t. split; [|apply tmono_refl]. rewrite nth_error_app1; auto.
    apply nth_error_Some. congruence.
  - destruct (nth_error F i) as [t|] eqn:Ei; [|discriminate].
    destruct (push_answer t a) as [[t' o]|c] eqn:Ep; [|discriminate].
    intros H. inversion H; subst. eapply fupd_mono; eauto. eapply push_tmono; eauto.
  - destruct (nth_error F i) as [t|] eqn:Ei; [|discriminate].
    intros H. inversion H; subst. eapply fupd_mono; eauto. apply flounder_tmono.
Qed.

Lemma apply_fop_ok F o F' : forest_ok F -> apply_fop F o = OkR F' -> forest_ok F'.
Proof.
  intros Hok. destruct o as [|i a|i]; simpl.
  - intros H. inversion H; subst. intros j t Hj.
    destruct (lt_dec j (length F)) as [Hl|Hg].
    + rewrite nth_error_app1 in Hj by auto. eauto.
    + rewrite nth_error_app2 in Hj by lia. destruct (j - length F) as [|[|k]]; simpl in Hj; try discriminate.
      inversion Hj; subst. apply tbl_ok_empty.
  - destruct (nth_error F i) as [t|] eqn:Ei; [|discriminate].
    destruct (push_answer t a) as [[t' o]|c] eqn:Ep; [|discriminate].
    intros H. inversion H; subst. intros j x Hj.
    destruct (Nat.eq_dec i j) as [<-|Hne].
    + rewrite (fupd_same _ _ _ _ Ei) in Hj. inversion Hj; subst.
      apply (push_answer_ok t a x o (Hok i t Ei) Ep).
    + rewrite fupd_other in Hj by auto. eauto.
  - destruct (nth_error F i) as [t|] eqn:Ei; [|discriminate].
    intros H. inversion H; subst. intros j x Hj.
    destruct (Nat.eq_dec i j) as [<-|Hne].
    + rewrite (fupd_same _ _ _ _ Ei) in Hj. inversion Hj; subst. apply mark_floundered_ok.
    + rewrite fupd_other in Hj by auto. eauto.
Qed.

Lemma run_fops_mono ops : forall F, fmono F (run_fops F ops).
Proof.
  induction ops as [|o r IH]; intros F; simpl; [apply fmono_refl|].
  destruct (apply_fop F o) as [F'|c] eqn:E; [|apply fmono_refl].
  eapply fmono_trans; [eapply apply_fop_mono; eauto|apply IH].
Qed.

Lemma run_fops_ok ops : forall F, forest_ok F -> forest_ok (run_fops F ops).
Proof.
  induction ops as [|o r IH]; intros F Hok; simpl; auto.
  destruct (apply_fop F o) as [F'|c] eqn:E; auto. apply IH. eapply apply_fop_ok; eauto.
Qed.

(** [slg_tables_monotone]: across ANY history of root calls (whatever the strands do, panics
    included) the forest only grows; no table disappears or changes its index; a floundered
    table stays floundered; the stored answers of a table that is not floundered afterwards
    are an extension of what was stored before (same answer indices); duplicate-detection
    keys are never forgotten; every table keeps its invariant [tbl_ok] (no duplicate keys). *)
Theorem slg_tables_monotone_lemma h : forall F,
  forest_ok F -> fmono F (run_history F h) /\ forest_ok (run_history F h).
Proof.
  unfold run_history. induction h as [|ops r IH]; intros F Hok; simpl; [split; [apply fmono_refl|auto]|].
  destruct (IH (run_fops F ops) (run_fops_ok ops F Hok)) as [M O]. split; auto.
  eapply fmono_trans; [apply run_fops_mono|exact M].
Qed.

(** completed answers persist: an answer stored at index [j] of table [i] is still the answer
    at index [j] of table [i] after any history, unless the table floundered meanwhile *)
Corollary slg_answer_persists_lemma F h i t j a :
  forest_ok F -> nth_error F i = Some t -> nth_error (t_answers t) j = Some a ->
  exists t', nth_error (run_history F h) i = Some t' /\
             (t_floundered t' = false -> nth_error (t_answers t') j = Some a).
Proof.
  intros Hok Hi Hj. destruct (slg_tables_monotone_lemma h F Hok) as [[_ M] _].
  destruct (M i t Hi) as [t' [Hi' [_ [Hext _]]]]. exists t'. split; auto.
  intros Hf. destruct (Hext Hf) as [ext E]. rewrite E. rewrite nth_error_app1; auto.
  apply nth_error_Some. congruence.
Qed.

(** non-vacuity: a history of two root calls, the second one panicking half way *)
Example slg_forest_nonvacuous :
  let a := mkAns (mkKey [] [] []) false in
  let F := run_history [] [[FNew; FPush 0 a]; [FNew; FPush 0 a; FPush 7 a; FFlounder 1]] in
  length F = 2 /\ option_map (fun t => length (t_answers t)) (nth_error F 0) = Some 1.
Proof. split; reflexivity. Qed.
