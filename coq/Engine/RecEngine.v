(** * Engine.RecEngine — mechanism model of [chalk-recursive/src/fixed_point.rs]

    [RecursiveContext<K, V>] with [K = nat] (a node of an and-or graph) and [V = val]:
    the stack ([fixed_point/stack.rs]), the search graph ([search_graph.rs]: nodes in
    depth-first order, [links] minimums, [stack_depth]), the cache ([cache.rs]) and the
    functions [solve_root_goal], [solve_goal], [solve_new_subgoal].  The solver specific part
    ([SolverStuff]) is instantiated for the propositional case: [solve_iteration] evaluates the
    clauses of a node like [solve_from_clauses]/[Fulfill] do for a ground goal (subgoals in
    order, a failing subgoal ends the clause, an ambiguous one makes the clause ambiguous;
    clause results are joined like [Solution::combine] does for ground answers: a [Yes] wins
    and ends the loop, otherwise any [Amb] gives [Amb]).

    Everything the engine calls back into is a numbered *callback point* ([tick]): a panic can
    be injected at each of them ([pn]); [should_continue] is a boolean stream [sc] indexed by
    its own invocation count.  Functions run on fuel; [OutOfFuel] is an explicit outcome.

    The three repairs made to the real code are switches of the model ([variant]), so that the
    same definitions describe the unchanged code (all [false]: the [..._refuted] witnesses) and
    the repaired code (all [true]: the theorems). *)

From Chalk Require Export Engine.AndOr.

(** ** Configuration *)
Record variant := mkVariant {
  fix_f3 : bool;   (* do not promote to the cache after an interruption *)
  fix_f4 : bool;   (* a root solve discards what an unwound solve left behind *)
  fix_f15 : bool;  (* drop inner nodes when the loop ends by the ambiguity shortcut *)
}.
Definition unchanged : variant := mkVariant false false false.
Definition repaired : variant := mkVariant true true true.

Record config := mkConfig {
  vr : variant;
  overflow : nat;          (* overflow_depth *)
  caching : bool;          (* cache: Option<Cache> is Some *)
  sc : nat -> bool;        (* should_continue, by invocation index *)
  pn : nat -> bool;        (* panic injected at callback point number i *)
}.

(** ** State *)
Record sentry := mkSentry { se_coind : bool; se_cycle : bool }.

(** [DepthFirstNumber]; [None] is [DepthFirstNumber::MAX] *)
Definition mn := option nat.
Definition mn_min (a b : mn) : mn :=
  match a, b with
  | None, x | x, None => x
  | Some x, Some y => Some (Nat.min x y)
  end.
(** [minimums.positive >= dfn] *)
Definition mn_geb (a : mn) (d : nat) : bool :=
  match a with None => true | Some x => d <=? x end.

Record gnode := mkGnode { gn_goal : nat; gn_sol : val; gn_depth : option nat; gn_links : mn }.

Record state := mkState {
  stack : list sentry;            (* bottom first; [StackDepth] = position *)
  sgraph : list gnode;            (* [DepthFirstNumber] = position *)
  cache : list (nat * val);       (* newest first; lookup takes the first match *)
  ticks : nat;                    (* callback points passed so far *)
  sci : nat;                      (* should_continue invocations so far *)
  interrupted : bool;             (* should_continue returned false during this root solve *)
  work : nat;                     (* H4: number of [solve_goal] calls *)
  iters : nat;                    (* number of [solve_iteration] calls *)
}.

Definition init_state : state := mkState [] [] [] 0 0 false 0 0.

Inductive site := Injected | StackNotEmpty | OverflowDepth | BadIndex | MismatchedPop | MoveAssert.

Inductive res (A : Type) :=
| Done (a : A) (s : state)
| Panic (p : site) (s : state)
| OutOfFuel.
Arguments Done {A}. Arguments Panic {A}. Arguments OutOfFuel {A}.

Definition bind {A B} (r : res A) (f : A -> state -> res B) : res B :=
  match r with Done a s => f a s | Panic p s => Panic p s | OutOfFuel => OutOfFuel end.

(** ** State updates *)
Definition set_stack s x := mkState x (sgraph s) (cache s) (ticks s) (sci s) (interrupted s) (work s) (iters s).
Definition set_graph s x := mkState (stack s) x (cache s) (ticks s) (sci s) (interrupted s) (work s) (iters s).
Definition set_cache s x := mkState (stack s) (sgraph s) x (ticks s) (sci s) (interrupted s) (work s) (iters s).
Definition set_interrupted s x := mkState (stack s) (sgraph s) (cache s) (ticks s) (sci s) x (work s) (iters s).
Definition bump_work s := mkState (stack s) (sgraph s) (cache s) (ticks s) (sci s) (interrupted s) (S (work s)) (iters s).
Definition bump_iters s := mkState (stack s) (sgraph s) (cache s) (ticks s) (sci s) (interrupted s) (work s) (S (iters s)).
Definition bump_ticks s := mkState (stack s) (sgraph s) (cache s) (S (ticks s)) (sci s) (interrupted s) (work s) (iters s).
Definition bump_sci s := mkState (stack s) (sgraph s) (cache s) (ticks s) (S (sci s)) (interrupted s) (work s) (iters s).

Fixpoint upd {A} (l : list A) (i : nat) (f : A -> A) : list A :=
  match l, i with
  | [], _ => []
  | x :: r, 0 => f x :: r
  | x :: r, S i => x :: upd r i f
  end.

Fixpoint cache_get (c : list (nat * val)) (g : nat) : option val :=
  match c with [] => None | (k, v) :: r => if Nat.eqb k g then Some v else cache_get r g end.

(** [SearchGraph::lookup]: goals in the graph are distinct ([insert] asserts it) *)
Fixpoint glookup_from (l : list gnode) (i : nat) (g : nat) : option nat :=
  match l with [] => None | n :: r => if Nat.eqb (gn_goal n) g then Some i else glookup_from r (S i) g end.
Definition glookup (l : list gnode) (g : nat) : option nat := glookup_from l 0 g.

(** [Stack::mixed_inductive_coinductive_cycle_from] *)
Definition mixed_from (st : list sentry) (d : nat) : bool :=
  let l := skipn d st in
  existsb se_coind l && existsb (fun e => negb (se_coind e)) l.

(** [SearchGraph::rollback_to] *)
Definition rollback_to (s : state) (dfn : nat) : state := set_graph s (firstn dfn (sgraph s)).

(** [SearchGraph::move_to_cache]: asserts on every moved node *)
Definition move_ok (dfn : nat) (n : gnode) : bool :=
  match gn_depth n with None => mn_geb (gn_links n) dfn | Some _ => false end.
Definition move_to_cache (s : state) (dfn : nat) : res unit :=
  let moved := skipn dfn (sgraph s) in
  if forallb (move_ok dfn) moved then
    Done tt (set_cache (set_graph s (firstn dfn (sgraph s)))
                       (fold_left (fun c n => (gn_goal n, gn_sol n) :: c) moved (cache s)))
  else Panic MoveAssert s.

Section Engine.
  Variable G : graph.
  Variable cf : config.

  (** a callback point: the place where an injected panic unwinds from *)
  Definition tick (s : state) : res unit :=
    if pn cf (ticks s) then Panic Injected (bump_ticks s) else Done tt (bump_ticks s).

  (** [should_continue()] as the engine sees it (after the repair of F3 the engine wraps the
      caller's callback and remembers a [false]) *)
  Definition ask_continue (s : state) : bool * state :=
    let c := sc cf (sci s) in
    let s := bump_sci s in
    (c, if c then s else set_interrupted s true).

  Definition combine (cur : option val) (v : val) : option val :=
    match v with
    | No => cur
    | Yes => Some Yes
    | Amb => match cur with Some Yes => Some Yes | _ => Some Amb end
    end.

  Section Iteration.
    (** [solve_goal] at the next lower fuel *)
    Variable sg : nat -> mn -> state -> res (val * mn).

    (** [Fulfill::fulfill] + [Fulfill::solve] for one clause of a ground goal *)
    Fixpoint eval_subs (l : list nat) (amb : bool) (m : mn) (s : state) : res (val * mn) :=
      match l with
      | [] => Done (if amb then Amb else Yes, m) s
      | g :: r =>
          bind (sg g m s) (fun vm s =>
            match fst vm with
            | No => Done (No, snd vm) s
            | Amb => eval_subs r true (snd vm) s
            | Yes => eval_subs r amb (snd vm) s
            end)
      end.

    (** the clause loop of [solve_from_clauses] *)
    Fixpoint eval_clauses (cs : list clause) (cur : option val) (m : mn) (s : state) : res (val * mn) :=
      match cs with
      | [] => Done (match cur with Some v => v | None => No end, m) s
      | c :: r =>
          bind (eval_subs (fst c) (snd c) m s) (fun vm s =>
            let cur' := combine cur (fst vm) in
            match cur' with
            | Some Yes => Done (Yes, snd vm) s
            | _ => eval_clauses r cur' (snd vm) s
            end)
      end.

    (** [SolverStuff::solve_iteration] *)
    Definition solve_iteration (g : nat) (s : state) : res (val * mn) :=
      bind (tick (bump_iters s)) (fun _ s =>
        let (c, s) := ask_continue s in
        if negb c then Done (Amb, None) s
        else eval_clauses (clauses (get G g)) None None s).
  End Iteration.

  Definition set_sol (s : state) (dfn : nat) (v : val) : state :=
    set_graph s (upd (sgraph s) dfn (fun n => mkGnode (gn_goal n) v (gn_depth n) (gn_links n))).

  Fixpoint solve_goal (fuel : nat) (g : nat) (m : mn) (s : state) {struct fuel} : res (val * mn) :=
    match fuel with
    | 0 => OutOfFuel
    | S f =>
      let s := bump_work s in
      match (if caching cf then cache_get (cache s) g else None) with
      | Some v => Done (v, m) s
      | None =>
        match glookup (sgraph s) g with
        | Some dfn =>
          match nth_error (sgraph s) dfn with
          | None => Panic BadIndex s
          | Some nd =>
            match gn_depth nd with
            | Some d =>
                if d <? length (stack s) then
                  let s := set_stack s (upd (stack s) d (fun e => mkSentry (se_coind e) true)) in
                  if mixed_from (stack s) d
                  then bind (tick s) (fun _ s => Done (No, m) s)          (* error_value *)
                  else Done (gn_sol nd, mn_min m (gn_links nd)) s
                else Panic BadIndex s
            | None => Done (gn_sol nd, mn_min m (gn_links nd)) s
            end
          end
        | None =>
          bind (tick s) (fun _ s =>                                          (* is_coinductive_goal *)
          let co := coind (get G g) in
          bind (tick s) (fun _ s =>                                          (* initial_value *)
          let init := if co then Yes else No in
          let depth := length (stack s) in
          if overflow cf <=? depth then Panic OverflowDepth s
          else
            let s := set_stack s (stack s ++ [mkSentry co false]) in
            let dfn := length (sgraph s) in
            let s := set_graph s (sgraph s ++ [mkGnode g init (Some depth) (Some dfn)]) in
            bind (solve_new_subgoal f g depth dfn s) (fun sub s =>
              let s := set_graph s (upd (sgraph s) dfn (fun n => mkGnode (gn_goal n) (gn_sol n) None sub)) in
              if negb (S depth =? length (stack s)) then Panic MismatchedPop s
              else
                let s := set_stack s (removelast (stack s)) in
                let m := mn_min m sub in
                match nth_error (sgraph s) dfn with
                | None => Panic BadIndex s
                | Some nd =>
                  let result := gn_sol nd in
                  if mn_geb sub dfn then
                    if caching cf && negb (fix_f3 (vr cf) && interrupted s)
                    then bind (move_to_cache s dfn) (fun _ s => Done (result, m) s)
                    else Done (result, m) (rollback_to s dfn)
                  else Done (result, m) s
                end)))
        end
      end
    end

  with solve_new_subgoal (fuel : nat) (g : nat) (depth dfn : nat) (s : state) {struct fuel} : res mn :=
    match fuel with
    | 0 => OutOfFuel
    | S f =>
      bind (solve_iteration (solve_goal f) g s) (fun vm s =>
        let (v, m) := vm in
        match nth_error (stack s) depth, nth_error (sgraph s) dfn with
        | Some e, Some nd =>
          let s := set_stack s (upd (stack s) depth (fun e => mkSentry (se_coind e) false)) in
          if negb (se_cycle e) then Done m (set_sol s dfn v)
          else
            let old := gn_sol nd in
            let s := set_sol s dfn v in
            bind (tick s) (fun _ s =>                                      (* reached_fixed_point *)
              if val_eqb old v then Done m s
              else if val_eqb v Amb then
                Done m (if fix_f15 (vr cf) then rollback_to s (S dfn) else s)
              else solve_new_subgoal f g depth dfn (rollback_to s (S dfn)))
        | _, _ => Panic BadIndex s
        end)
    end.

  (** [solve_root_goal] *)
  Definition solve_root (fuel : nat) (g : nat) (s : state) : res val :=
    let start :=
      if fix_f4 (vr cf) then Done tt (set_graph (set_stack s []) [])
      else if match stack s with [] => true | _ => false end then Done tt s
      else Panic StackNotEmpty s in
    bind start (fun _ s =>
      let s := set_interrupted s false in
      bind (solve_goal fuel g None s) (fun vm s => Done (fst vm) s)).

  (** ** Histories: a sequence of root calls on one context.  A panic unwinds to the caller
      ([catch_unwind]) and leaves the context as it was at the panic point. *)
  Inductive outcome := OVal (v : val) | OPanic (p : site) | OFuel.

  Definition step_root (fuel : nat) (g : nat) (s : state) : outcome * state :=
    match solve_root fuel g s with
    | Done v s' => (OVal v, s')
    | Panic p s' => (OPanic p, s')
    | OutOfFuel => (OFuel, s)
    end.

  Fixpoint run (fuel : nat) (h : list nat) (s : state) : list outcome * state :=
    match h with
    | [] => ([], s)
    | g :: r => let (o, s1) := step_root fuel g s in
                let (os, s2) := run fuel r s1 in (o :: os, s2)
    end.

  (** the answer to the last goal of a history *)
  Definition answer (fuel : nat) (h : list nat) (s : state) : option outcome :=
    last (map Some (fst (run fuel h s))) None.
End Engine.

(** ** Observation of a history for the correspondence with the real engine (H3):
    per root call the outcome, the cache contents (as a function on the nodes of the graph),
    the sizes of stack and search graph, and the counters. *)
Record obs := mkObs {
  o_out : outcome; o_cache : list (option val); o_stack : nat; o_graph : nat;
  o_work : nat; o_iters : nat; o_ticks : nat; o_sci : nat }.

Definition observe (G : graph) (o : outcome) (s : state) : obs :=
  mkObs o (map (cache_get (cache s)) (seq 0 (length G))) (length (stack s)) (length (sgraph s))
        (work s) (iters s) (ticks s) (sci s).

Fixpoint run_obs (G : graph) (cf : config) (fuel : nat) (h : list nat) (s : state) : list obs :=
  match h with
  | [] => []
  | g :: r => let (o, s1) := step_root G cf fuel g s in observe G o s1 :: run_obs G cf fuel r s1
  end.

(** schedules given as finite lists: [should_continue] is false exactly at the listed
    invocation indices; a panic is injected exactly at the listed callback points *)
Definition not_in (l : list nat) (i : nat) : bool := negb (memb i l).
Definition in_list (l : list nat) (i : nat) : bool := memb i l.

Definition mk_config (v : variant) (ov : nat) (ca : bool) (sc_false pn_at : list nat) : config :=
  mkConfig v ov ca (not_in sc_false) (in_list pn_at).

(** boolean equalities for the correspondence *)
Definition site_eqb (a b : site) : bool :=
  match a, b with
  | Injected, Injected | StackNotEmpty, StackNotEmpty | OverflowDepth, OverflowDepth
  | BadIndex, BadIndex | MismatchedPop, MismatchedPop | MoveAssert, MoveAssert => true
  | _, _ => false
  end.
Definition outcome_eqb (a b : outcome) : bool :=
  match a, b with
  | OVal x, OVal y => val_eqb x y
  | OPanic x, OPanic y => site_eqb x y
  | OFuel, OFuel => true
  | _, _ => false
  end.
Definition oval_eqb (a b : option val) : bool :=
  match a, b with Some x, Some y => val_eqb x y | None, None => true | _, _ => false end.
Fixpoint list_eqb {A} (e : A -> A -> bool) (a b : list A) : bool :=
  match a, b with
  | [], [] => true
  | x :: r, y :: t => e x y && list_eqb e r t
  | _, _ => false
  end.
Definition obs_eqb (a b : obs) : bool :=
  outcome_eqb (o_out a) (o_out b) && list_eqb oval_eqb (o_cache a) (o_cache b) &&
  Nat.eqb (o_stack a) (o_stack b) && Nat.eqb (o_graph a) (o_graph b) &&
  Nat.eqb (o_work a) (o_work b) && Nat.eqb (o_iters a) (o_iters b) &&
  Nat.eqb (o_ticks a) (o_ticks b) && Nat.eqb (o_sci a) (o_sci b).

(** ** Entry point of the correspondence: one case = graph, overflow depth, caching,
    [should_continue] false-indices, panic points, history of root goals. *)
Record case := mkCase {
  c_graph : graph; c_overflow : nat; c_caching : bool;
  c_stop : list nat; c_panic : list nat; c_hist : list nat }.

Definition run_case (v : variant) (fuel : nat) (c : case) : list obs :=
  run_obs (c_graph c) (mk_config v (c_overflow c) (c_caching c) (c_stop c) (c_panic c)) fuel (c_hist c) init_state.

Definition obs_list_eqb : list obs -> list obs -> bool := list_eqb obs_eqb.
