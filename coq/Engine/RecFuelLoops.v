(** * Engine.RecFuelLoops — the explicit fuel bound for and-or graphs whose only cycles are
    self-loops (every strongly connected component is a single goal; acyclic graphs included).

    On such a graph the only goal ever found on the stack is the one on top of it (a goal that
    has itself as a subgoal), so only the loop of the top node can iterate, and the NO-FLIP
    lemma holds: after an iteration that moved an inductive node from [No] to [Yes] the next
    one cannot return [No] (dually for coinductive nodes) -- the refutation it would come with
    has no leaf among the provisional nodes, hence is absolute, and contradicts the absolute
    truth established by the earlier iteration.  So a visit makes at most two iterations. *)

From Chalk Require Export Engine.RecFuelAcyclic.

Definition selfloops_only (G : graph) : Prop := forall a b, edge G a b -> path G b a -> a = b.

Lemma acyclic_selfloops G : acyclic G -> selfloops_only G.
Proof. intros H a b He Hp. exfalso. eapply H; eauto. Qed.

Lemma selfloops_cycle G : selfloops_only G -> forall a b, path G a b -> path G b a -> a = b.
Proof.
  intros H a b P. induction P as [a|a y b He P IH]; intros Q; auto.
  assert (a = y) by (apply (H a y He); eapply path_trans'; eauto). subst y. apply IH. exact Q.
Qed.

Lemma selfloops_no_mixed G : selfloops_only G -> ~ mixed_cycle G.
Proof.
  intros H [a [b [Ha [Hb [P1 P2]]]]]. assert (a = b) by (eapply selfloops_cycle; eauto). subst. congruence.
Qed.

(** (no invariant on the cycle flags is needed here: a visit ends because of NO-FLIP, whatever
    the flags of the nodes below are) *)
Definition CB (s : state) : Prop := True.

Definition nf_post' {A} (r : res A) : Prop :=
  match r with OutOfFuel => False | Done _ s' => CB s' | Panic _ _ => True end.

Section Loops.
  Variable G : graph.
  Variable cf : config.
  Hypothesis Hwf : wf G.
  Hypothesis Hsl : selfloops_only G.
  Hypothesis Hvr : vr cf = repaired.

  Let Hnm : ~ mixed_cycle G := selfloops_no_mixed G Hsl.
  Let D := Nat.min (overflow cf) (length G).

  Lemma CB_eq s s' : stack s' = stack s -> CB s -> CB s'.
  Proof. intros _ _. exact I. Qed.

  (** ** clause evaluation *)
  Section WithFuel.
    Variable f : nat.
    Variable L : nat.
    (** [solve_goal] at fuel [f] from any state whose stack has [L] entries *)
    Hypothesis Hnf : forall g m s t, WF G s -> SI G s -> g < length G -> Ctx G s t g -> CB s ->
                       length (stack s) = L -> nf_post' (solve_goal G cf f g m s).

    Let sg := solve_goal G cf f.
    Let Hsg : forall g m s t, WF G s -> SI G s -> g < length G -> topgoal s t -> edge G t g ->
                sg_post G cf t g m s (sg g m s).
    Proof. intros g m s t W S Hg T He. apply (proj1 (specs G cf Hwf Hnm Hvr f)); auto. right. auto. Qed.

    Lemma eval_subs_nf t l : forall amb m s,
      WF G s -> SI G s -> topgoal s t -> (forall x, In x l -> edge G t x /\ x < length G) ->
      CB s -> length (stack s) = L -> nf_post' (eval_subs sg l amb m s).
    Proof.
      induction l as [|x r IH]; intros amb m s W S T Hl A HL; simpl; auto.
      destruct (Hl x (or_introl eq_refl)) as [He Hx].
      pose proof (Hsg x m s t W S Hx T He) as H1.
      pose proof (Hnf x m s t W S Hx (or_intror (conj T He)) A HL) as H2.
      fold sg in H2. destruct (sg x m s) as [[v m'] s'| |]; simpl in *; auto.
      destruct H1 as [F _].
      assert (T' : topgoal s' t) by (eapply topgoal_ext; eauto; apply (fr_ext _ _ _ _ _ _ _ F)).
      assert (HL' : length (stack s') = L) by (rewrite (ext_len _ _ (fr_ext _ _ _ _ _ _ _ F)); auto).
      assert (Hr : forall y, In y r -> edge G t y /\ y < length G) by (intros y Hy; apply Hl; right; auto).
      destruct v; simpl; auto; apply IH; auto;
        try apply (fr_wf _ _ _ _ _ _ _ F); try apply (fr_si _ _ _ _ _ _ _ F).
    Qed.

    Lemma eval_clauses_nf t cs : forall cur m s,
      WF G s -> SI G s -> topgoal s t ->
      (forall c x, In c cs -> In x (fst c) -> edge G t x /\ x < length G) ->
      CB s -> length (stack s) = L -> nf_post' (eval_clauses sg cs cur m s).
    Proof.
      induction cs as [|c r IH]; intros cur m s W S T Hcs A HL; simpl; auto.
      assert (Hc : forall x, In x (fst c) -> edge G t x /\ x < length G) by (intros x Hx; eapply Hcs; eauto; left; auto).
      pose proof (eval_subs_spec G cf sg Hsg t (fst c) (snd c) m s W S T Hc) as H1.
      pose proof (eval_subs_nf t (fst c) (snd c) m s W S T Hc A HL) as H2.
      destruct (eval_subs sg (fst c) (snd c) m s) as [[v m'] s'| |]; simpl in *; auto.
      destruct H1 as [F _].
      assert (T' : topgoal s' t) by (eapply topgoal_ext; eauto; apply (fr_ext _ _ _ _ _ _ _ F)).
      assert (HL' : length (stack s') = L) by (rewrite (ext_len _ _ (fr_ext _ _ _ _ _ _ _ F)); auto).
      assert (Hr : forall c' x, In c' r -> In x (fst c') -> edge G t x /\ x < length G)
        by (intros c' x H3 H4; eapply Hcs; eauto; right; auto).
      destruct (combine cur v) as [[| |]|]; simpl; auto; apply IH; auto;
        try apply (fr_wf _ _ _ _ _ _ _ F); try apply (fr_si _ _ _ _ _ _ _ F).
    Qed.

    Lemma solve_iteration_nf g s :
      WF G s -> SI G s -> g < length G -> topgoal s g -> CB s -> length (stack s) = L ->
      nf_post' (solve_iteration G cf sg g s).
    Proof.
      intros W S Hg T A HL. unfold solve_iteration.
      destruct (tick_cases cf (bump_iters s)) as [Et|Et]; rewrite Et; simpl bind; [exact I|].
      unfold ask_continue. simpl. destruct (sc cf (sci s)); simpl.
      - assert (Hcs : forall c x, In c (clauses (get G g)) -> In x (fst c) -> edge G g x /\ x < length G).
        { intros c x Hc Hx. split; [unfold edge, succs; apply in_flat_map; exists c; auto|]. eapply Hwf; eauto. }
        apply eval_clauses_nf with (t := g); auto.
        all: try (eapply WF_eq; [| |exact W]; reflexivity).
        all: try (eapply SI_core; [exact W| |exact S]; repeat split; auto).
        all: try (destruct T as [dt [ndt [T1 [T2 [T3 T4]]]]]; exists dt, ndt; auto).
      - exact A.
    Qed.
  End WithFuel.


  (** ** the end of a visit *)
  Lemma finish_node_nf' m depth dfn sm s1 : CB s1 -> nf_post' (finish_node cf m depth dfn sm s1).
  Proof.
    intros A. rewrite finish_node_eq.
    destruct (negb (S depth =? length (stack s1))); [exact I|]. cbv zeta.
    assert (A2 : CB (popnode s1 dfn sm)).
    { exact I. }
    destruct (nth_error (sgraph (popnode s1 dfn sm)) dfn); [|exact I].
    destruct (mn_geb sm dfn); [|exact A2].
    destruct (caching cf && negb (fix_f3 (vr cf) && interrupted (popnode s1 dfn sm))).
    - unfold move_to_cache. destruct (forallb (move_ok dfn) (skipn dfn (sgraph (popnode s1 dfn sm)))); simpl; [|exact I].
      eapply CB_eq; [|exact A2]. reflexivity.
    - eapply CB_eq; [|exact A2]. reflexivity.
  Qed.

  (** ** a goal found on the stack is the one on top of it *)
  Lemma onstack_hit_is_top s t g dfn nd d :
    WF G s -> Ctx G s t g -> nodeat s dfn nd -> gn_goal nd = g -> gn_depth nd = Some d ->
    S d = length (stack s).
  Proof.
    intros W C Hn Hg Hd. destruct C as [[_ C]|[[dt [ndt [T1 [T2 [T3 T4]]]]] He]].
    - unfold nodeat in Hn. rewrite C in Hn. destruct dfn; discriminate.
    - assert (Hp : path G g t) by (subst t g; eapply (wf_top _ _ W dfn nd dt ndt); eauto).
      assert (t = g) by (apply (Hsl t g He Hp)). subst t.
      assert (dfn = dt) by (eapply (wf_nodup _ _ W dfn dt nd ndt); eauto; congruence). subst dt.
      unfold nodeat in *. assert (nd = ndt) by congruence. subst ndt.
      rewrite Hd in T2. inversion T2. lia.
  Qed.

  (** ** NO-FLIP *)
  Definition advanced (g : nat) : val := if coind (get G g) then No else Yes.
  Definition initial (g : nat) : val := if coind (get G g) then Yes else No.

  Lemma no_flip s0 s g depth dfn sa m :
    loop_in G cf s0 s g depth dfn -> frame G cf s sa g None m ->
    (forall th, trusted th (tv th (initial g)) sa ->
        NJ1 G th (tv th (initial g)) (J G th (tv th (initial g)) sa m g) g) ->
    (exists nd0, nodeat s dfn nd0 /\ gn_sol nd0 = advanced g) -> False.
  Proof.
    intros LI F NC [nd0 [Hn0 Hs0]].
    destruct (li_node _ _ _ _ _ _ _ LI) as [nd0' [A [B C]]].
    unfold nodeat in *. assert (nd0' = nd0) by congruence. subst nd0'.
    pose proof (ext_graph _ _ (fr_ext _ _ _ _ _ _ _ F) dfn nd0 Hn0) as Hna.
    pose proof (fr_wf _ _ _ _ _ _ _ F) as Wa.
    (* a leaf of the new claim that is a graph node would be the node itself, with the old value *)
    assert (Hleaf : forall th b c x, In c (clauses (get G g)) -> In x (fst c) ->
              tv th (advanced g) <> b -> J G th b sa m g x -> Abs G th b x).
    { intros th b c x Hc Hx Hne [HA|[[d [nd [Hnd [Hgx [Htv _]]]]] Hp]]; auto. exfalso.
      assert (Hgx' : g = x).
      { apply (Hsl g x); auto. unfold edge, succs. apply in_flat_map. exists c. auto. }
      subst x. assert (d = dfn) by (eapply (wf_nodup _ _ Wa d dfn nd nd0); eauto; congruence). subst d.
      unfold nodeat in Hnd. assert (nd = nd0) by congruence. subst nd. rewrite Hs0 in Htv. contradiction. }
    pose proof (li_si _ _ _ _ _ _ _ LI) as Ss.
    unfold advanced, initial in *. destruct (coind (get G g)) eqn:Eco.
    - (* coinductive: was No (absolutely false), now Yes *)
      destruct (si_node _ _ Ss true dfn nd0 Hn0) as [Habs _]; [rewrite Hs0; left; reflexivity|].
      rewrite Hs0, B, Eco in Habs. simpl in Habs. apply Habs; [discriminate|].
      apply holds_opt.
      assert (Hn : NJ1 G false true (Abs G false true) g).
      { eapply NJ1_mono_in; [|apply (NC false); left; reflexivity].
        intros c x Hc Hx HJ. simpl in HJ. eapply Hleaf; eauto. simpl. discriminate. }
      apply (NJ1_abs G false true g Hn).
    - (* inductive: was Yes (absolutely true), now No *)
      destruct (si_node _ _ Ss false dfn nd0 Hn0) as [Habs _]; [rewrite Hs0; left; reflexivity|].
      rewrite Hs0, B, Eco in Habs. simpl in Habs.
      assert (Hh : holds G false g) by (apply Habs; discriminate).
      assert (Hn : NJ1 G true false (Abs G true false) g).
      { eapply NJ1_mono_in; [|apply (NC true); left; reflexivity].
        intros c x Hc Hx HJ. simpl in HJ. eapply Hleaf; eauto. simpl. discriminate. }
      apply (NJ1_abs G true false g Hn). apply holds_opt. exact Hh.
  Qed.

  (** ** the two functions, by induction on the fuel *)
  Definition NFspec' (f : nat) : Prop := forall g m s t,
    WF G s -> SI G s -> g < length G -> Ctx G s t g -> CB s ->
    3 * (D - length (stack s)) + 1 <= f -> nf_post' (solve_goal G cf f g m s).

  Definition NLspec' (f : nat) : Prop := forall s0 s g depth dfn nd0,
    loop_in G cf s0 s g depth dfn -> CB s -> length (stack s) <= D -> nodeat s dfn nd0 ->
    ((gn_sol nd0 = initial g /\ 3 * (D - length (stack s)) + 3 <= f) \/
     (gn_sol nd0 = advanced g /\ 3 * (D - length (stack s)) + 2 <= f)) ->
    nf_post' (solve_new_subgoal G cf f g depth dfn s).

  Lemma CB_upd_top s d fn : CB s -> S d = length (stack s) -> CB (set_stack s (upd (stack s) d fn)).
  Proof.
    intros _ _. exact I.
  Qed.

  Theorem nf_specs' f : NFspec' f /\ NLspec' f.
  Proof.
    induction f as [|f [IHg IHl]].
    - split.
      + intros g m s t _ _ _ _ _ Hf. lia.
      + intros s0 s g depth dfn nd0 _ _ _ _ [[_ Hf]|[_ Hf]]; lia.
    - split.
      + intros g m s t W Sx Hg C A Hf. rewrite solve_goal_S. cbv zeta.
        set (s1 := bump_work s).
        assert (W1 : WF G s1) by (eapply WF_eq; [| |exact W]; reflexivity).
        assert (C1c : same_core s s1) by (repeat split; auto).
        assert (S1 : SI G s1) by (exact (SI_core G s s1 W C1c Sx)).
        assert (Cx : Ctx G s1 t g) by (exact (Ctx_core G s s1 t g C1c C)).
        destruct (if caching cf then cache_get (cache s1) g else None); [exact A|].
        destruct (glookup (sgraph s1) g) as [dfn|] eqn:Elook.
        * destruct (glookup_some _ _ _ Elook) as [nd [Hn Hgn]].
          unfold found_node. unfold nodeat in Hn. rewrite Hn.
          destruct (gn_depth nd) as [d|] eqn:Ed; [|exact A].
          pose proof (onstack_hit_is_top s1 t g dfn nd d W1 Cx Hn Hgn Ed) as Htop.
          destruct (d <? length (stack s1)); [|exact I].
          assert (A1 : CB (set_stack s1 (upd (stack s1) d (fun e => mkSentry (se_coind e) true))))
            by (apply CB_upd_top; auto).
          cbv zeta. destruct (mixed_from _ d); [|exact A1].
          match goal with |- context [tick cf ?x] => destruct (tick_cases cf x) as [Et|Et]; rewrite Et end; simpl bind; [exact I|].
          eapply CB_eq; [|exact A1]. reflexivity.
        * unfold new_node.
          destruct (tick_cases cf s1) as [Et|Et]; rewrite Et; simpl bind; [exact I|].
          destruct (tick_cases cf (bump_ticks s1)) as [Et2|Et2]; rewrite Et2; simpl bind; [exact I|].
          set (s3 := bump_ticks (bump_ticks s1)).
          change (stack s) with (stack s3). change (sgraph s) with (sgraph s3).
          assert (W3 : WF G s3) by (eapply WF_eq; [| |exact W]; reflexivity).
          assert (C3c : same_core s s3) by (repeat split; auto).
          assert (S3 : SI G s3) by (exact (SI_core G s s3 W C3c Sx)).
          assert (C3 : Ctx G s3 t g) by (exact (Ctx_core G s s3 t g C3c C)).
          destruct (overflow cf <=? length (stack s3)) eqn:Eov; [exact I|]. apply Nat.leb_gt in Eov.
          assert (WP : WF G (push_node G s3 g)) by (eapply WF_push; eauto).
          assert (HlenP : length (stack (push_node G s3 g)) = S (length (stack s3))).
          { rewrite stack_push, app_length. simpl. lia. }
          assert (HD : S (length (stack s3)) <= D).
          { pose proof (stack_le_G G cf _ WP) as HG. rewrite HlenP in HG. unfold D. apply Nat.min_glb; lia. }
          assert (LI : loop_in G cf s3 (push_node G s3 g) g (length (stack s3)) (length (sgraph s3))).
          { constructor; auto.
            - apply sub_push.
            - apply SI_push; auto.
            - eexists. split; [apply nodeat_push_new|]. split; reflexivity.
            - unfold push_node. simpl. rewrite app_length. simpl. lia.
            - eexists. rewrite stack_push. split; [apply nth_error_snoc|reflexivity].
            - apply int_ok_eq; [apply le_n|reflexivity]. }
          assert (AP : CB (push_node G s3 g)).
          { exact I. }
          assert (Hst : (gn_sol (mkGnode g (if coind (get G g) then Yes else No) (Some (length (stack s3))) (Some (length (sgraph s3)))) = initial g
                         /\ 3 * (D - length (stack (push_node G s3 g))) + 3 <= f)).
          { split; [reflexivity|]. rewrite HlenP. change (stack s3) with (stack s) in *. lia. }
          pose proof (IHl _ _ _ _ _ _ LI AP ltac:(rewrite HlenP; exact HD) (nodeat_push_new G s3 g) (or_introl Hst)) as HL.
          destruct (solve_new_subgoal G cf f g (length (stack s3)) (length (sgraph s3)) (push_node G s3 g))
            as [sm sL|p sL|]; simpl bind; simpl in HL; auto.
          apply finish_node_nf'. exact HL.
      + intros s0 s g depth dfn nd0 LI A HD Hn0 Hstage. rewrite snsg_S.
        assert (Hfs : 3 * (D - length (stack s)) + 1 <= f) by (destruct Hstage as [[_ H]|[_ H]]; lia).
        assert (Hnf : forall g' m s' t, WF G s' -> SI G s' -> g' < length G -> Ctx G s' t g' -> CB s' ->
                        length (stack s') = length (stack s) -> nf_post' (solve_goal G cf f g' m s')).
        { intros g' m s' t W' S' Hg' C' A' HL'. apply (IHg g' m s' t W' S' Hg' C' A'). rewrite HL'. exact Hfs. }
        assert (Hsg : forall g' m s' t, WF G s' -> SI G s' -> g' < length G -> topgoal s' t -> edge G t g' ->
                        sg_post G cf t g' m s' (solve_goal G cf f g' m s')).
        { intros g' m s' t W' S' Hg' T' He'. apply (proj1 (specs G cf Hwf Hnm Hvr f)); auto. right. auto. }
        pose proof (solve_iteration_spec G cf Hwf (solve_goal G cf f) Hsg g s (li_wf _ _ _ _ _ _ _ LI) (li_si _ _ _ _ _ _ _ LI)
                      (li_g _ _ _ _ _ _ _ LI) (loop_in_top _ _ _ _ _ _ _ LI)) as H1.
        pose proof (solve_iteration_nf f (length (stack s)) Hnf g s (li_wf _ _ _ _ _ _ _ LI) (li_si _ _ _ _ _ _ _ LI)
                      (li_g _ _ _ _ _ _ _ LI) (loop_in_top _ _ _ _ _ _ _ LI) A eq_refl) as H2.
        destruct (solve_iteration G cf (solve_goal G cf f) g s) as [[v m] sa|p sa|]; simpl bind; simpl in H1, H2; auto.
        destruct H1 as [F NC].
        destruct (iter_node G cf s0 s g depth dfn sa m LI F) as [nda [Ha [Hb [Hc Hd]]]].
        pose proof (iter_slen G cf s0 s g depth dfn sa m LI F) as Hsl'.
        assert (nda = nd0).
        { pose proof (ext_graph _ _ (fr_ext _ _ _ _ _ _ _ F) dfn nd0 Hn0) as Hx. unfold nodeat in *. congruence. }
        subst nda.
        destruct (nth_error (stack sa) depth) as [e|] eqn:He; [|apply nth_error_None in He; lia].
        unfold loop_step. try rewrite He. unfold nodeat in Ha. try rewrite Ha.
        fold (reset_flag sa depth).
        assert (Hdepth : S depth = length (stack sa)) by exact Hsl'.
        assert (AR : CB (reset_flag sa depth)) by (apply CB_upd_top; auto).
        pose proof (exit_state_keep sa depth dfn v e nd0 He Ha) as E0.
        destruct (se_cycle e) eqn:Ecyc; simpl negb; cbv iota.
        * match goal with |- context [tick cf ?x] => destruct (tick_cases cf x) as [Et|Et]; rewrite Et end; simpl bind; [exact I|].
          pose proof (exit_state_ticks _ _ _ _ _ _ E0) as E1.
          destruct (val_eqb (gn_sol nd0) v) eqn:Eold; [eapply CB_eq; [|exact AR]; reflexivity|].
          destruct (val_eqb v Amb) eqn:Eamb.
          -- rewrite Hvr. simpl. eapply CB_eq; [|exact AR]. reflexivity.
          -- (* the loop goes round: only possible from the initial value, to the advanced one *)
             assert (Hne : gn_sol nd0 <> v) by (intros E; rewrite E, val_eqb_refl in Eold; discriminate).
             assert (Hna : v <> Amb) by (intros E; rewrite E in Eamb; discriminate).
             pose proof (exit_state_rollback _ _ _ _ _ E1) as E2.
             set (s' := rollback_to (bump_ticks (set_sol (reset_flag sa depth) dfn v)) (S dfn)) in *.
             pose proof (loop_in_again G cf Hnm s0 s g depth dfn sa m v s' LI F NC E2) as LI'.
             assert (A' : CB s') by (eapply CB_eq; [|exact AR]; reflexivity).
             assert (Hlen' : length (stack s') = length (stack s)).
             { change (stack s') with (stack (reset_flag sa depth)). simpl. rewrite upd_length.
               apply (ext_len _ _ (fr_ext _ _ _ _ _ _ _ F)). }
             assert (Hn' : nodeat s' dfn (mkGnode g v (Some depth) (Some dfn))).
             { exact (exit_node G cf s0 s g depth dfn sa m v LI F s' false E2). }
             destruct Hstage as [[Hini Hf]|[Hadv Hf]].
             ++ apply (IHl s0 s' g depth dfn _ LI' A' ltac:(rewrite Hlen'; exact HD) Hn'). right. split.
                ** simpl. unfold initial, advanced in *. destruct (coind (get G g)), v; simpl in *; congruence.
                ** rewrite Hlen'. lia.
             ++ exfalso. eapply (no_flip s0 s g depth dfn sa m LI F).
                ** assert (Hv : v = initial g).
                   { unfold initial, advanced in *. destruct (coind (get G g)), v; simpl in *; congruence. }
                   rewrite <- Hv. exact NC.
                ** exists nd0. split; auto.
        * simpl. eapply CB_eq; [|exact AR]. reflexivity.
  Qed.

  Theorem rec_fuel_bound_selfloops_lemma g s :
    g < length G -> cache_exact G s -> solve_root G cf (fuel_bound G cf) g s <> OutOfFuel.
  Proof.
    intros Hg Hc. unfold solve_root. rewrite Hvr. simpl fix_f4. cbv iota. simpl bind.
    set (s1 := set_interrupted (set_graph (set_stack s []) []) false).
    assert (W1 : WF G s1) by (apply WF_empty; reflexivity).
    assert (S1 : SI G s1) by (apply SI_empty; [reflexivity|exact Hc]).
    assert (C1 : Ctx G s1 0 g) by (left; split; reflexivity).
    assert (A1 : CB s1) by exact I.
    assert (Hf : 3 * (D - length (stack s1)) + 1 <= fuel_bound G cf).
    { unfold fuel_bound. fold D. simpl. lia. }
    pose proof (proj1 (nf_specs' (fuel_bound G cf)) g None s1 0 W1 S1 Hg C1 A1 Hf) as H.
    destruct (solve_goal G cf (fuel_bound G cf) g None s1) as [[v m] s'|p s'|]; simpl in *; [discriminate|discriminate|contradiction].
  Qed.
End Loops.

(** non-vacuity: a directly recursive goal with a base fact *)
Example selfloops_nonvacuous :
  selfloops_only [mkNode false [([0], false); ([], false)]] /\
  ~ acyclic [mkNode false [([0], false); ([], false)]].
Proof.
  split.
  - intros a b He _. unfold edge, succs in He. destruct a as [|[|a]]; simpl in He; intuition.
  - intros H. apply (H 0 0); [unfold edge, succs; simpl; auto|apply path_refl].
Qed.
