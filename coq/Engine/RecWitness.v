(** * Engine.RecWitness — the defects of the UNCHANGED fixed-point engine, exhibited on the
    faithful model by computation (each witness is also replayed on the real generic engine
    through hook H3 by the checks), and the same inputs on the repaired model. *)

From Chalk Require Import Engine.RecEngine.

(** chain  0 <= 1 <= 2  (A: Foo <= B: Foo <= C: Foo) *)
Definition chain3 : graph :=
  [mkNode false [([1], false)]; mkNode false [([2], false)]; mkNode false [([], false)]].

(** the F15 shape: [0] has an alternative that can only be ambiguous (a growing type that gets
    truncated) and a cycle through the inner node [1] *)
Definition amb_cycle : graph :=
  [mkNode false [([2], false); ([1], false)]; mkNode false [([0], false)]; mkNode false [([], true)]].

(** a mixed cycle 0(co) <-> 1(ind), where 1 is also provable through 2 *)
Definition mixed3 : graph :=
  [mkNode true [([1], false)]; mkNode false [([0], false); ([2], false)]; mkNode false [([1], false); ([], false)]].

Definition cfg (v : variant) (stop pan : list nat) : config := mk_config v 10 true stop pan.

(** F3: the [Amb] of an interrupted iteration is promoted to the cache; a later, unlimited
    solve of the same goal answers from it. *)
Lemma rec_interrupt_refuted :
  exists G g stop,
    answer G (cfg unchanged stop []) 100 [g; g] init_state = Some (OVal Amb) /\
    answer G (cfg unchanged [] []) 100 [g] init_state = Some (OVal Yes) /\
    (forall i, 1 <= i -> not_in stop i = true).
Proof.
  exists chain3, 0, [0]. repeat split; try (vm_compute; reflexivity).
  intros i Hi. destruct i; [lia | reflexivity].
Qed.

Example rec_interrupt_repaired :
  answer chain3 (cfg repaired [0] []) 100 [0; 0] init_state = Some (OVal Yes).
Proof. vm_compute. reflexivity. Qed.

(** F4: a panic at a callback leaves the stack non-empty; the next root solve panics at the
    assertion of [solve_root_goal]. *)
Lemma rec_panic_refuted :
  exists G g pan,
    fst (run G (cfg unchanged [] pan) 100 [g; g] init_state) = [OPanic Injected; OPanic StackNotEmpty] /\
    answer G (cfg unchanged [] []) 100 [g] init_state = Some (OVal Yes).
Proof. exists chain3, 0, [2]. split; vm_compute; reflexivity. Qed.

Example rec_panic_repaired :
  fst (run chain3 (cfg repaired [] [2]) 100 [0; 0] init_state) = [OPanic Injected; OVal Yes].
Proof. vm_compute. reflexivity. Qed.

(** F15: the loop of [0] stops by the ambiguity shortcut of [reached_fixed_point]; the inner
    node [1] was computed against the previous provisional value [No] of [0] and is cached. *)
Lemma rec_history_refuted :
  exists G h g,
    answer G (cfg unchanged [] []) 100 (h ++ [g]) init_state = Some (OVal No) /\
    answer G (cfg unchanged [] []) 100 [g] init_state = Some (OVal Amb) /\
    eval G g = Amb /\ mixed_cycleb G = false.
Proof. exists amb_cycle, [0], 1. repeat split; vm_compute; reflexivity. Qed.

Example rec_history_repaired :
  answer amb_cycle (cfg repaired [] []) 100 [0; 1] init_state = Some (OVal Amb).
Proof. vm_compute. reflexivity. Qed.

(** Mixed inductive/coinductive cycles (excluded by the theorems, class finding F27): the
    error value returned for a mixed cycle depends on what is on the stack, and is cached.
    This is the REPAIRED engine. *)
Lemma rec_history_mixed_refuted :
  exists G h g,
    mixed_cycleb G = true /\
    answer G (cfg repaired [] []) 100 (h ++ [g]) init_state = Some (OVal No) /\
    answer G (cfg repaired [] []) 100 [g] init_state = Some (OVal Yes).
Proof. exists mixed3, [1], 0. repeat split; vm_compute; reflexivity. Qed.
