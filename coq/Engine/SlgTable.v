(** * Engine.SlgTable — mechanism model of SLG answer enumeration

    Models, function by function,
      - [chalk-engine/src/table.rs]: [Table] with [answers] / [answers_hash] / [floundered],
        [push_answer] (duplicate detection keyed on the WHOLE canonical [AnswerSubst] =
        substitution + region constraints + delayed subgoals; the "ambiguous answer replaced
        by a non-ambiguous one" panic), [mark_floundered] (drops [answers], keeps the hash);
      - [chalk-engine/src/logic.rs]: [ensure_root_answer] (floundered check, cached answer,
        [assert_eq!(next_answer_index, index)], then pulling on strands) and [root_answer]
        (an answer with delayed subgoals is [InvalidAnswer]);
      - [chalk-engine/src/forest.rs]: [ForestSolver::peek_answer] (skips [InvalidAnswer] by
        incrementing the index, loops on [QuantumExceeded] while [should_continue()]) and
        [next_answer] (= peek, then increment — also after [Floundered]/[NoMoreSolutions]);
      - [chalk-engine/src/solve.rs]: [SLGSolver::solve_multiple]: the loop, the translation
        of an answer into [Definite]/[Ambiguous]/[Floundered] and the look-ahead flag
        [!peek_answer().is_no_more_solutions()] computed AFTER the index was advanced.

    What the strands do is abstracted into a list of *events* consumed from the front each
    time the root table is pulled: a strand delivers an answer to the root table
    ([EvAnswer]), the table flounders, a quantum is exceeded, a negative cycle is found; the
    empty list means that no strand is left ([NoMoreSolutions]).  All theorems quantify over
    ALL event lists, so they hold for whatever the strands do.

    The second part states the property's contract on an enumeration relative to the
    declarative semantics of [Logic.Sem] and gives the executable checker used by the check,
    with its alarm-soundness theorem. *)

From Chalk Require Export Logic.Contract.

(** ** Keys: the canonical [AnswerSubst] *)

Record akey : Type := mkKey { ksubst : list ty; kconstr : list ty; kdelayed : list ty }.

Definition key_eqb (a b : akey) : bool :=
  tys_eqb (ksubst a) (ksubst b) && tys_eqb (kconstr a) (kconstr b) && tys_eqb (kdelayed a) (kdelayed b).

Lemma key_eqb_eq : forall a b, key_eqb a b = true <-> a = b.
Proof.
  intros [s1 c1 d1] [s2 c2 d2]. unfold key_eqb. cbn [ksubst kconstr kdelayed].
  rewrite !andb_true_iff, !tys_eqb_eq. split.
  - intros [[-> ->] ->]. reflexivity.
  - intro H. inversion H. auto.
Qed.

Lemma key_eqb_refl : forall a, key_eqb a a = true.
Proof. intro a. now apply key_eqb_eq. Qed.

(** [Answer { subst, ambiguous }] *)
Record tans : Type := mkAns { ta_key : akey; ta_amb : bool }.

Definition has_delayed (a : tans) : bool := match kdelayed (ta_key a) with [] => false | _ => true end.

(** What the consumer sees of an answer: [ConstrainedSubst] (substitution + constraints). *)
Definition csub (a : tans) : list ty * list ty := (ksubst (ta_key a), kconstr (ta_key a)).

Lemma csub_inj : forall a b,
  has_delayed a = false -> has_delayed b = false -> csub a = csub b -> ta_key a = ta_key b.
Proof.
  intros [[s1 c1 d1] m1] [[s2 c2 d2] m2]. unfold has_delayed, csub. cbn.
  destruct d1; [|discriminate]. destruct d2; [|discriminate]. intros _ _ H. inversion H. reflexivity.
Qed.

(** ** The table *)

Record table : Type := mkTable {
  t_answers : list tans;
  t_hash : list (akey * bool);       (* answers_hash: key -> ambiguous *)
  t_floundered : bool
}.

Definition empty_table : table := mkTable [] [] false.

Fixpoint hget (k : akey) (h : list (akey * bool)) : option bool :=
  match h with
  | [] => None
  | (k', b) :: r => if key_eqb k k' then Some b else hget k r
  end.

Inductive pr (A : Type) : Type := OkR (a : A) | PanicR (site : N).
Arguments OkR {A} a.
Arguments PanicR {A} site.

(** Panic sites: 1 = [assert!(!self.floundered)], 2 = "New answer was not ambiguous whereas
    previous answer was", 3 = [assert_eq!(next_answer_index, index)], 4 = [answer().unwrap()],
    5 = "negative cycle was detected". *)
Definition push_answer (t : table) (a : tans) : pr (table * option nat) :=
  if t_floundered t then PanicR 1
  else
    match hget (ta_key a) (t_hash t) with
    | None =>
        OkR (mkTable (t_answers t ++ [a]) ((ta_key a, ta_amb a) :: t_hash t) false,
             Some (length (t_answers t)))
    | Some was_ambiguous =>
        if was_ambiguous && negb (ta_amb a) then PanicR 2 else OkR (t, None)
    end.

Definition mark_floundered (t : table) : table := mkTable [] (t_hash t) true.

(** *** The invariant *)

Definition tbl_ok (t : table) : Prop :=
  NoDup (map ta_key (t_answers t)) /\
  forall a, In a (t_answers t) -> hget (ta_key a) (t_hash t) <> None.

Lemma tbl_ok_empty : tbl_ok empty_table.
Proof. split; [constructor|intros a []]. Qed.

Lemma hget_none_notin : forall t k,
  tbl_ok t -> hget k (t_hash t) = None -> ~ In k (map ta_key (t_answers t)).
Proof.
  intros t k [_ H] Hn Hin. apply in_map_iff in Hin. destruct Hin as [a [<- Ha]].
  now apply (H a Ha).
Qed.

Lemma NoDup_snoc : forall (A : Type) (l : list A) x, NoDup l -> ~ In x l -> NoDup (l ++ [x]).
Proof.
  intros A l x Hn Hx. induction l as [|y r IH]; cbn.
  - constructor; [intros []|constructor].
  - inversion Hn; subst. constructor.
    + intro H. apply in_app_iff in H. destruct H as [H|[H|[]]]; [contradiction|].
      subst. apply Hx. now left.
    + apply IH; [assumption|]. intro H. apply Hx. now right.
Qed.

Lemma push_answer_ok : forall t a t' o,
  tbl_ok t -> push_answer t a = OkR (t', o) ->
  tbl_ok t' /\ t_floundered t = false /\ t_floundered t' = false /\
  match o with
  | Some i => i = length (t_answers t) /\ t_answers t' = t_answers t ++ [a]
  | None => t' = t
  end.
Proof.
  intros t a t' o Hok H. unfold push_answer in H.
  destruct (t_floundered t) eqn:Ef; [discriminate|].
  destruct (hget (ta_key a) (t_hash t)) as [was|] eqn:Eh.
  - destruct (was && negb (ta_amb a)); [discriminate|]. inversion H; subst. auto.
  - inversion H; subst. clear H. cbn [t_answers t_hash t_floundered]. split; [|auto].
    split; cbn [t_answers t_hash t_floundered].
    + rewrite map_app. cbn [map]. apply NoDup_snoc; [apply Hok|]. now apply hget_none_notin.
    + intros b Hb. cbn [hget]. destruct (key_eqb (ta_key b) (ta_key a)) eqn:Ek; [discriminate|].
      apply in_app_iff in Hb. destruct Hb as [Hb|[<-|[]]].
      * now apply Hok.
      * rewrite key_eqb_refl in Ek. discriminate.
Qed.

Lemma mark_floundered_ok : forall t, tbl_ok (mark_floundered t).
Proof. intro t. split; cbn; [constructor|intros a []]. Qed.

(** *** Any sequence of table operations *)

Inductive op : Type := OPush (a : tans) | OFlounder.

(** A panicking operation unwinds: the table is left as it was. *)
Definition apply_op (t : table) (o : op) : table :=
  match o with
  | OPush a => match push_answer t a with OkR (t', _) => t' | PanicR _ => t end
  | OFlounder => mark_floundered t
  end.

Definition run_ops (ops : list op) : table := fold_left apply_op ops empty_table.

Lemma apply_op_ok : forall t o, tbl_ok t -> tbl_ok (apply_op t o).
Proof.
  intros t [a|] Hok; cbn [apply_op]; [|apply mark_floundered_ok].
  destruct (push_answer t a) as [[t' o]|s] eqn:E; [|exact Hok].
  now destruct (push_answer_ok _ _ _ _ Hok E).
Qed.

Lemma fold_ops_ok : forall ops t, tbl_ok t -> tbl_ok (fold_left apply_op ops t).
Proof.
  induction ops as [|o r IH]; intros t Hok; cbn [fold_left]; [exact Hok|].
  apply IH. now apply apply_op_ok.
Qed.

(** THEOREM (push_answer_nodup): after ANY sequence of [push_answer] / [mark_floundered]
    calls no two stored answers have the same canonical answer substitution. *)
Theorem push_answer_nodup : forall ops, NoDup (map ta_key (t_answers (run_ops ops))).
Proof. intro ops. apply (fold_ops_ok ops empty_table tbl_ok_empty). Qed.

(** ** The answer stream *)

Inductive event : Type := EvAnswer (a : tans) | EvFlounder | EvQuantum | EvNegCycle.

Record sstate : Type := mkS { s_tbl : table; s_idx : nat; s_evs : list event }.

Definition init (evs : list event) : sstate := mkS empty_table 0 evs.
Definition bump (s : sstate) : sstate := mkS (s_tbl s) (S (s_idx s)) (s_evs s).

Inductive rres : Type := ROk | RFloundered | RNoMore | RQuantum | RNegCycle | RPanic (site : N).

(** Pulling on the strands of the root table until it gets a NEW answer. *)
Fixpoint pull (t : table) (evs : list event) : rres * table * list event :=
  match evs with
  | [] => (RNoMore, t, [])
  | EvAnswer a :: r =>
      match push_answer t a with
      | PanicR c => (RPanic c, t, r)
      | OkR (t', Some _) => (ROk, t', r)
      | OkR (t', None) => pull t' r
      end
  | EvFlounder :: r => (RFloundered, mark_floundered t, r)
  | EvQuantum :: r => (RQuantum, t, r)
  | EvNegCycle :: r => (RNegCycle, t, r)
  end.

Definition ensure_root_answer (s : sstate) : rres * sstate :=
  let t := s_tbl s in
  if t_floundered t then (RFloundered, s)
  else if Nat.ltb (s_idx s) (length (t_answers t)) then (ROk, s)
  else if negb (Nat.eqb (s_idx s) (length (t_answers t))) then (RPanic 3, s)
  else let '(r, t', evs') := pull t (s_evs s) in (r, mkS t' (s_idx s) evs').

Inductive rootres : Type :=
| RtAnswer (a : tans) | RtInvalid | RtFloundered | RtNoMore | RtQuantum | RtNegCycle | RtPanic (site : N).

Definition root_answer (s : sstate) : rootres * sstate :=
  match ensure_root_answer s with
  | (ROk, s') =>
      match nth_error (t_answers (s_tbl s')) (s_idx s') with
      | Some a => if has_delayed a then (RtInvalid, s') else (RtAnswer a, s')
      | None => (RtPanic 4, s')
      end
  | (RFloundered, s') => (RtFloundered, s')
  | (RNoMore, s') => (RtNoMore, s')
  | (RQuantum, s') => (RtQuantum, s')
  | (RNegCycle, s') => (RtNegCycle, s')
  | (RPanic c, s') => (RtPanic c, s')
  end.

Inductive pkres : Type := PAnswer (a : tans) | PFloundered | PNoMore | PPanic (site : N) | POutOfFuel.

(** [peek_answer] with [should_continue = || true] (what [solve_multiple] passes). *)
Fixpoint peek (fuel : nat) (s : sstate) : pkres * sstate :=
  match fuel with
  | O => (POutOfFuel, s)
  | S f =>
      match root_answer s with
      | (RtAnswer a, s') => (PAnswer a, s')
      | (RtInvalid, s') => peek f (bump s')
      | (RtFloundered, s') => (PFloundered, s')
      | (RtNoMore, s') => (PNoMore, s')
      | (RtQuantum, s') => peek f s'
      | (RtNegCycle, s') => (PPanic 5, s')
      | (RtPanic c, s') => (PPanic c, s')
      end
  end.

(** The loop of [peek_answer] terminates: every iteration consumes an event or moves the
    index towards the end of the stored answers. *)
Definition mu (s : sstate) : nat := length (s_evs s) + (length (t_answers (s_tbl s)) - s_idx s).

Definition peek_answer (s : sstate) : pkres * sstate := peek (S (mu s)) s.

Definition next_answer (s : sstate) : pkres * sstate :=
  let (r, s') := peek_answer s in (r, bump s').

(** ** [solve_multiple] *)

(** [Some a]: an answer; [None]: [AnswerResult::Floundered]. *)
Definition yitem : Type := (option tans * bool)%type.

Inductive fin : Type := FComplete | FCut | FPanic (site : N).

(** [k]: the callback returns [false] on its [k]-th invocation (the consumer takes [k] items). *)
Fixpoint sm (k : nat) (s : sstate) : list yitem * fin :=
  match k with
  | O => ([], FCut)
  | S k' =>
      match next_answer s with
      | (PNoMore, _) => ([], FComplete)
      | (PPanic c, _) => ([], FPanic c)
      | (POutOfFuel, _) => ([], FPanic 0)
      | (r, s1) =>
          match peek_answer s1 with
          | (PPanic c, _) => ([], FPanic c)
          | (POutOfFuel, _) => ([], FPanic 0)
          | (r2, s2) =>
              let flag := match r2 with PNoMore => false | _ => true end in
              let it := match r with PAnswer a => Some a | _ => None end in
              let (l, f) := sm k' s2 in ((it, flag) :: l, f)
          end
      end
  end.

Definition solve_multiple (k : nat) (evs : list event) : list yitem * fin := sm k (init evs).

(** What the callback is given. *)
Inductive item : Type := IDefinite (c : list ty * list ty) | IAmbiguous (c : list ty * list ty) | IFloundered.

Definition identity_subst (l : list ty) : bool := tys_eqb l (map TVar (seq 0 (length l))).

Definition item_of (y : option tans) : item :=
  match y with
  | None => IFloundered
  | Some a =>
      if negb (ta_amb a) then IDefinite (csub a)
      else if identity_subst (ksubst (ta_key a)) then IFloundered
      else IAmbiguous (csub a)
  end.

Definition item_csubs (i : item) : list (list ty * list ty) :=
  match i with IDefinite c | IAmbiguous c => [c] | IFloundered => [] end.

(** ** Facts about the stream *)

Definition fl (s : sstate) : bool := t_floundered (s_tbl s).
Definition answers (s : sstate) : list tans := t_answers (s_tbl s).

Definition inv (s : sstate) : Prop :=
  tbl_ok (s_tbl s) /\ (fl s = false -> s_idx s <= length (answers s)).

Definition mono (s s' : sstate) : Prop :=
  s_idx s <= s_idx s' /\ exists ext, answers s' = answers s ++ ext.

Lemma mono_refl : forall s, mono s s.
Proof. intro s. split; [lia|]. exists []. now rewrite app_nil_r. Qed.

Lemma mono_trans : forall a b c, mono a b -> mono b c -> mono a c.
Proof.
  intros a b c [H1 [e1 E1]] [H2 [e2 E2]]. split; [lia|]. exists (e1 ++ e2).
  rewrite E2, E1. now rewrite app_assoc.
Qed.

Lemma inv_init : forall evs, inv (init evs).
Proof. intro evs. split; [apply tbl_ok_empty|]. intros _. cbn. lia. Qed.

Lemma pull_spec : forall evs t r t' evs',
  tbl_ok t -> t_floundered t = false -> pull t evs = (r, t', evs') ->
  tbl_ok t' /\ length evs' <= length evs /\
  match r with
  | ROk => t_floundered t' = false /\ (exists a, t_answers t' = t_answers t ++ [a]) /\ length evs' < length evs
  | RFloundered => t_floundered t' = true
  | RNoMore => t' = t /\ evs' = []
  | RQuantum => t' = t /\ length evs' < length evs
  | RNegCycle | RPanic _ => True
  end.
Proof.
  induction evs as [|e r0 IH]; intros t r t' evs' Hok Hfl H; cbn [pull] in H.
  - inversion H; subst. cbn. auto.
  - destruct e as [a| | |].
    + destruct (push_answer t a) as [[t1 [i|]]|c] eqn:Ep.
      * inversion H; subst. destruct (push_answer_ok _ _ _ _ Hok Ep) as [O1 [_ [F1 [_ E1]]]].
        cbn [length]. split; [exact O1|]. split; [lia|]. split; [exact F1|]. split; [eauto|lia].
      * destruct (push_answer_ok _ _ _ _ Hok Ep) as [_ [_ [_ E1]]]. subst t1.
        destruct (IH _ _ _ _ Hok Hfl H) as [A [B C]]. split; [exact A|]. cbn [length]. split; [lia|].
        destruct r; [destruct C as [C1 [C2 C3]]; repeat split; auto; lia | exact C | exact C
                    | destruct C as [C1 C2]; split; [exact C1|lia] | exact I | exact I].
      * inversion H; subst. cbn [length]. split; [exact Hok|]. split; [lia|exact I].
    + inversion H; subst. cbn [length]. split; [apply mark_floundered_ok|]. split; [lia|reflexivity].
    + inversion H; subst. cbn [length]. split; [exact Hok|]. split; [lia|]. split; [reflexivity|lia].
    + inversion H; subst. cbn [length]. split; [exact Hok|]. split; [lia|exact I].
Qed.

Lemma ensure_spec : forall s r s',
  inv s -> ensure_root_answer s = (r, s') ->
  tbl_ok (s_tbl s') /\ s_idx s' = s_idx s /\
  match r with
  | ROk => fl s = false /\ fl s' = false /\ s_idx s < length (answers s') /\
           (exists ext, answers s' = answers s ++ ext) /\ mu s' <= mu s
  | RFloundered => fl s' = true
  | RNoMore => fl s = false /\ s_tbl s' = s_tbl s /\ s_evs s' = [] /\ s_idx s = length (answers s)
  | RQuantum => fl s = false /\ s_tbl s' = s_tbl s /\ length (s_evs s') < length (s_evs s)
  | RNegCycle | RPanic _ => True
  end.
Proof.
  intros s r s' [Hok Hidx] H. unfold ensure_root_answer in H. unfold fl, answers, mu in *.
  destruct (t_floundered (s_tbl s)) eqn:Ef.
  - inversion H; subst. split; [exact Hok|]. repeat split; auto.
  - specialize (Hidx eq_refl).
    destruct (Nat.ltb (s_idx s) (length (t_answers (s_tbl s)))) eqn:El.
    + inversion H; subst. apply Nat.ltb_lt in El. split; [exact Hok|]. repeat split; auto; try lia.
      exists []. now rewrite app_nil_r.
    + apply Nat.ltb_ge in El.
      destruct (Nat.eqb (s_idx s) (length (t_answers (s_tbl s)))) eqn:Ee; cbn [negb] in H.
      2:{ inversion H; subst. split; [exact Hok|]. repeat split; auto. }
      apply Nat.eqb_eq in Ee.
      destruct (pull (s_tbl s) (s_evs s)) as [[r0 t0] e0] eqn:Ep. inversion H; subst. clear H.
      cbn [s_tbl s_idx s_evs].
      destruct (pull_spec _ _ _ _ _ Hok Ef Ep) as [A [B C]]. split; [exact A|]. split; [reflexivity|].
      destruct r.
      * destruct C as [C1 [[a C2] C3]]. rewrite C2, app_length. cbn [length]. repeat split; auto; try lia.
        exists [a]. reflexivity.
      * exact C.
      * destruct C as [-> ->]. repeat split; auto.
      * destruct C as [-> C]. repeat split; auto.
      * exact I.
      * exact I.
Qed.

Lemma root_spec : forall s r s',
  inv s -> root_answer s = (r, s') ->
  tbl_ok (s_tbl s') /\ s_idx s' = s_idx s /\
  match r with
  | RtAnswer a => fl s = false /\ fl s' = false /\ nth_error (answers s') (s_idx s') = Some a /\
                  has_delayed a = false /\ (exists ext, answers s' = answers s ++ ext)
  | RtInvalid => fl s = false /\ fl s' = false /\ s_idx s < length (answers s') /\
                 (exists ext, answers s' = answers s ++ ext) /\ mu s' <= mu s
  | RtFloundered => fl s' = true
  | RtNoMore => fl s = false /\ s_tbl s' = s_tbl s /\ s_evs s' = [] /\ s_idx s = length (answers s)
  | RtQuantum => fl s = false /\ s_tbl s' = s_tbl s /\ length (s_evs s') < length (s_evs s)
  | RtNegCycle | RtPanic _ => True
  end.
Proof.
  intros s r s' Hinv H. unfold root_answer in H.
  destruct (ensure_root_answer s) as [r0 s0] eqn:Ee.
  destruct (ensure_spec _ _ _ Hinv Ee) as [A [B C]].
  destruct r0.
  - destruct C as [C1 [C2 [C3 [C4 C5]]]]. fold (answers s0) in H.
    destruct (nth_error (answers s0) (s_idx s0)) as [a|] eqn:En.
    + destruct (has_delayed a) eqn:Ed; inversion H; subst; (split; [exact A|]); (split; [exact B|]); auto 10.
    + inversion H; subst. auto.
  - inversion H; subst. auto.
  - inversion H; subst. auto.
  - inversion H; subst. auto.
  - inversion H; subst. auto.
  - inversion H; subst. auto.
Qed.

Lemma peek_spec : forall fuel s r s',
  inv s -> peek fuel s = (r, s') ->
  tbl_ok (s_tbl s') /\ (mu s < fuel -> r <> POutOfFuel) /\
  match r with
  | PAnswer a => fl s = false /\ fl s' = false /\ mono s s' /\
                 nth_error (answers s') (s_idx s') = Some a /\ has_delayed a = false
  | PNoMore => fl s = false /\ fl s' = false /\ mono s s' /\ s_evs s' = [] /\ s_idx s' = length (answers s')
  | PFloundered => fl s' = true
  | PPanic _ | POutOfFuel => True
  end.
Proof.
  induction fuel as [|f IH]; intros s r s' Hinv H; cbn [peek] in H.
  - inversion H; subst. split; [apply Hinv|]. split; [lia|exact I].
  - destruct (root_answer s) as [r0 s0] eqn:Er.
    destruct (root_spec _ _ _ Hinv Er) as [A [B C]].
    destruct r0.
    + inversion H; subst. destruct C as [C1 [C2 [C3 [C4 C5]]]]. split; [exact A|]. split; [discriminate|].
      repeat split; auto. lia.
    + destruct C as [C1 [C2 [C3 [C4 C5]]]].
      assert (Hb : inv (bump s0)).
      { split; [exact A|]. intros _. unfold bump, answers in *. cbn [s_idx s_tbl]. lia. }
      destruct (IH _ _ _ Hb H) as [A' [F' C']].
      assert (Hm : mono s (bump s0)).
      { split; [cbn [bump s_idx]; lia|exact C4]. }
      assert (Hmu : mu (bump s0) < mu s).
      { unfold mu, bump, answers in *. cbn [s_idx s_tbl s_evs]. lia. }
      split; [exact A'|]. split; [intro Hf; apply F'; lia|].
      destruct r; auto.
      * destruct C' as [D1 [D2 [D3 D4]]]. split; [exact C1|]. split; [exact D2|].
        split; [eapply mono_trans; eauto|exact D4].
      * destruct C' as [D1 [D2 [D3 D4]]]. split; [exact C1|]. split; [exact D2|].
        split; [eapply mono_trans; eauto|exact D4].
    + inversion H; subst. split; [exact A|]. split; [discriminate|exact C].
    + inversion H; subst. destruct C as [C1 [C2 [C3 C4]]]. split; [exact A|]. split; [discriminate|].
      unfold fl, answers, mono in *. rewrite C2. repeat split; auto; try lia.
      exists []. unfold answers. rewrite C2. now rewrite app_nil_r.
    + destruct C as [C1 [C2 C3]].
      assert (Hb : inv s0).
      { split; [exact A|]. unfold fl, answers. rewrite C2, B. apply Hinv. }
      destruct (IH _ _ _ Hb H) as [A' [F' C']].
      assert (Hm : mono s s0).
      { split; [lia|]. exists []. unfold answers. rewrite C2. now rewrite app_nil_r. }
      assert (Hmu : mu s0 < mu s).
      { unfold mu. rewrite C2, B. lia. }
      split; [exact A'|]. split; [intro Hf; apply F'; lia|].
      destruct r; auto.
      * destruct C' as [D1 [D2 [D3 D4]]]. split; [exact C1|]. split; [exact D2|].
        split; [eapply mono_trans; eauto|exact D4].
      * destruct C' as [D1 [D2 [D3 D4]]]. split; [exact C1|]. split; [exact D2|].
        split; [eapply mono_trans; eauto|exact D4].
    + inversion H; subst. split; [exact A|]. split; [discriminate|exact I].
    + inversion H; subst. split; [exact A|]. split; [discriminate|exact I].
Qed.

Lemma peek_answer_spec : forall s r s',
  inv s -> peek_answer s = (r, s') ->
  r <> POutOfFuel /\ tbl_ok (s_tbl s') /\
  match r with
  | PAnswer a => fl s = false /\ fl s' = false /\ mono s s' /\
                 nth_error (answers s') (s_idx s') = Some a /\ has_delayed a = false
  | PNoMore => fl s = false /\ fl s' = false /\ mono s s' /\ s_evs s' = [] /\ s_idx s' = length (answers s')
  | PFloundered => fl s' = true
  | PPanic _ | POutOfFuel => True
  end.
Proof.
  intros s r s' Hinv H. unfold peek_answer in H.
  destruct (peek_spec _ _ _ _ Hinv H) as [A [B C]]. split; [apply B; lia|]. split; assumption.
Qed.

(** [peek_answer] never runs out of fuel: the fuel is only a termination device. *)
Theorem peek_answer_total : forall s r s', inv s -> peek_answer s = (r, s') -> r <> POutOfFuel.
Proof. intros s r s' Hinv H. now destruct (peek_answer_spec _ _ _ Hinv H). Qed.

Lemma root_cached : forall s a,
  fl s = false -> nth_error (answers s) (s_idx s) = Some a -> has_delayed a = false ->
  root_answer s = (RtAnswer a, s).
Proof.
  intros s a Hf Hn Hd. unfold root_answer, ensure_root_answer. unfold fl, answers in *. rewrite Hf.
  assert (Hl : s_idx s < length (t_answers (s_tbl s))) by (apply nth_error_Some; congruence).
  apply Nat.ltb_lt in Hl. rewrite Hl. rewrite Hn, Hd. reflexivity.
Qed.

Lemma root_fl : forall s, fl s = true -> root_answer s = (RtFloundered, s).
Proof. intros s Hf. unfold root_answer, ensure_root_answer. unfold fl in Hf. now rewrite Hf. Qed.

Lemma root_nomore : forall s,
  fl s = false -> s_evs s = [] -> s_idx s = length (answers s) -> root_answer s = (RtNoMore, s).
Proof.
  intros [t i e] Hf He Hi. unfold root_answer, ensure_root_answer. unfold fl, answers in *.
  cbn [s_tbl s_idx s_evs] in *. subst e. rewrite Hf. rewrite Hi. rewrite Nat.ltb_irrefl, Nat.eqb_refl.
  cbn [negb pull]. reflexivity.
Qed.

(** Peeking twice is peeking once. *)
Lemma peek_answer_idem : forall s r s',
  inv s -> peek_answer s = (r, s') ->
  match r with
  | PAnswer _ | PFloundered | PNoMore => peek_answer s' = (r, s')
  | PPanic _ | POutOfFuel => True
  end.
Proof.
  intros s r s' Hinv H. destruct (peek_answer_spec _ _ _ Hinv H) as [_ [_ C]].
  unfold peek_answer. cbn [peek]. destruct r; try exact I.
  - destruct C as [_ [C2 [_ [C4 C5]]]]. now rewrite (root_cached _ _ C2 C4 C5).
  - now rewrite (root_fl _ C).
  - destruct C as [_ [C2 [_ [C4 C5]]]]. now rewrite (root_nomore _ C2 C4 C5).
Qed.

Lemma inv_after_peek : forall s r s',
  inv s -> peek_answer s = (r, s') ->
  match r with PAnswer _ | PFloundered | PNoMore => inv s' | _ => True end.
Proof.
  intros s r s' Hinv H. destruct (peek_answer_spec _ _ _ Hinv H) as [_ [A C]].
  destruct r; try exact I.
  - destruct C as [_ [_ [_ [C4 _]]]]. split; [exact A|]. intros _.
    assert (s_idx s' < length (answers s')) by (apply nth_error_Some; congruence). lia.
  - split; [exact A|]. intro Hf. congruence.
  - destruct C as [_ [_ [_ [_ C5]]]]. split; [exact A|]. intros _. lia.
Qed.

Lemma inv_after_next : forall s r s',
  inv s -> next_answer s = (r, s') ->
  match r with PAnswer _ | PFloundered => inv s' | _ => True end.
Proof.
  intros s r s' Hinv H. unfold next_answer in H. destruct (peek_answer s) as [r0 s0] eqn:Ep.
  inversion H; subst. clear H. destruct (peek_answer_spec _ _ _ Hinv Ep) as [_ [A C]].
  destruct r; try exact I.
  - destruct C as [_ [_ [_ [C4 _]]]]. split; [exact A|]. intros _. unfold bump, answers in *. cbn [s_idx s_tbl].
    assert (s_idx s0 < length (t_answers (s_tbl s0))) by (apply nth_error_Some; congruence). lia.
  - split; [exact A|]. intro Hf. unfold fl, bump in *. cbn [s_tbl] in Hf. congruence.
Qed.

(** ** No duplicates among the yielded answers *)

Definition raws (ys : list yitem) : list tans :=
  flat_map (fun y => match fst y with Some a => [a] | None => [] end) ys.

(** [Y]: the answers yielded so far. *)
Definition J (s : sstate) (Y : list tans) : Prop :=
  inv s /\ (forall y, In y Y -> has_delayed y = false) /\ NoDup (map ta_key Y) /\
  (fl s = false -> forall y, In y Y -> In y (firstn (s_idx s) (answers s))).

Lemma firstn_mono_in : forall (s s' : sstate) y,
  s_idx s <= length (answers s) -> mono s s' ->
  In y (firstn (s_idx s) (answers s)) -> In y (firstn (s_idx s') (answers s')).
Proof.
  intros s s' y Hl [Hi [ext E]] Hy. rewrite E.
  rewrite <- (firstn_skipn (s_idx s) (firstn (s_idx s') (answers s ++ ext))).
  apply in_or_app. left. rewrite firstn_firstn. rewrite Nat.min_l by lia.
  rewrite firstn_app. apply in_or_app. now left.
Qed.

Lemma nth_error_skipn' : forall (A : Type) i (l : list A) k, nth_error (skipn i l) k = nth_error l (i + k).
Proof.
  induction i as [|i IH]; intros l k; [reflexivity|]. destruct l as [|x l]; cbn [skipn].
  - now destruct k.
  - cbn. apply IH.
Qed.

Lemma nodup_prefix_sep : forall (l : list tans) i j a y,
  NoDup (map ta_key l) -> nth_error l j = Some a -> i <= j -> In y (firstn i l) -> ta_key y <> ta_key a.
Proof.
  intros l i j a y Hn Hj Hij Hy E.
  rewrite <- (firstn_skipn i l) in Hn. rewrite map_app in Hn.
  assert (Ha : In a (skipn i l)).
  { apply nth_error_In with (n := j - i). rewrite nth_error_skipn'. replace (i + (j - i)) with j by lia. exact Hj. }
  revert Hn. generalize (firstn i l) (skipn i l) Hy Ha. intros l1 l2 H1 H2 Hn.
  induction l1 as [|x r IH]; [destruct H1|]. cbn in Hn. inversion Hn; subst.
  destruct H1 as [->|H1].
  - apply H3. apply in_or_app. right. rewrite E. now apply in_map.
  - now apply IH.
Qed.

Lemma J_peek : forall s Y r s',
  J s Y -> peek_answer s = (r, s') ->
  match r with PAnswer _ | PFloundered | PNoMore => J s' Y | _ => True end.
Proof.
  intros s Y r s' [Hinv [Hd [Hn Hf]]] H.
  pose proof (inv_after_peek _ _ _ Hinv H) as Hi.
  destruct (peek_answer_spec _ _ _ Hinv H) as [_ [A C]].
  destruct r; try exact I.
  - destruct C as [C1 [C2 [C3 _]]]. split; [exact Hi|]. split; [exact Hd|]. split; [exact Hn|].
    intros _ y Hy. apply (firstn_mono_in s s'); [apply Hinv; exact C1|exact C3|]. now apply Hf.
  - split; [exact Hi|]. split; [exact Hd|]. split; [exact Hn|]. intro X. congruence.
  - destruct C as [C1 [C2 [C3 _]]]. split; [exact Hi|]. split; [exact Hd|]. split; [exact Hn|].
    intros _ y Hy. apply (firstn_mono_in s s'); [apply Hinv; exact C1|exact C3|]. now apply Hf.
Qed.

Lemma J_next : forall s Y r s',
  J s Y -> next_answer s = (r, s') ->
  match r with
  | PAnswer a => J s' (Y ++ [a])
  | PFloundered => J s' Y
  | _ => True
  end.
Proof.
  intros s Y r s' HJ H. pose proof HJ as [Hinv [Hd [Hn Hf]]].
  pose proof (inv_after_next _ _ _ Hinv H) as Hi.
  unfold next_answer in H. destruct (peek_answer s) as [r0 s0] eqn:Ep. inversion H; subst. clear H.
  destruct (peek_answer_spec _ _ _ Hinv Ep) as [_ [A C]].
  destruct r; try exact I.
  - destruct C as [C1 [C2 [C3 [C4 C5]]]]. split; [exact Hi|]. split; [|split].
    + intros y Hy. apply in_app_iff in Hy. destruct Hy as [Hy|[<-|[]]]; auto.
    + rewrite map_app. cbn [map]. apply NoDup_snoc; [exact Hn|]. intro Hin.
      apply in_map_iff in Hin. destruct Hin as [y [Ey Hy]].
      assert (Hy0 : In y (firstn (s_idx s) (answers s0))).
      { destruct C3 as [_ [ext E]]. rewrite E. rewrite firstn_app. apply in_or_app. left. now apply Hf. }
      apply (nodup_prefix_sep (answers s0) (s_idx s) (s_idx s0) a y); auto.
      * apply A.
      * apply C3.
    + intros _ y Hy. unfold bump, answers. cbn [s_idx s_tbl]. fold (answers s0).
      apply in_app_iff in Hy. destruct Hy as [Hy|[<-|[]]].
      * assert (In y (firstn (s_idx s0) (answers s0))).
        { apply (firstn_mono_in s s0); [apply Hinv; exact C1|exact C3|]. now apply Hf. }
        rewrite <- (firstn_skipn (s_idx s0) (firstn (S (s_idx s0)) (answers s0))).
        apply in_or_app. left. rewrite firstn_firstn. now rewrite Nat.min_l by lia.
      * clear - C4. revert C4. generalize (answers s0) (s_idx s0). intros l n. revert l.
        induction n as [|n IH]; intros [|x l] H; cbn in H; try discriminate.
        -- inversion H; subst. now left.
        -- right. now apply IH.
  - split; [exact Hi|]. split; [exact Hd|]. split; [exact Hn|]. intro X.
    unfold fl, bump in *. cbn [s_tbl] in X. congruence.
Qed.

Lemma sm_nodup : forall k s Y,
  J s Y ->
  NoDup (map ta_key (Y ++ raws (fst (sm k s)))) /\
  forall y, In y (Y ++ raws (fst (sm k s))) -> has_delayed y = false.
Proof.
  induction k as [|k IH]; intros s Y HJ; cbn [sm].
  - cbn. rewrite app_nil_r. split; apply HJ.
  - assert (Base : NoDup (map ta_key (Y ++ raws [])) /\ forall y, In y (Y ++ raws []) -> has_delayed y = false).
    { cbn. rewrite app_nil_r. split; apply HJ. }
    destruct (next_answer s) as [r s1] eqn:En. pose proof (J_next _ _ _ _ HJ En) as H1.
    destruct r; try exact Base.
    + destruct (peek_answer s1) as [r2 s2] eqn:Ep. pose proof (J_peek _ _ _ _ H1 Ep) as H2.
      destruct r2; try exact Base;
        (destruct (sm k s2) as [l f] eqn:Es; cbn [fst raws flat_map];
         specialize (IH s2 _ H2); rewrite Es in IH; cbn [fst] in IH;
         fold (raws l); cbn [app]; rewrite <- app_assoc in IH; exact IH).
    + destruct (peek_answer s1) as [r2 s2] eqn:Ep. pose proof (J_peek _ _ _ _ H1 Ep) as H2.
      destruct r2; try exact Base;
        (destruct (sm k s2) as [l f] eqn:Es; cbn [fst raws flat_map];
         specialize (IH s2 _ H2); rewrite Es in IH; cbn [fst] in IH;
         fold (raws l); cbn [app]; exact IH).
Qed.

Lemma J_init : forall evs, J (init evs) [].
Proof.
  intro evs. split; [apply inv_init|]. split; [intros y []|]. split; [constructor|intros _ y []].
Qed.

Lemma NoDup_map_transfer : forall (A B C : Type) (f : A -> B) (g : A -> C) (l : list A),
  (forall a b, In a l -> In b l -> g a = g b -> f a = f b) -> NoDup (map f l) -> NoDup (map g l).
Proof.
  intros A B C f g l. induction l as [|x r IH]; intros Hinj Hn; cbn [map] in *; [constructor|].
  inversion Hn; subst. constructor.
  - intro Hin. apply in_map_iff in Hin. destruct Hin as [y [Ey Hy]]. apply H1.
    rewrite <- (Hinj y x); [now apply in_map|now right|now left|exact Ey].
  - apply IH; [|assumption]. intros a b Ha Hb. apply Hinj; now right.
Qed.

Lemma visible_sub : forall (Y : list tans) c,
  In c (flat_map (fun a => item_csubs (item_of (Some a))) Y) -> In c (map csub Y).
Proof.
  induction Y as [|a r IH]; intros c H; cbn [flat_map map] in *; [exact H|].
  apply in_app_iff in H. destruct H as [H|H]; [|right; now apply IH].
  left. unfold item_of in H. destruct (negb (ta_amb a)); [destruct H as [H|[]]; exact H|].
  destruct (identity_subst (ksubst (ta_key a))); [destruct H|destruct H as [H|[]]; exact H].
Qed.

Lemma NoDup_visible : forall (Y : list tans),
  NoDup (map csub Y) -> NoDup (flat_map (fun a => item_csubs (item_of (Some a))) Y).
Proof.
  induction Y as [|a r IH]; intro Hn; cbn [flat_map map] in *; [constructor|].
  inversion Hn; subst. specialize (IH H2).
  assert (Hx : forall c, In c (item_csubs (item_of (Some a))) -> c = csub a).
  { intros c H. unfold item_of in H. destruct (negb (ta_amb a)); [destruct H as [H|[]]; now subst|].
    destruct (identity_subst (ksubst (ta_key a))); [destruct H|destruct H as [H|[]]; now subst]. }
  destruct (item_csubs (item_of (Some a))) as [|c [|c' l]] eqn:E; cbn [app]; [exact IH| |].
  - constructor; [|exact IH]. intro Hin. apply visible_sub in Hin. rewrite (Hx c) in Hin by now left. contradiction.
  - exfalso. unfold item_of in E. destruct (negb (ta_amb a)); [discriminate|].
    destruct (identity_subst (ksubst (ta_key a))); discriminate.
Qed.

Lemma visible_raws : forall ys,
  flat_map (fun y : yitem => item_csubs (item_of (fst y))) ys =
  flat_map (fun a => item_csubs (item_of (Some a))) (raws ys).
Proof.
  induction ys as [|[[a|] b] r IH]; cbn [flat_map raws fst app]; [reflexivity| |exact IH].
  fold (raws r). rewrite IH. cbn [flat_map]. reflexivity.
Qed.

(** THEOREM (yields_nodup): whatever the strands do and however many items the consumer
    takes, the (substitution, constraints) pairs handed to the callback are pairwise
    different — the raw answers even have pairwise different keys. *)
Theorem yields_nodup : forall k evs,
  NoDup (flat_map (fun y : yitem => item_csubs (item_of (fst y))) (fst (solve_multiple k evs))).
Proof.
  intros k evs. unfold solve_multiple. rewrite visible_raws. apply NoDup_visible.
  destruct (sm_nodup k (init evs) [] (J_init evs)) as [Hn Hd]. cbn [app] in *.
  apply (NoDup_map_transfer _ _ _ ta_key csub); [|exact Hn].
  intros a b Ha Hb E. apply csub_inj; auto.
Qed.

Theorem yields_nodup_raw : forall k evs,
  NoDup (map ta_key (raws (fst (solve_multiple k evs)))) /\
  forall a, In a (raws (fst (solve_multiple k evs))) -> has_delayed a = false.
Proof. intros k evs. exact (sm_nodup k (init evs) [] (J_init evs)). Qed.

(** ** The look-ahead flag *)

(** A consumer that takes fewer items sees a prefix. *)
Theorem sm_prefix : forall k j s, fst (sm k s) = firstn k (fst (sm (k + j) s)).
Proof.
  induction k as [|k IH]; intros j s; [reflexivity|]. cbn [Nat.add sm].
  destruct (next_answer s) as [r s1]. destruct r; try reflexivity.
  - destruct (peek_answer s1) as [r2 s2]. destruct r2; try reflexivity;
      (specialize (IH j s2); destruct (sm k s2) as [l f]; destruct (sm (k + j) s2) as [l' f'];
       cbn [fst firstn] in *; now rewrite IH).
  - destruct (peek_answer s1) as [r2 s2]. destruct r2; try reflexivity;
      (specialize (IH j s2); destruct (sm k s2) as [l f]; destruct (sm (k + j) s2) as [l' f'];
       cbn [fst firstn] in *; now rewrite IH).
Qed.

Lemma next_after_peek : forall s r s',
  inv s -> peek_answer s = (r, s') ->
  match r with PAnswer _ | PFloundered | PNoMore => next_answer s' = (r, bump s') | _ => True end.
Proof.
  intros s r s' Hinv H. pose proof (peek_answer_idem _ _ _ Hinv H) as Hi. unfold next_answer.
  destruct r; try exact I; now rewrite Hi.
Qed.

Definition no_panic (f : fin) : Prop := forall c, f <> FPanic c.

Lemma sm_flags : forall k s ys f,
  inv s -> sm k s = (ys, f) -> no_panic f ->
  forall i, S i < k -> i < length ys -> (snd (nth i ys (None, false)) = true <-> S i < length ys).
Proof.
  induction k as [|k IH]; intros s ys f Hinv H Hnp i Hik Hil; [lia|]. cbn [sm] in H.
  destruct (next_answer s) as [r s1] eqn:En.
  pose proof (inv_after_next _ _ _ Hinv En) as Hinv1.
  assert (Hnil : forall c, (([] : list yitem), c) = (ys, f) -> False).
  { intros c E. inversion E; subst. cbn in Hil. lia. }
  assert (Step : forall it, (r = PAnswer it \/ r = PFloundered) ->
            match peek_answer s1 with
            | (PPanic c, _) => ([], FPanic c)
            | (POutOfFuel, _) => ([], FPanic 0)
            | (r2, s2) => let flag := match r2 with PNoMore => false | _ => true end in
                          let itm := match r with PAnswer a => Some a | _ => None end in
                          let (l, f0) := sm k s2 in ((itm, flag) :: l, f0)
            end = (ys, f) ->
            snd (nth i ys (None, false)) = true <-> S i < length ys).
  { intros it Hr H0. assert (Hi1 : inv s1) by (destruct Hr as [-> | ->]; exact Hinv1).
    destruct (peek_answer s1) as [r2 s2] eqn:Ep.
    pose proof (inv_after_peek _ _ _ Hi1 Ep) as Hinv2.
    pose proof (next_after_peek _ _ _ Hi1 Ep) as Hnx.
    destruct r2; try (exfalso; eapply Hnil; eassumption).
    - (* look-ahead sees an answer: flag true; the next iteration delivers it or panics *)
      destruct (sm k s2) as [l f0] eqn:Es. inversion H0; subst. clear H0.
      destruct i as [|i].
      + cbn [nth snd length]. split; [intros _|reflexivity].
        destruct k as [|k]; [lia|]. cbn [sm] in Es. rewrite Hnx in Es.
        destruct (peek_answer (bump s2)) as [r3 s3]. 
        destruct r3; try (inversion Es; subst; exfalso; eapply Hnp; reflexivity);
          (destruct (sm k s3); inversion Es; subst; cbn [length]; lia).
      + cbn [nth length]. rewrite (IH s2 l f Hinv2 Es Hnp i); [lia|lia|cbn [length] in Hil; lia].
    - destruct (sm k s2) as [l f0] eqn:Es. inversion H0; subst. clear H0.
      destruct i as [|i].
      + cbn [nth snd length]. split; [intros _|reflexivity].
        destruct k as [|k]; [lia|]. cbn [sm] in Es. rewrite Hnx in Es.
        destruct (peek_answer (bump s2)) as [r3 s3].
        destruct r3; try (inversion Es; subst; exfalso; eapply Hnp; reflexivity);
          (destruct (sm k s3); inversion Es; subst; cbn [length]; lia).
      + cbn [nth length]. rewrite (IH s2 l f Hinv2 Es Hnp i); [lia|lia|cbn [length] in Hil; lia].
    - (* look-ahead sees the end: flag false and nothing follows *)
      destruct (sm k s2) as [l f0] eqn:Es. inversion H0; subst. clear H0.
      destruct k as [|k]; [lia|]. cbn [sm] in Es. rewrite Hnx in Es. inversion Es; subst.
      destruct i as [|i]; cbn [nth snd length] in *; [split; [discriminate|lia]|lia]. }
  destruct r; try (exfalso; eapply Hnil; eassumption).
  - apply (Step a); [now left|exact H].
  - apply (Step (mkAns (mkKey [] [] []) false)); [now right|exact H].
Qed.

(** THEOREM (flag_accurate): in a run that does not panic, the flag passed with the [i]-th
    item ([i+1 < k]: not the last item the consumer is willing to take) is [true] iff another
    item follows.  For the last item of a consumer that stops, [sm_prefix] says that the flag is
    the one a consumer taking more items would see. *)
Theorem flag_accurate : forall k evs ys f,
  solve_multiple k evs = (ys, f) -> no_panic f ->
  forall i, S i < k -> i < length ys -> (snd (nth i ys (None, false)) = true <-> S i < length ys).
Proof. intros k evs ys f H. apply (sm_flags k (init evs) ys f (inv_init evs) H). Qed.

Theorem solve_multiple_prefix : forall k j evs,
  fst (solve_multiple k evs) = firstn k (fst (solve_multiple (k + j) evs)).
Proof. intros. apply sm_prefix. Qed.

(** ** A solver that was used before: the stream starts on a table that already holds answers

    [iter_answers] always starts at answer index 0, but the root table may have been filled —
    partly or completely, with or without strands left — by earlier queries on the same
    forest.  Nothing above depends on the table being empty: the flag is a function of the
    stream position (a further valid answer is stored or can still be pulled), not of
    whether strands remain. *)

Definition resume (t : table) (evs : list event) : sstate := mkS t 0 evs.

Lemma inv_resume : forall t evs, tbl_ok t -> inv (resume t evs).
Proof. intros t evs H. split; [exact H|]. intros _. cbn. lia. Qed.

Lemma J_resume : forall t evs, tbl_ok t -> J (resume t evs) [].
Proof.
  intros t evs H. split; [now apply inv_resume|]. split; [intros y []|]. split; [constructor|intros _ y []].
Qed.

(** THEOREM (flag_accurate_used): the flags are accurate on ANY well-formed table state,
    in particular after arbitrary earlier operations ([run_ops]) and with no event (strand)
    left. *)
Theorem flag_accurate_used : forall k t evs ys f,
  tbl_ok t -> sm k (resume t evs) = (ys, f) -> no_panic f ->
  forall i, S i < k -> i < length ys -> (snd (nth i ys (None, false)) = true <-> S i < length ys).
Proof. intros k t evs ys f Ht. apply (sm_flags k (resume t evs) ys f (inv_resume t evs Ht)). Qed.

Corollary flag_accurate_after_ops : forall k ops evs ys f,
  sm k (resume (run_ops ops) evs) = (ys, f) -> no_panic f ->
  forall i, S i < k -> i < length ys -> (snd (nth i ys (None, false)) = true <-> S i < length ys).
Proof. intros k ops evs ys f. apply flag_accurate_used. apply (fold_ops_ok ops empty_table tbl_ok_empty). Qed.

Theorem yields_nodup_used : forall k t evs,
  tbl_ok t ->
  NoDup (flat_map (fun y : yitem => item_csubs (item_of (fst y))) (fst (sm k (resume t evs)))).
Proof.
  intros k t evs Ht. rewrite visible_raws. apply NoDup_visible.
  destruct (sm_nodup k (resume t evs) [] (J_resume t evs Ht)) as [Hn Hd]. cbn [app] in *.
  apply (NoDup_map_transfer _ _ _ ta_key csub); [|exact Hn].
  intros a b Ha Hb E. apply csub_inj; auto.
Qed.

(** ** Non-vacuity (by computation) *)

Module SlgTableExamples.
  Definition k1 := mkKey [tapp 0 []] [] [].
  Definition k2 := mkKey [tapp 1 [TVar 0]] [] [].
  Definition kd := mkKey [tapp 2 []] [] [tapp 9 []].         (* has a delayed subgoal *)
  Definition ki := mkKey [TVar 0] [] [].                      (* identity substitution *)
  Definition a1 := mkAns k1 false.
  Definition a2 := mkAns k2 false.
  Definition ad := mkAns kd false.
  Definition ai := mkAns ki true.
  Definition evs := [EvAnswer a1; EvAnswer a1; EvQuantum; EvAnswer ad; EvAnswer a2; EvAnswer a1; EvAnswer ai].

  (** duplicates and the invalid answer are skipped; the flags are [true; true; false] *)
  Example run_all : solve_multiple 10 evs = ([(Some a1, true); (Some a2, true); (Some ai, false)], FComplete).
  Proof. vm_compute. reflexivity. Qed.

  Example run_cut : solve_multiple 2 evs = ([(Some a1, true); (Some a2, true)], FCut).
  Proof. vm_compute. reflexivity. Qed.

  Example items_all : map (fun y => item_of (fst y)) (fst (solve_multiple 10 evs)) =
                      [IDefinite ([tapp 0 []], []); IDefinite ([tapp 1 [TVar 0]], []); IFloundered].
  Proof. vm_compute. reflexivity. Qed.

  (** a floundered root table yields [Floundered] for as long as the consumer asks *)
  Example run_flounder : solve_multiple 4 [EvAnswer a1; EvFlounder; EvAnswer a2] =
                         ([(Some a1, true); (None, true); (None, true); (None, true)], FCut).
  Proof. vm_compute. reflexivity. Qed.

  (** the panic of [push_answer] is reachable in the model *)
  Example run_panic : snd (solve_multiple 4 [EvAnswer (mkAns k1 true); EvAnswer a1]) = FPanic 2.
  Proof. vm_compute. reflexivity. Qed.

  Example flag_accurate_nonvacuous :
    no_panic (snd (solve_multiple 10 evs)) /\ length (fst (solve_multiple 10 evs)) = 3.
  Proof. split; [intros c H; vm_compute in H; discriminate|vm_compute; reflexivity]. Qed.

  (** a table completely evaluated by an earlier query (no strand = no event left): the
      second enumeration has the same flags as the first *)
  Example run_again_on_completed_table :
    sm 10 (resume (run_ops [OPush a1; OPush ad; OPush a2]) []) = ([(Some a1, true); (Some a2, false)], FComplete).
  Proof. vm_compute. reflexivity. Qed.

  Example push_answer_nodup_nonvacuous :
    map ta_key (t_answers (run_ops [OPush a1; OPush a2; OPush a1; OPush ad])) = [k1; k2; kd].
  Proof. vm_compute. reflexivity. Qed.
End SlgTableExamples.

(** * The contract of an enumeration, relative to the declarative semantics *)

Inductive eitem : Type :=
| EDefinite (vubs : list N) (s : list ty)
| EAmbiguous (vubs : list N) (s : list ty)
| EFloundered.

Definition item_subst (it : eitem) : option (list ty) :=
  match it with EDefinite _ s | EAmbiguous _ s => Some s | EFloundered => None end.

Definition is_flo (it : eitem) : bool := match it with EFloundered => true | _ => false end.

Definition covers (it : eitem) (th : list ty) : Prop :=
  match item_subst it with Some s => exists tau, th = app_ans s tau | None => False end.

Definition variants (a b : eitem) : Prop :=
  exists s1 s2, item_subst a = Some s1 /\ item_subst b = Some s2 /\
                (exists sg, s1 = map (subst sg) s2) /\ (exists sg, s2 = map (subst sg) s1).

Fixpoint dup_free (items : list eitem) : Prop :=
  match items with
  | [] => True
  | a :: r => (forall b, In b r -> ~ variants a b) /\ dup_free r
  end.

(** The property: every [Definite] item is sound (each of its instances is a solution), no
    item is yielded twice (up to renaming of its variables), and a drained enumeration
    without [Floundered] items covers every solution. *)
Definition enum_contract (P : program) (env : list clause) (q : query)
                         (items : list eitem) (complete : bool) : Prop :=
  (forall vubs s, In (EDefinite vubs s) items ->
     forall tau, respects_allb (q_nph q) vubs tau = true -> Sols P env q (app_ans s tau)) /\
  dup_free items /\
  (complete = true -> existsb is_flo items = false ->
     forall th, Sols P env q th -> exists it, In it items /\ covers it th).

Definition item_sound (fuel : nat) (P : program) (env : list clause) (q : query) (it : eitem) : option bool :=
  match it with
  | EDefinite vubs s => sound_half fuel P env q vubs s
  | _ => Some true
  end.

Definition is_false (o : option bool) : bool := match o with Some false => true | _ => false end.

Definition variant_item (a b : eitem) : bool :=
  match item_subst a, item_subst b with
  | Some s1, Some s2 => instance_of s1 s2 && instance_of s2 s1
  | _, _ => false
  end.

Fixpoint has_dup (items : list eitem) : bool :=
  match items with
  | [] => false
  | a :: r => existsb (variant_item a) r || has_dup r
  end.

Definition covered (items : list eitem) (th : list ty) : bool :=
  existsb (fun it => match item_subst it with Some s => instance_of th s | None => false end) items.

Definition uncovered fuel P env q items (cands : list (list ty)) : bool :=
  existsb (fun th => is_true (cand_sol fuel P env q th) && negb (covered items th)) cands.

(** Alarm codes: 1 = a [Definite] item has a false instance, 4 = an item is yielded twice,
    2 = a solution is covered by no item of a drained enumeration. *)
Definition check_enum (fuel : nat) (P : program) (env : list clause) (q : query)
                      (items : list eitem) (complete : bool) (cands : list (list ty)) : verdict :=
  if existsb (fun it => is_false (item_sound fuel P env q it)) items then VAlarm 1
  else if has_dup items then VAlarm 4
  else if complete && negb (existsb is_flo items) then
    if uncovered fuel P env q items cands then VAlarm 2
    else if existsb (fun it => is_none (item_sound fuel P env q it)) items || has_incon fuel P env q cands
         then VIncon else VOk
  else if existsb (fun it => is_none (item_sound fuel P env q it)) items then VIncon else VOk.

Lemma has_dup_sound : forall items, has_dup items = true -> ~ dup_free items.
Proof.
  induction items as [|a r IH]; intros H D; cbn [has_dup dup_free] in *; [discriminate|].
  destruct D as [D1 D2]. apply orb_true_iff in H. destruct H as [H|H]; [|now apply IH].
  apply existsb_exists in H. destruct H as [b [Hb Hv]]. apply (D1 b Hb).
  unfold variant_item in Hv. destruct (item_subst a) as [s1|] eqn:E1; [|discriminate].
  destruct (item_subst b) as [s2|] eqn:E2; [|discriminate].
  apply andb_true_iff in Hv. destruct Hv as [V1 V2]. apply instance_of_spec in V1, V2.
  exists s1, s2. auto.
Qed.

(** THEOREM (enum_alarm_sound): whenever the checker raises an alarm on an enumeration, the
    enumeration really violates the property's contract. *)
Theorem enum_alarm_sound : forall fuel P env q items complete cands c,
  rr (allc P env) -> check_enum fuel P env q items complete cands = VAlarm c ->
  ~ enum_contract P env q items complete.
Proof.
  intros fuel P env q items complete cands c Hrr H [C1 [C2 C3]]. unfold check_enum in H.
  destruct (existsb (fun it => is_false (item_sound fuel P env q it)) items) eqn:E1.
  - apply existsb_exists in E1. destruct E1 as [it [Hin Hf]].
    destruct it as [vubs s|vubs s|]; cbn [item_sound is_false] in Hf; try discriminate.
    destruct (sound_half fuel P env q vubs s) as [[|]|] eqn:Es; try discriminate.
    assert (HS : Sols P env q (app_ans s (ftau (fresh_base P env q s) (length vubs)))).
    { apply (C1 vubs s Hin). unfold ftau. apply respects_ftau_from. unfold fresh_base. lia. }
    destruct HS as [_ HS]. unfold sound_half in Es. apply (eval_correct _ _ _ _ _ _ Hrr Es) in HS. discriminate.
  - destruct (has_dup items) eqn:E2; [now apply (has_dup_sound items)|].
    destruct (complete && negb (existsb is_flo items)) eqn:E3.
    + apply andb_true_iff in E3. destruct E3 as [Ec Ef]. apply negb_true_iff in Ef.
      destruct (uncovered fuel P env q items cands) eqn:E4.
      * unfold uncovered in E4. apply existsb_exists in E4. destruct E4 as [th [_ Ht]].
        apply andb_true_iff in Ht. destruct Ht as [T1 T2]. apply negb_true_iff in T2.
        assert (HS : Sols P env q th).
        { apply (cand_sol_true fuel); [exact Hrr|]. destruct (cand_sol fuel P env q th) as [[|]|]; try discriminate. reflexivity. }
        destruct (C3 Ec Ef th HS) as [it [Hin Hc]]. unfold covers in Hc.
        destruct (item_subst it) as [s|] eqn:Ei; [|contradiction]. destruct Hc as [tau Et].
        assert (covered items th = true); [|congruence].
        unfold covered. apply existsb_exists. exists it. split; [exact Hin|]. rewrite Ei.
        apply instance_of_spec. exists (listth tau). exact Et.
      * destruct (existsb _ items || has_incon fuel P env q cands); discriminate.
    + destruct (existsb (fun it => is_none (item_sound fuel P env q it)) items); discriminate.
Qed.

Module EnumExamples.
  Import ContractExamples.
  (* F14: the single [Definite] item SLG yields on the unchanged tree violates the contract *)
  Theorem enum_f14_refuted :
    f14_class P14 q14 = true /\ ~ enum_contract P14 [] q14 [EDefinite [0%N] [S2 (TVar 0)]] true.
  Proof.
    split; [reflexivity|]. apply (enum_alarm_sound 50 P14 [] q14 _ true [] 1 rr14). reflexivity.
  Qed.

  (* growing: struct S0; struct W<T>; impl Tr for S0; impl<T> Tr for W<T> where T: Tr *)
  Definition Z := tapp 0 [].
  Definition W t := tapp 1 [t].
  Definition Tr t := tapp 1000 [t].
  Definition Pg := mkProg [mkClause (Tr Z) []; mkClause (Tr (W (TVar 0))) [Tr (TVar 0)]] [].
  Definition qg := mkQuery 0 [0%N] (GAtom (Tr (TVar 0))).
  Example rrg : rr (allc Pg []).
  Proof. apply rr_allb_spec. reflexivity. Qed.

  (* a sound prefix of the infinite enumeration passes; a skipped answer in a "drained"
     enumeration, a repeated answer and an unsound answer are flagged *)
  Example check_enum_examples :
    check_enum 50 Pg [] qg [EDefinite [] [Z]; EDefinite [] [W Z]] false [[Z]; [W Z]; [W (W Z)]] = VOk /\
    check_enum 50 Pg [] qg [EDefinite [] [Z]; EDefinite [] [W Z]] true [[Z]; [W Z]; [W (W Z)]] = VAlarm 2 /\
    check_enum 50 Pg [] qg [EDefinite [] [Z]; EDefinite [] [Z]] false [] = VAlarm 4 /\
    check_enum 50 Pg [] qg [EDefinite [0%N] [W (TVar 0)]] false [] = VAlarm 1 /\
    check_enum 50 Pg [] qg [EDefinite [] [Z]; EAmbiguous [0%N] [W (TVar 0)]] true [[Z]; [W Z]; [W (W Z)]] = VOk.
  Proof. repeat split; reflexivity. Qed.

  Example enum_contract_nonvacuous :
    enum_contract Pg [] (mkQuery 0 [0%N] (GEq (TVar 0) Z)) [EDefinite [] [Z]] true.
  Proof.
    split; [|split].
    - intros vubs s [H|[]] tau Ht. inversion H; subst. destruct tau; [|discriminate]. split; reflexivity.
    - cbn. split; [intros b []|exact I].
    - intros _ _ th [Hr Hs]. exists (EDefinite [] [Z]). split; [now left|]. cbn. exists [].
      destruct th as [|t [|t' r]]; try discriminate.
      + cbn in Hs. unfold listth in Hs. cbn in Hs. now subst.
      + cbn in Hr. rewrite andb_false_r in Hr. discriminate.
  Qed.
End EnumExamples.

(** * Correspondence interface: a run as a list of numbers

    The check abstracts the answers of a real enumeration into numbered constants
    ([mkKey [TCon n] [] []]; an ambiguous answer with the identity substitution is
    [mkKey [TVar 0] [] []]) and compares the real (items, flags, return value) for several
    consumer budgets with the model's run on the reconstructed event list.
    Item code: [8 n + 2 kind + flag], kind 0 = Definite, 1 = Ambiguous, 2 = Floundered;
    the last number is the return value: 1 = [true] (drained), 0 = [false] (consumer
    stopped), 2 + site = panic. *)

Definition item_code (y : yitem) : N :=
  let f := if snd y then 1%N else 0%N in
  match item_of (fst y) with
  | IDefinite (TCon n :: _, _) => 8 * n + f
  | IAmbiguous (TCon n :: _, _) => 8 * n + 2 + f
  | IDefinite _ => 8 * 999999 + f
  | IAmbiguous _ => 8 * 999999 + 2 + f
  | IFloundered => 4 + f
  end.

Definition fin_code (f : fin) : N :=
  match f with FComplete => 1 | FCut => 0 | FPanic c => 2 + c end.

Definition enc_run (r : list yitem * fin) : list N := map item_code (fst r) ++ [fin_code (snd r)].

Fixpoint ns_eqb (a b : list N) : bool :=
  match a, b with
  | [], [] => true
  | x :: r, y :: s => N.eqb x y && ns_eqb r s
  | _, _ => false
  end.

(** event codes: [4 n + 0] definite answer [n], [4 n + 1] ambiguous answer [n],
    2 = ambiguous answer with the identity substitution, 3 = the table flounders *)
Definition event_of (c : N) : event :=
  if N.eqb c 2 then EvAnswer (mkAns (mkKey [TVar 0] [] []) true)
  else if N.eqb c 3 then EvFlounder
  else EvAnswer (mkAns (mkKey [TCon (c / 4)] [] []) (N.eqb (c mod 4) 1)).

Definition model_run (k : nat) (evcodes : list N) : list N :=
  enc_run (solve_multiple k (map event_of evcodes)).

(** the same on a used solver: [pre] = the answers the root table already holds *)
Definition table_of (codes : list N) : table :=
  fold_left (fun t c => match event_of c with
                        | EvAnswer a => match push_answer t a with OkR (t', _) => t' | PanicR _ => t end
                        | EvFlounder => mark_floundered t
                        | _ => t
                        end) codes empty_table.

Definition model_run_used (k : nat) (pre evcodes : list N) : list N :=
  enc_run (sm k (resume (table_of pre) (map event_of evcodes))).

Example model_run_example :
  model_run 5 [4; 8; 4; 13; 2]%N = [9; 17; 27; 4; 1]%N /\ model_run 2 [4; 8; 4; 13; 2]%N = [9; 17; 0]%N /\
  model_run 3 [4; 3]%N = [9; 5; 5; 0]%N.
Proof. repeat split; vm_compute; reflexivity. Qed.

Example model_run_used_example :
  model_run_used 5 [4; 8; 12]%N [] = [9; 17; 24; 1]%N /\ model_run_used 5 [4; 8]%N [12]%N = [9; 17; 24; 1]%N.
Proof. repeat split; vm_compute; reflexivity. Qed.
